(* P28 - ExtendedReport.Unmarshal (extended_report.go) and packetBuffer.split (packet_buffer.go) as translated from the Go
   text (module GoSrcXr of Gen/FuncsXr.v) equal the model (Model/Xr.v: XR_unmarshal / xr_blocks_loop / unpack_block over
   the reflection model Lib/Reflect.v with the generated layouts Gen/Layouts.v).

   The reflective method packetBuffer.read is not translated; its three call sites are function-valued oracles of
   GoSrcXr.ExtendedReport_Unmarshal.  They are INSTANTIATED here with Lib.Reflect.read (section 2):
     m_read_uint32      pb _   = read TU32 (bytes pb)                 -> (rest, the number)
     m_read_XRHeader    pb _   = read ly_XRHeader (bytes pb)          -> (rest, the header record)
     m_read_ReportBlock pb cur = read (layout_of K) (bytes pb), K the kind of the concrete type held by cur
                                                                       -> (rest, the block record of that type)
   (the current value only selects the layout: every call site passes a fresh zero value). *)
From Coq Require Import String.
From RTCP Require Import Proofs.Tactics Lib.GoSem Lib.Reflect Gen.Layouts Gen.Funcs Gen.FuncsXr Model.Header Model.Xr
  Proofs.GoSemFacts Proofs.SrcConv Proofs.HeaderProofs Proofs.EncXr Proofs.SourceEquiv Proofs.SourceXr Check.GoOpaque Check.XrOracles.
Local Open Scope Z_scope.


(* ================================================================================================ *)
(* 1. conversions                                                                                    *)
(* ================================================================================================ *)
(* 1a. record -> model (the blk_T of Proofs/SourceXr.v on the GoSrcXr records) *)
Definition xhdr_val (h : X.XRHeader) : val :=
  VStruct [vz (X.XRHeader_BlockType h); vz (X.XRHeader_TypeSpecific h); vz (X.XRHeader_BlockLength h)].
Definition xblk_LossRLE (b : X.LossRLEReportBlock) : XRBlock :=
  mkXRBlock KLossRLE (VStruct [xhdr_val (X.LossRLEReportBlock_XRHeader b); vz (X.LossRLEReportBlock_T b); vz (X.LossRLEReportBlock_SSRC b);
    vz (X.LossRLEReportBlock_BeginSeq b); vz (X.LossRLEReportBlock_EndSeq b); VSlice (map vz (X.LossRLEReportBlock_Chunks b))]).
Definition xblk_DupRLE (b : X.DuplicateRLEReportBlock) : XRBlock :=
  mkXRBlock KDupRLE (VStruct [xhdr_val (X.DuplicateRLEReportBlock_XRHeader b); vz (X.DuplicateRLEReportBlock_T b); vz (X.DuplicateRLEReportBlock_SSRC b);
    vz (X.DuplicateRLEReportBlock_BeginSeq b); vz (X.DuplicateRLEReportBlock_EndSeq b); VSlice (map vz (X.DuplicateRLEReportBlock_Chunks b))]).
Definition xblk_PRT (b : X.PacketReceiptTimesReportBlock) : XRBlock :=
  mkXRBlock KPRT (VStruct [xhdr_val (X.PacketReceiptTimesReportBlock_XRHeader b); vz (X.PacketReceiptTimesReportBlock_T b); vz (X.PacketReceiptTimesReportBlock_SSRC b);
    vz (X.PacketReceiptTimesReportBlock_BeginSeq b); vz (X.PacketReceiptTimesReportBlock_EndSeq b); VSlice (map vz (X.PacketReceiptTimesReportBlock_ReceiptTime b))]).
Definition xblk_RRT (b : X.ReceiverReferenceTimeReportBlock) : XRBlock :=
  mkXRBlock KRRT (VStruct [xhdr_val (X.ReceiverReferenceTimeReportBlock_XRHeader b); vz (X.ReceiverReferenceTimeReportBlock_NTPTimestamp b)]).
Definition xdlrr_val (r : X.DLRRReport) : val :=
  VStruct [vz (X.DLRRReport_SSRC r); vz (X.DLRRReport_LastRR r); vz (X.DLRRReport_DLRR r)].
Definition xblk_DLRR (b : X.DLRRReportBlock) : XRBlock :=
  mkXRBlock KDLRR (VStruct [xhdr_val (X.DLRRReportBlock_XRHeader b); VSlice (map xdlrr_val (X.DLRRReportBlock_Reports b))]).
Definition xblk_SS (b : X.StatisticsSummaryReportBlock) : XRBlock :=
  mkXRBlock KSS (VStruct [
    xhdr_val (X.StatisticsSummaryReportBlock_XRHeader b);
    SourceXr.vb (X.StatisticsSummaryReportBlock_LossReports b); SourceXr.vb (X.StatisticsSummaryReportBlock_DuplicateReports b);
    SourceXr.vb (X.StatisticsSummaryReportBlock_JitterReports b); vz (X.StatisticsSummaryReportBlock_TTLorHopLimit b);
    vz (X.StatisticsSummaryReportBlock_SSRC b); vz (X.StatisticsSummaryReportBlock_BeginSeq b);
    vz (X.StatisticsSummaryReportBlock_EndSeq b); vz (X.StatisticsSummaryReportBlock_LostPackets b);
    vz (X.StatisticsSummaryReportBlock_DupPackets b); vz (X.StatisticsSummaryReportBlock_MinJitter b);
    vz (X.StatisticsSummaryReportBlock_MaxJitter b); vz (X.StatisticsSummaryReportBlock_MeanJitter b);
    vz (X.StatisticsSummaryReportBlock_DevJitter b); vz (X.StatisticsSummaryReportBlock_MinTTLOrHL b);
    vz (X.StatisticsSummaryReportBlock_MaxTTLOrHL b); vz (X.StatisticsSummaryReportBlock_MeanTTLOrHL b);
    vz (X.StatisticsSummaryReportBlock_DevTTLOrHL b)]).
Definition xblk_VoIP (b : X.VoIPMetricsReportBlock) : XRBlock :=
  mkXRBlock KVoIP (VStruct [xhdr_val (X.VoIPMetricsReportBlock_XRHeader b);
    vz (X.VoIPMetricsReportBlock_SSRC b); vz (X.VoIPMetricsReportBlock_LossRate b); vz (X.VoIPMetricsReportBlock_DiscardRate b);
    vz (X.VoIPMetricsReportBlock_BurstDensity b); vz (X.VoIPMetricsReportBlock_GapDensity b); vz (X.VoIPMetricsReportBlock_BurstDuration b);
    vz (X.VoIPMetricsReportBlock_GapDuration b); vz (X.VoIPMetricsReportBlock_RoundTripDelay b); vz (X.VoIPMetricsReportBlock_EndSystemDelay b);
    vz (X.VoIPMetricsReportBlock_SignalLevel b); vz (X.VoIPMetricsReportBlock_NoiseLevel b); vz (X.VoIPMetricsReportBlock_RERL b);
    vz (X.VoIPMetricsReportBlock_Gmin b); vz (X.VoIPMetricsReportBlock_RFactor b); vz (X.VoIPMetricsReportBlock_ExtRFactor b);
    vz (X.VoIPMetricsReportBlock_MOSLQ b); vz (X.VoIPMetricsReportBlock_MOSCQ b); vz (X.VoIPMetricsReportBlock_RXConfig b);
    VU 0%N;
    vz (X.VoIPMetricsReportBlock_JBNominal b); vz (X.VoIPMetricsReportBlock_JBMaximum b); vz (X.VoIPMetricsReportBlock_JBAbsMax b)]).
Definition xblk_Unknown (b : X.UnknownReportBlock) : XRBlock :=
  mkXRBlock KUnknown (VStruct [xhdr_val (X.UnknownReportBlock_XRHeader b); VSlice (map vbyte (X.UnknownReportBlock_Bytes b))]).
(* the nil interface value has no model counterpart; it is mapped to an ill-shaped block and excluded by [no_nil] below *)
Definition xblk_of (r : X.ReportBlock) : XRBlock :=
  match r with
  | X.ReportBlock_LossRLEReportBlock a => xblk_LossRLE a
  | X.ReportBlock_DuplicateRLEReportBlock a => xblk_DupRLE a
  | X.ReportBlock_PacketReceiptTimesReportBlock a => xblk_PRT a
  | X.ReportBlock_ReceiverReferenceTimeReportBlock a => xblk_RRT a
  | X.ReportBlock_DLRRReportBlock a => xblk_DLRR a
  | X.ReportBlock_StatisticsSummaryReportBlock a => xblk_SS a
  | X.ReportBlock_VoIPMetricsReportBlock a => xblk_VoIP a
  | X.ReportBlock_UnknownReportBlock a => xblk_Unknown a
  | X.ReportBlock_nil => mkXRBlock KUnknown (VStruct [])
  end.
Definition xr_of (x : X.ExtendedReport) : XR :=
  mkXR (Z.to_N (X.ExtendedReport_SenderSSRC x)) (map xblk_of (X.ExtendedReport_Reports x)).

(* 1b / 2: the conversion model -> record (src_xrblock, src_xr, zero_xr) and the three oracle instantiations
   (m_read_uint32, m_read_XRHeader, m_read_ReportBlock) are in Check/XrOracles.v (definitions only, used by the runner too). *)

(* ================================================================================================ *)
(* 3. packetBuffer.split                                                                             *)
(* ================================================================================================ *)
Definition split_at (n : Z) (b : bytes) : nat := Z.to_nat (Z.min n (glen b)).

Lemma src_packetBuffer_split : forall pb n, 0 <= n ->
  X.packetBuffer_split pb n =
  Ok (X.mkpacketBuffer (skipn (split_at n (X.packetBuffer_bytes pb)) (X.packetBuffer_bytes pb)),
      X.mkpacketBuffer (firstn (split_at n (X.packetBuffer_bytes pb)) (X.packetBuffer_bytes pb))).
Proof.
  intros [b] n Hn. unfold X.packetBuffer_split, split_at, gslice_to. cbn [X.packetBuffer_bytes X.set_packetBuffer_bytes].
  pose proof (glen_nonneg b) as Hg.
  destruct (Z.ltb_spec (glen b) n) as [Hl|Hl].
  - rewrite gslice_ok by lia. rewrite gslice_from_ok by lia. cbn [bind skipn].
    rewrite Z.min_r by lia. rewrite Z.sub_0_r. reflexivity.
  - rewrite gslice_ok by lia. rewrite gslice_from_ok by lia. cbn [bind skipn].
    rewrite Z.min_l by lia. rewrite Z.sub_0_r. reflexivity.
Qed.
(* for a negative size Go's b.bytes[:size] panics, and so does the translation (never reached from Unmarshal) *)
Lemma src_packetBuffer_split_neg : forall pb n, n < 0 -> X.packetBuffer_split pb n = Panic.
Proof.
  intros [b] n Hn. unfold X.packetBuffer_split, gslice_to, gslice. cbn [X.packetBuffer_bytes].
  pose proof (glen_nonneg b) as Hg.
  destruct (Z.ltb_spec (glen b) n) as [Hl|Hl]; [lia|].
  destruct (Z.ltb_spec n 0) as [H0|H0]; [|lia]. rewrite orb_true_r. reflexivity.
Qed.
Lemma src_packetBuffer_split_concat : forall pb n r w, X.packetBuffer_split pb n = Ok (r, w) ->
  (X.packetBuffer_bytes w ++ X.packetBuffer_bytes r)%list = X.packetBuffer_bytes pb /\ glen (X.packetBuffer_bytes w) = Z.min n (glen (X.packetBuffer_bytes pb)).
Proof.
  intros pb n r w H. destruct (Z.ltb_spec n 0) as [Hn|Hn].
  - rewrite src_packetBuffer_split_neg in H by lia. discriminate.
  - rewrite src_packetBuffer_split in H by lia. inversion H. cbn [X.packetBuffer_bytes]. split; [apply firstn_skipn|].
    rewrite glen_firstn. unfold split_at. pose proof (glen_nonneg (X.packetBuffer_bytes pb)). lia.
Qed.

(* ================================================================================================ *)
(* 4. one iteration of the translated block loop, for any oracles                                    *)
(* ================================================================================================ *)
(* the `switch xrHeader.BlockType` of the Go text: the fresh zero value of the concrete type *)
Definition new_block (bt : Z) : X.ReportBlock :=
  if bt =? 1 then X.ReportBlock_LossRLEReportBlock (X.mkLossRLEReportBlock (X.mkXRHeader 0 0 0) 0 0 0 0 [])
  else if bt =? 2 then X.ReportBlock_DuplicateRLEReportBlock (X.mkDuplicateRLEReportBlock (X.mkXRHeader 0 0 0) 0 0 0 0 [])
  else if bt =? 3 then X.ReportBlock_PacketReceiptTimesReportBlock (X.mkPacketReceiptTimesReportBlock (X.mkXRHeader 0 0 0) 0 0 0 0 [])
  else if bt =? 4 then X.ReportBlock_ReceiverReferenceTimeReportBlock (X.mkReceiverReferenceTimeReportBlock (X.mkXRHeader 0 0 0) 0)
  else if bt =? 5 then X.ReportBlock_DLRRReportBlock (X.mkDLRRReportBlock (X.mkXRHeader 0 0 0) [])
  else if bt =? 6 then X.ReportBlock_StatisticsSummaryReportBlock (X.mkStatisticsSummaryReportBlock (X.mkXRHeader 0 0 0) false false false 0 0 0 0 0 0 0 0 0 0 0 0 0 0)
  else if bt =? 7 then X.ReportBlock_VoIPMetricsReportBlock (X.mkVoIPMetricsReportBlock (X.mkXRHeader 0 0 0) 0 0 0 0 0 0 0 0 0 0 0 0 0 0 0 0 0 0 0 0 0)
  else X.ReportBlock_UnknownReportBlock (X.mkUnknownReportBlock (X.mkXRHeader 0 0 0) []).

Section LoopUnfold.
Variable oH : X.packetBuffer -> X.XRHeader -> res (X.packetBuffer * X.XRHeader).
Variable oB : X.packetBuffer -> X.ReportBlock -> res (X.packetBuffer * X.ReportBlock).

Definition loop_body (rec : X.packetBuffer -> X.ExtendedReport -> res X.ExtendedReport)
    (buf : X.packetBuffer) (x : X.ExtendedReport) : res X.ExtendedReport :=
  if 0 <? glen (X.packetBuffer_bytes buf) then
    match oH buf (X.mkXRHeader 0 0 0) with
    | Ok (_, xh) =>
        match X.packetBuffer_split buf ((X.XRHeader_BlockLength xh + 1) * 4) with
        | Ok (buf2, bb) =>
            match oB bb (new_block (X.XRHeader_BlockType xh)) with
            | Ok (_, blk) =>
                match X.ReportBlock_unpackBlockHeader blk with
                | Ok blk' => rec buf2 (X.set_ExtendedReport_Reports (X.ExtendedReport_Reports x ++ [blk']) x)
                | Err => Err | Panic => Panic | Fuel => Fuel
                end
            | Err => Err | Panic => Panic | Fuel => Fuel
            end
        | Err => Err | Panic => Panic | Fuel => Fuel
        end
    | Err => Err | Panic => Panic | Fuel => Fuel
    end
  else Ok x.

Lemma loop_unfold fuel b buf h x :
  X.ExtendedReport_Unmarshal_loop1 oH oB (S fuel) b buf h x =
  loop_body (fun buf2 x2 => X.ExtendedReport_Unmarshal_loop1 oH oB fuel b buf2 h x2) buf x.
Proof.
  unfold loop_body. cbn [X.ExtendedReport_Unmarshal_loop1].
  destruct (0 <? glen (X.packetBuffer_bytes buf)); [|reflexivity].
  destruct (oH buf (X.mkXRHeader 0 0 0)) as [[pb xh]| | |]; try reflexivity.
  unfold new_block.
  repeat (match goal with |- context [X.XRHeader_BlockType xh =? ?k] => destruct (X.XRHeader_BlockType xh =? k) end; [reflexivity|]).
  reflexivity.
Qed.
End LoopUnfold.

(* ================================================================================================ *)
(* 5. the shape of what Reflect.read returns at the generated layouts                                *)
(* ================================================================================================ *)
Definition is_VU (v : val) : Prop := exists n, v = VU n.
Definition is_hdr (v : val) : Prop := exists a ts c, v = VStruct [VU a; VU ts; VU c].

Lemma read_scalar_inv t k b v r : scalar_size t = Some k -> read t b = Ok (v, r) -> is_VU v.
Proof.
  intros Hk H.
  assert (E : read t b = match scalar_size t with
                         | Some k => if (len b <? N.of_nat k)%N then Err else Ok (VU (unbe (firstn k b)), skipn k b)
                         | None => Err end) by (destruct t; try discriminate; cbn [scalar_size]; rewrite <- short_len; reflexivity).
  rewrite E, Hk in H. destruct (len b <? N.of_nat k)%N; [discriminate|]. inversion H. eexists; reflexivity.
Qed.

(* one step through the field list of a struct read held in hypothesis H *)
Ltac rd_step H :=
  cbv zeta in H;
  match type of H with
  | context [if ?c then Err else _] => destruct c; [discriminate H|]
  | context [bind (read ?t ?b) _] =>
      let x := fresh "x" in let r := fresh "r" in let E := fresh "E" in
      destruct (read t b) as [[x r]| | |] eqn:E; cbn [bind] in H; try discriminate H
  end.
Ltac rd_all H := repeat rd_step H.
Ltac scal E := first [apply (read_scalar_inv _ 1%nat) in E; [|reflexivity] | apply (read_scalar_inv _ 2%nat) in E; [|reflexivity]
                     | apply (read_scalar_inv _ 4%nat) in E; [|reflexivity] | apply (read_scalar_inv _ 8%nat) in E; [|reflexivity]];
               destruct E as [? ->].

Lemma read_hdr_shape b v r : read ly_XRHeader b = Ok (v, r) -> is_hdr v.
Proof.
  unfold ly_XRHeader. rewrite read_struct. cbn [read_fields]. intros H. rd_all H.
  scal E. scal E0. scal E1. inversion H. do 3 eexists; reflexivity.
Qed.
Lemma read_hdr_shape' b v r :
  read (TStruct [Field "BlockType" TU8 false true; Field "TypeSpecific" TU8 false true; Field "BlockLength" TU16 false true]) b = Ok (v, r) -> is_hdr v.
Proof. exact (read_hdr_shape b v r). Qed.

Lemma slice_scalar_shape e k : scalar_size e = Some k -> forall fuel b v r,
  slice_loop e fuel b = Ok (v, r) -> exists l, v = VSlice (map VU l).
Proof.
  intros Hk. induction fuel as [|f IH]; intros b v r H; [discriminate|].
  destruct b as [|c b].
  - rewrite slice_loop_nil in H. inversion H. exists []. reflexivity.
  - rewrite slice_loop_cons in H. destruct (read e (c :: b)) as [[x r1]| | |] eqn:E; try discriminate. cbn [bind] in H.
    destruct (slice_loop e f r1) as [[xs r2]| | |] eqn:E2; try discriminate. cbn [bind] in H.
    apply IH in E2. destruct E2 as [l ->]. apply (read_scalar_inv _ k) in E; [|exact Hk]. destruct E as [n ->].
    inversion H. exists (n :: l). reflexivity.
Qed.
Lemma read_slice_scalar_shape e k b v r : scalar_size e = Some k -> read (TSlice e) b = Ok (v, r) -> exists l, v = VSlice (map VU l).
Proof. intros Hk. rewrite read_slice. apply (slice_scalar_shape e k Hk). Qed.

Lemma read_dlrr_report_shape b v r : read ly_DLRRReport b = Ok (v, r) -> exists t, v = shape_dlrr t.
Proof.
  unfold ly_DLRRReport. rewrite read_struct. cbn [read_fields]. intros H. rd_all H.
  scal E. scal E0. scal E1. inversion H. eexists (_, _, _). reflexivity.
Qed.
Lemma slice_dlrr_shape : forall fuel b v r,
  slice_loop ly_DLRRReport fuel b = Ok (v, r) -> exists rs, v = VSlice (map shape_dlrr rs).
Proof.
  induction fuel as [|f IH]; intros b v r H; [discriminate|].
  destruct b as [|c b].
  - rewrite slice_loop_nil in H. inversion H. exists []. reflexivity.
  - rewrite slice_loop_cons in H. destruct (read ly_DLRRReport (c :: b)) as [[x r1]| | |] eqn:E; try discriminate. cbn [bind] in H.
    destruct (slice_loop ly_DLRRReport f r1) as [[xs r2]| | |] eqn:E2; try discriminate. cbn [bind] in H.
    apply IH in E2. destruct E2 as [l ->]. apply read_dlrr_report_shape in E. destruct E as [t ->].
    inversion H. exists (t :: l). reflexivity.
Qed.

Definition shaped (k : XRKind) (v : val) : Prop :=
  match k with
  | KLossRLE | KDupRLE | KPRT =>
      exists a ts c t s bs es l, v = VStruct [VStruct [VU a; VU ts; VU c]; VU t; VU s; VU bs; VU es; VSlice (map VU l)]
  | KRRT => exists a ts c n, v = VStruct [VStruct [VU a; VU ts; VU c]; VU n]
  | KDLRR => exists a ts c rs, v = VStruct [VStruct [VU a; VU ts; VU c]; VSlice (map shape_dlrr rs)]
  | KSS => exists a ts c f1 f2 f3 f4 f5 f6 f7 f8 f9 f10 f11 f12 f13 f14 f15 f16 f17,
      v = VStruct [VStruct [VU a; VU ts; VU c]; VU f1; VU f2; VU f3; VU f4; VU f5; VU f6; VU f7; VU f8; VU f9; VU f10;
                   VU f11; VU f12; VU f13; VU f14; VU f15; VU f16; VU f17] /\ (f1 < 2 /\ f2 < 2 /\ f3 < 2)%N
  | KVoIP => exists a ts c f1 f2 f3 f4 f5 f6 f7 f8 f9 f10 f11 f12 f13 f14 f15 f16 f17 f18 f20 f21 f22,
      v = VStruct [VStruct [VU a; VU ts; VU c]; VU f1; VU f2; VU f3; VU f4; VU f5; VU f6; VU f7; VU f8; VU f9; VU f10;
                   VU f11; VU f12; VU f13; VU f14; VU f15; VU f16; VU f17; VU f18; VU 0%N; VU f20; VU f21; VU f22]
  | KUnknown => exists a ts c (bs : bytes), v = VStruct [VStruct [VU a; VU ts; VU c]; VSlice (map vbyte bs)]
  end.

Ltac hdr E := apply read_hdr_shape' in E; destruct E as (? & ? & ? & ->).
Ltac scals := repeat match goal with E : read _ _ = Ok _ |- _ => scal E end.

Lemma read_shaped k w v r : read (layout_of k) w = Ok (v, r) -> shaped k v.
Proof.
  destruct k; cbn [layout_of shaped];
  [unfold ly_LossRLEReportBlock | unfold ly_DuplicateRLEReportBlock | unfold ly_PacketReceiptTimesReportBlock
  | unfold ly_ReceiverReferenceTimeReportBlock | unfold ly_DLRRReportBlock | unfold ly_StatisticsSummaryReportBlock
  | unfold ly_VoIPMetricsReportBlock | unfold ly_UnknownReportBlock];
  rewrite read_struct; cbn [read_fields zero_of]; intros H; rd_all H; hdr E.
  - apply (read_slice_scalar_shape _ 2%nat) in E3; [|reflexivity]. destruct E3 as [l ->]. scals. inversion H. repeat eexists.
  - apply (read_slice_scalar_shape _ 2%nat) in E3; [|reflexivity]. destruct E3 as [l ->]. scals. inversion H. repeat eexists.
  - apply (read_slice_scalar_shape _ 4%nat) in E3; [|reflexivity]. destruct E3 as [l ->]. scals. inversion H. repeat eexists.
  - scals. inversion H. repeat eexists.
  - rewrite read_slice in E0. apply slice_dlrr_shape in E0. destruct E0 as [rs ->]. inversion H. repeat eexists.
  - scals. inversion H. repeat eexists; lia.
  - scals. inversion H. repeat eexists.
  - rewrite read_slice, slice_loop_bytes in E0 by lia. inversion E0. subst x0. inversion H.
    exists x1, x2, x3, r0. unfold vbyte. rewrite map_map. reflexivity.
Qed.

(* ================================================================================================ *)
(* 6. unpackBlockHeader (translated, through the dispatch on the dynamic type) = unpack_block        *)
(* ================================================================================================ *)
Ltac xsimpl :=
  cbv [src_xrblock hdr_of]; cbn [xb_kind xb_val fld nth zv bv zlist blist dlrrs_of X.ReportBlock_unpackBlockHeader];
  cbv [X.LossRLEReportBlock_unpackBlockHeader X.set_LossRLEReportBlock_T X.LossRLEReportBlock_XRHeader
       X.LossRLEReportBlock_T X.LossRLEReportBlock_SSRC X.LossRLEReportBlock_BeginSeq X.LossRLEReportBlock_EndSeq X.LossRLEReportBlock_Chunks
       X.DuplicateRLEReportBlock_unpackBlockHeader X.set_DuplicateRLEReportBlock_T X.DuplicateRLEReportBlock_XRHeader
       X.DuplicateRLEReportBlock_T X.DuplicateRLEReportBlock_SSRC X.DuplicateRLEReportBlock_BeginSeq X.DuplicateRLEReportBlock_EndSeq X.DuplicateRLEReportBlock_Chunks
       X.PacketReceiptTimesReportBlock_unpackBlockHeader X.set_PacketReceiptTimesReportBlock_T X.PacketReceiptTimesReportBlock_XRHeader
       X.PacketReceiptTimesReportBlock_T X.PacketReceiptTimesReportBlock_SSRC X.PacketReceiptTimesReportBlock_BeginSeq X.PacketReceiptTimesReportBlock_EndSeq X.PacketReceiptTimesReportBlock_ReceiptTime
       X.XRHeader_TypeSpecific X.XRHeader_BlockType X.XRHeader_BlockLength].

Lemma bv_flag ts p : negb (Z.land (Z.of_N ts) (Z.pos p) =? 0) = bv (VU (if (N.land ts (N.pos p) =? 0)%N then 0 else 1)%N).
Proof. rewrite Zland_N_r, Zeqb_N_0r. cbn [bv]. destruct (N.land ts (N.pos p) =? 0)%N; reflexivity. Qed.
Lemma toh_eq ts : gshr (Z.land (Z.of_N ts) 24) 3 = Z.of_N (N.land ts 24 / 8)%N.
Proof. rewrite Zland_N_r, gshr_N_r, N.shiftr_div_pow2. reflexivity. Qed.

Lemma unpack_commute k v : shaped k v ->
  X.ReportBlock_unpackBlockHeader (src_xrblock (mkXRBlock k v)) = Ok (src_xrblock (unpack_block (mkXRBlock k v))).
Proof.
  destruct k; cbn [shaped]; intros H.
  - destruct H as (a & ts & c & t & s & bs & es & l & ->). rewrite model_unpack_LossRLE. xsimpl. rewrite Zland_N_r. reflexivity.
  - destruct H as (a & ts & c & t & s & bs & es & l & ->). rewrite model_unpack_DupRLE. xsimpl. rewrite Zland_N_r. reflexivity.
  - destruct H as (a & ts & c & t & s & bs & es & l & ->). rewrite model_unpack_PRT. xsimpl. rewrite Zland_N_r. reflexivity.
  - reflexivity.
  - reflexivity.
  - destruct H as (a & ts & c & f1 & f2 & f3 & f4 & f5 & f6 & f7 & f8 & f9 & f10 & f11 & f12 & f13 & f14 & f15 & f16 & f17 & -> & _).
    rewrite model_unpack_SS. xsimpl.
    cbv [X.StatisticsSummaryReportBlock_unpackBlockHeader X.set_StatisticsSummaryReportBlock_LossReports
         X.set_StatisticsSummaryReportBlock_DuplicateReports X.set_StatisticsSummaryReportBlock_JitterReports
         X.set_StatisticsSummaryReportBlock_TTLorHopLimit X.StatisticsSummaryReportBlock_XRHeader
         X.StatisticsSummaryReportBlock_LossReports X.StatisticsSummaryReportBlock_DuplicateReports
         X.StatisticsSummaryReportBlock_JitterReports X.StatisticsSummaryReportBlock_TTLorHopLimit
         X.StatisticsSummaryReportBlock_SSRC X.StatisticsSummaryReportBlock_BeginSeq X.StatisticsSummaryReportBlock_EndSeq
         X.StatisticsSummaryReportBlock_LostPackets X.StatisticsSummaryReportBlock_DupPackets X.StatisticsSummaryReportBlock_MinJitter
         X.StatisticsSummaryReportBlock_MaxJitter X.StatisticsSummaryReportBlock_MeanJitter X.StatisticsSummaryReportBlock_DevJitter
         X.StatisticsSummaryReportBlock_MinTTLOrHL X.StatisticsSummaryReportBlock_MaxTTLOrHL X.StatisticsSummaryReportBlock_MeanTTLOrHL
         X.StatisticsSummaryReportBlock_DevTTLOrHL X.XRHeader_TypeSpecific].
    rewrite !bv_flag, toh_eq. reflexivity.
  - reflexivity.
  - reflexivity.
Qed.

(* ================================================================================================ *)
(* 7. the block loop: the translated loop with the reflection oracles = the model's xr_blocks_loop   *)
(* ================================================================================================ *)
Lemma kind_new_block a : kind_of_rb (new_block (Z.of_N a)) = Some (kind_of_block_type a).
Proof.
  unfold new_block, kind_of_block_type. consts.
  repeat (match goal with |- context [Z.of_N a =? Z.pos ?p] => rewrite (Zeqb_N_r a p); destruct (a =? N.pos p)%N end; [reflexivity|]).
  reflexivity.
Qed.

Lemma xr_loop_nil f : xr_blocks_loop (S f) [] = Ok [].
Proof. reflexivity. Qed.
Lemma xr_loop_cons f c0 buf' :
  xr_blocks_loop (S f) (c0 :: buf') =
  let buf := c0 :: buf' in
  let* (hv, _) := read ly_XRHeader buf in
  let bt := val_N (get_field ly_XRHeader hv "BlockType"%string) in
  let bl := val_N (get_field ly_XRHeader hv "BlockLength"%string) in
  let kind := kind_of_block_type bt in
  let blockLength := ((bl + 1) * 4)%N in
  let size := if (len buf <? blockLength)%N then len buf else blockLength in
  let window := firstn (N.to_nat size) buf in
  let rest := skipn (N.to_nat size) buf in
  let* (v, _) := read (layout_of kind) window in
  let blk := unpack_block {| xb_kind := kind; xb_val := v |} in
  let* r := xr_blocks_loop f rest in
  Ok (blk :: r).
Proof. reflexivity. Qed.

Lemma split_at_model (c : N) (buf : bytes) :
  split_at ((Z.of_N c + 1) * 4) buf = N.to_nat (if (len buf <? (c + 1) * 4)%N then len buf else ((c + 1) * 4)%N).
Proof.
  unfold split_at. rewrite glen_len. destruct (N.ltb_spec (len buf) ((c + 1) * 4)); lia.
Qed.

Definition app_blocks (x : X.ExtendedReport) (bs : list XRBlock) : X.ExtendedReport :=
  X.mkExtendedReport (X.ExtendedReport_SenderSSRC x) (X.ExtendedReport_Reports x ++ map src_xrblock bs).

Lemma loop_equiv : forall fuel b h buf x,
  X.ExtendedReport_Unmarshal_loop1 m_read_XRHeader m_read_ReportBlock fuel b (X.mkpacketBuffer buf) h x =
  res_map (app_blocks x) (xr_blocks_loop fuel buf).
Proof.
  induction fuel as [|f IH]; intros b h buf x; [reflexivity|].
  rewrite loop_unfold. unfold loop_body. cbn [X.packetBuffer_bytes].
  destruct buf as [|c0 buf'].
  - rewrite xr_loop_nil. cbn [res_map]. unfold app_blocks. cbn [map]. rewrite app_nil_r. destruct x; reflexivity.
  - rewrite xr_loop_cons. cbv zeta.
    assert (Hpos : (0 <? glen (c0 :: buf')) = true).
    { rewrite glen_cons. pose proof (glen_nonneg buf'). destruct (Z.ltb_spec 0 (1 + glen buf')); [reflexivity|lia]. }
    rewrite Hpos. clear Hpos. set (buf := c0 :: buf').
    unfold m_read_XRHeader at 1. cbn [X.packetBuffer_bytes].
    destruct (read ly_XRHeader buf) as [[hv rest0]| | |] eqn:EH; cbn [bind res_map]; try reflexivity.
    apply read_hdr_shape in EH. destruct EH as (a & ts & c & ->).
    change (VStruct [VU a; VU ts; VU c]) with (v_hdr a ts c).
    destruct (hdr_get a ts c) as (-> & _ & ->).
    unfold v_hdr, hdr_of. cbn [fld nth zv X.XRHeader_BlockType X.XRHeader_BlockLength].
    rewrite src_packetBuffer_split by lia. cbn [X.packetBuffer_bytes].
    rewrite split_at_model.
    set (size := if (len buf <? (c + 1) * 4)%N then len buf else ((c + 1) * 4)%N).
    unfold m_read_ReportBlock at 1. rewrite kind_new_block. cbn [X.packetBuffer_bytes].
    destruct (read (layout_of (kind_of_block_type a)) (firstn (N.to_nat size) buf)) as [[v rest1]| | |] eqn:EB;
      cbn [bind res_map]; try reflexivity.
    apply read_shaped in EB. rewrite (unpack_commute _ _ EB).
    rewrite IH.
    destruct (xr_blocks_loop f (skipn (N.to_nat size) buf)) as [bs| | |]; cbn [bind res_map]; try reflexivity.
    unfold app_blocks, X.set_ExtendedReport_Reports. cbn [X.ExtendedReport_SenderSSRC X.ExtendedReport_Reports map].
    rewrite <- app_assoc. reflexivity.
Qed.

(* ================================================================================================ *)
(* 8. MAIN: ExtendedReport.Unmarshal                                                                 *)
(* ================================================================================================ *)
(* GoSrcXr has its own copy of the Header record and of Header.Unmarshal (same text as GoSrc's) *)
Definition xsrc_header (h : Header) : X.Header :=
  X.mkHeader (h_pad h) (Z.of_N (h_count h)) (Z.of_N (h_type h)) (Z.of_N (h_len h)).
Definition xh_of (h : GoSrc.Header) : X.Header :=
  X.mkHeader (GoSrc.Header_Padding h) (GoSrc.Header_Count h) (GoSrc.Header_Type h) (GoSrc.Header_Length h).
Lemma xHeader_Unmarshal_GoSrc h0 b : X.Header_Unmarshal (xh_of h0) b = res_map xh_of (GoSrc.Header_Unmarshal h0 b).
Proof.
  unfold X.Header_Unmarshal, GoSrc.Header_Unmarshal.
  destruct (glen b <? 4); [reflexivity|].
  destruct (gidx b 0) as [t0| | |]; cbn [bind res_map]; try reflexivity.
  destruct (negb _); [reflexivity|].
  destruct (gidx b 1) as [t1| | |]; cbn [bind res_map]; try reflexivity.
  destruct (gslice_from b 2) as [t2| | |]; cbn [bind res_map]; try reflexivity.
  destruct (gbe_get 2 t2) as [t3| | |]; cbn [bind res_map]; try reflexivity.
Qed.
Lemma src_xHeader_Unmarshal b : X.Header_Unmarshal (X.mkHeader false 0 0 0) b = res_map xsrc_header (Header_unmarshal b).
Proof.
  change (X.mkHeader false 0 0 0) with (xh_of (GoSrc.mkHeader false 0 0 0)).
  rewrite xHeader_Unmarshal_GoSrc, src_Header_Unmarshal, res_map_res_map. reflexivity.
Qed.

(* general receiver: the Go method overwrites SenderSSRC and APPENDS the decoded blocks to x.Reports *)
Theorem src_ExtendedReport_Unmarshal_gen : forall x0 b,
  X.ExtendedReport_Unmarshal m_read_uint32 m_read_XRHeader m_read_ReportBlock x0 b =
  res_map (fun x => X.mkExtendedReport (Z.of_N (xr_sender x)) (X.ExtendedReport_Reports x0 ++ map src_xrblock (xr_blocks x)))
          (XR_unmarshal b).
Proof.
  intros x0 b. unfold X.ExtendedReport_Unmarshal, XR_unmarshal. rewrite src_xHeader_Unmarshal.
  destruct (Header_unmarshal b) as [h| | |]; cbn [res_map bind]; try reflexivity.
  unfold xsrc_header. cbn [X.Header_Type]. consts. rewrite Zeqb_N_r.
  destruct (h_type h =? 207)%N; cbn [negb]; [|reflexivity].
  change 4 with (Z.of_N 4). rewrite gslice_from_N.
  destruct (slice_from b 4) as [body| | |]; cbn [bind res_map]; try reflexivity.
  unfold m_read_uint32. cbn [X.packetBuffer_bytes].
  destruct (read TU32 body) as [[sv rest]| | |]; cbn [bind res_map]; try reflexivity.
  unfold glen. rewrite Nat2Z.id. rewrite loop_equiv.
  destruct (xr_blocks_loop (S (List.length b)) rest) as [bs| | |]; cbn [bind res_map]; try reflexivity.
  unfold app_blocks, X.set_ExtendedReport_SenderSSRC. cbn [X.ExtendedReport_SenderSSRC X.ExtendedReport_Reports xr_sender xr_blocks].
  destruct sv; reflexivity.
Qed.

(* MAIN (zero receiver), for every byte string, all outcomes *)
Theorem src_ExtendedReport_Unmarshal : forall b,
  X.ExtendedReport_Unmarshal m_read_uint32 m_read_XRHeader m_read_ReportBlock zero_xr b = res_map src_xr (XR_unmarshal b).
Proof. intros b. rewrite src_ExtendedReport_Unmarshal_gen. reflexivity. Qed.

(* ================================================================================================ *)
(* 9. src_xrblock is injective where it matters: on well-shaped blocks xblk_of inverts it            *)
(* ================================================================================================ *)
Lemma map_vz_zv_VU l : map vz (map zv (map VU l)) = map VU l.
Proof. rewrite !map_map. apply map_ext. intros n. unfold vz. cbn [zv]. rewrite N2Z.id. reflexivity. Qed.
Lemma vb_bv f : (f < 2)%N -> SourceXr.vb (bv (VU f)) = VU f.
Proof. intros H. assert (E : f = 0%N \/ f = 1%N) by lia. destruct E as [-> | ->]; reflexivity. Qed.
Lemma blist_vbyte bs : map (fun x => n2b (Z.to_N (zv x))) (map vbyte bs) = bs.
Proof.
  rewrite map_map. rewrite <- (map_id bs) at 2. apply map_ext. intros c. unfold vbyte. cbn [zv]. rewrite N2Z.id. apply n2b_b2n.
Qed.
Lemma dlrr_roundtrip rs : map xdlrr_val (map dlrr_of (map shape_dlrr rs)) = map shape_dlrr rs.
Proof.
  rewrite !map_map. apply map_ext. intros [[s l] d]. unfold shape_dlrr, dlrr_of, xdlrr_val, vz.
  cbn [fld nth zv X.DLRRReport_SSRC X.DLRRReport_LastRR X.DLRRReport_DLRR]. rewrite !N2Z.id. reflexivity.
Qed.
Lemma vz_of_N n : vz (Z.of_N n) = VU n.
Proof. unfold vz. rewrite N2Z.id. reflexivity. Qed.

Lemma xblk_of_src_xrblock k v : shaped k v -> xblk_of (src_xrblock (mkXRBlock k v)) = mkXRBlock k v.
Proof.
  destruct k; cbn [shaped]; intros H.
  - destruct H as (a & ts & c & t & s & bs & es & l & ->). cbv [src_xrblock hdr_of xblk_of xblk_LossRLE xhdr_val].
    cbn [xb_kind xb_val fld nth zv zlist X.LossRLEReportBlock_XRHeader X.LossRLEReportBlock_T X.LossRLEReportBlock_SSRC
         X.LossRLEReportBlock_BeginSeq X.LossRLEReportBlock_EndSeq X.LossRLEReportBlock_Chunks
         X.XRHeader_TypeSpecific X.XRHeader_BlockType X.XRHeader_BlockLength].
    rewrite !vz_of_N, map_vz_zv_VU. reflexivity.
  - destruct H as (a & ts & c & t & s & bs & es & l & ->). cbv [src_xrblock hdr_of xblk_of xblk_DupRLE xhdr_val].
    cbn [xb_kind xb_val fld nth zv zlist X.DuplicateRLEReportBlock_XRHeader X.DuplicateRLEReportBlock_T X.DuplicateRLEReportBlock_SSRC
         X.DuplicateRLEReportBlock_BeginSeq X.DuplicateRLEReportBlock_EndSeq X.DuplicateRLEReportBlock_Chunks
         X.XRHeader_TypeSpecific X.XRHeader_BlockType X.XRHeader_BlockLength].
    rewrite !vz_of_N, map_vz_zv_VU. reflexivity.
  - destruct H as (a & ts & c & t & s & bs & es & l & ->). cbv [src_xrblock hdr_of xblk_of xblk_PRT xhdr_val].
    cbn [xb_kind xb_val fld nth zv zlist X.PacketReceiptTimesReportBlock_XRHeader X.PacketReceiptTimesReportBlock_T X.PacketReceiptTimesReportBlock_SSRC
         X.PacketReceiptTimesReportBlock_BeginSeq X.PacketReceiptTimesReportBlock_EndSeq X.PacketReceiptTimesReportBlock_ReceiptTime
         X.XRHeader_TypeSpecific X.XRHeader_BlockType X.XRHeader_BlockLength].
    rewrite !vz_of_N, map_vz_zv_VU. reflexivity.
  - destruct H as (a & ts & c & n & ->). cbv [src_xrblock hdr_of xblk_of xblk_RRT xhdr_val].
    cbn [xb_kind xb_val fld nth zv X.ReceiverReferenceTimeReportBlock_XRHeader X.ReceiverReferenceTimeReportBlock_NTPTimestamp
         X.XRHeader_TypeSpecific X.XRHeader_BlockType X.XRHeader_BlockLength].
    rewrite !vz_of_N. reflexivity.
  - destruct H as (a & ts & c & rs & ->). cbv [src_xrblock hdr_of xblk_of xblk_DLRR xhdr_val].
    cbn [xb_kind xb_val fld nth zv dlrrs_of X.DLRRReportBlock_XRHeader X.DLRRReportBlock_Reports
         X.XRHeader_TypeSpecific X.XRHeader_BlockType X.XRHeader_BlockLength].
    rewrite !vz_of_N, dlrr_roundtrip. reflexivity.
  - destruct H as (a & ts & c & f1 & f2 & f3 & f4 & f5 & f6 & f7 & f8 & f9 & f10 & f11 & f12 & f13 & f14 & f15 & f16 & f17 & -> & H1 & H2 & H3).
    cbv [src_xrblock hdr_of xblk_of xblk_SS xhdr_val].
    cbn [xb_kind xb_val fld nth zv X.StatisticsSummaryReportBlock_XRHeader
         X.StatisticsSummaryReportBlock_LossReports X.StatisticsSummaryReportBlock_DuplicateReports
         X.StatisticsSummaryReportBlock_JitterReports X.StatisticsSummaryReportBlock_TTLorHopLimit
         X.StatisticsSummaryReportBlock_SSRC X.StatisticsSummaryReportBlock_BeginSeq X.StatisticsSummaryReportBlock_EndSeq
         X.StatisticsSummaryReportBlock_LostPackets X.StatisticsSummaryReportBlock_DupPackets X.StatisticsSummaryReportBlock_MinJitter
         X.StatisticsSummaryReportBlock_MaxJitter X.StatisticsSummaryReportBlock_MeanJitter X.StatisticsSummaryReportBlock_DevJitter
         X.StatisticsSummaryReportBlock_MinTTLOrHL X.StatisticsSummaryReportBlock_MaxTTLOrHL X.StatisticsSummaryReportBlock_MeanTTLOrHL
         X.StatisticsSummaryReportBlock_DevTTLOrHL X.XRHeader_TypeSpecific X.XRHeader_BlockType X.XRHeader_BlockLength].
    rewrite !vz_of_N, (vb_bv f1 H1), (vb_bv f2 H2), (vb_bv f3 H3). reflexivity.
  - destruct H as (a & ts & c & f1 & f2 & f3 & f4 & f5 & f6 & f7 & f8 & f9 & f10 & f11 & f12 & f13 & f14 & f15 & f16 & f17 & f18 & f20 & f21 & f22 & ->).
    cbv [src_xrblock hdr_of xblk_of xblk_VoIP xhdr_val].
    cbn [xb_kind xb_val fld nth zv X.VoIPMetricsReportBlock_XRHeader
         X.VoIPMetricsReportBlock_SSRC X.VoIPMetricsReportBlock_LossRate X.VoIPMetricsReportBlock_DiscardRate X.VoIPMetricsReportBlock_BurstDensity
         X.VoIPMetricsReportBlock_GapDensity X.VoIPMetricsReportBlock_BurstDuration X.VoIPMetricsReportBlock_GapDuration
         X.VoIPMetricsReportBlock_RoundTripDelay X.VoIPMetricsReportBlock_EndSystemDelay X.VoIPMetricsReportBlock_SignalLevel
         X.VoIPMetricsReportBlock_NoiseLevel X.VoIPMetricsReportBlock_RERL X.VoIPMetricsReportBlock_Gmin X.VoIPMetricsReportBlock_RFactor
         X.VoIPMetricsReportBlock_ExtRFactor X.VoIPMetricsReportBlock_MOSLQ X.VoIPMetricsReportBlock_MOSCQ X.VoIPMetricsReportBlock_RXConfig
         X.VoIPMetricsReportBlock_JBNominal X.VoIPMetricsReportBlock_JBMaximum X.VoIPMetricsReportBlock_JBAbsMax
         X.XRHeader_TypeSpecific X.XRHeader_BlockType X.XRHeader_BlockLength].
    rewrite !vz_of_N. reflexivity.
  - destruct H as (a & ts & c & bs & ->). cbv [src_xrblock hdr_of xblk_of xblk_Unknown xhdr_val].
    cbn [xb_kind xb_val fld nth zv blist X.UnknownReportBlock_XRHeader X.UnknownReportBlock_Bytes
         X.XRHeader_TypeSpecific X.XRHeader_BlockType X.XRHeader_BlockLength].
    rewrite !vz_of_N, blist_vbyte. reflexivity.
Qed.

(* unpack_block keeps the kind and the shape *)
Lemma shaped_unpack k v : shaped k v ->
  xb_kind (unpack_block (mkXRBlock k v)) = k /\ shaped k (xb_val (unpack_block (mkXRBlock k v))).
Proof.
  destruct k; cbn [shaped]; intros H; try (split; [reflexivity|exact H]).
  - destruct H as (a & ts & c & t & s & bs & es & l & ->). rewrite model_unpack_LossRLE. split; [reflexivity|]. cbn [xb_val]. repeat eexists.
  - destruct H as (a & ts & c & t & s & bs & es & l & ->). rewrite model_unpack_DupRLE. split; [reflexivity|]. cbn [xb_val]. repeat eexists.
  - destruct H as (a & ts & c & t & s & bs & es & l & ->). rewrite model_unpack_PRT. split; [reflexivity|]. cbn [xb_val]. repeat eexists.
  - destruct H as (a & ts & c & f1 & f2 & f3 & f4 & f5 & f6 & f7 & f8 & f9 & f10 & f11 & f12 & f13 & f14 & f15 & f16 & f17 & -> & _).
    rewrite model_unpack_SS. split; [reflexivity|]. cbn [xb_val]. repeat eexists.
    + destruct (N.land ts 128 =? 0)%N; lia.
    + destruct (N.land ts 64 =? 0)%N; lia.
    + destruct (N.land ts 32 =? 0)%N; lia.
Qed.

Definition shaped_block (b : XRBlock) : Prop := shaped (xb_kind b) (xb_val b).
Definition shaped_xr (x : XR) : Prop := Forall shaped_block (xr_blocks x).

Lemma xr_blocks_loop_wf : forall fuel buf bs, xr_blocks_loop fuel buf = Ok bs -> Forall shaped_block bs.
Proof.
  induction fuel as [|f IH]; intros buf bs H; [discriminate|].
  destruct buf as [|c0 buf'].
  - rewrite xr_loop_nil in H. inversion H. constructor.
  - rewrite xr_loop_cons in H. cbv zeta in H.
    destruct (read ly_XRHeader (c0 :: buf')) as [[hv r0]| | |]; try discriminate. cbn [bind] in H.
    match type of H with context [read ?t ?w] => destruct (read t w) as [[v r1]| | |] eqn:EB; try discriminate end.
    cbn [bind] in H.
    match type of H with context [xr_blocks_loop f ?w] => destruct (xr_blocks_loop f w) as [r| | |] eqn:ER; try discriminate end.
    cbn [bind] in H. injection H as H'. subst bs. constructor; [|exact (IH _ _ ER)].
    apply read_shaped in EB. destruct (shaped_unpack _ _ EB) as [Hk Hs].
    lazymatch type of EB with shaped ?K _ => change (shaped_block (unpack_block (mkXRBlock K v))) end.
    unfold shaped_block. rewrite Hk. exact Hs.
Qed.
Lemma XR_unmarshal_wf b x : XR_unmarshal b = Ok x -> shaped_xr x.
Proof.
  unfold XR_unmarshal. intros H.
  destruct (Header_unmarshal b) as [h| | |]; try discriminate. cbn [bind] in H.
  destruct (negb _); [discriminate|].
  destruct (slice_from b c_headerLength) as [body| | |]; try discriminate. cbn [bind] in H.
  destruct (read TU32 body) as [[sv rest]| | |]; try discriminate. cbn [bind] in H.
  destruct (xr_blocks_loop (S (List.length b)) rest) as [bs| | |] eqn:E; try discriminate. cbn [bind] in H.
  inversion H. unfold shaped_xr. cbn [xr_blocks]. exact (xr_blocks_loop_wf _ _ _ E).
Qed.

Lemma xr_of_src_xr x : shaped_xr x -> xr_of (src_xr x) = x.
Proof.
  destruct x as [s bs]. unfold shaped_xr, xr_of, src_xr. cbn [xr_blocks xr_sender X.ExtendedReport_SenderSSRC X.ExtendedReport_Reports].
  intros H. rewrite N2Z.id. f_equal. rewrite map_map. rewrite <- (map_id bs) at 2. apply map_ext_in. intros b Hb.
  rewrite Forall_forall in H. specialize (H b Hb). destruct b as [k v]. apply xblk_of_src_xrblock. exact H.
Qed.

(* hence the main theorem read in the other direction: mapping the translated decoder's result back gives the model's *)
Theorem src_ExtendedReport_Unmarshal_inv : forall b,
  res_map xr_of (X.ExtendedReport_Unmarshal m_read_uint32 m_read_XRHeader m_read_ReportBlock zero_xr b) = XR_unmarshal b.
Proof.
  intros b. rewrite src_ExtendedReport_Unmarshal, res_map_res_map.
  destruct (XR_unmarshal b) as [x| | |] eqn:E; cbn [res_map]; try reflexivity.
  rewrite (xr_of_src_xr x (XR_unmarshal_wf b x E)). reflexivity.
Qed.

(* ================================================================================================ *)
(* 10. DestinationSSRC and MarshalSize                                                               *)
(* ================================================================================================ *)
Lemma xdlrr_dest_loop b : forall rest done,
  X.DLRRReportBlock_DestinationSSRC_loop1 rest (Z.of_nat (List.length done)) b (done ++ repeat 0 (List.length rest)) =
  Ok (done ++ map X.DLRRReport_SSRC rest).
Proof.
  induction rest as [|r rest IH]; intros done.
  - cbn [X.DLRRReportBlock_DestinationSSRC_loop1 List.length repeat map]. reflexivity.
  - cbn [X.DLRRReportBlock_DestinationSSRC_loop1 List.length repeat map].
    rewrite gupdl_app. cbn [bind].
    replace (Z.of_nat (List.length done) + 1) with (Z.of_nat (List.length (done ++ [X.DLRRReport_SSRC r])))
      by (rewrite app_length; cbn [List.length]; lia).
    change (done ++ X.DLRRReport_SSRC r :: repeat 0 (List.length rest))
      with (done ++ [X.DLRRReport_SSRC r] ++ repeat 0 (List.length rest)).
    rewrite app_assoc, IH, <- app_assoc. reflexivity.
Qed.
Lemma xDLRR_DestinationSSRC b : X.DLRRReportBlock_DestinationSSRC b = Ok (map X.DLRRReport_SSRC (X.DLRRReportBlock_Reports b)).
Proof.
  unfold X.DLRRReportBlock_DestinationSSRC. rewrite gmakel_ok by (unfold glenl; lia). cbn [bind]. unfold glenl. rewrite Nat2Z.id.
  exact (xdlrr_dest_loop b (X.DLRRReportBlock_Reports b) []).
Qed.

Lemma block_dest_commute k v : shaped k v ->
  X.ReportBlock_DestinationSSRC (src_xrblock (mkXRBlock k v)) = Ok (zN (block_dest (mkXRBlock k v))).
Proof.
  destruct k; cbn [shaped]; intros H.
  - destruct H as (a & ts & c & t & s & bs & es & l & ->). reflexivity.
  - destruct H as (a & ts & c & t & s & bs & es & l & ->). reflexivity.
  - destruct H as (a & ts & c & t & s & bs & es & l & ->). reflexivity.
  - reflexivity.
  - destruct H as (a & ts & c & rs & ->). cbv [src_xrblock]. cbn [xb_kind xb_val fld nth dlrrs_of X.ReportBlock_DestinationSSRC].
    rewrite xDLRR_DestinationSSRC. cbn [X.DLRRReportBlock_Reports]. f_equal.
    change (block_dest _) with (map (fun r => val_N (get_field ly_DLRRReport r "SSRC"%string)) (map shape_dlrr rs)).
    unfold zN. rewrite !map_map. apply map_ext. intros [[s l] d]. reflexivity.
  - destruct H as (a & ts & c & f1 & f2 & f3 & f4 & f5 & f6 & f7 & f8 & f9 & f10 & f11 & f12 & f13 & f14 & f15 & f16 & f17 & -> & _). reflexivity.
  - destruct H as (a & ts & c & f1 & f2 & f3 & f4 & f5 & f6 & f7 & f8 & f9 & f10 & f11 & f12 & f13 & f14 & f15 & f16 & f17 & f18 & f20 & f21 & f22 & ->). reflexivity.
  - reflexivity.
Qed.

Lemma xdest_loop g : forall bs idx acc, Forall shaped_block bs ->
  X.ExtendedReport_DestinationSSRC_loop1 (map src_xrblock bs) idx acc g = Ok (acc ++ zN (flat_map block_dest bs)).
Proof.
  induction bs as [|b bs IH]; intros idx acc H.
  - cbn [map flat_map X.ExtendedReport_DestinationSSRC_loop1]. unfold zN. cbn [map]. rewrite app_nil_r. reflexivity.
  - inversion H as [|b' bs' Hb Hbs]. subst. cbn [map flat_map X.ExtendedReport_DestinationSSRC_loop1].
    destruct b as [k v]. rewrite (block_dest_commute k v Hb). cbn [bind]. rewrite IH by exact Hbs.
    unfold zN. rewrite map_app, app_assoc. reflexivity.
Qed.

(* on every well-shaped model value (in particular every decoder output, XR_unmarshal_wf) *)
Theorem src_ExtendedReport_DestinationSSRC : forall x, shaped_xr x ->
  X.ExtendedReport_DestinationSSRC (src_xr x) = Ok (zN (XR_dest x)).
Proof.
  intros [s bs] H. unfold X.ExtendedReport_DestinationSSRC, src_xr, XR_dest, shaped_xr in *.
  cbn [xr_sender xr_blocks X.ExtendedReport_SenderSSRC X.ExtendedReport_Reports] in *.
  change (gmakel 0 0) with (@Ok (list Z) []). cbn [bind]. rewrite xdest_loop by exact H. reflexivity.
Qed.
Corollary src_ExtendedReport_DestinationSSRC_decoded : forall b x, XR_unmarshal b = Ok x ->
  X.ExtendedReport_DestinationSSRC (src_xr x) = Ok (zN (XR_dest x)).
Proof. intros b x H. apply src_ExtendedReport_DestinationSSRC. exact (XR_unmarshal_wf b x H). Qed.
(* a nil interface value in Reports makes the Go method panic (nil dereference); the decoder never stores one *)
Lemma source_DestinationSSRC_nil_panics s : X.ExtendedReport_DestinationSSRC (X.mkExtendedReport s [X.ReportBlock_nil]) = Panic.
Proof. reflexivity. Qed.

(* the oracle o_wireSize_1 = wireSize(x) is instantiated with Model.Xr.XR_wire_size x = 4 + the sum of the blocks'
   Reflect.wire_size at their layouts (the SenderSSRC word and the blocks; the 4-byte RTCP header is the constant) *)
Theorem src_ExtendedReport_MarshalSize : forall x,
  X.ExtendedReport_MarshalSize (src_xr x) (Z.of_N (XR_wire_size x)) = Z.of_N (XR_size x).
Proof. intros x. unfold X.ExtendedReport_MarshalSize, XR_size. consts. lia. Qed.

(* ================================================================================================ *)
(* 11. corollaries                                                                                   *)
(* ================================================================================================ *)
From RTCP Require Import Spec.Enc Spec.XrSpec Proofs.XrRead Proofs.Total3.
(* Check/GoOpaque.v is RIGHT about the receiver: SenderSSRC is overwritten and the decoded blocks are appended to
   x0's.  The function GoOpaque plugs into GoSrc for this type is the translated one under the instantiation. *)
Theorem opaque_XR_Unmarshal_is_source : forall x0 b,
  X.ExtendedReport_Unmarshal m_read_uint32 m_read_XRHeader m_read_ReportBlock (src_xr x0) b =
  res_map src_xr (GoOpaque.ExtendedReport_Unmarshal x0 b).
Proof.
  intros x0 b. rewrite src_ExtendedReport_Unmarshal_gen. unfold GoOpaque.ExtendedReport_Unmarshal. rewrite res_map_res_map.
  apply res_map_ext. intros x. unfold src_xr. cbn [xr_sender xr_blocks X.ExtendedReport_Reports]. rewrite map_app. reflexivity.
Qed.

Theorem source_C01_xr_unmarshal_total : forall x0 b,
  X.ExtendedReport_Unmarshal m_read_uint32 m_read_XRHeader m_read_ReportBlock x0 b <> Panic /\
  X.ExtendedReport_Unmarshal m_read_uint32 m_read_XRHeader m_read_ReportBlock x0 b <> Fuel.
Proof.
  intros x0 b. rewrite src_ExtendedReport_Unmarshal_gen. destruct (XR_unmarshal_total b) as [HP HF].
  destruct (XR_unmarshal b); cbn [res_map]; split; congruence.
Qed.

(* the decoder never stores a nil block *)
Theorem source_C15_no_nil_block : forall b g,
  X.ExtendedReport_Unmarshal m_read_uint32 m_read_XRHeader m_read_ReportBlock zero_xr b = Ok g ->
  Forall (fun r => r <> X.ReportBlock_nil) (X.ExtendedReport_Reports g).
Proof.
  intros b g. rewrite src_ExtendedReport_Unmarshal. destruct (XR_unmarshal b) as [x| | |]; cbn [res_map]; try discriminate.
  intros H. injection H as <-. unfold src_xr. cbn [X.ExtendedReport_Reports]. apply Forall_forall. intros r Hr.
  apply in_map_iff in Hr. destruct Hr as ([k v] & <- & _). destruct k; discriminate.
Qed.

(* C15 on the translated decoder: the RFC 3611 encoding of any sequence of typed blocks (known types and unknown types
   mixed; each block delimited by its own length field) is decoded to exactly those blocks; an unknown block type comes
   back as an UnknownReportBlock (abs_block gives SUnknown bt ts content) *)
Theorem source_C15_xr_unmarshal_rfc : forall s sbs,
  fits 32 s = true -> Forall (fun sb => D_sblock sb = true) sbs -> (len (List.concat (map enc_sblock sbs)) <= 262132)%N ->
  exists g, X.ExtendedReport_Unmarshal m_read_uint32 m_read_XRHeader m_read_ReportBlock zero_xr
              (frame false 0 207 (be 4 s ++ List.concat (map enc_sblock sbs))) = Ok g /\
            X.ExtendedReport_SenderSSRC g = Z.of_N s /\
            map abs_block (map xblk_of (X.ExtendedReport_Reports g)) = sbs.
Proof.
  intros s sbs Hs Hall Hlen. destruct (XR_roundtrip s sbs Hs Hall Hlen) as (x & Hu & Hsx & Ha & _).
  exists (src_xr x). rewrite src_ExtendedReport_Unmarshal, Hu. cbn [res_map]. split; [reflexivity|]. split.
  - unfold src_xr. cbn [X.ExtendedReport_SenderSSRC]. rewrite Hsx. reflexivity.
  - pose proof (xr_of_src_xr x (XR_unmarshal_wf _ x Hu)) as E. unfold xr_of in E.
    apply (f_equal xr_blocks) in E. cbn [xr_blocks] in E. rewrite E. exact Ha.
Qed.

Print Assumptions src_packetBuffer_split.
Print Assumptions src_packetBuffer_split_neg.
Print Assumptions loop_unfold.
Print Assumptions read_shaped.
Print Assumptions unpack_commute.
Print Assumptions loop_equiv.
Print Assumptions src_ExtendedReport_Unmarshal_gen.
Print Assumptions src_ExtendedReport_Unmarshal.
Print Assumptions src_ExtendedReport_Unmarshal_inv.
Print Assumptions xr_of_src_xr.
Print Assumptions src_ExtendedReport_DestinationSSRC.
Print Assumptions src_ExtendedReport_DestinationSSRC_decoded.
Print Assumptions src_ExtendedReport_MarshalSize.
Print Assumptions opaque_XR_Unmarshal_is_source.
Print Assumptions source_C01_xr_unmarshal_total.
Print Assumptions source_C15_no_nil_block.
Print Assumptions source_C15_xr_unmarshal_rfc.
