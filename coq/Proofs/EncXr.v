(* C15 / C03 / C10: XR (RFC 3611).  The generated layouts are the RFC layouts; for every block kind the
   reflection walker's wireSize / write on a block built from a typed RFC block produce the RFC encoding;
   XR_marshal = enc_XR; header facts; F10 (odd chunk count is emitted unaligned); unknown blocks round trip. *)
From RTCP Require Import Proofs.Tactics Proofs.HeaderProofs Lib.Reflect Gen.Layouts Model.Header Model.Xr Spec.Enc Spec.XrSpec.
From Coq Require Import String.
Local Open Scope N_scope.

(* ------------------------------------------------------------------------------------------------ *)
(* GenFacts: the layouts srcgen produced from the Go structs are the RFC 3611 layouts, written out here *)
(* ------------------------------------------------------------------------------------------------ *)
Section GenFacts.
Local Open Scope string_scope.
(* RFC 3611 section 3: BT (8) | type-specific (8) | block length (16) *)
Definition rfc_XRHeader : ty :=
  TStruct [Field "BlockType" TU8 false true; Field "TypeSpecific" TU8 false true; Field "BlockLength" TU16 false true].
Definition F_hdr : field := Field "XRHeader" rfc_XRHeader false true.
(* 4.1 / 4.2: header (T in the type-specific octet, hence omitted on the wire), SSRC, begin_seq, end_seq, chunks *)
Definition rfc_RLE : ty :=
  TStruct [F_hdr; Field "T" TU8 true true; Field "SSRC" TU32 false true; Field "BeginSeq" TU16 false true;
           Field "EndSeq" TU16 false true; Field "Chunks" (TSlice TU16) false true].
(* 4.3 *)
Definition rfc_PRT : ty :=
  TStruct [F_hdr; Field "T" TU8 true true; Field "SSRC" TU32 false true; Field "BeginSeq" TU16 false true;
           Field "EndSeq" TU16 false true; Field "ReceiptTime" (TSlice TU32) false true].
(* 4.4 *)
Definition rfc_RRT : ty := TStruct [F_hdr; Field "NTPTimestamp" TU64 false true].
(* 4.5 *)
Definition rfc_DLRRReport : ty := TStruct [Field "SSRC" TU32 false true; Field "LastRR" TU32 false true; Field "DLRR" TU32 false true].
Definition rfc_DLRR : ty := TStruct [F_hdr; Field "Reports" (TSlice rfc_DLRRReport) false true].
(* 4.6: L, D, J, ToH live in the type-specific octet *)
Definition rfc_SS : ty :=
  TStruct [F_hdr; Field "LossReports" TBool true true; Field "DuplicateReports" TBool true true; Field "JitterReports" TBool true true;
           Field "TTLorHopLimit" TU8 true true;
           Field "SSRC" TU32 false true; Field "BeginSeq" TU16 false true; Field "EndSeq" TU16 false true;
           Field "LostPackets" TU32 false true; Field "DupPackets" TU32 false true;
           Field "MinJitter" TU32 false true; Field "MaxJitter" TU32 false true; Field "MeanJitter" TU32 false true; Field "DevJitter" TU32 false true;
           Field "MinTTLOrHL" TU8 false true; Field "MaxTTLOrHL" TU8 false true; Field "MeanTTLOrHL" TU8 false true; Field "DevTTLOrHL" TU8 false true].
(* 4.7: one reserved octet after RX config *)
Definition rfc_VoIP : ty :=
  TStruct [F_hdr; Field "SSRC" TU32 false true;
           Field "LossRate" TU8 false true; Field "DiscardRate" TU8 false true; Field "BurstDensity" TU8 false true; Field "GapDensity" TU8 false true;
           Field "BurstDuration" TU16 false true; Field "GapDuration" TU16 false true;
           Field "RoundTripDelay" TU16 false true; Field "EndSystemDelay" TU16 false true;
           Field "SignalLevel" TU8 false true; Field "NoiseLevel" TU8 false true; Field "RERL" TU8 false true; Field "Gmin" TU8 false true;
           Field "RFactor" TU8 false true; Field "ExtRFactor" TU8 false true; Field "MOSLQ" TU8 false true; Field "MOSCQ" TU8 false true;
           Field "RXConfig" TU8 false true; Field "_" TU8 false false; Field "JBNominal" TU16 false true;
           Field "JBMaximum" TU16 false true; Field "JBAbsMax" TU16 false true].
Definition rfc_Unknown : ty := TStruct [F_hdr; Field "Bytes" (TSlice TU8) false true].

Lemma gen_XRHeader : ly_XRHeader = rfc_XRHeader. Proof. reflexivity. Qed.
Lemma gen_LossRLE : ly_LossRLEReportBlock = rfc_RLE. Proof. reflexivity. Qed.
Lemma gen_DupRLE : ly_DuplicateRLEReportBlock = rfc_RLE. Proof. reflexivity. Qed.
Lemma gen_PRT : ly_PacketReceiptTimesReportBlock = rfc_PRT. Proof. reflexivity. Qed.
Lemma gen_RRT : ly_ReceiverReferenceTimeReportBlock = rfc_RRT. Proof. reflexivity. Qed.
Lemma gen_DLRRReport : ly_DLRRReport = rfc_DLRRReport. Proof. reflexivity. Qed.
Lemma gen_DLRR : ly_DLRRReportBlock = rfc_DLRR. Proof. reflexivity. Qed.
Lemma gen_SS : ly_StatisticsSummaryReportBlock = rfc_SS. Proof. reflexivity. Qed.
Lemma gen_VoIP : ly_VoIPMetricsReportBlock = rfc_VoIP. Proof. reflexivity. Qed.
Lemma gen_Unknown : ly_UnknownReportBlock = rfc_Unknown. Proof. reflexivity. Qed.
Lemma gen_ExtendedReport_fields :
  ly_ExtendedReport_fields = [("SenderSSRC", "TU32", false, true); ("Reports", "TBlocks", false, true)].
Proof. reflexivity. Qed.
End GenFacts.

Definition rfc_layout_of (k : XRKind) : ty :=
  match k with
  | KLossRLE | KDupRLE => rfc_RLE | KPRT => rfc_PRT | KRRT => rfc_RRT | KDLRR => rfc_DLRR
  | KSS => rfc_SS | KVoIP => rfc_VoIP | KUnknown => rfc_Unknown
  end.
Lemma GenFacts k : layout_of k = rfc_layout_of k.
Proof. destruct k; reflexivity. Qed.

(* ------------------------------------------------------------------------------------------------ *)
(* "value v of type t goes on the wire as out": wireSize and write agree with out                      *)
(* ------------------------------------------------------------------------------------------------ *)
Definition W (t : ty) (v : val) (out : bytes) : Prop :=
  wire_size t v = len out /\ forall room, len out <= room -> write t v room = Ok (out, room - len out).

Lemma W_eq t v o o' : W t v o -> o = o' -> W t v o'.
Proof. intros H <-. exact H. Qed.

Lemma W_scalar t k n : scalar_size t = Some k -> W t (VU n) (be k n).
Proof.
  intros Hk. split.
  - rewrite len_be. destruct t; try discriminate; injection Hk as <-; reflexivity.
  - intros room Hr. rewrite len_be in *.
    assert (E : write t (VU n) room = match scalar_size t with
                                      | Some k => if room <? N.of_nat k then Err else Ok (be k n, room - N.of_nat k)
                                      | None => Err end) by (destruct t; try discriminate; reflexivity).
    rewrite E, Hk. destruct (N.ltb_spec room (N.of_nat k)); [lia|reflexivity].
Qed.

Lemma W_slice_nil e : W (TSlice e) (VSlice []) [].
Proof. split; [reflexivity|]. intros room _. cbn [write]. rewrite len_nil, N.sub_0_r. reflexivity. Qed.

Lemma W_slice_cons e x vs o1 o2 : W e x o1 -> W (TSlice e) (VSlice vs) o2 -> W (TSlice e) (VSlice (x :: vs)) (o1 ++ o2).
Proof.
  intros [S1 W1] [S2 W2]. split.
  - change (wire_size (TSlice e) (VSlice (x :: vs))) with (wire_size e x + wire_size (TSlice e) (VSlice vs)).
    rewrite len_app. lia.
  - intros room Hr. rewrite len_app in *.
    change (write (TSlice e) (VSlice (x :: vs)) room)
      with (let* (o1, r1) := write e x room in let* (o2, r2) := write (TSlice e) (VSlice vs) r1 in Ok (o1 ++ o2, r2)).
    rewrite W1 by lia. cbn [bind]. rewrite W2 by lia. cbn [bind]. f_equal. f_equal. lia.
Qed.

Lemma W_struct_nil fs : W (TStruct fs) (VStruct []) [].
Proof. split; [reflexivity|]. intros room _. cbn [write]. rewrite len_nil, N.sub_0_r. reflexivity. Qed.

(* exported, not omitted: written through the walker *)
Lemma W_struct_ex n ft fs x vs o1 o2 : W ft x o1 -> W (TStruct fs) (VStruct vs) o2 ->
  W (TStruct (Field n ft false true :: fs)) (VStruct (x :: vs)) (o1 ++ o2).
Proof.
  intros [S1 W1] [S2 W2]. split.
  - change (wire_size (TStruct (Field n ft false true :: fs)) (VStruct (x :: vs)))
      with (wire_size ft x + wire_size (TStruct fs) (VStruct vs)).
    rewrite len_app. lia.
  - intros room Hr. rewrite len_app in *.
    change (write (TStruct (Field n ft false true :: fs)) (VStruct (x :: vs)) room)
      with (let* (o1, r1) := write ft x room in let* (o2, r2) := write (TStruct fs) (VStruct vs) r1 in Ok (o1 ++ o2, r2)).
    rewrite W1 by lia. cbn [bind]. rewrite W2 by lia. cbn [bind]. f_equal. f_equal. lia.
Qed.

(* encoding:"omit": nothing on the wire *)
Lemma W_struct_om n ft ex fs x vs o : W (TStruct fs) (VStruct vs) o -> W (TStruct (Field n ft true ex :: fs)) (VStruct (x :: vs)) o.
Proof.
  intros [S1 W1]. split.
  - change (wire_size (TStruct (Field n ft true ex :: fs)) (VStruct (x :: vs))) with (0 + wire_size (TStruct fs) (VStruct vs)). lia.
  - intros room Hr.
    change (write (TStruct (Field n ft true ex :: fs)) (VStruct (x :: vs)) room) with (write (TStruct fs) (VStruct vs) room).
    apply W1, Hr.
Qed.

(* unexported (the reserved octet): skipped, i.e. left zero *)
Lemma W_struct_un n ft fs x vs o : W (TStruct fs) (VStruct vs) o ->
  W (TStruct (Field n ft false false :: fs)) (VStruct (x :: vs)) (zeros (mem_size ft) ++ o).
Proof.
  intros [S1 W1]. split.
  - change (wire_size (TStruct (Field n ft false false :: fs)) (VStruct (x :: vs))) with (mem_size ft + wire_size (TStruct fs) (VStruct vs)).
    rewrite len_app, len_zeros. lia.
  - intros room Hr. rewrite len_app, len_zeros in *.
    change (write (TStruct (Field n ft false false :: fs)) (VStruct (x :: vs)) room)
      with (if room <? mem_size ft then Err else
            let* (o2, r2) := write (TStruct fs) (VStruct vs) (room - mem_size ft) in Ok (zeros (mem_size ft) ++ o2, r2)).
    destruct (N.ltb_spec room (mem_size ft)); [lia|]. rewrite W1 by lia. cbn [bind]. f_equal. f_equal. lia.
Qed.

Lemma W_slice_scalar e k cs : scalar_size e = Some k -> W (TSlice e) (VSlice (map VU cs)) (List.concat (map (be k) cs)).
Proof.
  intros Hk. induction cs as [|c cs IH]; cbn [map List.concat]; [apply W_slice_nil|].
  apply W_slice_cons; [apply W_scalar, Hk | exact IH].
Qed.

Ltac W_step :=
  first [ apply W_struct_nil
        | eapply W_struct_ex
        | eapply W_struct_om
        | eapply W_struct_un
        | eapply W_scalar; reflexivity
        | eapply W_slice_scalar; reflexivity ].

(* ------------------------------------------------------------------------------------------------ *)
(* concrete model blocks                                                                              *)
(* ------------------------------------------------------------------------------------------------ *)
Definition v_hdr (bt ts bl : N) : val := VStruct [VU bt; VU ts; VU bl].
Definition vb (b : bool) : val := VU (if b then 1 else 0).
Definition mk_rle (h : val) (dup : bool) (t ssrc bs es : N) (chunks : list N) : XRBlock :=
  mkXRBlock (if dup then KDupRLE else KLossRLE) (VStruct [h; VU t; VU ssrc; VU bs; VU es; VSlice (map VU chunks)]).
Definition mk_prt (h : val) (t ssrc bs es : N) (times : list N) : XRBlock :=
  mkXRBlock KPRT (VStruct [h; VU t; VU ssrc; VU bs; VU es; VSlice (map VU times)]).
Definition mk_rrt (h : val) (ntp : N) : XRBlock := mkXRBlock KRRT (VStruct [h; VU ntp]).
Definition v_dlrr (r : N * N * N) : val := let '(a, b, c) := r in VStruct [VU a; VU b; VU c].
Definition mk_dlrr (h : val) (rs : list (N * N * N)) : XRBlock := mkXRBlock KDLRR (VStruct [h; VSlice (map v_dlrr rs)]).
Definition mk_ss (h : val) (l d j : bool) (toh : N) (fs : list N) : XRBlock :=
  mkXRBlock KSS (VStruct (h :: vb l :: vb d :: vb j :: VU toh :: map VU fs)).
Definition mk_voip (h : val) (fs : list N) : XRBlock :=
  mkXRBlock KVoIP (VStruct (h :: map VU (firstn 18 fs) ++ [VU 0] ++ map VU (skipn 18 fs))).
Definition mk_unknown (h : val) (content : list N) : XRBlock := mkXRBlock KUnknown (VStruct [h; VSlice (map VU content)]).

(* the model block of a typed RFC block; a b c are the header fields the caller left in the struct
   (ignored by Marshal for the known kinds; an unknown block carries its type and type-specific octet there) *)
Definition blk_of (a b c : N) (sb : sblock) : XRBlock :=
  match sb with
  | SRLE dup t ssrc bs es cs => mk_rle (v_hdr a b c) dup t ssrc bs es cs
  | SPRT t ssrc bs es ts => mk_prt (v_hdr a b c) t ssrc bs es ts
  | SRRT ntp => mk_rrt (v_hdr a b c) ntp
  | SDLRR rs => mk_dlrr (v_hdr a b c) rs
  | SSS l d j toh fs => mk_ss (v_hdr a b c) l d j toh fs
  | SVoIP fs => mk_voip (v_hdr a b c) fs
  | SUnknown bt ts content => mk_unknown (v_hdr bt ts c) (map b2n content)
  end.

(* header fields and body the RFC prescribes for a typed block *)
Definition sb_bt (sb : sblock) : N :=
  match sb with
  | SRLE dup _ _ _ _ _ => if dup then 2 else 1 | SPRT _ _ _ _ _ => 3 | SRRT _ => 4 | SDLRR _ => 5 | SSS _ _ _ _ _ => 6 | SVoIP _ => 7
  | SUnknown bt _ _ => bt
  end.
Definition sb_ts (sb : sblock) : N :=
  match sb with
  | SRLE _ t _ _ _ _ | SPRT t _ _ _ _ => t
  | SRRT _ | SDLRR _ | SVoIP _ => 0
  | SSS l d j toh _ => (if l then 128 else 0) + (if d then 64 else 0) + (if j then 32 else 0) + toh * 8
  | SUnknown _ ts _ => ts
  end.
Definition sb_body (sb : sblock) : bytes :=
  match sb with
  | SRLE _ _ ssrc bs es cs => be 4 ssrc ++ be 2 bs ++ be 2 es ++ List.concat (map (be 2) cs)
  | SPRT _ ssrc bs es ts => be 4 ssrc ++ be 2 bs ++ be 2 es ++ List.concat (map (be 4) ts)
  | SRRT ntp => be 8 ntp
  | SDLRR rs => List.concat (map (fun '(a, b, c) => be 4 a ++ be 4 b ++ be 4 c) rs)
  | SSS _ _ _ _ fs => enc_fields ss_widths fs
  | SVoIP fs => enc_fields (firstn 18 voip_widths) (firstn 18 fs) ++ [x00] ++ enc_fields (skipn 18 voip_widths) (skipn 18 fs)
  | SUnknown _ _ c => c
  end.
Lemma enc_sblock_parts sb : enc_sblock sb = xr_block (sb_bt sb) (sb_ts sb) (sb_body sb).
Proof. destruct sb; reflexivity. Qed.

Lemma fields_fit_length ws : forall vs, fields_fit ws vs = true -> List.length vs = List.length ws.
Proof.
  induction ws as [|w ws IH]; intros [|v vs] H; cbn [fields_fit] in H; try discriminate; [reflexivity|].
  apply andb_true_iff in H as [_ H]. cbn [List.length]. f_equal. apply IH, H.
Qed.

Ltac destruct_list fs H :=
  cbn [List.length ss_widths voip_widths] in H;
  repeat (let x := fresh "f" in destruct fs as [|x fs]; [discriminate H|]);
  destruct fs; [clear H|discriminate H].

(* ---- W for the header and the DLRR sub-block ---- *)
Lemma W_hdr a b c : W rfc_XRHeader (v_hdr a b c) (be 1 a ++ be 1 b ++ be 2 c).
Proof. eapply W_eq; [unfold rfc_XRHeader, v_hdr; repeat W_step|]. rewrite app_nil_r. reflexivity. Qed.

Lemma W_dlrr_report r : W rfc_DLRRReport (v_dlrr r) (let '(a, b, c) := r in be 4 a ++ be 4 b ++ be 4 c).
Proof. destruct r as [[a b] c]. eapply W_eq; [unfold rfc_DLRRReport, v_dlrr; repeat W_step|]. rewrite app_nil_r. reflexivity. Qed.

Lemma W_dlrr_slice rs :
  W (TSlice rfc_DLRRReport) (VSlice (map v_dlrr rs)) (List.concat (map (fun '(a, b, c) => be 4 a ++ be 4 b ++ be 4 c) rs)).
Proof.
  induction rs as [|r rs IH]; cbn [map List.concat]; [apply W_slice_nil|].
  eapply W_eq; [apply W_slice_cons; [apply W_dlrr_report | exact IH]|]. destruct r as [[a b] c]. reflexivity.
Qed.

(* ---- W for every block kind: header octets as they stand in the struct, then the RFC body ---- *)
Definition hdr_bytes (a b c : N) : bytes := be 1 a ++ be 1 b ++ be 2 c.

Ltac W_block :=
  eapply W_eq;
  [ eapply W_struct_ex; [apply W_hdr | repeat W_step] | ].

Lemma W_rle a b c dup t ssrc bs es cs :
  W rfc_RLE (xb_val (mk_rle (v_hdr a b c) dup t ssrc bs es cs)) (hdr_bytes a b c ++ sb_body (SRLE dup t ssrc bs es cs)).
Proof. unfold rfc_RLE, F_hdr, mk_rle, xb_val. W_block. cbn [sb_body]. rewrite ?app_nil_r. reflexivity. Qed.

Lemma W_prt a b c t ssrc bs es ts :
  W rfc_PRT (xb_val (mk_prt (v_hdr a b c) t ssrc bs es ts)) (hdr_bytes a b c ++ sb_body (SPRT t ssrc bs es ts)).
Proof. unfold rfc_PRT, F_hdr, mk_prt, xb_val. W_block. cbn [sb_body]. rewrite ?app_nil_r. reflexivity. Qed.

Lemma W_rrt a b c ntp : W rfc_RRT (xb_val (mk_rrt (v_hdr a b c) ntp)) (hdr_bytes a b c ++ sb_body (SRRT ntp)).
Proof. unfold rfc_RRT, F_hdr, mk_rrt, xb_val. W_block. cbn [sb_body]. rewrite ?app_nil_r. reflexivity. Qed.

Lemma W_dlrr a b c rs : W rfc_DLRR (xb_val (mk_dlrr (v_hdr a b c) rs)) (hdr_bytes a b c ++ sb_body (SDLRR rs)).
Proof.
  unfold rfc_DLRR, F_hdr, mk_dlrr, xb_val.
  eapply W_eq; [eapply W_struct_ex; [apply W_hdr | eapply W_struct_ex; [apply W_dlrr_slice | apply W_struct_nil]]|].
  cbn [sb_body]. rewrite ?app_nil_r. reflexivity.
Qed.

Lemma W_ss a b c l d j toh fs : List.length fs = 13%nat ->
  W rfc_SS (xb_val (mk_ss (v_hdr a b c) l d j toh fs)) (hdr_bytes a b c ++ sb_body (SSS l d j toh fs)).
Proof.
  intros H. destruct_list fs H.
  unfold rfc_SS, F_hdr, mk_ss, xb_val. cbn [map]. W_block.
  cbn [sb_body enc_fields ss_widths]. rewrite ?app_nil_r. reflexivity.
Qed.

Lemma W_voip a b c fs : List.length fs = 21%nat ->
  W rfc_VoIP (xb_val (mk_voip (v_hdr a b c) fs)) (hdr_bytes a b c ++ sb_body (SVoIP fs)).
Proof.
  intros H. destruct_list fs H.
  unfold rfc_VoIP, F_hdr, mk_voip, xb_val. cbn [map firstn skipn app]. W_block.
  cbn [sb_body enc_fields voip_widths firstn skipn]. rewrite ?app_nil_r, <- ?app_assoc. reflexivity.
Qed.

Lemma concat_be1_b2n (c : bytes) : List.concat (map (be 1) (map b2n c)) = c.
Proof.
  induction c as [|x c IH]; [reflexivity|]. cbn [map List.concat be app]. rewrite n2b_b2n. f_equal. exact IH.
Qed.

Lemma W_unknown a b c content :
  W rfc_Unknown (xb_val (mk_unknown (v_hdr a b c) (map b2n content))) (hdr_bytes a b c ++ content).
Proof.
  unfold rfc_Unknown, F_hdr, mk_unknown, xb_val. W_block. rewrite app_nil_r, concat_be1_b2n. reflexivity.
Qed.

(* ------------------------------------------------------------------------------------------------ *)
(* setupBlockHeader, the typed view, sizes                                                            *)
(* ------------------------------------------------------------------------------------------------ *)
Ltac andb_split H :=
  repeat match type of H with
         | (_ && _)%bool = true => let H1 := fresh H in apply andb_true_iff in H as [H H1]; andb_split H1
         end.

Lemma slice_vals_VU cs : slice_vals (Some (VSlice (map VU cs))) = cs.
Proof. unfold slice_vals. rewrite map_map. induction cs as [|c cs IH]; cbn [map]; [reflexivity|]. f_equal. exact IH. Qed.
Lemma map_n2b_b2n (c : bytes) : map n2b (map b2n c) = c.
Proof. induction c as [|x c IH]; cbn [map]; [reflexivity|]. rewrite n2b_b2n. f_equal. exact IH. Qed.

Lemma abs_rle h dup t ssrc bs es cs : abs_block (mk_rle h dup t ssrc bs es cs) = SRLE dup t ssrc bs es cs.
Proof. rewrite <- (slice_vals_VU cs) at 2. destruct dup; reflexivity. Qed.
Lemma abs_prt h t ssrc bs es ts : abs_block (mk_prt h t ssrc bs es ts) = SPRT t ssrc bs es ts.
Proof. rewrite <- (slice_vals_VU ts) at 2. reflexivity. Qed.
Lemma abs_rrt h ntp : abs_block (mk_rrt h ntp) = SRRT ntp.
Proof. reflexivity. Qed.
Lemma abs_dlrr h rs : abs_block (mk_dlrr h rs) = SDLRR rs.
Proof.
  assert (E : abs_block (mk_dlrr h rs) = SDLRR (map (fun r => (val_N (get_field ly_DLRRReport r "SSRC"%string), val_N (get_field ly_DLRRReport r "LastRR"%string),
                                                   val_N (get_field ly_DLRRReport r "DLRR"%string))) (map v_dlrr rs))) by reflexivity.
  rewrite E. clear E. f_equal. rewrite map_map. induction rs as [|[[a b] c] rs IH]; cbn [map]; [reflexivity|]. f_equal. exact IH.
Qed.
Lemma abs_ss h l d j toh fs : List.length fs = 13%nat -> abs_block (mk_ss h l d j toh fs) = SSS l d j toh fs.
Proof. intros H. destruct_list fs H. destruct l, d, j; reflexivity. Qed.
Lemma abs_voip h fs : List.length fs = 21%nat -> abs_block (mk_voip h fs) = SVoIP fs.
Proof. intros H. destruct_list fs H. reflexivity. Qed.
Lemma abs_unknown bt ts c content : abs_block (mk_unknown (v_hdr bt ts c) (map b2n content)) = SUnknown bt ts content.
Proof.
  rewrite <- (map_n2b_b2n content) at 2. rewrite <- (slice_vals_VU (map b2n content)) at 2. reflexivity.
Qed.

Lemma D_ss_length l d j toh fs : D_sblock (SSS l d j toh fs) = true -> List.length fs = 13%nat.
Proof. cbn [D_sblock]. intros H. andb_split H. apply fields_fit_length in H0. exact H0. Qed.
Lemma D_voip_length fs : D_sblock (SVoIP fs) = true -> List.length fs = 21%nat.
Proof. cbn [D_sblock]. intros H. apply fields_fit_length in H. exact H. Qed.

(* C15: the typed view of the model block built from sb is sb *)
Lemma abs_blk_of a b c sb : D_sblock sb = true -> abs_block (blk_of a b c sb) = sb.
Proof.
  intros HD. destruct sb; cbn [blk_of].
  - apply abs_rle.
  - apply abs_prt.
  - apply abs_rrt.
  - apply abs_dlrr.
  - apply abs_ss. eapply D_ss_length, HD.
  - apply abs_voip. apply D_voip_length, HD.
  - apply abs_unknown.
Qed.

Lemma len_hdr_bytes a b c : len (hdr_bytes a b c) = 4.
Proof. reflexivity. Qed.

(* W of any block built from a typed block *)
Lemma W_blk_of a b c sb : D_sblock sb = true ->
  exists a' b', W (layout_of (xb_kind (blk_of a b c sb))) (xb_val (blk_of a b c sb)) (hdr_bytes a' b' c ++ sb_body sb)
                /\ (match sb with SUnknown bt ts _ => a' = bt /\ b' = ts | _ => a' = a /\ b' = b end).
Proof.
  intros HD. rewrite GenFacts. destruct sb; cbn [blk_of].
  - exists a, b. split; [|auto]. destruct dup; apply W_rle.
  - exists a, b. split; [|auto]. apply W_prt.
  - exists a, b. split; [|auto]. apply W_rrt.
  - exists a, b. split; [|auto]. apply W_dlrr.
  - exists a, b. split; [|auto]. apply W_ss. eapply D_ss_length, HD.
  - exists a, b. split; [|auto]. apply W_voip. apply D_voip_length, HD.
  - exists bt, ts. split; [|auto]. apply W_unknown.
Qed.

Lemma blk_wire_size_of a b c sb : D_sblock sb = true -> blk_wire_size (blk_of a b c sb) = 4 + len (sb_body sb).
Proof.
  intros HD. destruct (W_blk_of a b c sb HD) as (a' & b' & [HS _] & _). unfold blk_wire_size. rewrite HS, len_app, len_hdr_bytes. reflexivity.
Qed.

Lemma len_xr_block bt ts body : len (xr_block bt ts body) = 4 + len body.
Proof. unfold xr_block. rewrite !len_app, len_be. change (len [n2b bt; n2b ts]) with 2. lia. Qed.
Lemma len_enc_sblock sb : len (enc_sblock sb) = 4 + len (sb_body sb).
Proof. rewrite enc_sblock_parts. apply len_xr_block. Qed.

Lemma be2_mod x y : x mod 65536 = y mod 65536 -> be 2 x = be 2 y.
Proof. intros H. cbn [be app]. f_equal; [idtac|f_equal]; apply n2b_mod; lia. Qed.
Lemma hdr_bytes_xr_block bt ts bl body : bl mod 65536 = ((4 + len body) / 4 - 1) mod 65536 ->
  hdr_bytes bt ts bl ++ body = xr_block bt ts body.
Proof. intros H. unfold hdr_bytes, xr_block. rewrite (be2_mod _ _ H). cbn [be app]. reflexivity. Qed.

Lemma lor_flags (l d j : bool) toh : toh < 4 ->
  N.lor (N.lor (N.lor (N.lor 0 (if l then 128 else 0)) (if d then 64 else 0)) (if j then 32 else 0)) (u8 (N.land toh 3 * 8))
  = (if l then 128 else 0) + (if d then 64 else 0) + (if j then 32 else 0) + toh * 8.
Proof.
  intros H. assert (E : toh = 0 \/ toh = 1 \/ toh = 2 \/ toh = 3) by lia.
  destruct E as [->|[->|[->| ->]]]; destruct l, d, j; reflexivity.
Qed.

Lemma land_15 x : N.land x 15 = x mod 16. Proof. change 15 with (N.ones 4). rewrite N.land_ones. reflexivity. Qed.

(* setupBlockHeader: block type and type-specific octet as RFC 3611 prescribes, length from wireSize *)
Lemma setup_blk_of a b c sb : D_sblock sb = true ->
  setup_block (blk_of a b c sb) = blk_of (sb_bt sb) (sb_ts sb) (blk_length_field (blk_of a b c sb)) sb.
Proof.
  intros HD. destruct sb; cbn [blk_of sb_bt sb_ts].
  - cbn [D_sblock] in HD. andb_split HD. unfold fits in HD. change (2 ^ 4) with 16 in HD.
    replace t with (N.land t 15) at 2 by (rewrite land_15; lia). destruct dup; reflexivity.
  - cbn [D_sblock] in HD. andb_split HD. unfold fits in HD. change (2 ^ 4) with 16 in HD.
    replace t with (N.land t 15) at 2 by (rewrite land_15; lia). reflexivity.
  - reflexivity.
  - reflexivity.
  - cbn [D_sblock] in HD. andb_split HD. unfold fits in HD. change (2 ^ 2) with 4 in HD.
    rewrite <- (lor_flags l d j toh) by lia. destruct l, d, j; reflexivity.
  - reflexivity.
  - reflexivity.
Qed.

Lemma setup_kind b : xb_kind (setup_block b) = xb_kind b.
Proof. destruct b as [k v]. destruct k; reflexivity. Qed.

(* ------------------------------------------------------------------------------------------------ *)
(* C15 per block: after setupBlockHeader, wireSize and write give the RFC 3611 encoding              *)
(* ------------------------------------------------------------------------------------------------ *)
Theorem blk_abs_setup a b c sb : D_sblock sb = true -> abs_block (setup_block (blk_of a b c sb)) = sb.
Proof. intros HD. rewrite setup_blk_of by exact HD. apply abs_blk_of, HD. Qed.

Theorem blk_size_spec a b c sb : D_sblock sb = true ->
  blk_wire_size (setup_block (blk_of a b c sb)) = len (enc_sblock sb).
Proof. intros HD. rewrite setup_blk_of, blk_wire_size_of, len_enc_sblock by exact HD. reflexivity. Qed.

Theorem blk_write_spec a b c sb room : D_sblock sb = true -> len (enc_sblock sb) <= room ->
  write (layout_of (xb_kind (setup_block (blk_of a b c sb)))) (xb_val (setup_block (blk_of a b c sb))) room
  = Ok (enc_sblock sb, room - len (enc_sblock sb)).
Proof.
  intros HD Hr. rewrite setup_blk_of by exact HD.
  destruct (W_blk_of (sb_bt sb) (sb_ts sb) (blk_length_field (blk_of a b c sb)) sb HD) as (a' & b' & [_ HW] & Hab).
  assert (Ha : a' = sb_bt sb /\ b' = sb_ts sb) by (destruct sb; exact Hab). destruct Ha as [-> ->]. clear Hab.
  rewrite hdr_bytes_xr_block in HW.
  - rewrite <- enc_sblock_parts in HW. apply HW, Hr.
  - unfold blk_length_field, u16. rewrite blk_wire_size_of by exact HD. apply N.mod_mod. discriminate.
Qed.

(* explicit sizes per kind (RFC 3611 figures) *)
Lemma len_concat_be k cs : len (List.concat (map (be k) cs)) = N.of_nat k * nl cs.
Proof.
  unfold nl. induction cs as [|x cs IH]; cbn [map List.concat List.length]; [rewrite len_nil; lia|].
  rewrite len_app, len_be, IH. lia.
Qed.
Lemma len_concat_dlrr (rs : list (N * N * N)) :
  len (List.concat (map (fun '(a, b, c) => be 4 a ++ be 4 b ++ be 4 c) rs)) = 12 * nl rs.
Proof.
  unfold nl. induction rs as [|[[a b] c] rs IH]; cbn [map List.concat List.length]; [rewrite len_nil; lia|].
  rewrite !len_app, !len_be, IH. lia.
Qed.
Lemma sblock_size sb : D_sblock sb = true ->
  len (enc_sblock sb) =
  match sb with
  | SRLE _ _ _ _ _ cs => 12 + 2 * nl cs
  | SPRT _ _ _ _ ts => 12 + 4 * nl ts
  | SRRT _ => 12
  | SDLRR rs => 4 + 12 * nl rs
  | SSS _ _ _ _ _ => 40
  | SVoIP _ => 36
  | SUnknown _ _ c => 4 + len c
  end.
Proof.
  intros HD. rewrite len_enc_sblock. destruct sb; cbn [sb_body].
  - rewrite !len_app, !len_be, len_concat_be. lia.
  - rewrite !len_app, !len_be, len_concat_be. lia.
  - rewrite len_be. lia.
  - rewrite len_concat_dlrr. lia.
  - pose proof (D_ss_length _ _ _ _ _ HD) as H. destruct_list fields H. reflexivity.
  - pose proof (D_voip_length _ HD) as H. destruct_list fields H. reflexivity.
  - reflexivity.
Qed.

(* ------------------------------------------------------------------------------------------------ *)
(* C15 / C03: ExtendedReport.Marshal                                                                 *)
(* ------------------------------------------------------------------------------------------------ *)
Definition wf_block (b : XRBlock) : Prop := exists a0 b0 c0 sb, D_sblock sb = true /\ b = blk_of a0 b0 c0 sb.
Definition enc_blocks (bs : list XRBlock) : bytes := List.concat (map (fun b => enc_sblock (abs_block b)) bs).

Lemma wf_block_D b : wf_block b -> D_sblock (abs_block b) = true.
Proof. intros (a0 & b0 & c0 & sb & HD & ->). rewrite abs_blk_of by exact HD. exact HD. Qed.

Lemma blocks_marshal bs : Forall wf_block bs ->
  fold_right (fun b acc => blk_wire_size b + acc) 0 (map setup_block bs) = len (enc_blocks bs) /\
  forall room, len (enc_blocks bs) <= room -> write_blocks (map setup_block bs) room = Ok (enc_blocks bs, room - len (enc_blocks bs)).
Proof.
  induction 1 as [|b bs Hb Hbs [IH1 IH2]]; unfold enc_blocks; cbn [map List.concat fold_right write_blocks].
  - split; [reflexivity|]. intros room _. rewrite len_nil, N.sub_0_r. reflexivity.
  - fold (enc_blocks bs). destruct Hb as (a0 & b0 & c0 & sb & HD & ->). rewrite abs_blk_of by exact HD.
    rewrite len_app. split.
    + rewrite blk_size_spec by exact HD. rewrite IH1. reflexivity.
    + intros room Hr. rewrite blk_write_spec by (auto; lia). cbn [bind]. rewrite IH2 by lia. cbn [bind].
      f_equal. f_equal. lia.
Qed.

Theorem XR_marshal_spec x : Forall wf_block (xr_blocks x) -> XR_marshal x = Ok (enc_XR x).
Proof.
  intros Hwf. destruct (blocks_marshal _ Hwf) as [HS HW].
  unfold XR_marshal, XR_marshal_full, XR_wire_size. cbn [xr_blocks xr_sender]. rewrite HS.
  unfold c_TypeExtendedReport. rewrite Header_marshal_spec by lia. cbn [bind].
  assert (Eh : forall l, len (hdr false 0 207 l) = 4) by (intros; reflexivity). rewrite !Eh.
  destruct (N.ltb_spec (4 + len (enc_blocks (xr_blocks x)) + 4) 4) as [?|_]; [lia|].
  destruct (N.ltb_spec (4 + len (enc_blocks (xr_blocks x)) + 4 - 4) 4) as [?|_]; [lia|].
  rewrite HW by lia. cbn [bind res_map fst].
  replace (4 + len (enc_blocks (xr_blocks x)) + 4 - 4 - 4 - len (enc_blocks (xr_blocks x))) with 0 by lia.
  change (zeros 0) with (@nil byte). rewrite app_nil_r.
  unfold enc_XR, frame. fold (enc_blocks (xr_blocks x)). f_equal. f_equal.
  unfold hdr. f_equal. apply be2_mod. rewrite len_app, len_be. change (N.of_nat 4) with 4. unfold u16. rewrite N.mod_mod by discriminate.
  f_equal. generalize (len (enc_blocks (xr_blocks x))). intros L. lia.
Qed.

(* a packet in the domain marshals to something the RFC length field can describe iff ... (size facts) *)
Lemma XR_marshal_length x : Forall wf_block (xr_blocks x) ->
  exists b, XR_marshal x = Ok b /\ len b = 8 + len (enc_blocks (xr_blocks x)).
Proof.
  intros Hwf. eexists. split; [apply XR_marshal_spec, Hwf|].
  unfold enc_XR, frame, hdr. fold (enc_blocks (xr_blocks x)). rewrite !len_app, !len_be. change (N.of_nat 4) with 4. change (N.of_nat 2) with 2.
  rewrite !len_cons, len_nil. lia.
Qed.

Lemma wf_blocks_D_XR x : fits 32 (xr_sender x) = true -> Forall wf_block (xr_blocks x) -> D_XR x = true.
Proof.
  intros Hs Hwf. unfold D_XR. rewrite Hs. cbn [andb]. apply forallb_forall. intros b Hb.
  rewrite Forall_forall in Hwf. apply wf_block_D, Hwf, Hb.
Qed.

(* ------------------------------------------------------------------------------------------------ *)
(* header facts of the RFC encoding of a block (C10)                                                  *)
(* ------------------------------------------------------------------------------------------------ *)
(* BT | type-specific | (length in 32-bit words) - 1 | body *)
Lemma enc_sblock_layout sb :
  enc_sblock sb = [n2b (sb_bt sb); n2b (sb_ts sb)] ++ be 2 (len (enc_sblock sb) / 4 - 1) ++ sb_body sb.
Proof. rewrite len_enc_sblock. rewrite enc_sblock_parts. reflexivity. Qed.

Lemma sblock_aligned sb : D_sblock sb = true -> len (enc_sblock sb) mod 4 = 0.
Proof.
  intros HD. rewrite (sblock_size sb HD). destruct sb; try reflexivity; try lia.
  - cbn [D_sblock] in HD. andb_split HD. lia.
  - cbn [D_sblock] in HD. andb_split HD. lia.
Qed.

Lemma sb_bt_range sb : D_sblock sb = true ->
  sb_bt sb < 256 /\ match sb with SUnknown _ _ _ => ~ (1 <= sb_bt sb <= 7) | _ => 1 <= sb_bt sb <= 7 end.
Proof.
  intros HD. destruct sb; cbn [sb_bt]; try lia.
  - destruct dup; lia.
  - cbn [D_sblock] in HD. andb_split HD. unfold fits in *. change (2 ^ 8) with 256 in *. lia.
Qed.

(* the type-specific octet: T in the low four bits (rest zero) for RLE / receipt times; L D J ToH 000 for the summary *)
Lemma sb_ts_bits sb : D_sblock sb = true ->
  sb_ts sb < 256 /\
  match sb with
  | SRLE _ t _ _ _ _ | SPRT t _ _ _ _ => sb_ts sb mod 16 = t /\ sb_ts sb / 16 = 0
  | SRRT _ | SDLRR _ | SVoIP _ => sb_ts sb = 0
  | SSS l d j toh _ => sb_ts sb / 128 = (if l then 1 else 0) /\ (sb_ts sb / 64) mod 2 = (if d then 1 else 0)
                       /\ (sb_ts sb / 32) mod 2 = (if j then 1 else 0) /\ (sb_ts sb / 8) mod 4 = toh /\ sb_ts sb mod 8 = 0
  | SUnknown _ ts _ => sb_ts sb = ts
  end.
Proof.
  intros HD. destruct sb; cbn [sb_ts D_sblock] in *; andb_split HD; unfold fits in *;
    try change (2 ^ 4) with 16 in *; try change (2 ^ 2) with 4 in *; try change (2 ^ 8) with 256 in *; try lia.
  destruct l, d, j; lia.
Qed.

Lemma unbe2 x y : unbe [x; y] = b2n x * 256 + b2n y.
Proof. unfold unbe. cbn [fold_left]. lia. Qed.
Lemma unbe1 x : unbe [x] = b2n x.
Proof. unfold unbe. cbn [fold_left]. lia. Qed.
Lemma unbe_be2 l : l < 65536 -> unbe (be 2 l) = l.
Proof. intros H. apply unbe_be. exact H. Qed.

(* what a receiver reads back from the first four octets *)
Lemma enc_sblock_header sb : D_sblock sb = true -> len (enc_sblock sb) <= 262144 ->
  b2n (nth 0 (enc_sblock sb) x00) = sb_bt sb /\
  b2n (nth 1 (enc_sblock sb) x00) = sb_ts sb /\
  (unbe (firstn 2 (skipn 2 (enc_sblock sb))) + 1) * 4 = len (enc_sblock sb).
Proof.
  intros HD Hl. pose proof (sblock_aligned sb HD) as Ha. pose proof (sb_bt_range sb HD) as [Hb _].
  pose proof (sb_ts_bits sb HD) as [Ht _]. pose proof (len_enc_sblock sb) as H4.
  rewrite (enc_sblock_layout sb) at 1 2 3. cbn [app nth skipn be firstn]. rewrite !b2n_n2b, unbe2, !b2n_n2b.
  repeat split; lia.
Qed.

(* ------------------------------------------------------------------------------------------------ *)
(* F10: an odd number of RLE chunks is emitted as is - the packet is not a multiple of 32 bits        *)
(* ------------------------------------------------------------------------------------------------ *)
(* in the domain (even chunk count, aligned unknown content) the packet is aligned *)
Lemma enc_blocks_aligned bs : Forall wf_block bs -> len (enc_blocks bs) mod 4 = 0.
Proof.
  induction 1 as [|b bs Hb _ IH]; [reflexivity|]. unfold enc_blocks. cbn [map List.concat]. fold (enc_blocks bs).
  rewrite len_app. pose proof (sblock_aligned _ (wf_block_D b Hb)). lia.
Qed.
Theorem XR_marshal_aligned x b : Forall wf_block (xr_blocks x) -> XR_marshal x = Ok b -> len b mod 4 = 0.
Proof.
  intros Hwf Hm. destruct (XR_marshal_length x Hwf) as (b' & Hb' & Hl). rewrite Hm in Hb'. injection Hb' as <-.
  rewrite Hl. pose proof (enc_blocks_aligned _ Hwf). lia.
Qed.
(* outside it: one loss RLE block with a single chunk marshals to 22 octets *)
Definition xr_odd : XR := mkXR 1 [mk_rle (v_hdr 0 0 0) false 0 2 3 4 [5]].
Theorem xr_odd_chunks_unaligned_refuted : exists x, exists b, XR_marshal x = Ok b /\ len b mod 4 <> 0.
Proof. exists xr_odd. eexists. split; [vm_compute; reflexivity|]. vm_compute. discriminate. Qed.
(* ... and those 22 octets are still "the RFC layout of the fields" (with the length field rounded down) *)
Lemma xr_odd_is_enc : XR_marshal xr_odd = Ok (enc_XR xr_odd) /\ len (enc_XR xr_odd) = 22.
Proof. split; vm_compute; reflexivity. Qed.

(* ------------------------------------------------------------------------------------------------ *)
(* unknown block types: read back through the walker and re-encoded unchanged                         *)
(* ------------------------------------------------------------------------------------------------ *)
(* the two inner loops of [read], named *)
Fixpoint read_fields (fs : list field) (b : bytes) : res (list val * bytes) :=
  match fs with
  | [] => Ok ([], b)
  | Field _ ft om ex :: fs' =>
      if om then let* (vs, rest) := read_fields fs' b in Ok (zero_of ft :: vs, rest)
      else if ex then
        let* (x, rest) := read ft b in
        let* (vs, rest') := read_fields fs' rest in
        Ok (x :: vs, rest')
      else
        let k := mem_size ft in
        if len b <? k then Err else
        let* (vs, rest) := read_fields fs' (skipn (N.to_nat k) b) in
        Ok (zero_of ft :: vs, rest)
  end.
Lemma read_struct fs b : read (TStruct fs) b = let* (vs, rest) := read_fields fs b in Ok (VStruct vs, rest).
Proof. reflexivity. Qed.

Definition slice_loop (e : ty) : nat -> bytes -> res (val * bytes) :=
  fix loop (fuel : nat) (b : bytes) {struct fuel} : res (val * bytes) :=
  match fuel with
  | O => Fuel
  | S f =>
      match b with
      | [] => Ok (VSlice [], [])
      | _ => let* (x, rest) := read e b in
             let* (xs, rest') := loop f rest in
             match xs with VSlice l => Ok (VSlice (x :: l), rest') | _ => Err end
      end
  end.
Lemma slice_loop_nil e f : slice_loop e (S f) [] = Ok (VSlice [], []).
Proof. reflexivity. Qed.
Lemma slice_loop_cons e f x b : slice_loop e (S f) (x :: b) =
  let* (v, rest) := read e (x :: b) in
  let* (xs, rest') := slice_loop e f rest in
  match xs with VSlice l => Ok (VSlice (v :: l), rest') | _ => Err end.
Proof. reflexivity. Qed.
Lemma read_slice e b : read (TSlice e) b = slice_loop e (S (List.length b)) b.
Proof. reflexivity. Qed.

Lemma read_scalar t k b : scalar_size t = Some k -> N.of_nat k <= len b ->
  read t b = Ok (VU (unbe (firstn k b)), skipn k b).
Proof.
  intros Hk Hl.
  assert (E : read t b = match scalar_size t with
                         | Some k => if len b <? N.of_nat k then Err else Ok (VU (unbe (firstn k b)), skipn k b)
                         | None => Err end) by (destruct t; try discriminate; cbn [scalar_size]; rewrite <- short_len; reflexivity).
  rewrite E, Hk. destruct (N.ltb_spec (len b) (N.of_nat k)); [lia|reflexivity].
Qed.

Lemma read_hdr x0 x1 x2 x3 rest :
  read ly_XRHeader (x0 :: x1 :: x2 :: x3 :: rest) = Ok (v_hdr (b2n x0) (b2n x1) (b2n x2 * 256 + b2n x3), rest).
Proof.
  unfold ly_XRHeader. rewrite read_struct. cbn [read_fields].
  rewrite (read_scalar TU8 1) by (reflexivity || (rewrite !len_cons; lia)). cbn [bind firstn skipn].
  rewrite (read_scalar TU8 1) by (reflexivity || (rewrite !len_cons; lia)). cbn [bind firstn skipn].
  rewrite (read_scalar TU16 2) by (reflexivity || (rewrite !len_cons; lia)). cbn [bind firstn skipn].
  rewrite !unbe1, unbe2. reflexivity.
Qed.

Lemma slice_loop_bytes c : forall fuel, (List.length c < fuel)%nat ->
  slice_loop TU8 fuel c = Ok (VSlice (map VU (map b2n c)), []).
Proof.
  induction c as [|x c IH]; intros fuel Hf; (destruct fuel as [|f]; [cbn [List.length] in Hf; lia|]); cbn [map].
  - reflexivity.
  - rewrite slice_loop_cons. rewrite (read_scalar TU8 1) by (reflexivity || (rewrite !len_cons; lia)). cbn [bind firstn skipn].
    rewrite IH by (cbn [List.length] in Hf; lia). cbn [bind]. rewrite unbe1. reflexivity.
Qed.

Lemma read_unknown x0 x1 x2 x3 c :
  read ly_UnknownReportBlock (x0 :: x1 :: x2 :: x3 :: c)
  = Ok (VStruct [v_hdr (b2n x0) (b2n x1) (b2n x2 * 256 + b2n x3); VSlice (map VU (map b2n c))], []).
Proof.
  unfold ly_UnknownReportBlock. rewrite read_struct. cbn [read_fields].
  change (TStruct [Field "BlockType" TU8 false true; Field "TypeSpecific" TU8 false true; Field "BlockLength" TU16 false true]) with ly_XRHeader.
  rewrite read_hdr. cbn [bind]. rewrite read_slice, slice_loop_bytes by lia. reflexivity.
Qed.

Lemma kind_unknown bt : negb ((1 <=? bt) && (bt <=? 7)) = true -> kind_of_block_type bt = KUnknown.
Proof.
  intros H. unfold kind_of_block_type. consts.
  repeat match goal with |- context [?x =? ?y] => destruct (N.eqb_spec x y); [exfalso; lia|] end. reflexivity.
Qed.

Lemma hdr_get a b c :
  val_N (get_field ly_XRHeader (v_hdr a b c) "BlockType"%string) = a /\
  val_N (get_field ly_XRHeader (v_hdr a b c) "TypeSpecific"%string) = b /\
  val_N (get_field ly_XRHeader (v_hdr a b c) "BlockLength"%string) = c.
Proof. repeat split; reflexivity. Qed.

(* one step of the block loop of ExtendedReport.Unmarshal on the RFC encoding of an unknown block *)
Theorem unknown_block_read f bt ts c rest : D_sblock (SUnknown bt ts c) = true -> len c <= 262140 ->
  xr_blocks_loop (S f) (enc_sblock (SUnknown bt ts c) ++ rest)
  = let* r := xr_blocks_loop f rest in Ok (mk_unknown (v_hdr bt ts (len c / 4)) (map b2n c) :: r).
Proof.
  intros HD Hl. cbn [D_sblock] in HD. andb_split HD. unfold fits in *. change (2 ^ 8) with 256 in *.
  cbn [enc_sblock]. unfold xr_block. cbn [be app].
  set (l := (4 + len c) / 4 - 1).
  assert (El : l = len c / 4) by (subst l; lia).
  cbn [xr_blocks_loop]. rewrite read_hdr. cbn [bind].
  destruct (hdr_get (b2n (n2b bt)) (b2n (n2b ts)) (b2n (n2b (l / 256)) * 256 + b2n (n2b l))) as (-> & _ & ->).
  rewrite !b2n_n2b.
  replace (bt mod 256) with bt by lia. replace (ts mod 256) with ts by lia.
  replace ((l / 256) mod 256 * 256 + l mod 256) with l by lia.
  rewrite kind_unknown by exact HD1.
  assert (Elen : len (n2b bt :: n2b ts :: n2b (l / 256) :: n2b l :: c ++ rest) = 4 + len c + len rest)
    by (rewrite !len_cons, len_app; lia).
  rewrite Elen.
  assert (Esz : (if 4 + len c + len rest <? (l + 1) * 4 then 4 + len c + len rest else (l + 1) * 4) = 4 + len c).
  { destruct (N.ltb_spec (4 + len c + len rest) ((l + 1) * 4)); lia. }
  rewrite Esz.
  replace (N.to_nat (4 + len c)) with (4 + List.length c)%nat by (unfold len; lia).
  cbn [Nat.add firstn skipn]. rewrite firstn_app, Nat.sub_diag, firstn_all, skipn_app, Nat.sub_diag, skipn_all. cbn [firstn skipn app].
  rewrite app_nil_r. cbn [layout_of]. rewrite read_unknown. cbn [bind]. rewrite !b2n_n2b.
  replace (bt mod 256) with bt by lia. replace (ts mod 256) with ts by lia.
  replace ((l / 256) mod 256 * 256 + l mod 256) with l by lia.
  rewrite El. reflexivity.
Qed.

(* a single unknown block: read back as the same typed block, and re-encoded to the same octets *)
Theorem unknown_block_roundtrip f bt ts c room :
  D_sblock (SUnknown bt ts c) = true -> len c <= 262140 -> 4 + len c <= room ->
  exists b, xr_blocks_loop (S (S f)) (enc_sblock (SUnknown bt ts c)) = Ok [b]
            /\ abs_block b = SUnknown bt ts c
            /\ abs_block (setup_block b) = SUnknown bt ts c
            /\ write (layout_of (xb_kind (setup_block b))) (xb_val (setup_block b)) room
               = Ok (enc_sblock (SUnknown bt ts c), room - (4 + len c)).
Proof.
  intros HD Hl Hr. exists (blk_of 0 0 (len c / 4) (SUnknown bt ts c)). split; [|split; [|split]].
  - rewrite <- (app_nil_r (enc_sblock _)). rewrite unknown_block_read by assumption. reflexivity.
  - apply abs_blk_of, HD.
  - apply blk_abs_setup, HD.
  - rewrite blk_write_spec; rewrite ?(sblock_size _ HD); auto.
Qed.

(* whole packets made of unknown blocks: Unmarshal (enc) gives the typed blocks back, Marshal gives enc back *)
Definition is_unknown (sb : sblock) : bool := match sb with SUnknown _ _ _ => true | _ => false end.
Definition read_blk (sb : sblock) : XRBlock := blk_of 0 0 (len (sb_body sb) / 4) sb.

Lemma unknown_blocks_read sbs :
  Forall (fun sb => is_unknown sb = true /\ D_sblock sb = true /\ len (sb_body sb) <= 262140) sbs ->
  forall fuel, (List.length sbs < fuel)%nat ->
  xr_blocks_loop fuel (List.concat (map enc_sblock sbs)) = Ok (map read_blk sbs).
Proof.
  induction 1 as [|sb sbs (Hu & HD & Hl) _ IH]; intros fuel Hf; (destruct fuel as [|f]; [cbn [List.length] in Hf; lia|]).
  - reflexivity.
  - destruct sb; try discriminate Hu. cbn [map List.concat]. cbn [sb_body] in Hl.
    rewrite unknown_block_read by assumption. rewrite IH by (cbn [List.length] in Hf; lia). reflexivity.
Qed.

Theorem XR_unknown_roundtrip s sbs :
  fits 32 s = true ->
  Forall (fun sb => is_unknown sb = true /\ D_sblock sb = true) sbs ->
  len (List.concat (map enc_sblock sbs)) <= 262132 ->
  let wire := frame false 0 207 (be 4 s ++ List.concat (map enc_sblock sbs)) in
  exists x, XR_unmarshal wire = Ok x /\ xr_sender x = s /\ map abs_block (xr_blocks x) = sbs /\ XR_marshal x = Ok wire.
Proof.
  intros Hs Hall Hlen wire.
  set (body := List.concat (map enc_sblock sbs)) in *.
  assert (Hwf : Forall wf_block (map read_blk sbs)).
  { apply Forall_forall. intros b Hb. apply in_map_iff in Hb as (sb & <- & Hin). rewrite Forall_forall in Hall.
    destruct (Hall sb Hin) as [_ HD]. exists 0, 0, (len (sb_body sb) / 4), sb. auto. }
  assert (Habs : map abs_block (map read_blk sbs) = sbs).
  { rewrite map_map. rewrite <- (map_id sbs) at 2. apply map_ext_in. intros sb Hin. rewrite Forall_forall in Hall.
    destruct (Hall sb Hin) as [_ HD]. apply abs_blk_of, HD. }
  assert (Hbig : Forall (fun sb => is_unknown sb = true /\ D_sblock sb = true /\ len (sb_body sb) <= 262140) sbs
                 /\ 4 * N.of_nat (List.length sbs) <= len body).
  { subst body. clear wire Hwf Habs. induction Hall as [|sb sbs [Hu HD] _ IH]; [split; [constructor|cbn; lia]|].
    cbn [map List.concat] in Hlen. rewrite len_app, len_enc_sblock in Hlen.
    destruct IH as [IH1 IH2]; [lia|]. split; [constructor; [repeat split; auto; lia | exact IH1]|].
    cbn [map List.concat List.length]. rewrite len_app, len_enc_sblock. lia. }
  destruct Hbig as [Hbig Hcnt].
  exists (mkXR s (map read_blk sbs)). cbn [xr_sender xr_blocks]. split; [|split; [reflexivity|split; [exact Habs|]]].
  - unfold XR_unmarshal, wire, frame. rewrite len_app, len_be. change (N.of_nat 4) with 4.
    set (l := (4 + (4 + len body)) / 4 - 1).
    rewrite Header_unmarshal_hdr by (subst l; lia). cbn [bind h_type]. unfold c_TypeExtendedReport, c_headerLength.
    change (negb (207 =? 207)) with false. cbv iota.
    assert (Eh : exists x0 x1 x2 x3, hdr false 0 207 l = [x0; x1; x2; x3]) by (unfold hdr; cbn [be app]; eauto).
    destruct Eh as (x0 & x1 & x2 & x3 & Eh). rewrite Eh.
    rewrite slice_from_ok by (rewrite len_app, !len_cons; lia). cbn [bind].
    change (N.to_nat 4) with 4%nat. cbn [app skipn].
    rewrite (read_scalar TU32 4) by (reflexivity || (rewrite len_app, len_be; lia)). cbn [bind].
    rewrite firstn_app, be_length, Nat.sub_diag, firstn_O, app_nil_r, firstn_all2 by (rewrite be_length; lia).
    rewrite skipn_app, be_length, Nat.sub_diag, skipn_all2 by (rewrite be_length; lia). cbn [skipn app].
    unfold fits in Hs. rewrite unbe_be by (change (256 ^ N.of_nat 4) with (2 ^ 32); lia).
    subst body. rewrite unknown_blocks_read.
    + reflexivity.
    + exact Hbig.
    + cbn [List.length]. rewrite app_length, be_length. unfold len in Hcnt. lia.
  - rewrite XR_marshal_spec by exact Hwf. unfold enc_XR, wire. cbn [xr_sender xr_blocks].
    assert (E : map (fun b => enc_sblock (abs_block b)) (map read_blk sbs) = map enc_sblock sbs).
    { rewrite map_map. apply map_ext_in. intros sb Hin. rewrite Forall_forall in Hall.
      destruct (Hall sb Hin) as [_ HD]. f_equal. apply abs_blk_of, HD. }
    rewrite E. reflexivity.
Qed.

(* ------------------------------------------------------------------------------------------------ *)
(* packaged statements                                                                                *)
(* ------------------------------------------------------------------------------------------------ *)
(* for every block built from a typed RFC block in the domain (any kind) *)
Theorem block_marshal_spec b : wf_block b ->
  let sb := abs_block b in
  D_sblock sb = true /\
  xb_kind (setup_block b) = xb_kind b /\
  abs_block (setup_block b) = sb /\
  blk_wire_size (setup_block b) = len (enc_sblock sb) /\
  forall room, len (enc_sblock sb) <= room ->
    write (layout_of (xb_kind (setup_block b))) (xb_val (setup_block b)) room = Ok (enc_sblock sb, room - len (enc_sblock sb)).
Proof.
  intros (a0 & b0 & c0 & sb & HD & ->). cbv zeta. rewrite abs_blk_of by exact HD.
  split; [exact HD|]. split; [apply setup_kind|]. split; [apply blk_abs_setup, HD|]. split; [apply blk_size_spec, HD|].
  intros room Hr. apply blk_write_spec; assumption.
Qed.

(* the block type octet selects the layout the block was written with *)
Lemma kind_dispatch a b c sb : D_sblock sb = true -> kind_of_block_type (sb_bt sb) = xb_kind (blk_of a b c sb).
Proof.
  intros HD. destruct sb; try reflexivity.
  - destruct dup; reflexivity.
  - cbn [D_sblock] in HD. andb_split HD. cbn [sb_bt blk_of mk_unknown xb_kind]. apply kind_unknown, HD1.
Qed.

(* sizes of the named constructors, without any domain hypothesis (cf. RFC 3611 figures) *)
Lemma rle_size a b c dup t ssrc bs es cs : blk_wire_size (mk_rle (v_hdr a b c) dup t ssrc bs es cs) = 12 + 2 * nl cs.
Proof.
  unfold blk_wire_size. rewrite GenFacts. destruct (W_rle a b c dup t ssrc bs es cs) as [HS _].
  destruct dup; cbn [mk_rle xb_kind rfc_layout_of] in *; rewrite HS, len_app, len_hdr_bytes; cbn [sb_body];
    rewrite !len_app, !len_be, len_concat_be; lia.
Qed.
Lemma prt_size a b c t ssrc bs es ts : blk_wire_size (mk_prt (v_hdr a b c) t ssrc bs es ts) = 12 + 4 * nl ts.
Proof.
  unfold blk_wire_size. rewrite GenFacts. destruct (W_prt a b c t ssrc bs es ts) as [HS _].
  cbn [mk_prt xb_kind rfc_layout_of] in *. rewrite HS, len_app, len_hdr_bytes. cbn [sb_body].
  rewrite !len_app, !len_be, len_concat_be. lia.
Qed.
Lemma rrt_size a b c ntp : blk_wire_size (mk_rrt (v_hdr a b c) ntp) = 12.
Proof. reflexivity. Qed.
Lemma dlrr_size a b c rs : blk_wire_size (mk_dlrr (v_hdr a b c) rs) = 4 + 12 * nl rs.
Proof.
  unfold blk_wire_size. rewrite GenFacts. destruct (W_dlrr a b c rs) as [HS _].
  cbn [mk_dlrr xb_kind rfc_layout_of] in *. rewrite HS, len_app, len_hdr_bytes. cbn [sb_body]. rewrite len_concat_dlrr. lia.
Qed.
Lemma ss_size a b c l d j toh fs : List.length fs = 13%nat -> blk_wire_size (mk_ss (v_hdr a b c) l d j toh fs) = 40.
Proof. intros H. destruct_list fs H. reflexivity. Qed.
Lemma voip_size a b c fs : List.length fs = 21%nat -> blk_wire_size (mk_voip (v_hdr a b c) fs) = 36.
Proof. intros H. destruct_list fs H. reflexivity. Qed.
Lemma unknown_size a b c content : blk_wire_size (mk_unknown (v_hdr a b c) (map b2n content)) = 4 + len content.
Proof.
  unfold blk_wire_size. rewrite GenFacts. destruct (W_unknown a b c content) as [HS _].
  cbn [mk_unknown xb_kind rfc_layout_of] in *. rewrite HS, len_app, len_hdr_bytes. reflexivity.
Qed.

(* the named-constructor form of the write fact, e.g. for RLE (the other kinds are instances of blk_write_spec alike) *)
Corollary rle_write_spec a b c dup t ssrc bs es cs room :
  D_sblock (SRLE dup t ssrc bs es cs) = true -> 12 + 2 * nl cs <= room ->
  let b' := setup_block (mk_rle (v_hdr a b c) dup t ssrc bs es cs) in
  write (layout_of (xb_kind b')) (xb_val b') room = Ok (enc_sblock (SRLE dup t ssrc bs es cs), room - (12 + 2 * nl cs)).
Proof.
  intros HD Hr. cbv zeta. pose proof (sblock_size _ HD) as E. cbv iota in E.
  change (mk_rle (v_hdr a b c) dup t ssrc bs es cs) with (blk_of a b c (SRLE dup t ssrc bs es cs)).
  rewrite blk_write_spec by (auto; lia). rewrite E. reflexivity.
Qed.

Print Assumptions GenFacts.
Print Assumptions gen_XRHeader.
Print Assumptions gen_ExtendedReport_fields.
Print Assumptions abs_blk_of.
Print Assumptions setup_blk_of.
Print Assumptions blk_abs_setup.
Print Assumptions blk_size_spec.
Print Assumptions blk_write_spec.
Print Assumptions block_marshal_spec.
Print Assumptions sblock_size.
Print Assumptions rle_size.
Print Assumptions rle_write_spec.
Print Assumptions XR_marshal_spec.
Print Assumptions XR_marshal_length.
Print Assumptions wf_blocks_D_XR.
Print Assumptions enc_sblock_layout.
Print Assumptions enc_sblock_header.
Print Assumptions sb_bt_range.
Print Assumptions sb_ts_bits.
Print Assumptions sblock_aligned.
Print Assumptions kind_dispatch.
Print Assumptions XR_marshal_aligned.
Print Assumptions xr_odd_chunks_unaligned_refuted.
Print Assumptions xr_odd_is_enc.
Print Assumptions unknown_block_read.
Print Assumptions unknown_block_roundtrip.
Print Assumptions XR_unknown_roundtrip.
