(* TWCC (transport_layer_cc.go): Model/Twcc.v against Spec/Enc.v.
   C16  status-chunk words and receive deltas encode/decode bijectively (complete enumerations, bounds in the statements);
   C03  TWCC_marshal = enc_TWCC on D_TWCC;
   C13  the image of TWCC_unmarshal: delta classes = received symbols of the clipped expansion, size bound,
        wire octets = chunk words ++ canonical delta encodings. *)
From RTCP Require Import Proofs.Tactics Proofs.HeaderProofs Model.Header Model.Reports Model.Twcc Spec.Enc.
Local Open Scope N_scope.

(* ---------------------------------------------------------------------------------------- *)
(* enumeration helpers                                                                        *)
(* ---------------------------------------------------------------------------------------- *)
Fixpoint N_range (k : nat) (from : N) : list N :=
  match k with O => [] | S k' => from :: N_range k' (from + 1) end.
Lemma In_N_range k : forall from x, from <= x < from + N.of_nat k -> In x (N_range k from).
Proof.
  induction k as [|k IH]; intros from x H; [lia|]. cbn [N_range In].
  destruct (N.eq_dec from x) as [->|Hne]; [left; reflexivity|right; apply IH; lia].
Qed.

(* all lists of length n over the alphabet k *)
Fixpoint all_lists (k : list N) (n : nat) : list (list N) :=
  match n with O => [[]] | S n' => flat_map (fun l => map (fun x => x :: l) k) (all_lists k n') end.
Lemma In_all_lists k : forall n l, length l = n -> Forall (fun x => In x k) l -> In l (all_lists k n).
Proof.
  induction n as [|n IH]; intros l Hl Hf.
  - destruct l; [left; reflexivity|discriminate].
  - destruct l as [|x l]; [discriminate|]. cbn [all_lists]. apply in_flat_map. exists l. split.
    + apply IH; [cbn [length] in Hl; lia| inversion Hf; assumption].
    + apply in_map_iff. exists x. split; [reflexivity|]. inversion Hf; assumption.
Qed.

Fixpoint list_N_eqb (a b : list N) : bool :=
  match a, b with
  | [], [] => true
  | x :: a', y :: b' => (x =? y) && list_N_eqb a' b'
  | _, _ => false
  end.
Lemma list_N_eqb_eq a : forall b, list_N_eqb a b = true -> a = b.
Proof.
  induction a as [|x a IH]; intros [|y b] H; cbn [list_N_eqb] in H; try discriminate; [reflexivity|].
  apply andb_true_iff in H as [H1 H2]. apply N.eqb_eq in H1. subst. f_equal. auto.
Qed.
Lemma list_eqb_eq a : forall b, list_eqb a b = true -> a = b.
Proof.
  induction a as [|x a IH]; intros [|y b] H; cbn [list_eqb] in H; try discriminate; [reflexivity|].
  apply andb_true_iff in H as [H1 H2]. apply N.eqb_eq in H1. subst. f_equal. auto.
Qed.

Definition chunk_eqb (a b : TChunk) : bool :=
  match a, b with
  | RLC t s r, RLC t' s' r' => (t =? t') && (s =? s') && (r =? r')
  | SVC t ss l, SVC t' ss' l' => (t =? t') && (ss =? ss') && list_N_eqb l l'
  | _, _ => false
  end.
Lemma chunk_eqb_eq a b : chunk_eqb a b = true -> a = b.
Proof.
  destruct a, b; cbn [chunk_eqb]; try discriminate; intros H;
  apply andb_true_iff in H as [H H3]; apply andb_true_iff in H as [H1 H2];
  apply N.eqb_eq in H1, H2; subst.
  - apply N.eqb_eq in H3. subst. reflexivity.
  - apply list_N_eqb_eq in H3. subst. reflexivity.
Qed.

Definition res_bytes_eqb (r : res bytes) (b : bytes) : bool :=
  match r with Ok a => bytes_eqb a b | _ => false end.
Lemma res_bytes_eqb_eq r b : res_bytes_eqb r b = true -> r = Ok b.
Proof. destruct r; cbn [res_bytes_eqb]; try discriminate. intros H. apply bytes_eqb_eq in H. subst. reflexivity. Qed.
Definition res_chunk_eqb (r : res TChunk) (c : TChunk) : bool :=
  match r with Ok a => chunk_eqb a c | _ => false end.
Lemma res_chunk_eqb_eq r c : res_chunk_eqb r c = true -> r = Ok c.
Proof. destruct r; cbn [res_chunk_eqb]; try discriminate. intros H. apply chunk_eqb_eq in H. subst. reflexivity. Qed.

Lemma fits_lt w x : fits w x = true -> x < 2 ^ w.
Proof. unfold fits. intros H. apply N.ltb_lt in H. exact H. Qed.

(* ---------------------------------------------------------------------------------------- *)
(* C16 / C03: status chunk words, by complete enumeration                                     *)
(* ---------------------------------------------------------------------------------------- *)
(* the decoder of one status chunk, as the status loop applies it to two octets *)
Definition chunk_of_bytes (b0 b1 : N) : TChunk :=
  if getNBitsFromByte b0 0 1 =? c_TypeTCCRunLengthChunk then rlc_of_bytes b0 b1 else svc_of_bytes b0 b1.

(* run-length chunks: all 2^15 words with the top bit clear *)
Definition rlc_check (w : N) : bool :=
  let s := w / 8192 in let r := w mod 8192 in
  res_bytes_eqb (RLC_marshal s r) (be 2 (chunk_word (RLC 0 s r)))
  && res_chunk_eqb (RLC_unmarshal (be 2 (chunk_word (RLC 0 s r)))) (RLC 0 s r)
  && (chunk_eqb (chunk_of_bytes (chunk_word (RLC 0 s r) / 256) (chunk_word (RLC 0 s r) mod 256)) (RLC 0 s r)
      && (chunk_word (RLC 0 s r) <? 65536)).
Lemma rlc_check_all : forallb rlc_check (N_range (N.to_nat 32768) 0) = true.
Proof. vm_compute. reflexivity. Qed.

Lemma rlc_check_sr s r : fits 2 s = true -> fits 13 r = true -> rlc_check (s * 8192 + r) = true.
Proof.
  intros Hs Hr. apply fits_lt in Hs, Hr. change (2 ^ 2) with 4 in Hs. change (2 ^ 13) with 8192 in Hr.
  pose proof rlc_check_all as H. rewrite forallb_forall in H. apply H. apply In_N_range. lia.
Qed.

Lemma RLC_marshal_word s r : fits 2 s = true -> fits 13 r = true ->
  RLC_marshal s r = Ok (be 2 (chunk_word (RLC 0 s r))).
Proof.
  intros Hs Hr. pose proof (rlc_check_sr s r Hs Hr) as H.
  apply fits_lt in Hs, Hr. change (2 ^ 2) with 4 in Hs. change (2 ^ 13) with 8192 in Hr.
  unfold rlc_check in H.
  replace ((s * 8192 + r) / 8192) with s in H by lia. replace ((s * 8192 + r) mod 8192) with r in H by lia.
  apply andb_true_iff in H as [H _]. apply andb_true_iff in H as [H _]. apply res_bytes_eqb_eq in H. exact H.
Qed.

Lemma RLC_unmarshal_word s r : fits 2 s = true -> fits 13 r = true ->
  RLC_unmarshal (be 2 (chunk_word (RLC 0 s r))) = Ok (RLC 0 s r).
Proof.
  intros Hs Hr. pose proof (rlc_check_sr s r Hs Hr) as H.
  apply fits_lt in Hs, Hr. change (2 ^ 2) with 4 in Hs. change (2 ^ 13) with 8192 in Hr.
  unfold rlc_check in H.
  replace ((s * 8192 + r) / 8192) with s in H by lia. replace ((s * 8192 + r) mod 8192) with r in H by lia.
  apply andb_true_iff in H as [H _]. apply andb_true_iff in H as [_ H]. apply res_chunk_eqb_eq in H. exact H.
Qed.

(* status-vector chunks: all 2^14 one-bit and all 2^14 two-bit symbol lists *)
Definition svc_check (ss : N) (l : list N) : bool :=
  res_bytes_eqb (SVC_marshal ss l) (be 2 (chunk_word (SVC 1 ss l)))
  && res_chunk_eqb (SVC_unmarshal (be 2 (chunk_word (SVC 1 ss l)))) (SVC 1 ss l)
  && (chunk_eqb (chunk_of_bytes (chunk_word (SVC 1 ss l) / 256) (chunk_word (SVC 1 ss l) mod 256)) (SVC 1 ss l)
      && (chunk_word (SVC 1 ss l) <? 65536)).
Lemma svc_check_all_1bit : forallb (svc_check 0) (all_lists [0; 1] 14) = true.
Proof. vm_compute. reflexivity. Qed.
Lemma svc_check_all_2bit : forallb (svc_check 1) (all_lists [0; 1; 2; 3] 7) = true.
Proof. vm_compute. reflexivity. Qed.

Lemma forallb_fits_In w l (k : list N) : (forall x, x < 2 ^ w -> In x k) ->
  forallb (fits w) l = true -> Forall (fun x => In x k) l.
Proof.
  intros Hk H. rewrite forallb_forall in H. apply Forall_forall. intros x Hx. apply Hk. apply fits_lt. apply H. exact Hx.
Qed.

Lemma svc_check_ok t ss l : chunk_ok (SVC t ss l) = true -> t = 1 /\ svc_check ss l = true.
Proof.
  cbn [chunk_ok]. intros H. apply andb_true_iff in H as [Ht H]. apply N.eqb_eq in Ht. split; [exact Ht|].
  destruct (N.eqb_spec ss 0) as [->|Hne].
  - apply andb_true_iff in H as [Hn Hf]. apply N.eqb_eq in Hn. unfold nl in Hn.
    pose proof svc_check_all_1bit as A. rewrite forallb_forall in A. apply A.
    apply In_all_lists; [lia|]. apply (forallb_fits_In 1); [|exact Hf].
    intros x Hx. change (2 ^ 1) with 2 in Hx. cbn [In].
    destruct (N.eq_dec x 0); [left; auto|right; left; lia].
  - apply andb_true_iff in H as [H Hf]. apply andb_true_iff in H as [Hs Hn].
    apply N.eqb_eq in Hs, Hn. subst ss. unfold nl in Hn.
    pose proof svc_check_all_2bit as A. rewrite forallb_forall in A. apply A.
    apply In_all_lists; [lia|]. apply (forallb_fits_In 2); [|exact Hf].
    intros x Hx. change (2 ^ 2) with 4 in Hx. cbn [In].
    destruct (N.eq_dec x 0); [left; auto|]. destruct (N.eq_dec x 1); [right; left; auto|].
    destruct (N.eq_dec x 2); [right; right; left; auto|]. right; right; right; left; lia.
Qed.

Lemma SVC_marshal_word t ss l : chunk_ok (SVC t ss l) = true ->
  SVC_marshal ss l = Ok (be 2 (chunk_word (SVC t ss l))).
Proof.
  intros H. apply svc_check_ok in H as [-> H]. unfold svc_check in H.
  apply andb_true_iff in H as [H _]. apply andb_true_iff in H as [H _]. apply res_bytes_eqb_eq in H. exact H.
Qed.
Lemma SVC_unmarshal_word t ss l : chunk_ok (SVC t ss l) = true ->
  SVC_unmarshal (be 2 (chunk_word (SVC t ss l))) = Ok (SVC t ss l).
Proof.
  intros H. apply svc_check_ok in H as [-> H]. unfold svc_check in H.
  apply andb_true_iff in H as [H _]. apply andb_true_iff in H as [_ H]. apply res_chunk_eqb_eq in H. exact H.
Qed.

Lemma TChunk_marshal_word c : chunk_ok c = true -> TChunk_marshal c = Ok (be 2 (chunk_word c)).
Proof.
  destruct c as [t s r|t ss l]; intros H.
  - cbn [TChunk_marshal]. cbn [chunk_ok] in H. apply andb_true_iff in H as [H Hr]. apply andb_true_iff in H as [_ Hs].
    rewrite RLC_marshal_word by assumption. reflexivity.
  - cbn [TChunk_marshal]. apply SVC_marshal_word. exact H.
Qed.

(* every 16-bit word decodes to a well-formed chunk whose RFC word is the word read: all 2^16 words *)
Definition word_check (w : N) : bool :=
  let c := chunk_of_bytes (w / 256) (w mod 256) in chunk_ok c && (chunk_word c =? w).
Lemma word_check_all : forallb word_check (N_range (N.to_nat 65536) 0) = true.
Proof. vm_compute. reflexivity. Qed.
Lemma chunk_of_bytes_word b0 b1 : b0 < 256 -> b1 < 256 ->
  chunk_ok (chunk_of_bytes b0 b1) = true /\ chunk_word (chunk_of_bytes b0 b1) = b0 * 256 + b1.
Proof.
  intros H0 H1. pose proof word_check_all as H. rewrite forallb_forall in H.
  specialize (H (b0 * 256 + b1)). unfold word_check in H.
  replace ((b0 * 256 + b1) / 256) with b0 in H by lia. replace ((b0 * 256 + b1) mod 256) with b1 in H by lia.
  assert (I : In (b0 * 256 + b1) (N_range (N.to_nat 65536) 0)) by (apply In_N_range; lia).
  apply H in I. apply andb_true_iff in I as [I1 I2]. apply N.eqb_eq in I2. split; assumption.
Qed.

(* ... and conversely a well-formed chunk is what its RFC word decodes to: the two maps are mutually inverse *)
Lemma chunk_of_bytes_chunk_word c : chunk_ok c = true ->
  chunk_of_bytes (chunk_word c / 256) (chunk_word c mod 256) = c /\ chunk_word c < 65536.
Proof.
  destruct c as [t s r|t ss l]; intros H.
  - cbn [chunk_ok] in H. apply andb_true_iff in H as [H Hr]. apply andb_true_iff in H as [Ht Hs].
    apply N.eqb_eq in Ht. subst t. pose proof (rlc_check_sr s r Hs Hr) as C.
    apply fits_lt in Hs, Hr. change (2 ^ 2) with 4 in Hs. change (2 ^ 13) with 8192 in Hr.
    unfold rlc_check in C.
    replace ((s * 8192 + r) / 8192) with s in C by lia. replace ((s * 8192 + r) mod 8192) with r in C by lia.
    apply andb_true_iff in C as [_ C]. apply andb_true_iff in C as [C1 C2].
    apply chunk_eqb_eq in C1. apply N.ltb_lt in C2. split; assumption.
  - apply svc_check_ok in H as [-> C]. unfold svc_check in C.
    apply andb_true_iff in C as [_ C]. apply andb_true_iff in C as [C1 C2].
    apply chunk_eqb_eq in C1. apply N.ltb_lt in C2. split; assumption.
Qed.

(* ---------------------------------------------------------------------------------------- *)
(* C03 / C16: receive deltas                                                                  *)
(* ---------------------------------------------------------------------------------------- *)
Lemma be1 x : be 1 x = [n2b x]. Proof. reflexivity. Qed.
Lemma be2 x : be 2 x = [n2b (x / 256); n2b x]. Proof. reflexivity. Qed.

Lemma delta_ok_cases d : delta_ok d = true ->
  exists q : Z, rd_delta d = (250 * q)%Z /\
    ((rd_type d = 1 /\ (0 <= q <= 255)%Z) \/ (rd_type d = 2 /\ (-32768 <= q <= 32767)%Z)).
Proof.
  unfold delta_ok. intros H. apply andb_true_iff in H as [Hm H]. apply Z.eqb_eq in Hm.
  exists (rd_delta d / 250)%Z. split; [lia|].
  destruct (N.eqb_spec (rd_type d) 1) as [E|E].
  - left. apply andb_true_iff in H as [H1 H2]. split; [exact E|]. lia.
  - right. apply andb_true_iff in H as [H H2]. apply andb_true_iff in H as [H0 H1]. apply N.eqb_eq in H0. split; [exact H0|lia].
Qed.

Lemma quot250 q : (Z.quot (250 * q) 250 = q)%Z.
Proof. rewrite Z.mul_comm. apply Z.quot_mul. lia. Qed.
Lemma div250 q : ((250 * q) / 250 = q)%Z.
Proof. rewrite Z.mul_comm. apply Z.div_mul. lia. Qed.

Lemma RecvDelta_marshal_spec d : delta_ok d = true -> RecvDelta_marshal d = Ok (enc_delta d).
Proof.
  intros H. apply delta_ok_cases in H as (q & Hq & [[Ht Hr]|[Ht Hr]]);
  unfold RecvDelta_marshal, enc_delta; consts; change (Z.of_N 250) with 250%Z; rewrite Hq, quot250, div250, Ht.
  - change (1 =? 1) with true. cbn [andb].
    destruct (Z.leb_spec 0 q); [|lia]. destruct (Z.leb_spec q 255); [|lia]. reflexivity.
  - change (2 =? 1) with false. change (2 =? 2) with true. cbn [andb].
    destruct (Z.leb_spec (-32768) q); [|lia]. destruct (Z.leb_spec q 32767); [|lia]. reflexivity.
Qed.

Lemma int16_of_mod q : (-32768 <= q <= 32767)%Z -> int16_of (Z.to_N (q mod 65536)) = q.
Proof.
  intros H. unfold int16_of. destruct (N.ltb_spec (Z.to_N (q mod 65536)) 32768); lia.
Qed.

Lemma get_be_at_be2 w : w < 65536 -> get_be_at 2 (be 2 w) 0 = Ok w.
Proof.
  intros H. rewrite get_be_at_ok by (rewrite len_be; lia). change (N.to_nat 0) with 0%nat. cbn [skipn].
  rewrite <- (be_length 2 w) at 1. rewrite firstn_all. rewrite unbe_be by exact H. reflexivity.
Qed.

Lemma RecvDelta_unmarshal_enc d : delta_ok d = true -> RecvDelta_unmarshal (enc_delta d) = Ok d.
Proof.
  intros H. apply delta_ok_cases in H as (q & Hq & [[Ht Hr]|[Ht Hr]]);
  destruct d as [ty dl]; cbn [rd_type rd_delta] in *; subst ty dl;
  unfold RecvDelta_unmarshal, enc_delta; consts; cbn [rd_type rd_delta]; rewrite div250.
  - change (1 =? 1) with true. cbv iota. rewrite be1.
    change (len [n2b (Z.to_N q)]) with 1. change (1 =? 1) with true. change (1 =? 2) with false. cbn [negb andb].
    rewrite idx_ok by (rewrite len_cons, len_nil; lia). cbn [bind]. change (N.to_nat 0) with 0%nat. cbn [nth].
    rewrite b2n_n2b. f_equal. f_equal. change (Z.of_N 250) with 250%Z. lia.
  - change (2 =? 1) with false. cbv iota.
    assert (L : len (be 2 (Z.to_N (q mod 65536))) = 2) by (rewrite len_be; reflexivity). rewrite L.
    change (2 =? 1) with false. change (2 =? 2) with true. cbn [negb andb].
    rewrite get_be_at_be2 by lia. cbn [bind]. rewrite int16_of_mod by lia. reflexivity.
Qed.

(* what the decoder makes of one or two wire octets: 250 us times the unsigned / two's-complement value *)
Lemma RecvDelta_unmarshal_small b0 :
  RecvDelta_unmarshal [b0] = Ok (mkRecvDelta 1 (250 * Z.of_N (b2n b0))).
Proof. reflexivity. Qed.
Lemma RecvDelta_unmarshal_large b0 b1 :
  RecvDelta_unmarshal [b0; b1] = Ok (mkRecvDelta 2 (250 * int16_of (b2n b0 * 256 + b2n b1))).
Proof.
  unfold RecvDelta_unmarshal. change (len [b0; b1]) with 2. change (2 =? 1) with false. change (2 =? 2) with true.
  cbn [negb andb]. rewrite get_be_at_ok by (change (len [b0; b1]) with 2; lia). cbn [bind].
  change (N.to_nat 0) with 0%nat. cbn [skipn firstn]. unfold unbe. cbn [fold_left]. consts.
  change (Z.of_N 250) with 250%Z. replace (0 * 256 + b2n b0) with (b2n b0) by lia. reflexivity.
Qed.
(* and the decoded value is canonical: re-encoding gives back the octets *)
Lemma RecvDelta_unmarshal_canon w d : RecvDelta_unmarshal w = Ok d -> delta_ok d = true /\ enc_delta d = w.
Proof.
  destruct w as [|b0 [|b1 [|b2 w]]].
  - discriminate.
  - rewrite RecvDelta_unmarshal_small. intros E.
    assert (E' : d = mkRecvDelta 1 (250 * Z.of_N (b2n b0))) by congruence. clear E. subst d.
    pose proof (b2n_lt b0) as Hb. unfold delta_ok, enc_delta. cbn [rd_type rd_delta]. rewrite div250.
    change (1 =? 1) with true. cbv iota. split.
    + apply andb_true_iff. split; [apply Z.eqb_eq; lia|]. apply andb_true_iff. split; lia.
    + rewrite N2Z.id, be1, n2b_b2n. reflexivity.
  - rewrite RecvDelta_unmarshal_large. intros E.
    assert (E' : d = mkRecvDelta 2 (250 * int16_of (b2n b0 * 256 + b2n b1))) by congruence. clear E. subst d.
    pose proof (b2n_lt b0) as Hb0. pose proof (b2n_lt b1) as Hb1.
    set (w := b2n b0 * 256 + b2n b1). assert (Hw : w < 65536) by lia.
    unfold delta_ok, enc_delta. cbn [rd_type rd_delta]. rewrite div250.
    change (2 =? 1) with false. change (2 =? 2) with true. cbv iota.
    assert (Hi : (-32768 <= int16_of w <= 32767)%Z) by (unfold int16_of; destruct (N.ltb_spec w 32768); lia).
    split.
    + apply andb_true_iff. split; [apply Z.eqb_eq; lia|]. cbn [andb]. apply andb_true_iff. split; lia.
    + assert (E : Z.to_N (int16_of w mod 65536) = w) by (unfold int16_of; destruct (N.ltb_spec w 32768); lia).
      rewrite E, be2. unfold w. replace ((b2n b0 * 256 + b2n b1) / 256) with (b2n b0) by lia.
      rewrite (n2b_mod (b2n b0 * 256 + b2n b1) (b2n b1)) by lia. rewrite !n2b_b2n. reflexivity.
  - unfold RecvDelta_unmarshal. rewrite !len_cons.
    destruct (N.eqb_spec (1 + (1 + (1 + len w))) 1); [lia|]. destruct (N.eqb_spec (1 + (1 + (1 + len w))) 2); [lia|].
    discriminate.
Qed.

(* ---------------------------------------------------------------------------------------- *)
(* C03: TWCC Marshal = RFC layout                                                             *)
(* ---------------------------------------------------------------------------------------- *)
Definition enc_chunks (cs : list TChunk) : bytes := concat (map (fun c => be 2 (chunk_word c)) cs).
Definition enc_deltas (ds : list RecvDelta) : bytes := concat (map enc_delta ds).
(* octets taken by the deltas (1 for a small delta, 2 otherwise), as in twcc_exact_len *)
Definition deltas_octets (ds : list RecvDelta) : N :=
  fold_right (fun d acc => (if rd_type d =? 1 then 1 else 2) + acc) 0 ds.

Lemma tchunks_marshal_spec cs : forallb chunk_ok cs = true -> tchunks_marshal cs = Ok (enc_chunks cs).
Proof.
  induction cs as [|c cs IH]; intros H; [reflexivity|].
  cbn [forallb] in H. apply andb_true_iff in H as [Hc H].
  cbn [tchunks_marshal]. rewrite TChunk_marshal_word by exact Hc. cbn [bind]. rewrite IH by exact H. reflexivity.
Qed.
Lemma deltas_marshal_spec ds : forallb delta_ok ds = true -> deltas_marshal ds = Ok (enc_deltas ds).
Proof.
  induction ds as [|d ds IH]; intros H; [reflexivity|].
  cbn [forallb] in H. apply andb_true_iff in H as [Hd H].
  cbn [deltas_marshal]. rewrite RecvDelta_marshal_spec by exact Hd. cbn [bind]. rewrite IH by exact H. reflexivity.
Qed.

Lemma len_enc_chunks cs : len (enc_chunks cs) = 2 * nl cs.
Proof.
  unfold enc_chunks, nl. induction cs as [|c cs IH]; [reflexivity|].
  cbn [map concat length]. rewrite len_app, len_be, IH. lia.
Qed.
Lemma len_enc_delta d : len (enc_delta d) = if rd_type d =? 1 then 1 else 2.
Proof. unfold enc_delta. destruct (rd_type d =? 1); rewrite len_be; reflexivity. Qed.
Lemma len_enc_deltas ds : len (enc_deltas ds) = deltas_octets ds.
Proof.
  unfold enc_deltas, deltas_octets. induction ds as [|d ds IH]; [reflexivity|].
  cbn [map concat fold_right]. rewrite len_app, len_enc_delta, IH. reflexivity.
Qed.

Lemma twcc_body_eq t : twcc_body t =
  be 4 (tw_sender t) ++ be 4 (tw_media t) ++ be 2 (tw_base t) ++ be 2 (tw_count t) ++ be 3 (tw_reftime t) ++ be 1 (tw_fb t)
  ++ enc_chunks (tw_chunks t) ++ enc_deltas (tw_deltas t).
Proof. reflexivity. Qed.
Lemma len_twcc_body t : len (twcc_body t) = 16 + 2 * nl (tw_chunks t) + deltas_octets (tw_deltas t).
Proof. rewrite twcc_body_eq. rewrite !len_app, !len_be, len_enc_chunks, len_enc_deltas. lia. Qed.
Lemma twcc_exact_len_eq t : twcc_exact_len t = 4 + len (twcc_body t).
Proof.
  rewrite len_twcc_body. unfold twcc_exact_len. consts. fold (deltas_octets (tw_deltas t)).
  change (nlen (tw_chunks t)) with (nl (tw_chunks t)). lia.
Qed.

Lemma deltas_len_exact ds : forall n, n + deltas_octets ds < 65536 -> deltas_len n ds = n + deltas_octets ds.
Proof.
  induction ds as [|d ds IH]; intros n H; cbn [deltas_len deltas_octets fold_right] in *; [lia|].
  consts. fold (deltas_octets ds) in *. unfold u16.
  destruct (rd_type d =? 1); rewrite N.mod_small by lia; rewrite IH by lia; lia.
Qed.
Lemma TWCC_packetLen_exact t : twcc_exact_len t < 65536 -> TWCC_packetLen t = twcc_exact_len t.
Proof.
  intros H. unfold TWCC_packetLen, twcc_exact_len in *. consts. fold (deltas_octets (tw_deltas t)) in *.
  unfold u16. rewrite N.mod_small by lia. apply deltas_len_exact. lia.
Qed.
Lemma TWCC_size_exact t : twcc_exact_len t <= 65532 ->
  TWCC_size t = twcc_exact_len t + get_padding (twcc_exact_len t).
Proof.
  intros H. unfold TWCC_size. rewrite TWCC_packetLen_exact by lia. set (n := twcc_exact_len t) in *.
  unfold get_padding, u16. destruct (N.eqb_spec (n mod 4) 0); cbn [negb]; [lia|].
  rewrite (N.mod_small (n / 4 + 1)) by lia. rewrite N.mod_small by lia. lia.
Qed.

(* the reference-time word: 24 bits of reference time, 8 bits of feedback packet count *)
Lemma append_reftime_fb r f : r < 16777216 -> f < 256 ->
  appendNBitsToUint32 (appendNBitsToUint32 0 24 r) 8 f = r * 256 + f.
Proof.
  intros Hr Hf. unfold appendNBitsToUint32.
  change (shl 32 0 24) with 0.
  change (shr 4294967295 (u32 (32 + 4294967296 - 24 mod 4294967296))) with (N.ones 24).
  change (shr 4294967295 (u32 (32 + 4294967296 - 8 mod 4294967296))) with (N.ones 8).
  rewrite N.lor_0_l, !N.land_ones. change (2 ^ 24) with 16777216. change (2 ^ 8) with 256.
  rewrite (N.mod_small r) by lia. rewrite (N.mod_small f) by lia.
  unfold shl. change (32 <=? 8) with false. cbv iota. change (2 ^ 8) with 256. change (2 ^ 32) with 4294967296.
  rewrite N.mod_small by lia. apply (lor_disjoint_add (r * 256) f 8); change (2 ^ 8) with 256; lia.
Qed.
Lemma be4_split a b : b < 256 -> be 4 (a * 256 + b) = be 3 a ++ be 1 b.
Proof.
  intros H. change (be 4 (a * 256 + b)) with (be 3 ((a * 256 + b) / 256) ++ [n2b (a * 256 + b)]).
  replace ((a * 256 + b) / 256) with a by lia. rewrite (n2b_mod (a * 256 + b) b) by lia. reflexivity.
Qed.

Lemma zeros_snoc n : 0 < n -> zeros n = zeros (n - 1) ++ [x00].
Proof.
  intros H. replace n with ((n - 1) + 1) at 1 by lia. rewrite zeros_add. reflexivity.
Qed.

Ltac split_andb :=
  repeat match goal with H : _ && _ = true |- _ => apply andb_true_iff in H; destruct H end.

Theorem TWCC_marshal_spec t : D_TWCC t = true -> TWCC_marshal t = Ok (enc_TWCC t).
Proof.
  intros D. unfold D_TWCC in D. split_andb.
  repeat match goal with H : fits _ _ = true |- _ => apply fits_lt in H end.
  match goal with H : (h_count _ =? 15) = true |- _ => apply N.eqb_eq in H; rename H into Hcnt end.
  match goal with H : (h_type _ =? 205) = true |- _ => apply N.eqb_eq in H; rename H into Hty end.
  match goal with H : (h_len _ =? _) = true |- _ => apply N.eqb_eq in H; rename H into Hlen end.
  match goal with H : (_ <=? 65532) = true |- _ => apply N.leb_le in H; rename H into Hsz end.
  match goal with H : implb _ _ = true |- _ => rename H into Hpad end.
  match goal with H : forallb chunk_ok _ = true |- _ => rename H into Hcs end.
  match goal with H : forallb delta_ok _ = true |- _ => rename H into Hds end.
  match goal with H : tw_reftime t < _ |- _ => rename H into Hrt end.
  match goal with H : tw_fb t < _ |- _ => rename H into Hfb end.
  change (2 ^ 24) with 16777216 in Hrt. change (2 ^ 8) with 256 in Hfb.
  assert (Hx : twcc_exact_len t <= 65532) by (rewrite twcc_exact_len_eq; lia).
  unfold TWCC_marshal. destruct (N.ltb_spec 65532 (twcc_exact_len t)) as [|_]; [lia|].
  (* header *)
  destruct (tw_hdr t) as [p c ty l] eqn:Eh. cbn [h_pad h_count h_type h_len] in *. subst c ty.
  rewrite Header_marshal_spec by lia. cbn [bind].
  rewrite tchunks_marshal_spec by exact Hcs. cbn [bind].
  rewrite deltas_marshal_spec by exact Hds. cbn [bind].
  rewrite append_reftime_fb by assumption. rewrite be4_split by assumption.
  fold (twcc_body t). fold (enc_chunks (tw_chunks t)) (enc_deltas (tw_deltas t)). rewrite <- twcc_body_eq.
  unfold enc_TWCC. rewrite Eh. cbn [h_pad]. rewrite <- Hlen.
  f_equal. f_equal.
  rewrite TWCC_size_exact by exact Hx. rewrite TWCC_packetLen_exact by lia. rewrite twcc_exact_len_eq. consts.
  fold (twcc_padlen t). set (pl := twcc_padlen t) in *.
  replace (4 + len (twcc_body t) + pl - 4 - len (twcc_body t)) with pl by lia.
  destruct p; cbn [implb] in Hpad.
  - apply N.ltb_lt in Hpad. rewrite (zeros_snoc pl) by exact Hpad.
    rewrite app_assoc, removelast_last, <- app_assoc. f_equal. f_equal. f_equal. apply n2b_mod. lia.
  - reflexivity.
Qed.
Print Assumptions TWCC_marshal_spec.

(* ---------------------------------------------------------------------------------------- *)
(* C13: the image of TWCC Unmarshal                                                           *)
(* ---------------------------------------------------------------------------------------- *)
Lemma RLC_unmarshal_2 b0 b1 : RLC_unmarshal [b0; b1] = Ok (rlc_of_bytes (b2n b0) (b2n b1)).
Proof. reflexivity. Qed.
Lemma SVC_unmarshal_2 b0 b1 : SVC_unmarshal [b0; b1] = Ok (svc_of_bytes (b2n b0) (b2n b1)).
Proof. reflexivity. Qed.

Lemma chunk_read b0 b1 :
  (if getNBitsFromByte (b2n b0) 0 1 =? c_TypeTCCRunLengthChunk then RLC_unmarshal [b0; b1] else SVC_unmarshal [b0; b1])
  = Ok (chunk_of_bytes (b2n b0) (b2n b1)).
Proof.
  unfold chunk_of_bytes. rewrite RLC_unmarshal_2, SVC_unmarshal_2.
  destruct (getNBitsFromByte (b2n b0) 0 1 =? c_TypeTCCRunLengthChunk); reflexivity.
Qed.

Lemma chunk_of_bytes_enc b0 b1 :
  chunk_ok (chunk_of_bytes (b2n b0) (b2n b1)) = true /\ be 2 (chunk_word (chunk_of_bytes (b2n b0) (b2n b1))) = [b0; b1].
Proof.
  pose proof (b2n_lt b0) as H0. pose proof (b2n_lt b1) as H1.
  destruct (chunk_of_bytes_word _ _ H0 H1) as [Hok Hw]. split; [exact Hok|].
  rewrite Hw, be2. replace ((b2n b0 * 256 + b2n b1) / 256) with (b2n b0) by lia.
  rewrite (n2b_mod (b2n b0 * 256 + b2n b1) (b2n b1)) by lia. rewrite !n2b_b2n. reflexivity.
Qed.

Lemma filter_repeat {A} (f : A -> bool) x n : filter f (repeat x n) = if f x then repeat x n else [].
Proof.
  induction n as [|n IH]; cbn [repeat filter]; [destruct (f x); reflexivity|].
  rewrite IH. destruct (f x); reflexivity.
Qed.

Definition recv_only (l : list N) : Prop := Forall (fun x => x = 1 \/ x = 2) l.
Lemma recv_only_filter l : recv_only (filter is_recv l).
Proof.
  apply Forall_forall. intros x Hx. apply filter_In in Hx as [_ Hx]. unfold is_recv in Hx.
  apply orb_true_iff in Hx as [Hx|Hx]; apply N.eqb_eq in Hx; auto.
Qed.

(* one chunk: the delta types the loop appends are the received symbols of the chunk's (clipped) expansion,
   and the counter advances as the reference expansion does *)
Lemma chunk_delta_types_spec c rem : chunk_ok c = true ->
  chunk_delta_types c rem = filter is_recv (match c with RLC _ s r => repeat s (N.to_nat (N.min rem r)) | SVC _ _ l => l end)
  /\ chunk_advance c rem = N.min rem (match c with RLC _ _ r => r | SVC _ _ l => nl l end).
Proof.
  destruct c as [t s r|t ss l]; intros H; cbn [chunk_delta_types chunk_advance].
  - split; [|reflexivity]. rewrite filter_repeat. reflexivity.
  - cbn [chunk_ok] in H. apply andb_true_iff in H as [_ H]. consts.
    destruct (N.eqb_spec ss 0) as [->|Hne].
    + apply andb_true_iff in H as [Hn Hf]. apply N.eqb_eq in Hn. split.
      * apply filter_ext_in. intros x Hx. rewrite forallb_forall in Hf. specialize (Hf x Hx). apply fits_lt in Hf.
        change (2 ^ 1) with 2 in Hf. unfold is_recv. destruct (N.eqb_spec x 2); [lia|]. rewrite orb_false_r. reflexivity.
      * change (nlen l) with (nl l). rewrite Hn. reflexivity.
    + apply andb_true_iff in H as [H Hf]. apply andb_true_iff in H as [Hs Hn]. apply N.eqb_eq in Hs, Hn. subst ss.
      change (1 =? 1) with true. cbv iota. split; [reflexivity|].
      change (nlen l) with (nl l). rewrite Hn. reflexivity.
Qed.

Lemma expand_cons c cs rem :
  expand (c :: cs) rem =
  (match c with RLC _ s r => repeat s (N.to_nat (N.min rem r)) | SVC _ _ l => l end)
  ++ expand cs (rem - N.min rem (match c with RLC _ _ r => r | SVC _ _ l => nl l end)).
Proof. destruct c; reflexivity. Qed.

(* invariant of the status loop *)
Lemma status_loop_spec : forall fuel rest total count pos processed cs dts p rest',
  status_loop fuel rest total count pos processed = Ok (cs, dts, p, rest') ->
  processed <= count -> count < 65536 -> pos <= total -> total <= 65532 ->
  dts = filter is_recv (expand cs (count - processed)) /\
  p = pos + 2 * nl cs /\ p <= total /\
  rest = enc_chunks cs ++ rest' /\ forallb chunk_ok cs = true.
Proof.
  induction fuel as [|f IH]; intros rest total count pos processed cs dts p rest' H Hp Hc Hpos Ht; [discriminate|].
  cbn [status_loop] in H.
  destruct (N.ltb_spec processed count) as [Hlt|Hge].
  2:{ injection H as <- <- <- <-. unfold nl. cbn [length expand filter forallb]. repeat split; try lia. }
  consts. unfold u16 in H at 1. rewrite (N.mod_small (pos + 2)) in H by lia.
  destruct (N.ltb_spec total (pos + 2)) as [|Hroom]; [discriminate|].
  destruct rest as [|b0 [|b1 rest1]]; [discriminate|discriminate|].
  pose proof (chunk_read b0 b1) as Hr. consts. rewrite Hr in H. clear Hr. cbn [bind] in H.
  set (c := chunk_of_bytes (b2n b0) (b2n b1)) in *.
  destruct (chunk_of_bytes_enc b0 b1) as [Hok Henc]. fold c in Hok, Henc.
  assert (Hsub : sub16 count processed = count - processed) by (unfold sub16; lia).
  rewrite Hsub in H. set (rem := count - processed) in *.
  destruct (chunk_delta_types_spec c rem Hok) as [Hdt Hadv].
  set (adv := match c with RLC _ _ r => r | SVC _ _ l => nl l end) in *.
  rewrite Hadv in H. unfold u16 in H. rewrite (N.mod_small (pos + 2)) in H by lia.
  rewrite (N.mod_small (processed + N.min rem adv)) in H by lia.
  destruct (status_loop f rest1 total count (pos + 2) (processed + N.min rem adv)) as [[[[cs1 ds1] p1] r1]| | |] eqn:E;
    cbn [bind] in H; try discriminate.
  injection H as <- <- <- <-.
  apply IH in E; try lia. destruct E as (E1 & E2 & E3 & E4 & E5).
  replace (count - (processed + N.min rem adv)) with (rem - N.min rem adv) in E1 by lia.
  repeat split.
  - rewrite expand_cons. fold adv. rewrite filter_app, <- Hdt, <- E1. reflexivity.
  - unfold nl in *. cbn [length]. lia.
  - exact E3.
  - unfold enc_chunks in *. cbn [map concat]. rewrite Henc, E4. reflexivity.
  - cbn [forallb]. rewrite Hok, E5. reflexivity.
Qed.

(* the delta pass reads the deltas back to back, in the order of the received symbols *)
Lemma delta_pass_spec : forall dts rest total pos ds,
  delta_pass rest total pos dts = Ok ds -> pos <= total -> total <= 65532 -> recv_only dts ->
  map rd_type ds = dts /\ pos + deltas_octets ds <= total /\ forallb delta_ok ds = true /\
  exists rest', rest = enc_deltas ds ++ rest'.
Proof.
  induction dts as [|ty dts IH]; intros rest total pos ds H Hpos Ht Hro; cbn [delta_pass] in H.
  - injection H as <-. cbn [map deltas_octets fold_right forallb]. repeat split; try lia. exists rest. reflexivity.
  - inversion Hro as [|? ? Hty Hro']; subst. consts. unfold u16 in H.
    destruct Hty as [->| ->].
    + change (1 =? 1) with true in H. cbv iota in H. rewrite (N.mod_small (pos + 1)) in H by lia.
      destruct (N.ltb_spec total (pos + 1)); [discriminate|].
      destruct rest as [|b0 rest1]; [discriminate|].
      destruct (RecvDelta_unmarshal [b0]) as [d| | |] eqn:Ed; cbn [bind] in H; try discriminate.
      destruct (delta_pass rest1 total (pos + 1) dts) as [ds1| | |] eqn:E; cbn [bind] in H; try discriminate.
      injection H as <-. apply IH in E; try lia; try assumption. destruct E as (E1 & E2 & E3 & r' & E4).
      pose proof Ed as Ed'. apply RecvDelta_unmarshal_canon in Ed' as [Hok Henc].
      rewrite RecvDelta_unmarshal_small in Ed.
      assert (Ety : rd_type d = 1) by (assert (X : d = mkRecvDelta 1 (250 * Z.of_N (b2n b0))) by congruence; rewrite X; reflexivity).
      repeat split.
      * cbn [map]. rewrite Ety, E1. reflexivity.
      * cbn [deltas_octets fold_right]. fold (deltas_octets ds1). rewrite Ety. change (1 =? 1) with true. cbv iota. lia.
      * cbn [forallb]. rewrite Hok, E3. reflexivity.
      * exists r'. unfold enc_deltas in *. cbn [map concat]. rewrite Henc, E4. reflexivity.
    + change (2 =? 1) with false in H. change (2 =? 2) with true in H. cbv iota in H.
      rewrite (N.mod_small (pos + 2)) in H by lia.
      destruct (N.ltb_spec total (pos + 2)); [discriminate|].
      destruct rest as [|b0 [|b1 rest1]]; [discriminate|discriminate|].
      destruct (RecvDelta_unmarshal [b0; b1]) as [d| | |] eqn:Ed; cbn [bind] in H; try discriminate.
      destruct (delta_pass rest1 total (pos + 2) dts) as [ds1| | |] eqn:E; cbn [bind] in H; try discriminate.
      injection H as <-. apply IH in E; try lia; try assumption. destruct E as (E1 & E2 & E3 & r' & E4).
      pose proof Ed as Ed'. apply RecvDelta_unmarshal_canon in Ed' as [Hok Henc].
      rewrite RecvDelta_unmarshal_large in Ed.
      assert (Ety : rd_type d = 2)
        by (assert (X : d = mkRecvDelta 2 (250 * int16_of (b2n b0 * 256 + b2n b1))) by congruence; rewrite X; reflexivity).
      repeat split.
      * cbn [map]. rewrite Ety, E1. reflexivity.
      * cbn [deltas_octets fold_right]. fold (deltas_octets ds1). rewrite Ety. change (2 =? 1) with false. cbv iota. lia.
      * cbn [forallb]. rewrite Hok, E3. reflexivity.
      * exists r'. unfold enc_deltas in *. cbn [map concat]. rewrite Henc, E4. reflexivity.
Qed.

(* everything a successful Unmarshal guarantees about the chunk / delta part *)
Lemma TWCC_unmarshal_image b t : TWCC_unmarshal b = Ok t ->
  let total := u16 (4 * u16 (h_len (tw_hdr t) + 1)) in
  map rd_type (tw_deltas t) = filter is_recv (expand (tw_chunks t) (tw_count t)) /\
  20 + 2 * nl (tw_chunks t) + deltas_octets (tw_deltas t) <= total /\ total <= len b /\
  forallb chunk_ok (tw_chunks t) = true /\ forallb delta_ok (tw_deltas t) = true /\
  exists tail, skipn 20 b = enc_chunks (tw_chunks t) ++ enc_deltas (tw_deltas t) ++ tail.
Proof.
  unfold TWCC_unmarshal. consts.
  destruct (N.ltb_spec (len b) (4 + 4)) as [|Hl8]; [discriminate|].
  destruct (Header_unmarshal b) as [h| | |] eqn:Eh; cbn [bind]; try discriminate.
  set (total := u16 (4 * u16 (h_len h + 1))).
  assert (Ht : total <= 65532) by (unfold total, u16; lia).
  destruct (N.ltb_spec total (4 + 16)) as [|Ht20]; [discriminate|].
  destruct (N.ltb_spec (len b) total) as [|Hlt]; [discriminate|].
  destruct (negb (h_type h =? 205) || negb (h_count h =? 15)); [discriminate|].
  destruct (get_be_at 4 b 4) as [sender| | |]; cbn [bind]; try discriminate.
  destruct (get_be_at 4 b (4 + 4)) as [media| | |]; cbn [bind]; try discriminate.
  destruct (get_be_at 2 b (4 + 8)) as [base| | |]; cbn [bind]; try discriminate.
  destruct (get_be_at 2 b (4 + 10)) as [count| | |] eqn:Ec; cbn [bind]; try discriminate.
  apply get_be_at_lt in Ec. change (256 ^ N.of_nat 2) with 65536 in Ec.
  destruct (slice b (4 + 12) (4 + 12 + 3)) as [rt| | |]; cbn [bind]; try discriminate.
  destruct (get24BitsFromBytes rt) as [reftime| | |]; cbn [bind]; try discriminate.
  destruct (idx b (4 + 15)) as [fb| | |]; cbn [bind]; try discriminate.
  change (u16 (4 + 16)) with 20. change (N.to_nat 20) with 20%nat.
  destruct (status_loop (S (length b)) (skipn 20 b) total count 20 0) as [[[[cs dts] p] rest]| | |] eqn:Es;
    cbn [bind]; try discriminate.
  destruct (delta_pass rest total p dts) as [ds| | |] eqn:Ed; cbn [bind]; try discriminate.
  intros E. injection E as <-. cbn [tw_hdr tw_chunks tw_deltas tw_count]. cbv zeta. fold total.
  apply status_loop_spec in Es; try lia. destruct Es as (S1 & S2 & S3 & S4 & S5).
  rewrite N.sub_0_r in S1.
  apply delta_pass_spec in Ed; try lia; [|rewrite S1; apply recv_only_filter].
  destruct Ed as (D1 & D2 & D3 & tail & D4).
  repeat split; try assumption; try lia.
  - rewrite D1. exact S1.
  - exists tail. rewrite S4, D4. reflexivity.
Qed.

(* C13, first conjunct: one delta per received symbol, of the symbol's class, in order *)
Theorem TWCC_unmarshal_delta_types b t : TWCC_unmarshal b = Ok t ->
  map rd_type (tw_deltas t) = filter is_recv (expand (tw_chunks t) (tw_count t)).
Proof. intros H. apply TWCC_unmarshal_image in H. cbv zeta in H. tauto. Qed.

(* C13, third conjunct: chunks and deltas lie inside the length the header announces, which lies inside the input *)
Theorem TWCC_unmarshal_bound b t : TWCC_unmarshal b = Ok t ->
  twcc_exact_len t <= u16 (4 * u16 (h_len (tw_hdr t) + 1)) /\ u16 (4 * u16 (h_len (tw_hdr t) + 1)) <= len b.
Proof.
  intros H. apply TWCC_unmarshal_image in H. cbv zeta in H. destruct H as (_ & H1 & H2 & _).
  split; [|exact H2]. rewrite twcc_exact_len_eq, len_twcc_body. lia.
Qed.
Corollary TWCC_unmarshal_bound_nowrap b t : TWCC_unmarshal b = Ok t -> h_len (tw_hdr t) < 16383 ->
  20 + 2 * nl (tw_chunks t) + deltas_octets (tw_deltas t) <= 4 * (h_len (tw_hdr t) + 1) <= len b.
Proof.
  intros H Hl. apply TWCC_unmarshal_image in H. cbv zeta in H. destruct H as (_ & H1 & H2 & _).
  unfold u16 in *. lia.
Qed.

(* C13, second conjunct: the octets after the 20-octet fixed part are the chunk words followed by the deltas'
   wire forms, every chunk is well-formed, and every delta is 250 us times the (signed, for two octets) wire value *)
Theorem TWCC_unmarshal_wire b t : TWCC_unmarshal b = Ok t ->
  forallb chunk_ok (tw_chunks t) = true /\
  exists ws tail,
    skipn 20 b = enc_chunks (tw_chunks t) ++ concat ws ++ tail /\
    Forall2 (fun w d => RecvDelta_unmarshal w = Ok d /\ enc_delta d = w /\ delta_ok d = true) ws (tw_deltas t).
Proof.
  intros H. apply TWCC_unmarshal_image in H. cbv zeta in H. destruct H as (_ & _ & _ & Hc & Hd & tail & Hs).
  split; [exact Hc|]. exists (map enc_delta (tw_deltas t)), tail. split; [exact Hs|].
  clear Hs. induction (tw_deltas t) as [|d ds IH]; [constructor|].
  cbn [forallb] in Hd. apply andb_true_iff in Hd as [Hd1 Hd2]. cbn [map]. constructor; [|apply IH; exact Hd2].
  split; [apply RecvDelta_unmarshal_enc; exact Hd1|]. split; [reflexivity|exact Hd1].
Qed.

Print Assumptions TWCC_unmarshal_delta_types.
Print Assumptions TWCC_unmarshal_bound.
Print Assumptions TWCC_unmarshal_wire.

(* ---------------------------------------------------------------------------------------- *)
(* C04 (canonical) / C02: Unmarshal inverts the RFC encoding on D_TWCC                        *)
(* ---------------------------------------------------------------------------------------- *)
Lemma nl_chunk_syms c : nl (chunk_syms c) = match c with RLC _ _ r => r | SVC _ _ l => nl l end.
Proof. destruct c as [t s r|t ss l]; cbn [chunk_syms]; [|reflexivity]. unfold nl. rewrite repeat_length. lia. Qed.

Lemma status_loop_enc : forall cs fuel rest total count pos processed,
  forallb chunk_ok cs = true -> chunks_needed cs (count - processed) = true ->
  processed <= count -> count < 65536 -> pos + 2 * nl cs <= total -> total <= 65532 ->
  (length cs < fuel)%nat ->
  status_loop fuel (enc_chunks cs ++ rest) total count pos processed =
    Ok (cs, filter is_recv (expand cs (count - processed)), pos + 2 * nl cs, rest).
Proof.
  induction cs as [|c cs IH]; intros fuel rest total count pos processed Hok Hn Hp Hc Hpos Ht Hf;
    (destruct fuel as [|f]; [cbn [length] in Hf; lia|]); cbn [status_loop].
  - cbn [chunks_needed] in Hn. apply N.eqb_eq in Hn.
    destruct (N.ltb_spec processed count); [lia|]. unfold nl. cbn [length expand filter]. unfold enc_chunks. cbn [map concat app].
    replace (pos + 2 * N.of_nat 0) with pos by lia. reflexivity.
  - cbn [chunks_needed] in Hn. apply andb_true_iff in Hn as [Hpos0 Hn]. apply N.ltb_lt in Hpos0.
    cbn [forallb] in Hok. apply andb_true_iff in Hok as [Hokc Hok].
    assert (Hnl : nl (c :: cs) = 1 + nl cs) by (unfold nl; cbn [length]; lia).
    destruct (N.ltb_spec processed count); [|lia].
    consts. unfold u16 at 1. rewrite (N.mod_small (pos + 2)) by lia.
    destruct (N.ltb_spec total (pos + 2)); [lia|].
    destruct (chunk_of_bytes_chunk_word c Hokc) as [Hdec Hw].
    unfold enc_chunks. cbn [map concat]. fold (enc_chunks cs). rewrite be2. cbn [app].
    pose proof (chunk_read (n2b (chunk_word c / 256)) (n2b (chunk_word c))) as Hr. consts. rewrite Hr. clear Hr. cbn [bind].
    rewrite !b2n_n2b. rewrite (N.mod_small (chunk_word c / 256)) by lia. rewrite Hdec.
    assert (Hsub : sub16 count processed = count - processed) by (unfold sub16; lia).
    rewrite Hsub. set (rem := count - processed) in *.
    destruct (chunk_delta_types_spec c rem Hokc) as [Hdt Hadv]. rewrite nl_chunk_syms in Hn.
    set (adv := match c with RLC _ _ r => r | SVC _ _ l => nl l end) in *.
    rewrite Hadv. unfold u16. rewrite (N.mod_small (pos + 2)) by lia.
    rewrite (N.mod_small (processed + N.min rem adv)) by lia.
    rewrite (IH f rest total count (pos + 2) (processed + N.min rem adv)); try assumption; try lia.
    + cbn [bind]. rewrite expand_cons. fold adv. rewrite filter_app, <- Hdt.
      replace (count - (processed + N.min rem adv)) with (rem - N.min rem adv) by lia.
      replace (pos + 2 * nl (c :: cs)) with (pos + 2 + 2 * nl cs) by lia. reflexivity.
    + replace (count - (processed + N.min rem adv)) with (rem - N.min rem adv) by lia. exact Hn.
    + cbn [length] in Hf. lia.
Qed.

Lemma delta_pass_enc : forall ds rest total pos,
  forallb delta_ok ds = true -> pos + deltas_octets ds <= total -> total <= 65532 ->
  delta_pass (enc_deltas ds ++ rest) total pos (map rd_type ds) = Ok ds.
Proof.
  induction ds as [|d ds IH]; intros rest total pos Hok Hpos Ht; [reflexivity|].
  cbn [forallb] in Hok. apply andb_true_iff in Hok as [Hd Hok].
  cbn [deltas_octets fold_right] in Hpos. fold (deltas_octets ds) in Hpos.
  pose proof (RecvDelta_unmarshal_enc d Hd) as Hu. pose proof (len_enc_delta d) as Hl.
  unfold enc_deltas. cbn [map concat delta_pass]. fold (enc_deltas ds). consts. unfold u16.
  apply delta_ok_cases in Hd as (q & Hq & [[Hty Hr]|[Hty Hr]]); rewrite Hty in *.
  - change (1 =? 1) with true in *. cbv iota in *. rewrite (N.mod_small (pos + 1)) by lia.
    destruct (N.ltb_spec total (pos + 1)); [lia|].
    destruct (enc_delta d) as [|b0 [|b1 w]] eqn:Ee; try (exfalso; rewrite ?len_cons, ?len_nil in Hl; lia).
    cbn [app]. rewrite Hu. cbn [bind]. rewrite IH by (try assumption; lia). reflexivity.
  - change (2 =? 1) with false in *. change (2 =? 2) with true. cbv iota in *. rewrite (N.mod_small (pos + 2)) by lia.
    destruct (N.ltb_spec total (pos + 2)); [lia|].
    destruct (enc_delta d) as [|b0 [|b1 [|b2 w]]] eqn:Ee; try (exfalso; rewrite ?len_cons, ?len_nil in Hl; lia).
    cbn [app]. rewrite Hu. cbn [bind]. rewrite IH by (try assumption; lia). reflexivity.
Qed.

Lemma len_hdr p c t l : len (hdr p c t l) = 4.
Proof. reflexivity. Qed.
Lemma get24_be3 x : x < 16777216 -> get24BitsFromBytes (be 3 x) = Ok x.
Proof.
  intros H. change (be 3 x) with [n2b (x / 256 / 256); n2b (x / 256); n2b x].
  unfold get24BitsFromBytes. rewrite !idx_ok by (rewrite !len_cons, len_nil; lia). cbn [bind].
  change (N.to_nat 0) with 0%nat. change (N.to_nat 1) with 1%nat. change (N.to_nat 2) with 2%nat. cbn [nth].
  rewrite !b2n_n2b. unfold u32. f_equal. lia.
Qed.
Lemma skipn_app_exact {A} (pre rest : list A) n : length pre = n -> skipn n (pre ++ rest) = rest.
Proof. intros <-. rewrite skipn_app, skipn_all, Nat.sub_diag. reflexivity. Qed.
Lemma firstn_app_exact {A} (pre rest : list A) n : length pre = n -> firstn n (pre ++ rest) = pre.
Proof. intros <-. rewrite firstn_app, firstn_all, Nat.sub_diag, firstn_O, app_nil_r. reflexivity. Qed.
Lemma len_length (b : bytes) n : len b = N.of_nat n -> length b = n.
Proof. unfold len. lia. Qed.

Ltac len_simpl := rewrite ?len_app, ?len_be, ?len_hdr, ?len_zeros, ?len_cons, ?len_nil.

Theorem TWCC_unmarshal_enc t : D_TWCC t = true -> TWCC_unmarshal (enc_TWCC t) = Ok t.
Proof.
  intros D. unfold D_TWCC in D. split_andb.
  repeat match goal with H : fits _ _ = true |- _ => apply fits_lt in H end.
  match goal with H : (h_count _ =? 15) = true |- _ => apply N.eqb_eq in H; rename H into Hcnt end.
  match goal with H : (h_type _ =? 205) = true |- _ => apply N.eqb_eq in H; rename H into Hty end.
  match goal with H : (h_len _ =? _) = true |- _ => apply N.eqb_eq in H; rename H into Hlen end.
  match goal with H : (_ <=? 65532) = true |- _ => apply N.leb_le in H; rename H into Hsz end.
  match goal with H : implb _ _ = true |- _ => rename H into Hpad end.
  match goal with H : forallb chunk_ok _ = true |- _ => rename H into Hcs end.
  match goal with H : forallb delta_ok _ = true |- _ => rename H into Hds end.
  match goal with H : chunks_needed _ _ = true |- _ => rename H into Hneed end.
  match goal with H : list_eqb _ _ = true |- _ => apply list_eqb_eq in H; rename H into Htypes end.
  change (2 ^ 32) with 4294967296 in *. change (2 ^ 16) with 65536 in *.
  change (2 ^ 24) with 16777216 in *. change (2 ^ 8) with 256 in *.
  pose proof (len_twcc_body t) as Lb.
  pose proof (get_padding_spec (4 + len (twcc_body t))) as [Pm Pl]. fold (twcc_padlen t) in Pm, Pl.
  unfold enc_TWCC. rewrite <- Hlen. set (pl := twcc_padlen t) in *.
  set (padding := if h_pad (tw_hdr t) then zeros (pl - 1) ++ [n2b pl] else zeros pl).
  assert (Lp : len padding = pl).
  { unfold padding. destruct (h_pad (tw_hdr t)); cbn [implb] in Hpad; [apply N.ltb_lt in Hpad|]; len_simpl; lia. }
  destruct t as [h s m bs cnt rt fb cs ds]. cbn [tw_hdr tw_sender tw_media tw_base tw_count tw_reftime tw_fb tw_chunks tw_deltas] in *.
  destruct h as [p c ty L]. cbn [h_pad h_count h_type h_len] in *. subst c ty.
  rewrite twcc_body_eq in *. cbn [tw_hdr tw_sender tw_media tw_base tw_count tw_reftime tw_fb tw_chunks tw_deltas] in *.
  rewrite <- !app_assoc.
  set (HD := hdr p 15 205 L).
  set (raw := HD ++ be 4 s ++ be 4 m ++ be 2 bs ++ be 2 cnt ++ be 3 rt ++ be 1 fb ++ enc_chunks cs ++ enc_deltas ds ++ padding).
  assert (Lraw : len raw = 4 + (16 + 2 * nl cs + deltas_octets ds) + pl).
  { unfold raw, HD. len_simpl. rewrite len_enc_chunks, len_enc_deltas, Lp. lia. }
  assert (HL : 4 * (L + 1) = 4 + (16 + 2 * nl cs + deltas_octets ds) + pl) by lia.
  assert (Eh : Header_unmarshal raw = Ok (mkHeader p 15 205 L)) by (apply Header_unmarshal_hdr; lia).
  assert (R1 : get_be_at 4 raw 4 = Ok s).
  { unfold raw. apply get_be_at_app; [reflexivity|assumption]. }
  assert (R2 : get_be_at 4 raw (4 + 4) = Ok m).
  { unfold raw. rewrite app_assoc. apply get_be_at_app; [len_simpl; reflexivity|assumption]. }
  assert (R3 : get_be_at 2 raw (4 + 8) = Ok bs).
  { unfold raw. do 2 rewrite app_assoc. apply get_be_at_app; [len_simpl; reflexivity|assumption]. }
  assert (R4 : get_be_at 2 raw (4 + 10) = Ok cnt).
  { unfold raw. do 3 rewrite app_assoc. apply get_be_at_app; [len_simpl; reflexivity|assumption]. }
  assert (R5 : slice raw (4 + 12) (4 + 12 + 3) = Ok (be 3 rt)).
  { rewrite slice_ok by lia. unfold raw. do 4 rewrite app_assoc.
    rewrite skipn_app_exact by (apply len_length; len_simpl; reflexivity).
    rewrite firstn_app_exact by (apply be_length). reflexivity. }
  assert (R6 : idx raw (4 + 15) = Ok (n2b fb)).
  { unfold raw. do 5 rewrite app_assoc. change (be 1 fb) with [n2b fb]. cbn [app].
    apply idx_app. len_simpl. reflexivity. }
  assert (R7 : skipn 20 raw = enc_chunks cs ++ enc_deltas ds ++ padding).
  { unfold raw. do 6 rewrite app_assoc. apply skipn_app_exact. apply len_length. len_simpl. reflexivity. }
  unfold TWCC_unmarshal. consts. fold raw.
  destruct (N.ltb_spec (len raw) (4 + 4)); [lia|].
  rewrite Eh. cbn [bind h_len h_type h_count].
  assert (Et : u16 (4 * u16 (L + 1)) = 4 * (L + 1)) by (unfold u16; lia). rewrite Et.
  destruct (N.ltb_spec (4 * (L + 1)) (4 + 16)); [lia|].
  destruct (N.ltb_spec (len raw) (4 * (L + 1))); [lia|].
  change (205 =? 205) with true. change (15 =? 15) with true. cbn [negb orb].
  rewrite R1, R2, R3, R4, R5. cbn [bind]. rewrite get24_be3 by assumption. cbn [bind]. rewrite R6. cbn [bind].
  change (u16 (4 + 16)) with 20. change (N.to_nat 20) with 20%nat. rewrite R7.
  rewrite (status_loop_enc cs (S (length raw)) (enc_deltas ds ++ padding) (4 * (L + 1)) cnt 20 0);
    try assumption; try lia.
  2:{ rewrite N.sub_0_r. exact Hneed. }
  2:{ unfold len, nl in *. lia. }
  cbn [bind]. rewrite N.sub_0_r, <- Htypes.
  rewrite delta_pass_enc by (try assumption; lia). cbn [bind].
  rewrite b2n_n2b, (N.mod_small fb) by lia. reflexivity.
Qed.
Print Assumptions TWCC_unmarshal_enc.

(* C02 through the library's own decoder *)
Corollary TWCC_roundtrip t : D_TWCC t = true ->
  exists b, TWCC_marshal t = Ok b /\ TWCC_unmarshal b = Ok t.
Proof.
  intros D. exists (enc_TWCC t). split; [apply TWCC_marshal_spec|apply TWCC_unmarshal_enc]; exact D.
Qed.
Print Assumptions TWCC_roundtrip.

(* the domain is inhabited (so the theorems above are not vacuous): a padded and an unpadded packet *)
Example D_TWCC_example_padded :
  let t := mkTWCC (mkHeader true 15 205 5) 1 2 100 1 7 3 [RLC 0 1 1] [mkRecvDelta 1 500] in
  D_TWCC t = true /\ TWCC_marshal t = Ok (enc_TWCC t) /\ TWCC_unmarshal (enc_TWCC t) = Ok t.
Proof. vm_compute. repeat split. Qed.
Example D_TWCC_example_unpadded :
  let t := mkTWCC (mkHeader false 15 205 7) 1 2 100 3 7 3 [RLC 0 2 2; SVC 1 1 [1; 0; 0; 0; 0; 0; 0]]
                  [mkRecvDelta 2 (-250); mkRecvDelta 2 8191750; mkRecvDelta 1 63750] in
  D_TWCC t = true /\ TWCC_marshal t = Ok (enc_TWCC t) /\ TWCC_unmarshal (enc_TWCC t) = Ok t.
Proof. vm_compute. repeat split. Qed.

Print Assumptions RLC_marshal_word.
Print Assumptions RLC_unmarshal_word.
Print Assumptions SVC_marshal_word.
Print Assumptions SVC_unmarshal_word.
Print Assumptions chunk_of_bytes_word.
Print Assumptions chunk_of_bytes_chunk_word.
Print Assumptions RecvDelta_marshal_spec.
Print Assumptions RecvDelta_unmarshal_enc.
Print Assumptions RecvDelta_unmarshal_canon.
