(* SourceRemb: the functions translated from receiver_estimated_maximum_bitrate.go (Gen/FuncsRemb.v, module GoSrcRemb; float32
   carried as its bit pattern, float operations those of Lib/GoFloat.v) compute what the model functions of Model/Remb.v
   compute (exact dyadic arithmetic), for every byte string (Unmarshal) and every value whose bitrate is a 32-bit pattern
   (Marshal): NaN, infinities, negative values, -0 and subnormals included. *)
From RTCP Require Import Proofs.Tactics Lib.GoSem Lib.GoFloat Gen.FuncsRemb Proofs.GoSemFacts
  Model.Header Model.Reports Model.Remb Model.Packet Proofs.HeaderProofs Proofs.SourceEquiv Proofs.SrcConv Proofs.EncCcfbRemb
  Spec.Enc Spec.Laws Check.GoOpaque.
Local Open Scope Z_scope.

(* ================================================================================================ *)
Section MoreGoSemFacts.

Lemma bind_assoc {A B C} (r : res A) (f : A -> res B) (g : B -> res C) :
  bind (bind r f) g = bind r (fun x => bind (f x) g).
Proof. destruct r; reflexivity. Qed.

Lemma glenl_nil {A} : glenl (@nil A) = 0.  Proof. reflexivity. Qed.
Lemma glenl_cons {A} (x : A) l : glenl (x :: l) = 1 + glenl l.
Proof. unfold glenl. cbn [length]. lia. Qed.
Lemma glenl_map {A B} (f : A -> B) l : glenl (map f l) = glenl l.
Proof. unfold glenl. rewrite map_length. reflexivity. Qed.
Lemma glenl_nonneg {A} (l : list A) : 0 <= glenl l.
Proof. unfold glenl. lia. Qed.
Lemma glenl_nlen {A} (l : list A) : glenl l = Z.of_N (nlen l).
Proof. unfold glenl, nlen. lia. Qed.

Lemma gview2_ok b off lo hi : 0 <= lo <= hi -> hi <= glen b - off -> gview2 b off lo hi = Ok tt.
Proof.
  intros H1 H2. unfold gview2. destruct (Z.ltb_spec lo 0); [lia|]. destruct (Z.ltb_spec hi lo); [lia|].
  destruct (Z.ltb_spec (glen b - off) hi); [lia|]. reflexivity.
Qed.

(* PutUintK and b[i] = v at the frontier of a zero tail *)
Lemma gbe_put_fr k pre n x off : off = glen pre -> (N.of_nat k <= n)%N ->
  gbe_put k (pre ++ zeros n) off (Z.of_N x) = Ok ((pre ++ be k x) ++ zeros (n - N.of_nat k)).
Proof. intros -> H. rewrite glen_len, gbe_put_N. apply put_be_fr; [reflexivity|exact H]. Qed.
Lemma gupd_fr pre n v off : off = glen pre -> (1 <= n)%N ->
  gupd (pre ++ zeros n) off v = Ok ((pre ++ [byte_of_Z v]) ++ zeros (n - 1)).
Proof.
  intros -> H. rewrite glen_len, gupd_copy_at by (rewrite len_app, len_zeros; lia).
  rewrite (copy_at_fr pre n) by (try reflexivity; cbn [length]; lia). reflexivity.
Qed.

(* binary.BigEndian.UintK(b[off:off+k]) followed by a continuation *)
Lemma gslice_be_get_bind {C} k b off (K : Z -> res C) :
  bind (gslice b (Z.of_N off) (Z.of_N (off + N.of_nat k))) (fun y => bind (gbe_get k y) K)
  = bind (get_be_at k b off) (fun v => K (Z.of_N v)).
Proof.
  rewrite gslice_N. unfold slice, get_be_at.
  destruct (N.ltb_spec (len b) (off + N.of_nat k)) as [H|H]; cbn [orb bind]; [reflexivity|].
  destruct (N.ltb_spec (off + N.of_nat k) off); [lia|]. cbn [bind].
  replace (N.to_nat (off + N.of_nat k - off)) with k by lia.
  rewrite gbe_get_ok by (rewrite glen_firstn, glen_skipn, glen_len; lia). cbn [bind].
  rewrite firstn_firstn, Nat.min_id. reflexivity.
Qed.

(* x & 2^n *)
Lemma Zland_pow2 a n : 0 <= n -> Z.land a (2 ^ n) = Z.b2z (Z.testbit a n) * 2 ^ n.
Proof.
  intros Hn. apply Z.bits_inj'. intros i Hi. rewrite Z.land_spec, Z.pow2_bits_eqb by exact Hn.
  destruct (Z.eqb_spec n i) as [->|Hne].
  - destruct (Z.testbit a i); cbn [Z.b2z andb]; [rewrite Z.mul_1_l, Z.pow2_bits_true by exact Hi; reflexivity|].
    rewrite Z.mul_0_l, Z.bits_0. reflexivity.
  - rewrite andb_false_r. destruct (Z.testbit a n); cbn [Z.b2z].
    + rewrite Z.mul_1_l, Z.pow2_bits_false by lia. reflexivity.
    + rewrite Z.mul_0_l, Z.bits_0. reflexivity.
Qed.
Lemma Zland_pow2_eqb a n : 0 <= n -> (Z.land a (2 ^ n) =? 0) = ((a / 2 ^ n) mod 2 =? 0).
Proof.
  intros Hn. rewrite Zland_pow2 by exact Hn. rewrite <- Z.testbit_spec' by exact Hn.
  pose proof (Z.pow_pos_nonneg 2 n ltac:(lia) Hn) as HP.
  destruct (Z.testbit a n); cbn [Z.b2z]; [|reflexivity].
  destruct (Z.eqb_spec (1 * 2 ^ n) 0); [lia|reflexivity].
Qed.

(* disjoint | is + on Z *)
Lemma Zlor_disjoint_add a b k : 0 <= a -> 0 <= b < 2 ^ k -> 0 <= k -> a mod 2 ^ k = 0 -> Z.lor a b = a + b.
Proof.
  intros Ha Hb Hk Hm.
  rewrite <- (Z2N.id a Ha), <- (Z2N.id b) by lia. rewrite Zlor_N, <- N2Z.inj_add. f_equal.
  apply (lor_disjoint_add _ _ (Z.to_N k)).
  - apply N2Z.inj. rewrite N2Z.inj_mod, N2Z.inj_pow, !Z2N.id by lia. exact Hm.
  - apply N2Z.inj_lt. rewrite N2Z.inj_pow, !Z2N.id by lia. lia.
Qed.

End MoreGoSemFacts.

(* ================================================================================================ *)
(* conversions                                                                                       *)
(* ================================================================================================ *)
Definition src_remb (p : REMB) : GoSrcRemb.ReceiverEstimatedMaximumBitrate :=
  GoSrcRemb.mkReceiverEstimatedMaximumBitrate (Z.of_N (remb_sender p)) (Z.of_N (remb_bitrate p)) (zN (remb_ssrcs p)).
Definition src_header_remb (h : Header) : GoSrcRemb.Header :=
  GoSrcRemb.mkHeader (h_pad h) (Z.of_N (h_count h)) (Z.of_N (h_type h)) (Z.of_N (h_len h)).
Definition remb_fits (p : REMB) : Prop :=
  (remb_sender p < 4294967296)%N /\ (remb_bitrate p < 4294967296)%N /\ Forall (fun s => (s < 4294967296)%N) (remb_ssrcs p).

Ltac remb_fields :=
  cbv [GoSrcRemb.set_ReceiverEstimatedMaximumBitrate_SenderSSRC GoSrcRemb.set_ReceiverEstimatedMaximumBitrate_Bitrate
       GoSrcRemb.set_ReceiverEstimatedMaximumBitrate_SSRCs GoSrcRemb.ReceiverEstimatedMaximumBitrate_SenderSSRC
       GoSrcRemb.ReceiverEstimatedMaximumBitrate_Bitrate GoSrcRemb.ReceiverEstimatedMaximumBitrate_SSRCs].

(* ================================================================================================ *)
(* MarshalSize, Header, DestinationSSRC                                                              *)
(* ================================================================================================ *)
Lemma src_REMB_MarshalSize : forall x,
  GoSrcRemb.ReceiverEstimatedMaximumBitrate_MarshalSize (src_remb x) = Z.of_N (REMB_size x).
Proof.
  intros x. unfold GoSrcRemb.ReceiverEstimatedMaximumBitrate_MarshalSize, REMB_size, src_remb. remb_fields.
  unfold zN. rewrite glenl_map, glenl_nlen. lia.
Qed.

Lemma src_REMB_Header : forall x,
  GoSrcRemb.ReceiverEstimatedMaximumBitrate_Header (src_remb x) = src_header_remb (REMB_header x).
Proof.
  intros x. unfold GoSrcRemb.ReceiverEstimatedMaximumBitrate_Header. rewrite src_REMB_MarshalSize.
  unfold REMB_header, src_header_remb. cbn [h_pad h_count h_type h_len]. consts.
  f_equal. change 4 with (Z.of_N 4) at 1. rewrite Zquot_N.
  assert (E : Z.of_N (REMB_size x / 4) - 1 = Z.of_N (REMB_size x / 4 - 1)) by (unfold REMB_size; lia).
  rewrite E. apply uwrap16_N.
Qed.

Lemma src_REMB_DestinationSSRC : forall x,
  GoSrcRemb.ReceiverEstimatedMaximumBitrate_DestinationSSRC (src_remb x) = zN (dest_packet (PREMB x)).
Proof. reflexivity. Qed.

(* ================================================================================================ *)
(* Unmarshal                                                                                         *)
(* ================================================================================================ *)
Definition remb_append (p : GoSrcRemb.ReceiverEstimatedMaximumBitrate) (l : list N) : GoSrcRemb.ReceiverEstimatedMaximumBitrate :=
  GoSrcRemb.set_ReceiverEstimatedMaximumBitrate_SSRCs (GoSrcRemb.ReceiverEstimatedMaximumBitrate_SSRCs p ++ zN l) p.

Lemma REMB_Unmarshal_loop2 : forall fg fm buf a1 a2 a3 a4 a5 n a6 p a7 size a8,
  (N.to_nat (size - n) < fg)%nat -> (N.to_nat (size - n) < fm)%nat ->
  GoSrcRemb.ReceiverEstimatedMaximumBitrate_Unmarshal_loop2 fg buf a1 a2 a3 a4 a5 (Z.of_N n) a6 p a7 (Z.of_N size) a8
  = res_map (remb_append p) (remb_ssrcs_read fm buf n size).
Proof.
  induction fg as [|fg IH]; intros fm buf a1 a2 a3 a4 a5 n a6 p a7 size a8 Hg Hm; [lia|].
  destruct fm as [|fm]; [lia|]. destruct p as [s b l].
  cbn [GoSrcRemb.ReceiverEstimatedMaximumBitrate_Unmarshal_loop2 remb_ssrcs_read]. rewrite Zltb_N.
  destruct (N.ltb_spec n size) as [Hi|Hi].
  - rewrite Zadd_N_r, gslice_N.
    destruct (slice buf n (n + 4)) as [sb| | |]; cbn [bind res_map]; try reflexivity.
    rewrite gbe_get_at0.
    destruct (get_be_at 4 sb 0) as [v| | |]; cbn [bind res_map]; try reflexivity.
    rewrite (IH fm) by lia.
    destruct (remb_ssrcs_read fm buf (n + 4) size) as [r| | |]; cbn [bind res_map]; try reflexivity.
    f_equal. unfold remb_append. remb_fields. unfold zN. cbn [map]. rewrite <- app_assoc. reflexivity.
  - unfold GoSrcRemb.ReceiverEstimatedMaximumBitrate_Unmarshal_after2. cbn [res_map]. f_equal.
    unfold remb_append. remb_fields. unfold zN. cbn [map]. rewrite app_nil_r. reflexivity.
Qed.

Lemma REMB_Unmarshal_loop3 : forall fg fm buf a1 a2 a3 a4 a5 n a6 p a7 size a8,
  (N.to_nat (size - n) < fg)%nat -> (N.to_nat (size - n) < fm)%nat ->
  GoSrcRemb.ReceiverEstimatedMaximumBitrate_Unmarshal_loop3 fg buf a1 a2 a3 a4 a5 (Z.of_N n) a6 p a7 (Z.of_N size) a8
  = res_map (remb_append p) (remb_ssrcs_read fm buf n size).
Proof.
  induction fg as [|fg IH]; intros fm buf a1 a2 a3 a4 a5 n a6 p a7 size a8 Hg Hm; [lia|].
  destruct fm as [|fm]; [lia|]. destruct p as [s b l].
  cbn [GoSrcRemb.ReceiverEstimatedMaximumBitrate_Unmarshal_loop3 remb_ssrcs_read]. rewrite Zltb_N.
  destruct (N.ltb_spec n size) as [Hi|Hi].
  - rewrite Zadd_N_r, gslice_N.
    destruct (slice buf n (n + 4)) as [sb| | |]; cbn [bind res_map]; try reflexivity.
    rewrite gbe_get_at0.
    destruct (get_be_at 4 sb 0) as [v| | |]; cbn [bind res_map]; try reflexivity.
    rewrite (IH fm) by lia.
    destruct (remb_ssrcs_read fm buf (n + 4) size) as [r| | |]; cbn [bind res_map]; try reflexivity.
    f_equal. unfold remb_append. remb_fields. unfold zN. cbn [map]. rewrite <- app_assoc. reflexivity.
  - unfold GoSrcRemb.ReceiverEstimatedMaximumBitrate_Unmarshal_after3. cbn [res_map]. f_equal.
    unfold remb_append. remb_fields. unfold zN. cbn [map]. rewrite app_nil_r. reflexivity.
Qed.

(* loop1 is the model's [norm]: k doublings bring bit 23 up; neither fuel runs out *)
Lemma REMB_Unmarshal_loop1 : forall (k : nat) fg fm buf exp a2 a3 mant a5 a6 p a7 a8 a9,
  (k < fg)%nat -> (k <= fm)%nat -> 0 < mant -> 2 ^ 23 <= mant * 2 ^ Z.of_nat k < 2 ^ 24 ->
  GoSrcRemb.ReceiverEstimatedMaximumBitrate_Unmarshal_loop1 fg buf exp a2 a3 mant a5 a6 p a7 a8 a9
  = GoSrcRemb.ReceiverEstimatedMaximumBitrate_Unmarshal_after1 buf (fst (norm fm exp mant)) a2 a3 (snd (norm fm exp mant)) a5 a6 p a7 a8 a9.
Proof.
  induction k as [|k IH]; intros fg fm buf exp a2 a3 mant a5 a6 p a7 a8 a9 Hg Hm Hp Hr;
    (destruct fg as [|fg]; [lia|]); cbn [GoSrcRemb.ReceiverEstimatedMaximumBitrate_Unmarshal_loop1];
    change 8388608 with (2 ^ 23); rewrite Zland_pow2_eqb by lia.
  - change (Z.of_nat 0) with 0 in Hr. change (2 ^ 0) with 1 in Hr. rewrite Z.mul_1_r in Hr.
    change (2 ^ 23) with 8388608 in *. change (2 ^ 24) with 16777216 in *.
    destruct (Z.eqb_spec ((mant / 8388608) mod 2) 0) as [E|E]; [exfalso; lia|].
    destruct fm as [|fm]; cbn [norm fst snd]; [reflexivity|]. change (2 ^ 23) with 8388608.
    destruct (Z.eqb_spec ((mant / 8388608) mod 2) 0) as [E'|E']; [exfalso; lia|]. reflexivity.
  - rewrite Nat2Z.inj_succ, Z.pow_succ_r in Hr by lia.
    pose proof (pow2_pos (Z.of_nat k) ltac:(lia)) as HP.
    change (2 ^ 23) with 8388608 in *. change (2 ^ 24) with 16777216 in *.
    assert (Hlt : mant < 8388608).
    { destruct (Z.lt_ge_cases mant 8388608) as [A|A]; [exact A|exfalso].
      assert (8388608 * (2 * 2 ^ Z.of_nat k) <= mant * (2 * 2 ^ Z.of_nat k)) by (apply Z.mul_le_mono_nonneg_r; lia). lia. }
    destruct (Z.eqb_spec ((mant / 8388608) mod 2) 0) as [E|E]; [|exfalso; lia].
    destruct fm as [|fm]; [lia|]. cbn [norm]. change (2 ^ 23) with 8388608.
    destruct (Z.eqb_spec ((mant / 8388608) mod 2) 0) as [E'|E']; [|exfalso; lia].
    unfold uwrap. change (2 ^ 8) with 256. 
    change (2 ^ 32) with 4294967296. replace ((mant * 2) mod 4294967296) with (mant * 2) by lia.
    apply IH; try lia.
Qed.

Ltac rd r x := destruct r as [x| | |]; cbn [bind res_map]; try reflexivity.

(* the float32 pattern assembled at the end of Unmarshal *)
Lemma remb_tbits_eq exp mant : 0 <= exp < 256 -> 0 <= mant ->
  Z.lor (uwrap 32 (gshl exp 23)) (Z.land mant 8388607) = (exp * 2 ^ 23) mod 2 ^ 32 + mant mod 2 ^ 23.
Proof.
  intros He Hm. rewrite gshl_mul by lia. unfold uwrap. change 8388607 with (Z.ones 23). rewrite Z.land_ones by lia.
  apply (Zlor_disjoint_add _ _ 23); lia.
Qed.

Definition remb_mantN (x17 x18 x19 : N) : N := N.lor (N.lor (N.land x17 3 * 65536) (x18 * 256)) x19.
Lemma remb_mantN_add x17 x18 x19 : (x18 < 256)%N -> (x19 < 256)%N ->
  remb_mantN x17 x18 x19 = (x17 mod 4 * 65536 + x18 * 256 + x19)%N.
Proof.
  intros H18 H19. unfold remb_mantN. rewrite land_3.
  rewrite (lor_disjoint_add (x17 mod 4 * 65536) (x18 * 256) 16) by (change (2 ^ 16)%N with 65536%N; lia).
  rewrite (lor_disjoint_add _ x19 8) by (change (2 ^ 8)%N with 256%N; lia). reflexivity.
Qed.
Lemma remb_mant_eq x17 x18 x19 : (x18 < 256)%N -> (x19 < 256)%N ->
  Z.lor (Z.lor (uwrap 32 (gshl (Z.land (Z.of_N x17) 3) 16)) (uwrap 32 (gshl (Z.of_N x18) 8))) (Z.of_N x19)
  = Z.of_N (remb_mantN x17 x18 x19).
Proof.
  intros H18 H19. rewrite Zland_N_r, !gshl_N_r, !uwrap32_N, !Zlor_N. unfold remb_mantN. f_equal.
  rewrite !N.shiftl_mul_pow2. change (2 ^ 16)%N with 65536%N. change (2 ^ 8)%N with 256%N.
  rewrite land_3. unfold u32. rewrite (N.mod_small (x17 mod 4 * 65536)), (N.mod_small (x18 * 256)) by lia. reflexivity.
Qed.
Lemma remb_exp_eq x17 :
  uwrap 8 (uwrap 8 (gshr (Z.of_N x17) 2 + 127) + 23) = (Z.of_N (x17 / 4) + 127 + 23) mod 256.
Proof.
  rewrite gshr_N_r, N.shiftr_div_pow2. change (2 ^ 2)%N with 4%N. unfold uwrap. change (2 ^ 8) with 256. lia.
Qed.

Lemma remb_dec_nonneg e m : 0 <= remb_dec e m.
Proof.
  unfold remb_dec. destruct (if m =? 0 then _ else _) as [e' m'].
  change (2 ^ 23) with 8388608. change (2 ^ 32) with 4294967296. lia.
Qed.

(* the tail of Unmarshal: normalisation, bit pattern, SSRC list *)
Lemma REMB_Unmarshal_tail : forall buf a2 a3 a5 a6 a7 a9 r sN x17 x18 x19 size,
  (x17 < 256)%N -> (x18 < 256)%N -> (x19 < 256)%N -> (size <= len buf)%N ->
  (if negb (Z.of_N (remb_mantN x17 x18 x19) =? 0)
   then GoSrcRemb.ReceiverEstimatedMaximumBitrate_Unmarshal_loop1 24 buf ((Z.of_N (x17 / 4) + 127 + 23) mod 256) a2 a3
          (Z.of_N (remb_mantN x17 x18 x19)) a5 a6
          (GoSrcRemb.set_ReceiverEstimatedMaximumBitrate_SenderSSRC (Z.of_N sN) r) a7 (Z.of_N size) a9
   else GoSrcRemb.ReceiverEstimatedMaximumBitrate_Unmarshal_loop3 (S (Z.to_nat (Z.of_N size - 20))) buf
          ((Z.of_N (x17 / 4) + 127 + 23) mod 256) a2 a3 (Z.of_N (remb_mantN x17 x18 x19)) a5 20 a6
          (GoSrcRemb.set_ReceiverEstimatedMaximumBitrate_SSRCs []
             (GoSrcRemb.set_ReceiverEstimatedMaximumBitrate_Bitrate
                (Z.lor (uwrap 32 (gshl ((Z.of_N (x17 / 4) + 127 + 23) mod 256) 23))
                       (Z.land (Z.of_N (remb_mantN x17 x18 x19)) 8388607))
                (GoSrcRemb.set_ReceiverEstimatedMaximumBitrate_SenderSSRC (Z.of_N sN) r))) a7 (Z.of_N size) a9)
  = res_map src_remb
      (let* ssrcs := remb_ssrcs_read (S (length buf)) buf 20 size in
       Ok {| remb_sender := sN; remb_bitrate := Z.to_N (remb_dec (Z.of_N (x17 / 4)) (Z.of_N (remb_mantN x17 x18 x19)));
             remb_ssrcs := ssrcs |}).
Proof.
  intros buf a2 a3 a5 a6 a7 a9 r sN x17 x18 x19 size H17 H18 H19 Hsz.
  pose proof (remb_mantN_add x17 x18 x19 H18 H19) as HM.
  set (mN := remb_mantN x17 x18 x19) in *. set (e := Z.of_N (x17 / 4)).
  assert (He : 0 <= e < 64) by (unfold e; lia).
  assert (Hm : 0 <= Z.of_N mN < 2 ^ 18) by (change (2 ^ 18) with 262144; lia).
  assert (Hexp : (e + 127 + 23) mod 256 = e + 150) by lia.
  rewrite Hexp.
  assert (Hfin : forall bits l, 0 <= bits ->
     GoSrcRemb.mkReceiverEstimatedMaximumBitrate (Z.of_N sN) bits (zN l)
     = src_remb {| remb_sender := sN; remb_bitrate := Z.to_N bits; remb_ssrcs := l |}).
  { intros bits l Hb. unfold src_remb. cbn [remb_sender remb_bitrate remb_ssrcs]. rewrite Z2N.id by exact Hb. reflexivity. }
  destruct (Z.eqb_spec (Z.of_N mN) 0) as [E0|E0]; cbn [negb].
  - rewrite (REMB_Unmarshal_loop3 _ (S (length buf)) buf _ _ _ _ _ 20%N) by (unfold len in Hsz; lia).
    rd (remb_ssrcs_read (S (length buf)) buf 20 size) l.
    f_equal. unfold remb_append. destruct r as [s0 b0 l0]. remb_fields. cbn [app].
    rewrite <- Hfin by apply remb_dec_nonneg. f_equal.
    rewrite remb_tbits_eq by lia. unfold remb_dec. fold e. rewrite Hexp, E0. reflexivity.
  - destruct (norm_shift_exists (Z.of_N mN) ltac:(lia)) as (k & Hk0 & Hk & HK).
    rewrite (REMB_Unmarshal_loop1 k 24 32) by (try exact HK; lia).
    rewrite (norm_spec k) by (try exact HK; lia). cbn [fst snd].
    unfold GoSrcRemb.ReceiverEstimatedMaximumBitrate_Unmarshal_after1.
    rewrite (REMB_Unmarshal_loop2 _ (S (length buf)) buf _ _ _ _ _ 20%N) by (unfold len in Hsz; lia).
    rd (remb_ssrcs_read (S (length buf)) buf 20 size) l.
    f_equal. unfold remb_append. destruct r as [s0 b0 l0]. remb_fields. cbn [app].
    rewrite <- Hfin by apply remb_dec_nonneg. f_equal.
    change (2 ^ 23) with 8388608 in HK. change (2 ^ 24) with 16777216 in HK.
    rewrite remb_tbits_eq by lia. unfold remb_dec. fold e. rewrite Hexp.
    destruct (Z.eqb_spec (Z.of_N mN) 0) as [A|_]; [contradiction|].
    rewrite (norm_spec k) by (try (change (2 ^ 23) with 8388608; change (2 ^ 24) with 16777216; exact HK); lia).
    reflexivity.
Qed.

Lemma src_REMB_Unmarshal : forall r buf,
  GoSrcRemb.ReceiverEstimatedMaximumBitrate_Unmarshal r buf = res_map src_remb (REMB_unmarshal buf).
Proof.
  intros r buf. unfold GoSrcRemb.ReceiverEstimatedMaximumBitrate_Unmarshal, REMB_unmarshal.
  rewrite glen_len, Zltb_N_r.
  destruct (N.ltb_spec (len buf) 20) as [Hl|Hl]; [reflexivity|].
  rewrite !gidx_Z by lia. nat_lits. rewrite ?bind_res_map.
  rd (idx buf 0) b0.
  same_guard. same_guard. same_guard.
  rewrite ?bind_res_map. rd (idx buf 1) b1.
  same_guard.
  rewrite (gslice_be_get_bind 2 buf 2%N).
  rd (get_be_at 2 buf 2) lf.
  rewrite Zadd_N_r, uwrap16_N, Zmul_N_r, uwrap16_N. set (size := u16 (u16 (lf + 1) * 4)).
  rewrite Zltb_N_r, Zltb_N.
  destruct (N.ltb_spec size 20) as [Hs1|Hs1]; [reflexivity|].
  destruct (N.ltb_spec (len buf) size) as [Hs2|Hs2]; [reflexivity|].
  rewrite (gslice_be_get_bind 4 buf 4%N).
  rd (get_be_at 4 buf 4) sN.
  rewrite (gslice_be_get_bind 4 buf 8%N).
  rd (get_be_at 4 buf 8) media.
  rewrite Zeqb_N_0r. destruct (negb (media =? 0)%N); [reflexivity|].
  change (gslice buf 12 16) with (gslice buf (Z.of_N 12) (Z.of_N 16)). rewrite gslice_N.
  rd (slice buf 12 16) idb.
  change (byte_of_Z 82) with (n2b 82). change (byte_of_Z 69) with (n2b 69).
  change (byte_of_Z 77) with (n2b 77). change (byte_of_Z 66) with (n2b 66).
  destruct (negb (bytes_eqb idb [n2b 82; n2b 69; n2b 77; n2b 66])); [reflexivity|].
  rewrite ?bind_res_map. rd (idx buf 16) nb.
  rewrite Zmul_N_l, Zadd_N_l, Zeqb_N.
  destruct (negb (size =? 20 + 4 * b2n nb)%N); [reflexivity|].
  rewrite ?bind_res_map. rd (idx buf 17) b17.
  rewrite ?bind_res_map. rd (idx buf 18) b18.
  rewrite ?bind_res_map. rd (idx buf 19) b19.
  pose proof (b2n_lt b17). pose proof (b2n_lt b18). pose proof (b2n_lt b19).
  rewrite remb_mant_eq, remb_exp_eq by assumption.
  apply REMB_Unmarshal_tail; assumption.
Qed.

(* ================================================================================================ *)
(* float32 primitives (Lib/GoFloat.v) against the dyadic view (Model/Remb.v)                         *)
(* ================================================================================================ *)
(* a non-negative finite pattern and its dyadic reading *)
Definition posfin (b m e : Z) : Prop := 0 <= b < 2139095040 /\ f32_of_bits b = Fin false m e.

Lemma f32_fields b E frac : 0 <= E < 256 -> 0 <= frac < 8388608 -> b = E * 8388608 + frac ->
  b / 2 ^ 31 = 0 /\ (b / 2 ^ 23) mod 256 = E /\ b mod 2 ^ 23 = frac /\ b mod 2 ^ 31 = b /\ (2 ^ 31 <=? b) = false.
Proof.
  intros HE Hf ->. change (2 ^ 31) with 2147483648. change (2 ^ 23) with 8388608.
  destruct (Z.leb_spec 2147483648 (E * 8388608 + frac)); [lia|]. repeat split; lia.
Qed.

Lemma posfin_inv b m e : posfin b m e ->
  exists E frac, 0 <= E < 255 /\ 0 <= frac < 8388608 /\ b = E * 8388608 + frac /\
    m = (if E =? 0 then frac else 8388608 + frac) /\ e = (if E =? 0 then -149 else E - 150).
Proof.
  intros [Hb Hf]. exists (b / 8388608), (b mod 8388608).
  assert (HE : 0 <= b / 8388608 < 255) by lia. assert (Hfr : 0 <= b mod 8388608 < 8388608) by lia.
  assert (Hd : b = b / 8388608 * 8388608 + b mod 8388608) by lia.
  split; [exact HE|]. split; [exact Hfr|]. split; [exact Hd|].
  destruct (f32_fields b (b / 8388608) (b mod 8388608) ltac:(lia) Hfr Hd) as (F1 & F2 & F3 & _).
  unfold f32_of_bits in Hf. rewrite F1, F2, F3 in Hf. change (2 ^ 23) with 8388608 in Hf.
  destruct (Z.eqb_spec (b / 8388608) 255) as [A|_]; [lia|].
  change (Z.odd 0) with false in Hf.
  revert Hf. destruct (b / 8388608 =? 0); intros Hf;
    pose proof (f_equal (fun x => match x with Fin _ m _ => m | _ => 0 end) Hf) as H1;
    pose proof (f_equal (fun x => match x with Fin _ _ e => e | _ => 0 end) Hf) as H2;
    cbv beta iota in H1, H2; split; symmetry; assumption.
Qed.

Lemma posfin_intro E frac : 0 <= E < 255 -> 0 <= frac < 8388608 ->
  posfin (E * 8388608 + frac) (if E =? 0 then frac else 8388608 + frac) (if E =? 0 then -149 else E - 150).
Proof.
  intros HE Hf. split; [lia|].
  destruct (f32_fields (E * 8388608 + frac) E frac ltac:(lia) Hf eq_refl) as (F1 & F2 & F3 & _).
  unfold f32_of_bits. rewrite F1, F2, F3. change (2 ^ 23) with 8388608. change (Z.odd 0) with false.
  destruct (Z.eqb_spec E 255) as [A|_]; [lia|]. destruct (E =? 0); reflexivity.
Qed.

Lemma ifloor_mono m1 m2 e : 0 <= m1 <= m2 -> ifloor m1 e <= ifloor m2 e.
Proof.
  intros H. unfold ifloor. destruct (Z.leb_spec 0 e) as [He|He].
  - apply Z.mul_le_mono_nonneg_r; [apply Z.pow_nonneg; lia|lia].
  - apply Z.div_le_mono; [apply pow2_pos; lia|lia].
Qed.

(* the 254 normal exponent fields, by evaluation at both ends of the significand range *)
Lemma sweep_E (P : Z -> bool) : all_below 255 (fun n => P (Z.of_N n)) = true -> forall E, 0 <= E < 255 -> P E = true.
Proof.
  intros K E HE. pose proof (all_below_spec _ _ K (Z.to_N E) ltac:(lia)) as K1. cbv beta in K1.
  rewrite Z2N.id in K1 by lia. exact K1.
Qed.

Definition MAXI : Z := 0x3FFFF * 2 ^ 63.

Lemma sweep_E18 : forall E, 1 <= E < 255 ->
  (if 145 <=? E then 2 ^ 18 <=? ifloor (2 ^ 23) (E - 150) else ifloor (2 ^ 24 - 1) (E - 150) <? 2 ^ 18) = true.
Proof.
  intros E HE.
  pose proof (sweep_E (fun E => if E =? 0 then true else
           if 145 <=? E then 2 ^ 18 <=? ifloor (2 ^ 23) (E - 150) else ifloor (2 ^ 24 - 1) (E - 150) <? 2 ^ 18)
           ltac:(vm_compute; reflexivity) E ltac:(lia)) as K. cbv beta in K.
  destruct (Z.eqb_spec E 0); [lia|exact K].
Qed.

Lemma sweep_Emax : forall E, 1 <= E < 255 -> E <> 207 ->
  (if 208 <=? E then MAXI <=? ifloor (2 ^ 23) (E - 150) else ifloor (2 ^ 24 - 1) (E - 150) <? MAXI) = true.
Proof.
  intros E HE HN.
  pose proof (sweep_E (fun E => if (E =? 0) || (E =? 207) then true else
           if 208 <=? E then MAXI <=? ifloor (2 ^ 23) (E - 150) else ifloor (2 ^ 24 - 1) (E - 150) <? MAXI)
           ltac:(vm_compute; reflexivity) E ltac:(lia)) as K. cbv beta in K.
  destruct (Z.eqb_spec E 0); [lia|]. destruct (Z.eqb_spec E 207); [lia|]. exact K.
Qed.

(* L1: the loop test  bitrate >= 2^18 *)
Lemma ifloor_ge18 E frac : 1 <= E < 255 -> 0 <= frac < 8388608 ->
  (2 ^ 18 <=? ifloor (8388608 + frac) (E - 150)) = (145 <=? E).
Proof.
  intros HE Hf. pose proof (sweep_E18 E HE) as K.
  pose proof (ifloor_mono (2 ^ 23) (8388608 + frac) (E - 150) ltac:(change (2 ^ 23) with 8388608; lia)) as M1.
  pose proof (ifloor_mono (8388608 + frac) (2 ^ 24 - 1) (E - 150) ltac:(change (2 ^ 24) with 16777216; lia)) as M2.
  destruct (145 <=? E).
  - apply Z.leb_le in K. apply Z.leb_le. lia.
  - apply Z.ltb_lt in K. apply Z.leb_gt. lia.
Qed.

Lemma leb18_ifloor b m e : posfin b m e -> gf32_leb 1216348160 b = (2 ^ 18 <=? ifloor m e).
Proof.
  intros H. destruct (posfin_inv _ _ _ H) as (E & frac & HE & Hf & -> & -> & ->).
  destruct (f32_fields (E * 8388608 + frac) E frac ltac:(lia) Hf eq_refl) as (F1 & F2 & F3 & F4 & F5).
  unfold gf32_leb, f32_nan, f32_key, f32_neg, f32_E, f32_frac. rewrite F2, F3, F4, F5.
  change (2 ^ 31 <=? 1216348160) with false. cbv iota.
  change ((1216348160 / 2 ^ 23) mod 256 =? 255) with false. change (1216348160 mod 2 ^ 31) with 1216348160.
  destruct (Z.eqb_spec E 255) as [A|_]; [lia|]. cbn [andb negb].
  destruct (Z.eqb_spec E 0) as [->|HE0].
  - unfold ifloor. change (0 <=? -149) with false. cbv iota.
    rewrite Z.div_small by (change (2 ^ - -149) with (2 ^ 149); lia).
    change (2 ^ 18 <=? 0) with false. destruct (Z.leb_spec 1216348160 (0 * 8388608 + frac)); [lia|reflexivity].
  - rewrite ifloor_ge18 by lia.
    destruct (Z.leb_spec 1216348160 (E * 8388608 + frac)), (Z.leb_spec 145 E); try lia; reflexivity.
Qed.

(* L2: one halving of a value >= 2^18 lowers the exponent field by one (exact) *)
Lemma scale_posfin b m e : posfin b m e -> 2 ^ 18 <= ifloor m e -> posfin (gf32_scale b (-1)) m (e - 1).
Proof.
  intros H Hge. pose proof (leb18_ifloor _ _ _ H) as HL.
  destruct (posfin_inv _ _ _ H) as (E & frac & HE & Hf & -> & -> & ->).
  destruct (f32_fields (E * 8388608 + frac) E frac ltac:(lia) Hf eq_refl) as (F1 & F2 & F3 & F4 & F5).
  assert (HE145 : 145 <= E).
  { destruct (Z.eqb_spec E 0) as [->|HE0].
    - exfalso. unfold ifloor in Hge. change (0 <=? -149) with false in Hge. cbv iota in Hge.
      rewrite Z.div_small in Hge by (change (2 ^ - -149) with (2 ^ 149); lia). lia.
    - pose proof (ifloor_ge18 E frac ltac:(lia) Hf) as K. apply Z.leb_le in Hge. rewrite Hge in K.
      symmetry in K. apply Z.leb_le in K. exact K. }
  unfold gf32_scale, f32_E, f32_frac. rewrite F2, F3. change (-1 =? 0) with false. cbv iota.
  destruct (Z.eqb_spec E 255) as [A|_]; [lia|]. destruct (Z.eqb_spec E 0) as [A|_]; [lia|]. cbn [andb].
  destruct (Z.ltb_spec 0 E) as [_|A]; [|lia]. destruct (Z.ltb_spec 0 (E + -1)) as [_|A]; [|lia]. cbn [andb].
  change (2 ^ 23) with 8388608.
  replace (E * 8388608 + frac + -1 * 8388608) with ((E - 1) * 8388608 + frac) by lia.
  pose proof (posfin_intro (E - 1) frac ltac:(lia) Hf) as P.
  destruct (Z.eqb_spec (E - 1) 0) as [A|_]; [lia|].
  replace (E - 1 - 150) with (E - 150 - 1) in P by lia. exact P.
Qed.

(* L3: uint(math.Floor(float64(x))) *)
Lemma floor_uint_posfin b m e : posfin b m e ->
  gf32_floor_uint b = (if ifloor m e <? 2 ^ 64 then ifloor m e else 0).
Proof.
  intros H. destruct (posfin_inv _ _ _ H) as (E & frac & HE & Hf & -> & -> & ->).
  destruct (f32_fields (E * 8388608 + frac) E frac ltac:(lia) Hf eq_refl) as (F1 & F2 & F3 & F4 & F5).
  unfold gf32_floor_uint, f32_neg, f32_E, f32_frac. rewrite F2, F3, F5. change (2 ^ 23) with 8388608.
  destruct (Z.eqb_spec E 255) as [A|_]; [lia|]. cbv zeta iota. unfold ifloor. reflexivity.
Qed.

(* L4: the saturation test  bitrate >= bitratemax *)
Lemma leb_max_ifloor b m e : posfin b m e -> gf32_leb 1744830400 b = (MAXI <=? ifloor m e).
Proof.
  intros H. destruct (posfin_inv _ _ _ H) as (E & frac & HE & Hf & -> & -> & ->).
  destruct (f32_fields (E * 8388608 + frac) E frac ltac:(lia) Hf eq_refl) as (F1 & F2 & F3 & F4 & F5).
  unfold gf32_leb, f32_nan, f32_key, f32_neg, f32_E, f32_frac. rewrite F2, F3, F4, F5.
  change (2 ^ 31 <=? 1744830400) with false. cbv iota.
  change ((1744830400 / 2 ^ 23) mod 256 =? 255) with false. change (1744830400 mod 2 ^ 31) with 1744830400.
  destruct (Z.eqb_spec E 255) as [A|_]; [lia|]. cbn [andb negb].
  destruct (Z.eqb_spec E 0) as [->|HE0].
  - unfold ifloor. change (0 <=? -149) with false. cbv iota.
    rewrite Z.div_small by (change (2 ^ - -149) with (2 ^ 149); lia).
    change (MAXI <=? 0) with false. destruct (Z.leb_spec 1744830400 (0 * 8388608 + frac)); [lia|reflexivity].
  - destruct (Z.eq_dec E 207) as [->|HN].
    + unfold ifloor. change (0 <=? 207 - 150) with true. cbv iota. change (2 ^ (207 - 150)) with 144115188075855872.
      change MAXI with 2417842415857221494636544.
      destruct (Z.leb_spec 1744830400 (207 * 8388608 + frac)),
               (Z.leb_spec 2417842415857221494636544 ((8388608 + frac) * 144115188075855872)); try lia; reflexivity.
    + pose proof (sweep_Emax E ltac:(lia) HN) as K.
      pose proof (ifloor_mono (2 ^ 23) (8388608 + frac) (E - 150) ltac:(change (2 ^ 23) with 8388608; lia)) as M1.
      pose proof (ifloor_mono (8388608 + frac) (2 ^ 24 - 1) (E - 150) ltac:(change (2 ^ 24) with 16777216; lia)) as M2.
      destruct (Z.leb_spec 208 E) as [A|A].
      * apply Z.leb_le in K. destruct (Z.leb_spec 1744830400 (E * 8388608 + frac)); [|lia].
        symmetry. apply Z.leb_le. lia.
      * apply Z.ltb_lt in K. destruct (Z.leb_spec 1744830400 (E * 8388608 + frac)); [lia|].
        symmetry. apply Z.leb_gt. lia.
Qed.

(* the halving loop of MarshalTo on the bit pattern; None = out of fuel *)
Fixpoint gloop (fuel : nat) (b exp : Z) : option (Z * Z) :=
  match fuel with
  | O => None
  | S f => if gf32_leb 1216348160 b then gloop f (gf32_scale b (-1)) (exp + 1) else Some (b, exp)
  end.
Lemma gloop_S f b exp :
  gloop (S f) b exp = if gf32_leb 1216348160 b then gloop f (gf32_scale b (-1)) (exp + 1) else Some (b, exp).
Proof. reflexivity. Qed.

(* it performs exactly kexp(floor(value)) exact halvings, like the model's [halve] (halve_spec) *)
Lemma gloop_spec : forall fuel b exp m e, posfin b m e -> ifloor m e < 2 ^ 18 * 2 ^ Z.of_nat fuel ->
  exists b', gloop (S fuel) b exp = Some (b', exp + kexp (ifloor m e)) /\ posfin b' m (e - kexp (ifloor m e)).
Proof.
  induction fuel as [|f IH]; intros b exp m e HP Hx; rewrite gloop_S, (leb18_ifloor _ _ _ HP).
  - change (Z.of_nat 0) with 0 in Hx. change (2 ^ 0) with 1 in Hx. rewrite Z.mul_1_r in Hx.
    destruct (Z.leb_spec (2 ^ 18) (ifloor m e)) as [A|_]; [lia|].
    rewrite kexp_small by exact Hx. rewrite Z.add_0_r, Z.sub_0_r. exists b. split; [reflexivity|exact HP].
  - destruct (Z.leb_spec (2 ^ 18) (ifloor m e)) as [Hge|Hlt].
    + pose proof (scale_posfin _ _ _ HP Hge) as HP'.
      destruct (IH (gf32_scale b (-1)) (exp + 1) m (e - 1) HP') as (b' & Hg & Hp').
      { rewrite ifloor_pred. rewrite Nat2Z.inj_succ, Z.pow_succ_r in Hx by lia. apply Z.div_lt_upper_bound; lia. }
      exists b'. rewrite Hg. rewrite ifloor_pred, kexp_half in * by exact Hge. split.
      * f_equal. f_equal. lia.
      * replace (e - kexp (ifloor m e)) with (e - 1 - (kexp (ifloor m e) - 1)) by lia. exact Hp'.
    + rewrite kexp_small by exact Hlt. rewrite Z.add_0_r, Z.sub_0_r. exists b. split; [reflexivity|exact HP].
Qed.

(* the bitrate part of MarshalTo as the translated text computes it *)
Definition genc (b : Z) : res (Z * Z) :=
  let b1 := if gf32_leb 1744830400 b then 1744830400 else b in
  if gf32_ltb b1 0 then Err else
  match gloop 200 b1 0 with
  | None => Fuel
  | Some (b', exp) => if 64 <=? exp then Err else Ok (exp, gf32_floor_uint b')
  end.

Definition enc_res (o : option (Z * Z)) : res (Z * Z) := match o with Some p => Ok p | None => Err end.

Lemma genc_posfin b m e : posfin b m e -> genc b = enc_res (remb_enc b).
Proof.
  intros HP. pose proof HP as [Hb Hf].
  rewrite (remb_enc_fin b false m e Hf eq_refl). unfold genc. rewrite (leb_max_ifloor _ _ _ HP).
  pose proof (f32_fin_range _ _ _ _ Hf) as [Hm He]. pose proof (ifloor_nonneg m e ltac:(lia)) as H0.
  unfold MAXI. destruct (Z.leb_spec (0x3FFFF * 2 ^ 63) (ifloor m e)) as [Hs|Hs]; cbv beta iota zeta.
  - rewrite remb_ref_saturates by exact Hs.
    match goal with |- ?L = _ => let v := eval vm_compute in L in change L with v end. reflexivity.
  - assert (HL : gf32_ltb b 0 = false).
    { unfold gf32_ltb, f32_key, f32_neg. destruct (Z.leb_spec (2 ^ 31) b) as [A|_]; [lia|].
      change (2 ^ 31 <=? 0) with false. cbv iota. change (0 mod 2 ^ 31) with 0.
      destruct (Z.ltb_spec (b mod 2 ^ 31) 0) as [A|_]; [lia|]. apply andb_false_r. }
    rewrite HL.
    destruct (gloop_spec 199 b 0 m e HP) as (b' & Hg & HP').
    { change (Z.of_nat 199) with 199. lia. }
    change (gloop 200 b 0) with (gloop (S 199) b 0). rewrite Hg. cbv beta iota.
    pose proof (log2_lt_81 _ Hs) as HLg. pose proof (kexp_nonneg (ifloor m e)) as HK.
    destruct (Z.leb_spec 64 (0 + kexp (ifloor m e))) as [A|_]; [unfold kexp in A; lia|].
    rewrite (floor_uint_posfin _ _ _ HP'). rewrite ifloor_sub by exact HK.
    pose proof (pow2_pos _ HK) as HPw. pose proof (kexp_spec _ H0) as HS.
    assert (Hq : ifloor m e / 2 ^ kexp (ifloor m e) < 2 ^ 18) by (apply Z.div_lt_upper_bound; lia).
    destruct (Z.ltb_spec (ifloor m e / 2 ^ kexp (ifloor m e)) (2 ^ 64)) as [_|A]; [|lia].
    rewrite remb_ref_eq. destruct (Z.leb_spec (0x3FFFF * 2 ^ 63) (ifloor m e)) as [A|_]; [lia|].
    rewrite Z.add_0_l. reflexivity.
Qed.

Lemma genc_nan b : 0 <= b -> (b / 2 ^ 23) mod 256 = 255 -> b mod 2 ^ 23 <> 0 -> genc b = enc_res (remb_enc b).
Proof.
  intros H0 HE Hfr.
  assert (HN : f32_nan b = true).
  { unfold f32_nan, f32_E, f32_frac. rewrite HE. destruct (Z.eqb_spec (b mod 2 ^ 23) 0); [contradiction|reflexivity]. }
  unfold remb_enc, f32_of_bits. rewrite HE. change (255 =? 255) with true. cbv iota.
  destruct (Z.eqb_spec (b mod 2 ^ 23) 0) as [A|_]; [contradiction|]. cbn [enc_res].
  assert (HL : forall c, gf32_leb c b = false).
  { intros c. unfold gf32_leb. rewrite HN. cbn [negb]. rewrite andb_false_r. reflexivity. }
  assert (HT : gf32_ltb b 0 = false).
  { unfold gf32_ltb. rewrite HN. reflexivity. }
  unfold genc. rewrite HL. cbv beta iota zeta. rewrite HT.
  change (gloop 200 b 0) with (gloop (S 199) b 0). rewrite gloop_S, HL. cbv beta iota.
  change (64 <=? 0) with false. cbv iota.
  unfold gf32_floor_uint, f32_E, f32_frac. rewrite HE. change (255 =? 255) with true. cbv iota.
  destruct (Z.eqb_spec (b mod 2 ^ 23) 0) as [A|_]; [contradiction|]. reflexivity.
Qed.

Lemma genc_negative b : 2 ^ 31 < b < 2 ^ 32 -> ((b / 2 ^ 23) mod 256 <> 255 \/ b mod 2 ^ 23 = 0) ->
  genc b = enc_res (remb_enc b).
Proof.
  intros Hb HNn. rewrite (remb_negative_rejected b Hb HNn). cbn [enc_res].
  assert (HN : f32_nan b = false).
  { unfold f32_nan, f32_E, f32_frac. destruct HNn as [A|A].
    - destruct (Z.eqb_spec ((b / 2 ^ 23) mod 256) 255); [contradiction|reflexivity].
    - rewrite A. change (0 =? 0) with true. apply andb_false_r. }
  assert (HK : f32_key b < 0).
  { unfold f32_key, f32_neg. destruct (Z.leb_spec (2 ^ 31) b) as [_|A]; [|lia].
    change (2 ^ 31) with 2147483648 in *. change (2 ^ 32) with 4294967296 in *. lia. }
  unfold genc.
  assert (HL : gf32_leb 1744830400 b = false).
  { unfold gf32_leb. change (f32_key 1744830400) with 1744830400.
    destruct (Z.leb_spec 1744830400 (f32_key b)) as [A|_]; [lia|]. apply andb_false_r. }
  rewrite HL. cbv beta iota zeta.
  unfold gf32_ltb. rewrite HN. change (f32_nan 0) with false. change (f32_key 0) with 0. cbn [negb andb].
  destruct (Z.ltb_spec (f32_key b) 0) as [_|A]; [reflexivity|lia].
Qed.

(* the heart: the float primitives of the translated text compute the model's dyadic [remb_enc], for every 32-bit pattern
   (NaN: both comparisons false, loop not entered, floor 0; -Inf and negative values: rejected; -0 and +0: (0, 0);
   subnormals: floor 0; +Inf and values >= bitratemax: (63, 0x3FFFF); never out of fuel) *)
Theorem genc_remb_enc b : 0 <= b < 2 ^ 32 -> genc b = enc_res (remb_enc b).
Proof.
  intros Hb. change (2 ^ 32) with 4294967296 in Hb.
  destruct (Z.lt_ge_cases b 2139095040) as [H1|H1].
  { pose proof (posfin_intro (b / 8388608) (b mod 8388608) ltac:(lia) ltac:(lia)) as HP.
    replace (b / 8388608 * 8388608 + b mod 8388608) with b in HP by lia. eapply genc_posfin. exact HP. }
  destruct (Z.eq_dec b 2139095040) as [->|H2]; [vm_compute; reflexivity|].
  destruct (Z.lt_ge_cases b 2147483648) as [H3|H3].
  { apply genc_nan; [lia| |]; change (2 ^ 23) with 8388608; lia. }
  destruct (Z.eq_dec b 2147483648) as [->|H4]; [vm_compute; reflexivity|].
  destruct (Z.eq_dec ((b / 2 ^ 23) mod 256) 255) as [HE|HE].
  - destruct (Z.eq_dec (b mod 2 ^ 23) 0) as [HF|HF].
    + apply genc_negative; [change (2 ^ 31) with 2147483648; change (2 ^ 32) with 4294967296; lia|right; exact HF].
    + apply genc_nan; [lia|exact HE|exact HF].
  - apply genc_negative; [change (2 ^ 31) with 2147483648; change (2 ^ 32) with 4294967296; lia|left; exact HE].
Qed.

(* ================================================================================================ *)
(* Marshal                                                                                           *)
(* ================================================================================================ *)
(* the two copies of the halving loop are [gloop] followed by the corresponding continuation *)
Lemma REMB_MarshalTo_loop1_gloop : forall fuel b buf exp a4 a5 p a7,
  GoSrcRemb.ReceiverEstimatedMaximumBitrate_MarshalTo_loop1 fuel b buf exp a4 a5 p a7
  = match gloop fuel b exp with
    | None => Fuel
    | Some (b', exp') => GoSrcRemb.ReceiverEstimatedMaximumBitrate_MarshalTo_after1 b' buf exp' a4 a5 p a7
    end.
Proof.
  induction fuel as [|f IH]; intros; [reflexivity|].
  cbn [GoSrcRemb.ReceiverEstimatedMaximumBitrate_MarshalTo_loop1]. rewrite gloop_S.
  destruct (gf32_leb 1216348160 b); [apply IH|reflexivity].
Qed.
Lemma REMB_MarshalTo_loop3_gloop : forall fuel b buf exp a4 a5 p a7,
  GoSrcRemb.ReceiverEstimatedMaximumBitrate_MarshalTo_loop3 fuel b buf exp a4 a5 p a7
  = match gloop fuel b exp with
    | None => Fuel
    | Some (b', exp') => GoSrcRemb.ReceiverEstimatedMaximumBitrate_MarshalTo_after3 b' buf exp' a4 a5 p a7
    end.
Proof.
  induction fuel as [|f IH]; intros; [reflexivity|].
  cbn [GoSrcRemb.ReceiverEstimatedMaximumBitrate_MarshalTo_loop3]. rewrite gloop_S.
  destruct (gf32_leb 1216348160 b); [apply IH|reflexivity].
Qed.

Lemma nlen_cons4 {A} (x : A) rest : (4 * nlen (x :: rest) = 4 + 4 * nlen rest)%N.
Proof. unfold nlen. cbn [length]. lia. Qed.

(* the range loops over SSRCs: the buffer is the written prefix followed by zeros *)
Lemma REMB_MarshalTo_loop2 : forall rest idx a1 pre a3 a4 a5 p a7,
  GoSrcRemb.ReceiverEstimatedMaximumBitrate_MarshalTo_loop2 (map Z.of_N rest) idx a1 (pre ++ zeros (4 * nlen rest)) a3 a4 a5
    (glen pre) p a7
  = Ok (pre ++ concat (map (be 4) rest), glen pre + 4 * Z.of_N (nlen rest)).
Proof.
  induction rest as [|x rest IH]; intros idx a1 pre a3 a4 a5 p a7;
    cbn [map GoSrcRemb.ReceiverEstimatedMaximumBitrate_MarshalTo_loop2].
  - unfold GoSrcRemb.ReceiverEstimatedMaximumBitrate_MarshalTo_after2. cbn [concat].
    change (zeros (4 * nlen [])) with (@nil byte). change (nlen (@nil N)) with 0%N. rewrite Z.add_0_r. reflexivity.
  - rewrite nlen_cons4.
    rewrite gview2_ok by (rewrite ?glen_app, ?glen_zeros; pose proof (glen_nonneg pre); lia). cbn [bind].
    replace (glen pre + 4 - glen pre) with 4 by lia. change (gcheck (4 <=? 4)) with (Ok tt). cbn [bind].
    rewrite gbe_put_fr by (try reflexivity; lia). cbn [bind].
    replace (4 + 4 * nlen rest - N.of_nat 4)%N with (4 * nlen rest)%N by lia.
    replace (glen pre + 4) with (glen (pre ++ be 4 x)) by (rewrite glen_app, glen_be; lia).
    rewrite IH. cbn [concat]. rewrite <- app_assoc. f_equal. f_equal. rewrite glen_app, glen_be. unfold nlen. cbn [length]. lia.
Qed.
Lemma REMB_MarshalTo_loop4 : forall rest idx a1 pre a3 a4 a5 p a7,
  GoSrcRemb.ReceiverEstimatedMaximumBitrate_MarshalTo_loop4 (map Z.of_N rest) idx a1 (pre ++ zeros (4 * nlen rest)) a3 a4 a5
    (glen pre) p a7
  = Ok (pre ++ concat (map (be 4) rest), glen pre + 4 * Z.of_N (nlen rest)).
Proof.
  induction rest as [|x rest IH]; intros idx a1 pre a3 a4 a5 p a7;
    cbn [map GoSrcRemb.ReceiverEstimatedMaximumBitrate_MarshalTo_loop4].
  - unfold GoSrcRemb.ReceiverEstimatedMaximumBitrate_MarshalTo_after4. cbn [concat].
    change (zeros (4 * nlen [])) with (@nil byte). change (nlen (@nil N)) with 0%N. rewrite Z.add_0_r. reflexivity.
  - rewrite nlen_cons4.
    rewrite gview2_ok by (rewrite ?glen_app, ?glen_zeros; pose proof (glen_nonneg pre); lia). cbn [bind].
    replace (glen pre + 4 - glen pre) with 4 by lia. change (gcheck (4 <=? 4)) with (Ok tt). cbn [bind].
    rewrite gbe_put_fr by (try reflexivity; lia). cbn [bind].
    replace (4 + 4 * nlen rest - N.of_nat 4)%N with (4 * nlen rest)%N by lia.
    replace (glen pre + 4) with (glen (pre ++ be 4 x)) by (rewrite glen_app, glen_be; lia).
    rewrite IH. cbn [concat]. rewrite <- app_assoc. f_equal. f_equal. rewrite glen_app, glen_be. unfold nlen. cbn [length]. lia.
Qed.

(* what follows the halving loop, on a buffer whose first 17 octets are written *)
Definition remb_finish (exp mant : Z) (pre : bytes) (x : REMB) : res (bytes * Z) :=
  Ok (pre ++ [byte_of_Z (Z.lor (uwrap 8 (gshl exp 2)) (uwrap 8 (gshr mant 16))); byte_of_Z (uwrap 8 (gshr mant 8));
              byte_of_Z (uwrap 8 mant)] ++ concat (map (be 4) (remb_ssrcs x)),
      20 + 4 * Z.of_N (nlen (remb_ssrcs x))).

Lemma REMB_MarshalTo_after1 : forall b' pre exp a4 a5 x a7, glen pre = 17 ->
  GoSrcRemb.ReceiverEstimatedMaximumBitrate_MarshalTo_after1 b' (pre ++ zeros (3 + 4 * nlen (remb_ssrcs x))) exp a4 a5 (src_remb x) a7
  = if 64 <=? exp then Err else remb_finish exp (gf32_floor_uint b') pre x.
Proof.
  intros b' pre exp a4 a5 x a7 Hp. unfold GoSrcRemb.ReceiverEstimatedMaximumBitrate_MarshalTo_after1.
  destruct (64 <=? exp); [reflexivity|]. cbv zeta.
  rewrite gupd_fr by (try lia). cbn [bind].
  rewrite gupd_fr by (rewrite ?glen_app, ?glen_cons, ?glen_nil; lia). cbn [bind].
  rewrite gupd_fr by (rewrite ?glen_app, ?glen_cons, ?glen_nil; lia). cbn [bind].
  replace (3 + 4 * nlen (remb_ssrcs x) - 1 - 1 - 1)%N with (4 * nlen (remb_ssrcs x))%N by lia.
  change (GoSrcRemb.ReceiverEstimatedMaximumBitrate_SSRCs (src_remb x)) with (map Z.of_N (remb_ssrcs x)).
  match goal with |- context [zeros (4 * nlen (remb_ssrcs x))] =>
    match goal with |- context [?P ++ zeros (4 * nlen (remb_ssrcs x))] =>
      replace 20 with (glen P) by (rewrite ?glen_app, ?glen_cons, ?glen_nil; lia) end end.
  rewrite REMB_MarshalTo_loop2. unfold remb_finish. rewrite !glen_app, !glen_cons, glen_nil, Hp.
  rewrite <- !app_assoc. cbn [app]. reflexivity.
Qed.
Lemma REMB_MarshalTo_after3 : forall b' pre exp a4 a5 x a7, glen pre = 17 ->
  GoSrcRemb.ReceiverEstimatedMaximumBitrate_MarshalTo_after3 b' (pre ++ zeros (3 + 4 * nlen (remb_ssrcs x))) exp a4 a5 (src_remb x) a7
  = if 64 <=? exp then Err else remb_finish exp (gf32_floor_uint b') pre x.
Proof.
  intros b' pre exp a4 a5 x a7 Hp. unfold GoSrcRemb.ReceiverEstimatedMaximumBitrate_MarshalTo_after3.
  destruct (64 <=? exp); [reflexivity|]. cbv zeta.
  rewrite gupd_fr by (try lia). cbn [bind].
  rewrite gupd_fr by (rewrite ?glen_app, ?glen_cons, ?glen_nil; lia). cbn [bind].
  rewrite gupd_fr by (rewrite ?glen_app, ?glen_cons, ?glen_nil; lia). cbn [bind].
  replace (3 + 4 * nlen (remb_ssrcs x) - 1 - 1 - 1)%N with (4 * nlen (remb_ssrcs x))%N by lia.
  change (GoSrcRemb.ReceiverEstimatedMaximumBitrate_SSRCs (src_remb x)) with (map Z.of_N (remb_ssrcs x)).
  match goal with |- context [zeros (4 * nlen (remb_ssrcs x))] =>
    match goal with |- context [?P ++ zeros (4 * nlen (remb_ssrcs x))] =>
      replace 20 with (glen P) by (rewrite ?glen_app, ?glen_cons, ?glen_nil; lia) end end.
  rewrite REMB_MarshalTo_loop4. unfold remb_finish. rewrite !glen_app, !glen_cons, glen_nil, Hp.
  rewrite <- !app_assoc. cbn [app]. reflexivity.
Qed.

(* the float part of MarshalTo is [genc] followed by [remb_finish] *)
Lemma REMB_MarshalTo_float : forall b pre a4 a5 x a7, glen pre = 17 ->
  (if gf32_leb 1744830400 b
   then if gf32_ltb 1744830400 0 then Err
        else GoSrcRemb.ReceiverEstimatedMaximumBitrate_MarshalTo_loop1 200 1744830400
               (pre ++ zeros (3 + 4 * nlen (remb_ssrcs x))) 0 a4 a5 (src_remb x) a7
   else if gf32_ltb b 0 then Err
        else GoSrcRemb.ReceiverEstimatedMaximumBitrate_MarshalTo_loop3 200 b
               (pre ++ zeros (3 + 4 * nlen (remb_ssrcs x))) 0 a4 a5 (src_remb x) a7)
  = match genc b with Ok (exp, mant) => remb_finish exp mant pre x | Err => Err | Panic => Panic | Fuel => Fuel end.
Proof.
  intros b pre a4 a5 x a7 Hp. unfold genc. destruct (gf32_leb 1744830400 b); cbv zeta.
  - destruct (gf32_ltb 1744830400 0); [reflexivity|]. rewrite REMB_MarshalTo_loop1_gloop.
    destruct (gloop 200 1744830400 0) as [[b' exp]|]; [|reflexivity].
    rewrite REMB_MarshalTo_after1 by exact Hp. destruct (64 <=? exp); reflexivity.
  - destruct (gf32_ltb b 0); [reflexivity|]. rewrite REMB_MarshalTo_loop3_gloop.
    destruct (gloop 200 b 0) as [[b' exp]|]; [|reflexivity].
    rewrite REMB_MarshalTo_after3 by exact Hp. destruct (64 <=? exp); reflexivity.
Qed.

(* the (exponent, mantissa) pair of the model is never negative *)
Lemma halve_fst_ge fuel : forall m e exp, exp <= fst (halve fuel m e exp).
Proof.
  induction fuel as [|f IH]; intros m e exp; cbn [halve]; [cbn [fst]; lia|].
  destruct (2 ^ 18 <=? ifloor m e); [|cbn [fst]; lia]. pose proof (IH m (e - 1) (exp + 1)). lia.
Qed.
Lemma Some_pair_inj {A B} (a c : A) (b d : B) : Some (a, b) = Some (c, d) -> a = c /\ b = d.
Proof. intros H. inversion H. split; reflexivity. Qed.
Lemma remb_enc_nonneg b exp mant : remb_enc b = Some (exp, mant) -> 0 <= exp /\ 0 <= mant.
Proof.
  unfold remb_enc. destruct (f32_of_bits b) as [s m e|[|]|] eqn:Hf; try discriminate.
  - destruct (s && (0 <? m)); [discriminate|]. apply f32_fin_range in Hf. destruct Hf as [Hm _].
    destruct (bitratemax_int <=? ifloor m e).
    + pose proof (halve_fst_ge 200 16777152 57 0) as HH. destruct (halve 200 16777152 57 0) as [ex e'].
      destruct (64 <=? ex); [discriminate|]. intros H. apply Some_pair_inj in H. destruct H as [<- <-].
      cbn [fst] in HH. split; [exact HH|apply ifloor_nonneg; lia].
    + pose proof (halve_fst_ge 200 m e 0) as HH. destruct (halve 200 m e 0) as [ex e'].
      destruct (64 <=? ex); [discriminate|]. intros H. apply Some_pair_inj in H. destruct H as [<- <-].
      cbn [fst] in HH. split; [exact HH|apply ifloor_nonneg; lia].
  - intros H. apply Some_pair_inj in H. destruct H as [<- <-]. lia.
  - intros H. apply Some_pair_inj in H. destruct H as [<- <-]. lia.
Qed.

(* the three octets that carry exponent and mantissa *)
Lemma remb_b17 E M : byte_of_Z (Z.lor (uwrap 8 (gshl (Z.of_N E) 2)) (uwrap 8 (gshr (Z.of_N M) 16)))
  = n2b (N.lor (u8 (E * 4)) (u8 (M / 65536))).
Proof.
  rewrite gshl_N_r, gshr_N_r, !uwrap8_N, Zlor_N, byte_of_Z_N, N.shiftl_mul_pow2, N.shiftr_div_pow2. reflexivity.
Qed.
Lemma remb_b18 M : byte_of_Z (uwrap 8 (gshr (Z.of_N M) 8)) = n2b (M / 256).
Proof. rewrite gshr_N_r, uwrap8_N, byte_of_Z_N, n2b_u8, N.shiftr_div_pow2. reflexivity. Qed.
Lemma remb_b19 M : byte_of_Z (uwrap 8 (Z.of_N M)) = n2b M.
Proof. rewrite uwrap8_N, byte_of_Z_N, n2b_u8. reflexivity. Qed.

Ltac gcheck_eval :=
  match goal with |- context [gcheck ?c] => let v := eval vm_compute in (gcheck c) in change (gcheck c) with v end.
Ltac fr_step :=
  first [ rewrite gupd_fr by (rewrite ?glen_app, ?glen_cons, ?glen_nil, ?glen_be; lia)
        | rewrite gbe_put_fr by (rewrite ?glen_app, ?glen_cons, ?glen_nil, ?glen_be; lia)
        | rewrite gview2_ok by (rewrite ?glen_app, ?glen_cons, ?glen_nil, ?glen_be, ?glen_zeros; lia)
        | gcheck_eval ]; cbn [bind].

(* MarshalTo on a zeroed buffer of exactly the marshal size *)
Lemma src_REMB_MarshalTo : forall x, (remb_bitrate x < 4294967296)%N ->
  GoSrcRemb.ReceiverEstimatedMaximumBitrate_MarshalTo (src_remb x) (zeros (REMB_size x))
  = res_map (fun b => (b, Z.of_N (REMB_size x))) (REMB_marshal x).
Proof.
  intros x Hb. unfold GoSrcRemb.ReceiverEstimatedMaximumBitrate_MarshalTo, REMB_marshal. cbv zeta.
  rewrite !src_REMB_MarshalSize, glen_zeros, Z.ltb_irrefl.
  change (GoSrcRemb.ReceiverEstimatedMaximumBitrate_SSRCs (src_remb x)) with (map Z.of_N (remb_ssrcs x)).
  change (GoSrcRemb.ReceiverEstimatedMaximumBitrate_SenderSSRC (src_remb x)) with (Z.of_N (remb_sender x)).
  change (GoSrcRemb.ReceiverEstimatedMaximumBitrate_Bitrate (src_remb x)) with (Z.of_N (remb_bitrate x)).
  rewrite glenl_map, glenl_nlen, Zltb_N_l.
  destruct (N.ltb_spec 255 (nlen (remb_ssrcs x))) as [Hn|Hn]; [reflexivity|].
  assert (EL : uwrap 16 (Z.quot (Z.of_N (REMB_size x)) 4 - 1) = Z.of_N (u16 (REMB_size x / 4 - 1))).
  { change 4 with (Z.of_N 4) at 1. rewrite Zquot_N.
    assert (E : Z.of_N (REMB_size x / 4) - 1 = Z.of_N (REMB_size x / 4 - 1)) by (unfold REMB_size; lia).
    rewrite E. apply uwrap16_N. }
  rewrite EL. set (L := u16 (REMB_size x / 4 - 1)).
  unfold REMB_size. set (n := nlen (remb_ssrcs x)) in *.
  change (zeros (20 + 4 * n)) with ([] ++ zeros (20 + 4 * n)).
  do 10 fr_step.
  match goal with |- context [gbe_put 4 ?b 8 0] => change (gbe_put 4 b 8 0) with (gbe_put 4 b 8 (Z.of_N 0)) end.
  do 6 fr_step.
  match goal with |- context [?P ++ zeros ?k] => replace k with (3 + 4 * n)%N by lia; set (pre := P) end.
  subst n.
  rewrite (REMB_MarshalTo_float (Z.of_N (remb_bitrate x)) pre)
    by (unfold pre; rewrite ?glen_app, ?glen_cons, ?glen_nil, ?glen_be; lia).
  rewrite genc_remb_enc by (change (2 ^ 32) with 4294967296; lia).
  destruct (remb_enc (Z.of_N (remb_bitrate x))) as [[exp mant]|] eqn:HE; cbn [enc_res res_map]; [|reflexivity].
  apply remb_enc_nonneg in HE. destruct HE as [He Hm].
  unfold remb_finish. f_equal. f_equal; [|lia].
  rewrite <- (Z2N.id exp He), <- (Z2N.id mant Hm), remb_b17, remb_b18, remb_b19, !N2Z.id.
  unfold pre. rewrite byte_of_Z_uwrap by lia. rewrite byte_of_Z_N.
  change (byte_of_Z 143) with (n2b 143). change (byte_of_Z 206) with (n2b 206).
  change (byte_of_Z 82) with (n2b 82). change (byte_of_Z 69) with (n2b 69).
  change (byte_of_Z 77) with (n2b 77). change (byte_of_Z 66) with (n2b 66).
  rewrite <- !app_assoc. cbn [app]. reflexivity.
Qed.

Lemma src_REMB_Marshal_bitrate : forall x, (remb_bitrate x < 4294967296)%N ->
  GoSrcRemb.ReceiverEstimatedMaximumBitrate_Marshal (src_remb x) = REMB_marshal x.
Proof.
  intros x Hb. unfold GoSrcRemb.ReceiverEstimatedMaximumBitrate_Marshal. cbv zeta.
  rewrite src_REMB_MarshalSize, gmake_N. cbn [bind]. rewrite src_REMB_MarshalTo by exact Hb.
  assert (HL : forall b, REMB_marshal x = Ok b -> glen b = Z.of_N (REMB_size x)).
  { unfold REMB_marshal. destruct (255 <? nlen (remb_ssrcs x))%N; [discriminate|].
    destruct (remb_enc (Z.of_N (remb_bitrate x))) as [[exp mant]|]; [|discriminate].
    intros b Hbq. pose proof (f_equal (fun r => match r with Ok v => glen v | _ => 0 end) Hbq) as HG.
    cbv beta iota in HG. rewrite <- HG. rewrite !glen_app, !glen_be, !glen_cons, glen_nil, glen_len, concat_be4_len.
    unfold REMB_size, nlen, Spec.Enc.nl. lia. }
  destruct (REMB_marshal x) as [b| | |]; cbn [res_map]; try reflexivity.
  rewrite (HL b eq_refl), Z.eqb_refl. reflexivity.
Qed.

Theorem src_REMB_Marshal : forall p, remb_fits p ->
  GoSrcRemb.ReceiverEstimatedMaximumBitrate_Marshal (src_remb p) = REMB_marshal p.
Proof. intros p (_ & Hb & _). apply src_REMB_Marshal_bitrate. exact Hb. Qed.

(* the hypothesis on the bitrate is needed: beyond 32 bits the model reads the sign from bit 31 only, the float primitives
   from "b >= 2^31" (such a value is not a float32 pattern, so this says nothing about the Go code) *)
Lemma src_REMB_Marshal_refuted_without_fits :
  exists x, GoSrcRemb.ReceiverEstimatedMaximumBitrate_Marshal (src_remb x) <> REMB_marshal x.
Proof. exists (mkREMB 0 (4294967296 + 1216348160) []). vm_compute. intros X. discriminate X. Qed.

Corollary src_REMB_Unmarshal_zero : forall buf,
  GoSrcRemb.ReceiverEstimatedMaximumBitrate_Unmarshal GoSrcRemb.zero_ReceiverEstimatedMaximumBitrate buf
  = res_map src_remb (REMB_unmarshal buf).
Proof. intros. apply src_REMB_Unmarshal. Qed.

(* ================================================================================================ *)
(* Check/GoOpaque.v: the model functions plugged into GoSrc for this type are the translated ones      *)
(* ================================================================================================ *)
Corollary opaque_REMB_Marshal_is_source : forall x, remb_fits x ->
  GoOpaque.ReceiverEstimatedMaximumBitrate_Marshal x = GoSrcRemb.ReceiverEstimatedMaximumBitrate_Marshal (src_remb x).
Proof. intros x H. symmetry. apply src_REMB_Marshal. exact H. Qed.
Corollary opaque_REMB_MarshalSize_is_source : forall x,
  GoOpaque.ReceiverEstimatedMaximumBitrate_MarshalSize x = GoSrcRemb.ReceiverEstimatedMaximumBitrate_MarshalSize (src_remb x).
Proof. intros x. symmetry. apply src_REMB_MarshalSize. Qed.
Corollary opaque_REMB_DestinationSSRC_is_source : forall x,
  GoOpaque.ReceiverEstimatedMaximumBitrate_DestinationSSRC x
  = GoSrcRemb.ReceiverEstimatedMaximumBitrate_DestinationSSRC (src_remb x).
Proof. reflexivity. Qed.

(* Unmarshal: the Go text clears the receiver's list (p.SSRCs = nil) before appending, and so does GoOpaque's version
   (it used to append to the receiver's list, which agreed with the Go text only for an empty receiver -- the only way
   GoSrc.unmarshal calls it; found while proving this corollary and corrected in Check/GoOpaque.v). *)
Corollary opaque_REMB_Unmarshal_is_source : forall x0 b,
  res_map src_remb (GoOpaque.ReceiverEstimatedMaximumBitrate_Unmarshal x0 b)
  = GoSrcRemb.ReceiverEstimatedMaximumBitrate_Unmarshal (src_remb x0) b.
Proof.
  intros x0 b. rewrite src_REMB_Unmarshal. unfold GoOpaque.ReceiverEstimatedMaximumBitrate_Unmarshal.
  destruct (REMB_unmarshal b) as [[s br l]| | |]; reflexivity.
Qed.
Corollary opaque_REMB_Unmarshal_zero_is_source : forall r b,
  res_map src_remb (GoOpaque.ReceiverEstimatedMaximumBitrate_Unmarshal GoOpaque.zero_ReceiverEstimatedMaximumBitrate b)
  = GoSrcRemb.ReceiverEstimatedMaximumBitrate_Unmarshal r b.
Proof.
  intros r b. rewrite src_REMB_Unmarshal. unfold GoOpaque.ReceiverEstimatedMaximumBitrate_Unmarshal.
  destruct (REMB_unmarshal b) as [[s br l]| | |]; reflexivity.
Qed.

(* ================================================================================================ *)
(* consequences on the translated functions only                                                      *)
(* ================================================================================================ *)
Lemma D_REMB_bitrate p : D_REMB p = true -> (remb_bitrate p < 4294967296)%N.
Proof.
  unfold D_REMB, fits. rewrite !andb_true_iff. intros ((((_ & _) & _) & Hb) & _). apply N.ltb_lt in Hb. exact Hb.
Qed.

(* C14 packet layout and round trip: the translated Marshal writes the RFC encoding; the translated Unmarshal (any
   receiver) reads it back as the documented quantisation *)
Theorem source_C14_packet_layout : forall p, D_REMB p = true ->
  GoSrcRemb.ReceiverEstimatedMaximumBitrate_Marshal (src_remb p) = Ok (enc_REMB p).
Proof. intros p H. rewrite src_REMB_Marshal_bitrate by (apply D_REMB_bitrate; exact H). apply REMB_marshal_spec. exact H. Qed.
Theorem source_C14_packet_roundtrip : forall p r, D_REMB p = true ->
  (forall x, remb_floor (remb_bitrate p) = Some x -> 1 <= x) ->
  exists b, GoSrcRemb.ReceiverEstimatedMaximumBitrate_Marshal (src_remb p) = Ok b /\
            GoSrcRemb.ReceiverEstimatedMaximumBitrate_Unmarshal r b = Ok (src_remb (q_REMB p)).
Proof.
  intros p r HD H1. exists (enc_REMB p). split; [apply source_C14_packet_layout; exact HD|].
  rewrite src_REMB_Unmarshal, REMB_unmarshal_enc by assumption. reflexivity.
Qed.

(* a bitrate m * 2^e in canonical form comes back as the same bit pattern *)
Theorem source_C14_bitrate_roundtrip : forall e m p r, 0 <= e < 64 -> 0 < m < 2 ^ 18 -> (2 ^ 17 <= m \/ e = 0) ->
  D_REMB p = true -> remb_bitrate p = Z.to_N (remb_dec e m) ->
  exists b, GoSrcRemb.ReceiverEstimatedMaximumBitrate_Marshal (src_remb p) = Ok b /\
            GoSrcRemb.ReceiverEstimatedMaximumBitrate_Unmarshal r b = Ok (src_remb p).
Proof.
  intros e m p r He Hm Hc HD Hb.
  destruct (remb_decode_exact e m He Hm) as (m' & e' & _ & _ & HF).
  assert (Hq : q_REMB p = p).
  { unfold q_REMB. rewrite Hb, HF, remb_ref_canonical by (try exact Hc; lia).
    rewrite <- remb_dec_bits_exact by assumption. rewrite <- Hb. destruct p; reflexivity. }
  destruct (source_C14_packet_roundtrip p r HD) as (b & H1 & H2).
  { intros x Hx. rewrite Hb, HF in Hx. injection Hx as <-.
    pose proof (pow2_pos e ltac:(lia)) as HP.
    assert (1 * 1 <= m * 2 ^ e) by (apply Z.mul_le_mono_nonneg; lia). lia. }
  exists b. rewrite Hq in H2. split; assumption.
Qed.

(* negative bitrates (-Inf included; NaN patterns are unordered) are rejected *)
Theorem source_C14_negative_rejected : forall p, (2 ^ 31 < remb_bitrate p < 2 ^ 32)%N ->
  ((Z.of_N (remb_bitrate p) / 2 ^ 23) mod 256 <> 255 \/ Z.of_N (remb_bitrate p) mod 2 ^ 23 = 0) ->
  GoSrcRemb.ReceiverEstimatedMaximumBitrate_Marshal (src_remb p) = Err.
Proof.
  intros p Hb Hn. change (2 ^ 31)%N with 2147483648%N in Hb. change (2 ^ 32)%N with 4294967296%N in Hb.
  rewrite src_REMB_Marshal_bitrate by lia. unfold REMB_marshal.
  rewrite remb_negative_rejected; [destruct (255 <? nlen (remb_ssrcs p))%N; reflexivity| |exact Hn].
  change (2 ^ 31) with 2147483648. change (2 ^ 32) with 4294967296. lia.
Qed.

(* values >= bitratemax saturate: exponent 63, mantissa 0x3FFFF, i.e. the octets 17..19 are ff ff ff *)
Theorem source_C14_saturates : forall p x, (remb_bitrate p < 4294967296)%N -> (nlen (remb_ssrcs p) <= 255)%N ->
  remb_floor (remb_bitrate p) = Some x -> remb_max <= x ->
  exists pre post, GoSrcRemb.ReceiverEstimatedMaximumBitrate_Marshal (src_remb p) = Ok (pre ++ [xff; xff; xff] ++ post)
                   /\ length pre = 17%nat.
Proof.
  intros p x Hb Hn HF Hs. rewrite src_REMB_Marshal_bitrate by exact Hb. unfold REMB_marshal.
  destruct (N.ltb_spec 255 (nlen (remb_ssrcs p))) as [A|_]; [lia|].
  rewrite (remb_encode_saturates _ _ HF Hs).
  eexists ([n2b 143; n2b 206] ++ be 2 _ ++ be 4 _ ++ be 4 0 ++ [n2b 82; n2b 69; n2b 77; n2b 66] ++ [n2b _]), _.
  split.
  - rewrite <- !app_assoc. cbn [app]. reflexivity.
  - rewrite !app_length, !be_length. reflexivity.
Qed.

(* C04: an unnormalised (exponent, mantissa) pair with a non-zero mantissa is read by the translated Unmarshal as the
   float32 mantissa * 2^exponent exactly *)
Theorem source_C04_remb_any_pair : forall r s e m, (s < 4294967296)%N -> 0 <= e < 64 -> 0 < m < 2 ^ 18 ->
  exists bits,
    GoSrcRemb.ReceiverEstimatedMaximumBitrate_Unmarshal r
      ([n2b 143; n2b 206] ++ be 2 4 ++ be 4 s ++ [x00; x00; x00; x00] ++ [n2b 82; n2b 69; n2b 77; n2b 66]
       ++ [n2b 0] ++ be 3 (Z.to_N (e * 2 ^ 18 + m)))
    = Ok (GoSrcRemb.mkReceiverEstimatedMaximumBitrate (Z.of_N s) (Z.of_N bits) [])
    /\ remb_floor bits = Some (m * 2 ^ e).
Proof.
  intros r s e m Hs He Hm. change (2 ^ 18) with 262144 in *.
  exists (Z.to_N (remb_dec e m)). split.
  - rewrite src_REMB_Unmarshal.
    pose proof (REMB_unmarshal_wire 4 s 0 (Z.to_N (e * 262144 + m)) []) as W. rewrite !app_nil_r in W.
    rewrite W; [| lia | reflexivity | exact Hs | lia | lia | reflexivity ].
    cbn [length Nat.add remb_ssrcs_read]. change (20 + 4 * 0)%N with 20%N. rewrite N.ltb_irrefl. cbn [bind res_map].
    replace (Z.of_N (Z.to_N (e * 262144 + m) / 262144)) with e by lia.
    replace (Z.of_N (Z.to_N (e * 262144 + m) mod 262144)) with m by lia. reflexivity.
  - destruct (remb_decode_exact e m He ltac:(change (2 ^ 18) with 262144; exact Hm)) as (m' & e' & _ & _ & HF). exact HF.
Qed.

Print Assumptions bind_assoc.
Print Assumptions glenl_nil.
Print Assumptions glenl_cons.
Print Assumptions glenl_map.
Print Assumptions glenl_nonneg.
Print Assumptions glenl_nlen.
Print Assumptions gview2_ok.
Print Assumptions gbe_put_fr.
Print Assumptions gupd_fr.
Print Assumptions gslice_be_get_bind.
Print Assumptions Zland_pow2.
Print Assumptions Zland_pow2_eqb.
Print Assumptions Zlor_disjoint_add.
Print Assumptions src_REMB_MarshalSize.
Print Assumptions src_REMB_Header.
Print Assumptions src_REMB_DestinationSSRC.
Print Assumptions REMB_Unmarshal_loop2.
Print Assumptions REMB_Unmarshal_loop3.
Print Assumptions REMB_Unmarshal_loop1.
Print Assumptions remb_tbits_eq.
Print Assumptions remb_mantN_add.
Print Assumptions remb_mant_eq.
Print Assumptions remb_exp_eq.
Print Assumptions remb_dec_nonneg.
Print Assumptions REMB_Unmarshal_tail.
Print Assumptions src_REMB_Unmarshal.
Print Assumptions f32_fields.
Print Assumptions posfin_inv.
Print Assumptions posfin_intro.
Print Assumptions ifloor_mono.
Print Assumptions sweep_E.
Print Assumptions sweep_E18.
Print Assumptions sweep_Emax.
Print Assumptions ifloor_ge18.
Print Assumptions leb18_ifloor.
Print Assumptions scale_posfin.
Print Assumptions floor_uint_posfin.
Print Assumptions leb_max_ifloor.
Print Assumptions gloop_S.
Print Assumptions gloop_spec.
Print Assumptions genc_posfin.
Print Assumptions genc_nan.
Print Assumptions genc_negative.
Print Assumptions genc_remb_enc.
Print Assumptions REMB_MarshalTo_loop1_gloop.
Print Assumptions REMB_MarshalTo_loop3_gloop.
Print Assumptions nlen_cons4.
Print Assumptions REMB_MarshalTo_loop2.
Print Assumptions REMB_MarshalTo_loop4.
Print Assumptions REMB_MarshalTo_after1.
Print Assumptions REMB_MarshalTo_after3.
Print Assumptions REMB_MarshalTo_float.
Print Assumptions halve_fst_ge.
Print Assumptions Some_pair_inj.
Print Assumptions remb_enc_nonneg.
Print Assumptions remb_b17.
Print Assumptions remb_b18.
Print Assumptions remb_b19.
Print Assumptions src_REMB_MarshalTo.
Print Assumptions src_REMB_Marshal_bitrate.
Print Assumptions src_REMB_Marshal.
Print Assumptions src_REMB_Marshal_refuted_without_fits.
Print Assumptions src_REMB_Unmarshal_zero.
Print Assumptions opaque_REMB_Marshal_is_source.
Print Assumptions opaque_REMB_MarshalSize_is_source.
Print Assumptions opaque_REMB_DestinationSSRC_is_source.
Print Assumptions opaque_REMB_Unmarshal_is_source.
Print Assumptions opaque_REMB_Unmarshal_zero_is_source.
Print Assumptions D_REMB_bitrate.
Print Assumptions source_C14_packet_layout.
Print Assumptions source_C14_packet_roundtrip.
Print Assumptions source_C14_bitrate_roundtrip.
Print Assumptions source_C14_negative_rejected.
Print Assumptions source_C14_saturates.
Print Assumptions source_C04_remb_any_pair.
