(* CCFB (rfc8888.go) and REMB (receiver_estimated_maximum_bitrate.go) against the RFC reference
   encoders of Spec/Enc.v: properties C02 / C03 / C08 / C14 / C16. *)
From RTCP Require Import Proofs.Tactics Proofs.HeaderProofs Model.Header Model.Reports Model.Ccfb Model.Remb Spec.Enc Spec.Laws.
Local Open Scope N_scope.

(* ------------------------------------------------------------------------------------------ *)
(* CCFB metric block (C16 unit, C03)                                                            *)
(* ------------------------------------------------------------------------------------------ *)

Lemma setN_1_0 r : r < 2 -> setNBitsOfUint16 0 1 0 r = Ok (r * 32768).
Proof.
  intros Hr. unfold setNBitsOfUint16.
  change (16 <? u16 (0 + 1)) with false. cbv iota.
  change (sub16 (shl 16 1 1) 1) with 1. change (sub16 (sub16 16 1) 0) with 15.
  rewrite land_1. unfold shl. change (16 <=? 15) with false. cbv iota.
  change (2 ^ 15) with 32768. change (2 ^ 16) with 65536.
  rewrite N.lor_0_l. f_equal. lia.
Qed.

Lemma setN_2_1 src e : src mod 32768 = 0 -> e < 4 -> setNBitsOfUint16 src 2 1 e = Ok (src + e * 8192).
Proof.
  intros Hs He. unfold setNBitsOfUint16.
  change (16 <? u16 (1 + 2)) with false. cbv iota.
  change (sub16 (shl 16 1 2) 1) with 3. change (sub16 (sub16 16 2) 1) with 13.
  rewrite land_3. unfold shl. change (16 <=? 13) with false. cbv iota.
  change (2 ^ 13) with 8192. change (2 ^ 16) with 65536.
  replace ((e mod 4 * 8192) mod 65536) with (e * 8192) by lia.
  rewrite (lor_disjoint_add src (e * 8192) 15); [reflexivity| change (2 ^ 15) with 32768; lia | change (2 ^ 15) with 32768; lia].
Qed.

Lemma land_8191 x : N.land x 8191 = x mod 8192.
Proof. change 8191 with (N.ones 13). rewrite N.land_ones. reflexivity. Qed.

Lemma setN_13_3 src o : src mod 8192 = 0 -> o < 8192 -> setNBitsOfUint16 src 13 3 o = Ok (src + o).
Proof.
  intros Hs Ho. unfold setNBitsOfUint16.
  change (16 <? u16 (3 + 13)) with false. cbv iota.
  change (sub16 (shl 16 1 13) 1) with 8191. change (sub16 (sub16 16 13) 3) with 0.
  rewrite land_8191. unfold shl. change (16 <=? 0) with false. cbv iota.
  change (2 ^ 0) with 1. change (2 ^ 16) with 65536.
  replace ((o mod 8192 * 1) mod 65536) with o by lia.
  rewrite (lor_disjoint_add src o 13); [reflexivity| change (2 ^ 13) with 8192; lia | change (2 ^ 13) with 8192; lia].
Qed.

Lemma D_metric_inv m : D_metric m = true ->
  (mb_received m = true /\ mb_ecn m < 4 /\ mb_offset m < 8192) \/ (mb_received m = false /\ mb_ecn m = 0 /\ mb_offset m = 0).
Proof.
  unfold D_metric, fits. change (2 ^ 2) with 4. change (2 ^ 13) with 8192.
  destruct (mb_received m); intros H; [left|right]; lia.
Qed.

(* C03 for the metric block: the three setNBitsOfUint16 calls build the RFC 8888 word R|ECN|ATO *)
Lemma CCMetric_marshal_spec m : D_metric m = true -> CCMetric_marshal m = Ok (enc_metric m).
Proof.
  intros H. apply D_metric_inv in H. unfold CCMetric_marshal, enc_metric.
  destruct H as [(Hr & He & Ho) | (Hr & He & Ho)]; rewrite Hr.
  - rewrite setN_1_0 by lia. cbn [bind].
    rewrite setN_2_1 by lia. cbn [bind].
    rewrite setN_13_3 by lia. cbn [bind]. f_equal.
  - rewrite He, Ho. reflexivity.
Qed.

Lemma land_128_byte (b : byte) : (N.land (b2n b) 128 =? 0) = (b2n b <? 128).
Proof. destruct b; reflexivity. Qed.

Lemma be2_bytes x : be 2 x = [n2b (x / 256); n2b x].
Proof. reflexivity. Qed.

(* C16 / C02 for the metric block: the decoder inverts the RFC word on the whole domain *)
Lemma CCMetric_unmarshal_enc m : D_metric m = true -> CCMetric_unmarshal (enc_metric m) = Ok m.
Proof.
  intros H. apply D_metric_inv in H. unfold CCMetric_unmarshal, enc_metric. consts.
  destruct m as [r e o]. cbn [mb_received mb_ecn mb_offset] in *.
  destruct H as [(Hr & He & Ho) | (Hr & He & Ho)]; subst r.
  - rewrite be2_bytes. change (len [_; _] =? 2) with true. cbn [negb].
    unfold idx. change (len [_; _] <=? 0) with false. cbv iota. change (N.to_nat 0) with 0%nat. cbn [nth bind].
    rewrite land_128_byte. rewrite b2n_n2b.
    destruct (N.ltb_spec (((32768 + e * 8192 + o) / 256) mod 256) 128) as [A|_]; [exfalso; lia|]. cbn [negb].
    unfold get_be_at. change (len [_; _] <? 0 + N.of_nat 2) with false. cbv iota. change (N.to_nat 0) with 0%nat. cbn [skipn firstn bind].
    unfold unbe. cbn [fold_left]. rewrite ?b2n_n2b. rewrite land_3, land_8191.
    f_equal. f_equal; lia.
  - subst e o. reflexivity.
Qed.

(* stray bits (C04 variant): bit 15 clear decodes to the canonical not-received block whatever the other 15 bits *)
Lemma CCMetric_unmarshal_not_received b0 b1 : b2n b0 < 128 ->
  CCMetric_unmarshal [b0; b1] = Ok {| mb_received := false; mb_ecn := 0; mb_offset := 0 |}.
Proof.
  intros H. unfold CCMetric_unmarshal. consts. change (len [b0; b1] =? 2) with true. cbn [negb].
  unfold idx. change (len [b0; b1] <=? 0) with false. cbv iota. change (N.to_nat 0) with 0%nat. cbn [nth bind].
  rewrite land_128_byte. destruct (N.ltb_spec (b2n b0) 128); [|lia]. reflexivity.
Qed.

Lemma CCMetric_unmarshal_received b0 b1 : 128 <= b2n b0 ->
  CCMetric_unmarshal [b0; b1] =
  Ok {| mb_received := true; mb_ecn := (b2n b0 / 32) mod 4; mb_offset := (b2n b0 * 256 + b2n b1) mod 8192 |}.
Proof.
  intros H. unfold CCMetric_unmarshal. consts. change (len [b0; b1] =? 2) with true. cbn [negb].
  unfold idx. change (len [b0; b1] <=? 0) with false. cbv iota. change (N.to_nat 0) with 0%nat. cbn [nth bind].
  rewrite land_128_byte. destruct (N.ltb_spec (b2n b0) 128); [lia|]. cbn [negb].
  unfold get_be_at. change (len [b0; b1] <? 0 + N.of_nat 2) with false. cbv iota. change (N.to_nat 0) with 0%nat. cbn [skipn firstn bind].
  unfold unbe. cbn [fold_left]. rewrite land_3, land_8191. reflexivity.
Qed.

(* the decoded block is always in the domain, and re-encodes to a canonical word (C16, other direction) *)
Lemma CCMetric_unmarshal_total raw : CCMetric_unmarshal raw <> Panic /\ CCMetric_unmarshal raw <> Fuel.
Proof.
  unfold CCMetric_unmarshal. consts. destruct (N.eqb_spec (len raw) 2) as [E|E]; cbn [negb]; [|not_panic].
  rewrite idx_ok by lia. cbn [bind]. destruct (negb (negb _)); [not_panic|].
  rewrite get_be_at_ok by (cbn; lia). cbn [bind]. not_panic.
Qed.

(* ------------------------------------------------------------------------------------------ *)
(* CCFB report block (C03, C08)                                                                 *)
(* ------------------------------------------------------------------------------------------ *)

Lemma enc_metric_length m : length (enc_metric m) = 2%nat.
Proof. unfold enc_metric. destruct (mb_received m); apply be_length. Qed.

Lemma enc_metrics_length ms : length (List.concat (map enc_metric ms)) = (2 * length ms)%nat.
Proof.
  induction ms as [|m r IH]; [reflexivity|]. cbn [map List.concat length]. rewrite app_length, enc_metric_length, IH. lia.
Qed.

Lemma enc_metrics_len ms : len (List.concat (map enc_metric ms)) = 2 * nl ms.
Proof. unfold len, nl. rewrite enc_metrics_length. lia. Qed.

Lemma metrics_marshal_spec ms : forallb D_metric ms = true -> metrics_marshal ms = Ok (List.concat (map enc_metric ms)).
Proof.
  induction ms as [|m r IH]; [reflexivity|]. cbn [forallb]. rewrite andb_true_iff. intros [Hm Hr].
  cbn [metrics_marshal map List.concat]. rewrite CCMetric_marshal_spec by exact Hm. cbn [bind].
  rewrite IH by exact Hr. reflexivity.
Qed.

Lemma D_ccblock_inv b : D_ccblock b = true ->
  cb_ssrc b < 4294967296 /\ cb_begin b < 65536 /\ nl (cb_metrics b) <= 16384 /\ nl (cb_metrics b) <> 1 /\
  (nl (cb_metrics b) = 0 \/ cb_begin b + nl (cb_metrics b) - 1 <= 65535) /\ forallb D_metric (cb_metrics b) = true.
Proof.
  unfold D_ccblock, fits. change (2 ^ 32) with 4294967296. change (2 ^ 16) with 65536.
  rewrite !andb_true_iff, orb_true_iff. intros (((((H1 & H2) & H3) & H4) & H5) & H6).
  repeat split; try lia; try assumption.
Qed.

Lemma CCBlock_len_nl b : CCBlock_len b = 8 + 2 * (nl (cb_metrics b) + nl (cb_metrics b) mod 2).
Proof.
  unfold CCBlock_len, nlen, nl. consts. set (n := N.of_nat (length (cb_metrics b))).
  destruct (N.eqb_spec (n mod 2) 0) as [E|E]; cbn [negb]; lia.
Qed.

(* C03 for the report block (under the n-1 reading of num_reports, n <> 1) *)
Lemma CCBlock_marshal_spec b : D_ccblock b = true -> CCBlock_marshal b = Ok (enc_ccblock b).
Proof.
  intros H. apply D_ccblock_inv in H as (Hs & Hb & Hn & Hn1 & Hw & Hm).
  unfold CCBlock_marshal. rewrite CCBlock_len_nl. consts. unfold nlen. fold (nl (cb_metrics b)).
  destruct (N.ltb_spec 16384 (nl (cb_metrics b))) as [A|_]; [lia|].
  rewrite metrics_marshal_spec by exact Hm. cbn [bind].
  unfold enc_ccblock, pad4. rewrite <- !app_assoc. f_equal. f_equal. f_equal. f_equal.
  - unfold u16. set (n := nl (cb_metrics b)) in *.
    destruct (N.eqb_spec n 0) as [E|E].
    + rewrite E. reflexivity.
    + replace (n mod 65536) with n by lia. destruct (N.ltb_spec 0 n); [reflexivity|lia].
  - f_equal. rewrite !len_app, !len_be, !enc_metrics_len. set (n := nl (cb_metrics b)) in *.
    cbn [N.of_nat Pos.of_succ_nat Pos.succ]. unfold get_padding. f_equal.
    destruct (N.eqb_spec ((4 + (2 + (2 + 2 * n))) mod 4) 0); lia.
Qed.

Lemma enc_ccblock_len b : len (enc_ccblock b) = CCBlock_len b.
Proof.
  rewrite CCBlock_len_nl. unfold enc_ccblock, pad4.
  rewrite !len_app, len_zeros, !len_be, !enc_metrics_len. set (n := nl (cb_metrics b)).
  cbn [N.of_nat Pos.of_succ_nat Pos.succ]. unfold get_padding.
  destruct (N.eqb_spec ((4 + (2 + (2 + 2 * n))) mod 4) 0); lia.
Qed.

(* C08: more than 16384 metric blocks are refused, never truncated *)
Lemma CCBlock_marshal_limit b : 16384 < nl (cb_metrics b) -> CCBlock_marshal b = Err.
Proof.
  intros H. unfold CCBlock_marshal. consts. unfold nlen. fold (nl (cb_metrics b)).
  destruct (N.ltb_spec 16384 (nl (cb_metrics b))); [reflexivity|lia].
Qed.

(* Finding F6: a block with exactly one metric block is written with num_reports = 0 and decodes as empty *)
Lemma ccfb_one_metric_refuted :
  exists b, nl (cb_metrics b) = 1 /\ (exists raw, CCBlock_marshal b = Ok raw /\ CCBlock_unmarshal raw <> Ok b).
Proof.
  exists {| cb_ssrc := 1; cb_begin := 2; cb_metrics := [ {| mb_received := true; mb_ecn := 0; mb_offset := 5 |} ] |}.
  split; [reflexivity|]. eexists. split; [vm_compute; reflexivity|]. vm_compute. intros X. discriminate X.
Qed.

(* ------------------------------------------------------------------------------------------ *)
(* CCFB packet (C03)                                                                            *)
(* ------------------------------------------------------------------------------------------ *)

Definition blocks_len (bs : list CCBlock) : N := fold_right (fun b acc => CCBlock_len b + acc) 0 bs.

Lemma CCBlock_len_mod4 b : CCBlock_len b mod 4 = 0 /\ 8 <= CCBlock_len b.
Proof. rewrite CCBlock_len_nl. lia. Qed.

Lemma blocks_len_mod4 bs : blocks_len bs mod 4 = 0.
Proof.
  induction bs as [|b r IH]; [reflexivity|]. cbn [blocks_len fold_right]. fold (blocks_len r).
  pose proof (CCBlock_len_mod4 b). lia.
Qed.

Lemma enc_blocks_len bs : len (List.concat (map enc_ccblock bs)) = blocks_len bs.
Proof.
  induction bs as [|b r IH]; [reflexivity|]. cbn [map List.concat blocks_len fold_right]. fold (blocks_len r).
  rewrite len_app, enc_ccblock_len, IH. reflexivity.
Qed.

Lemma put_blocks_spec bs : forall pre n off, forallb D_ccblock bs = true -> off = len pre -> blocks_len bs <= n ->
  put_blocks (pre ++ zeros n) off bs = Ok ((pre ++ List.concat (map enc_ccblock bs)) ++ zeros (n - blocks_len bs), off + blocks_len bs).
Proof.
  induction bs as [|b r IH]; intros pre n off HD Hoff Hn.
  - cbn [put_blocks map List.concat blocks_len fold_right]. rewrite app_nil_r, N.sub_0_r, N.add_0_r. reflexivity.
  - cbn [forallb] in HD. apply andb_true_iff in HD as [Hb Hr].
    cbn [blocks_len fold_right] in *. fold (blocks_len r) in *.
    cbn [put_blocks]. rewrite CCBlock_marshal_spec by exact Hb. cbn [bind].
    pose proof (enc_ccblock_len b) as Hl. unfold len in Hl.
    rewrite (copy_at_fr pre n (enc_ccblock b) off) by (try exact Hoff; lia). cbn [bind].
    rewrite IH; [| exact Hr | rewrite len_app; unfold len at 2; lia | lia].
    cbn [map List.concat]. rewrite <- !app_assoc. rewrite Hl.
    replace (n - CCBlock_len b - blocks_len r) with (n - (CCBlock_len b + blocks_len r)) by lia.
    rewrite N.add_assoc. reflexivity.
Qed.

Lemma D_CCFB_inv p : D_CCFB p = true -> cc_sender p < 4294967296 /\ cc_timestamp p < 4294967296 /\ forallb D_ccblock (cc_blocks p) = true.
Proof.
  unfold D_CCFB, fits. change (2 ^ 32) with 4294967296. rewrite !andb_true_iff. intros ((H1 & H2) & H3).
  repeat split; try lia; assumption.
Qed.

Lemma CCFB_size_blocks p : CCFB_size p = 12 + blocks_len (cc_blocks p).
Proof. unfold CCFB_size. consts. fold (blocks_len (cc_blocks p)). lia. Qed.

(* C03 for the packet: header, sender SSRC, blocks back to back, timestamp.  The bound is the largest size whose
   length field does not wrap (F18 beyond it). *)
Lemma CCFB_marshal_spec p : D_CCFB p = true -> CCFB_size p <= 262140 -> CCFB_marshal p = Ok (enc_CCFB p).
Proof.
  intros HD Hsz. apply D_CCFB_inv in HD as (Hs & Ht & Hb).
  rewrite CCFB_size_blocks in Hsz. pose proof (blocks_len_mod4 (cc_blocks p)) as Hm4.
  unfold CCFB_marshal, CCFB_header. rewrite CCFB_size_blocks. consts. cbn [h_len].
  rewrite Header_marshal_spec by lia. cbn [bind].
  set (S := blocks_len (cc_blocks p)) in *.
  assert (EL : 4 * (u16 ((12 + S) / 4 - 1) + 1) = 4 + (4 + (S + 4))) by (unfold u16; lia).
  rewrite EL. rewrite (zeros_add 4 (4 + (S + 4))).
  rewrite slice_ok by (rewrite ?len_app, ?len_zeros; lia). cbn [bind].
  rewrite copy_at_head' by reflexivity. cbn [bind].
  rewrite (put_be_fr 4 (hdr false 11 205 (u16 ((12 + S) / 4 - 1))) (4 + (S + 4)) (cc_sender p) 4)
    by (first [reflexivity | lia]). cbn [bind].
  replace (4 + (S + 4) - N.of_nat 4) with (S + 4) by lia.
  rewrite put_blocks_spec; [| exact Hb | rewrite len_app, len_be; reflexivity | fold S; lia ].
  cbn [bind]. fold S.
  rewrite put_be_fr; [| rewrite !len_app, len_be, enc_blocks_len; fold S; reflexivity | lia].
  replace (S + 4 - S - N.of_nat 4) with 0 by lia. change (zeros 0) with (@nil byte). rewrite app_nil_r.
  unfold enc_CCFB, frame. rewrite <- !app_assoc. f_equal. f_equal. f_equal.
  rewrite !len_app, !len_be, enc_blocks_len. fold S. cbn [N.of_nat Pos.of_succ_nat Pos.succ]. unfold u16. lia.
Qed.

(* ------------------------------------------------------------------------------------------ *)
(* REMB bitrate arithmetic (C14): exact arithmetic on Z                                          *)
(* ------------------------------------------------------------------------------------------ *)
Local Open Scope Z_scope.

Lemma pow2_pos k : 0 <= k -> 0 < 2 ^ k.
Proof. intros. apply Z.pow_pos_nonneg; lia. Qed.

Lemma pow2_succ k : 0 <= k -> 2 ^ (k + 1) = 2 * 2 ^ k.
Proof. intros. change (k + 1) with (Z.succ k). apply Z.pow_succ_r. exact H. Qed.

Lemma ifloor_nonneg m e : 0 <= m -> 0 <= ifloor m e.
Proof.
  intros Hm. unfold ifloor. destruct (Z.leb_spec 0 e).
  - pose proof (pow2_pos e H). apply Z.mul_nonneg_nonneg; lia.
  - apply Z.div_pos; [lia| apply pow2_pos; lia].
Qed.

(* one halving of the float is one floor-division by two of the integer part *)
Lemma ifloor_pred m e : ifloor m (e - 1) = ifloor m e / 2.
Proof.
  unfold ifloor. destruct (Z.leb_spec 0 e) as [He|He]; destruct (Z.leb_spec 0 (e - 1)) as [He1|He1]; try lia.
  - replace e with ((e - 1) + 1) at 2 by lia. rewrite pow2_succ by lia.
    replace (m * (2 * 2 ^ (e - 1))) with (m * 2 ^ (e - 1) * 2) by ring. rewrite Z.div_mul by lia. reflexivity.
  - replace e with 0 by lia. change (- (0 - 1)) with 1. change (2 ^ 1) with 2. change (2 ^ 0) with 1. rewrite Z.mul_1_r. reflexivity.
  - replace (- (e - 1)) with (- e + 1) by lia. rewrite pow2_succ by lia.
    rewrite Z.div_div; [| pose proof (pow2_pos (- e)); lia | lia]. f_equal. ring.
Qed.

Lemma ifloor_sub m e k : 0 <= k -> ifloor m (e - k) = ifloor m e / 2 ^ k.
Proof.
  intros Hk. pattern k. apply natlike_ind; [| | exact Hk].
  - rewrite Z.sub_0_r. change (2 ^ 0) with 1. rewrite Z.div_1_r. reflexivity.
  - intros j Hj IH. replace (e - Z.succ j) with (e - j - 1) by lia. rewrite ifloor_pred, IH.
    rewrite Z.pow_succ_r by exact Hj. rewrite Z.div_div; [| pose proof (pow2_pos j); lia | lia].
    f_equal. ring.
Qed.

Lemma log2_half x : 2 <= x -> Z.log2 (x / 2) = Z.log2 x - 1.
Proof.
  intros Hx. assert (HL : 1 <= Z.log2 x) by (apply Z.log2_le_pow2; [lia| change (2 ^ 1) with 2; lia]).
  pose proof (Z.log2_spec x ltac:(lia)) as [Hlo Hhi].
  replace (Z.log2 x) with ((Z.log2 x - 1) + 1) in Hlo by lia.
  replace (Z.succ (Z.log2 x)) with ((Z.log2 x - 1) + 1 + 1) in Hhi by lia.
  rewrite !pow2_succ in * by lia.
  apply Z.log2_unique; [lia|]. rewrite Z.pow_succ_r by lia.
  pose proof (pow2_pos (Z.log2 x - 1)). generalize dependent (2 ^ (Z.log2 x - 1)). intros. lia.
Qed.

Lemma log2_lt_18 x : x < 2 ^ 18 -> Z.log2 x <= 17.
Proof.
  intros H. destruct (Z.le_gt_cases x 0) as [H0|H0].
  - rewrite Z.log2_nonpos by exact H0. lia.
  - apply (Z.log2_lt_pow2 x 18 H0) in H. lia.
Qed.
Lemma log2_ge_18 x : 2 ^ 18 <= x -> 18 <= Z.log2 x.
Proof. intros H. apply Z.log2_le_pow2; [|exact H]. change (2 ^ 18) with 262144 in H. lia. Qed.

(* number of halvings: the minimal exponent that brings x below 2^18 *)
Definition kexp (x : Z) : Z := Z.max 0 (Z.log2 x - 17).

Lemma kexp_half x : 2 ^ 18 <= x -> kexp (x / 2) = kexp x - 1.
Proof.
  intros H. pose proof (log2_ge_18 x H). unfold kexp. rewrite log2_half by (change (2 ^ 18) with 262144 in H; lia). lia.
Qed.
Lemma kexp_small x : x < 2 ^ 18 -> kexp x = 0.
Proof. intros H. apply log2_lt_18 in H. unfold kexp. lia. Qed.
Lemma kexp_nonneg x : 0 <= kexp x.
Proof. unfold kexp. lia. Qed.

(* the halving loop: with enough fuel it stops after exactly kexp(floor(value)) steps *)
Lemma halve_spec fuel : forall m e exp,
  ifloor m e < 2 ^ 18 * 2 ^ Z.of_nat fuel ->
  halve fuel m e exp = (exp + kexp (ifloor m e), e - kexp (ifloor m e)).
Proof.
  induction fuel as [|f IH]; intros m e exp Hx.
  - change (Z.of_nat 0) with 0 in Hx. change (2 ^ 0) with 1 in Hx. rewrite Z.mul_1_r in Hx.
    rewrite kexp_small by exact Hx. cbn [halve]. f_equal; lia.
  - cbn [halve]. destruct (Z.leb_spec (2 ^ 18) (ifloor m e)) as [Hge|Hlt].
    + rewrite IH.
      * rewrite ifloor_pred, kexp_half by exact Hge. f_equal; lia.
      * rewrite ifloor_pred. rewrite Nat2Z.inj_succ, Z.pow_succ_r in Hx by lia.
        apply Z.div_lt_upper_bound; [lia|]. lia.
    + rewrite kexp_small by exact Hlt. f_equal; lia.
Qed.

Lemma remb_ref_eq x : remb_ref x = if 0x3FFFF * 2 ^ 63 <=? x then (63, 0x3FFFF) else (kexp x, x / 2 ^ kexp x).
Proof. reflexivity. Qed.

Lemma log2_lt_81 x : x < 0x3FFFF * 2 ^ 63 -> Z.log2 x < 81.
Proof.
  intros H. destruct (Z.le_gt_cases x 0) as [H0|H0].
  - rewrite Z.log2_nonpos by exact H0. lia.
  - apply Z.log2_lt_pow2; [exact H0|]. lia.
Qed.

(* the encoder on a finite non-negative value computes the reference (exponent, mantissa) *)
Lemma remb_enc_fin bits s m e : f32_of_bits bits = Fin s m e -> s && (0 <? m) = false ->
  remb_enc bits = Some (remb_ref (ifloor m e)).
Proof.
  intros Hf Hs. unfold remb_enc. rewrite Hf, Hs. rewrite remb_ref_eq. unfold bitratemax_int.
  destruct (Z.leb_spec (0x3FFFF * 2 ^ 63) (ifloor m e)) as [Hsat|Hlt].
  - vm_compute. reflexivity.
  - rewrite halve_spec by (change (Z.of_nat 200) with 200; lia).
    pose proof (log2_lt_81 _ Hlt) as HL. pose proof (kexp_nonneg (ifloor m e)) as HK.
    destruct (Z.leb_spec 64 (0 + kexp (ifloor m e))) as [A|_]; [unfold kexp in A; lia|].
    rewrite ifloor_sub by exact HK. rewrite Z.add_0_l. reflexivity.
Qed.

(* C14, encoder: floor of the float32 value to 18 significant bits, minimal exponent, saturating *)
Theorem remb_encode_floor bits x : remb_floor bits = Some x -> remb_enc (Z.of_N bits) = Some (remb_ref x).
Proof.
  unfold remb_floor, remb_value. destruct (f32_of_bits (Z.of_N bits)) as [s m e| |] eqn:Hf; try discriminate.
  destruct (s && (0 <? m)) eqn:Hs; [discriminate|]. cbn [option_map]. intros E. injection E as <-.
  eapply remb_enc_fin; eassumption.
Qed.

(* ---- properties of the reference quantiser, transported to the encoder by remb_encode_floor ---- *)
Definition rval (p : Z * Z) : Z := snd p * 2 ^ fst p.     (* value of an (exponent, mantissa) pair *)
Definition remb_max : Z := 0x3FFFF * 2 ^ 63.

Lemma kexp_spec x : 0 <= x -> x < 2 ^ 18 * 2 ^ kexp x.
Proof.
  intros H0. destruct (Z.lt_ge_cases x (2 ^ 18)) as [H|H].
  - rewrite kexp_small by exact H. change (2 ^ 0) with 1. lia.
  - pose proof (log2_ge_18 x H) as HL. unfold kexp. rewrite Z.max_r by lia.
    pose proof (Z.log2_spec x ltac:(change (2 ^ 18) with 262144 in H; lia)) as [_ Hhi].
    replace (Z.succ (Z.log2 x)) with (18 + (Z.log2 x - 17)) in Hhi by lia.
    rewrite Z.pow_add_r in Hhi by lia. exact Hhi.
Qed.

Lemma kexp_lower x : 0 < kexp x -> 2 ^ 17 * 2 ^ kexp x <= x.
Proof.
  intros HK. unfold kexp in *. assert (HL : 18 <= Z.log2 x) by lia. rewrite Z.max_r by lia.
  assert (Hx : 0 < x). { destruct (Z.le_gt_cases x 0) as [A|A]; [rewrite Z.log2_nonpos in HL by exact A; lia|exact A]. }
  pose proof (Z.log2_spec x Hx) as [Hlo _].
  rewrite <- Z.pow_add_r by lia. replace (17 + (Z.log2 x - 17)) with (Z.log2 x) by lia. exact Hlo.
Qed.

Lemma remb_ref_bounds x : 0 <= x -> 0 <= fst (remb_ref x) < 64 /\ 0 <= snd (remb_ref x) < 2 ^ 18.
Proof.
  intros H0. rewrite remb_ref_eq. destruct (Z.leb_spec (0x3FFFF * 2 ^ 63) x) as [Hs|Hs]; cbn [fst snd]; [lia|].
  pose proof (log2_lt_81 x Hs). pose proof (kexp_nonneg x) as HK. pose proof (pow2_pos _ HK) as HP.
  split; [unfold kexp in *; lia|]. split; [apply Z.div_pos; lia|].
  apply Z.div_lt_upper_bound; [exact HP|]. rewrite Z.mul_comm. apply kexp_spec. exact H0.
Qed.

(* never above the input *)
Lemma remb_ref_le x : 0 <= x -> rval (remb_ref x) <= x.
Proof.
  intros H0. unfold rval. rewrite remb_ref_eq. destruct (Z.leb_spec (0x3FFFF * 2 ^ 63) x) as [Hs|Hs]; cbn [fst snd]; [lia|].
  pose proof (pow2_pos _ (kexp_nonneg x)) as HP. rewrite Z.mul_comm. apply Z.mul_div_le. exact HP.
Qed.

(* within one unit in the last place below saturation *)
Lemma remb_ref_ulp x : 0 <= x < remb_max -> x - rval (remb_ref x) < 2 ^ fst (remb_ref x).
Proof.
  unfold remb_max. intros [H0 Hs]. unfold rval. rewrite remb_ref_eq.
  destruct (Z.leb_spec (0x3FFFF * 2 ^ 63) x) as [A|_]; [lia|]. cbn [fst snd].
  pose proof (pow2_pos _ (kexp_nonneg x)) as HP.
  pose proof (Z.div_mod x (2 ^ kexp x) ltac:(lia)) as HD. pose proof (Z.mod_pos_bound x (2 ^ kexp x) HP) as HM.
  rewrite (Z.mul_comm (x / 2 ^ kexp x)). lia.
Qed.

(* minimal exponent: a mantissa below 2^17 only with exponent 0 *)
Lemma remb_ref_minimal x : 0 <= x -> snd (remb_ref x) < 2 ^ 17 -> fst (remb_ref x) = 0.
Proof.
  intros H0. rewrite remb_ref_eq. destruct (Z.leb_spec (0x3FFFF * 2 ^ 63) x) as [A|_]; cbn [fst snd]; [lia|].
  intros Hm. destruct (Z.eq_dec (kexp x) 0) as [E|E]; [exact E|exfalso].
  pose proof (kexp_nonneg x) as HK. pose proof (kexp_lower x ltac:(lia)) as HL.
  pose proof (pow2_pos _ HK) as HP.
  assert (2 ^ 17 <= x / 2 ^ kexp x) by (apply Z.div_le_lower_bound; [exact HP| rewrite Z.mul_comm; exact HL]).
  lia.
Qed.

Lemma remb_ref_saturates x : remb_max <= x -> remb_ref x = (63, 0x3FFFF).
Proof. unfold remb_max. intros H. rewrite remb_ref_eq. destruct (Z.leb_spec (0x3FFFF * 2 ^ 63) x); [reflexivity|lia]. Qed.

Lemma kexp_mono x y : x <= y -> kexp x <= kexp y.
Proof. intros H. apply Z.log2_le_mono in H. unfold kexp. lia. Qed.

(* monotone *)
Lemma remb_ref_mono x y : 0 <= x -> x <= y -> rval (remb_ref x) <= rval (remb_ref y).
Proof.
  intros H0 Hxy. destruct (Z.lt_ge_cases y remb_max) as [Hy|Hy].
  2:{ rewrite (remb_ref_saturates y Hy). destruct (Z.lt_ge_cases x remb_max) as [Hx|Hx].
      - pose proof (remb_ref_le x H0). unfold remb_max in *. unfold rval at 2. cbn [fst snd]. lia.
      - rewrite (remb_ref_saturates x Hx). lia. }
  unfold remb_max in Hy. unfold rval. rewrite !remb_ref_eq.
  destruct (Z.leb_spec (0x3FFFF * 2 ^ 63) x) as [A|_]; [lia|]. destruct (Z.leb_spec (0x3FFFF * 2 ^ 63) y) as [A|_]; [lia|].
  cbn [fst snd]. pose proof (kexp_mono x y Hxy) as HKm. pose proof (kexp_nonneg x) as HKx.
  pose proof (pow2_pos _ HKx) as HPx. pose proof (pow2_pos (kexp y) ltac:(lia)) as HPy.
  destruct (Z.eq_dec (kexp x) (kexp y)) as [E|E].
  - rewrite E. apply Z.mul_le_mono_nonneg_r; [lia|]. apply Z.div_le_mono; [exact HPy|exact Hxy].
  - pose proof (kexp_lower y ltac:(lia)) as HLy.
    assert (Hq : 2 ^ 17 <= y / 2 ^ kexp y) by (apply Z.div_le_lower_bound; [exact HPy| rewrite Z.mul_comm; exact HLy]).
    assert (Hvy : 2 ^ 17 * 2 ^ kexp y <= y / 2 ^ kexp y * 2 ^ kexp y) by (apply Z.mul_le_mono_nonneg_r; lia).
    pose proof (Z.mul_div_le x (2 ^ kexp x) HPx) as Hvx. rewrite Z.mul_comm in Hvx.
    pose proof (kexp_spec x H0) as Hux.
    assert (Hpow : 2 ^ 18 * 2 ^ kexp x <= 2 ^ 17 * 2 ^ kexp y).
    { replace (kexp y) with ((kexp y - 1) + 1) by lia. rewrite pow2_succ by lia.
      assert (2 ^ kexp x <= 2 ^ (kexp y - 1)) by (apply Z.pow_le_mono_r; lia).
      change (2 ^ 18) with (2 ^ 17 * 2). lia. }
    lia.
Qed.

(* exact on representable values, whatever the (e, m) presentation *)
Lemma remb_ref_exact m e : 0 <= m < 2 ^ 18 -> 0 <= e < 64 -> rval (remb_ref (m * 2 ^ e)) = m * 2 ^ e.
Proof.
  intros Hm He. pose proof (pow2_pos e ltac:(lia)) as HPe.
  assert (Hle : m * 2 ^ e <= 0x3FFFF * 2 ^ 63).
  { apply Z.mul_le_mono_nonneg; try lia. apply Z.pow_le_mono_r; lia. }
  unfold rval. rewrite remb_ref_eq. destruct (Z.leb_spec (0x3FFFF * 2 ^ 63) (m * 2 ^ e)) as [A|A]; cbn [fst snd]; [lia|].
  destruct (Z.eq_dec m 0) as [->|Hm0].
  - reflexivity.
  - assert (HK : kexp (m * 2 ^ e) <= e).
    { unfold kexp. rewrite Z.log2_mul_pow2 by lia. pose proof (log2_lt_18 m ltac:(lia)). lia. }
    pose proof (kexp_nonneg (m * 2 ^ e)) as HK0. set (k := kexp (m * 2 ^ e)) in *.
    assert (E : 2 ^ e = 2 ^ (e - k) * 2 ^ k) by (rewrite <- Z.pow_add_r by lia; f_equal; lia).
    rewrite E. rewrite Z.mul_assoc. rewrite Z.div_mul by (pose proof (pow2_pos k HK0); lia). reflexivity.
Qed.

(* a canonical pair (minimal exponent) is a fixed point *)
Lemma remb_ref_canonical m e : 0 <= m < 2 ^ 18 -> 0 <= e < 64 -> (2 ^ 17 <= m \/ e = 0) -> remb_ref (m * 2 ^ e) = (e, m).
Proof.
  intros Hm He Hc. pose proof (pow2_pos e ltac:(lia)) as HPe.
  rewrite remb_ref_eq. destruct (Z.leb_spec (0x3FFFF * 2 ^ 63) (m * 2 ^ e)) as [A|A].
  - destruct (Z.eq_dec e 63) as [->|Ne].
    + f_equal. lia.
    + exfalso. assert (2 ^ e <= 2 ^ 62) by (apply Z.pow_le_mono_r; lia).
      assert (m * 2 ^ e <= 0x3FFFF * 2 ^ 62) by (apply Z.mul_le_mono_nonneg; lia). lia.
  - assert (HK : kexp (m * 2 ^ e) = e).
    { destruct Hc as [Hc| ->].
      - unfold kexp. rewrite Z.log2_mul_pow2 by lia.
        assert (Z.log2 m = 17) by (apply Z.log2_unique; [lia| change (2 ^ Z.succ 17) with (2 ^ 18); lia]). lia.
      - change (2 ^ 0) with 1. rewrite Z.mul_1_r. apply kexp_small. lia. }
    rewrite HK. rewrite Z.div_mul by lia. reflexivity.
Qed.

(* ---- the same facts stated on the encoder (C14) ---- *)
Lemma f32_range b : match f32_of_bits b with Fin _ m e => 0 <= m < 2 ^ 24 /\ -149 <= e <= 104 | _ => True end.
Proof.
  unfold f32_of_bits. change (2 ^ 23) with 8388608. change (2 ^ 24) with 16777216.
  pose proof (Z.mod_pos_bound b 8388608 ltac:(lia)) as Hf. pose proof (Z.mod_pos_bound (b / 8388608) 256 ltac:(lia)) as HE.
  destruct (Z.eqb_spec ((b / 8388608) mod 256) 255) as [E1|E1]; [destruct (b mod 8388608 =? 0); exact I|].
  destruct (Z.eqb_spec ((b / 8388608) mod 256) 0) as [E0|E0]; lia.
Qed.
Lemma f32_fin_range b s m e : f32_of_bits b = Fin s m e -> 0 <= m < 2 ^ 24 /\ -149 <= e <= 104.
Proof. intros H. pose proof (f32_range b) as R. rewrite H in R. exact R. Qed.

Lemma remb_floor_nonneg bits x : remb_floor bits = Some x -> 0 <= x.
Proof.
  unfold remb_floor, remb_value. destruct (f32_of_bits (Z.of_N bits)) as [s m e| |] eqn:Hf; try discriminate.
  destruct (s && (0 <? m)); [discriminate|]. cbn [option_map]. intros E. injection E as <-.
  apply f32_fin_range in Hf. apply ifloor_nonneg. lia.
Qed.

Theorem remb_encode_le bits x : remb_floor bits = Some x ->
  exists e m, remb_enc (Z.of_N bits) = Some (e, m) /\ 0 <= e < 64 /\ 0 <= m < 2 ^ 18 /\ m * 2 ^ e <= x.
Proof.
  intros H. pose proof (remb_floor_nonneg _ _ H) as H0. apply remb_encode_floor in H.
  pose proof (remb_ref_bounds x H0) as [Hb1 Hb2]. pose proof (remb_ref_le x H0) as Hl. unfold rval in Hl.
  destruct (remb_ref x) as [e m]. exists e, m. cbn [fst snd] in *. auto.
Qed.

Theorem remb_ulp bits x e m : remb_floor bits = Some x -> x < remb_max -> remb_enc (Z.of_N bits) = Some (e, m) ->
  0 <= x - m * 2 ^ e < 2 ^ e /\ (m < 2 ^ 17 -> e = 0).
Proof.
  intros H Hs He. pose proof (remb_floor_nonneg _ _ H) as H0. apply remb_encode_floor in H. rewrite H in He.
  injection He as He. pose proof (remb_ref_ulp x ltac:(lia)) as Hu. pose proof (remb_ref_le x H0) as Hl.
  pose proof (remb_ref_minimal x H0) as Hm. unfold rval in *. rewrite He in *. cbn [fst snd] in *. split; [lia|exact Hm].
Qed.

Theorem remb_encode_saturates bits x : remb_floor bits = Some x -> remb_max <= x -> remb_enc (Z.of_N bits) = Some (63, 0x3FFFF).
Proof. intros H Hs. apply remb_encode_floor in H. rewrite H, remb_ref_saturates by exact Hs. reflexivity. Qed.

Theorem remb_encode_mono b1 b2 x y p q : remb_floor b1 = Some x -> remb_floor b2 = Some y -> x <= y ->
  remb_enc (Z.of_N b1) = Some p -> remb_enc (Z.of_N b2) = Some q -> rval p <= rval q.
Proof.
  intros Hx Hy Hxy Hp Hq. pose proof (remb_floor_nonneg _ _ Hx) as H0.
  apply remb_encode_floor in Hx, Hy. rewrite Hx in Hp. rewrite Hy in Hq. injection Hp as <-. injection Hq as <-.
  apply remb_ref_mono; assumption.
Qed.

Theorem remb_encode_exact_on_representable bits m e : 0 <= m < 2 ^ 18 -> 0 <= e < 64 ->
  remb_floor bits = Some (m * 2 ^ e) ->
  exists p, remb_enc (Z.of_N bits) = Some p /\ rval p = m * 2 ^ e /\ ((2 ^ 17 <= m \/ e = 0) -> p = (e, m)).
Proof.
  intros Hm He H. apply remb_encode_floor in H. eexists. split; [exact H|]. split.
  - apply remb_ref_exact; assumption.
  - apply remb_ref_canonical; assumption.
Qed.

(* negative non-zero values, -Inf included, are refused (NaN patterns excluded: unordered) *)
Theorem remb_negative_rejected b : 2 ^ 31 < b < 2 ^ 32 -> ((b / 2 ^ 23) mod 256 <> 255 \/ b mod 2 ^ 23 = 0) -> remb_enc b = None.
Proof.
  change (2 ^ 31) with 2147483648. change (2 ^ 32) with 4294967296. intros Hb Hn.
  unfold remb_enc, f32_of_bits. change (2 ^ 31) with 2147483648. change (2 ^ 23) with 8388608 in *.
  replace (b / 2147483648) with 1 by lia. change (Z.odd 1) with true.
  pose proof (Z.mod_pos_bound b 8388608 ltac:(lia)) as Hf.
  destruct (Z.eqb_spec ((b / 8388608) mod 256) 255) as [E1|E1].
  - destruct (Z.eqb_spec (b mod 8388608) 0) as [F|F]; [reflexivity|lia].
  - destruct (Z.eqb_spec ((b / 8388608) mod 256) 0) as [E0|E0].
    + destruct (Z.ltb_spec 0 (b mod 8388608)) as [P|P]; [reflexivity|exfalso; lia].
    + destruct (Z.ltb_spec 0 (8388608 + b mod 8388608)) as [P|P]; [reflexivity|exfalso; lia].
Qed.

(* ---- decoder (C14): the normalisation loop preserves mant * 2^(exp-150) and stops at bit 23 ---- *)
Lemma norm_spec (k : nat) : forall fuel exp mant, (k <= fuel)%nat ->
  2 ^ 23 <= mant * 2 ^ Z.of_nat k < 2 ^ 24 -> 0 < mant -> Z.of_nat k <= exp < 256 ->
  norm fuel exp mant = (exp - Z.of_nat k, mant * 2 ^ Z.of_nat k).
Proof.
  change (2 ^ 23) with 8388608. change (2 ^ 24) with 16777216.
  induction k as [|k IH]; intros fuel exp mant Hf Hm Hp He.
  - change (Z.of_nat 0) with 0 in *. change (2 ^ 0) with 1 in *. rewrite Z.mul_1_r in *. rewrite Z.sub_0_r.
    destruct fuel as [|f]; [reflexivity|]. cbn [norm]. change (2 ^ 23) with 8388608.
    destruct (Z.eqb_spec ((mant / 8388608) mod 2) 0) as [E|E]; [exfalso; lia|reflexivity].
  - destruct fuel as [|f]; [lia|]. rewrite Nat2Z.inj_succ in *. rewrite Z.pow_succ_r in * by lia.
    pose proof (pow2_pos (Z.of_nat k) ltac:(lia)) as HP.
    assert (Hlt : mant < 8388608).
    { destruct (Z.lt_ge_cases mant 8388608) as [A|A]; [exact A|exfalso].
      assert (8388608 * (2 * 2 ^ Z.of_nat k) <= mant * (2 * 2 ^ Z.of_nat k)) by (apply Z.mul_le_mono_nonneg_r; lia). lia. }
    cbn [norm]. change (2 ^ 23) with 8388608. change (2 ^ 32) with 4294967296.
    destruct (Z.eqb_spec ((mant / 8388608) mod 2) 0) as [E|E]; [|exfalso; lia].
    replace ((exp - 1) mod 256) with (exp - 1) by lia. replace ((mant * 2) mod 4294967296) with (mant * 2) by lia.
    rewrite IH; [| lia | rewrite <- Z.mul_assoc; exact Hm | lia | lia ].
    f_equal; [lia|ring].
Qed.

Lemma norm_shift_exists m : 0 < m < 2 ^ 18 ->
  exists k : nat, Z.of_nat k = 23 - Z.log2 m /\ (6 <= k <= 23)%nat /\ 2 ^ 23 <= m * 2 ^ Z.of_nat k < 2 ^ 24.
Proof.
  intros Hm. pose proof (Z.log2_spec m ltac:(lia)) as [Hlo Hhi]. pose proof (Z.log2_nonneg m) as H0.
  assert (HL : Z.log2 m < 18) by (apply Z.log2_lt_pow2; lia).
  exists (Z.to_nat (23 - Z.log2 m)). split; [lia|]. split; [lia|]. rewrite Z2Nat.id by lia.
  pose proof (pow2_pos (23 - Z.log2 m) ltac:(lia)) as HP.
  replace (2 ^ 23) with (2 ^ Z.log2 m * 2 ^ (23 - Z.log2 m)) by (rewrite <- Z.pow_add_r by lia; f_equal; lia).
  replace (2 ^ 24) with (2 ^ Z.succ (Z.log2 m) * 2 ^ (23 - Z.log2 m)) by (rewrite <- Z.pow_add_r by lia; f_equal; lia).
  split; [apply Z.mul_le_mono_nonneg_r; lia | apply Z.mul_lt_mono_pos_r; lia].
Qed.

(* the bits produced for a non-zero mantissa are those of the float32 m*2^k * 2^(e-k), k the normalising shift *)
Theorem remb_decode_bits e m : 0 <= e < 64 -> 0 < m < 2 ^ 18 ->
  exists k, k = 23 - Z.log2 m /\ 6 <= k <= 23 /\ 2 ^ 23 <= m * 2 ^ k < 2 ^ 24 /\
    remb_dec e m = (e + 150 - k) * 2 ^ 23 + (m * 2 ^ k - 2 ^ 23) /\
    f32_of_bits (remb_dec e m) = Fin false (m * 2 ^ k) (e - k).
Proof.
  intros He Hm. destruct (norm_shift_exists m Hm) as (k & Hk0 & Hk & HM).
  exists (Z.of_nat k). split; [exact Hk0|]. split; [lia|]. split; [exact HM|].
  assert (HD : remb_dec e m = (e + 150 - Z.of_nat k) * 2 ^ 23 + (m * 2 ^ Z.of_nat k - 2 ^ 23)).
  { unfold remb_dec. replace ((e + 127 + 23) mod 256) with (e + 150) by lia.
    destruct (Z.eqb_spec m 0) as [A|_]; [lia|].
    rewrite (norm_spec k) by (try exact HM; lia).
    set (M := m * 2 ^ Z.of_nat k) in *. change (2 ^ 23) with 8388608 in *. change (2 ^ 24) with 16777216 in *.
    change (2 ^ 32) with 4294967296. lia. }
  split; [exact HD|]. rewrite HD. unfold f32_of_bits.
  set (M := m * 2 ^ Z.of_nat k) in *. set (E := e + 150 - Z.of_nat k).
  assert (HE : 127 <= E < 208) by (unfold E; lia).
  change (2 ^ 23) with 8388608 in *. change (2 ^ 24) with 16777216 in *. change (2 ^ 31) with 2147483648.
  replace ((E * 8388608 + (M - 8388608)) / 2147483648) with 0 by lia. change (Z.odd 0) with false.
  replace (((E * 8388608 + (M - 8388608)) / 8388608) mod 256) with E by lia.
  replace ((E * 8388608 + (M - 8388608)) mod 8388608) with (M - 8388608) by lia.
  destruct (Z.eqb_spec E 255) as [A|_]; [lia|]. destruct (Z.eqb_spec E 0) as [A|_]; [lia|].
  f_equal; unfold E; lia.
Qed.

(* C14, decoder: for a non-zero mantissa the decoded float32 is exactly m * 2^e *)
Theorem remb_decode_exact e m : 0 <= e < 64 -> 0 < m < 2 ^ 18 ->
  exists m' e', remb_value (Z.to_N (remb_dec e m)) = Some (m', e') /\ m' * 2 ^ (e' + 149) = m * 2 ^ (e + 149)
                /\ remb_floor (Z.to_N (remb_dec e m)) = Some (m * 2 ^ e).
Proof.
  intros He Hm. destruct (remb_decode_bits e m He Hm) as (k & _ & Hk & HM & HD & HF).
  assert (Hpos : 0 <= remb_dec e m).
  { rewrite HD. change (2 ^ 23) with 8388608 in *. lia. }
  assert (HV : remb_value (Z.to_N (remb_dec e m)) = Some (m * 2 ^ k, e - k)).
  { unfold remb_value. rewrite Z2N.id by exact Hpos. rewrite HF. reflexivity. }
  exists (m * 2 ^ k), (e - k). split; [exact HV|]. split.
  - replace (e + 149) with (k + (e - k + 149)) by lia. rewrite (Z.pow_add_r 2 k) by lia. ring.
  - unfold remb_floor. rewrite HV. cbn [option_map]. f_equal. unfold ifloor.
    destruct (Z.leb_spec 0 (e - k)) as [A|A].
    + replace e with (k + (e - k)) at 2 by lia. rewrite (Z.pow_add_r 2 k) by lia. ring.
    + replace k with (e + (k - e)) at 1 by lia. rewrite (Z.pow_add_r 2 e) by lia.
      replace (- (e - k)) with (k - e) by lia. rewrite Z.mul_assoc. apply Z.div_mul. pose proof (pow2_pos (k - e)); lia.
Qed.

(* Finding F16: mantissa 0 does not decode to 0 but to 2^23 * 2^e *)
Lemma remb_decode_zero e : 0 <= e < 64 -> remb_value (Z.to_N (remb_dec e 0)) = Some (2 ^ 23, e).
Proof.
  intros He. unfold remb_dec. replace ((e + 127 + 23) mod 256) with (e + 150) by lia.
  change (0 =? 0) with true. cbv iota. change (0 mod 2 ^ 23) with 0. rewrite Z.add_0_r.
  change (2 ^ 23) with 8388608. change (2 ^ 32) with 4294967296.
  replace (((e + 150) * 8388608) mod 4294967296) with ((e + 150) * 8388608) by lia.
  unfold remb_value. rewrite Z2N.id by lia. unfold f32_of_bits.
  change (2 ^ 23) with 8388608. change (2 ^ 31) with 2147483648.
  replace ((e + 150) * 8388608 / 2147483648) with 0 by lia. change (Z.odd 0) with false.
  replace (((e + 150) * 8388608 / 8388608) mod 256) with (e + 150) by lia.
  replace (((e + 150) * 8388608) mod 8388608) with 0 by lia.
  destruct (Z.eqb_spec (e + 150) 255) as [A|_]; [lia|]. destruct (Z.eqb_spec (e + 150) 0) as [A|_]; [lia|].
  cbn [andb]. f_equal. f_equal; lia.
Qed.

Theorem remb_decode_zero_refuted :
  exists e, 0 <= e < 64 /\ forall m' e', remb_value (Z.to_N (remb_dec e 0)) = Some (m', e') -> m' * 2 ^ (e' + 149) <> 0 * 2 ^ (e + 149).
Proof.
  exists 0. split; [lia|]. intros m' e' H. rewrite remb_decode_zero in H by lia. injection H as H1 H2. subst m' e'.
  vm_compute. discriminate.
Qed.

(* round trip of the bitrate field on canonical pairs with a non-zero mantissa (C02 for the bitrate) *)
Theorem remb_enc_dec e m : 0 <= e < 64 -> 0 < m < 2 ^ 18 -> (2 ^ 17 <= m \/ e = 0) ->
  remb_enc (remb_dec e m) = Some (e, m).
Proof.
  intros He Hm Hc. destruct (remb_decode_exact e m He Hm) as (m' & e' & _ & _ & HF).
  destruct (remb_decode_bits e m He Hm) as (k & _ & Hk & HM & HD & _).
  apply remb_encode_floor in HF. rewrite Z2N.id in HF by (rewrite HD; change (2 ^ 23) with 8388608 in *; lia).
  rewrite HF. f_equal. apply remb_ref_canonical; [lia|lia|exact Hc].
Qed.

(* ------------------------------------------------------------------------------------------ *)
(* REMB packet (C03, C08)                                                                       *)
(* ------------------------------------------------------------------------------------------ *)
Local Open Scope N_scope.

Lemma REMB_marshal_limit p : 255 < nl (remb_ssrcs p) -> REMB_marshal p = Err.
Proof.
  intros H. unfold REMB_marshal, nlen. fold (nl (remb_ssrcs p)).
  destruct (N.ltb_spec 255 (nl (remb_ssrcs p))); [reflexivity|lia].
Qed.

Lemma concat_be4_len (l : list N) : len (List.concat (map (be 4) l)) = 4 * nl l.
Proof.
  unfold len, nl. induction l as [|x r IH]; [reflexivity|]. cbn [map List.concat]. rewrite app_length, be_length.
  cbn [length]. lia.
Qed.

Lemma be3_bytes x : be 3 x = [n2b (x / 256 / 256); n2b (x / 256); n2b x].
Proof. reflexivity. Qed.
Lemma be1_bytes x : be 1 x = [n2b x].
Proof. reflexivity. Qed.

Lemma REMB_marshal_spec p : D_REMB p = true -> REMB_marshal p = Ok (enc_REMB p).
Proof.
  unfold D_REMB, fits. rewrite !andb_true_iff. intros ((((Hs & Hn) & Hss) & Hb) & Hv).
  destruct (remb_value (remb_bitrate p)) as [[vm ve]|] eqn:HV; [|discriminate].
  assert (HF : remb_floor (remb_bitrate p) = Some (ifloor vm ve)) by (unfold remb_floor; rewrite HV; reflexivity).
  pose proof (remb_floor_nonneg _ _ HF) as H0. pose proof (remb_encode_floor _ _ HF) as HE.
  pose proof (remb_ref_bounds _ H0) as [Hb1 Hb2].
  unfold REMB_marshal, enc_REMB, nlen. fold (nl (remb_ssrcs p)). rewrite HF, HE.
  destruct (remb_ref (ifloor vm ve)) as [e m]. cbn [fst snd] in Hb1, Hb2.
  destruct (N.ltb_spec 255 (nl (remb_ssrcs p))) as [A|_]; [lia|].
  unfold frame, hdr, REMB_size, nlen. fold (nl (remb_ssrcs p)). rewrite be3_bytes, be1_bytes.
  rewrite !len_app, !len_be, concat_be4_len. unfold len. cbn [length N.of_nat Pos.of_succ_nat Pos.succ app].
  set (n := nl (remb_ssrcs p)) in *.
  assert (He : Z.to_N e < 64) by lia. assert (Hm : Z.to_N m < 262144) by (change (2 ^ 18)%Z with 262144%Z in Hb2; lia).
  generalize dependent (Z.to_N e). generalize dependent (Z.to_N m). intros M HM E HE'.
  change (2 ^ 18) with 262144.
  f_equal. f_equal. f_equal.
  assert (HL : N.lor (u8 (E * 4)) (u8 (M / 65536)) = E * 4 + M / 65536).
  { unfold u8. replace ((E * 4) mod 256) with (E * 4) by lia. replace ((M / 65536) mod 256) with (M / 65536) by lia.
    apply (lor_disjoint_add (E * 4) (M / 65536) 2); change (2 ^ 2) with 4; lia. }
  rewrite HL.
  replace (u16 ((20 + 4 * n) / 4 - 1)) with ((4 + (4 + (4 + (4 + (1 + (3 + 4 * n)))))) / 4 - 1) by (unfold u16; lia).
  rewrite (n2b_mod (E * 4 + M / 65536) ((E * 262144 + M) / 256 / 256)) by lia.
  rewrite (n2b_mod (M / 256) ((E * 262144 + M) / 256)) by lia.
  rewrite (n2b_mod M (E * 262144 + M)) by lia.
  reflexivity.
Qed.

(* ------------------------------------------------------------------------------------------ *)
(* CCFB decoding of the RFC layout (C02 / C04 direction): the decoder inverts enc on the domain  *)
(* ------------------------------------------------------------------------------------------ *)

Lemma enc_metric_two m : exists b0 b1, enc_metric m = [b0; b1].
Proof. unfold enc_metric. destruct (mb_received m); rewrite be2_bytes; eauto. Qed.

Lemma get_metrics_enc ms : forall tail, forallb D_metric ms = true ->
  get_metrics (length ms) (List.concat (map enc_metric ms) ++ tail) = Ok ms.
Proof.
  induction ms as [|m r IH]; intros tail HD; [reflexivity|].
  cbn [forallb] in HD. apply andb_true_iff in HD as [Hm Hr].
  cbn [length map List.concat]. destruct (enc_metric_two m) as (b0 & b1 & E).
  rewrite <- app_assoc. rewrite E. cbn [app get_metrics]. rewrite <- E.
  rewrite CCMetric_unmarshal_enc by exact Hm. cbn [bind]. rewrite IH by exact Hr. reflexivity.
Qed.

Lemma ccblock_hdr_reads s bg c R : s < 4294967296 -> bg < 65536 -> c < 65536 ->
  let raw := be 4 s ++ be 2 bg ++ be 2 c ++ R in
  get_be_at 4 raw 0 = Ok s /\ get_be_at 2 raw 4 = Ok bg /\ get_be_at 2 raw 6 = Ok c /\ skipn 8 raw = R /\ len raw = 8 + len R.
Proof.
  intros Hs Hb Hc raw. unfold raw. repeat split.
  - apply (get_be_at_app 4 [] s); [reflexivity|exact Hs].
  - apply (get_be_at_app 2 (be 4 s) bg); [reflexivity|exact Hb].
  - rewrite (app_assoc (be 4 s)). apply (get_be_at_app 2 (be 4 s ++ be 2 bg) c); [reflexivity|exact Hc].
  - rewrite !len_app, !len_be. lia.
Qed.

Lemma CCBlock_unmarshal_enc b rest : D_ccblock b = true -> CCBlock_unmarshal (enc_ccblock b ++ rest) = Ok b.
Proof.
  intros H. apply D_ccblock_inv in H as (Hs & Hb & Hn & Hn1 & Hw & Hm).
  destruct b as [s bg ms]. cbn [cb_ssrc cb_begin cb_metrics] in *.
  unfold enc_ccblock, pad4. cbn [cb_ssrc cb_begin cb_metrics]. rewrite <- !app_assoc.
  set (c := if nl ms =? 0 then 0 else nl ms - 1).
  set (R := List.concat (map enc_metric ms) ++ zeros (get_padding (len (be 4 s ++ be 2 bg ++ be 2 c ++ List.concat (map enc_metric ms)))) ++ rest).
  assert (Hc : c < 65536) by (unfold c; destruct (N.eqb_spec (nl ms) 0); lia).
  destruct (ccblock_hdr_reads s bg c R Hs Hb Hc) as (R1 & R2 & R3 & R4 & R5).
  unfold CCBlock_unmarshal. consts. rewrite R5, R1, R2, R3. cbn [bind].
  assert (HR : 2 * nl ms <= len R) by (unfold R; rewrite len_app, enc_metrics_len; lia).
  destruct (N.ltb_spec (8 + len R) 8) as [A|_]; [lia|].
  unfold c. destruct (N.eqb_spec (nl ms) 0) as [E0|E0].
  - change (0 =? 0) with true. cbv iota. destruct ms; [reflexivity| unfold nl in E0; cbn [length] in E0; lia].
  - destruct (N.eqb_spec (nl ms - 1) 0) as [A|_]; [lia|].
    destruct (N.ltb_spec 65535 (bg + (nl ms - 1))) as [A|_]; [lia|].
    assert (EN : u16 (u16 (sub16 (u16 (bg + (nl ms - 1))) bg) + 1) = nl ms) by (unfold u16, sub16; lia).
    rewrite EN. destruct (N.ltb_spec (8 + len R) (8 + nl ms * 2)) as [A|_]; [lia|].
    change (N.to_nat 8) with 8%nat. change (skipn 8 (be 4 s ++ be 2 bg ++ be 2 (nl ms - 1) ++ R)) with R.
    unfold R, nl. rewrite Nat2N.id.
    rewrite get_metrics_enc by exact Hm. reflexivity.
Qed.

Lemma blocks_count_le bs : N.of_nat (length bs) <= blocks_len bs.
Proof.
  induction bs as [|b r IH]; [cbn; lia|]. cbn [length blocks_len fold_right]. fold (blocks_len r).
  pose proof (CCBlock_len_mod4 b). lia.
Qed.

Lemma blocks_loop_enc bs : forall pre tail fuel, forallb D_ccblock bs = true -> (length bs < fuel)%nat ->
  blocks_loop fuel (pre ++ List.concat (map enc_ccblock bs) ++ tail) (len pre) (len pre + blocks_len bs) = Ok bs.
Proof.
  induction bs as [|b r IH]; intros pre tail fuel HD Hf.
  - destruct fuel as [|f]; [cbn [length] in Hf; lia|]. cbn [blocks_loop blocks_len fold_right].
    destruct (N.ltb_spec (len pre) (len pre + 0)); [lia|reflexivity].
  - destruct fuel as [|f]; [lia|]. cbn [length] in Hf.
    cbn [forallb] in HD. apply andb_true_iff in HD as [Hb Hr].
    cbn [blocks_loop blocks_len fold_right map List.concat]. fold (blocks_len r).
    pose proof (CCBlock_len_mod4 b) as [_ H8].
    destruct (N.ltb_spec (len pre) (len pre + (CCBlock_len b + blocks_len r))) as [_|A]; [|lia].
    rewrite slice_from_ok by (rewrite len_app; lia). cbn [bind].
    unfold len at 1. rewrite Nat2N.id. rewrite skipn_app, skipn_all, Nat.sub_diag. cbn [skipn app].
    rewrite <- app_assoc. rewrite CCBlock_unmarshal_enc by exact Hb. cbn [bind].
    replace (len pre + CCBlock_len b) with (len (pre ++ enc_ccblock b)) by (rewrite len_app, enc_ccblock_len; reflexivity).
    replace (len pre + (CCBlock_len b + blocks_len r)) with (len (pre ++ enc_ccblock b) + blocks_len r)
      by (rewrite len_app, enc_ccblock_len; lia).
    rewrite (app_assoc pre). rewrite IH; [reflexivity|exact Hr|lia].
Qed.

(* C02/C04 for CCFB on the domain D_CCFB (which excludes one-metric blocks and wrapping ranges: finding F6) *)
Theorem CCFB_unmarshal_enc p : D_CCFB p = true -> CCFB_size p <= 262140 -> CCFB_unmarshal (enc_CCFB p) = Ok p.
Proof.
  intros HD Hsz. apply D_CCFB_inv in HD as (Hs & Ht & Hb).
  rewrite CCFB_size_blocks in Hsz. pose proof (blocks_len_mod4 (cc_blocks p)) as Hm4.
  destruct p as [snd bs ts]. cbn [cc_sender cc_blocks cc_timestamp] in *.
  unfold enc_CCFB, frame. cbn [cc_sender cc_blocks cc_timestamp].
  set (body := be 4 snd ++ List.concat (map enc_ccblock bs) ++ be 4 ts).
  assert (Hbody : len body = 8 + blocks_len bs).
  { unfold body. rewrite !len_app, !len_be, enc_blocks_len. lia. }
  rewrite Hbody. set (L := (4 + (8 + blocks_len bs)) / 4 - 1).
  assert (HL : L < 65536) by (unfold L; lia).
  assert (Hh : len (hdr false 11 205 L) = 4) by reflexivity.
  assert (Hraw : len (hdr false 11 205 L ++ body) = 12 + blocks_len bs) by (rewrite len_app, Hh, Hbody; lia).
  unfold CCFB_unmarshal. consts. rewrite Hraw.
  destruct (N.ltb_spec (12 + blocks_len bs) (4 + 4 + 4)) as [A|_]; [lia|].
  rewrite Header_unmarshal_hdr by lia. cbn [bind h_type]. change (205 =? 205) with true. cbn [negb].
  unfold body at 1. rewrite (get_be_at_app 4 (hdr false 11 205 L) snd) by (try exact Hs; reflexivity). cbn [bind].
  assert (E1 : hdr false 11 205 L ++ body = (hdr false 11 205 L ++ be 4 snd ++ List.concat (map enc_ccblock bs)) ++ be 4 ts ++ []).
  { unfold body. rewrite app_nil_r, <- !app_assoc. reflexivity. }
  rewrite E1 at 1. rewrite (get_be_at_app 4 _ ts) by (try exact Ht; rewrite !len_app, Hh, len_be, enc_blocks_len; lia).
  cbn [bind].
  assert (E2 : hdr false 11 205 L ++ body = (hdr false 11 205 L ++ be 4 snd) ++ List.concat (map enc_ccblock bs) ++ be 4 ts).
  { unfold body. rewrite <- !app_assoc. reflexivity. }
  assert (Hpre : len (hdr false 11 205 L ++ be 4 snd) = 8) by reflexivity.
  replace (12 + blocks_len bs - 4) with (len (hdr false 11 205 L ++ be 4 snd) + blocks_len bs) by (rewrite Hpre; lia).
  change 8 with (len (hdr false 11 205 L ++ be 4 snd)) at 1.
  rewrite E2. rewrite blocks_loop_enc; [reflexivity|exact Hb|].
  pose proof (blocks_count_le bs). rewrite <- E2. unfold len in Hraw. lia.
Qed.

(* ------------------------------------------------------------------------------------------ *)
(* REMB decoding of the RFC layout (C02): Unmarshal (enc p) = the documented quantisation q_REMB *)
(* ------------------------------------------------------------------------------------------ *)
Local Open Scope Z_scope.
Lemma remb_dec_bits_exact e m : 0 <= e < 64 -> 0 < m < 2 ^ 18 -> remb_dec e m = f32_bits_exact m e.
Proof.
  intros He Hm. destruct (remb_decode_bits e m He Hm) as (k & Hk & _ & _ & HD & _).
  rewrite HD. unfold f32_bits_exact. destruct (Z.eqb_spec m 0) as [A|_]; [lia|]. cbv zeta. rewrite <- Hk.
  f_equal. f_equal. lia.
Qed.

Lemma remb_ref_mant_pos x : 1 <= x -> 0 < snd (remb_ref x).
Proof.
  intros H. rewrite remb_ref_eq. destruct (Z.leb_spec (0x3FFFF * 2 ^ 63) x) as [A|A]; cbn [snd]; [lia|].
  pose proof (kexp_nonneg x) as HK. pose proof (pow2_pos _ HK) as HP.
  assert (2 ^ kexp x <= x).
  { destruct (Z.eq_dec (kexp x) 0) as [E|E]; [rewrite E; change (2 ^ 0) with 1; lia|].
    pose proof (kexp_lower x ltac:(lia)). change (2 ^ 17) with 131072 in *. lia. }
  assert (1 <= x / 2 ^ kexp x) by (apply Z.div_le_lower_bound; lia). lia.
Qed.
Local Open Scope N_scope.

Lemma get_be4_self x : x < 4294967296 -> get_be_at 4 (be 4 x) 0 = Ok x.
Proof. intros H. rewrite <- (app_nil_r (be 4 x)). apply (get_be_at_app 4 [] x []); [reflexivity|exact H]. Qed.

Lemma slice_be4 pre x rest : slice (pre ++ be 4 x ++ rest) (len pre) (len pre + 4) = Ok (be 4 x).
Proof.
  rewrite slice_ok; [| lia | rewrite !len_app, len_be; lia].
  replace (len pre + 4 - len pre) with 4 by lia. f_equal.
  unfold len. rewrite Nat2N.id, skipn_app, skipn_all, Nat.sub_diag. cbn [skipn app].
  rewrite firstn_app, be_length. change (N.to_nat 4 - 4)%nat with 0%nat. rewrite firstn_O, app_nil_r.
  apply firstn_all2. rewrite be_length. apply Nat.le_refl.
Qed.

Lemma nl_cons {A} (x : A) r : nl (x :: r) = 1 + nl r.
Proof. unfold nl. cbn [length]. lia. Qed.

Lemma ssrcs_read_enc l : forall pre fuel, forallb (fits 32) l = true -> (length l < fuel)%nat ->
  remb_ssrcs_read fuel (pre ++ List.concat (map (be 4) l)) (len pre) (len pre + 4 * nl l) = Ok l.
Proof.
  induction l as [|x r IH]; intros pre fuel HD Hf.
  - destruct fuel as [|f]; [inversion Hf|]. cbn [remb_ssrcs_read]. change (nl (@nil N)) with 0.
    destruct (N.ltb_spec (len pre) (len pre + 4 * 0)); [lia|reflexivity].
  - destruct fuel as [|f]; [inversion Hf|]. apply Nat.succ_lt_mono in Hf.
    change (forallb (fits 32) (x :: r)) with (fits 32 x && forallb (fits 32) r) in HD.
    apply andb_true_iff in HD as [Hx Hr]. apply N.ltb_lt in Hx.
    assert (Hx' : x < 4294967296) by exact Hx.
    change (List.concat (map (be 4) (x :: r))) with (be 4 x ++ List.concat (map (be 4) r)).
    rewrite nl_cons. cbn [remb_ssrcs_read].
    destruct (N.ltb_spec (len pre) (len pre + 4 * (1 + nl r))) as [_|A]; [|lia].
    rewrite slice_be4. cbn [bind]. rewrite get_be4_self by exact Hx'. cbn [bind].
    replace (len pre + 4) with (len (pre ++ be 4 x)) by (rewrite len_app, len_be; reflexivity).
    replace (len pre + 4 * (1 + nl r)) with (len (pre ++ be 4 x) + 4 * nl r) by (rewrite len_app, len_be; lia).
    rewrite app_assoc. rewrite IH; [reflexivity|exact Hr|exact Hf].
Qed.

Lemma be4_bytes x : be 4 x = [n2b (x / 256 / 256 / 256); n2b (x / 256 / 256); n2b (x / 256); n2b x].
Proof. reflexivity. Qed.

Lemma REMB_unmarshal_wire L s n X T :
  L < 65536 -> u16 (u16 (L + 1) * 4) = 20 + 4 * n -> s < 4294967296 -> n < 256 -> X < 16777216 -> len T = 4 * n ->
  REMB_unmarshal ([n2b 143; n2b 206] ++ be 2 L ++ be 4 s ++ [x00; x00; x00; x00] ++ [n2b 82; n2b 69; n2b 77; n2b 66]
                  ++ [n2b n] ++ be 3 X ++ T) =
  let* ssrcs := remb_ssrcs_read (S (20 + length T)) (([n2b 143; n2b 206] ++ be 2 L ++ be 4 s ++ [x00; x00; x00; x00] ++ [n2b 82; n2b 69; n2b 77; n2b 66]
                  ++ [n2b n] ++ be 3 X) ++ T) 20 (20 + 4 * n) in
  Ok {| remb_sender := s; remb_bitrate := Z.to_N (remb_dec (Z.of_N (X / 262144)) (Z.of_N (X mod 262144))); remb_ssrcs := ssrcs |}.
Proof.
  intros HL Hsz Hs Hn HX HT.
  rewrite be2_bytes, be4_bytes, be3_bytes. cbn [app].
  match goal with |- REMB_unmarshal ?b = _ => assert (Hlen : len b = 20 + 4 * n) by (unfold len in *; cbn [length]; lia) end.
  unfold REMB_unmarshal. rewrite Hlen.
  destruct (N.ltb_spec (20 + 4 * n) 20) as [A|_]; [lia|].
  rewrite !idx_ok by (rewrite Hlen; lia).
  rewrite !get_be_at_ok by (rewrite Hlen; lia).
  rewrite slice_ok by (rewrite ?Hlen; lia).
  change (N.to_nat 0) with 0%nat. change (N.to_nat 1) with 1%nat. change (N.to_nat 2) with 2%nat. change (N.to_nat 4) with 4%nat.
  change (N.to_nat 8) with 8%nat. change (N.to_nat 12) with 12%nat. change (N.to_nat (16 - 12)) with 4%nat. change (N.to_nat 16) with 16%nat.
  change (N.to_nat 17) with 17%nat. change (N.to_nat 18) with 18%nat. change (N.to_nat 19) with 19%nat.
  cbn [nth skipn firstn bind].
  change (b2n (n2b 143)) with 143. change (b2n (n2b 206)) with 206.
  change (negb (143 / 64 =? 2)) with false. change (negb (N.land (143 / 32) 1 =? 0)) with false.
  change (negb (N.land 143 31 =? 15)) with false. change (negb (206 =? 206)) with false. cbv iota.
  unfold unbe. cbn [fold_left]. rewrite !b2n_n2b. change (b2n x00) with 0.
  replace ((0 * 256 + (L / 256) mod 256) * 256 + L mod 256) with L by lia. rewrite Hsz.
  destruct (N.ltb_spec (20 + 4 * n) 20) as [A|_]; [lia|].
  destruct (N.ltb_spec (20 + 4 * n) (20 + 4 * n)) as [A|_]; [lia|].
  change ((((0 * 256 + 0) * 256 + 0) * 256 + 0) * 256 + 0 =? 0) with true. cbn [negb].
  rewrite (proj2 (bytes_eqb_eq _ _) eq_refl). cbn [negb].
  replace (n mod 256) with n by lia. rewrite N.eqb_refl. cbn [negb].
  replace ((((0 * 256 + (s / 256 / 256 / 256) mod 256) * 256 + (s / 256 / 256) mod 256) * 256 + (s / 256) mod 256) * 256 + s mod 256)
    with s by lia.
  replace ((X / 256 / 256) mod 256 / 4) with (X / 262144) by lia.
  assert (Em : N.lor (N.lor (N.land ((X / 256 / 256) mod 256) 3 * 65536) ((X / 256) mod 256 * 256)) (X mod 256) = X mod 262144).
  { rewrite land_3.
    rewrite (lor_disjoint_add (((X / 256 / 256) mod 256) mod 4 * 65536) ((X / 256) mod 256 * 256) 16)
      by (change (2 ^ 16) with 65536; lia).
    rewrite (lor_disjoint_add _ (X mod 256) 8) by (change (2 ^ 8) with 256; lia). lia. }
  rewrite Em. reflexivity.
Qed.

(* C02 for REMB: decoding the RFC encoding yields the documented quantisation (bitrate floored to 18 significant bits),
   provided the bitrate is at least 1 (mantissa 0 is finding F16, see remb_zero_roundtrip_refuted) *)
Theorem REMB_unmarshal_enc p : D_REMB p = true -> (forall x, remb_floor (remb_bitrate p) = Some x -> (1 <= x)%Z) ->
  REMB_unmarshal (enc_REMB p) = Ok (q_REMB p).
Proof.
  unfold D_REMB, fits. rewrite !andb_true_iff. intros ((((Hs & Hn) & Hss) & Hb) & Hv) H1.
  destruct (remb_value (remb_bitrate p)) as [[vm ve]|] eqn:HV; [|discriminate].
  assert (HF : remb_floor (remb_bitrate p) = Some (ifloor vm ve)) by (unfold remb_floor; rewrite HV; reflexivity).
  pose proof (remb_floor_nonneg _ _ HF) as H0. pose proof (H1 _ HF) as Hge1.
  pose proof (remb_ref_bounds _ H0) as [Hb1 Hb2]. pose proof (remb_ref_mant_pos _ Hge1) as Hmp.
  unfold enc_REMB, q_REMB. rewrite HF. destruct (remb_ref (ifloor vm ve)) as [e m]. cbn [fst snd] in Hb1, Hb2, Hmp.
  apply N.ltb_lt in Hs. change (2 ^ 32) with 4294967296 in Hs. apply N.leb_le in Hn.
  unfold frame, hdr. rewrite be1_bytes. change (be 4 0) with [x00; x00; x00; x00]. change (n2b (128 + 0 + 15)) with (n2b 143).
  rewrite !len_app, !len_be, concat_be4_len. unfold len at 1 2 3. cbn [length N.of_nat Pos.of_succ_nat Pos.succ].
  set (n := nl (remb_ssrcs p)) in *. change (2 ^ 18) with 262144.
  set (X := Z.to_N e * 262144 + Z.to_N m).
  assert (HX : X < 16777216) by (unfold X; change (2 ^ 18)%Z with 262144%Z in Hb2; lia).
  rewrite <- app_assoc.
  rewrite REMB_unmarshal_wire; [| lia | unfold u16; lia | exact Hs | lia | exact HX | apply concat_be4_len ].
  match goal with |- context [remb_ssrcs_read _ (?pre ++ _) _ _] => set (P := pre) end.
  assert (HP : len P = 20) by reflexivity. rewrite <- HP.
  assert (HT : length (List.concat (map (be 4) (remb_ssrcs p))) = (4 * length (remb_ssrcs p))%nat).
  { pose proof (concat_be4_len (remb_ssrcs p)) as C. unfold len, nl in C. lia. }
  rewrite ssrcs_read_enc; [| exact Hss | rewrite HT; lia ]. cbn [bind].
  assert (E1 : X / 262144 = Z.to_N e) by (unfold X; change (2 ^ 18)%Z with 262144%Z in Hb2; lia).
  assert (E2 : X mod 262144 = Z.to_N m) by (unfold X; change (2 ^ 18)%Z with 262144%Z in Hb2; lia).
  rewrite E1, E2, !Z2N.id by lia. rewrite remb_dec_bits_exact by lia. reflexivity.
Qed.

(* Finding F16 at packet level: bitrate 0 is written with mantissa 0 and comes back as 2^23 *)
Lemma remb_zero_roundtrip_refuted :
  exists p, D_REMB p = true /\ remb_bitrate p = 0 /\ REMB_unmarshal (enc_REMB p) <> Ok (q_REMB p).
Proof.
  exists {| remb_sender := 1; remb_bitrate := 0; remb_ssrcs := [2] |}.
  split; [vm_compute; reflexivity|]. split; [reflexivity|]. vm_compute. intros X. discriminate X.
Qed.

(* C16, other direction for the metric-block unit: every decoded block is in the domain; a received word is canonical *)
Lemma CCMetric_unmarshal_in_D b0 b1 m : CCMetric_unmarshal [b0; b1] = Ok m -> D_metric m = true.
Proof.
  destruct (N.lt_ge_cases (b2n b0) 128) as [H|H].
  - rewrite CCMetric_unmarshal_not_received by exact H. intros E. injection E as <-. reflexivity.
  - rewrite CCMetric_unmarshal_received by exact H. intros E. injection E as <-.
    unfold D_metric, fits. cbn [mb_received mb_ecn mb_offset]. change (2 ^ 2) with 4. change (2 ^ 13) with 8192.
    apply andb_true_iff. split; apply N.ltb_lt; lia.
Qed.

Lemma CCMetric_enc_unmarshal b0 b1 m : 128 <= b2n b0 -> CCMetric_unmarshal [b0; b1] = Ok m -> enc_metric m = [b0; b1].
Proof.
  intros H. rewrite CCMetric_unmarshal_received by exact H. intros E. injection E as <-.
  unfold enc_metric. cbn [mb_received mb_ecn mb_offset]. rewrite be2_bytes.
  pose proof (b2n_lt b0) as H0. pose proof (b2n_lt b1) as H1.
  replace (32768 + (b2n b0 / 32) mod 4 * 8192 + (b2n b0 * 256 + b2n b1) mod 8192) with (b2n b0 * 256 + b2n b1) by lia.
  replace ((b2n b0 * 256 + b2n b1) / 256) with (b2n b0) by lia. rewrite n2b_b2n.
  rewrite (n2b_mod (b2n b0 * 256 + b2n b1) (b2n b1)) by lia. rewrite n2b_b2n. reflexivity.
Qed.

(* ------------------------------------------------------------------------------------------ *)
Print Assumptions CCMetric_marshal_spec.
Print Assumptions CCMetric_unmarshal_enc.
Print Assumptions CCMetric_unmarshal_not_received.
Print Assumptions CCMetric_unmarshal_in_D.
Print Assumptions CCMetric_enc_unmarshal.
Print Assumptions CCBlock_marshal_spec.
Print Assumptions CCBlock_marshal_limit.
Print Assumptions ccfb_one_metric_refuted.
Print Assumptions CCFB_marshal_spec.
Print Assumptions CCBlock_unmarshal_enc.
Print Assumptions CCFB_unmarshal_enc.
Print Assumptions remb_encode_floor.
Print Assumptions remb_encode_le.
Print Assumptions remb_ulp.
Print Assumptions remb_encode_saturates.
Print Assumptions remb_encode_mono.
Print Assumptions remb_encode_exact_on_representable.
Print Assumptions remb_negative_rejected.
Print Assumptions remb_decode_bits.
Print Assumptions remb_decode_exact.
Print Assumptions remb_decode_zero.
Print Assumptions remb_decode_zero_refuted.
Print Assumptions remb_enc_dec.
Print Assumptions REMB_marshal_spec.
Print Assumptions REMB_marshal_limit.
Print Assumptions REMB_unmarshal_enc.
Print Assumptions remb_zero_roundtrip_refuted.
