(* C01 (totality: no panic, no fuel exhaustion) and allocation bounds for the decoders of
   reception_report.go, sender_report.go, receiver_report.go, source_description.go, goodbye.go,
   application_defined.go *)
From RTCP Require Import Proofs.Tactics Proofs.HeaderProofs Model.Header Model.Reports Model.Sdes Model.ByeApp.
Local Open Scope N_scope.

Lemma nlen_cons {A} (x : A) l : nlen (x :: l) = 1 + nlen l.
Proof. unfold nlen. cbn [length]. lia. Qed.
Lemma nlen_nil {A} : nlen (@nil A) = 0.
Proof. reflexivity. Qed.

(* ------------------------------------------------------------------ *)
(* reception_report.go *)

Lemma RRep_unmarshal_total : forall b, RRep_unmarshal b <> Panic /\ RRep_unmarshal b <> Fuel.
Proof.
  intros b. unfold RRep_unmarshal. consts.
  destruct (N.ltb_spec (len b) 24); [not_panic|].
  reads_ok. not_panic.
Qed.

Lemma RRep_unmarshal_ok_len b r : RRep_unmarshal b = Ok r -> 24 <= len b.
Proof.
  unfold RRep_unmarshal. consts.
  destruct (N.ltb_spec (len b) 24); [discriminate|]. intros _. assumption.
Qed.

(* ------------------------------------------------------------------ *)
(* sender_report.go *)

Lemma sr_reports_loop_total : forall k body off,
  sr_reports_loop k body off <> Panic /\ sr_reports_loop k body off <> Fuel.
Proof.
  induction k as [|k IH]; intros body off; cbn [sr_reports_loop]; [not_panic|]. consts.
  destruct (N.ltb_spec (len body) (off + 24)); [not_panic|].
  rewrite slice_ok by lia. cbn [bind].
  set (sub := firstn _ _).
  destruct (RRep_unmarshal_total sub) as [P1 P2].
  destruct (RRep_unmarshal sub) as [r| | |]; cbn [bind]; try not_panic; try contradiction.
  destruct (IH body (off + 24)) as [Q1 Q2].
  destruct (sr_reports_loop k body (off + 24)) as [[rs off']| | |]; cbn [bind]; try not_panic; try contradiction.
Qed.

(* the loop consumes exactly 24 octets per report and never runs past the body *)
Lemma sr_reports_loop_ok : forall k body off rs off',
  sr_reports_loop k body off = Ok (rs, off') ->
  off' = off + 24 * nlen rs /\ (off <= len body -> off' <= len body) /\ length rs = k.
Proof.
  induction k as [|k IH]; intros body off rs off'; cbn [sr_reports_loop].
  - intros E. inversion E; subst. unfold nlen. cbn [length]. repeat split; lia.
  - consts. destruct (N.ltb_spec (len body) (off + 24)); [discriminate|].
    rewrite slice_ok by lia. cbn [bind].
    destruct (RRep_unmarshal _) as [r| | |]; cbn [bind]; try discriminate.
    destruct (sr_reports_loop k body (off + 24)) as [[rs1 off1]| | |] eqn:EL; cbn [bind]; try discriminate.
    intros E. inversion E; subst. apply IH in EL as (E1 & E2 & E3).
    rewrite nlen_cons. cbn [length]. repeat split; lia.
Qed.

Lemma SR_unmarshal_total : forall b, SR_unmarshal b <> Panic /\ SR_unmarshal b <> Fuel.
Proof.
  intros b. unfold SR_unmarshal. consts.
  destruct (N.ltb_spec (len b) (4 + 24)); [not_panic|].
  destruct (Header_unmarshal_total b) as [P1 P2].
  destruct (Header_unmarshal b) as [h| | |]; cbn [bind]; try not_panic; try contradiction.
  destruct (negb _); [not_panic|].
  rewrite slice_from_ok by lia. cbn [bind].
  set (body := skipn (N.to_nat 4) b).
  assert (Hb : len body = len b - 4) by (unfold body; rewrite len_skipn; lia).
  reads_ok.
  destruct (sr_reports_loop_total (N.to_nat (h_count h)) body 24) as [Q1 Q2].
  destruct (sr_reports_loop (N.to_nat (h_count h)) body 24) as [[rs off']| | |] eqn:EL; cbn [bind]; try not_panic; try contradiction.
  destruct (N.ltb_spec off' (len body)).
  - rewrite slice_from_ok by lia. cbn [bind]. destruct (negb _); not_panic.
  - cbn [bind]. destruct (negb _); not_panic.
Qed.

Lemma SR_unmarshal_alloc_N b s : SR_unmarshal b = Ok s ->
  28 + 24 * nlen (sr_reports s) + len (sr_ext s) <= len b.
Proof.
  unfold SR_unmarshal. consts.
  destruct (N.ltb_spec (len b) (4 + 24)); [discriminate|].
  destruct (Header_unmarshal b) as [h| | |]; cbn [bind]; try discriminate.
  destruct (negb _); [discriminate|].
  rewrite slice_from_ok by lia. cbn [bind].
  set (body := skipn (N.to_nat 4) b).
  assert (Hb : len body = len b - 4) by (unfold body; rewrite len_skipn; lia).
  reads_ok.
  destruct (sr_reports_loop (N.to_nat (h_count h)) body 24) as [[rs off']| | |] eqn:EL; cbn [bind]; try discriminate.
  apply sr_reports_loop_ok in EL as (E1 & E2 & _).
  destruct (N.ltb_spec off' (len body)).
  - rewrite slice_from_ok by lia. cbn [bind]. destruct (negb _); [discriminate|].
    intros E. inversion E; subst s. cbn [sr_reports sr_ext]. rewrite len_skipn. lia.
  - cbn [bind]. destruct (negb _); [discriminate|].
    intros E. inversion E; subst s. cbn [sr_reports sr_ext]. rewrite len_nil. lia.
Qed.

Lemma SR_unmarshal_alloc b s : SR_unmarshal b = Ok s ->
  (24 * length (sr_reports s) + length (sr_ext s) <= length b)%nat.
Proof. intros H. apply SR_unmarshal_alloc_N in H. unfold nlen, len in H. lia. Qed.

(* ------------------------------------------------------------------ *)
(* receiver_report.go *)

Lemma rr_reports_loop_total : forall k raw i,
  rr_reports_loop k raw i <> Panic /\ rr_reports_loop k raw i <> Fuel.
Proof.
  induction k as [|k IH]; intros raw i; cbn [rr_reports_loop]; [not_panic|]. consts.
  destruct (N.ltb_spec i (len raw)); [|not_panic].
  rewrite slice_from_ok by lia. cbn [bind].
  set (sub := skipn _ _).
  destruct (RRep_unmarshal_total sub) as [P1 P2].
  destruct (RRep_unmarshal sub) as [r| | |]; cbn [bind]; try not_panic; try contradiction.
  destruct (IH raw (i + 24)) as [Q1 Q2].
  destruct (rr_reports_loop k raw (i + 24)) as [rs| | |]; cbn [bind]; try not_panic; try contradiction.
Qed.

(* every decoded report consumed 24 octets below len raw *)
Lemma rr_reports_loop_ok : forall k raw i rs,
  rr_reports_loop k raw i = Ok rs -> i <= len raw ->
  i + 24 * nlen rs <= len raw /\ (length rs <= k)%nat.
Proof.
  induction k as [|k IH]; intros raw i rs; cbn [rr_reports_loop].
  - intros E Hi. inversion E; subst. unfold nlen. cbn [length]. lia.
  - consts. destruct (N.ltb_spec i (len raw)).
    + rewrite slice_from_ok by lia. cbn [bind].
      destruct (RRep_unmarshal _) as [r| | |] eqn:ER; cbn [bind]; try discriminate.
      apply RRep_unmarshal_ok_len in ER. rewrite len_skipn in ER.
      destruct (rr_reports_loop k raw (i + 24)) as [rs1| | |] eqn:EL; cbn [bind]; try discriminate.
      intros E Hi. inversion E; subst. apply IH in EL as [E1 E2]; [|lia].
      rewrite nlen_cons. cbn [length]. lia.
    + intros E Hi. inversion E; subst. unfold nlen. cbn [length]. lia.
Qed.

Lemma RR_unmarshal_total : forall b, RR_unmarshal b <> Panic /\ RR_unmarshal b <> Fuel.
Proof.
  intros b. unfold RR_unmarshal. consts.
  destruct (N.ltb_spec (len b) (4 + 4)); [not_panic|].
  destruct (Header_unmarshal_total b) as [P1 P2].
  destruct (Header_unmarshal b) as [h| | |]; cbn [bind]; try not_panic; try contradiction.
  destruct (negb _); [not_panic|].
  reads_ok.
  destruct (rr_reports_loop_total (N.to_nat (h_count h)) b 8) as [Q1 Q2].
  destruct (rr_reports_loop (N.to_nat (h_count h)) b 8) as [rs| | |] eqn:EL; cbn [bind]; try not_panic; try contradiction.
  apply rr_reports_loop_ok in EL as [E1 _]; [|lia].
  rewrite slice_from_ok by lia. cbn [bind]. destruct (negb _); not_panic.
Qed.

Lemma RR_unmarshal_alloc_N b r : RR_unmarshal b = Ok r ->
  8 + 24 * nlen (rcv_reports r) + len (rcv_ext r) <= len b.
Proof.
  unfold RR_unmarshal. consts.
  destruct (N.ltb_spec (len b) (4 + 4)); [discriminate|].
  destruct (Header_unmarshal b) as [h| | |]; cbn [bind]; try discriminate.
  destruct (negb _); [discriminate|].
  reads_ok.
  destruct (rr_reports_loop (N.to_nat (h_count h)) b 8) as [rs| | |] eqn:EL; cbn [bind]; try discriminate.
  apply rr_reports_loop_ok in EL as [E1 _]; [|lia].
  rewrite slice_from_ok by lia. cbn [bind].
  set (ext := skipn (N.to_nat (8 + _)) b).
  assert (Hext : len ext = len b - (8 + nlen rs * 24)) by (unfold ext; rewrite len_skipn; lia). clearbody ext.
  destruct (negb _); [discriminate|].
  intros [= <-]. cbn [rcv_reports rcv_ext]. lia.
Qed.

Lemma RR_unmarshal_alloc b r : RR_unmarshal b = Ok r ->
  (24 * length (rcv_reports r) + length (rcv_ext r) <= length b)%nat.
Proof. intros H. apply RR_unmarshal_alloc_N in H. unfold nlen, len in H. lia. Qed.

(* ------------------------------------------------------------------ *)
(* source_description.go *)

Lemma SItem_unmarshal_total : forall b, SItem_unmarshal b <> Panic /\ SItem_unmarshal b <> Fuel.
Proof.
  intros b. unfold SItem_unmarshal. consts.
  destruct (N.ltb_spec (len b) (1 + 1)); [not_panic|].
  reads_ok.
  destruct (N.ltb_spec (len b) (2 + b2n (nth (N.to_nat 1) b x00))); [not_panic|].
  rewrite slice_ok by lia. cbn [bind]. not_panic.
Qed.

(* a decoded item lies inside its input: type, octet count and text *)
Lemma SItem_unmarshal_ok b it : SItem_unmarshal b = Ok it ->
  SItem_len it = 2 + len (it_text it) /\ SItem_len it <= len b.
Proof.
  unfold SItem_unmarshal, SItem_len. consts.
  destruct (N.ltb_spec (len b) (1 + 1)); [discriminate|].
  reads_ok.
  destruct (N.ltb_spec (len b) (2 + b2n (nth (N.to_nat 1) b x00))); [discriminate|].
  rewrite slice_ok by lia. cbn [bind].
  set (txt := firstn _ _).
  assert (Ht : len txt = b2n (nth (N.to_nat 1) b x00)) by (unfold txt; rewrite len_firstn, len_skipn; lia).
  clearbody txt. intros [= <-]. cbn [it_text].
  lia.
Qed.

Lemma items_loop_total : forall fuel b i, (N.to_nat (len b - i) < fuel)%nat ->
  items_loop fuel b i <> Panic /\ items_loop fuel b i <> Fuel.
Proof.
  induction fuel as [|f IH]; intros b i Hf; [lia|]. cbn [items_loop]. consts.
  destruct (N.ltb_spec i (len b)); [|not_panic].
  reads_ok. destruct (_ =? 0); [not_panic|].
  rewrite slice_from_ok by lia. cbn [bind].
  set (sub := skipn _ _).
  destruct (SItem_unmarshal_total sub) as [P1 P2].
  destruct (SItem_unmarshal sub) as [it| | |] eqn:EI; cbn [bind]; try not_panic; try contradiction.
  apply SItem_unmarshal_ok in EI as [E1 E2].
  destruct (IH b (i + SItem_len it)) as [Q1 Q2]; [lia|].
  destruct (items_loop f b (i + SItem_len it)) as [its| | |]; cbn [bind]; try not_panic; try contradiction.
Qed.

Definition items_wire (its : list SItem) : N := fold_right (fun it acc => 2 + len (it_text it) + acc) 0 its.
Definition items_text (its : list SItem) : N := fold_right (fun it acc => len (it_text it) + acc) 0 its.

(* on success the cursor stopped on an SDESEnd octet strictly inside b *)
Lemma items_loop_ok : forall fuel b i its, items_loop fuel b i = Ok its ->
  i + items_wire its < len b.
Proof.
  induction fuel as [|f IH]; intros b i its; cbn [items_loop]; [discriminate|]. consts.
  destruct (N.ltb_spec i (len b)); [|discriminate].
  reads_ok. destruct (_ =? 0).
  - intros E. inversion E; subst. cbn [items_wire fold_right]. lia.
  - rewrite slice_from_ok by lia. cbn [bind].
    destruct (SItem_unmarshal _) as [it| | |] eqn:EI; cbn [bind]; try discriminate.
    apply SItem_unmarshal_ok in EI as [E1 E2].
    destruct (items_loop f b (i + SItem_len it)) as [its1| | |] eqn:EL; cbn [bind]; try discriminate.
    intros E. inversion E; subst. apply IH in EL.
    cbn [items_wire fold_right]. fold (items_wire its1). lia.
Qed.

Lemma SChunk_unmarshal_total : forall b, SChunk_unmarshal b <> Panic /\ SChunk_unmarshal b <> Fuel.
Proof.
  intros b. unfold SChunk_unmarshal. consts.
  destruct (N.ltb_spec (len b) (4 + 1)); [not_panic|].
  reads_ok.
  destruct (items_loop_total (S (length b)) b 4) as [Q1 Q2]; [unfold len; lia|].
  destruct (items_loop (S (length b)) b 4) as [its| | |]; cbn [bind]; try not_panic; try contradiction.
Qed.

Lemma SChunk_unmarshal_ok b c : SChunk_unmarshal b = Ok c ->
  4 + items_wire (ch_items c) + 1 <= len b.
Proof.
  unfold SChunk_unmarshal. consts.
  destruct (N.ltb_spec (len b) (4 + 1)); [discriminate|].
  reads_ok.
  destruct (items_loop (S (length b)) b 4) as [its| | |] eqn:EL; cbn [bind]; try discriminate.
  apply items_loop_ok in EL. intros E. inversion E; subst c. cbn [ch_items]. lia.
Qed.

Lemma items_wire_fold its : fold_right (fun it acc => SItem_len it + acc) 0 its = items_wire its.
Proof.
  induction its as [|it its IH]; cbn [fold_right items_wire]; [reflexivity|].
  fold (items_wire its). rewrite IH. unfold SItem_len. consts. lia.
Qed.

Lemma SChunk_len_ge c : 4 + items_wire (ch_items c) + 1 <= SChunk_len c /\ 8 <= SChunk_len c.
Proof.
  set (w := items_wire (ch_items c)). unfold SChunk_len. rewrite items_wire_fold. fold w. consts.
  pose proof (get_padding_spec (4 + w + 1)). lia.
Qed.

Lemma chunks_loop_total : forall fuel raw i, (N.to_nat (len raw - i) < fuel)%nat ->
  chunks_loop fuel raw i <> Panic /\ chunks_loop fuel raw i <> Fuel.
Proof.
  induction fuel as [|f IH]; intros raw i Hf; [lia|]. cbn [chunks_loop].
  destruct (N.ltb_spec i (len raw)); [|not_panic].
  rewrite slice_from_ok by lia. cbn [bind].
  set (sub := skipn _ _).
  destruct (SChunk_unmarshal_total sub) as [P1 P2].
  destruct (SChunk_unmarshal sub) as [c| | |]; cbn [bind]; try not_panic; try contradiction.
  pose proof (SChunk_len_ge c) as [_ G].
  destruct (IH raw (i + SChunk_len c)) as [Q1 Q2]; [lia|].
  destruct (chunks_loop f raw (i + SChunk_len c)) as [cs| | |]; cbn [bind]; try not_panic; try contradiction.
Qed.

Definition chunks_wire (cs : list SChunk) : N :=
  fold_right (fun c acc => 4 + items_wire (ch_items c) + 1 + acc) 0 cs.
Definition chunks_text (cs : list SChunk) : N :=
  fold_right (fun c acc => items_text (ch_items c) + acc) 0 cs.

(* the unpadded wire image of every decoded chunk lies inside raw (the padding of the last one may not) *)
Lemma chunks_loop_ok : forall fuel raw i cs, chunks_loop fuel raw i = Ok cs -> i <= len raw ->
  i + chunks_wire cs <= len raw.
Proof.
  induction fuel as [|f IH]; intros raw i cs; cbn [chunks_loop]; [discriminate|].
  destruct (N.ltb_spec i (len raw)).
  - rewrite slice_from_ok by lia. cbn [bind].
    destruct (SChunk_unmarshal _) as [c| | |] eqn:EC; cbn [bind]; try discriminate.
    apply SChunk_unmarshal_ok in EC. rewrite len_skipn in EC.
    pose proof (SChunk_len_ge c) as [G1 G2].
    destruct (chunks_loop f raw (i + SChunk_len c)) as [cs1| | |] eqn:EL; cbn [bind]; try discriminate.
    intros E Hi. inversion E; subst. cbn [chunks_wire fold_right]. fold (chunks_wire cs1).
    destruct (N.le_gt_cases (i + SChunk_len c) (len raw)) as [L|L].
    + apply IH in EL; lia.
    + (* the padded chunk length overshoots: the loop stopped *)
      destruct f as [|f']; cbn [chunks_loop] in EL; [discriminate|].
      destruct (N.ltb_spec (i + SChunk_len c) (len raw)); [lia|].
      inversion EL; subst. cbn [chunks_wire fold_right]. lia.
  - intros E Hi. inversion E; subst. cbn [chunks_wire fold_right]. lia.
Qed.

Lemma SDES_unmarshal_total : forall b, SDES_unmarshal b <> Panic /\ SDES_unmarshal b <> Fuel.
Proof.
  intros b. unfold SDES_unmarshal.
  destruct (Header_unmarshal_total b) as [P1 P2].
  destruct (Header_unmarshal b) as [h| | |]; cbn [bind]; try not_panic; try contradiction.
  destruct (negb _); [not_panic|].
  destruct (chunks_loop_total (S (length b)) b c_headerLength) as [Q1 Q2]; [unfold len; lia|].
  destruct (chunks_loop (S (length b)) b c_headerLength) as [cs| | |]; cbn [bind]; try not_panic; try contradiction.
  destruct (negb _); not_panic.
Qed.

Lemma SDES_unmarshal_alloc_N b s : SDES_unmarshal b = Ok s ->
  4 + chunks_wire (sd_chunks s) <= len b.
Proof.
  unfold SDES_unmarshal.
  destruct (Header_unmarshal b) as [h| | |] eqn:EH; cbn [bind]; try discriminate.
  apply Header_unmarshal_ok in EH as (Hl & _).
  destruct (negb _); [discriminate|].
  destruct (chunks_loop (S (length b)) b c_headerLength) as [cs| | |] eqn:EL; cbn [bind]; try discriminate.
  apply chunks_loop_ok in EL; [|consts; lia]. consts.
  destruct (negb _); [discriminate|]. intros E. inversion E; subst s. cbn [sd_chunks]. exact EL.
Qed.

Lemma items_wire_text its : items_wire its = 2 * nlen its + items_text its.
Proof.
  induction its as [|it its IH]; [reflexivity|].
  cbn [items_wire items_text fold_right]. fold (items_wire its). fold (items_text its).
  rewrite nlen_cons. lia.
Qed.

Definition chunks_items (cs : list SChunk) : N := fold_right (fun c acc => nlen (ch_items c) + acc) 0 cs.
Lemma chunks_wire_text cs : chunks_wire cs = 5 * nlen cs + 2 * chunks_items cs + chunks_text cs.
Proof.
  induction cs as [|c cs IH]; [reflexivity|].
  cbn [chunks_wire chunks_text chunks_items fold_right].
  fold (chunks_wire cs). fold (chunks_text cs). fold (chunks_items cs).
  rewrite nlen_cons, items_wire_text. lia.
Qed.

(* number of chunks, number of items and total item text are all bounded by the input length *)
Lemma SDES_unmarshal_alloc b s : SDES_unmarshal b = Ok s ->
  4 + 5 * nlen (sd_chunks s) + 2 * chunks_items (sd_chunks s) + chunks_text (sd_chunks s) <= len b.
Proof. intros H. apply SDES_unmarshal_alloc_N in H. rewrite chunks_wire_text in H. lia. Qed.

Lemma SDES_unmarshal_alloc_nat b s : SDES_unmarshal b = Ok s ->
  (length (sd_chunks s) <= length b)%nat /\ (N.to_nat (chunks_text (sd_chunks s)) <= length b)%nat.
Proof. intros H. apply SDES_unmarshal_alloc in H. unfold nlen, len in H. lia. Qed.


(* ------------------------------------------------------------------ *)
(* goodbye.go *)

Lemma get_u32s_ok : forall k raw off, off + 4 * N.of_nat k <= len raw ->
  exists l, get_u32s k raw off = Ok l /\ length l = k.
Proof.
  induction k as [|k IH]; intros raw off H; cbn [get_u32s].
  - exists []. split; reflexivity.
  - rewrite get_be_at_ok by lia. cbn [bind].
    destruct (IH raw (off + 4)) as (l & E & Hl); [lia|].
    rewrite E. cbn [bind]. eexists. split; [reflexivity|]. cbn [length]. lia.
Qed.

Lemma BYE_reason_offset h : h_count h < 32 ->
  u8 (c_headerLength + u8 (h_count h * c_ssrcLength)) = 4 + 4 * h_count h.
Proof. intros H. unfold u8. consts. lia. Qed.

Lemma BYE_unmarshal_total : forall b, BYE_unmarshal b <> Panic /\ BYE_unmarshal b <> Fuel.
Proof.
  intros b. unfold BYE_unmarshal.
  destruct (Header_unmarshal_total b) as [P1 P2].
  destruct (Header_unmarshal b) as [h| | |] eqn:EH; cbn [bind]; try not_panic; try contradiction.
  apply Header_unmarshal_bounds in EH as (Hc & _ & _).
  destruct (negb _); [not_panic|].
  destruct (negb _); [not_panic|].
  rewrite (BYE_reason_offset h Hc). consts.
  destruct (N.ltb_spec (len b) (4 + 4 * h_count h)); [not_panic|].
  destruct (get_u32s_ok (N.to_nat (h_count h)) b 4) as (l & E & Hl); [lia|].
  rewrite E. cbn [bind].
  destruct (N.ltb_spec (4 + 4 * h_count h) (len b)); [|cbn [bind]; not_panic].
  reads_ok.
  match goal with |- context [if len b <? ?e then _ else _] => destruct (N.ltb_spec (len b) e) end; [not_panic|].
  rewrite slice_ok by lia. cbn [bind]. not_panic.
Qed.

Lemma BYE_unmarshal_alloc_N b g : BYE_unmarshal b = Ok g ->
  4 + 4 * nlen (bye_sources g) + len (bye_reason g) <= len b.
Proof.
  unfold BYE_unmarshal.
  destruct (Header_unmarshal b) as [h| | |] eqn:EH; cbn [bind]; try discriminate.
  apply Header_unmarshal_bounds in EH as (Hc & _ & _).
  destruct (negb _); [discriminate|].
  destruct (negb _); [discriminate|].
  rewrite (BYE_reason_offset h Hc). consts.
  destruct (N.ltb_spec (len b) (4 + 4 * h_count h)); [discriminate|].
  destruct (get_u32s_ok (N.to_nat (h_count h)) b 4) as (l & E & Hl); [lia|].
  rewrite E. cbn [bind].
  destruct (N.ltb_spec (4 + 4 * h_count h) (len b)).
  - reads_ok.
    match goal with |- context [if len b <? ?e then _ else _] => destruct (N.ltb_spec (len b) e) end; [discriminate|].
    rewrite slice_ok by lia. cbn [bind].
    set (rs := firstn _ _).
    assert (Hr : len rs <= len b - (4 + 4 * h_count h + 1)) by (unfold rs; rewrite len_firstn, len_skipn; lia).
    clearbody rs. intros [= <-]. cbn [bye_sources bye_reason]. unfold nlen. lia.
  - cbn [bind]. intros [= <-]. cbn [bye_sources bye_reason]. unfold nlen. rewrite len_nil. lia.
Qed.

Lemma BYE_unmarshal_alloc b g : BYE_unmarshal b = Ok g ->
  (4 * length (bye_sources g) + length (bye_reason g) <= length b)%nat.
Proof. intros H. apply BYE_unmarshal_alloc_N in H. unfold nlen, len in H. lia. Qed.

(* ------------------------------------------------------------------ *)
(* application_defined.go *)

Lemma APP_unmarshal_total : forall b, APP_unmarshal b <> Panic /\ APP_unmarshal b <> Fuel.
Proof.
  intros b. unfold APP_unmarshal.
  destruct (Header_unmarshal_total b) as [P1 P2].
  destruct (Header_unmarshal b) as [h| | |] eqn:EH; cbn [bind]; try not_panic; try contradiction.
  destruct (N.ltb_spec (len b) 12); [not_panic|].
  destruct (negb _); [not_panic|].
  destruct (negb _); [not_panic|].
  reads_ok. rewrite slice_ok by lia. cbn [bind].
  destruct (h_pad h).
  - reads_ok.
    match goal with |- context [if ?x <? ?e then _ else _] => destruct (N.ltb_spec x e) end; cbn [bind]; [not_panic|].
    rewrite slice_ok by lia. cbn [bind]. not_panic.
  - cbn [bind]. rewrite slice_ok by lia. cbn [bind]. not_panic.
Qed.

Lemma APP_unmarshal_alloc_N b a : APP_unmarshal b = Ok a ->
  12 + len (app_data a) <= len b /\ len (app_name a) = 4.
Proof.
  unfold APP_unmarshal.
  destruct (Header_unmarshal b) as [h| | |] eqn:EH; cbn [bind]; try discriminate.
  destruct (N.ltb_spec (len b) 12); [discriminate|].
  destruct (negb _); [discriminate|].
  destruct (negb _); [discriminate|].
  reads_ok. rewrite slice_ok by lia. cbn [bind].
  set (nm := firstn (N.to_nat (12 - 8)) _).
  assert (Hn : len nm = 4) by (unfold nm; rewrite len_firstn, len_skipn; lia). clearbody nm.
  destruct (h_pad h).
  - reads_ok.
    match goal with |- context [if ?x <? ?e then _ else _] => destruct (N.ltb_spec x e) end; cbn [bind]; [discriminate|].
    rewrite slice_ok by lia. cbn [bind].
    set (d := firstn (N.to_nat (len b - _ - 12)) _).
    assert (Hd : len d <= len b - 12) by (unfold d; rewrite len_firstn, len_skipn; lia). clearbody d.
    intros [= <-]. cbn [app_data app_name]. lia.
  - cbn [bind]. rewrite slice_ok by lia. cbn [bind].
    set (d := firstn (N.to_nat (len b - _ - 12)) _).
    assert (Hd : len d <= len b - 12) by (unfold d; rewrite len_firstn, len_skipn; lia). clearbody d.
    intros [= <-]. cbn [app_data app_name]. lia.
Qed.

Print Assumptions RRep_unmarshal_total.
Print Assumptions SR_unmarshal_total.
Print Assumptions SR_unmarshal_alloc.
Print Assumptions RR_unmarshal_total.
Print Assumptions RR_unmarshal_alloc.
Print Assumptions SItem_unmarshal_total.
Print Assumptions SChunk_unmarshal_total.
Print Assumptions SDES_unmarshal_total.
Print Assumptions SDES_unmarshal_alloc.
Print Assumptions SDES_unmarshal_alloc_nat.
Print Assumptions BYE_unmarshal_total.
Print Assumptions BYE_unmarshal_alloc.
Print Assumptions APP_unmarshal_total.
Print Assumptions APP_unmarshal_alloc_N.
