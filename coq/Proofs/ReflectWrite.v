(* Generic facts about the reflection WRITER of Lib/Reflect.v (packet_buffer.go: wireSize / write),
   for ALL type descriptors, values and room (no well-formedness hypothesis). *)
From RTCP Require Import Proofs.Tactics Lib.Reflect.
Local Open Scope N_scope.

(* ------------------------------------------------------------------------------------------------ *)
(* the inner loops of [write] / [wire_size], named                                                    *)
(* ------------------------------------------------------------------------------------------------ *)
Definition write_elems (e : ty) : list val -> N -> res (bytes * N) :=
  fix go (vs : list val) (room : N) {struct vs} : res (bytes * N) :=
  match vs with
  | [] => Ok ([], room)
  | x :: vs' =>
      let* (o1, r1) := write e x room in
      let* (o2, r2) := go vs' r1 in
      Ok (o1 ++ o2, r2)
  end.

Fixpoint write_fields (vs : list val) (fs : list field) (room : N) {struct vs} : res (bytes * N) :=
  match vs, fs with
  | x :: vs', Field _ ft om ex :: fs' =>
      if om then write_fields vs' fs' room else
      if ex then
        let* (o1, r1) := write ft x room in
        let* (o2, r2) := write_fields vs' fs' r1 in
        Ok (o1 ++ o2, r2)
      else
        let k := mem_size ft in
        if room <? k then Err else
        let* (o2, r2) := write_fields vs' fs' (room - k) in
        Ok (zeros k ++ o2, r2)
  | _, _ => Ok ([], room)
  end.

Fixpoint size_fields (vs : list val) (fs : list field) {struct vs} : N :=
  match vs, fs with
  | x :: vs', Field _ ft om ex :: fs' =>
      (if om then 0 else if ex then wire_size ft x else mem_size ft) + size_fields vs' fs'
  | _, _ => 0
  end.

Definition size_elems (e : ty) (vs : list val) : N := fold_right (fun x acc => wire_size e x + acc) 0 vs.

Lemma write_slice e vs room : write (TSlice e) (VSlice vs) room = write_elems e vs room.
Proof. reflexivity. Qed.
Lemma write_struct fs vs room : write (TStruct fs) (VStruct vs) room = write_fields vs fs room.
Proof. reflexivity. Qed.
Lemma wire_size_slice e vs : wire_size (TSlice e) (VSlice vs) = size_elems e vs.
Proof. reflexivity. Qed.
Lemma wire_size_struct fs vs : wire_size (TStruct fs) (VStruct vs) = size_fields vs fs.
Proof. reflexivity. Qed.
Lemma write_elems_nil e room : write_elems e [] room = Ok ([], room).
Proof. reflexivity. Qed.
Lemma write_elems_cons e x vs room : write_elems e (x :: vs) room =
  let* (o1, r1) := write e x room in let* (o2, r2) := write_elems e vs r1 in Ok (o1 ++ o2, r2).
Proof. reflexivity. Qed.
Lemma size_elems_cons e x vs : size_elems e (x :: vs) = wire_size e x + size_elems e vs.
Proof. reflexivity. Qed.

(* nested induction principle for [val] *)
Fixpoint val_ind' (P : val -> Prop) (HU : forall n, P (VU n))
  (HS : forall vs, Forall P vs -> P (VSlice vs)) (HT : forall vs, Forall P vs -> P (VStruct vs)) (v : val) : P v :=
  match v with
  | VU n => HU n
  | VSlice vs => HS vs ((fix go (l : list val) : Forall P l :=
                           match l with
                           | [] => Forall_nil P
                           | x :: l' => Forall_cons x (val_ind' P HU HS HT x) (go l')
                           end) vs)
  | VStruct vs => HT vs ((fix go (l : list val) : Forall P l :=
                            match l with
                            | [] => Forall_nil P
                            | x :: l' => Forall_cons x (val_ind' P HU HS HT x) (go l')
                            end) vs)
  end.

(* ------------------------------------------------------------------------------------------------ *)
(* the shape of a writer: either it fails for every room, or it produces fixed bytes [o] of length [s] *)
(* exactly when room >= s                                                                              *)
(* ------------------------------------------------------------------------------------------------ *)
Definition char (f : N -> res (bytes * N)) (s : N) : Prop :=
  (forall room, f room = Err) \/
  (exists o, len o = s /\ forall room, f room = if room <? s then Err else Ok (o, room - s)).

Lemma char_ext f g s : (forall r, f r = g r) -> char f s -> char g s.
Proof.
  intros E [H|[o [Hl H]]]; [left|right; exists o; split; [exact Hl|]]; intros room; rewrite <- E; apply H.
Qed.

Lemma char_nil : char (fun room => Ok ([], room)) 0.
Proof.
  right. exists []. split; [reflexivity|]. intros room.
  destruct (N.ltb_spec room 0) as [H|H]; [lia|]. rewrite N.sub_0_r. reflexivity.
Qed.

Lemma char_seq f g s1 s2 : char f s1 -> char g s2 ->
  char (fun room => let* (o1, r1) := f room in let* (o2, r2) := g r1 in Ok (o1 ++ o2, r2)) (s1 + s2).
Proof.
  intros [Hf|[o1 [L1 Hf]]] Hg.
  - left. intros room. rewrite Hf. reflexivity.
  - destruct Hg as [Hg|[o2 [L2 Hg]]].
    + left. intros room. rewrite Hf. destruct (room <? s1); cbn [bind]; [reflexivity|]. rewrite Hg. reflexivity.
    + right. exists (o1 ++ o2). split; [rewrite len_app; lia|]. intros room. rewrite Hf.
      destruct (N.ltb_spec room s1) as [A|A]; destruct (N.ltb_spec room (s1 + s2)) as [B|B]; try lia;
        cbn [bind]; try reflexivity.
      * rewrite Hg. destruct (N.ltb_spec (room - s1) s2) as [C|C]; try lia. reflexivity.
      * rewrite Hg. destruct (N.ltb_spec (room - s1) s2) as [C|C]; try lia. cbn [bind].
        replace (room - s1 - s2) with (room - (s1 + s2)) by lia. reflexivity.
Qed.

Lemma char_scalar k n : char (fun room => if room <? N.of_nat k then Err else Ok (be k n, room - N.of_nat k)) (N.of_nat k).
Proof. right. exists (be k n). split; [apply len_be|]. intros; reflexivity. Qed.

Lemma char_zeros k : char (fun room => if room <? k then Err else Ok (zeros k, room - k)) k.
Proof. right. exists (zeros k). split; [apply len_zeros|]. intros; reflexivity. Qed.

Lemma write_char_VU t n : char (write t (VU n)) (wire_size t (VU n)).
Proof.
  destruct t;
    first [ exact (char_scalar 1 n) | exact (char_scalar 2 n) | exact (char_scalar 4 n) | exact (char_scalar 8 n)
          | left; intros room; reflexivity ].
Qed.

Lemma write_char : forall v t, char (write t v) (wire_size t v).
Proof.
  induction v as [n|vs IH|vs IH] using val_ind'; intros t.
  - apply write_char_VU.
  - destruct t; try (left; intros room; reflexivity).
    induction IH as [|x l Hx Hl IHl].
    + exact char_nil.
    + apply (char_ext (fun room => let* (o1, r1) := write t x room in
                                   let* (o2, r2) := write (TSlice t) (VSlice l) r1 in Ok (o1 ++ o2, r2)));
        [intros room; reflexivity|].
      change (wire_size (TSlice t) (VSlice (x :: l))) with (wire_size t x + wire_size (TSlice t) (VSlice l)).
      apply (char_seq (write t x) (write (TSlice t) (VSlice l))); [apply Hx|apply IHl].
  - destruct t; try (left; intros room; reflexivity).
    revert fs. induction IH as [|x l Hx Hl IHl]; intros fs.
    + exact char_nil.
    + destruct fs as [|[nm ft om ex] fs']; [exact char_nil|].
      destruct om; [|destruct ex].
      * apply (char_ext (write (TStruct fs') (VStruct l))); [intros room; reflexivity|].
        change (wire_size (TStruct (Field nm ft true ex :: fs')) (VStruct (x :: l)))
          with (0 + wire_size (TStruct fs') (VStruct l)).
        rewrite N.add_0_l. apply IHl.
      * apply (char_ext (fun room => let* (o1, r1) := write ft x room in
                                     let* (o2, r2) := write (TStruct fs') (VStruct l) r1 in Ok (o1 ++ o2, r2)));
          [intros room; reflexivity|].
        change (wire_size (TStruct (Field nm ft false true :: fs')) (VStruct (x :: l)))
          with (wire_size ft x + wire_size (TStruct fs') (VStruct l)).
        apply (char_seq (write ft x) (write (TStruct fs') (VStruct l))); [apply Hx|apply IHl].
      * apply (char_ext (fun room => let* (o1, r1) := (fun room => if room <? mem_size ft then Err
                                                                   else Ok (zeros (mem_size ft), room - mem_size ft)) room in
                                     let* (o2, r2) := write (TStruct fs') (VStruct l) r1 in Ok (o1 ++ o2, r2))).
        { intros room. change (write (TStruct (Field nm ft false false :: fs')) (VStruct (x :: l)) room)
            with (if room <? mem_size ft then Err else
                  let* (o2, r2) := write (TStruct fs') (VStruct l) (room - mem_size ft) in
                  Ok (zeros (mem_size ft) ++ o2, r2)).
          cbv beta. destruct (room <? mem_size ft); reflexivity. }
        change (wire_size (TStruct (Field nm ft false false :: fs')) (VStruct (x :: l)))
          with (mem_size ft + wire_size (TStruct fs') (VStruct l)).
        apply (char_seq _ (write (TStruct fs') (VStruct l))); [apply char_zeros|apply IHl].
Qed.

(* the case analysis every fact below is read off from *)
Lemma write_cases t v :
  (forall room, write t v room = Err) \/
  (exists o, len o = wire_size t v /\
             forall room, write t v room = if room <? wire_size t v then Err else Ok (o, room - wire_size t v)).
Proof. exact (write_char v t). Qed.

(* ------------------------------------------------------------------------------------------------ *)
(* 1. bytes produced = wire_size, room consumed = bytes produced                                       *)
Theorem write_len : forall t v room o r, write t v room = Ok (o, r) -> len o = wire_size t v /\ room = r + len o.
Proof.
  intros t v room o r H. destruct (write_cases t v) as [E|[o' [L E]]]; rewrite E in H; [discriminate|].
  destruct (N.ltb_spec room (wire_size t v)) as [A|A]; [discriminate|].
  inversion H; subst o r. rewrite L. split; [reflexivity|lia].
Qed.

(* 2. the writer never panics and has no fuel *)
Theorem write_never_panics : forall t v room, write t v room <> Panic /\ write t v room <> Fuel.
Proof.
  intros t v room. destruct (write_cases t v) as [E|[o' [L E]]]; rewrite E.
  - not_panic.
  - destruct (room <? wire_size t v); not_panic.
Qed.

(* 3. spare room is handed through unchanged *)
Theorem write_more_room : forall t v room o r extra,
  write t v room = Ok (o, r) -> write t v (room + extra) = Ok (o, r + extra).
Proof.
  intros t v room o r extra H. destruct (write_cases t v) as [E|[o' [L E]]]; rewrite E in H; [discriminate|].
  rewrite E. destruct (N.ltb_spec room (wire_size t v)) as [A|A]; [discriminate|].
  inversion H; subst o r. destruct (N.ltb_spec (room + extra) (wire_size t v)) as [B|B]; [lia|].
  replace (room + extra - wire_size t v) with (room - wire_size t v + extra) by lia. reflexivity.
Qed.

(* converse of 3: room that was left over can be taken away *)
Theorem write_less_room : forall t v room o r d,
  write t v room = Ok (o, r) -> d <= r -> write t v (room - d) = Ok (o, r - d).
Proof.
  intros t v room o r d H Hd. destruct (write_cases t v) as [E|[o' [L E]]]; rewrite E in H; [discriminate|].
  rewrite E. destruct (N.ltb_spec room (wire_size t v)) as [A|A]; [discriminate|].
  inversion H; subst o r. destruct (N.ltb_spec (room - d) (wire_size t v)) as [B|B]; [lia|].
  replace (room - d - wire_size t v) with (room - wire_size t v - d) by lia. reflexivity.
Qed.

Corollary write_less_room' : forall t v k o r, write t v (r + k) = Ok (o, r) -> write t v k = Ok (o, 0).
Proof.
  intros t v k o r H. pose proof (write_less_room t v (r + k) o r r H (N.le_refl r)) as H'.
  replace (r + k - r) with k in H' by lia. replace (r - r) with 0 in H' by lia. exact H'.
Qed.

(* 4. a successful write succeeds with exactly wire_size octets of room *)
Theorem write_exact : forall t v room o r, write t v room = Ok (o, r) -> write t v (wire_size t v) = Ok (o, 0).
Proof.
  intros t v room o r H. destruct (write_len t v room o r H) as [L R].
  apply (write_less_room' t v (wire_size t v) o r). rewrite <- L, <- R. exact H.
Qed.

(* 5. too little room is always an error (never a panic, never a short write) *)
Theorem write_short_room : forall t v room, room < wire_size t v -> write t v room = Err.
Proof.
  intros t v room H. destruct (write_cases t v) as [E|[o' [L E]]]; rewrite E; [reflexivity|].
  destruct (N.ltb_spec room (wire_size t v)) as [A|A]; [reflexivity|lia].
Qed.

(* 6. success and the bytes do not depend on how much spare room there is *)
Theorem write_room_only : forall t v r1 r2, wire_size t v <= r1 -> wire_size t v <= r2 ->
  (exists o x, write t v r1 = Ok (o, x)) ->
  exists o, write t v r1 = Ok (o, r1 - wire_size t v) /\ write t v r2 = Ok (o, r2 - wire_size t v).
Proof.
  intros t v r1 r2 H1 H2 [o [x H]]. destruct (write_cases t v) as [E|[o' [L E]]]; [rewrite E in H; discriminate|].
  exists o'. rewrite !E.
  destruct (N.ltb_spec r1 (wire_size t v)) as [A|A]; [lia|].
  destruct (N.ltb_spec r2 (wire_size t v)) as [B|B]; [lia|]. split; reflexivity.
Qed.

(* the complete description: a value either cannot be written at all, or it is written iff room >= wire_size *)
Theorem write_total_description : forall t v,
  (forall room, write t v room = Err) \/
  (exists o, len o = wire_size t v /\
             (forall room, room < wire_size t v -> write t v room = Err) /\
             (forall room, wire_size t v <= room -> write t v room = Ok (o, room - wire_size t v))).
Proof.
  intros t v. destruct (write_cases t v) as [E|[o [L E]]]; [left; exact E|right].
  exists o. split; [exact L|]. split; intros room H; rewrite E;
    destruct (N.ltb_spec room (wire_size t v)) as [A|A]; try reflexivity; lia.
Qed.

Print Assumptions write_len.
Print Assumptions write_never_panics.
Print Assumptions write_more_room.
Print Assumptions write_less_room.
Print Assumptions write_less_room'.
Print Assumptions write_exact.
Print Assumptions write_short_room.
Print Assumptions write_room_only.
Print Assumptions write_total_description.
Print Assumptions write_cases.
