(* C16: fixed-width units (util.go helpers, TWCC chunk words, RecvDelta, CCFB metric block) by complete
   enumeration (bound stated in each lemma) or by a general bit-field proof;
   C08: encoder limits (in_limits p = false -> Marshal fails). *)
From RTCP Require Import Proofs.Tactics Proofs.HeaderProofs.
From RTCP Require Import Lib.Reflect Model.Header Model.Reports Model.Sdes Model.ByeApp Model.Feedback Model.Twcc Model.Ccfb
  Model.Remb Model.Xr Model.Packet Spec.Enc Spec.Laws.
Local Open Scope N_scope.

(* ---------------------------------------------------------------------------------------------- *)
(* enumeration support                                                                            *)
(* ---------------------------------------------------------------------------------------------- *)
Fixpoint urange (k : nat) (from : N) : list N :=
  match k with O => [] | S k' => from :: urange k' (from + 1) end.
Lemma In_urange k : forall from x, from <= x < from + N.of_nat k -> In x (urange k from).
Proof.
  induction k as [|k IH]; intros from x H; [lia|]. cbn [urange In].
  destruct (N.eq_dec from x) as [->|Hne]; [left; reflexivity|right; apply IH; lia].
Qed.
Lemma forallb_urange (f : N -> bool) n from x :
  forallb f (urange (N.to_nat n) from) = true -> from <= x < from + n -> f x = true.
Proof. intros H Hx. rewrite forallb_forall in H. apply H. apply In_urange. rewrite N2Nat.id. exact Hx. Qed.

Lemma list_eqb_eq a : forall b, list_eqb a b = true -> a = b.
Proof.
  induction a as [|x a IH]; intros [|y b] H; cbn [list_eqb] in H; try discriminate; [reflexivity|].
  apply andb_true_iff in H as [H1 H2]. apply N.eqb_eq in H1. subst. f_equal. auto.
Qed.

Definition res_bytes_is (r : res bytes) (b : bytes) : bool :=
  match r with Ok x => bytes_eqb x b | _ => false end.
Lemma res_bytes_is_eq r b : res_bytes_is r b = true -> r = Ok b.
Proof. destruct r; cbn [res_bytes_is]; try discriminate. intros H. apply bytes_eqb_eq in H. subst. reflexivity. Qed.

(* ---------------------------------------------------------------------------------------------- *)
(* util.go                                                                                        *)
(* ---------------------------------------------------------------------------------------------- *)

(* getNBitsFromByte: all 256 octets x all (begin, n) with begin + n <= 8, n >= 1 *)
Definition getn_ok (b : N) : bool :=
  forallb (fun bg => forallb (fun n =>
    if bg + n <=? 8 then getNBitsFromByte b bg n =? (b / 2 ^ (8 - bg - n)) mod 2 ^ n else true) (urange (N.to_nat 8) 1)) (urange (N.to_nat 8) 0).
Lemma getn_ok_all : forallb getn_ok (urange (N.to_nat 256) 0) = true.
Proof. vm_compute. reflexivity. Qed.

Lemma getNBitsFromByte_spec b bg n : b < 256 -> 1 <= n -> bg + n <= 8 ->
  getNBitsFromByte b bg n = (b / 2 ^ (8 - bg - n)) mod 2 ^ n.
Proof.
  intros Hb Hn Hs. pose proof (forallb_urange _ _ _ b getn_ok_all) as H.
  specialize (H ltac:(lia)). unfold getn_ok in H.
  pose proof (forallb_urange _ _ _ bg H ltac:(lia)) as H1. cbv beta in H1.
  pose proof (forallb_urange _ _ _ n H1 ltac:(lia)) as H2. cbv beta in H2.
  destruct (N.leb_spec (bg + n) 8); [|lia]. apply N.eqb_eq in H2. exact H2.
Qed.

(* setNBitsOfUint16: general bit-field statement *)
Lemma mask16_ones size : size <= 16 -> sub16 (shl 16 1 size) 1 = N.ones size.
Proof.
  intros H.
  assert (E : forallb (fun s => sub16 (shl 16 1 s) 1 =? N.ones s) (urange (N.to_nat 17) 0) = true) by (vm_compute; reflexivity).
  apply N.eqb_eq. apply (forallb_urange _ _ _ size E). lia.
Qed.

Lemma setNBitsOfUint16_err src size start val : 16 < start + size -> start + size < 65536 ->
  setNBitsOfUint16 src size start val = Err.
Proof.
  intros H H'. unfold setNBitsOfUint16, u16. rewrite N.mod_small by lia.
  destruct (N.ltb_spec 16 (start + size)); [reflexivity|lia].
Qed.

Lemma setNBitsOfUint16_spec src size start val : start + size <= 16 ->
  setNBitsOfUint16 src size start val = Ok (N.lor src ((val mod 2 ^ size) * 2 ^ (16 - size - start))).
Proof.
  intros H. unfold setNBitsOfUint16, u16. rewrite N.mod_small by lia.
  destruct (N.ltb_spec 16 (start + size)); [lia|].
  rewrite mask16_ones by lia. rewrite N.land_ones.
  assert (E : sub16 (sub16 16 size) start = 16 - size - start) by (unfold sub16; lia).
  rewrite E. f_equal. f_equal. unfold shl.
  destruct (N.leb_spec 16 (16 - size - start)) as [A|A].
  - assert (size = 0) by lia. subst size. change (2 ^ 0) with 1. rewrite N.mod_1_r. reflexivity.
  - apply N.mod_small.
    assert (Hv : val mod 2 ^ size < 2 ^ size) by (apply N.mod_lt; apply N.pow_nonzero; lia).
    assert (P1 : 0 < 2 ^ (16 - size - start)) by (apply N.neq_0_lt_0; apply N.pow_nonzero; lia).
    apply N.lt_le_trans with (2 ^ size * 2 ^ (16 - size - start)).
    + apply N.mul_lt_mono_pos_r; [exact P1|exact Hv].
    + rewrite <- N.pow_add_r. apply N.pow_le_mono_r; lia.
Qed.

(* get24BitsFromBytes *)
Lemma get24BitsFromBytes_spec a b c rest : get24BitsFromBytes (a :: b :: c :: rest) = Ok (unbe [a; b; c]).
Proof.
  unfold get24BitsFromBytes. rewrite !idx_ok by (rewrite !len_cons; lia). cbn [bind].
  change (N.to_nat 0) with 0%nat. change (N.to_nat 1) with 1%nat. change (N.to_nat 2) with 2%nat. cbn [nth].
  unfold unbe. cbn [fold_left]. unfold u32. f_equal.
  pose proof (b2n_lt a). pose proof (b2n_lt b). pose proof (b2n_lt c). lia.
Qed.
Lemma get24BitsFromBytes_be x rest : x < 16777216 -> get24BitsFromBytes (be 3 x ++ rest) = Ok x.
Proof.
  intros H. cbn [be app]. rewrite get24BitsFromBytes_spec. f_equal.
  change [n2b (x / 256 / 256); n2b (x / 256); n2b x] with (be 3 x). apply unbe_be. cbn. exact H.
Qed.
Lemma get24BitsFromBytes_short b : len b < 3 -> get24BitsFromBytes b = Panic.
Proof.
  intros H. unfold get24BitsFromBytes, idx.
  destruct (N.leb_spec (len b) 0); [reflexivity|]. cbn [bind].
  destruct (N.leb_spec (len b) 1); [reflexivity|]. cbn [bind].
  destruct (N.leb_spec (len b) 2); [reflexivity|lia].
Qed.
Lemma get24BitsFromBytes_lt b x : get24BitsFromBytes b = Ok x -> x < 16777216.
Proof.
  destruct b as [|a [|b' [|c rest]]]; try (rewrite get24BitsFromBytes_short by (rewrite ?len_cons, ?len_nil; lia); discriminate).
  rewrite get24BitsFromBytes_spec. intros E. injection E as <-.
  apply (unbe_lt [a; b'; c]).
Qed.

(* ---------------------------------------------------------------------------------------------- *)
(* TWCC run-length chunk: all 2^15 words with bit 15 clear                                         *)
(* ---------------------------------------------------------------------------------------------- *)
Definition rlc_word_ok (w : N) : bool :=
  match RLC_unmarshal (be 2 w) with
  | Ok (RLC t s r) => (t =? 0) && (s =? w / 8192) && (r =? w mod 8192) && res_bytes_is (TChunk_marshal (RLC t s r)) (be 2 w)
  | _ => false
  end.
Lemma rlc_word_ok_all : forallb rlc_word_ok (urange (N.to_nat 32768) 0) = true.
Proof. vm_compute. reflexivity. Qed.

Lemma RLC_word w : w < 32768 ->
  RLC_unmarshal (be 2 w) = Ok (RLC 0 (w / 8192) (w mod 8192)) /\
  TChunk_marshal (RLC 0 (w / 8192) (w mod 8192)) = Ok (be 2 w).
Proof.
  intros Hw. pose proof (forallb_urange _ _ _ w rlc_word_ok_all ltac:(lia)) as H. unfold rlc_word_ok in H.
  destruct (RLC_unmarshal (be 2 w)) as [[t s r|]| | |]; try discriminate.
  apply andb_true_iff in H as [H H4]. apply andb_true_iff in H as [H H3]. apply andb_true_iff in H as [H1 H2].
  apply N.eqb_eq in H1, H2, H3. subst. split; [reflexivity|]. apply res_bytes_is_eq. exact H4.
Qed.

(* the statement of the brief: decode, RFC word, re-encode *)
Lemma RLC_word_roundtrip w : w < 32768 ->
  exists c, RLC_unmarshal (be 2 w) = Ok c /\ chunk_ok c = true /\ chunk_word c = w /\ TChunk_marshal c = Ok (be 2 w).
Proof.
  intros Hw. destruct (RLC_word w Hw) as [H1 H2]. eexists. split; [exact H1|]. split; [|split; [|exact H2]].
  - unfold chunk_ok, fits. change (2 ^ 2) with 4. change (2 ^ 13) with 8192.
    destruct (N.ltb_spec (w / 8192) 4); [|lia]. destruct (N.ltb_spec (w mod 8192) 8192); [|lia]. reflexivity.
  - unfold chunk_word. lia.
Qed.

(* the converse: every (symbol, run length) in range *)
Lemma RLC_value_roundtrip t sym run : sym < 4 -> run < 8192 ->
  TChunk_marshal (RLC t sym run) = Ok (be 2 (chunk_word (RLC t sym run))) /\
  RLC_unmarshal (be 2 (chunk_word (RLC t sym run))) = Ok (RLC 0 sym run).
Proof.
  intros Hs Hr. unfold chunk_word. destruct (RLC_word (sym * 8192 + run) ltac:(lia)) as [H1 H2].
  replace ((sym * 8192 + run) / 8192) with sym in * by lia.
  replace ((sym * 8192 + run) mod 8192) with run in * by lia.
  split; [exact H2|exact H1].
Qed.

(* out-of-range fields are masked, never rejected (general bit-field form) *)
Lemma RLC_marshal_spec sym run : RLC_marshal sym run = Ok (be 2 ((sym mod 4) * 8192 + run mod 8192)).
Proof.
  unfold RLC_marshal. do 3 (rewrite setNBitsOfUint16_spec by lia; cbn [bind]). f_equal. f_equal.
  change (2 ^ 1) with 2. change (2 ^ 2) with 4. change (2 ^ 13) with 8192.
  change (16 - 1 - 0) with 15. change (16 - 2 - 1) with 13. change (16 - 13 - 3) with 0.
  change (2 ^ 15) with 32768. change (2 ^ 0) with 1.
  change (0 mod 2 * 32768) with 0. rewrite !N.lor_0_l, N.mul_1_r.
  apply (lor_disjoint_add _ _ 13); change (2 ^ 13) with 8192; lia.
Qed.

(* ---------------------------------------------------------------------------------------------- *)
(* TWCC status-vector chunk: all 2^15 words with bit 15 set                                        *)
(* ---------------------------------------------------------------------------------------------- *)
Definition svc_word_ok (w : N) : bool :=
  match SVC_unmarshal (be 2 w) with
  | Ok c => chunk_ok c && (chunk_word c =? w) && res_bytes_is (TChunk_marshal c) (be 2 w)
  | _ => false
  end.
Lemma svc_word_ok_all : forallb svc_word_ok (urange (N.to_nat 32768) 32768) = true.
Proof. vm_compute. reflexivity. Qed.

Lemma SVC_word_roundtrip w : 32768 <= w < 65536 ->
  exists c, SVC_unmarshal (be 2 w) = Ok c /\ chunk_ok c = true /\ chunk_word c = w /\ TChunk_marshal c = Ok (be 2 w).
Proof.
  intros Hw. pose proof (forallb_urange _ _ _ w svc_word_ok_all ltac:(lia)) as H. unfold svc_word_ok in H.
  destruct (SVC_unmarshal (be 2 w)) as [c| | |]; try discriminate.
  apply andb_true_iff in H as [H H3]. apply andb_true_iff in H as [H1 H2]. apply N.eqb_eq in H2.
  exists c. repeat split; auto. apply res_bytes_is_eq. exact H3.
Qed.

(* the converse: every well-formed vector chunk *)
(* base-B digit strings of equal length with digits below B are determined by their value *)
Lemma digits_inj B : forall l1 l2 a1 a2, length l1 = length l2 ->
  forallb (fun s => s <? B) l1 = true -> forallb (fun s => s <? B) l2 = true ->
  fold_left (fun acc s => acc * B + s) l1 a1 = fold_left (fun acc s => acc * B + s) l2 a2 ->
  a1 = a2 /\ l1 = l2.
Proof.
  induction l1 as [|x l1 IH]; intros [|y l2] a1 a2 HL H1 H2 E; cbn [length] in HL; try discriminate.
  - cbn [fold_left] in E. auto.
  - cbn [fold_left] in E. cbn [forallb] in H1, H2.
    apply andb_true_iff in H1 as [Hx H1]. apply andb_true_iff in H2 as [Hy H2].
    apply N.ltb_lt in Hx, Hy.
    destruct (IH l2 (a1 * B + x) (a2 * B + y) ltac:(lia) H1 H2 E) as [Ea El]. subst l2.
    assert (a1 = a2 /\ x = y) as [-> ->]; [|auto].
    clear - Ea Hx Hy.
    assert (D1 : (a1 * B + x) / B = a1) by (rewrite N.div_add_l by lia; rewrite N.div_small by lia; lia).
    assert (D2 : (a2 * B + y) / B = a2) by (rewrite N.div_add_l by lia; rewrite N.div_small by lia; lia).
    rewrite Ea in D1. rewrite D1 in D2. subst a2. split; [reflexivity|lia].
Qed.

Lemma SVC_value_roundtrip c : chunk_ok c = true -> (match c with SVC _ _ _ => True | _ => False end) ->
  TChunk_marshal c = Ok (be 2 (chunk_word c)) /\ SVC_unmarshal (be 2 (chunk_word c)) = Ok c.
Proof.
  intros Hc Hs. destruct c as [|t ss l]; [contradiction|]. clear Hs.
  assert (Hw : 32768 <= chunk_word (SVC t ss l) < 65536 /\ (ss = 0 -> chunk_word (SVC t ss l) < 49152)
               /\ (ss <> 0 -> 49152 <= chunk_word (SVC t ss l))).
  { unfold chunk_ok in Hc. apply andb_true_iff in Hc as [_ Hc]. unfold chunk_word.
    destruct (N.eqb_spec ss 0) as [->|Hss].
    - apply andb_true_iff in Hc as [Hn Hc]. apply N.eqb_eq in Hn. unfold nl in Hn.
      do 15 (destruct l as [|? l]; [cbn [length] in Hn; try lia|]); [|cbn [length] in Hn; lia].
      cbn [forallb] in Hc. unfold fits in Hc. change (2 ^ 1) with 2 in Hc.
      repeat (apply andb_true_iff in Hc as [?H Hc]). repeat match goal with H : (_ <? _) = true |- _ => apply N.ltb_lt in H end.
      cbn [fold_left]. lia.
    - apply andb_true_iff in Hc as [Hc Hf]. apply andb_true_iff in Hc as [Hs1 Hn]. apply N.eqb_eq in Hn. unfold nl in Hn.
      do 8 (destruct l as [|? l]; [cbn [length] in Hn; try lia|]); [|cbn [length] in Hn; lia].
      cbn [forallb] in Hf. unfold fits in Hf. change (2 ^ 2) with 4 in Hf.
      repeat (apply andb_true_iff in Hf as [?H Hf]). repeat match goal with H : (_ <? _) = true |- _ => apply N.ltb_lt in H end.
      cbn [fold_left]. lia. }
  destruct Hw as (Hr & Hlo & Hhi).
  destruct (SVC_word_roundtrip _ Hr) as (c' & Hu & Hok & Hcw & Hm).
  assert (E : c' = SVC t ss l); [|subst c'; auto].
  destruct c' as [|t' ss' l'].
  { exfalso. unfold chunk_word at 1 in Hcw. unfold chunk_ok, fits in Hok. change (2 ^ 2) with 4 in Hok. change (2 ^ 13) with 8192 in Hok.
    repeat (apply andb_true_iff in Hok as [Hok ?H]). repeat match goal with H : (_ <? _) = true |- _ => apply N.ltb_lt in H end. lia. }
  unfold chunk_ok in Hok, Hc.
  apply andb_true_iff in Hok as [Ht' Hok]. apply andb_true_iff in Hc as [Ht Hc]. apply N.eqb_eq in Ht, Ht'. subst t t'.
  destruct (N.eqb_spec ss 0) as [->|Hss].
  - specialize (Hlo eq_refl).
    destruct (N.eqb_spec ss' 0) as [->|Hss'].
    + apply andb_true_iff in Hok as [Hn' Hf']. apply andb_true_iff in Hc as [Hn Hf]. apply N.eqb_eq in Hn, Hn'.
      unfold chunk_word in Hcw. cbn [N.eqb] in Hcw.
      assert (E : fold_left (fun acc s => acc * 2 + s) l' 0 = fold_left (fun acc s => acc * 2 + s) l 0) by lia.
      unfold fits in Hf, Hf'. change (2 ^ 1) with 2 in Hf, Hf'.
      apply digits_inj in E; auto; [|unfold nl in *; lia]. destruct E as [_ ->]. reflexivity.
    + exfalso. apply andb_true_iff in Hok as [Hok _]. apply andb_true_iff in Hok as [Hs1 _]. apply N.eqb_eq in Hs1. subst ss'.
      unfold chunk_word at 1 in Hcw. cbn [N.eqb Pos.eqb] in Hcw. lia.
  - specialize (Hhi Hss).
    apply andb_true_iff in Hc as [Hc Hf]. apply andb_true_iff in Hc as [Hs1 Hn]. apply N.eqb_eq in Hs1, Hn. subst ss.
    destruct (N.eqb_spec ss' 0) as [->|Hss'].
    + exfalso. apply andb_true_iff in Hok as [Hn' Hf']. apply N.eqb_eq in Hn'.
      assert (Hb : chunk_word (SVC 1 0 l') < 49152).
      { clear - Hn' Hf'. unfold chunk_word. cbn [N.eqb]. unfold nl in Hn'.
        do 15 (destruct l' as [|? l']; [cbn [length] in Hn'; try lia|]); [|cbn [length] in Hn'; lia].
        cbn [forallb] in Hf'. unfold fits in Hf'. change (2 ^ 1) with 2 in Hf'.
        repeat (apply andb_true_iff in Hf' as [?H Hf']). repeat match goal with H : (_ <? _) = true |- _ => apply N.ltb_lt in H end.
        cbn [fold_left]. lia. }
      lia.
    + apply andb_true_iff in Hok as [Hok Hf']. apply andb_true_iff in Hok as [Hs1 Hn']. apply N.eqb_eq in Hs1, Hn'. subst ss'.
      unfold chunk_word in Hcw. cbn [N.eqb Pos.eqb] in Hcw.
      assert (E : fold_left (fun acc s => acc * 4 + s) l' 0 = fold_left (fun acc s => acc * 4 + s) l 0) by lia.
      unfold fits in Hf, Hf'. change (2 ^ 2) with 4 in Hf, Hf'.
      apply digits_inj in E; auto; [|unfold nl in *; lia]. destruct E as [_ ->]. reflexivity.
Qed.

(* ---------------------------------------------------------------------------------------------- *)
(* RecvDelta: all 256 one-octet and all 65536 two-octet encodings                                  *)
(* ---------------------------------------------------------------------------------------------- *)
Definition rd_is (r : res RecvDelta) (t : N) (d : Z) : bool :=
  match r with Ok x => (rd_type x =? t) && (rd_delta x =? d)%Z | _ => false end.
Lemma rd_is_eq r t d : rd_is r t d = true -> r = Ok (mkRecvDelta t d).
Proof.
  destruct r as [[t' d']| | |]; cbn [rd_is rd_type rd_delta]; try discriminate. intros H.
  apply andb_true_iff in H as [H1 H2]. apply N.eqb_eq in H1. apply Z.eqb_eq in H2. subst. reflexivity.
Qed.

Definition rd_small_ok (v : N) : bool :=
  rd_is (RecvDelta_unmarshal [n2b v]) 1 (250 * Z.of_N v) &&
  res_bytes_is (RecvDelta_marshal (mkRecvDelta 1 (250 * Z.of_N v))) [n2b v].
Lemma rd_small_ok_all : forallb rd_small_ok (urange (N.to_nat 256) 0) = true.
Proof. vm_compute. reflexivity. Qed.
Definition rd_large_ok (w : N) : bool :=
  rd_is (RecvDelta_unmarshal (be 2 w)) 2 (250 * int16_of w) &&
  res_bytes_is (RecvDelta_marshal (mkRecvDelta 2 (250 * int16_of w))) (be 2 w).
Lemma rd_large_ok_all : forallb rd_large_ok (urange (N.to_nat 65536) 0) = true.
Proof. vm_compute. reflexivity. Qed.

Lemma RecvDelta_small v : v < 256 ->
  RecvDelta_unmarshal [n2b v] = Ok (mkRecvDelta 1 (250 * Z.of_N v)) /\
  RecvDelta_marshal (mkRecvDelta 1 (250 * Z.of_N v)) = Ok [n2b v].
Proof.
  intros Hv. pose proof (forallb_urange _ _ _ v rd_small_ok_all ltac:(lia)) as H. unfold rd_small_ok in H.
  apply andb_true_iff in H as [H1 H2]. split; [apply rd_is_eq; exact H1|apply res_bytes_is_eq; exact H2].
Qed.
Lemma RecvDelta_large w : w < 65536 ->
  RecvDelta_unmarshal (be 2 w) = Ok (mkRecvDelta 2 (250 * int16_of w)) /\
  RecvDelta_marshal (mkRecvDelta 2 (250 * int16_of w)) = Ok (be 2 w).
Proof.
  intros Hv. pose proof (forallb_urange _ _ _ w rd_large_ok_all ltac:(lia)) as H. unfold rd_large_ok in H.
  apply andb_true_iff in H as [H1 H2]. split; [apply rd_is_eq; exact H1|apply res_bytes_is_eq; exact H2].
Qed.

(* over octets: unmarshal then marshal is the identity on every 1- and 2-octet input *)
Lemma RecvDelta_roundtrip_1 (b : byte) :
  exists d, RecvDelta_unmarshal [b] = Ok d /\ delta_ok d = true /\ RecvDelta_marshal d = Ok [b].
Proof.
  destruct (RecvDelta_small (b2n b) (b2n_lt b)) as [H1 H2]. rewrite n2b_b2n in *.
  eexists. split; [exact H1|]. split; [|exact H2].
  pose proof (b2n_lt b). unfold delta_ok. cbn [rd_type rd_delta N.eqb Pos.eqb].
  rewrite Z.mul_comm, Z.mod_mul, Z.div_mul by lia. cbn [Z.eqb andb].
  destruct (Z.leb_spec 0 (Z.of_N (b2n b))); [|lia]. destruct (Z.leb_spec (Z.of_N (b2n b)) 255); [|lia]. reflexivity.
Qed.
Lemma int16_of_range w : w < 65536 -> (-32768 <= int16_of w <= 32767)%Z.
Proof. intros. unfold int16_of. destruct (N.ltb_spec w 32768); lia. Qed.
Lemma RecvDelta_roundtrip_2 (b0 b1 : byte) :
  exists d, RecvDelta_unmarshal [b0; b1] = Ok d /\ delta_ok d = true /\ RecvDelta_marshal d = Ok [b0; b1].
Proof.
  pose proof (unbe_lt [b0; b1]) as Hlt. cbn [length] in Hlt. change (256 ^ N.of_nat 2) with 65536 in Hlt.
  destruct (RecvDelta_large _ Hlt) as [H1 H2].
  pose proof (be_unbe [b0; b1]) as E. cbn [length] in E. rewrite E in *.
  eexists. split; [exact H1|]. split; [|exact H2].
  pose proof (int16_of_range _ Hlt). unfold delta_ok. cbn [rd_type rd_delta N.eqb Pos.eqb].
  rewrite Z.mul_comm, Z.mod_mul, Z.div_mul by lia. cbn [Z.eqb andb].
  destruct (Z.leb_spec (-32768) (int16_of (unbe [b0; b1]))); [|lia].
  destruct (Z.leb_spec (int16_of (unbe [b0; b1])) 32767); [|lia]. reflexivity.
Qed.

(* the converse: marshal then unmarshal, for every in-range multiple of 250 *)
Lemma RecvDelta_value_roundtrip d : delta_ok d = true ->
  RecvDelta_marshal d = Ok (enc_delta d) /\ RecvDelta_unmarshal (enc_delta d) = Ok d.
Proof.
  destruct d as [t dl]. unfold delta_ok, enc_delta. cbn [rd_type rd_delta]. intros H.
  apply andb_true_iff in H as [Hm H]. apply Z.eqb_eq in Hm.
  assert (Hd : dl = (250 * (dl / 250))%Z) by (pose proof (Z.div_mod dl 250); lia).
  destruct (N.eqb_spec t 1) as [->|Ht].
  - apply andb_true_iff in H as [Ha Hb]. apply Z.leb_le in Ha, Hb.
    destruct (RecvDelta_small (Z.to_N (dl / 250)) ltac:(lia)) as [H1 H2].
    rewrite Z2N.id in H1, H2 by lia. rewrite <- Hd in H1, H2.
    change (be 1 (Z.to_N (dl / 250))) with [n2b (Z.to_N (dl / 250))]. auto.
  - apply andb_true_iff in H as [H Hb]. apply andb_true_iff in H as [Ht2 Ha]. apply N.eqb_eq in Ht2. subst t.
    apply Z.leb_le in Ha, Hb.
    assert (Hw : Z.to_N ((dl / 250) mod 65536) < 65536) by lia.
    destruct (RecvDelta_large _ Hw) as [H1 H2].
    assert (Ei : int16_of (Z.to_N ((dl / 250) mod 65536)) = (dl / 250)%Z).
    { unfold int16_of. destruct (N.ltb_spec (Z.to_N ((dl / 250) mod 65536)) 32768); lia. }
    rewrite Ei in H1, H2. rewrite <- Hd in H1, H2. auto.
Qed.

(* other lengths are rejected *)
Lemma RecvDelta_unmarshal_badlen raw : len raw <> 1 -> len raw <> 2 -> RecvDelta_unmarshal raw = Err.
Proof.
  intros H1 H2. unfold RecvDelta_unmarshal.
  destruct (N.eqb_spec (len raw) 1); [lia|]. destruct (N.eqb_spec (len raw) 2); [lia|]. reflexivity.
Qed.

(* ---------------------------------------------------------------------------------------------- *)
(* CCFB metric block: all 65536 words                                                              *)
(* ---------------------------------------------------------------------------------------------- *)
Definition ccm_of_word (w : N) : CCMetric :=
  if w <? 32768 then mkCCMetric false 0 0 else mkCCMetric true ((w / 8192) mod 4) (w mod 8192).
Definition ccm_eqb (a b : CCMetric) : bool :=
  Bool.eqb (mb_received a) (mb_received b) && (mb_ecn a =? mb_ecn b) && (mb_offset a =? mb_offset b).
Lemma ccm_eqb_eq a b : ccm_eqb a b = true -> a = b.
Proof.
  destruct a as [r1 e1 o1], b as [r2 e2 o2]. unfold ccm_eqb. cbn [mb_received mb_ecn mb_offset]. intros H.
  apply andb_true_iff in H as [H H3]. apply andb_true_iff in H as [H1 H2].
  apply eqb_prop in H1. apply N.eqb_eq in H2, H3. subst. reflexivity.
Qed.
Definition ccm_word_ok (w : N) : bool :=
  match CCMetric_unmarshal (be 2 w) with
  | Ok m => ccm_eqb m (ccm_of_word w) &&
            (if (32768 <=? w) || (w =? 0) then res_bytes_is (CCMetric_marshal m) (be 2 w) && bytes_eqb (enc_metric m) (be 2 w) else true)
            && D_metric m
  | _ => false
  end.
Lemma ccm_word_ok_all : forallb ccm_word_ok (urange (N.to_nat 65536) 0) = true.
Proof. vm_compute. reflexivity. Qed.

Lemma CCMetric_word w : w < 65536 ->
  CCMetric_unmarshal (be 2 w) = Ok (ccm_of_word w) /\ D_metric (ccm_of_word w) = true /\
  (32768 <= w \/ w = 0 -> CCMetric_marshal (ccm_of_word w) = Ok (be 2 w) /\ enc_metric (ccm_of_word w) = be 2 w).
Proof.
  intros Hw. pose proof (forallb_urange _ _ _ w ccm_word_ok_all ltac:(lia)) as H. unfold ccm_word_ok in H.
  destruct (CCMetric_unmarshal (be 2 w)) as [m| | |]; try discriminate.
  apply andb_true_iff in H as [H H3]. apply andb_true_iff in H as [H1 H2]. apply ccm_eqb_eq in H1. subst m.
  split; [reflexivity|]. split; [exact H3|]. intros Hc.
  assert (C : (32768 <=? w) || (w =? 0) = true).
  { destruct Hc as [Hc| ->]; [|reflexivity]. destruct (N.leb_spec 32768 w); [reflexivity|lia]. }
  rewrite C in H2. apply andb_true_iff in H2 as [H2 H4]. split; [apply res_bytes_is_eq; exact H2|].
  apply bytes_eqb_eq. exact H4.
Qed.

(* the converse: every well-formed metric block *)
Lemma CCMetric_value_roundtrip m : D_metric m = true ->
  CCMetric_marshal m = Ok (enc_metric m) /\ CCMetric_unmarshal (enc_metric m) = Ok m.
Proof.
  destruct m as [r e o]. unfold D_metric. cbn [mb_received mb_ecn mb_offset]. intros H.
  destruct r.
  - unfold fits in H. change (2 ^ 2) with 4 in H. change (2 ^ 13) with 8192 in H.
    apply andb_true_iff in H as [He Ho]. apply N.ltb_lt in He, Ho.
    destruct (CCMetric_word (32768 + e * 8192 + o) ltac:(lia)) as (H1 & _ & H2).
    destruct (H2 ltac:(lia)) as [H3 H4].
    assert (E : ccm_of_word (32768 + e * 8192 + o) = mkCCMetric true e o).
    { unfold ccm_of_word. destruct (N.ltb_spec (32768 + e * 8192 + o) 32768); [lia|]. f_equal; lia. }
    rewrite E in *. unfold enc_metric at 1 2. cbn [mb_received mb_ecn mb_offset]. auto.
  - apply andb_true_iff in H as [He Ho]. apply N.eqb_eq in He, Ho. subst.
    destruct (CCMetric_word 0 ltac:(lia)) as (H1 & _ & H2). destruct (H2 ltac:(lia)) as [H3 H4].
    change (ccm_of_word 0) with (mkCCMetric false 0 0) in *.
    unfold enc_metric at 1 2. cbn [mb_received]. auto.
Qed.

(* ---------------------------------------------------------------------------------------------- *)
(* C08: encoder limits                                                                             *)
(* ---------------------------------------------------------------------------------------------- *)
(* writes into a buffer keep its length; they panic only when the offset is out of range *)
Lemma copy_at_len dst off src : off <= len dst -> exists r, copy_at dst off src = Ok r /\ len r = len dst.
Proof.
  intros H. unfold copy_at. destruct (N.ltb_spec (len dst) off); [lia|]. eexists. split; [reflexivity|].
  unfold len in *. rewrite !app_length, !firstn_length, skipn_length. lia.
Qed.
Lemma put_be_at_len k dst off x : off + N.of_nat k <= len dst -> exists r, put_be_at k dst off x = Ok r /\ len r = len dst.
Proof.
  intros H. unfold put_be_at. destruct (N.ltb_spec (len dst) (off + N.of_nat k)); [lia|]. apply copy_at_len. lia.
Qed.
Ltac put_ok :=
  match goal with
  | |- context [put_be_at ?k ?d ?o ?x] =>
      let r := fresh "buf" in let E := fresh "E" in let L := fresh "L" in
      destruct (put_be_at_len k d o x) as (r & E & L); [cbn [N.of_nat Pos.of_succ_nat Pos.succ]; try lia | rewrite E; cbn [bind]]
  end.
Ltac copy_ok :=
  match goal with
  | |- context [copy_at ?d ?o ?x] =>
      let r := fresh "buf" in let E := fresh "E" in let L := fresh "L" in
      destruct (copy_at_len d o x) as (r & E & L); [try lia | rewrite E; cbn [bind]]
  end.

Lemma nlen_cons {A} (x : A) l : nlen (x :: l) = 1 + nlen l.
Proof. unfold nlen. cbn [length]. lia. Qed.

(* ---- reception reports, SR, RR ---- *)
Lemma RRep_marshal_ok r : rr_lost r < 16777216 -> exists d, RRep_marshal r = Ok d /\ len d = 24.
Proof.
  intros H. unfold RRep_marshal. consts. pose proof (len_zeros 24) as L0.
  put_ok. copy_ok. destruct (N.leb_spec 16777216 (rr_lost r)); [lia|].
  copy_ok. put_ok. put_ok. put_ok. put_ok. eexists. split; [reflexivity|lia].
Qed.
Lemma RRep_marshal_err r : 16777216 <= rr_lost r -> RRep_marshal r = Err.
Proof.
  intros H. unfold RRep_marshal. consts. pose proof (len_zeros 24) as L0.
  put_ok. copy_ok. destruct (N.leb_spec 16777216 (rr_lost r)); [reflexivity|lia].
Qed.
Definition lost_ok (r : RRep) : bool := rr_lost r <? 16777216.
Lemma put_reports_cases : forall rs raw off, off + 24 * nlen rs <= len raw ->
  (forallb lost_ok rs = true -> exists raw', put_reports raw off rs = Ok (raw', off + 24 * nlen rs) /\ len raw' = len raw) /\
  (forallb lost_ok rs = false -> put_reports raw off rs = Err).
Proof.
  induction rs as [|r rs IH]; intros raw off Hl.
  - split; [|discriminate]. intros _. exists raw. cbn [put_reports]. unfold nlen. cbn [length N.of_nat]. split; [f_equal; f_equal; lia|reflexivity].
  - rewrite nlen_cons in *. cbn [put_reports forallb]. unfold lost_ok at 1 3.
    destruct (N.ltb_spec (rr_lost r) 16777216) as [Hr|Hr].
    + destruct (RRep_marshal_ok r Hr) as (d & Ed & Ld). rewrite Ed. cbn [bind andb].
      copy_ok. consts. destruct (IH buf (off + 24) ltac:(lia)) as [I1 I2]. split.
      * intros Hf. destruct (I1 Hf) as (raw' & E' & L'). exists raw'. rewrite E'. split; [f_equal; f_equal; lia|lia].
      * intros Hf. apply I2. exact Hf.
    + cbn [andb]. split; [discriminate|]. intros _. rewrite RRep_marshal_err by lia. reflexivity.
Qed.

Lemma SR_limits s : in_limits (PSR s) = false -> SR_marshal s = Err.
Proof.
  cbn [in_limits]. intros H. unfold SR_marshal. pose proof (len_zeros (SR_size s)) as L0.
  unfold SR_size in L0 at 2. consts.
  put_ok. put_ok. put_ok. put_ok. put_ok.
  destruct (put_reports_cases (sr_reports s) buf3 (4 + 24) ltac:(lia)) as [I1 I2].
  fold lost_ok in H. destruct (forallb lost_ok (sr_reports s)).
  - destruct (I1 eq_refl) as (raw' & E' & L'). rewrite E'. cbn [bind].
    rewrite andb_true_r in H. unfold nl in H. unfold nlen.
    destruct (N.leb_spec (N.of_nat (length (sr_reports s))) 31); [discriminate|].
    destruct (N.ltb_spec 31 (N.of_nat (length (sr_reports s)))); [reflexivity|lia].
  - rewrite (I2 eq_refl). reflexivity.
Qed.

Lemma RR_limits r : in_limits (PRR r) = false -> RR_marshal r = Err.
Proof.
  cbn [in_limits]. intros H. unfold RR_marshal. pose proof (len_zeros (RR_size r)) as L0.
  unfold RR_size in L0 at 2. consts.
  put_ok.
  destruct (put_reports_cases (rcv_reports r) buf (4 + 4) ltac:(lia)) as [I1 I2].
  fold lost_ok in H. destruct (forallb lost_ok (rcv_reports r)).
  - destruct (I1 eq_refl) as (raw' & E' & L'). rewrite E'. cbn [bind].
    rewrite andb_true_r in H. unfold nl in H. unfold nlen.
    destruct (N.leb_spec (N.of_nat (length (rcv_reports r))) 31); [discriminate|].
    destruct (N.ltb_spec 31 (N.of_nat (length (rcv_reports r)))); [reflexivity|lia].
  - rewrite (I2 eq_refl). reflexivity.
Qed.

(* ---- SDES ---- *)
Definition item_ok (i : SItem) : bool := negb (it_type i =? 0) && (len (it_text i) <=? 255).
Lemma items_marshal_cases : forall its,
  (forallb item_ok its = true -> exists b, items_marshal its = Ok b /\ len b = fold_right (fun it acc => SItem_len it + acc) 0 its) /\
  (forallb item_ok its = false -> items_marshal its = Err).
Proof.
  induction its as [|it its [I1 I2]]; cbn [items_marshal forallb fold_right].
  - split; [|discriminate]. intros _. exists []. split; reflexivity.
  - unfold item_ok at 1 3. unfold SItem_marshal. consts.
    destruct (N.eqb_spec (it_type it) 0) as [Ht|Ht]; cbn [negb andb bind].
    { split; [discriminate|reflexivity]. }
    destruct (N.leb_spec (len (it_text it)) 255) as [Hl|Hl].
    + destruct (N.ltb_spec 255 (len (it_text it))); [lia|]. cbn [bind]. split.
      * intros Hf. destruct (I1 Hf) as (b & Eb & Lb). rewrite Eb. cbn [bind]. eexists. split; [reflexivity|].
        rewrite !len_app, Lb. unfold SItem_len. consts. rewrite !len_cons, len_nil. lia.
      * intros Hf. rewrite (I2 Hf). reflexivity.
    + destruct (N.ltb_spec 255 (len (it_text it))); [|lia]. split; [discriminate|reflexivity].
Qed.
Definition schunk_ok (c : SChunk) : bool := forallb item_ok (ch_items c).
Lemma SChunk_marshal_cases c :
  (schunk_ok c = true -> exists d, SChunk_marshal c = Ok d /\ len d = SChunk_len c) /\
  (schunk_ok c = false -> SChunk_marshal c = Err).
Proof.
  unfold schunk_ok, SChunk_marshal. destruct (items_marshal_cases (ch_items c)) as [I1 I2]. split; intros H.
  - destruct (I1 H) as (b & Eb & Lb). rewrite Eb. cbn [bind]. eexists. split; [reflexivity|].
    rewrite len_app, len_zeros. unfold SChunk_len. consts. rewrite !len_app, len_be, Lb, len_cons, len_nil.
    cbn [N.of_nat Pos.of_succ_nat Pos.succ].
    replace (4 + (fold_right (fun it acc => SItem_len it + acc) 0 (ch_items c) + (1 + 0)))
      with (4 + fold_right (fun it acc => SItem_len it + acc) 0 (ch_items c) + 1) by lia.
    reflexivity.
  - rewrite (I2 H). reflexivity.
Qed.
Lemma put_chunks_cases : forall cs raw off, off + fold_right (fun c acc => SChunk_len c + acc) 0 cs <= len raw ->
  (forallb schunk_ok cs = true -> exists raw', put_chunks raw off cs = Ok raw' /\ len raw' = len raw) /\
  (forallb schunk_ok cs = false -> put_chunks raw off cs = Err).
Proof.
  induction cs as [|c cs IH]; intros raw off Hl; cbn [put_chunks forallb fold_right] in *.
  - split; [|discriminate]. intros _. exists raw. auto.
  - destruct (SChunk_marshal_cases c) as [C1 C2]. destruct (schunk_ok c); cbn [andb].
    + destruct (C1 eq_refl) as (d & Ed & Ld). rewrite Ed. cbn [bind]. copy_ok.
      destruct (IH buf (off + len d) ltac:(lia)) as [I1 I2]. split; intros Hf.
      * destruct (I1 Hf) as (raw' & E' & L'). exists raw'. split; [exact E'|lia].
      * apply I2. exact Hf.
    + split; [discriminate|]. intros _. rewrite (C2 eq_refl). reflexivity.
Qed.
Lemma SDES_limits s : in_limits (PSDES s) = false -> SDES_marshal s = Err.
Proof.
  cbn [in_limits]. intros H. unfold SDES_marshal. pose proof (len_zeros (SDES_size s)) as L0.
  unfold SDES_size in L0 at 2. consts.
  destruct (put_chunks_cases (sd_chunks s) (zeros (SDES_size s)) 4 ltac:(lia)) as [I1 I2].
  change (forallb (fun c => forallb (fun i => negb (it_type i =? 0) && (len (it_text i) <=? 255)) (ch_items c)) (sd_chunks s))
    with (forallb schunk_ok (sd_chunks s)) in H.
  destruct (forallb schunk_ok (sd_chunks s)).
  - destruct (I1 eq_refl) as (raw' & E' & L'). rewrite E'. cbn [bind].
    rewrite andb_true_r in H. unfold nl in H. unfold nlen.
    destruct (N.leb_spec (N.of_nat (length (sd_chunks s))) 31); [discriminate|].
    destruct (N.ltb_spec 31 (N.of_nat (length (sd_chunks s)))); [reflexivity|lia].
  - rewrite (I2 eq_refl). reflexivity.
Qed.

(* ---- BYE ---- *)
Lemma put_u32s_ok : forall l raw off, off + 4 * nlen l <= len raw ->
  exists raw', put_u32s raw off l = Ok raw' /\ len raw' = len raw.
Proof.
  induction l as [|x l IH]; intros raw off Hl; cbn [put_u32s].
  - exists raw. auto.
  - rewrite nlen_cons in Hl. put_ok. destruct (IH buf (off + 4) ltac:(lia)) as (raw' & E' & L'). exists raw'. split; [exact E'|lia].
Qed.
Lemma BYE_limits g : in_limits (PBYE g) = false -> BYE_marshal g = Err.
Proof.
  cbn [in_limits]. intros H. unfold BYE_marshal. consts. unfold nl in H. unfold nlen.
  destruct (N.ltb_spec 31 (N.of_nat (length (bye_sources g)))) as [Hc|Hc]; [reflexivity|].
  destruct (N.leb_spec (N.of_nat (length (bye_sources g))) 31); [|lia]. cbn [andb] in H.
  destruct (N.leb_spec (len (bye_reason g)) 255) as [|Hr]; [discriminate|].
  pose proof (len_zeros (BYE_size g)) as L0. unfold BYE_size in L0 at 2. consts. unfold nlen in L0.
  destruct (N.ltb_spec 0 (len (bye_reason g))); [|lia].
  destruct (put_u32s_ok (bye_sources g) (zeros (BYE_size g)) 4) as (raw' & E' & L'); [unfold nlen; lia|].
  rewrite E'. cbn [bind]. destruct (N.ltb_spec 255 (len (bye_reason g))); [reflexivity|lia].
Qed.

(* ---- APP ---- *)
Lemma APP_limits a : in_limits (PAPP a) = false -> APP_marshal a = Err.
Proof.
  cbn [in_limits]. intros H. unfold APP_marshal. change (65535 - 12) with 65523.
  destruct (N.ltb_spec 65523 (len (app_data a))) as [|Hd]; [reflexivity|].
  destruct (N.eqb_spec (len (app_name a)) 4) as [Hn|Hn]; cbn [negb]; [|reflexivity].
  destruct (N.leb_spec (len (app_data a)) 65523); [|lia]. rewrite andb_true_r, andb_true_r in H.
  apply N.leb_gt in H. rewrite Header_marshal_err by (cbn [h_count]; lia). reflexivity.
Qed.

(* ---- NACK, SLI ---- *)
Lemma NACK_limits p : in_limits (PNACK p) = false -> NACK_marshal p = Err.
Proof.
  cbn [in_limits]. intros H. apply N.leb_gt in H. unfold NACK_marshal. consts. unfold nl in H. unfold nlen.
  destruct (N.ltb_spec 255 (N.of_nat (length (nack_pairs p)) + 2)); [reflexivity|lia].
Qed.
Lemma SLI_limits p : in_limits (PSLI p) = false -> SLI_marshal p = Err.
Proof.
  cbn [in_limits]. intros H. apply N.leb_gt in H. unfold SLI_marshal. consts. unfold nl in H. unfold nlen.
  destruct (N.ltb_spec 255 (N.of_nat (length (sli_entries p)) + 2)); [reflexivity|lia].
Qed.

(* ---- REMB ---- *)
Lemma REMB_limits p : in_limits (PREMB p) = false -> REMB_marshal p = Err.
Proof.
  cbn [in_limits]. intros H. unfold REMB_marshal. unfold nl in H. unfold nlen.
  destruct (N.ltb_spec 255 (N.of_nat (length (remb_ssrcs p)))) as [|Hc]; [reflexivity|].
  destruct (N.leb_spec (N.of_nat (length (remb_ssrcs p))) 255); [|lia]. cbn [andb] in H.
  unfold remb_enc. destruct (f32_of_bits (Z.of_N (remb_bitrate p))) as [s m e|s|].
  - apply negb_false_iff in H. rewrite H. reflexivity.
  - apply negb_false_iff in H. subst s. reflexivity.
  - discriminate.
Qed.

(* ---- outcome algebra for the cases where a panic can precede the error ---- *)
Definition fails {A} (r : res A) : Prop := r = Err \/ r = Panic.
Lemma bind_fails_l {A B} (r : res A) (f : A -> res B) : fails r -> fails (bind r f).
Proof. intros [-> | ->]; [left|right]; reflexivity. Qed.
Lemma bind_fails_r {A B} (r : res A) (f : A -> res B) :
  r <> Fuel -> (forall a, r = Ok a -> fails (f a)) -> fails (bind r f).
Proof. intros NF H. destruct r; cbn [bind]; [apply H; reflexivity|left; reflexivity|right; reflexivity|congruence]. Qed.
Lemma copy_at_nf dst off src : copy_at dst off src <> Fuel /\ copy_at dst off src <> Err.
Proof. unfold copy_at. destruct (len dst <? off); split; discriminate. Qed.
Lemma put_be_at_nf k dst off x : put_be_at k dst off x <> Fuel /\ put_be_at k dst off x <> Err.
Proof. unfold put_be_at. destruct (len dst <? off + N.of_nat k); [split; discriminate|apply copy_at_nf]. Qed.
Lemma slice_nf b i j : slice b i j <> Fuel /\ slice b i j <> Err.
Proof. unfold slice. destruct ((len b <? j) || (j <? i)); split; discriminate. Qed.
Lemma Header_marshal_nf h : Header_marshal h <> Fuel /\ Header_marshal h <> Panic.
Proof. unfold Header_marshal. destruct (31 <? h_count h); split; discriminate. Qed.
Lemma setNBitsOfUint16_nf a b c d : setNBitsOfUint16 a b c d <> Fuel /\ setNBitsOfUint16 a b c d <> Panic.
Proof. unfold setNBitsOfUint16. destruct (16 <? u16 (c + b)); split; discriminate. Qed.

(* ---- CCFB ---- *)
Lemma CCMetric_marshal_ok m : exists b, CCMetric_marshal m = Ok b.
Proof. unfold CCMetric_marshal. do 3 (rewrite setNBitsOfUint16_spec by lia; cbn [bind]). eexists. reflexivity. Qed.
Lemma metrics_marshal_ok : forall ms, exists b, metrics_marshal ms = Ok b.
Proof.
  induction ms as [|m ms [bs IH]]; cbn [metrics_marshal]; [eexists; reflexivity|].
  destruct (CCMetric_marshal_ok m) as [b ->]. rewrite IH. cbn [bind]. eexists. reflexivity.
Qed.
Definition blk_ok (b : CCBlock) : bool := nl (cb_metrics b) <=? 16384.
Lemma CCBlock_marshal_cases b :
  (blk_ok b = true -> exists d, CCBlock_marshal b = Ok d) /\ (blk_ok b = false -> CCBlock_marshal b = Err).
Proof.
  unfold blk_ok, CCBlock_marshal, nl, nlen. consts. split; intros H.
  - apply N.leb_le in H. destruct (N.ltb_spec 16384 (N.of_nat (length (cb_metrics b)))); [lia|].
    destruct (metrics_marshal_ok (cb_metrics b)) as [ms ->]. cbn [bind]. eexists. reflexivity.
  - apply N.leb_gt in H. destruct (N.ltb_spec 16384 (N.of_nat (length (cb_metrics b)))); [reflexivity|lia].
Qed.
Lemma put_blocks_err : forall bs buf off, forallb blk_ok bs = false ->
  off + fold_right (fun b acc => CCBlock_len b + acc) 0 bs <= len buf -> put_blocks buf off bs = Err.
Proof.
  induction bs as [|b bs IH]; intros buf off Hf Hl; cbn [forallb put_blocks fold_right] in *; [discriminate|].
  destruct (CCBlock_marshal_cases b) as [C1 C2]. destruct (blk_ok b); cbn [andb] in Hf.
  - destruct (C1 eq_refl) as [d ->]. cbn [bind]. copy_ok. apply IH; [exact Hf|lia].
  - rewrite (C2 eq_refl). reflexivity.
Qed.
Lemma put_blocks_fails : forall bs buf off, forallb blk_ok bs = false -> fails (put_blocks buf off bs).
Proof.
  induction bs as [|b bs IH]; intros buf off Hf; cbn [forallb put_blocks] in *; [discriminate|].
  destruct (CCBlock_marshal_cases b) as [C1 C2]. destruct (blk_ok b); cbn [andb] in Hf.
  - destruct (C1 eq_refl) as [d ->]. cbn [bind]. apply bind_fails_r; [apply copy_at_nf|]. intros buf' _. apply IH. exact Hf.
  - rewrite (C2 eq_refl). left. reflexivity.
Qed.

Lemma CCFB_header_marshal p : exists hb, Header_marshal (CCFB_header p) = Ok hb.
Proof. unfold CCFB_header. consts. eexists. apply Header_marshal_spec. lia. Qed.

(* Err whenever the 16-bit length field does not wrap (total size below 256 KiB) *)
Lemma CCFB_limits_nowrap p : CCFB_size p / 4 - 1 < 65536 -> in_limits (PCCFB p) = false -> CCFB_marshal p = Err.
Proof.
  intros Hs H. cbn [in_limits] in H. fold blk_ok in H. unfold CCFB_marshal.
  destruct (CCFB_header_marshal p) as [hb ->]. cbn [bind].
  unfold CCFB_header at 1 2. cbn [h_len]. unfold u16. rewrite N.mod_small by exact Hs.
  pose proof (len_zeros (4 * (CCFB_size p / 4 - 1 + 1))) as L0.
  assert (Hsz : CCFB_size p = 8 + fold_right (fun b acc => CCBlock_len b + acc) 0 (cc_blocks p) + 4) by reflexivity.
  consts. rewrite slice_ok by lia. cbn [bind]. copy_ok. put_ok.
  rewrite put_blocks_err; [reflexivity|exact H|lia].
Qed.
(* in general: never Ok; the error can be pre-empted by a slice-bounds panic when the length field wraps *)
Lemma CCFB_limits p : in_limits (PCCFB p) = false -> fails (CCFB_marshal p).
Proof.
  intros H. cbn [in_limits] in H. fold blk_ok in H. unfold CCFB_marshal.
  destruct (CCFB_header_marshal p) as [hb ->]. cbn [bind].
  apply bind_fails_r; [apply slice_nf|intros ? _].
  apply bind_fails_r; [apply copy_at_nf|intros ? _].
  apply bind_fails_r; [apply put_be_at_nf|intros ? _].
  apply bind_fails_l. apply put_blocks_fails. exact H.
Qed.

(* ---- TWCC ---- *)
Lemma setNBitsOfUint16_OE a b c d : (exists r, setNBitsOfUint16 a b c d = Ok r) \/ setNBitsOfUint16 a b c d = Err.
Proof. unfold setNBitsOfUint16. destruct (16 <? u16 (c + b)); [right; reflexivity|left; eexists; reflexivity]. Qed.
Lemma svc_put_OE : forall l dst nb i, (exists r, svc_put dst nb i l = Ok r) \/ svc_put dst nb i l = Err.
Proof.
  induction l as [|s l IH]; intros dst nb i; cbn [svc_put]; [left; eexists; reflexivity|].
  destruct (setNBitsOfUint16_OE dst nb (u16 (u16 (nb * u16 i) + 2)) s) as [[r ->]| ->]; cbn [bind]; [apply IH|right; reflexivity].
Qed.
(* the 15th one-bit symbol / the 8th two-bit symbol does not fit the 16-bit word *)
Lemma svc_put_err1 : forall l i dst, i <= 14 -> 15 <= i + nlen l -> svc_put dst 1 i l = Err.
Proof.
  induction l as [|s l IH]; intros i dst Hi Hl.
  - unfold nlen in Hl. cbn [length N.of_nat] in Hl. lia.
  - rewrite nlen_cons in Hl. cbn [svc_put].
    assert (E : u16 (u16 (1 * u16 i) + 2) = i + 2) by (unfold u16; lia). rewrite E.
    destruct (N.eq_dec i 14) as [->|Hn].
    + rewrite setNBitsOfUint16_err by lia. reflexivity.
    + rewrite setNBitsOfUint16_spec by lia. cbn [bind]. apply IH; lia.
Qed.
Lemma svc_put_err2 : forall l i dst, i <= 7 -> 8 <= i + nlen l -> svc_put dst 2 i l = Err.
Proof.
  induction l as [|s l IH]; intros i dst Hi Hl.
  - unfold nlen in Hl. cbn [length N.of_nat] in Hl. lia.
  - rewrite nlen_cons in Hl. cbn [svc_put].
    assert (E : u16 (u16 (2 * u16 i) + 2) = 2 * i + 2) by (unfold u16; lia). rewrite E.
    destruct (N.eq_dec i 7) as [->|Hn].
    + rewrite setNBitsOfUint16_err by lia. reflexivity.
    + rewrite setNBitsOfUint16_spec by lia. cbn [bind]. apply IH; lia.
Qed.
Lemma TChunk_marshal_err c : svc_len_ok c = false -> TChunk_marshal c = Err.
Proof.
  destruct c as [t s r|t ss l]; cbn [svc_len_ok TChunk_marshal]; [discriminate|]. intros H.
  unfold SVC_marshal. do 2 (rewrite setNBitsOfUint16_spec by lia; cbn [bind]).
  unfold numOfBitsOfSymbolSize. consts. unfold nl in H.
  destruct (N.eqb_spec ss 0) as [->|H0].
  - apply N.leb_gt in H. rewrite svc_put_err1; [reflexivity|lia|unfold nlen; lia].
  - destruct (N.eqb_spec ss 1) as [->|H1]; [|discriminate].
    apply N.leb_gt in H. rewrite svc_put_err2; [reflexivity|lia|unfold nlen; lia].
Qed.
Lemma TChunk_marshal_OE c : (exists b, TChunk_marshal c = Ok b) \/ TChunk_marshal c = Err.
Proof.
  destruct c as [t s r|t ss l]; cbn [TChunk_marshal].
  - left. rewrite RLC_marshal_spec. eexists. reflexivity.
  - unfold SVC_marshal. do 2 (rewrite setNBitsOfUint16_spec by lia; cbn [bind]).
    match goal with |- context [svc_put ?d ?nb ?i ?l] => destruct (svc_put_OE l d nb i) as [[r ->]| ->] end; cbn [bind].
    + left. eexists. reflexivity.
    + right. reflexivity.
Qed.
Lemma tchunks_marshal_OE : forall cs, (exists b, tchunks_marshal cs = Ok b) \/ tchunks_marshal cs = Err.
Proof.
  induction cs as [|c cs IH]; cbn [tchunks_marshal]; [left; eexists; reflexivity|].
  destruct (TChunk_marshal_OE c) as [[b ->]| ->]; cbn [bind]; [|right; reflexivity].
  destruct IH as [[bs ->]| ->]; cbn [bind]; [left; eexists; reflexivity|right; reflexivity].
Qed.
Lemma tchunks_marshal_err : forall cs, forallb svc_len_ok cs = false -> tchunks_marshal cs = Err.
Proof.
  induction cs as [|c cs IH]; cbn [tchunks_marshal forallb]; [discriminate|]. intros H.
  destruct (svc_len_ok c) eqn:Ec; cbn [andb] in H.
  - destruct (TChunk_marshal_OE c) as [[b ->]| ->]; cbn [bind]; [|reflexivity]. rewrite (IH H). reflexivity.
  - rewrite (TChunk_marshal_err c Ec). reflexivity.
Qed.

Lemma RecvDelta_marshal_OE d : (exists b, RecvDelta_marshal d = Ok b) \/ RecvDelta_marshal d = Err.
Proof.
  unfold RecvDelta_marshal.
  destruct (_ && _ && _); [left; eexists; reflexivity|]. destruct (_ && _ && _); [left; eexists; reflexivity|right; reflexivity].
Qed.
Lemma RecvDelta_marshal_err d : delta_in_range d = false -> RecvDelta_marshal d = Err.
Proof.
  unfold delta_in_range, RecvDelta_marshal. consts. change (Z.of_N 250) with 250%Z. intros H.
  destruct (N.eqb_spec (rd_type d) 1) as [E1|E1].
  - cbn [andb]. rewrite H. destruct (N.eqb_spec (rd_type d) 2); [lia|]. reflexivity.
  - cbn [andb]. destruct (N.eqb_spec (rd_type d) 2) as [E2|E2]; [|reflexivity]. cbn [andb]. rewrite H. reflexivity.
Qed.
Lemma deltas_marshal_err : forall ds, forallb delta_in_range ds = false -> deltas_marshal ds = Err.
Proof.
  induction ds as [|d ds IH]; cbn [deltas_marshal forallb]; [discriminate|]. intros H.
  destruct (delta_in_range d) eqn:Ed; cbn [andb] in H.
  - destruct (RecvDelta_marshal_OE d) as [[b ->]| ->]; cbn [bind]; [|reflexivity]. rewrite (IH H). reflexivity.
  - rewrite (RecvDelta_marshal_err d Ed). reflexivity.
Qed.

(* the linear form (content within 16 bits): always Err *)
Lemma TWCC_limits_fast t : twcc_exact_len t <= 65532 -> in_limits (PTWCC t) = false -> TWCC_marshal t = Err.
Proof.
  intros Hs H. cbn [in_limits] in H. unfold TWCC_marshal.
  destruct (N.ltb_spec 65532 (twcc_exact_len t)); [lia|].
  destruct (N.leb_spec (h_count (tw_hdr t)) 31) as [Hc|Hc].
  - cbn [andb] in H. unfold Header_marshal. destruct (N.ltb_spec 31 (h_count (tw_hdr t))); [lia|]. cbn [bind].
    destruct (forallb svc_len_ok (tw_chunks t)) eqn:Ec.
    + rewrite andb_true_r in H. destruct (tchunks_marshal_OE (tw_chunks t)) as [[cs ->]| ->]; cbn [bind]; [|reflexivity].
      rewrite (deltas_marshal_err _ H). reflexivity.
    + rewrite (tchunks_marshal_err _ Ec). reflexivity.
  - rewrite Header_marshal_err by lia. reflexivity.
Qed.

(* the statement-by-statement form (16-bit size arithmetic wraps): a slice-bounds panic can pre-empt the error *)
Lemma put_tchunks_res : forall cs payload off,
  put_tchunks payload off cs <> Fuel /\ (forallb svc_len_ok cs = false -> fails (put_tchunks payload off cs)).
Proof.
  induction cs as [|c cs IH]; intros payload off; cbn [put_tchunks forallb].
  - split; [discriminate|discriminate].
  - destruct (TChunk_marshal_OE c) as [[b Eb]|Eb]; rewrite Eb; cbn [bind].
    + destruct (len payload <? off); [split; [discriminate|right; reflexivity]|].
      destruct (copy_at payload off b) as [p'| | |] eqn:Ec; cbn [bind].
      * destruct (IH p' (off + 2)) as [I1 I2]. split; [exact I1|]. intros H.
        destruct (svc_len_ok c) eqn:El; cbn [andb] in H; [apply I2; exact H|].
        rewrite (TChunk_marshal_err c El) in Eb. discriminate.
      * split; [discriminate|left; reflexivity].
      * split; [discriminate|right; reflexivity].
      * exfalso. apply (proj1 (copy_at_nf payload off b)). exact Ec.
    + split; [discriminate|left; reflexivity].
Qed.
Lemma put_deltas_res : forall ds payload off,
  put_deltas payload off ds <> Fuel /\ (forallb delta_in_range ds = false -> fails (put_deltas payload off ds)).
Proof.
  induction ds as [|d ds IH]; intros payload off; cbn [put_deltas forallb].
  - split; [discriminate|discriminate].
  - destruct (RecvDelta_marshal_OE d) as [[b Eb]|Eb]; rewrite Eb; cbn [bind].
    + destruct (len payload <? off); [split; [discriminate|right; reflexivity]|].
      destruct (copy_at payload off b) as [p'| | |] eqn:Ec; cbn [bind].
      * match goal with |- context [put_deltas p' ?o ds] => destruct (IH p' o) as [I1 I2] end.
        split; [exact I1|]. intros H.
        destruct (delta_in_range d) eqn:El; cbn [andb] in H; [apply I2; exact H|].
        rewrite (RecvDelta_marshal_err d El) in Eb. discriminate.
      * split; [discriminate|left; reflexivity].
      * split; [discriminate|right; reflexivity].
      * exfalso. apply (proj1 (copy_at_nf payload off b)). exact Ec.
    + split; [discriminate|left; reflexivity].
Qed.

Lemma TWCC_limits t : in_limits (PTWCC t) = false -> fails (TWCC_marshal t).
Proof.
  intros H. unfold TWCC_marshal. destruct (N.ltb_spec 65532 (twcc_exact_len t)) as [Hs|Hs].
  2:{ left. pose proof (TWCC_limits_fast t Hs H) as E. unfold TWCC_marshal in E.
      destruct (N.ltb_spec 65532 (twcc_exact_len t)); [lia|exact E]. }
  cbn [in_limits] in H. unfold TWCC_marshal_slow.
  destruct (N.leb_spec (h_count (tw_hdr t)) 31) as [Hc|Hc].
  2:{ rewrite Header_marshal_err by lia. left. reflexivity. }
  cbn [andb] in H.
  apply bind_fails_r; [apply Header_marshal_nf|intros hb _].
  destruct (TWCC_size t <? c_headerLength); [right; reflexivity|].
  do 5 (apply bind_fails_r; [apply put_be_at_nf|intros ? _]).
  match goal with |- context [put_tchunks ?p ?o ?cs] => destruct (put_tchunks_res cs p o) as [T1 T2] end.
  destruct (forallb svc_len_ok (tw_chunks t)) eqn:Ec.
  - rewrite andb_true_r in H. apply bind_fails_r; [exact T1|intros p1 _].
    match goal with |- context [put_deltas ?p ?o ?ds] => destruct (put_deltas_res ds p o) as [D1 D2] end.
    apply bind_fails_l. apply D2. exact H.
  - apply bind_fails_l. apply T2. reflexivity.
Qed.

(* ---- refutations of "always Err": the 16-bit length/size arithmetic wraps and a slice-bounds panic comes first ---- *)
(* one report block of 131064 metric blocks: Header.Length wraps to 0, the 4-octet buffer cannot take the sender SSRC *)
Lemma CCFB_limits_Err_refuted :
  exists p, in_limits (PCCFB p) = false /\ CCFB_marshal p = Panic.
Proof.
  exists (mkCCFB 0 [mkCCBlock 0 0 (repeat (mkCCMetric false 0 0) (N.to_nat 131064))] 0).
  vm_compute. split; reflexivity.
Qed.
(* 32757 chunks and one delta: packetLen wraps to 0, make([]byte, size-headerLength) panics *)
Lemma TWCC_limits_Err_refuted :
  exists t, in_limits (PTWCC t) = false /\ TWCC_marshal t = Panic.
Proof.
  exists (mkTWCC (mkHeader false 15 205 0) 0 0 0 0 0 0 (repeat (RLC 0 0 0) (N.to_nat 32757)) [mkRecvDelta 0 0]).
  vm_compute. split; reflexivity.
Qed.

(* ---- Marshal never exhausts fuel (no marshaller has a fuelled loop): needed to sequence packets in a compound ---- *)
Lemma bind_nf {A B} (r : res A) (f : A -> res B) : r <> Fuel -> (forall a, f a <> Fuel) -> bind r f <> Fuel.
Proof. intros H1 H2. destruct r; cbn [bind]; try discriminate; [apply H2|congruence]. Qed.
Ltac nf_step :=
  first
  [ discriminate
  | apply bind_nf; [|intros ?]
  | apply (proj1 (copy_at_nf _ _ _))
  | apply (proj1 (put_be_at_nf _ _ _ _))
  | apply (proj1 (slice_nf _ _ _))
  | apply (proj1 (Header_marshal_nf _))
  | apply (proj1 (setNBitsOfUint16_nf _ _ _ _))
  | match goal with |- (if ?c then _ else _) <> Fuel => destruct c end
  | match goal with |- (let '(_, _) := ?x in _) <> Fuel => destruct x end
  | match goal with |- (match ?x with Ok _ => _ | Err => _ | Panic => _ | Fuel => _ end) <> Fuel => fail 1 end ].
Ltac nf := repeat nf_step.

Lemma RRep_marshal_nf r : RRep_marshal r <> Fuel.
Proof. unfold RRep_marshal. nf. Qed.
Lemma put_reports_nf : forall rs raw off, put_reports raw off rs <> Fuel.
Proof. induction rs as [|r rs IH]; intros raw off; cbn [put_reports]; nf; try apply RRep_marshal_nf; try apply IH. Qed.
Lemma SR_marshal_nf s : SR_marshal s <> Fuel.
Proof. unfold SR_marshal. nf. apply put_reports_nf. Qed.
Lemma RR_marshal_nf s : RR_marshal s <> Fuel.
Proof. unfold RR_marshal. nf. apply put_reports_nf. Qed.

Lemma items_marshal_nf : forall its, items_marshal its <> Fuel.
Proof. induction its as [|i its IH]; cbn [items_marshal]; nf; try exact IH; unfold SItem_marshal; nf. Qed.
Lemma put_chunks_nf : forall cs raw off, put_chunks raw off cs <> Fuel.
Proof.
  induction cs as [|c cs IH]; intros raw off; cbn [put_chunks]; nf; try apply IH.
  all: unfold SChunk_marshal; nf; apply items_marshal_nf.
Qed.
Lemma SDES_marshal_nf s : SDES_marshal s <> Fuel.
Proof. unfold SDES_marshal. nf. apply put_chunks_nf. Qed.

Lemma put_u32s_nf : forall l raw off, put_u32s raw off l <> Fuel.
Proof. induction l as [|x l IH]; intros raw off; cbn [put_u32s]; nf; apply IH. Qed.
Lemma BYE_marshal_nf g : BYE_marshal g <> Fuel.
Proof. unfold BYE_marshal. nf; apply put_u32s_nf. Qed.
Lemma APP_marshal_nf a : APP_marshal a <> Fuel.
Proof. unfold APP_marshal. nf. Qed.
Lemma NACK_marshal_nf p : NACK_marshal p <> Fuel.
Proof. unfold NACK_marshal. nf. Qed.
Lemma PLI_marshal_nf p : PLI_marshal p <> Fuel.
Proof. unfold PLI_marshal. nf. Qed.
Lemma RRR_marshal_nf p : RRR_marshal p <> Fuel.
Proof. unfold RRR_marshal. nf. Qed.
Lemma SLI_marshal_nf p : SLI_marshal p <> Fuel.
Proof. unfold SLI_marshal. nf. Qed.
Lemma FIR_marshal_nf p : FIR_marshal p <> Fuel.
Proof. unfold FIR_marshal. nf. Qed.
Lemma REMB_marshal_nf p : REMB_marshal p <> Fuel.
Proof. unfold REMB_marshal. nf. destruct (remb_enc _) as [[e m]|]; discriminate. Qed.

Lemma put_blocks_nf : forall bs buf off, put_blocks buf off bs <> Fuel.
Proof.
  induction bs as [|b bs IH]; intros buf off; cbn [put_blocks]; nf; try apply IH.
  all: destruct (CCBlock_marshal_cases b) as [C1 C2]. destruct (blk_ok b); [destruct (C1 eq_refl) as [d ->]|rewrite (C2 eq_refl)]; discriminate.
Qed.
Lemma CCFB_marshal_nf p : CCFB_marshal p <> Fuel.
Proof. unfold CCFB_marshal. nf. apply put_blocks_nf. Qed.

Lemma TWCC_marshal_nf t : TWCC_marshal t <> Fuel.
Proof.
  unfold TWCC_marshal. destruct (65532 <? twcc_exact_len t).
  - unfold TWCC_marshal_slow. nf; [apply put_tchunks_res|apply put_deltas_res].
  - nf.
    + destruct (tchunks_marshal_OE (tw_chunks t)) as [[b ->]| ->]; discriminate.
    + clear. induction (tw_deltas t) as [|d ds IH]; cbn [deltas_marshal]; nf; [|exact IH].
      destruct (RecvDelta_marshal_OE d) as [[b ->]| ->]; discriminate.
Qed.

(* the reflection-driven writer *)
Lemma write_nf : forall v t room, write t v room <> Fuel.
Proof.
  fix IH 1. intros v t room. destruct v as [n|vs|vs].
  - destruct t; cbn [write scalar_size]; nf.
  - destruct t; cbn [write scalar_size]; try discriminate.
    revert room. induction vs as [|x vs IHvs]; intros room; nf; [apply IH|apply IHvs].
  - destruct t; cbn [write scalar_size]; try discriminate.
    revert fs room. induction vs as [|x vs IHvs]; intros fs room; [discriminate|].
    destruct fs as [|[name ft om ex] fs]; [discriminate|]. nf; try apply IHvs. apply IH.
Qed.
Lemma write_blocks_nf : forall bs room, write_blocks bs room <> Fuel.
Proof. induction bs as [|b bs IH]; intros room; cbn [write_blocks]; nf; [apply write_nf|apply IH]. Qed.
Lemma XR_marshal_nf x : XR_marshal x <> Fuel.
Proof.
  unfold XR_marshal. assert (H : XR_marshal_full x <> Fuel); [|destruct (XR_marshal_full x); cbn [res_map]; congruence].
  unfold XR_marshal_full. nf. apply write_blocks_nf.
Qed.

Lemma marshal_packet_nf : forall p, marshal_packet p <> Fuel.
Proof.
  fix IH 1. intros p. destruct p as [x|x|x|x|x|x|x|x|x|x|x|x|x|x|b|l]; cbn [marshal_packet].
  - apply SR_marshal_nf. - apply RR_marshal_nf. - apply SDES_marshal_nf. - apply BYE_marshal_nf. - apply APP_marshal_nf.
  - apply NACK_marshal_nf. - apply RRR_marshal_nf. - apply TWCC_marshal_nf. - apply CCFB_marshal_nf. - apply PLI_marshal_nf.
  - apply SLI_marshal_nf. - apply REMB_marshal_nf. - apply FIR_marshal_nf. - apply XR_marshal_nf. - discriminate.
  - apply bind_nf.
    + destruct l as [|q r]; [discriminate|]. destruct q; cbn [Compound_validate]; try discriminate;
        (induction r as [|q r IHr]; cbn [validate_rest]; [discriminate|]; destruct q; try discriminate; try exact IHr;
         destruct (sdes_has_cname _); discriminate).
    + intros _. induction l as [|q r IHr]; [discriminate|]. apply bind_nf; [apply IH|]. intros d. apply bind_nf; [exact IHr|]. discriminate.
Qed.

(* ---- C08 over the packet sum ---- *)
Definition not_compound (p : packet) : Prop := match p with PCompound _ => False | _ => True end.

Lemma in_limits_marshal_simple p : not_compound p -> in_limits p = false -> fails (marshal_packet p).
Proof.
  intros Hn H. destruct p; cbn [marshal_packet]; try (cbn [in_limits] in H; discriminate H).
  - left. apply SR_limits. exact H.
  - left. apply RR_limits. exact H.
  - left. apply SDES_limits. exact H.
  - left. apply BYE_limits. exact H.
  - left. apply APP_limits. exact H.
  - left. apply NACK_limits. exact H.
  - apply TWCC_limits. exact H.
  - apply CCFB_limits. exact H.
  - left. apply SLI_limits. exact H.
  - left. apply REMB_limits. exact H.
  - contradiction.
Qed.

Lemma validate_rest_err : forall r, compound_rest_ok r = false -> validate_rest r = Err.
Proof.
  induction r as [|p r IH]; cbn [compound_rest_ok validate_rest]; [reflexivity|].
  destruct p; cbn [is_cname_sdes]; try reflexivity; intros H; [apply IH; exact H|rewrite H; reflexivity].
Qed.
Lemma Compound_validate_err l : compound_ok l = false -> Compound_validate l = Err.
Proof.
  destruct l as [|p r]; [reflexivity|]. destruct p; cbn [compound_ok Compound_validate]; try reflexivity; apply validate_rest_err.
Qed.

(* outside the limits Marshal returns an error or (TWCC / CCFB with wrapped 16-bit sizes only) panics; it never returns bytes *)
Theorem in_limits_marshal : forall p, in_limits p = false -> marshal_packet p = Err \/ marshal_packet p = Panic.
Proof.
  fix IH 1. intros p H. destruct p as [x|x|x|x|x|x|x|x|x|x|x|x|x|x|b|l];
    try (apply in_limits_marshal_simple; [exact I|exact H]).
  change (fails (marshal_packet (PCompound l))).
  pose proof (marshal_packet_nf (PCompound l)) as NF.
  cbn [in_limits marshal_packet] in *.
  destruct (compound_ok l) eqn:Ec; [|rewrite (Compound_validate_err l Ec); left; reflexivity].
  cbn [andb] in H. destruct (Compound_validate l) as [u| | |]; cbn [bind] in *;
    [|left; reflexivity|right; reflexivity|exfalso; apply NF; reflexivity].
  clear Ec u NF.
  revert l H. fix IHl 1. intros l H. destruct l as [|q r]; [discriminate H|].
  destruct (in_limits q) eqn:Eq.
  - cbn [andb] in H. apply bind_fails_r; [apply marshal_packet_nf|]. intros d _. apply bind_fails_l. apply IHl. exact H.
  - apply bind_fails_l. apply IH. exact Eq.
Qed.

Corollary in_limits_marshal_not_ok p b : in_limits p = false -> marshal_packet p <> Ok b.
Proof. intros H. destruct (in_limits_marshal p H) as [E|E]; rewrite E; discriminate. Qed.

(* per packet type the outcome is the error, except where 16-bit size arithmetic can wrap first *)
Theorem in_limits_marshal_err p : in_limits p = false ->
  match p with
  | PCompound _ => True
  | PTWCC t => twcc_exact_len t <= 65532 -> marshal_packet p = Err
  | PCCFB c => CCFB_size c / 4 - 1 < 65536 -> marshal_packet p = Err
  | _ => marshal_packet p = Err
  end.
Proof.
  intros H. destruct p; cbn [marshal_packet]; try (cbn [in_limits] in H; discriminate H); try exact I.
  - apply SR_limits. exact H.
  - apply RR_limits. exact H.
  - apply SDES_limits. exact H.
  - apply BYE_limits. exact H.
  - apply APP_limits. exact H.
  - apply NACK_limits. exact H.
  - intros Hs. apply TWCC_limits_fast; assumption.
  - intros Hs. apply CCFB_limits_nowrap; assumption.
  - apply SLI_limits. exact H.
  - apply REMB_limits. exact H.
Qed.

Print Assumptions getNBitsFromByte_spec.
Print Assumptions setNBitsOfUint16_spec.
Print Assumptions setNBitsOfUint16_err.
Print Assumptions get24BitsFromBytes_spec.
Print Assumptions get24BitsFromBytes_be.
Print Assumptions RLC_word.
Print Assumptions RLC_word_roundtrip.
Print Assumptions RLC_value_roundtrip.
Print Assumptions RLC_marshal_spec.
Print Assumptions SVC_word_roundtrip.
Print Assumptions SVC_value_roundtrip.
Print Assumptions RecvDelta_small.
Print Assumptions RecvDelta_large.
Print Assumptions RecvDelta_roundtrip_1.
Print Assumptions RecvDelta_roundtrip_2.
Print Assumptions RecvDelta_value_roundtrip.
Print Assumptions RecvDelta_unmarshal_badlen.
Print Assumptions CCMetric_word.
Print Assumptions CCMetric_value_roundtrip.
Print Assumptions SR_limits.
Print Assumptions RR_limits.
Print Assumptions SDES_limits.
Print Assumptions BYE_limits.
Print Assumptions APP_limits.
Print Assumptions NACK_limits.
Print Assumptions SLI_limits.
Print Assumptions REMB_limits.
Print Assumptions CCFB_limits_nowrap.
Print Assumptions CCFB_limits.
Print Assumptions CCFB_limits_Err_refuted.
Print Assumptions TWCC_limits_fast.
Print Assumptions TWCC_limits.
Print Assumptions TWCC_limits_Err_refuted.
Print Assumptions marshal_packet_nf.
Print Assumptions in_limits_marshal.
Print Assumptions in_limits_marshal_not_ok.
Print Assumptions in_limits_marshal_err.
