(* C16: fixed-width units (util.go helpers, TWCC chunk words, RecvDelta, CCFB metric block) by complete
   enumeration (bound stated in each lemma) or by a general bit-field proof;
   C08: encoder limits (in_limits p = false -> Marshal fails). *)
From RTCP Require Import Proofs.Tactics Proofs.HeaderProofs.
From RTCP Require Import Lib.Reflect Model.Header Model.Reports Model.Sdes Model.ByeApp Model.Feedback Model.Twcc Model.Ccfb
  Model.Remb Model.Xr Model.Packet Spec.Enc Spec.Laws.
Local Open Scope N_scope.

(* ---------------------------------------------------------------------------------------------- *)
(* enumeration support                                                                            *)
(* ---------------------------------------------------------------------------------------------- *)
Fixpoint urange (k : nat) (from : N) : list N :=
  match k with O => [] | S k' => from :: urange k' (from + 1) end.
Lemma In_urange k : forall from x, from <= x < from + N.of_nat k -> In x (urange k from).
Proof.
  induction k as [|k IH]; intros from x H; [lia|]. cbn [urange In].
  destruct (N.eq_dec from x) as [->|Hne]; [left; reflexivity|right; apply IH; lia].
Qed.
Lemma forallb_urange (f : N -> bool) n from x :
  forallb f (urange (N.to_nat n) from) = true -> from <= x < from + n -> f x = true.
Proof. intros H Hx. rewrite forallb_forall in H. apply H. apply In_urange. rewrite N2Nat.id. exact Hx. Qed.

Lemma list_eqb_eq a : forall b, list_eqb a b = true -> a = b.
Proof.
  induction a as [|x a IH]; intros [|y b] H; cbn [list_eqb] in H; try discriminate; [reflexivity|].
  apply andb_true_iff in H as [H1 H2]. apply N.eqb_eq in H1. subst. f_equal. auto.
Qed.

Definition res_bytes_is (r : res bytes) (b : bytes) : bool :=
  match r with Ok x => bytes_eqb x b | _ => false end.
Lemma res_bytes_is_eq r b : res_bytes_is r b = true -> r = Ok b.
Proof. destruct r; cbn [res_bytes_is]; try discriminate. intros H. apply bytes_eqb_eq in H. subst. reflexivity. Qed.

(* ---------------------------------------------------------------------------------------------- *)
(* util.go                                                                                        *)
(* ---------------------------------------------------------------------------------------------- *)

(* getNBitsFromByte: all 256 octets x all (begin, n) with begin + n <= 8, n >= 1 *)
Definition getn_ok (b : N) : bool :=
  forallb (fun bg => forallb (fun n =>
    if bg + n <=? 8 then getNBitsFromByte b bg n =? (b / 2 ^ (8 - bg - n)) mod 2 ^ n else true) (urange (N.to_nat 8) 1)) (urange (N.to_nat 8) 0).
Lemma getn_ok_all : forallb getn_ok (urange (N.to_nat 256) 0) = true.
Proof. vm_compute. reflexivity. Qed.

Lemma getNBitsFromByte_spec b bg n : b < 256 -> 1 <= n -> bg + n <= 8 ->
  getNBitsFromByte b bg n = (b / 2 ^ (8 - bg - n)) mod 2 ^ n.
Proof.
  intros Hb Hn Hs. pose proof (forallb_urange _ _ _ b getn_ok_all) as H.
  specialize (H ltac:(lia)). unfold getn_ok in H.
  pose proof (forallb_urange _ _ _ bg H ltac:(lia)) as H1. cbv beta in H1.
  pose proof (forallb_urange _ _ _ n H1 ltac:(lia)) as H2. cbv beta in H2.
  destruct (N.leb_spec (bg + n) 8); [|lia]. apply N.eqb_eq in H2. exact H2.
Qed.

(* setNBitsOfUint16: general bit-field statement *)
Lemma mask16_ones size : size <= 16 -> sub16 (shl 16 1 size) 1 = N.ones size.
Proof.
  intros H.
  assert (E : forallb (fun s => sub16 (shl 16 1 s) 1 =? N.ones s) (urange (N.to_nat 17) 0) = true) by (vm_compute; reflexivity).
  apply N.eqb_eq. apply (forallb_urange _ _ _ size E). lia.
Qed.

Lemma setNBitsOfUint16_err src size start val : 16 < start + size -> start + size < 65536 ->
  setNBitsOfUint16 src size start val = Err.
Proof.
  intros H H'. unfold setNBitsOfUint16, u16. rewrite N.mod_small by lia.
  destruct (N.ltb_spec 16 (start + size)); [reflexivity|lia].
Qed.

Lemma setNBitsOfUint16_spec src size start val : start + size <= 16 ->
  setNBitsOfUint16 src size start val = Ok (N.lor src ((val mod 2 ^ size) * 2 ^ (16 - size - start))).
Proof.
  intros H. unfold setNBitsOfUint16, u16. rewrite N.mod_small by lia.
  destruct (N.ltb_spec 16 (start + size)); [lia|].
  rewrite mask16_ones by lia. rewrite N.land_ones.
  assert (E : sub16 (sub16 16 size) start = 16 - size - start) by (unfold sub16; lia).
  rewrite E. f_equal. f_equal. unfold shl.
  destruct (N.leb_spec 16 (16 - size - start)) as [A|A].
  - assert (size = 0) by lia. subst size. change (2 ^ 0) with 1. rewrite N.mod_1_r. reflexivity.
  - apply N.mod_small.
    assert (Hv : val mod 2 ^ size < 2 ^ size) by (apply N.mod_lt; apply N.pow_nonzero; lia).
    assert (P1 : 0 < 2 ^ (16 - size - start)) by (apply N.neq_0_lt_0; apply N.pow_nonzero; lia).
    apply N.lt_le_trans with (2 ^ size * 2 ^ (16 - size - start)).
    + apply N.mul_lt_mono_pos_r; [exact P1|exact Hv].
    + rewrite <- N.pow_add_r. apply N.pow_le_mono_r; lia.
Qed.

(* get24BitsFromBytes *)
Lemma get24BitsFromBytes_spec a b c rest : get24BitsFromBytes (a :: b :: c :: rest) = Ok (unbe [a; b; c]).
Proof.
  unfold get24BitsFromBytes. rewrite !idx_ok by (rewrite !len_cons; lia). cbn [bind].
  change (N.to_nat 0) with 0%nat. change (N.to_nat 1) with 1%nat. change (N.to_nat 2) with 2%nat. cbn [nth].
  unfold unbe. cbn [fold_left]. unfold u32. f_equal.
  pose proof (b2n_lt a). pose proof (b2n_lt b). pose proof (b2n_lt c). lia.
Qed.
Lemma get24BitsFromBytes_be x rest : x < 16777216 -> get24BitsFromBytes (be 3 x ++ rest) = Ok x.
Proof.
  intros H. cbn [be app]. rewrite get24BitsFromBytes_spec. f_equal.
  change [n2b (x / 256 / 256); n2b (x / 256); n2b x] with (be 3 x). apply unbe_be. cbn. exact H.
Qed.
Lemma get24BitsFromBytes_short b : len b < 3 -> get24BitsFromBytes b = Panic.
Proof.
  intros H. unfold get24BitsFromBytes, idx.
  destruct (N.leb_spec (len b) 0); [reflexivity|]. cbn [bind].
  destruct (N.leb_spec (len b) 1); [reflexivity|]. cbn [bind].
  destruct (N.leb_spec (len b) 2); [reflexivity|lia].
Qed.
Lemma get24BitsFromBytes_lt b x : get24BitsFromBytes b = Ok x -> x < 16777216.
Proof.
  destruct b as [|a [|b' [|c rest]]]; try (rewrite get24BitsFromBytes_short by (rewrite ?len_cons, ?len_nil; lia); discriminate).
  rewrite get24BitsFromBytes_spec. intros E. injection E as <-.
  apply (unbe_lt [a; b'; c]).
Qed.

(* ---------------------------------------------------------------------------------------------- *)
(* TWCC run-length chunk: all 2^15 words with bit 15 clear                                         *)
(* ---------------------------------------------------------------------------------------------- *)
Definition rlc_word_ok (w : N) : bool :=
  match RLC_unmarshal (be 2 w) with
  | Ok (RLC t s r) => (t =? 0) && (s =? w / 8192) && (r =? w mod 8192) && res_bytes_is (TChunk_marshal (RLC t s r)) (be 2 w)
  | _ => false
  end.
Lemma rlc_word_ok_all : forallb rlc_word_ok (urange (N.to_nat 32768) 0) = true.
Proof. vm_compute. reflexivity. Qed.

Lemma RLC_word w : w < 32768 ->
  RLC_unmarshal (be 2 w) = Ok (RLC 0 (w / 8192) (w mod 8192)) /\
  TChunk_marshal (RLC 0 (w / 8192) (w mod 8192)) = Ok (be 2 w).
Proof.
  intros Hw. pose proof (forallb_urange _ _ _ w rlc_word_ok_all ltac:(lia)) as H. unfold rlc_word_ok in H.
  destruct (RLC_unmarshal (be 2 w)) as [[t s r|]| | |]; try discriminate.
  apply andb_true_iff in H as [H H4]. apply andb_true_iff in H as [H H3]. apply andb_true_iff in H as [H1 H2].
  apply N.eqb_eq in H1, H2, H3. subst. split; [reflexivity|]. apply res_bytes_is_eq. exact H4.
Qed.

(* the statement of the brief: decode, RFC word, re-encode *)
Lemma RLC_word_roundtrip w : w < 32768 ->
  exists c, RLC_unmarshal (be 2 w) = Ok c /\ chunk_ok c = true /\ chunk_word c = w /\ TChunk_marshal c = Ok (be 2 w).
Proof.
  intros Hw. destruct (RLC_word w Hw) as [H1 H2]. eexists. split; [exact H1|]. split; [|split; [|exact H2]].
  - unfold chunk_ok, fits. change (2 ^ 2) with 4. change (2 ^ 13) with 8192.
    destruct (N.ltb_spec (w / 8192) 4); [|lia]. destruct (N.ltb_spec (w mod 8192) 8192); [|lia]. reflexivity.
  - unfold chunk_word. lia.
Qed.

(* the converse: every (symbol, run length) in range *)
Lemma RLC_value_roundtrip t sym run : sym < 4 -> run < 8192 ->
  TChunk_marshal (RLC t sym run) = Ok (be 2 (chunk_word (RLC t sym run))) /\
  RLC_unmarshal (be 2 (chunk_word (RLC t sym run))) = Ok (RLC 0 sym run).
Proof.
  intros Hs Hr. unfold chunk_word. destruct (RLC_word (sym * 8192 + run) ltac:(lia)) as [H1 H2].
  replace ((sym * 8192 + run) / 8192) with sym in * by lia.
  replace ((sym * 8192 + run) mod 8192) with run in * by lia.
  split; [exact H2|exact H1].
Qed.

(* out-of-range fields are masked, never rejected (general bit-field form) *)
Lemma RLC_marshal_spec sym run : RLC_marshal sym run = Ok (be 2 ((sym mod 4) * 8192 + run mod 8192)).
Proof.
  unfold RLC_marshal. do 3 (rewrite setNBitsOfUint16_spec by lia; cbn [bind]). f_equal. f_equal.
  change (2 ^ 1) with 2. change (2 ^ 2) with 4. change (2 ^ 13) with 8192.
  change (16 - 1 - 0) with 15. change (16 - 2 - 1) with 13. change (16 - 13 - 3) with 0.
  change (2 ^ 15) with 32768. change (2 ^ 0) with 1.
  change (0 mod 2 * 32768) with 0. rewrite !N.lor_0_l, N.mul_1_r.
  apply (lor_disjoint_add _ _ 13); change (2 ^ 13) with 8192; lia.
Qed.

(* ---------------------------------------------------------------------------------------------- *)
(* TWCC status-vector chunk: all 2^15 words with bit 15 set                                        *)
(* ---------------------------------------------------------------------------------------------- *)
Definition svc_word_ok (w : N) : bool :=
  match SVC_unmarshal (be 2 w) with
  | Ok c => chunk_ok c && (chunk_word c =? w) && res_bytes_is (TChunk_marshal c) (be 2 w)
  | _ => false
  end.
Lemma svc_word_ok_all : forallb svc_word_ok (urange (N.to_nat 32768) 32768) = true.
Proof. vm_compute. reflexivity. Qed.

Lemma SVC_word_roundtrip w : 32768 <= w < 65536 ->
  exists c, SVC_unmarshal (be 2 w) = Ok c /\ chunk_ok c = true /\ chunk_word c = w /\ TChunk_marshal c = Ok (be 2 w).
Proof.
  intros Hw. pose proof (forallb_urange _ _ _ w svc_word_ok_all ltac:(lia)) as H. unfold svc_word_ok in H.
  destruct (SVC_unmarshal (be 2 w)) as [c| | |]; try discriminate.
  apply andb_true_iff in H as [H H3]. apply andb_true_iff in H as [H1 H2]. apply N.eqb_eq in H2.
  exists c. repeat split; auto. apply res_bytes_is_eq. exact H3.
Qed.

(* the converse: every well-formed vector chunk *)
(* base-B digit strings of equal length with digits below B are determined by their value *)
Lemma digits_inj B : forall l1 l2 a1 a2, length l1 = length l2 ->
  forallb (fun s => s <? B) l1 = true -> forallb (fun s => s <? B) l2 = true ->
  fold_left (fun acc s => acc * B + s) l1 a1 = fold_left (fun acc s => acc * B + s) l2 a2 ->
  a1 = a2 /\ l1 = l2.
Proof.
  induction l1 as [|x l1 IH]; intros [|y l2] a1 a2 HL H1 H2 E; cbn [length] in HL; try discriminate.
  - cbn [fold_left] in E. auto.
  - cbn [fold_left] in E. cbn [forallb] in H1, H2.
    apply andb_true_iff in H1 as [Hx H1]. apply andb_true_iff in H2 as [Hy H2].
    apply N.ltb_lt in Hx, Hy.
    destruct (IH l2 (a1 * B + x) (a2 * B + y) ltac:(lia) H1 H2 E) as [Ea El]. subst l2.
    assert (a1 = a2 /\ x = y) as [-> ->]; [|auto].
    clear - Ea Hx Hy.
    assert (D1 : (a1 * B + x) / B = a1) by (rewrite N.div_add_l by lia; rewrite N.div_small by lia; lia).
    assert (D2 : (a2 * B + y) / B = a2) by (rewrite N.div_add_l by lia; rewrite N.div_small by lia; lia).
    rewrite Ea in D1. rewrite D1 in D2. subst a2. split; [reflexivity|lia].
Qed.

Lemma SVC_value_roundtrip c : chunk_ok c = true -> (match c with SVC _ _ _ => True | _ => False end) ->
  TChunk_marshal c = Ok (be 2 (chunk_word c)) /\ SVC_unmarshal (be 2 (chunk_word c)) = Ok c.
Proof.
  intros Hc Hs. destruct c as [|t ss l]; [contradiction|]. clear Hs.
  assert (Hw : 32768 <= chunk_word (SVC t ss l) < 65536 /\ (ss = 0 -> chunk_word (SVC t ss l) < 49152)
               /\ (ss <> 0 -> 49152 <= chunk_word (SVC t ss l))).
  { unfold chunk_ok in Hc. apply andb_true_iff in Hc as [_ Hc]. unfold chunk_word.
    destruct (N.eqb_spec ss 0) as [->|Hss].
    - apply andb_true_iff in Hc as [Hn Hc]. apply N.eqb_eq in Hn. unfold nl in Hn.
      do 15 (destruct l as [|? l]; [cbn [length] in Hn; try lia|]); [|cbn [length] in Hn; lia].
      cbn [forallb] in Hc. unfold fits in Hc. change (2 ^ 1) with 2 in Hc.
      repeat (apply andb_true_iff in Hc as [?H Hc]). repeat match goal with H : (_ <? _) = true |- _ => apply N.ltb_lt in H end.
      cbn [fold_left]. lia.
    - apply andb_true_iff in Hc as [Hc Hf]. apply andb_true_iff in Hc as [Hs1 Hn]. apply N.eqb_eq in Hn. unfold nl in Hn.
      do 8 (destruct l as [|? l]; [cbn [length] in Hn; try lia|]); [|cbn [length] in Hn; lia].
      cbn [forallb] in Hf. unfold fits in Hf. change (2 ^ 2) with 4 in Hf.
      repeat (apply andb_true_iff in Hf as [?H Hf]). repeat match goal with H : (_ <? _) = true |- _ => apply N.ltb_lt in H end.
      cbn [fold_left]. lia. }
  destruct Hw as (Hr & Hlo & Hhi).
  destruct (SVC_word_roundtrip _ Hr) as (c' & Hu & Hok & Hcw & Hm).
  assert (E : c' = SVC t ss l); [|subst c'; auto].
  destruct c' as [|t' ss' l'].
  { exfalso. unfold chunk_word at 1 in Hcw. unfold chunk_ok, fits in Hok. change (2 ^ 2) with 4 in Hok. change (2 ^ 13) with 8192 in Hok.
    repeat (apply andb_true_iff in Hok as [Hok ?H]). repeat match goal with H : (_ <? _) = true |- _ => apply N.ltb_lt in H end. lia. }
  unfold chunk_ok in Hok, Hc.
  apply andb_true_iff in Hok as [Ht' Hok]. apply andb_true_iff in Hc as [Ht Hc]. apply N.eqb_eq in Ht, Ht'. subst t t'.
  destruct (N.eqb_spec ss 0) as [->|Hss].
  - specialize (Hlo eq_refl).
    destruct (N.eqb_spec ss' 0) as [->|Hss'].
    + apply andb_true_iff in Hok as [Hn' Hf']. apply andb_true_iff in Hc as [Hn Hf]. apply N.eqb_eq in Hn, Hn'.
      unfold chunk_word in Hcw. cbn [N.eqb] in Hcw.
      assert (E : fold_left (fun acc s => acc * 2 + s) l' 0 = fold_left (fun acc s => acc * 2 + s) l 0) by lia.
      unfold fits in Hf, Hf'. change (2 ^ 1) with 2 in Hf, Hf'.
      apply digits_inj in E; auto; [|unfold nl in *; lia]. destruct E as [_ ->]. reflexivity.
    + exfalso. apply andb_true_iff in Hok as [Hok _]. apply andb_true_iff in Hok as [Hs1 _]. apply N.eqb_eq in Hs1. subst ss'.
      unfold chunk_word at 1 in Hcw. cbn [N.eqb Pos.eqb] in Hcw. lia.
  - specialize (Hhi Hss).
    apply andb_true_iff in Hc as [Hc Hf]. apply andb_true_iff in Hc as [Hs1 Hn]. apply N.eqb_eq in Hs1, Hn. subst ss.
    destruct (N.eqb_spec ss' 0) as [->|Hss'].
    + exfalso. apply andb_true_iff in Hok as [Hn' Hf']. apply N.eqb_eq in Hn'.
      assert (Hb : chunk_word (SVC 1 0 l') < 49152).
      { clear - Hn' Hf'. unfold chunk_word. cbn [N.eqb]. unfold nl in Hn'.
        do 15 (destruct l' as [|? l']; [cbn [length] in Hn'; try lia|]); [|cbn [length] in Hn'; lia].
        cbn [forallb] in Hf'. unfold fits in Hf'. change (2 ^ 1) with 2 in Hf'.
        repeat (apply andb_true_iff in Hf' as [?H Hf']). repeat match goal with H : (_ <? _) = true |- _ => apply N.ltb_lt in H end.
        cbn [fold_left]. lia. }
      lia.
    + apply andb_true_iff in Hok as [Hok Hf']. apply andb_true_iff in Hok as [Hs1 Hn']. apply N.eqb_eq in Hs1, Hn'. subst ss'.
      unfold chunk_word in Hcw. cbn [N.eqb Pos.eqb] in Hcw.
      assert (E : fold_left (fun acc s => acc * 4 + s) l' 0 = fold_left (fun acc s => acc * 4 + s) l 0) by lia.
      unfold fits in Hf, Hf'. change (2 ^ 2) with 4 in Hf, Hf'.
      apply digits_inj in E; auto; [|unfold nl in *; lia]. destruct E as [_ ->]. reflexivity.
Qed.

(* ---------------------------------------------------------------------------------------------- *)
(* RecvDelta: all 256 one-octet and all 65536 two-octet encodings                                  *)
(* ---------------------------------------------------------------------------------------------- *)
Definition rd_is (r : res RecvDelta) (t : N) (d : Z) : bool :=
  match r with Ok x => (rd_type x =? t) && (rd_delta x =? d)%Z | _ => false end.
Lemma rd_is_eq r t d : rd_is r t d = true -> r = Ok (mkRecvDelta t d).
Proof.
  destruct r as [[t' d']| | |]; cbn [rd_is rd_type rd_delta]; try discriminate. intros H.
  apply andb_true_iff in H as [H1 H2]. apply N.eqb_eq in H1. apply Z.eqb_eq in H2. subst. reflexivity.
Qed.

Definition rd_small_ok (v : N) : bool :=
  rd_is (RecvDelta_unmarshal [n2b v]) 1 (250 * Z.of_N v) &&
  res_bytes_is (RecvDelta_marshal (mkRecvDelta 1 (250 * Z.of_N v))) [n2b v].
Lemma rd_small_ok_all : forallb rd_small_ok (urange (N.to_nat 256) 0) = true.
Proof. vm_compute. reflexivity. Qed.
Definition rd_large_ok (w : N) : bool :=
  rd_is (RecvDelta_unmarshal (be 2 w)) 2 (250 * int16_of w) &&
  res_bytes_is (RecvDelta_marshal (mkRecvDelta 2 (250 * int16_of w))) (be 2 w).
Lemma rd_large_ok_all : forallb rd_large_ok (urange (N.to_nat 65536) 0) = true.
Proof. vm_compute. reflexivity. Qed.

Lemma RecvDelta_small v : v < 256 ->
  RecvDelta_unmarshal [n2b v] = Ok (mkRecvDelta 1 (250 * Z.of_N v)) /\
  RecvDelta_marshal (mkRecvDelta 1 (250 * Z.of_N v)) = Ok [n2b v].
Proof.
  intros Hv. pose proof (forallb_urange _ _ _ v rd_small_ok_all ltac:(lia)) as H. unfold rd_small_ok in H.
  apply andb_true_iff in H as [H1 H2]. split; [apply rd_is_eq; exact H1|apply res_bytes_is_eq; exact H2].
Qed.
Lemma RecvDelta_large w : w < 65536 ->
  RecvDelta_unmarshal (be 2 w) = Ok (mkRecvDelta 2 (250 * int16_of w)) /\
  RecvDelta_marshal (mkRecvDelta 2 (250 * int16_of w)) = Ok (be 2 w).
Proof.
  intros Hv. pose proof (forallb_urange _ _ _ w rd_large_ok_all ltac:(lia)) as H. unfold rd_large_ok in H.
  apply andb_true_iff in H as [H1 H2]. split; [apply rd_is_eq; exact H1|apply res_bytes_is_eq; exact H2].
Qed.

(* over octets: unmarshal then marshal is the identity on every 1- and 2-octet input *)
Lemma RecvDelta_roundtrip_1 (b : byte) :
  exists d, RecvDelta_unmarshal [b] = Ok d /\ delta_ok d = true /\ RecvDelta_marshal d = Ok [b].
Proof.
  destruct (RecvDelta_small (b2n b) (b2n_lt b)) as [H1 H2]. rewrite n2b_b2n in *.
  eexists. split; [exact H1|]. split; [|exact H2].
  pose proof (b2n_lt b). unfold delta_ok. cbn [rd_type rd_delta N.eqb Pos.eqb].
  rewrite Z.mul_comm, Z.mod_mul, Z.div_mul by lia. cbn [Z.eqb andb].
  destruct (Z.leb_spec 0 (Z.of_N (b2n b))); [|lia]. destruct (Z.leb_spec (Z.of_N (b2n b)) 255); [|lia]. reflexivity.
Qed.
Lemma int16_of_range w : w < 65536 -> (-32768 <= int16_of w <= 32767)%Z.
Proof. intros. unfold int16_of. destruct (N.ltb_spec w 32768); lia. Qed.
Lemma RecvDelta_roundtrip_2 (b0 b1 : byte) :
  exists d, RecvDelta_unmarshal [b0; b1] = Ok d /\ delta_ok d = true /\ RecvDelta_marshal d = Ok [b0; b1].
Proof.
  pose proof (unbe_lt [b0; b1]) as Hlt. cbn [length] in Hlt. change (256 ^ N.of_nat 2) with 65536 in Hlt.
  destruct (RecvDelta_large _ Hlt) as [H1 H2].
  pose proof (be_unbe [b0; b1]) as E. cbn [length] in E. rewrite E in *.
  eexists. split; [exact H1|]. split; [|exact H2].
  pose proof (int16_of_range _ Hlt). unfold delta_ok. cbn [rd_type rd_delta N.eqb Pos.eqb].
  rewrite Z.mul_comm, Z.mod_mul, Z.div_mul by lia. cbn [Z.eqb andb].
  destruct (Z.leb_spec (-32768) (int16_of (unbe [b0; b1]))); [|lia].
  destruct (Z.leb_spec (int16_of (unbe [b0; b1])) 32767); [|lia]. reflexivity.
Qed.

(* the converse: marshal then unmarshal, for every in-range multiple of 250 *)
Lemma RecvDelta_value_roundtrip d : delta_ok d = true ->
  RecvDelta_marshal d = Ok (enc_delta d) /\ RecvDelta_unmarshal (enc_delta d) = Ok d.
Proof.
  destruct d as [t dl]. unfold delta_ok, enc_delta. cbn [rd_type rd_delta]. intros H.
  apply andb_true_iff in H as [Hm H]. apply Z.eqb_eq in Hm.
  assert (Hd : dl = (250 * (dl / 250))%Z) by (pose proof (Z.div_mod dl 250); lia).
  destruct (N.eqb_spec t 1) as [->|Ht].
  - apply andb_true_iff in H as [Ha Hb]. apply Z.leb_le in Ha, Hb.
    destruct (RecvDelta_small (Z.to_N (dl / 250)) ltac:(lia)) as [H1 H2].
    rewrite Z2N.id in H1, H2 by lia. rewrite <- Hd in H1, H2.
    change (be 1 (Z.to_N (dl / 250))) with [n2b (Z.to_N (dl / 250))]. auto.
  - apply andb_true_iff in H as [H Hb]. apply andb_true_iff in H as [Ht2 Ha]. apply N.eqb_eq in Ht2. subst t.
    apply Z.leb_le in Ha, Hb.
    assert (Hw : Z.to_N ((dl / 250) mod 65536) < 65536) by lia.
    destruct (RecvDelta_large _ Hw) as [H1 H2].
    assert (Ei : int16_of (Z.to_N ((dl / 250) mod 65536)) = (dl / 250)%Z).
    { unfold int16_of. destruct (N.ltb_spec (Z.to_N ((dl / 250) mod 65536)) 32768); lia. }
    rewrite Ei in H1, H2. rewrite <- Hd in H1, H2. auto.
Qed.

(* other lengths are rejected *)
Lemma RecvDelta_unmarshal_badlen raw : len raw <> 1 -> len raw <> 2 -> RecvDelta_unmarshal raw = Err.
Proof.
  intros H1 H2. unfold RecvDelta_unmarshal.
  destruct (N.eqb_spec (len raw) 1); [lia|]. destruct (N.eqb_spec (len raw) 2); [lia|]. reflexivity.
Qed.

(* ---------------------------------------------------------------------------------------------- *)
(* CCFB metric block: all 65536 words                                                              *)
(* ---------------------------------------------------------------------------------------------- *)
Definition ccm_of_word (w : N) : CCMetric :=
  if w <? 32768 then mkCCMetric false 0 0 else mkCCMetric true ((w / 8192) mod 4) (w mod 8192).
Definition ccm_eqb (a b : CCMetric) : bool :=
  Bool.eqb (mb_received a) (mb_received b) && (mb_ecn a =? mb_ecn b) && (mb_offset a =? mb_offset b).
Lemma ccm_eqb_eq a b : ccm_eqb a b = true -> a = b.
Proof.
  destruct a as [r1 e1 o1], b as [r2 e2 o2]. unfold ccm_eqb. cbn [mb_received mb_ecn mb_offset]. intros H.
  apply andb_true_iff in H as [H H3]. apply andb_true_iff in H as [H1 H2].
  apply eqb_prop in H1. apply N.eqb_eq in H2, H3. subst. reflexivity.
Qed.
Definition ccm_word_ok (w : N) : bool :=
  match CCMetric_unmarshal (be 2 w) with
  | Ok m => ccm_eqb m (ccm_of_word w) &&
            (if (32768 <=? w) || (w =? 0) then res_bytes_is (CCMetric_marshal m) (be 2 w) && bytes_eqb (enc_metric m) (be 2 w) else true)
            && D_metric m
  | _ => false
  end.
Lemma ccm_word_ok_all : forallb ccm_word_ok (urange (N.to_nat 65536) 0) = true.
Proof. vm_compute. reflexivity. Qed.

Lemma CCMetric_word w : w < 65536 ->
  CCMetric_unmarshal (be 2 w) = Ok (ccm_of_word w) /\ D_metric (ccm_of_word w) = true /\
  (32768 <= w \/ w = 0 -> CCMetric_marshal (ccm_of_word w) = Ok (be 2 w) /\ enc_metric (ccm_of_word w) = be 2 w).
Proof.
  intros Hw. pose proof (forallb_urange _ _ _ w ccm_word_ok_all ltac:(lia)) as H. unfold ccm_word_ok in H.
  destruct (CCMetric_unmarshal (be 2 w)) as [m| | |]; try discriminate.
  apply andb_true_iff in H as [H H3]. apply andb_true_iff in H as [H1 H2]. apply ccm_eqb_eq in H1. subst m.
  split; [reflexivity|]. split; [exact H3|]. intros Hc.
  assert (C : (32768 <=? w) || (w =? 0) = true).
  { destruct Hc as [Hc| ->]; [|reflexivity]. destruct (N.leb_spec 32768 w); [reflexivity|lia]. }
  rewrite C in H2. apply andb_true_iff in H2 as [H2 H4]. split; [apply res_bytes_is_eq; exact H2|].
  apply bytes_eqb_eq. exact H4.
Qed.

(* the converse: every well-formed metric block *)
Lemma CCMetric_value_roundtrip m : D_metric m = true ->
  CCMetric_marshal m = Ok (enc_metric m) /\ CCMetric_unmarshal (enc_metric m) = Ok m.
Proof.
  destruct m as [r e o]. unfold D_metric. cbn [mb_received mb_ecn mb_offset]. intros H.
  destruct r.
  - unfold fits in H. change (2 ^ 2) with 4 in H. change (2 ^ 13) with 8192 in H.
    apply andb_true_iff in H as [He Ho]. apply N.ltb_lt in He, Ho.
    destruct (CCMetric_word (32768 + e * 8192 + o) ltac:(lia)) as (H1 & _ & H2).
    destruct (H2 ltac:(lia)) as [H3 H4].
    assert (E : ccm_of_word (32768 + e * 8192 + o) = mkCCMetric true e o).
    { unfold ccm_of_word. destruct (N.ltb_spec (32768 + e * 8192 + o) 32768); [lia|]. f_equal; lia. }
    rewrite E in *. unfold enc_metric at 1 2. cbn [mb_received mb_ecn mb_offset]. auto.
  - apply andb_true_iff in H as [He Ho]. apply N.eqb_eq in He, Ho. subst.
    destruct (CCMetric_word 0 ltac:(lia)) as (H1 & _ & H2). destruct (H2 ltac:(lia)) as [H3 H4].
    change (ccm_of_word 0) with (mkCCMetric false 0 0) in *.
    unfold enc_metric at 1 2. cbn [mb_received]. auto.
Qed.
