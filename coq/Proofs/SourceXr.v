(* P25 - XR report blocks (RFC 3611): the translated header bookkeeping of extended_report.go
   (setupBlockHeader / unpackBlockHeader / DestinationSSRC of the eight block types, module GoSrc of Gen/Funcs.v)
   equals the generic reflection-based model of Model/Xr.v (setup_block / unpack_block / block_dest).

   The oracle parameter [o_wireSize_1] of T_setupBlockHeader stands for the result of the reflective call wireSize(b);
   in every src_T_setupBlockHeader below it is instantiated with  Z.of_N (blk_wire_size (blk_T b)),  the model's wire size
   (Model.Xr.blk_wire_size = Lib.Reflect.wire_size over the generated layout) of the block itself. *)
From Coq Require Import String.
From RTCP Require Import Proofs.Tactics Lib.GoSem Lib.Reflect Gen.Layouts Gen.Funcs Model.Xr Proofs.GoSemFacts Proofs.SrcConv.
Local Open Scope Z_scope.

(* ================================================================================================ *)
(* 0. generic facts                                                                                  *)
(* ================================================================================================ *)
Section MoreGoSemFacts.
Lemma glenl_length {A} (l : list A) : glenl l = Z.of_nat (List.length l).
Proof. reflexivity. Qed.
Lemma gmakel_ok {A} (z : A) n : 0 <= n -> gmakel z n = Ok (repeat z (Z.to_nat n)).
Proof. intros H. unfold gmakel. destruct (Z.ltb_spec n 0); [lia|reflexivity]. Qed.
Lemma updl_nat_app {A} (v : A) : forall (done rest : list A) x,
  updl_nat (done ++ x :: rest) (List.length done) v = done ++ v :: rest.
Proof. induction done as [|d r IH]; intros rest x; cbn [app List.length updl_nat]; [reflexivity|]. f_equal. apply IH. Qed.
Lemma gupdl_app {A} (v : A) (done rest : list A) x :
  gupdl (done ++ x :: rest) (Z.of_nat (List.length done)) v = Ok (done ++ v :: rest).
Proof.
  unfold gupdl, glenl. rewrite app_length. cbn [List.length].
  destruct (Z.ltb_spec (Z.of_nat (List.length done)) 0); [lia|].
  destruct (Z.leb_spec (Z.of_nat (List.length done + S (List.length rest))) (Z.of_nat (List.length done))); [lia|].
  cbn [orb]. rewrite Nat2Z.id, updl_nat_app. reflexivity.
Qed.
(* uint16(ws/4 - 1) on a wire size of at least one word is the model's block length field *)
Lemma bl_eq ws : (4 <= ws)%N -> Z.to_N (uwrap 16 (Z.quot (Z.of_N ws) 4 - 1)) = u16 (ws / 4 - 1).
Proof. intros H. unfold uwrap, u16. change (2 ^ 16) with 65536. rewrite Z.quot_div_nonneg by lia. lia. Qed.
Lemma to_N_land_r t p : 0 <= t -> Z.to_N (Z.land t (Z.pos p)) = N.land (Z.to_N t) (N.pos p).
Proof. intros H. rewrite <- (Z2N.id t H) at 1. rewrite Zland_N_r, N2Z.id. reflexivity. Qed.
Lemma Zland_ones_mod t k p : Z.pos p = Z.ones k -> 0 <= k -> Z.land t (Z.pos p) = t mod 2 ^ k.
Proof. intros -> Hk. apply Z.land_ones. exact Hk. Qed.
End MoreGoSemFacts.

(* unfolding the generated records: setters, projections and the (loop-free) translated functions *)
Ltac gosrc :=
  cbv beta iota zeta delta [
    GoSrc.DLRRReportBlock_Reports GoSrc.DLRRReportBlock_XRHeader GoSrc.DLRRReport_DLRR GoSrc.DLRRReport_LastRR GoSrc.DLRRReport_SSRC
    GoSrc.DuplicateRLEReportBlock_BeginSeq GoSrc.DuplicateRLEReportBlock_Chunks GoSrc.DuplicateRLEReportBlock_EndSeq
    GoSrc.DuplicateRLEReportBlock_SSRC GoSrc.DuplicateRLEReportBlock_T GoSrc.DuplicateRLEReportBlock_XRHeader GoSrc.LossRLEReportBlock_BeginSeq
    GoSrc.LossRLEReportBlock_Chunks GoSrc.LossRLEReportBlock_EndSeq GoSrc.LossRLEReportBlock_SSRC GoSrc.LossRLEReportBlock_T
    GoSrc.LossRLEReportBlock_XRHeader GoSrc.PacketReceiptTimesReportBlock_BeginSeq GoSrc.PacketReceiptTimesReportBlock_EndSeq
    GoSrc.PacketReceiptTimesReportBlock_ReceiptTime GoSrc.PacketReceiptTimesReportBlock_SSRC GoSrc.PacketReceiptTimesReportBlock_T
    GoSrc.PacketReceiptTimesReportBlock_XRHeader GoSrc.ReceiverReferenceTimeReportBlock_NTPTimestamp
    GoSrc.ReceiverReferenceTimeReportBlock_XRHeader GoSrc.StatisticsSummaryReportBlock_BeginSeq GoSrc.StatisticsSummaryReportBlock_DevJitter
    GoSrc.StatisticsSummaryReportBlock_DevTTLOrHL GoSrc.StatisticsSummaryReportBlock_DupPackets
    GoSrc.StatisticsSummaryReportBlock_DuplicateReports GoSrc.StatisticsSummaryReportBlock_EndSeq
    GoSrc.StatisticsSummaryReportBlock_JitterReports GoSrc.StatisticsSummaryReportBlock_LossReports
    GoSrc.StatisticsSummaryReportBlock_LostPackets GoSrc.StatisticsSummaryReportBlock_MaxJitter GoSrc.StatisticsSummaryReportBlock_MaxTTLOrHL
    GoSrc.StatisticsSummaryReportBlock_MeanJitter GoSrc.StatisticsSummaryReportBlock_MeanTTLOrHL GoSrc.StatisticsSummaryReportBlock_MinJitter
    GoSrc.StatisticsSummaryReportBlock_MinTTLOrHL GoSrc.StatisticsSummaryReportBlock_SSRC GoSrc.StatisticsSummaryReportBlock_TTLorHopLimit
    GoSrc.StatisticsSummaryReportBlock_XRHeader GoSrc.UnknownReportBlock_Bytes GoSrc.UnknownReportBlock_XRHeader
    GoSrc.VoIPMetricsReportBlock_BurstDensity GoSrc.VoIPMetricsReportBlock_BurstDuration GoSrc.VoIPMetricsReportBlock_DiscardRate
    GoSrc.VoIPMetricsReportBlock_EndSystemDelay GoSrc.VoIPMetricsReportBlock_ExtRFactor GoSrc.VoIPMetricsReportBlock_GapDensity
    GoSrc.VoIPMetricsReportBlock_GapDuration GoSrc.VoIPMetricsReportBlock_Gmin GoSrc.VoIPMetricsReportBlock_JBAbsMax
    GoSrc.VoIPMetricsReportBlock_JBMaximum GoSrc.VoIPMetricsReportBlock_JBNominal GoSrc.VoIPMetricsReportBlock_LossRate
    GoSrc.VoIPMetricsReportBlock_MOSCQ GoSrc.VoIPMetricsReportBlock_MOSLQ GoSrc.VoIPMetricsReportBlock_NoiseLevel
    GoSrc.VoIPMetricsReportBlock_RERL GoSrc.VoIPMetricsReportBlock_RFactor GoSrc.VoIPMetricsReportBlock_RXConfig
    GoSrc.VoIPMetricsReportBlock_RoundTripDelay GoSrc.VoIPMetricsReportBlock_SSRC GoSrc.VoIPMetricsReportBlock_SignalLevel
    GoSrc.VoIPMetricsReportBlock_XRHeader GoSrc.XRHeader_BlockLength GoSrc.XRHeader_BlockType GoSrc.XRHeader_TypeSpecific
    GoSrc.set_DLRRReportBlock_Reports GoSrc.set_DLRRReportBlock_XRHeader GoSrc.set_DLRRReport_DLRR GoSrc.set_DLRRReport_LastRR
    GoSrc.set_DLRRReport_SSRC GoSrc.set_DuplicateRLEReportBlock_BeginSeq GoSrc.set_DuplicateRLEReportBlock_Chunks
    GoSrc.set_DuplicateRLEReportBlock_EndSeq GoSrc.set_DuplicateRLEReportBlock_SSRC GoSrc.set_DuplicateRLEReportBlock_T
    GoSrc.set_DuplicateRLEReportBlock_XRHeader GoSrc.set_LossRLEReportBlock_BeginSeq GoSrc.set_LossRLEReportBlock_Chunks
    GoSrc.set_LossRLEReportBlock_EndSeq GoSrc.set_LossRLEReportBlock_SSRC GoSrc.set_LossRLEReportBlock_T GoSrc.set_LossRLEReportBlock_XRHeader
    GoSrc.set_PacketReceiptTimesReportBlock_BeginSeq GoSrc.set_PacketReceiptTimesReportBlock_EndSeq
    GoSrc.set_PacketReceiptTimesReportBlock_ReceiptTime GoSrc.set_PacketReceiptTimesReportBlock_SSRC GoSrc.set_PacketReceiptTimesReportBlock_T
    GoSrc.set_PacketReceiptTimesReportBlock_XRHeader GoSrc.set_ReceiverReferenceTimeReportBlock_NTPTimestamp
    GoSrc.set_ReceiverReferenceTimeReportBlock_XRHeader GoSrc.set_StatisticsSummaryReportBlock_BeginSeq
    GoSrc.set_StatisticsSummaryReportBlock_DevJitter GoSrc.set_StatisticsSummaryReportBlock_DevTTLOrHL
    GoSrc.set_StatisticsSummaryReportBlock_DupPackets GoSrc.set_StatisticsSummaryReportBlock_DuplicateReports
    GoSrc.set_StatisticsSummaryReportBlock_EndSeq GoSrc.set_StatisticsSummaryReportBlock_JitterReports
    GoSrc.set_StatisticsSummaryReportBlock_LossReports GoSrc.set_StatisticsSummaryReportBlock_LostPackets
    GoSrc.set_StatisticsSummaryReportBlock_MaxJitter GoSrc.set_StatisticsSummaryReportBlock_MaxTTLOrHL
    GoSrc.set_StatisticsSummaryReportBlock_MeanJitter GoSrc.set_StatisticsSummaryReportBlock_MeanTTLOrHL
    GoSrc.set_StatisticsSummaryReportBlock_MinJitter GoSrc.set_StatisticsSummaryReportBlock_MinTTLOrHL
    GoSrc.set_StatisticsSummaryReportBlock_SSRC GoSrc.set_StatisticsSummaryReportBlock_TTLorHopLimit
    GoSrc.set_StatisticsSummaryReportBlock_XRHeader GoSrc.set_UnknownReportBlock_Bytes GoSrc.set_UnknownReportBlock_XRHeader
    GoSrc.set_VoIPMetricsReportBlock_BurstDensity GoSrc.set_VoIPMetricsReportBlock_BurstDuration GoSrc.set_VoIPMetricsReportBlock_DiscardRate
    GoSrc.set_VoIPMetricsReportBlock_EndSystemDelay GoSrc.set_VoIPMetricsReportBlock_ExtRFactor GoSrc.set_VoIPMetricsReportBlock_GapDensity
    GoSrc.set_VoIPMetricsReportBlock_GapDuration GoSrc.set_VoIPMetricsReportBlock_Gmin GoSrc.set_VoIPMetricsReportBlock_JBAbsMax
    GoSrc.set_VoIPMetricsReportBlock_JBMaximum GoSrc.set_VoIPMetricsReportBlock_JBNominal GoSrc.set_VoIPMetricsReportBlock_LossRate
    GoSrc.set_VoIPMetricsReportBlock_MOSCQ GoSrc.set_VoIPMetricsReportBlock_MOSLQ GoSrc.set_VoIPMetricsReportBlock_NoiseLevel
    GoSrc.set_VoIPMetricsReportBlock_RERL GoSrc.set_VoIPMetricsReportBlock_RFactor GoSrc.set_VoIPMetricsReportBlock_RXConfig
    GoSrc.set_VoIPMetricsReportBlock_RoundTripDelay GoSrc.set_VoIPMetricsReportBlock_SSRC GoSrc.set_VoIPMetricsReportBlock_SignalLevel
    GoSrc.set_VoIPMetricsReportBlock_XRHeader GoSrc.set_XRHeader_BlockLength GoSrc.set_XRHeader_BlockType GoSrc.set_XRHeader_TypeSpecific
    GoSrc.LossRLEReportBlock_setupBlockHeader GoSrc.LossRLEReportBlock_unpackBlockHeader GoSrc.LossRLEReportBlock_DestinationSSRC
    GoSrc.DuplicateRLEReportBlock_setupBlockHeader GoSrc.DuplicateRLEReportBlock_unpackBlockHeader
    GoSrc.DuplicateRLEReportBlock_DestinationSSRC GoSrc.PacketReceiptTimesReportBlock_setupBlockHeader
    GoSrc.PacketReceiptTimesReportBlock_unpackBlockHeader GoSrc.PacketReceiptTimesReportBlock_DestinationSSRC
    GoSrc.ReceiverReferenceTimeReportBlock_setupBlockHeader GoSrc.ReceiverReferenceTimeReportBlock_unpackBlockHeader
    GoSrc.ReceiverReferenceTimeReportBlock_DestinationSSRC GoSrc.DLRRReportBlock_setupBlockHeader GoSrc.DLRRReportBlock_unpackBlockHeader
    GoSrc.StatisticsSummaryReportBlock_setupBlockHeader
    GoSrc.StatisticsSummaryReportBlock_unpackBlockHeader GoSrc.StatisticsSummaryReportBlock_DestinationSSRC
    GoSrc.VoIPMetricsReportBlock_setupBlockHeader GoSrc.VoIPMetricsReportBlock_unpackBlockHeader GoSrc.VoIPMetricsReportBlock_DestinationSSRC
    GoSrc.UnknownReportBlock_setupBlockHeader GoSrc.UnknownReportBlock_unpackBlockHeader GoSrc.UnknownReportBlock_DestinationSSRC].

(* ================================================================================================ *)
(* 1. conversions  GoSrc.T -> XRBlock                                                                *)
(* ================================================================================================ *)
Definition vz (x : Z) : val := VU (Z.to_N x).
Definition vb (b : bool) : val := VU (if b then 1 else 0)%N.
Definition hdr_val (h : GoSrc.XRHeader) : val :=
  VStruct [vz (GoSrc.XRHeader_BlockType h); vz (GoSrc.XRHeader_TypeSpecific h); vz (GoSrc.XRHeader_BlockLength h)].
Definition fits_XRHeader (h : GoSrc.XRHeader) : Prop :=
  0 <= GoSrc.XRHeader_BlockType h < 256 /\ 0 <= GoSrc.XRHeader_TypeSpecific h < 256 /\ 0 <= GoSrc.XRHeader_BlockLength h < 65536.

(* ================================================================================================ *)
(* 2. ReceiverReferenceTimeReportBlock                                                               *)
(* ================================================================================================ *)
Definition blk_RRT (b : GoSrc.ReceiverReferenceTimeReportBlock) : XRBlock :=
  mkXRBlock KRRT (VStruct [hdr_val (GoSrc.ReceiverReferenceTimeReportBlock_XRHeader b);
                           vz (GoSrc.ReceiverReferenceTimeReportBlock_NTPTimestamp b)]).
Definition fits_RRT (b : GoSrc.ReceiverReferenceTimeReportBlock) : Prop :=
  fits_XRHeader (GoSrc.ReceiverReferenceTimeReportBlock_XRHeader b) /\
  0 <= GoSrc.ReceiverReferenceTimeReportBlock_NTPTimestamp b < 2 ^ 64.

Lemma model_setup_RRT a b c n :
  setup_block (mkXRBlock KRRT (VStruct [VStruct [VU a; VU b; VU c]; VU n])) =
  mkXRBlock KRRT (VStruct [VStruct [VU 4; VU 0; VU 2]; VU n]).
Proof. reflexivity. Qed.
Lemma wire_RRT b : blk_wire_size (blk_RRT b) = 12%N.
Proof. reflexivity. Qed.

(* no hypothesis: setupBlockHeader of this type reads no field *)
Lemma src_RRT_setupBlockHeader : forall b,
  blk_RRT (GoSrc.ReceiverReferenceTimeReportBlock_setupBlockHeader b (Z.of_N (blk_wire_size (blk_RRT b)))) = setup_block (blk_RRT b).
Proof.
  intros b. rewrite wire_RRT. destruct b as [[bt ts bl] ntp]. unfold blk_RRT, hdr_val, vz. gosrc.
  rewrite model_setup_RRT. reflexivity.
Qed.
(* the Go method is empty (translated to the unit value): the receiver is unchanged, and so is the model's block *)
Lemma src_RRT_unpackBlockHeader : forall b,
  GoSrc.ReceiverReferenceTimeReportBlock_unpackBlockHeader b = tt /\ unpack_block (blk_RRT b) = blk_RRT b.
Proof. intros b. split; reflexivity. Qed.
Lemma src_RRT_DestinationSSRC : forall b,
  GoSrc.ReceiverReferenceTimeReportBlock_DestinationSSRC b = zN (block_dest (blk_RRT b)).
Proof. intros b. reflexivity. Qed.

(* ================================================================================================ *)
(* 3. StatisticsSummaryReportBlock                                                                   *)
(* ================================================================================================ *)
Definition blk_SS (b : GoSrc.StatisticsSummaryReportBlock) : XRBlock :=
  mkXRBlock KSS (VStruct [
    hdr_val (GoSrc.StatisticsSummaryReportBlock_XRHeader b);
    vb (GoSrc.StatisticsSummaryReportBlock_LossReports b); vb (GoSrc.StatisticsSummaryReportBlock_DuplicateReports b);
    vb (GoSrc.StatisticsSummaryReportBlock_JitterReports b); vz (GoSrc.StatisticsSummaryReportBlock_TTLorHopLimit b);
    vz (GoSrc.StatisticsSummaryReportBlock_SSRC b); vz (GoSrc.StatisticsSummaryReportBlock_BeginSeq b);
    vz (GoSrc.StatisticsSummaryReportBlock_EndSeq b); vz (GoSrc.StatisticsSummaryReportBlock_LostPackets b);
    vz (GoSrc.StatisticsSummaryReportBlock_DupPackets b); vz (GoSrc.StatisticsSummaryReportBlock_MinJitter b);
    vz (GoSrc.StatisticsSummaryReportBlock_MaxJitter b); vz (GoSrc.StatisticsSummaryReportBlock_MeanJitter b);
    vz (GoSrc.StatisticsSummaryReportBlock_DevJitter b); vz (GoSrc.StatisticsSummaryReportBlock_MinTTLOrHL b);
    vz (GoSrc.StatisticsSummaryReportBlock_MaxTTLOrHL b); vz (GoSrc.StatisticsSummaryReportBlock_MeanTTLOrHL b);
    vz (GoSrc.StatisticsSummaryReportBlock_DevTTLOrHL b)]).
Definition fits_SS (b : GoSrc.StatisticsSummaryReportBlock) : Prop :=
  fits_XRHeader (GoSrc.StatisticsSummaryReportBlock_XRHeader b) /\
  0 <= GoSrc.StatisticsSummaryReportBlock_TTLorHopLimit b < 256 /\
  0 <= GoSrc.StatisticsSummaryReportBlock_SSRC b < 2 ^ 32 /\
  0 <= GoSrc.StatisticsSummaryReportBlock_BeginSeq b < 65536 /\ 0 <= GoSrc.StatisticsSummaryReportBlock_EndSeq b < 65536 /\
  0 <= GoSrc.StatisticsSummaryReportBlock_LostPackets b < 2 ^ 32 /\ 0 <= GoSrc.StatisticsSummaryReportBlock_DupPackets b < 2 ^ 32 /\
  0 <= GoSrc.StatisticsSummaryReportBlock_MinJitter b < 2 ^ 32 /\ 0 <= GoSrc.StatisticsSummaryReportBlock_MaxJitter b < 2 ^ 32 /\
  0 <= GoSrc.StatisticsSummaryReportBlock_MeanJitter b < 2 ^ 32 /\ 0 <= GoSrc.StatisticsSummaryReportBlock_DevJitter b < 2 ^ 32 /\
  0 <= GoSrc.StatisticsSummaryReportBlock_MinTTLOrHL b < 256 /\ 0 <= GoSrc.StatisticsSummaryReportBlock_MaxTTLOrHL b < 256 /\
  0 <= GoSrc.StatisticsSummaryReportBlock_MeanTTLOrHL b < 256 /\ 0 <= GoSrc.StatisticsSummaryReportBlock_DevTTLOrHL b < 256.

(* the type-specific octet the model computes *)
Definition ss_flags (l d j : bool) : N := ((if l then 128 else 0) + (if d then 64 else 0) + (if j then 32 else 0))%N.
Definition ss_ts (l d j : bool) (toh : N) : N := N.lor (ss_flags l d j) (u8 (N.land toh 3 * 8)).

Lemma model_setup_SS a b c l d j toh f5 f6 f7 f8 f9 f10 f11 f12 f13 f14 f15 f16 f17 :
  setup_block (mkXRBlock KSS (VStruct [VStruct [VU a; VU b; VU c]; vb l; vb d; vb j; VU toh;
     f5; f6; f7; f8; f9; f10; f11; f12; f13; f14; f15; f16; f17])) =
  mkXRBlock KSS (VStruct [VStruct [VU 6; VU (ss_ts l d j toh);
       VU (u16 (blk_wire_size (mkXRBlock KSS (VStruct [VStruct [VU a; VU b; VU c]; vb l; vb d; vb j; VU toh;
     f5; f6; f7; f8; f9; f10; f11; f12; f13; f14; f15; f16; f17])) / 4 - 1))]; vb l; vb d; vb j; VU toh;
     f5; f6; f7; f8; f9; f10; f11; f12; f13; f14; f15; f16; f17]).
Proof. destruct l, d, j; reflexivity. Qed.
Lemma wire_SS b : blk_wire_size (blk_SS b) = 40%N.
Proof. reflexivity. Qed.

Lemma ss_ts_go l d j toh : 0 <= toh ->
  Z.to_N (Z.lor (Z.of_N (ss_flags l d j)) (uwrap 8 (gshl (Z.land toh 3) 3))) = ss_ts l d j (Z.to_N toh).
Proof.
  intros H. rewrite <- (Z2N.id toh H) at 1. generalize (Z.to_N toh). intros n. rewrite Zland_N_r. unfold ss_ts.
  generalize (Nland_lt_r n 3 4 eq_refl). generalize (N.land n 3).
  destruct l, d, j; sweep.
Qed.

(* only hypothesis: the uint8 TTLorHopLimit is not negative *)
Lemma src_SS_setupBlockHeader : forall b, 0 <= GoSrc.StatisticsSummaryReportBlock_TTLorHopLimit b ->
  blk_SS (GoSrc.StatisticsSummaryReportBlock_setupBlockHeader b (Z.of_N (blk_wire_size (blk_SS b)))) = setup_block (blk_SS b).
Proof.
  intros b. rewrite wire_SS.
  destruct b as [[bt ts bl] l d j toh ssrc bs es lp dp mnj mxj mej dvj mnt mxt met dvt]. gosrc. intros H.
  unfold blk_SS, hdr_val.
  destruct l, d, j; gosrc; unfold vz; rewrite model_setup_SS; rewrite <- (ss_ts_go _ _ _ toh H); reflexivity.
Qed.

Lemma model_unpack_SS a ts c f1 f2 f3 f4 f5 f6 f7 f8 f9 f10 f11 f12 f13 f14 f15 f16 f17 :
  unpack_block (mkXRBlock KSS (VStruct [VStruct [VU a; VU ts; VU c]; f1; f2; f3; f4;
     f5; f6; f7; f8; f9; f10; f11; f12; f13; f14; f15; f16; f17])) =
  mkXRBlock KSS (VStruct [VStruct [VU a; VU ts; VU c];
     VU (if N.land ts 128 =? 0 then 0 else 1)%N; VU (if N.land ts 64 =? 0 then 0 else 1)%N;
     VU (if N.land ts 32 =? 0 then 0 else 1)%N; VU (N.land ts 24 / 8)%N;
     f5; f6; f7; f8; f9; f10; f11; f12; f13; f14; f15; f16; f17]).
Proof. reflexivity. Qed.
Lemma vb_flag ts p : 0 <= ts ->
  vb (negb (Z.land ts (Z.pos p) =? 0)) = VU (if (N.land (Z.to_N ts) (N.pos p) =? 0)%N then 0 else 1)%N.
Proof.
  intros H. rewrite <- (Z2N.id ts H) at 1. rewrite Zland_N_r, Zeqb_N_0r. unfold vb.
  destruct (N.land (Z.to_N ts) (N.pos p) =? 0)%N; reflexivity.
Qed.
Lemma vz_toh ts : 0 <= ts -> vz (gshr (Z.land ts 24) 3) = VU (N.land (Z.to_N ts) 24 / 8)%N.
Proof.
  intros H. rewrite <- (Z2N.id ts H) at 1. rewrite Zland_N_r, gshr_N_r. unfold vz. rewrite N2Z.id, N.shiftr_div_pow2.
  reflexivity.
Qed.

(* only hypothesis: the uint8 TypeSpecific of the header is not negative *)
Lemma src_SS_unpackBlockHeader : forall b, 0 <= GoSrc.XRHeader_TypeSpecific (GoSrc.StatisticsSummaryReportBlock_XRHeader b) ->
  blk_SS (GoSrc.StatisticsSummaryReportBlock_unpackBlockHeader b) = unpack_block (blk_SS b).
Proof.
  intros b. destruct b as [[bt ts bl] l d j toh ssrc bs es lp dp mnj mxj mej dvj mnt mxt met dvt]. gosrc. intros H.
  unfold blk_SS, hdr_val. gosrc. rewrite !(vb_flag ts _ H), (vz_toh ts H). unfold vz. rewrite model_unpack_SS. reflexivity.
Qed.
Lemma src_SS_DestinationSSRC : forall b, 0 <= GoSrc.StatisticsSummaryReportBlock_SSRC b ->
  GoSrc.StatisticsSummaryReportBlock_DestinationSSRC b = zN (block_dest (blk_SS b)).
Proof.
  intros b. destruct b as [[bt ts bl] l d j toh ssrc bs es lp dp mnj mxj mej dvj mnt mxt met dvt]. gosrc. intros H.
  change (zN (block_dest _)) with [Z.of_N (Z.to_N ssrc)]. rewrite Z2N.id by exact H. reflexivity.
Qed.

(* ================================================================================================ *)
(* 4. LossRLEReportBlock, DuplicateRLEReportBlock, PacketReceiptTimesReportBlock                     *)
(* ================================================================================================ *)
Lemma wire_slice_u16 l : wire_size (TSlice TU16) (VSlice (map vz l)) = (2 * N.of_nat (List.length l))%N.
Proof.
  induction l as [|x l IH]; [reflexivity|].
  change (wire_size (TSlice TU16) (VSlice (map vz (x :: l)))) with (2 + wire_size (TSlice TU16) (VSlice (map vz l)))%N.
  rewrite IH. cbn [List.length]. lia.
Qed.
Lemma wire_slice_u32 l : wire_size (TSlice TU32) (VSlice (map vz l)) = (4 * N.of_nat (List.length l))%N.
Proof.
  induction l as [|x l IH]; [reflexivity|].
  change (wire_size (TSlice TU32) (VSlice (map vz (x :: l)))) with (4 + wire_size (TSlice TU32) (VSlice (map vz l)))%N.
  rewrite IH. cbn [List.length]. lia.
Qed.

(* ------------------------------------------------------------------------------------------------ *)
(* LossRLEReportBlock *)
(* ------------------------------------------------------------------------------------------------ *)
Definition blk_LossRLE (b : GoSrc.LossRLEReportBlock) : XRBlock :=
  mkXRBlock KLossRLE (VStruct [hdr_val (GoSrc.LossRLEReportBlock_XRHeader b); vz (GoSrc.LossRLEReportBlock_T b); vz (GoSrc.LossRLEReportBlock_SSRC b);
    vz (GoSrc.LossRLEReportBlock_BeginSeq b); vz (GoSrc.LossRLEReportBlock_EndSeq b); VSlice (map vz (GoSrc.LossRLEReportBlock_Chunks b))]).
Definition fits_LossRLE (b : GoSrc.LossRLEReportBlock) : Prop :=
  fits_XRHeader (GoSrc.LossRLEReportBlock_XRHeader b) /\ 0 <= GoSrc.LossRLEReportBlock_T b < 256 /\ 0 <= GoSrc.LossRLEReportBlock_SSRC b < 2 ^ 32 /\
  0 <= GoSrc.LossRLEReportBlock_BeginSeq b < 65536 /\ 0 <= GoSrc.LossRLEReportBlock_EndSeq b < 65536 /\
  Forall (fun c => 0 <= c < 65536) (GoSrc.LossRLEReportBlock_Chunks b).

Lemma model_setup_LossRLE a b c t f2 f3 f4 f5 :
  setup_block (mkXRBlock KLossRLE (VStruct [VStruct [VU a; VU b; VU c]; VU t; f2; f3; f4; f5])) =
  mkXRBlock KLossRLE (VStruct [VStruct [VU 1; VU (N.land t 15);
     VU (u16 (blk_wire_size (mkXRBlock KLossRLE (VStruct [VStruct [VU a; VU b; VU c]; VU t; f2; f3; f4; f5])) / 4 - 1))];
     VU t; f2; f3; f4; f5]).
Proof. reflexivity. Qed.
Lemma model_unpack_LossRLE a ts c f1 f2 f3 f4 f5 :
  unpack_block (mkXRBlock KLossRLE (VStruct [VStruct [VU a; VU ts; VU c]; f1; f2; f3; f4; f5])) =
  mkXRBlock KLossRLE (VStruct [VStruct [VU a; VU ts; VU c]; VU (N.land ts 15); f2; f3; f4; f5]).
Proof. reflexivity. Qed.
Lemma wire_LossRLE b : blk_wire_size (blk_LossRLE b) = (12 + 2 * N.of_nat (List.length (GoSrc.LossRLEReportBlock_Chunks b)))%N.
Proof.
  destruct b as [[bt ts bl] t ssrc bs es ch]. unfold blk_LossRLE, hdr_val. gosrc. unfold vz.
  change (blk_wire_size _) with (4 + (0 + (4 + (2 + (2 + (wire_size (TSlice TU16) (VSlice (map vz ch)) + 0))))))%N.
  rewrite wire_slice_u16. lia.
Qed.

(* only hypothesis: the uint8 T is not negative *)
Lemma src_LossRLE_setupBlockHeader : forall b, 0 <= GoSrc.LossRLEReportBlock_T b ->
  blk_LossRLE (GoSrc.LossRLEReportBlock_setupBlockHeader b (Z.of_N (blk_wire_size (blk_LossRLE b)))) = setup_block (blk_LossRLE b).
Proof.
  intros b H. assert (W : (4 <= blk_wire_size (blk_LossRLE b))%N) by (rewrite wire_LossRLE; lia). revert H W.
  destruct b as [[bt ts bl] t ssrc bs es ch]. gosrc. intros H W.
  unfold blk_LossRLE, hdr_val in *. gosrc. unfold vz in *.
  rewrite model_setup_LossRLE, (to_N_land_r t _ H). rewrite bl_eq by exact W. reflexivity.
Qed.
(* only hypothesis: the uint8 TypeSpecific of the header is not negative *)
Lemma src_LossRLE_unpackBlockHeader : forall b, 0 <= GoSrc.XRHeader_TypeSpecific (GoSrc.LossRLEReportBlock_XRHeader b) ->
  blk_LossRLE (GoSrc.LossRLEReportBlock_unpackBlockHeader b) = unpack_block (blk_LossRLE b).
Proof.
  intros b. destruct b as [[bt ts bl] t ssrc bs es ch]. gosrc. intros H.
  unfold blk_LossRLE, hdr_val. gosrc. unfold vz. rewrite model_unpack_LossRLE, (to_N_land_r ts _ H). reflexivity.
Qed.
Lemma src_LossRLE_DestinationSSRC : forall b, 0 <= GoSrc.LossRLEReportBlock_SSRC b ->
  GoSrc.LossRLEReportBlock_DestinationSSRC b = zN (block_dest (blk_LossRLE b)).
Proof.
  intros b. destruct b as [[bt ts bl] t ssrc bs es ch]. gosrc. intros H.
  change (zN (block_dest _)) with [Z.of_N (Z.to_N ssrc)]. rewrite Z2N.id by exact H. reflexivity.
Qed.

(* ------------------------------------------------------------------------------------------------ *)
(* DuplicateRLEReportBlock *)
(* ------------------------------------------------------------------------------------------------ *)
Definition blk_DupRLE (b : GoSrc.DuplicateRLEReportBlock) : XRBlock :=
  mkXRBlock KDupRLE (VStruct [hdr_val (GoSrc.DuplicateRLEReportBlock_XRHeader b); vz (GoSrc.DuplicateRLEReportBlock_T b); vz (GoSrc.DuplicateRLEReportBlock_SSRC b);
    vz (GoSrc.DuplicateRLEReportBlock_BeginSeq b); vz (GoSrc.DuplicateRLEReportBlock_EndSeq b); VSlice (map vz (GoSrc.DuplicateRLEReportBlock_Chunks b))]).
Definition fits_DupRLE (b : GoSrc.DuplicateRLEReportBlock) : Prop :=
  fits_XRHeader (GoSrc.DuplicateRLEReportBlock_XRHeader b) /\ 0 <= GoSrc.DuplicateRLEReportBlock_T b < 256 /\ 0 <= GoSrc.DuplicateRLEReportBlock_SSRC b < 2 ^ 32 /\
  0 <= GoSrc.DuplicateRLEReportBlock_BeginSeq b < 65536 /\ 0 <= GoSrc.DuplicateRLEReportBlock_EndSeq b < 65536 /\
  Forall (fun c => 0 <= c < 65536) (GoSrc.DuplicateRLEReportBlock_Chunks b).

Lemma model_setup_DupRLE a b c t f2 f3 f4 f5 :
  setup_block (mkXRBlock KDupRLE (VStruct [VStruct [VU a; VU b; VU c]; VU t; f2; f3; f4; f5])) =
  mkXRBlock KDupRLE (VStruct [VStruct [VU 2; VU (N.land t 15);
     VU (u16 (blk_wire_size (mkXRBlock KDupRLE (VStruct [VStruct [VU a; VU b; VU c]; VU t; f2; f3; f4; f5])) / 4 - 1))];
     VU t; f2; f3; f4; f5]).
Proof. reflexivity. Qed.
Lemma model_unpack_DupRLE a ts c f1 f2 f3 f4 f5 :
  unpack_block (mkXRBlock KDupRLE (VStruct [VStruct [VU a; VU ts; VU c]; f1; f2; f3; f4; f5])) =
  mkXRBlock KDupRLE (VStruct [VStruct [VU a; VU ts; VU c]; VU (N.land ts 15); f2; f3; f4; f5]).
Proof. reflexivity. Qed.
Lemma wire_DupRLE b : blk_wire_size (blk_DupRLE b) = (12 + 2 * N.of_nat (List.length (GoSrc.DuplicateRLEReportBlock_Chunks b)))%N.
Proof.
  destruct b as [[bt ts bl] t ssrc bs es ch]. unfold blk_DupRLE, hdr_val. gosrc. unfold vz.
  change (blk_wire_size _) with (4 + (0 + (4 + (2 + (2 + (wire_size (TSlice TU16) (VSlice (map vz ch)) + 0))))))%N.
  rewrite wire_slice_u16. lia.
Qed.

(* only hypothesis: the uint8 T is not negative *)
Lemma src_DupRLE_setupBlockHeader : forall b, 0 <= GoSrc.DuplicateRLEReportBlock_T b ->
  blk_DupRLE (GoSrc.DuplicateRLEReportBlock_setupBlockHeader b (Z.of_N (blk_wire_size (blk_DupRLE b)))) = setup_block (blk_DupRLE b).
Proof.
  intros b H. assert (W : (4 <= blk_wire_size (blk_DupRLE b))%N) by (rewrite wire_DupRLE; lia). revert H W.
  destruct b as [[bt ts bl] t ssrc bs es ch]. gosrc. intros H W.
  unfold blk_DupRLE, hdr_val in *. gosrc. unfold vz in *.
  rewrite model_setup_DupRLE, (to_N_land_r t _ H). rewrite bl_eq by exact W. reflexivity.
Qed.
(* only hypothesis: the uint8 TypeSpecific of the header is not negative *)
Lemma src_DupRLE_unpackBlockHeader : forall b, 0 <= GoSrc.XRHeader_TypeSpecific (GoSrc.DuplicateRLEReportBlock_XRHeader b) ->
  blk_DupRLE (GoSrc.DuplicateRLEReportBlock_unpackBlockHeader b) = unpack_block (blk_DupRLE b).
Proof.
  intros b. destruct b as [[bt ts bl] t ssrc bs es ch]. gosrc. intros H.
  unfold blk_DupRLE, hdr_val. gosrc. unfold vz. rewrite model_unpack_DupRLE, (to_N_land_r ts _ H). reflexivity.
Qed.
Lemma src_DupRLE_DestinationSSRC : forall b, 0 <= GoSrc.DuplicateRLEReportBlock_SSRC b ->
  GoSrc.DuplicateRLEReportBlock_DestinationSSRC b = zN (block_dest (blk_DupRLE b)).
Proof.
  intros b. destruct b as [[bt ts bl] t ssrc bs es ch]. gosrc. intros H.
  change (zN (block_dest _)) with [Z.of_N (Z.to_N ssrc)]. rewrite Z2N.id by exact H. reflexivity.
Qed.

(* ------------------------------------------------------------------------------------------------ *)
(* PacketReceiptTimesReportBlock *)
(* ------------------------------------------------------------------------------------------------ *)
Definition blk_PRT (b : GoSrc.PacketReceiptTimesReportBlock) : XRBlock :=
  mkXRBlock KPRT (VStruct [hdr_val (GoSrc.PacketReceiptTimesReportBlock_XRHeader b); vz (GoSrc.PacketReceiptTimesReportBlock_T b); vz (GoSrc.PacketReceiptTimesReportBlock_SSRC b);
    vz (GoSrc.PacketReceiptTimesReportBlock_BeginSeq b); vz (GoSrc.PacketReceiptTimesReportBlock_EndSeq b); VSlice (map vz (GoSrc.PacketReceiptTimesReportBlock_ReceiptTime b))]).
Definition fits_PRT (b : GoSrc.PacketReceiptTimesReportBlock) : Prop :=
  fits_XRHeader (GoSrc.PacketReceiptTimesReportBlock_XRHeader b) /\ 0 <= GoSrc.PacketReceiptTimesReportBlock_T b < 256 /\ 0 <= GoSrc.PacketReceiptTimesReportBlock_SSRC b < 2 ^ 32 /\
  0 <= GoSrc.PacketReceiptTimesReportBlock_BeginSeq b < 65536 /\ 0 <= GoSrc.PacketReceiptTimesReportBlock_EndSeq b < 65536 /\
  Forall (fun c => 0 <= c < 2 ^ 32) (GoSrc.PacketReceiptTimesReportBlock_ReceiptTime b).

Lemma model_setup_PRT a b c t f2 f3 f4 f5 :
  setup_block (mkXRBlock KPRT (VStruct [VStruct [VU a; VU b; VU c]; VU t; f2; f3; f4; f5])) =
  mkXRBlock KPRT (VStruct [VStruct [VU 3; VU (N.land t 15);
     VU (u16 (blk_wire_size (mkXRBlock KPRT (VStruct [VStruct [VU a; VU b; VU c]; VU t; f2; f3; f4; f5])) / 4 - 1))];
     VU t; f2; f3; f4; f5]).
Proof. reflexivity. Qed.
Lemma model_unpack_PRT a ts c f1 f2 f3 f4 f5 :
  unpack_block (mkXRBlock KPRT (VStruct [VStruct [VU a; VU ts; VU c]; f1; f2; f3; f4; f5])) =
  mkXRBlock KPRT (VStruct [VStruct [VU a; VU ts; VU c]; VU (N.land ts 15); f2; f3; f4; f5]).
Proof. reflexivity. Qed.
Lemma wire_PRT b : blk_wire_size (blk_PRT b) = (12 + 4 * N.of_nat (List.length (GoSrc.PacketReceiptTimesReportBlock_ReceiptTime b)))%N.
Proof.
  destruct b as [[bt ts bl] t ssrc bs es ch]. unfold blk_PRT, hdr_val. gosrc. unfold vz.
  change (blk_wire_size _) with (4 + (0 + (4 + (2 + (2 + (wire_size (TSlice TU32) (VSlice (map vz ch)) + 0))))))%N.
  rewrite wire_slice_u32. lia.
Qed.

(* only hypothesis: the uint8 T is not negative *)
Lemma src_PRT_setupBlockHeader : forall b, 0 <= GoSrc.PacketReceiptTimesReportBlock_T b ->
  blk_PRT (GoSrc.PacketReceiptTimesReportBlock_setupBlockHeader b (Z.of_N (blk_wire_size (blk_PRT b)))) = setup_block (blk_PRT b).
Proof.
  intros b H. assert (W : (4 <= blk_wire_size (blk_PRT b))%N) by (rewrite wire_PRT; lia). revert H W.
  destruct b as [[bt ts bl] t ssrc bs es ch]. gosrc. intros H W.
  unfold blk_PRT, hdr_val in *. gosrc. unfold vz in *.
  rewrite model_setup_PRT, (to_N_land_r t _ H). rewrite bl_eq by exact W. reflexivity.
Qed.
(* only hypothesis: the uint8 TypeSpecific of the header is not negative *)
Lemma src_PRT_unpackBlockHeader : forall b, 0 <= GoSrc.XRHeader_TypeSpecific (GoSrc.PacketReceiptTimesReportBlock_XRHeader b) ->
  blk_PRT (GoSrc.PacketReceiptTimesReportBlock_unpackBlockHeader b) = unpack_block (blk_PRT b).
Proof.
  intros b. destruct b as [[bt ts bl] t ssrc bs es ch]. gosrc. intros H.
  unfold blk_PRT, hdr_val. gosrc. unfold vz. rewrite model_unpack_PRT, (to_N_land_r ts _ H). reflexivity.
Qed.
Lemma src_PRT_DestinationSSRC : forall b, 0 <= GoSrc.PacketReceiptTimesReportBlock_SSRC b ->
  GoSrc.PacketReceiptTimesReportBlock_DestinationSSRC b = zN (block_dest (blk_PRT b)).
Proof.
  intros b. destruct b as [[bt ts bl] t ssrc bs es ch]. gosrc. intros H.
  change (zN (block_dest _)) with [Z.of_N (Z.to_N ssrc)]. rewrite Z2N.id by exact H. reflexivity.
Qed.

(* ================================================================================================ *)
(* 5. DLRRReportBlock                                                                                *)
(* ================================================================================================ *)
Definition dlrr_val (r : GoSrc.DLRRReport) : val :=
  VStruct [vz (GoSrc.DLRRReport_SSRC r); vz (GoSrc.DLRRReport_LastRR r); vz (GoSrc.DLRRReport_DLRR r)].
Definition blk_DLRR (b : GoSrc.DLRRReportBlock) : XRBlock :=
  mkXRBlock KDLRR (VStruct [hdr_val (GoSrc.DLRRReportBlock_XRHeader b); VSlice (map dlrr_val (GoSrc.DLRRReportBlock_Reports b))]).
Definition fits_DLRRReport (r : GoSrc.DLRRReport) : Prop :=
  0 <= GoSrc.DLRRReport_SSRC r < 2 ^ 32 /\ 0 <= GoSrc.DLRRReport_LastRR r < 2 ^ 32 /\ 0 <= GoSrc.DLRRReport_DLRR r < 2 ^ 32.
Definition fits_DLRR (b : GoSrc.DLRRReportBlock) : Prop :=
  fits_XRHeader (GoSrc.DLRRReportBlock_XRHeader b) /\ Forall fits_DLRRReport (GoSrc.DLRRReportBlock_Reports b).

Lemma model_setup_DLRR a b c f :
  setup_block (mkXRBlock KDLRR (VStruct [VStruct [VU a; VU b; VU c]; f])) =
  mkXRBlock KDLRR (VStruct [VStruct [VU 5; VU 0;
     VU (u16 (blk_wire_size (mkXRBlock KDLRR (VStruct [VStruct [VU a; VU b; VU c]; f])) / 4 - 1))]; f]).
Proof. reflexivity. Qed.
Lemma wire_slice_dlrr l :
  wire_size (TSlice ly_DLRRReport) (VSlice (map dlrr_val l)) = (12 * N.of_nat (List.length l))%N.
Proof.
  induction l as [|x l IH]; [reflexivity|].
  change (wire_size (TSlice ly_DLRRReport) (VSlice (map dlrr_val (x :: l))))
    with (12 + wire_size (TSlice ly_DLRRReport) (VSlice (map dlrr_val l)))%N.
  rewrite IH. cbn [List.length]. lia.
Qed.
Lemma wire_DLRR b : blk_wire_size (blk_DLRR b) = (4 + 12 * N.of_nat (List.length (GoSrc.DLRRReportBlock_Reports b)))%N.
Proof.
  destruct b as [[bt ts bl] rs]. unfold blk_DLRR, hdr_val. gosrc. unfold vz.
  change (blk_wire_size _) with (4 + (wire_size (TSlice ly_DLRRReport) (VSlice (map dlrr_val rs)) + 0))%N.
  rewrite wire_slice_dlrr. lia.
Qed.

(* no hypothesis *)
Lemma src_DLRR_setupBlockHeader : forall b,
  blk_DLRR (GoSrc.DLRRReportBlock_setupBlockHeader b (Z.of_N (blk_wire_size (blk_DLRR b)))) = setup_block (blk_DLRR b).
Proof.
  intros b. assert (W : (4 <= blk_wire_size (blk_DLRR b))%N) by (rewrite wire_DLRR; lia). revert W.
  destruct b as [[bt ts bl] rs]. intros W.
  unfold blk_DLRR, hdr_val in *. gosrc. unfold vz in *.
  rewrite model_setup_DLRR. rewrite bl_eq by exact W. reflexivity.
Qed.
Lemma src_DLRR_unpackBlockHeader : forall b,
  GoSrc.DLRRReportBlock_unpackBlockHeader b = tt /\ unpack_block (blk_DLRR b) = blk_DLRR b.
Proof. intros b. split; reflexivity. Qed.

Lemma dlrr_dest_loop b : forall rest done,
  GoSrc.DLRRReportBlock_DestinationSSRC_loop1 rest (Z.of_nat (List.length done)) b (done ++ repeat 0 (List.length rest)) =
  Ok (done ++ map GoSrc.DLRRReport_SSRC rest).
Proof.
  induction rest as [|r rest IH]; intros done.
  - cbn [GoSrc.DLRRReportBlock_DestinationSSRC_loop1 List.length repeat map]. reflexivity.
  - cbn [GoSrc.DLRRReportBlock_DestinationSSRC_loop1 List.length repeat map].
    rewrite gupdl_app. cbn [bind].
    replace (Z.of_nat (List.length done) + 1) with (Z.of_nat (List.length (done ++ [GoSrc.DLRRReport_SSRC r])))
      by (rewrite app_length; cbn [List.length]; lia).
    change (done ++ GoSrc.DLRRReport_SSRC r :: repeat 0 (List.length rest))
      with (done ++ [GoSrc.DLRRReport_SSRC r] ++ repeat 0 (List.length rest)).
    rewrite app_assoc, IH, <- app_assoc. reflexivity.
Qed.
Lemma dlrr_dest_loop0 b rest :
  GoSrc.DLRRReportBlock_DestinationSSRC_loop1 rest 0 b (repeat 0 (List.length rest)) = Ok (map GoSrc.DLRRReport_SSRC rest).
Proof. exact (dlrr_dest_loop b rest []). Qed.
Lemma model_dest_DLRR b :
  block_dest (blk_DLRR b) = map (fun r => Z.to_N (GoSrc.DLRRReport_SSRC r)) (GoSrc.DLRRReportBlock_Reports b).
Proof.
  destruct b as [[bt ts bl] rs]. unfold blk_DLRR. gosrc.
  change (block_dest _) with (map (fun r => val_N (get_field ly_DLRRReport r "SSRC"%string)) (map dlrr_val rs)).
  rewrite map_map. reflexivity.
Qed.
(* hypothesis: no report has a negative SSRC.  The fuel-free range loop always terminates; the index writes never panic. *)
Lemma src_DLRR_DestinationSSRC : forall b,
  Forall (fun r => 0 <= GoSrc.DLRRReport_SSRC r) (GoSrc.DLRRReportBlock_Reports b) ->
  GoSrc.DLRRReportBlock_DestinationSSRC b = Ok (zN (block_dest (blk_DLRR b))).
Proof.
  intros b H. rewrite model_dest_DLRR. unfold GoSrc.DLRRReportBlock_DestinationSSRC.
  rewrite gmakel_ok by (unfold glenl; lia). cbn [bind]. unfold glenl. rewrite Nat2Z.id.
  rewrite dlrr_dest_loop0. f_equal.
  unfold zN. rewrite map_map. apply map_ext_in. intros r Hr. rewrite Forall_forall in H. rewrite Z2N.id by (apply H; exact Hr).
  reflexivity.
Qed.

(* ================================================================================================ *)
(* 6. VoIPMetricsReportBlock  (the unexported padding octet "_" of the Go struct is the VU 0 after RXConfig) *)
(* ================================================================================================ *)
Definition blk_VoIP (b : GoSrc.VoIPMetricsReportBlock) : XRBlock :=
  mkXRBlock KVoIP (VStruct [hdr_val (GoSrc.VoIPMetricsReportBlock_XRHeader b);
    vz (GoSrc.VoIPMetricsReportBlock_SSRC b);
    vz (GoSrc.VoIPMetricsReportBlock_LossRate b);
    vz (GoSrc.VoIPMetricsReportBlock_DiscardRate b);
    vz (GoSrc.VoIPMetricsReportBlock_BurstDensity b);
    vz (GoSrc.VoIPMetricsReportBlock_GapDensity b);
    vz (GoSrc.VoIPMetricsReportBlock_BurstDuration b);
    vz (GoSrc.VoIPMetricsReportBlock_GapDuration b);
    vz (GoSrc.VoIPMetricsReportBlock_RoundTripDelay b);
    vz (GoSrc.VoIPMetricsReportBlock_EndSystemDelay b);
    vz (GoSrc.VoIPMetricsReportBlock_SignalLevel b);
    vz (GoSrc.VoIPMetricsReportBlock_NoiseLevel b);
    vz (GoSrc.VoIPMetricsReportBlock_RERL b);
    vz (GoSrc.VoIPMetricsReportBlock_Gmin b);
    vz (GoSrc.VoIPMetricsReportBlock_RFactor b);
    vz (GoSrc.VoIPMetricsReportBlock_ExtRFactor b);
    vz (GoSrc.VoIPMetricsReportBlock_MOSLQ b);
    vz (GoSrc.VoIPMetricsReportBlock_MOSCQ b);
    vz (GoSrc.VoIPMetricsReportBlock_RXConfig b);
    VU 0%N;
    vz (GoSrc.VoIPMetricsReportBlock_JBNominal b);
    vz (GoSrc.VoIPMetricsReportBlock_JBMaximum b);
    vz (GoSrc.VoIPMetricsReportBlock_JBAbsMax b)]).
Definition fits_VoIP (b : GoSrc.VoIPMetricsReportBlock) : Prop :=
  fits_XRHeader (GoSrc.VoIPMetricsReportBlock_XRHeader b) /\
  0 <= GoSrc.VoIPMetricsReportBlock_SSRC b < 2 ^ 32 /\
  0 <= GoSrc.VoIPMetricsReportBlock_LossRate b < 256 /\
  0 <= GoSrc.VoIPMetricsReportBlock_DiscardRate b < 256 /\
  0 <= GoSrc.VoIPMetricsReportBlock_BurstDensity b < 256 /\
  0 <= GoSrc.VoIPMetricsReportBlock_GapDensity b < 256 /\
  0 <= GoSrc.VoIPMetricsReportBlock_BurstDuration b < 65536 /\
  0 <= GoSrc.VoIPMetricsReportBlock_GapDuration b < 65536 /\
  0 <= GoSrc.VoIPMetricsReportBlock_RoundTripDelay b < 65536 /\
  0 <= GoSrc.VoIPMetricsReportBlock_EndSystemDelay b < 65536 /\
  0 <= GoSrc.VoIPMetricsReportBlock_SignalLevel b < 256 /\
  0 <= GoSrc.VoIPMetricsReportBlock_NoiseLevel b < 256 /\
  0 <= GoSrc.VoIPMetricsReportBlock_RERL b < 256 /\
  0 <= GoSrc.VoIPMetricsReportBlock_Gmin b < 256 /\
  0 <= GoSrc.VoIPMetricsReportBlock_RFactor b < 256 /\
  0 <= GoSrc.VoIPMetricsReportBlock_ExtRFactor b < 256 /\
  0 <= GoSrc.VoIPMetricsReportBlock_MOSLQ b < 256 /\
  0 <= GoSrc.VoIPMetricsReportBlock_MOSCQ b < 256 /\
  0 <= GoSrc.VoIPMetricsReportBlock_RXConfig b < 256 /\
  0 <= GoSrc.VoIPMetricsReportBlock_JBNominal b < 65536 /\
  0 <= GoSrc.VoIPMetricsReportBlock_JBMaximum b < 65536 /\
  0 <= GoSrc.VoIPMetricsReportBlock_JBAbsMax b < 65536.

Lemma model_setup_VoIP a b c f1 f2 f3 f4 f5 f6 f7 f8 f9 f10 f11 f12 f13 f14 f15 f16 f17 f18 f19 f20 f21 f22 :
  setup_block (mkXRBlock KVoIP (VStruct [VStruct [VU a; VU b; VU c]; f1; f2; f3; f4; f5; f6; f7; f8; f9; f10; f11; f12; f13; f14; f15; f16; f17; f18; f19; f20; f21; f22])) =
  mkXRBlock KVoIP (VStruct [VStruct [VU 7; VU 0;
     VU (u16 (blk_wire_size (mkXRBlock KVoIP (VStruct [VStruct [VU a; VU b; VU c]; f1; f2; f3; f4; f5; f6; f7; f8; f9; f10; f11; f12; f13; f14; f15; f16; f17; f18; f19; f20; f21; f22])) / 4 - 1))]; f1; f2; f3; f4; f5; f6; f7; f8; f9; f10; f11; f12; f13; f14; f15; f16; f17; f18; f19; f20; f21; f22]).
Proof. reflexivity. Qed.
Lemma wire_VoIP b : blk_wire_size (blk_VoIP b) = 36%N.
Proof. reflexivity. Qed.

(* no hypothesis *)
Lemma src_VoIP_setupBlockHeader : forall b,
  blk_VoIP (GoSrc.VoIPMetricsReportBlock_setupBlockHeader b (Z.of_N (blk_wire_size (blk_VoIP b)))) = setup_block (blk_VoIP b).
Proof.
  intros b. rewrite wire_VoIP. destruct b as [[bt ts bl] x1 x2 x3 x4 x5 x6 x7 x8 x9 x10 x11 x12 x13 x14 x15 x16 x17 x18 x19 x20 x21].
  unfold blk_VoIP, hdr_val. gosrc. unfold vz. rewrite model_setup_VoIP. reflexivity.
Qed.
Lemma src_VoIP_unpackBlockHeader : forall b,
  GoSrc.VoIPMetricsReportBlock_unpackBlockHeader b = tt /\ unpack_block (blk_VoIP b) = blk_VoIP b.
Proof. intros b. split; reflexivity. Qed.
Lemma src_VoIP_DestinationSSRC : forall b, 0 <= GoSrc.VoIPMetricsReportBlock_SSRC b ->
  GoSrc.VoIPMetricsReportBlock_DestinationSSRC b = zN (block_dest (blk_VoIP b)).
Proof.
  intros b. destruct b as [[bt ts bl] x1 x2 x3 x4 x5 x6 x7 x8 x9 x10 x11 x12 x13 x14 x15 x16 x17 x18 x19 x20 x21]. gosrc. intros H.
  change (zN (block_dest _)) with [Z.of_N (Z.to_N x1)]. rewrite Z2N.id by exact H. reflexivity.
Qed.

(* ================================================================================================ *)
(* 7. UnknownReportBlock                                                                             *)
(* ================================================================================================ *)
Definition vbyte (x : byte) : val := VU (b2n x).
Definition blk_Unknown (b : GoSrc.UnknownReportBlock) : XRBlock :=
  mkXRBlock KUnknown (VStruct [hdr_val (GoSrc.UnknownReportBlock_XRHeader b); VSlice (map vbyte (GoSrc.UnknownReportBlock_Bytes b))]).
Definition fits_Unknown (b : GoSrc.UnknownReportBlock) : Prop := fits_XRHeader (GoSrc.UnknownReportBlock_XRHeader b).

Lemma model_setup_Unknown a b c f :
  setup_block (mkXRBlock KUnknown (VStruct [VStruct [VU a; VU b; VU c]; f])) =
  mkXRBlock KUnknown (VStruct [VStruct [VU a; VU b;
     VU (u16 (blk_wire_size (mkXRBlock KUnknown (VStruct [VStruct [VU a; VU b; VU c]; f])) / 4 - 1))]; f]).
Proof. reflexivity. Qed.
Lemma wire_slice_u8 l : wire_size (TSlice TU8) (VSlice (map vbyte l)) = N.of_nat (List.length l).
Proof.
  induction l as [|x l IH]; [reflexivity|].
  change (wire_size (TSlice TU8) (VSlice (map vbyte (x :: l)))) with (1 + wire_size (TSlice TU8) (VSlice (map vbyte l)))%N.
  rewrite IH. cbn [List.length]. lia.
Qed.
Lemma wire_Unknown b : blk_wire_size (blk_Unknown b) = (4 + len (GoSrc.UnknownReportBlock_Bytes b))%N.
Proof.
  destruct b as [[bt ts bl] bs]. unfold blk_Unknown, hdr_val. gosrc. unfold vz.
  change (blk_wire_size _) with (4 + (wire_size (TSlice TU8) (VSlice (map vbyte bs)) + 0))%N.
  rewrite wire_slice_u8. unfold len. lia.
Qed.

(* no hypothesis: block type and type-specific octet are left as they are, only the length is written *)
Lemma src_Unknown_setupBlockHeader : forall b,
  blk_Unknown (GoSrc.UnknownReportBlock_setupBlockHeader b (Z.of_N (blk_wire_size (blk_Unknown b)))) = setup_block (blk_Unknown b).
Proof.
  intros b. assert (W : (4 <= blk_wire_size (blk_Unknown b))%N) by (rewrite wire_Unknown; lia). revert W.
  destruct b as [[bt ts bl] bs]. intros W.
  unfold blk_Unknown, hdr_val in *. gosrc. unfold vz in *.
  rewrite model_setup_Unknown. rewrite bl_eq by exact W. reflexivity.
Qed.
Lemma src_Unknown_unpackBlockHeader : forall b,
  GoSrc.UnknownReportBlock_unpackBlockHeader b = tt /\ unpack_block (blk_Unknown b) = blk_Unknown b.
Proof. intros b. split; reflexivity. Qed.
Lemma src_Unknown_DestinationSSRC : forall b,
  GoSrc.UnknownReportBlock_DestinationSSRC b = zN (block_dest (blk_Unknown b)).
Proof. intros b. reflexivity. Qed.

(* ================================================================================================ *)
(* 8. consequences on the translated functions alone (Props/C15.v on the source side)                *)
(* ================================================================================================ *)
Definition b2z (b : bool) : Z := if b then 1 else 0.
Lemma land15_mod t : Z.land t 15 = t mod 16.
Proof. change 15 with (Z.ones 4). rewrite Z.land_ones by lia. reflexivity. Qed.
Lemma land3_mod t : Z.land t 3 = t mod 4.
Proof. change 3 with (Z.ones 2). rewrite Z.land_ones by lia. reflexivity. Qed.
Lemma mod4_N t : exists m, (m < 4)%N /\ t mod 4 = Z.of_N m.
Proof. exists (Z.to_N (t mod 4)). pose proof (Z.mod_pos_bound t 4). lia. Qed.
(* the block length octets: (BlockLength + 1) words is the wire size the oracle reported *)
Lemma block_length_words ws : 4 <= ws <= 262144 -> ws mod 4 = 0 -> (uwrap 16 (Z.quot ws 4 - 1) + 1) * 4 = ws.
Proof.
  intros H M. rewrite Z.quot_div_nonneg by lia. rewrite uwrap_small by (change (2 ^ 16) with 65536; lia). lia.
Qed.
(* beyond 2^18 octets the 16-bit length wraps (as in the model, which applies u16) *)
Lemma source_C15_block_length_wraps_refuted : exists ws, ws mod 4 = 0 /\ (uwrap 16 (Z.quot ws 4 - 1) + 1) * 4 <> ws.
Proof. exists 262148. split; [reflexivity|]. vm_compute. discriminate. Qed.
Lemma ss_ts_sum l d j toh :
  Z.lor (Z.of_N (ss_flags l d j)) (uwrap 8 (gshl (Z.land toh 3) 3)) = 128 * b2z l + 64 * b2z d + 32 * b2z j + 8 * (toh mod 4).
Proof.
  rewrite land3_mod. destruct (mod4_N toh) as [m [Hm ->]]. revert m Hm. destruct l, d, j; sweep.
Qed.
Lemma ss_bits l d j m : (m < 4)%N ->
  let ts := 128 * b2z l + 64 * b2z d + 32 * b2z j + 8 * Z.of_N m in
  negb (Z.land ts 128 =? 0) = l /\ negb (Z.land ts 64 =? 0) = d /\ negb (Z.land ts 32 =? 0) = j /\ gshr (Z.land ts 24) 3 = Z.of_N m.
Proof.
  intros Hm. assert (C : (m = 0 \/ m = 1 \/ m = 2 \/ m = 3)%N) by lia.
  destruct l, d, j; destruct C as [->|[->|[->| ->]]]; vm_compute; repeat split.
Qed.

(* ------------------------------ LossRLEReportBlock ------------------------------ *)
Lemma source_C15_LossRLE_setup : forall b ws,
  GoSrc.LossRLEReportBlock_setupBlockHeader b ws =
  GoSrc.set_LossRLEReportBlock_XRHeader (GoSrc.mkXRHeader 1 (GoSrc.LossRLEReportBlock_T b mod 16) (uwrap 16 (Z.quot ws 4 - 1))) b.
Proof. intros b ws. destruct b as [[bt ts bl] t ssrc bs es ch]. gosrc. rewrite land15_mod. reflexivity. Qed.
Lemma source_C15_LossRLE_block_type : forall b ws,
  GoSrc.XRHeader_BlockType (GoSrc.LossRLEReportBlock_XRHeader (GoSrc.LossRLEReportBlock_setupBlockHeader b ws)) = 1.
Proof. intros b ws. rewrite source_C15_LossRLE_setup. destruct b as [[bt ts bl] t ssrc bs es ch]. reflexivity. Qed.
Lemma source_C15_LossRLE_type_specific : forall b ws,
  GoSrc.XRHeader_TypeSpecific (GoSrc.LossRLEReportBlock_XRHeader (GoSrc.LossRLEReportBlock_setupBlockHeader b ws)) = (GoSrc.LossRLEReportBlock_T b mod 16).
Proof. intros b ws. rewrite source_C15_LossRLE_setup. destruct b as [[bt ts bl] t ssrc bs es ch]. reflexivity. Qed.
Lemma source_C15_LossRLE_block_length : forall b ws, 4 <= ws <= 262144 -> ws mod 4 = 0 ->
  (GoSrc.XRHeader_BlockLength (GoSrc.LossRLEReportBlock_XRHeader (GoSrc.LossRLEReportBlock_setupBlockHeader b ws)) + 1) * 4 = ws.
Proof.
  intros b ws H M. rewrite source_C15_LossRLE_setup. destruct b as [[bt ts bl] t ssrc bs es ch]. gosrc.
  apply block_length_words; assumption.
Qed.
(* unpackBlockHeader after setupBlockHeader: T comes back reduced to its four bits, everything else as set up *)
Lemma source_C15_LossRLE_unpack_setup : forall b ws,
  GoSrc.LossRLEReportBlock_unpackBlockHeader (GoSrc.LossRLEReportBlock_setupBlockHeader b ws) =
  GoSrc.set_LossRLEReportBlock_T (GoSrc.LossRLEReportBlock_T b mod 16) (GoSrc.LossRLEReportBlock_setupBlockHeader b ws).
Proof.
  intros b ws. rewrite source_C15_LossRLE_setup. destruct b as [[bt ts bl] t ssrc bs es ch]. gosrc.
  rewrite land15_mod, Z.mod_mod by discriminate. reflexivity.
Qed.
Lemma source_C15_LossRLE_unpack_setup_T : forall b ws,
  GoSrc.LossRLEReportBlock_T (GoSrc.LossRLEReportBlock_unpackBlockHeader (GoSrc.LossRLEReportBlock_setupBlockHeader b ws)) = GoSrc.LossRLEReportBlock_T b mod 16.
Proof. intros b ws. rewrite source_C15_LossRLE_unpack_setup. destruct b as [[bt ts bl] t ssrc bs es ch]. reflexivity. Qed.
Lemma source_C15_LossRLE_unpack_setup_id : forall b ws, 0 <= GoSrc.LossRLEReportBlock_T b < 16 ->
  GoSrc.LossRLEReportBlock_unpackBlockHeader (GoSrc.LossRLEReportBlock_setupBlockHeader b ws) = GoSrc.LossRLEReportBlock_setupBlockHeader b ws.
Proof.
  intros b ws H. rewrite source_C15_LossRLE_unpack_setup, source_C15_LossRLE_setup. destruct b as [[bt ts bl] t ssrc bs es ch]. gosrc.
  revert H. gosrc. intros H. rewrite Z.mod_small by exact H. reflexivity.
Qed.
(* setupBlockHeader after unpackBlockHeader (decode, then re-encode): the reserved high nibble of the octet is cleared *)
Lemma source_C15_LossRLE_setup_unpack : forall b ws,
  GoSrc.XRHeader_TypeSpecific (GoSrc.LossRLEReportBlock_XRHeader (GoSrc.LossRLEReportBlock_setupBlockHeader (GoSrc.LossRLEReportBlock_unpackBlockHeader b) ws)) =
  GoSrc.XRHeader_TypeSpecific (GoSrc.LossRLEReportBlock_XRHeader b) mod 16.
Proof.
  intros b ws. rewrite source_C15_LossRLE_type_specific. destruct b as [[bt ts bl] t ssrc bs es ch]. gosrc.
  rewrite land15_mod, Z.mod_mod by discriminate. reflexivity.
Qed.

(* ------------------------------ DuplicateRLEReportBlock ------------------------------ *)
Lemma source_C15_DupRLE_setup : forall b ws,
  GoSrc.DuplicateRLEReportBlock_setupBlockHeader b ws =
  GoSrc.set_DuplicateRLEReportBlock_XRHeader (GoSrc.mkXRHeader 2 (GoSrc.DuplicateRLEReportBlock_T b mod 16) (uwrap 16 (Z.quot ws 4 - 1))) b.
Proof. intros b ws. destruct b as [[bt ts bl] t ssrc bs es ch]. gosrc. rewrite land15_mod. reflexivity. Qed.
Lemma source_C15_DupRLE_block_type : forall b ws,
  GoSrc.XRHeader_BlockType (GoSrc.DuplicateRLEReportBlock_XRHeader (GoSrc.DuplicateRLEReportBlock_setupBlockHeader b ws)) = 2.
Proof. intros b ws. rewrite source_C15_DupRLE_setup. destruct b as [[bt ts bl] t ssrc bs es ch]. reflexivity. Qed.
Lemma source_C15_DupRLE_type_specific : forall b ws,
  GoSrc.XRHeader_TypeSpecific (GoSrc.DuplicateRLEReportBlock_XRHeader (GoSrc.DuplicateRLEReportBlock_setupBlockHeader b ws)) = (GoSrc.DuplicateRLEReportBlock_T b mod 16).
Proof. intros b ws. rewrite source_C15_DupRLE_setup. destruct b as [[bt ts bl] t ssrc bs es ch]. reflexivity. Qed.
Lemma source_C15_DupRLE_block_length : forall b ws, 4 <= ws <= 262144 -> ws mod 4 = 0 ->
  (GoSrc.XRHeader_BlockLength (GoSrc.DuplicateRLEReportBlock_XRHeader (GoSrc.DuplicateRLEReportBlock_setupBlockHeader b ws)) + 1) * 4 = ws.
Proof.
  intros b ws H M. rewrite source_C15_DupRLE_setup. destruct b as [[bt ts bl] t ssrc bs es ch]. gosrc.
  apply block_length_words; assumption.
Qed.
(* unpackBlockHeader after setupBlockHeader: T comes back reduced to its four bits, everything else as set up *)
Lemma source_C15_DupRLE_unpack_setup : forall b ws,
  GoSrc.DuplicateRLEReportBlock_unpackBlockHeader (GoSrc.DuplicateRLEReportBlock_setupBlockHeader b ws) =
  GoSrc.set_DuplicateRLEReportBlock_T (GoSrc.DuplicateRLEReportBlock_T b mod 16) (GoSrc.DuplicateRLEReportBlock_setupBlockHeader b ws).
Proof.
  intros b ws. rewrite source_C15_DupRLE_setup. destruct b as [[bt ts bl] t ssrc bs es ch]. gosrc.
  rewrite land15_mod, Z.mod_mod by discriminate. reflexivity.
Qed.
Lemma source_C15_DupRLE_unpack_setup_T : forall b ws,
  GoSrc.DuplicateRLEReportBlock_T (GoSrc.DuplicateRLEReportBlock_unpackBlockHeader (GoSrc.DuplicateRLEReportBlock_setupBlockHeader b ws)) = GoSrc.DuplicateRLEReportBlock_T b mod 16.
Proof. intros b ws. rewrite source_C15_DupRLE_unpack_setup. destruct b as [[bt ts bl] t ssrc bs es ch]. reflexivity. Qed.
Lemma source_C15_DupRLE_unpack_setup_id : forall b ws, 0 <= GoSrc.DuplicateRLEReportBlock_T b < 16 ->
  GoSrc.DuplicateRLEReportBlock_unpackBlockHeader (GoSrc.DuplicateRLEReportBlock_setupBlockHeader b ws) = GoSrc.DuplicateRLEReportBlock_setupBlockHeader b ws.
Proof.
  intros b ws H. rewrite source_C15_DupRLE_unpack_setup, source_C15_DupRLE_setup. destruct b as [[bt ts bl] t ssrc bs es ch]. gosrc.
  revert H. gosrc. intros H. rewrite Z.mod_small by exact H. reflexivity.
Qed.
(* setupBlockHeader after unpackBlockHeader (decode, then re-encode): the reserved high nibble of the octet is cleared *)
Lemma source_C15_DupRLE_setup_unpack : forall b ws,
  GoSrc.XRHeader_TypeSpecific (GoSrc.DuplicateRLEReportBlock_XRHeader (GoSrc.DuplicateRLEReportBlock_setupBlockHeader (GoSrc.DuplicateRLEReportBlock_unpackBlockHeader b) ws)) =
  GoSrc.XRHeader_TypeSpecific (GoSrc.DuplicateRLEReportBlock_XRHeader b) mod 16.
Proof.
  intros b ws. rewrite source_C15_DupRLE_type_specific. destruct b as [[bt ts bl] t ssrc bs es ch]. gosrc.
  rewrite land15_mod, Z.mod_mod by discriminate. reflexivity.
Qed.

(* ------------------------------ PacketReceiptTimesReportBlock ------------------------------ *)
Lemma source_C15_PRT_setup : forall b ws,
  GoSrc.PacketReceiptTimesReportBlock_setupBlockHeader b ws =
  GoSrc.set_PacketReceiptTimesReportBlock_XRHeader (GoSrc.mkXRHeader 3 (GoSrc.PacketReceiptTimesReportBlock_T b mod 16) (uwrap 16 (Z.quot ws 4 - 1))) b.
Proof. intros b ws. destruct b as [[bt ts bl] t ssrc bs es ch]. gosrc. rewrite land15_mod. reflexivity. Qed.
Lemma source_C15_PRT_block_type : forall b ws,
  GoSrc.XRHeader_BlockType (GoSrc.PacketReceiptTimesReportBlock_XRHeader (GoSrc.PacketReceiptTimesReportBlock_setupBlockHeader b ws)) = 3.
Proof. intros b ws. rewrite source_C15_PRT_setup. destruct b as [[bt ts bl] t ssrc bs es ch]. reflexivity. Qed.
Lemma source_C15_PRT_type_specific : forall b ws,
  GoSrc.XRHeader_TypeSpecific (GoSrc.PacketReceiptTimesReportBlock_XRHeader (GoSrc.PacketReceiptTimesReportBlock_setupBlockHeader b ws)) = (GoSrc.PacketReceiptTimesReportBlock_T b mod 16).
Proof. intros b ws. rewrite source_C15_PRT_setup. destruct b as [[bt ts bl] t ssrc bs es ch]. reflexivity. Qed.
Lemma source_C15_PRT_block_length : forall b ws, 4 <= ws <= 262144 -> ws mod 4 = 0 ->
  (GoSrc.XRHeader_BlockLength (GoSrc.PacketReceiptTimesReportBlock_XRHeader (GoSrc.PacketReceiptTimesReportBlock_setupBlockHeader b ws)) + 1) * 4 = ws.
Proof.
  intros b ws H M. rewrite source_C15_PRT_setup. destruct b as [[bt ts bl] t ssrc bs es ch]. gosrc.
  apply block_length_words; assumption.
Qed.
(* unpackBlockHeader after setupBlockHeader: T comes back reduced to its four bits, everything else as set up *)
Lemma source_C15_PRT_unpack_setup : forall b ws,
  GoSrc.PacketReceiptTimesReportBlock_unpackBlockHeader (GoSrc.PacketReceiptTimesReportBlock_setupBlockHeader b ws) =
  GoSrc.set_PacketReceiptTimesReportBlock_T (GoSrc.PacketReceiptTimesReportBlock_T b mod 16) (GoSrc.PacketReceiptTimesReportBlock_setupBlockHeader b ws).
Proof.
  intros b ws. rewrite source_C15_PRT_setup. destruct b as [[bt ts bl] t ssrc bs es ch]. gosrc.
  rewrite land15_mod, Z.mod_mod by discriminate. reflexivity.
Qed.
Lemma source_C15_PRT_unpack_setup_T : forall b ws,
  GoSrc.PacketReceiptTimesReportBlock_T (GoSrc.PacketReceiptTimesReportBlock_unpackBlockHeader (GoSrc.PacketReceiptTimesReportBlock_setupBlockHeader b ws)) = GoSrc.PacketReceiptTimesReportBlock_T b mod 16.
Proof. intros b ws. rewrite source_C15_PRT_unpack_setup. destruct b as [[bt ts bl] t ssrc bs es ch]. reflexivity. Qed.
Lemma source_C15_PRT_unpack_setup_id : forall b ws, 0 <= GoSrc.PacketReceiptTimesReportBlock_T b < 16 ->
  GoSrc.PacketReceiptTimesReportBlock_unpackBlockHeader (GoSrc.PacketReceiptTimesReportBlock_setupBlockHeader b ws) = GoSrc.PacketReceiptTimesReportBlock_setupBlockHeader b ws.
Proof.
  intros b ws H. rewrite source_C15_PRT_unpack_setup, source_C15_PRT_setup. destruct b as [[bt ts bl] t ssrc bs es ch]. gosrc.
  revert H. gosrc. intros H. rewrite Z.mod_small by exact H. reflexivity.
Qed.
(* setupBlockHeader after unpackBlockHeader (decode, then re-encode): the reserved high nibble of the octet is cleared *)
Lemma source_C15_PRT_setup_unpack : forall b ws,
  GoSrc.XRHeader_TypeSpecific (GoSrc.PacketReceiptTimesReportBlock_XRHeader (GoSrc.PacketReceiptTimesReportBlock_setupBlockHeader (GoSrc.PacketReceiptTimesReportBlock_unpackBlockHeader b) ws)) =
  GoSrc.XRHeader_TypeSpecific (GoSrc.PacketReceiptTimesReportBlock_XRHeader b) mod 16.
Proof.
  intros b ws. rewrite source_C15_PRT_type_specific. destruct b as [[bt ts bl] t ssrc bs es ch]. gosrc.
  rewrite land15_mod, Z.mod_mod by discriminate. reflexivity.
Qed.

(* ------------------------------ ReceiverReferenceTimeReportBlock ------------------------------ *)
Lemma source_C15_RRT_setup : forall b ws,
  GoSrc.ReceiverReferenceTimeReportBlock_setupBlockHeader b ws =
  GoSrc.set_ReceiverReferenceTimeReportBlock_XRHeader (GoSrc.mkXRHeader 4 0 (uwrap 16 (Z.quot ws 4 - 1))) b.
Proof. intros b ws. destruct b as [[bt ts bl] ntp]. gosrc. reflexivity. Qed.
Lemma source_C15_RRT_block_type : forall b ws,
  GoSrc.XRHeader_BlockType (GoSrc.ReceiverReferenceTimeReportBlock_XRHeader (GoSrc.ReceiverReferenceTimeReportBlock_setupBlockHeader b ws)) = 4.
Proof. intros b ws. rewrite source_C15_RRT_setup. destruct b as [[bt ts bl] ntp]. reflexivity. Qed.
Lemma source_C15_RRT_type_specific : forall b ws,
  GoSrc.XRHeader_TypeSpecific (GoSrc.ReceiverReferenceTimeReportBlock_XRHeader (GoSrc.ReceiverReferenceTimeReportBlock_setupBlockHeader b ws)) = 0.
Proof. intros b ws. rewrite source_C15_RRT_setup. destruct b as [[bt ts bl] ntp]. reflexivity. Qed.
Lemma source_C15_RRT_block_length : forall b ws, 4 <= ws <= 262144 -> ws mod 4 = 0 ->
  (GoSrc.XRHeader_BlockLength (GoSrc.ReceiverReferenceTimeReportBlock_XRHeader (GoSrc.ReceiverReferenceTimeReportBlock_setupBlockHeader b ws)) + 1) * 4 = ws.
Proof.
  intros b ws H M. rewrite source_C15_RRT_setup. destruct b as [[bt ts bl] ntp]. gosrc.
  apply block_length_words; assumption.
Qed.

(* ------------------------------ DLRRReportBlock ------------------------------ *)
Lemma source_C15_DLRR_setup : forall b ws,
  GoSrc.DLRRReportBlock_setupBlockHeader b ws =
  GoSrc.set_DLRRReportBlock_XRHeader (GoSrc.mkXRHeader 5 0 (uwrap 16 (Z.quot ws 4 - 1))) b.
Proof. intros b ws. destruct b as [[bt ts bl] rs]. gosrc. reflexivity. Qed.
Lemma source_C15_DLRR_block_type : forall b ws,
  GoSrc.XRHeader_BlockType (GoSrc.DLRRReportBlock_XRHeader (GoSrc.DLRRReportBlock_setupBlockHeader b ws)) = 5.
Proof. intros b ws. rewrite source_C15_DLRR_setup. destruct b as [[bt ts bl] rs]. reflexivity. Qed.
Lemma source_C15_DLRR_type_specific : forall b ws,
  GoSrc.XRHeader_TypeSpecific (GoSrc.DLRRReportBlock_XRHeader (GoSrc.DLRRReportBlock_setupBlockHeader b ws)) = 0.
Proof. intros b ws. rewrite source_C15_DLRR_setup. destruct b as [[bt ts bl] rs]. reflexivity. Qed.
Lemma source_C15_DLRR_block_length : forall b ws, 4 <= ws <= 262144 -> ws mod 4 = 0 ->
  (GoSrc.XRHeader_BlockLength (GoSrc.DLRRReportBlock_XRHeader (GoSrc.DLRRReportBlock_setupBlockHeader b ws)) + 1) * 4 = ws.
Proof.
  intros b ws H M. rewrite source_C15_DLRR_setup. destruct b as [[bt ts bl] rs]. gosrc.
  apply block_length_words; assumption.
Qed.

(* ------------------------------ VoIPMetricsReportBlock ------------------------------ *)
Lemma source_C15_VoIP_setup : forall b ws,
  GoSrc.VoIPMetricsReportBlock_setupBlockHeader b ws =
  GoSrc.set_VoIPMetricsReportBlock_XRHeader (GoSrc.mkXRHeader 7 0 (uwrap 16 (Z.quot ws 4 - 1))) b.
Proof. intros b ws. destruct b as [[bt ts bl] x1 x2 x3 x4 x5 x6 x7 x8 x9 x10 x11 x12 x13 x14 x15 x16 x17 x18 x19 x20 x21]. gosrc. reflexivity. Qed.
Lemma source_C15_VoIP_block_type : forall b ws,
  GoSrc.XRHeader_BlockType (GoSrc.VoIPMetricsReportBlock_XRHeader (GoSrc.VoIPMetricsReportBlock_setupBlockHeader b ws)) = 7.
Proof. intros b ws. rewrite source_C15_VoIP_setup. destruct b as [[bt ts bl] x1 x2 x3 x4 x5 x6 x7 x8 x9 x10 x11 x12 x13 x14 x15 x16 x17 x18 x19 x20 x21]. reflexivity. Qed.
Lemma source_C15_VoIP_type_specific : forall b ws,
  GoSrc.XRHeader_TypeSpecific (GoSrc.VoIPMetricsReportBlock_XRHeader (GoSrc.VoIPMetricsReportBlock_setupBlockHeader b ws)) = 0.
Proof. intros b ws. rewrite source_C15_VoIP_setup. destruct b as [[bt ts bl] x1 x2 x3 x4 x5 x6 x7 x8 x9 x10 x11 x12 x13 x14 x15 x16 x17 x18 x19 x20 x21]. reflexivity. Qed.
Lemma source_C15_VoIP_block_length : forall b ws, 4 <= ws <= 262144 -> ws mod 4 = 0 ->
  (GoSrc.XRHeader_BlockLength (GoSrc.VoIPMetricsReportBlock_XRHeader (GoSrc.VoIPMetricsReportBlock_setupBlockHeader b ws)) + 1) * 4 = ws.
Proof.
  intros b ws H M. rewrite source_C15_VoIP_setup. destruct b as [[bt ts bl] x1 x2 x3 x4 x5 x6 x7 x8 x9 x10 x11 x12 x13 x14 x15 x16 x17 x18 x19 x20 x21]. gosrc.
  apply block_length_words; assumption.
Qed.

(* ------------------------------ UnknownReportBlock ------------------------------ *)
Lemma source_C15_Unknown_setup : forall b ws,
  GoSrc.UnknownReportBlock_setupBlockHeader b ws =
  GoSrc.set_UnknownReportBlock_XRHeader (GoSrc.mkXRHeader (GoSrc.XRHeader_BlockType (GoSrc.UnknownReportBlock_XRHeader b)) (GoSrc.XRHeader_TypeSpecific (GoSrc.UnknownReportBlock_XRHeader b)) (uwrap 16 (Z.quot ws 4 - 1))) b.
Proof. intros b ws. destruct b as [[bt ts bl] bs]. gosrc. reflexivity. Qed.
Lemma source_C15_Unknown_block_type : forall b ws,
  GoSrc.XRHeader_BlockType (GoSrc.UnknownReportBlock_XRHeader (GoSrc.UnknownReportBlock_setupBlockHeader b ws)) = (GoSrc.XRHeader_BlockType (GoSrc.UnknownReportBlock_XRHeader b)).
Proof. intros b ws. rewrite source_C15_Unknown_setup. destruct b as [[bt ts bl] bs]. reflexivity. Qed.
Lemma source_C15_Unknown_type_specific : forall b ws,
  GoSrc.XRHeader_TypeSpecific (GoSrc.UnknownReportBlock_XRHeader (GoSrc.UnknownReportBlock_setupBlockHeader b ws)) = (GoSrc.XRHeader_TypeSpecific (GoSrc.UnknownReportBlock_XRHeader b)).
Proof. intros b ws. rewrite source_C15_Unknown_setup. destruct b as [[bt ts bl] bs]. reflexivity. Qed.
Lemma source_C15_Unknown_block_length : forall b ws, 4 <= ws <= 262144 -> ws mod 4 = 0 ->
  (GoSrc.XRHeader_BlockLength (GoSrc.UnknownReportBlock_XRHeader (GoSrc.UnknownReportBlock_setupBlockHeader b ws)) + 1) * 4 = ws.
Proof.
  intros b ws H M. rewrite source_C15_Unknown_setup. destruct b as [[bt ts bl] bs]. gosrc.
  apply block_length_words; assumption.
Qed.

(* ------------------------------ StatisticsSummaryReportBlock ------------------------------ *)
Lemma source_C15_SS_setup : forall b ws,
  GoSrc.StatisticsSummaryReportBlock_setupBlockHeader b ws =
  GoSrc.set_StatisticsSummaryReportBlock_XRHeader (GoSrc.mkXRHeader 6 (128 * b2z (GoSrc.StatisticsSummaryReportBlock_LossReports b) + 64 * b2z (GoSrc.StatisticsSummaryReportBlock_DuplicateReports b) + 32 * b2z (GoSrc.StatisticsSummaryReportBlock_JitterReports b) + 8 * (GoSrc.StatisticsSummaryReportBlock_TTLorHopLimit b mod 4)) (uwrap 16 (Z.quot ws 4 - 1))) b.
Proof.
  intros b ws. destruct b as [[bt ts bl] l d j toh ssrc bs es lp dp mnj mxj mej dvj mnt mxt met dvt]. gosrc.
  destruct l, d, j; gosrc; f_equal; f_equal;
    [exact (ss_ts_sum true true true toh)|exact (ss_ts_sum true true false toh)|exact (ss_ts_sum true false true toh)
    |exact (ss_ts_sum true false false toh)|exact (ss_ts_sum false true true toh)|exact (ss_ts_sum false true false toh)
    |exact (ss_ts_sum false false true toh)|exact (ss_ts_sum false false false toh)].
Qed.
Lemma source_C15_SS_block_type : forall b ws,
  GoSrc.XRHeader_BlockType (GoSrc.StatisticsSummaryReportBlock_XRHeader (GoSrc.StatisticsSummaryReportBlock_setupBlockHeader b ws)) = 6.
Proof. intros b ws. rewrite source_C15_SS_setup. destruct b as [[bt ts bl] l d j toh ssrc bs es lp dp mnj mxj mej dvj mnt mxt met dvt]. reflexivity. Qed.
Lemma source_C15_SS_type_specific : forall b ws,
  GoSrc.XRHeader_TypeSpecific (GoSrc.StatisticsSummaryReportBlock_XRHeader (GoSrc.StatisticsSummaryReportBlock_setupBlockHeader b ws)) = (128 * b2z (GoSrc.StatisticsSummaryReportBlock_LossReports b) + 64 * b2z (GoSrc.StatisticsSummaryReportBlock_DuplicateReports b) + 32 * b2z (GoSrc.StatisticsSummaryReportBlock_JitterReports b) + 8 * (GoSrc.StatisticsSummaryReportBlock_TTLorHopLimit b mod 4)).
Proof. intros b ws. rewrite source_C15_SS_setup. destruct b as [[bt ts bl] l d j toh ssrc bs es lp dp mnj mxj mej dvj mnt mxt met dvt]. reflexivity. Qed.
Lemma source_C15_SS_block_length : forall b ws, 4 <= ws <= 262144 -> ws mod 4 = 0 ->
  (GoSrc.XRHeader_BlockLength (GoSrc.StatisticsSummaryReportBlock_XRHeader (GoSrc.StatisticsSummaryReportBlock_setupBlockHeader b ws)) + 1) * 4 = ws.
Proof.
  intros b ws H M. rewrite source_C15_SS_setup. destruct b as [[bt ts bl] l d j toh ssrc bs es lp dp mnj mxj mej dvj mnt mxt met dvt]. gosrc.
  apply block_length_words; assumption.
Qed.
(* the L, D, J flags and the TTL/hop-limit kind sit in the RFC 3611 bit positions (the shape of Props/C15.v, C15_type_specific_bits),
   whatever TypeSpecific held before and whatever the high bits of TTLorHopLimit are *)
Lemma source_C15_SS_type_specific_bits : forall b ws,
  let ts := GoSrc.XRHeader_TypeSpecific (GoSrc.StatisticsSummaryReportBlock_XRHeader (GoSrc.StatisticsSummaryReportBlock_setupBlockHeader b ws)) in
  0 <= ts < 256 /\
  ts / 128 = b2z (GoSrc.StatisticsSummaryReportBlock_LossReports b) /\
  (ts / 64) mod 2 = b2z (GoSrc.StatisticsSummaryReportBlock_DuplicateReports b) /\
  (ts / 32) mod 2 = b2z (GoSrc.StatisticsSummaryReportBlock_JitterReports b) /\
  (ts / 8) mod 4 = GoSrc.StatisticsSummaryReportBlock_TTLorHopLimit b mod 4 /\ ts mod 8 = 0.
Proof.
  intros b ws ts. subst ts. rewrite source_C15_SS_type_specific.
  destruct b as [[bt ts bl] l d j toh ssrc bs es lp dp mnj mxj mej dvj mnt mxt met dvt]. gosrc.
  pose proof (Z.mod_pos_bound toh 4 eq_refl) as B. generalize dependent (toh mod 4). intros m B.
  destruct l, d, j; unfold b2z; lia.
Qed.
(* unpackBlockHeader after setupBlockHeader: the flags come back, TTLorHopLimit comes back reduced to its two bits *)
Lemma source_C15_SS_unpack_setup : forall b ws,
  GoSrc.StatisticsSummaryReportBlock_unpackBlockHeader (GoSrc.StatisticsSummaryReportBlock_setupBlockHeader b ws) =
  GoSrc.set_StatisticsSummaryReportBlock_TTLorHopLimit (GoSrc.StatisticsSummaryReportBlock_TTLorHopLimit b mod 4)
    (GoSrc.StatisticsSummaryReportBlock_setupBlockHeader b ws).
Proof.
  intros b ws. rewrite source_C15_SS_setup.
  destruct b as [[bt ts bl] l d j toh ssrc bs es lp dp mnj mxj mej dvj mnt mxt met dvt]. gosrc.
  destruct (mod4_N toh) as [m [Hm ->]]. destruct (ss_bits l d j m Hm) as [E1 [E2 [E3 E4]]].
  rewrite E1, E2, E3, E4. reflexivity.
Qed.
Lemma source_C15_SS_unpack_setup_flags : forall b ws,
  let b' := GoSrc.StatisticsSummaryReportBlock_unpackBlockHeader (GoSrc.StatisticsSummaryReportBlock_setupBlockHeader b ws) in
  GoSrc.StatisticsSummaryReportBlock_LossReports b' = GoSrc.StatisticsSummaryReportBlock_LossReports b /\
  GoSrc.StatisticsSummaryReportBlock_DuplicateReports b' = GoSrc.StatisticsSummaryReportBlock_DuplicateReports b /\
  GoSrc.StatisticsSummaryReportBlock_JitterReports b' = GoSrc.StatisticsSummaryReportBlock_JitterReports b /\
  GoSrc.StatisticsSummaryReportBlock_TTLorHopLimit b' = GoSrc.StatisticsSummaryReportBlock_TTLorHopLimit b mod 4.
Proof.
  intros b ws b'. subst b'. rewrite source_C15_SS_unpack_setup, source_C15_SS_setup.
  destruct b as [[bt ts bl] l d j toh ssrc bs es lp dp mnj mxj mej dvj mnt mxt met dvt]. repeat split.
Qed.
Lemma source_C15_SS_unpack_setup_id : forall b ws, 0 <= GoSrc.StatisticsSummaryReportBlock_TTLorHopLimit b < 4 ->
  GoSrc.StatisticsSummaryReportBlock_unpackBlockHeader (GoSrc.StatisticsSummaryReportBlock_setupBlockHeader b ws) =
  GoSrc.StatisticsSummaryReportBlock_setupBlockHeader b ws.
Proof.
  intros b ws H. rewrite source_C15_SS_unpack_setup, source_C15_SS_setup.
  destruct b as [[bt ts bl] l d j toh ssrc bs es lp dp mnj mxj mej dvj mnt mxt met dvt]. revert H. gosrc. intros H.
  rewrite Z.mod_small by exact H. reflexivity.
Qed.
(* setupBlockHeader after unpackBlockHeader (decode, then re-encode): the three reserved low bits of the octet are cleared,
   the five defined bits survive.  One octet: a 256-element sweep. *)
Lemma ss_reencode_octet : forall n, (n < 256)%N ->
  128 * b2z (negb (Z.land (Z.of_N n) 128 =? 0)) + 64 * b2z (negb (Z.land (Z.of_N n) 64 =? 0)) +
  32 * b2z (negb (Z.land (Z.of_N n) 32 =? 0)) + 8 * (gshr (Z.land (Z.of_N n) 24) 3 mod 4) = 8 * (Z.of_N n / 8).
Proof. sweep. Qed.
Lemma source_C15_SS_setup_unpack : forall b ws,
  0 <= GoSrc.XRHeader_TypeSpecific (GoSrc.StatisticsSummaryReportBlock_XRHeader b) < 256 ->
  GoSrc.XRHeader_TypeSpecific (GoSrc.StatisticsSummaryReportBlock_XRHeader
    (GoSrc.StatisticsSummaryReportBlock_setupBlockHeader (GoSrc.StatisticsSummaryReportBlock_unpackBlockHeader b) ws)) =
  8 * (GoSrc.XRHeader_TypeSpecific (GoSrc.StatisticsSummaryReportBlock_XRHeader b) / 8).
Proof.
  intros b ws. rewrite source_C15_SS_type_specific.
  destruct b as [[bt ts bl] l d j toh ssrc bs es lp dp mnj mxj mej dvj mnt mxt met dvt]. gosrc. intros H.
  rewrite <- (Z2N.id ts) by lia. apply ss_reencode_octet. lia.
Qed.

(* ================================================================================================ *)
(* 9. the other direction: every model block of the canonical shape (what Reflect.read and Check/Codec.p_val build) is the     *)
(*    image under blk_T of a Go value whose fields are the N leaves; setup_block / unpack_block on it are the Go methods        *)
(* ================================================================================================ *)
Lemma map_vz_zN l : map vz (zN l) = map VU l.
Proof. unfold zN. rewrite map_map. apply map_ext. intros x. unfold vz. rewrite N2Z.id. reflexivity. Qed.

Definition src_LossRLE (a b c t s bs es : N) (l : list N) : GoSrc.LossRLEReportBlock :=
  GoSrc.mkLossRLEReportBlock (GoSrc.mkXRHeader (Z.of_N a) (Z.of_N b) (Z.of_N c)) (Z.of_N t) (Z.of_N s) (Z.of_N bs) (Z.of_N es) (zN l).
Definition shape_LossRLE (a b c t s bs es : N) (l : list N) : XRBlock :=
  mkXRBlock KLossRLE (VStruct [VStruct [VU a; VU b; VU c]; VU t; VU s; VU bs; VU es; VSlice (map VU l)]).
Lemma blk_src_LossRLE a b c t s bs es l : blk_LossRLE (src_LossRLE a b c t s bs es l) = shape_LossRLE a b c t s bs es l.
Proof. unfold blk_LossRLE, src_LossRLE, shape_LossRLE, hdr_val. gosrc. rewrite map_vz_zN. unfold vz. rewrite !N2Z.id. reflexivity. Qed.
Lemma setup_block_LossRLE a b c t s bs es l :
  setup_block (shape_LossRLE a b c t s bs es l) =
  blk_LossRLE (GoSrc.LossRLEReportBlock_setupBlockHeader (src_LossRLE a b c t s bs es l) (Z.of_N (blk_wire_size (shape_LossRLE a b c t s bs es l)))).
Proof. rewrite <- blk_src_LossRLE. symmetry. apply src_LossRLE_setupBlockHeader. apply N2Z.is_nonneg. Qed.
Lemma unpack_block_LossRLE a b c t s bs es l :
  unpack_block (shape_LossRLE a b c t s bs es l) = blk_LossRLE (GoSrc.LossRLEReportBlock_unpackBlockHeader (src_LossRLE a b c t s bs es l)).
Proof. rewrite <- blk_src_LossRLE. symmetry. apply src_LossRLE_unpackBlockHeader. apply N2Z.is_nonneg. Qed.
Lemma block_dest_LossRLE a b c t s bs es l :
  zN (block_dest (shape_LossRLE a b c t s bs es l)) = GoSrc.LossRLEReportBlock_DestinationSSRC (src_LossRLE a b c t s bs es l).
Proof. rewrite <- blk_src_LossRLE. symmetry. apply src_LossRLE_DestinationSSRC. apply N2Z.is_nonneg. Qed.

Definition src_DupRLE (a b c t s bs es : N) (l : list N) : GoSrc.DuplicateRLEReportBlock :=
  GoSrc.mkDuplicateRLEReportBlock (GoSrc.mkXRHeader (Z.of_N a) (Z.of_N b) (Z.of_N c)) (Z.of_N t) (Z.of_N s) (Z.of_N bs) (Z.of_N es) (zN l).
Definition shape_DupRLE (a b c t s bs es : N) (l : list N) : XRBlock :=
  mkXRBlock KDupRLE (VStruct [VStruct [VU a; VU b; VU c]; VU t; VU s; VU bs; VU es; VSlice (map VU l)]).
Lemma blk_src_DupRLE a b c t s bs es l : blk_DupRLE (src_DupRLE a b c t s bs es l) = shape_DupRLE a b c t s bs es l.
Proof. unfold blk_DupRLE, src_DupRLE, shape_DupRLE, hdr_val. gosrc. rewrite map_vz_zN. unfold vz. rewrite !N2Z.id. reflexivity. Qed.
Lemma setup_block_DupRLE a b c t s bs es l :
  setup_block (shape_DupRLE a b c t s bs es l) =
  blk_DupRLE (GoSrc.DuplicateRLEReportBlock_setupBlockHeader (src_DupRLE a b c t s bs es l) (Z.of_N (blk_wire_size (shape_DupRLE a b c t s bs es l)))).
Proof. rewrite <- blk_src_DupRLE. symmetry. apply src_DupRLE_setupBlockHeader. apply N2Z.is_nonneg. Qed.
Lemma unpack_block_DupRLE a b c t s bs es l :
  unpack_block (shape_DupRLE a b c t s bs es l) = blk_DupRLE (GoSrc.DuplicateRLEReportBlock_unpackBlockHeader (src_DupRLE a b c t s bs es l)).
Proof. rewrite <- blk_src_DupRLE. symmetry. apply src_DupRLE_unpackBlockHeader. apply N2Z.is_nonneg. Qed.
Lemma block_dest_DupRLE a b c t s bs es l :
  zN (block_dest (shape_DupRLE a b c t s bs es l)) = GoSrc.DuplicateRLEReportBlock_DestinationSSRC (src_DupRLE a b c t s bs es l).
Proof. rewrite <- blk_src_DupRLE. symmetry. apply src_DupRLE_DestinationSSRC. apply N2Z.is_nonneg. Qed.

Definition src_PRT (a b c t s bs es : N) (l : list N) : GoSrc.PacketReceiptTimesReportBlock :=
  GoSrc.mkPacketReceiptTimesReportBlock (GoSrc.mkXRHeader (Z.of_N a) (Z.of_N b) (Z.of_N c)) (Z.of_N t) (Z.of_N s) (Z.of_N bs) (Z.of_N es) (zN l).
Definition shape_PRT (a b c t s bs es : N) (l : list N) : XRBlock :=
  mkXRBlock KPRT (VStruct [VStruct [VU a; VU b; VU c]; VU t; VU s; VU bs; VU es; VSlice (map VU l)]).
Lemma blk_src_PRT a b c t s bs es l : blk_PRT (src_PRT a b c t s bs es l) = shape_PRT a b c t s bs es l.
Proof. unfold blk_PRT, src_PRT, shape_PRT, hdr_val. gosrc. rewrite map_vz_zN. unfold vz. rewrite !N2Z.id. reflexivity. Qed.
Lemma setup_block_PRT a b c t s bs es l :
  setup_block (shape_PRT a b c t s bs es l) =
  blk_PRT (GoSrc.PacketReceiptTimesReportBlock_setupBlockHeader (src_PRT a b c t s bs es l) (Z.of_N (blk_wire_size (shape_PRT a b c t s bs es l)))).
Proof. rewrite <- blk_src_PRT. symmetry. apply src_PRT_setupBlockHeader. apply N2Z.is_nonneg. Qed.
Lemma unpack_block_PRT a b c t s bs es l :
  unpack_block (shape_PRT a b c t s bs es l) = blk_PRT (GoSrc.PacketReceiptTimesReportBlock_unpackBlockHeader (src_PRT a b c t s bs es l)).
Proof. rewrite <- blk_src_PRT. symmetry. apply src_PRT_unpackBlockHeader. apply N2Z.is_nonneg. Qed.
Lemma block_dest_PRT a b c t s bs es l :
  zN (block_dest (shape_PRT a b c t s bs es l)) = GoSrc.PacketReceiptTimesReportBlock_DestinationSSRC (src_PRT a b c t s bs es l).
Proof. rewrite <- blk_src_PRT. symmetry. apply src_PRT_DestinationSSRC. apply N2Z.is_nonneg. Qed.

Definition src_SS (a b c : N) (l d j : bool) (toh ssrc bs es lp dp mnj mxj mej dvj mnt mxt met dvt : N) : GoSrc.StatisticsSummaryReportBlock :=
  GoSrc.mkStatisticsSummaryReportBlock (GoSrc.mkXRHeader (Z.of_N a) (Z.of_N b) (Z.of_N c)) l d j (Z.of_N toh) (Z.of_N ssrc) (Z.of_N bs) (Z.of_N es) (Z.of_N lp) (Z.of_N dp) (Z.of_N mnj) (Z.of_N mxj) (Z.of_N mej) (Z.of_N dvj) (Z.of_N mnt) (Z.of_N mxt) (Z.of_N met) (Z.of_N dvt).
Definition shape_SS (a b c : N) (l d j : bool) (toh ssrc bs es lp dp mnj mxj mej dvj mnt mxt met dvt : N) : XRBlock :=
  mkXRBlock KSS (VStruct [VStruct [VU a; VU b; VU c]; vb l; vb d; vb j; VU toh; VU ssrc; VU bs; VU es; VU lp; VU dp; VU mnj; VU mxj; VU mej; VU dvj; VU mnt; VU mxt; VU met; VU dvt]).
Lemma blk_src_SS a b c l d j toh ssrc bs es lp dp mnj mxj mej dvj mnt mxt met dvt : blk_SS (src_SS a b c l d j toh ssrc bs es lp dp mnj mxj mej dvj mnt mxt met dvt) = shape_SS a b c l d j toh ssrc bs es lp dp mnj mxj mej dvj mnt mxt met dvt.
Proof. unfold blk_SS, src_SS, shape_SS, hdr_val. gosrc. unfold vz. rewrite !N2Z.id. reflexivity. Qed.
Lemma setup_block_SS a b c l d j toh ssrc bs es lp dp mnj mxj mej dvj mnt mxt met dvt :
  setup_block (shape_SS a b c l d j toh ssrc bs es lp dp mnj mxj mej dvj mnt mxt met dvt) =
  blk_SS (GoSrc.StatisticsSummaryReportBlock_setupBlockHeader (src_SS a b c l d j toh ssrc bs es lp dp mnj mxj mej dvj mnt mxt met dvt) (Z.of_N (blk_wire_size (shape_SS a b c l d j toh ssrc bs es lp dp mnj mxj mej dvj mnt mxt met dvt)))).
Proof. rewrite <- blk_src_SS. symmetry. apply src_SS_setupBlockHeader. apply N2Z.is_nonneg. Qed.
Lemma unpack_block_SS a b c l d j toh ssrc bs es lp dp mnj mxj mej dvj mnt mxt met dvt :
  unpack_block (shape_SS a b c l d j toh ssrc bs es lp dp mnj mxj mej dvj mnt mxt met dvt) = blk_SS (GoSrc.StatisticsSummaryReportBlock_unpackBlockHeader (src_SS a b c l d j toh ssrc bs es lp dp mnj mxj mej dvj mnt mxt met dvt)).
Proof. rewrite <- blk_src_SS. symmetry. apply src_SS_unpackBlockHeader. apply N2Z.is_nonneg. Qed.
Lemma block_dest_SS a b c l d j toh ssrc bs es lp dp mnj mxj mej dvj mnt mxt met dvt :
  zN (block_dest (shape_SS a b c l d j toh ssrc bs es lp dp mnj mxj mej dvj mnt mxt met dvt)) = GoSrc.StatisticsSummaryReportBlock_DestinationSSRC (src_SS a b c l d j toh ssrc bs es lp dp mnj mxj mej dvj mnt mxt met dvt).
Proof. rewrite <- blk_src_SS. symmetry. apply src_SS_DestinationSSRC. apply N2Z.is_nonneg. Qed.

Definition src_RRT (a b c n : N) : GoSrc.ReceiverReferenceTimeReportBlock :=
  GoSrc.mkReceiverReferenceTimeReportBlock (GoSrc.mkXRHeader (Z.of_N a) (Z.of_N b) (Z.of_N c)) (Z.of_N n).
Definition shape_RRT (a b c n : N) : XRBlock := mkXRBlock KRRT (VStruct [VStruct [VU a; VU b; VU c]; VU n]).
Lemma blk_src_RRT a b c n : blk_RRT (src_RRT a b c n) = shape_RRT a b c n.
Proof. unfold blk_RRT, src_RRT, shape_RRT, hdr_val. gosrc. unfold vz. rewrite !N2Z.id. reflexivity. Qed.
Lemma setup_block_RRT a b c n :
  setup_block (shape_RRT a b c n) =
  blk_RRT (GoSrc.ReceiverReferenceTimeReportBlock_setupBlockHeader (src_RRT a b c n) (Z.of_N (blk_wire_size (shape_RRT a b c n)))).
Proof. rewrite <- blk_src_RRT. symmetry. apply src_RRT_setupBlockHeader. Qed.

Definition src_dlrr (r : N * N * N) : GoSrc.DLRRReport :=
  let '(s, l, d) := r in GoSrc.mkDLRRReport (Z.of_N s) (Z.of_N l) (Z.of_N d).
Definition shape_dlrr (r : N * N * N) : val := let '(s, l, d) := r in VStruct [VU s; VU l; VU d].
Definition src_DLRR (a b c : N) (rs : list (N * N * N)) : GoSrc.DLRRReportBlock :=
  GoSrc.mkDLRRReportBlock (GoSrc.mkXRHeader (Z.of_N a) (Z.of_N b) (Z.of_N c)) (map src_dlrr rs).
Definition shape_DLRR (a b c : N) (rs : list (N * N * N)) : XRBlock :=
  mkXRBlock KDLRR (VStruct [VStruct [VU a; VU b; VU c]; VSlice (map shape_dlrr rs)]).
Lemma blk_src_DLRR a b c rs : blk_DLRR (src_DLRR a b c rs) = shape_DLRR a b c rs.
Proof.
  unfold blk_DLRR, src_DLRR, shape_DLRR, hdr_val. gosrc. rewrite map_map. unfold vz. rewrite !N2Z.id.
  replace (map (fun x => dlrr_val (src_dlrr x)) rs) with (map shape_dlrr rs); [reflexivity|].
  apply map_ext. intros [[s l] d]. unfold dlrr_val, src_dlrr, shape_dlrr, vz. gosrc. rewrite !N2Z.id. reflexivity.
Qed.
Lemma setup_block_DLRR a b c rs :
  setup_block (shape_DLRR a b c rs) =
  blk_DLRR (GoSrc.DLRRReportBlock_setupBlockHeader (src_DLRR a b c rs) (Z.of_N (blk_wire_size (shape_DLRR a b c rs)))).
Proof. rewrite <- blk_src_DLRR. symmetry. apply src_DLRR_setupBlockHeader. Qed.
Lemma block_dest_DLRR a b c rs :
  Ok (zN (block_dest (shape_DLRR a b c rs))) = GoSrc.DLRRReportBlock_DestinationSSRC (src_DLRR a b c rs).
Proof.
  rewrite <- blk_src_DLRR. symmetry. apply src_DLRR_DestinationSSRC. unfold src_DLRR. gosrc.
  apply Forall_forall. intros r Hr. apply in_map_iff in Hr. destruct Hr as [[[s l] d] [<- _]]. apply N2Z.is_nonneg.
Qed.

Definition src_VoIP (a b c x1 x2 x3 x4 x5 x6 x7 x8 x9 x10 x11 x12 x13 x14 x15 x16 x17 x18 x19 x20 x21 : N) : GoSrc.VoIPMetricsReportBlock :=
  GoSrc.mkVoIPMetricsReportBlock (GoSrc.mkXRHeader (Z.of_N a) (Z.of_N b) (Z.of_N c)) (Z.of_N x1) (Z.of_N x2) (Z.of_N x3) (Z.of_N x4) (Z.of_N x5) (Z.of_N x6) (Z.of_N x7) (Z.of_N x8) (Z.of_N x9) (Z.of_N x10) (Z.of_N x11) (Z.of_N x12) (Z.of_N x13) (Z.of_N x14) (Z.of_N x15) (Z.of_N x16) (Z.of_N x17) (Z.of_N x18) (Z.of_N x19) (Z.of_N x20) (Z.of_N x21).
Definition shape_VoIP (a b c x1 x2 x3 x4 x5 x6 x7 x8 x9 x10 x11 x12 x13 x14 x15 x16 x17 x18 x19 x20 x21 : N) : XRBlock :=
  mkXRBlock KVoIP (VStruct [VStruct [VU a; VU b; VU c]; VU x1; VU x2; VU x3; VU x4; VU x5; VU x6; VU x7; VU x8; VU x9; VU x10; VU x11; VU x12; VU x13; VU x14; VU x15; VU x16; VU x17; VU x18; VU 0%N; VU x19; VU x20; VU x21]).
Lemma blk_src_VoIP a b c x1 x2 x3 x4 x5 x6 x7 x8 x9 x10 x11 x12 x13 x14 x15 x16 x17 x18 x19 x20 x21 : blk_VoIP (src_VoIP a b c x1 x2 x3 x4 x5 x6 x7 x8 x9 x10 x11 x12 x13 x14 x15 x16 x17 x18 x19 x20 x21) = shape_VoIP a b c x1 x2 x3 x4 x5 x6 x7 x8 x9 x10 x11 x12 x13 x14 x15 x16 x17 x18 x19 x20 x21.
Proof. unfold blk_VoIP, src_VoIP, shape_VoIP, hdr_val. gosrc. unfold vz. rewrite !N2Z.id. reflexivity. Qed.
Lemma setup_block_VoIP a b c x1 x2 x3 x4 x5 x6 x7 x8 x9 x10 x11 x12 x13 x14 x15 x16 x17 x18 x19 x20 x21 :
  setup_block (shape_VoIP a b c x1 x2 x3 x4 x5 x6 x7 x8 x9 x10 x11 x12 x13 x14 x15 x16 x17 x18 x19 x20 x21) =
  blk_VoIP (GoSrc.VoIPMetricsReportBlock_setupBlockHeader (src_VoIP a b c x1 x2 x3 x4 x5 x6 x7 x8 x9 x10 x11 x12 x13 x14 x15 x16 x17 x18 x19 x20 x21) (Z.of_N (blk_wire_size (shape_VoIP a b c x1 x2 x3 x4 x5 x6 x7 x8 x9 x10 x11 x12 x13 x14 x15 x16 x17 x18 x19 x20 x21)))).
Proof. rewrite <- blk_src_VoIP. symmetry. apply src_VoIP_setupBlockHeader. Qed.
Lemma block_dest_VoIP a b c x1 x2 x3 x4 x5 x6 x7 x8 x9 x10 x11 x12 x13 x14 x15 x16 x17 x18 x19 x20 x21 :
  zN (block_dest (shape_VoIP a b c x1 x2 x3 x4 x5 x6 x7 x8 x9 x10 x11 x12 x13 x14 x15 x16 x17 x18 x19 x20 x21)) = GoSrc.VoIPMetricsReportBlock_DestinationSSRC (src_VoIP a b c x1 x2 x3 x4 x5 x6 x7 x8 x9 x10 x11 x12 x13 x14 x15 x16 x17 x18 x19 x20 x21).
Proof. rewrite <- blk_src_VoIP. symmetry. apply src_VoIP_DestinationSSRC. apply N2Z.is_nonneg. Qed.

Definition src_Unknown (a b c : N) (bs : bytes) : GoSrc.UnknownReportBlock :=
  GoSrc.mkUnknownReportBlock (GoSrc.mkXRHeader (Z.of_N a) (Z.of_N b) (Z.of_N c)) bs.
Definition shape_Unknown (a b c : N) (bs : bytes) : XRBlock :=
  mkXRBlock KUnknown (VStruct [VStruct [VU a; VU b; VU c]; VSlice (map vbyte bs)]).
Lemma blk_src_Unknown a b c bs : blk_Unknown (src_Unknown a b c bs) = shape_Unknown a b c bs.
Proof. unfold blk_Unknown, src_Unknown, shape_Unknown, hdr_val. gosrc. unfold vz. rewrite !N2Z.id. reflexivity. Qed.
Lemma setup_block_Unknown a b c bs :
  setup_block (shape_Unknown a b c bs) =
  blk_Unknown (GoSrc.UnknownReportBlock_setupBlockHeader (src_Unknown a b c bs) (Z.of_N (blk_wire_size (shape_Unknown a b c bs)))).
Proof. rewrite <- blk_src_Unknown. symmetry. apply src_Unknown_setupBlockHeader. Qed.

(* ================================================================================================ *)
(* 10. the same under the Go type invariants [fits_T]; the invariants are preserved                  *)
(* ================================================================================================ *)
Lemma uwrap16_fits x : 0 <= uwrap 16 x < 65536.
Proof. exact (uwrap_bounds 16 x ltac:(lia)). Qed.

Lemma src_LossRLE_setupBlockHeader_fits : forall b, fits_LossRLE b ->
  blk_LossRLE (GoSrc.LossRLEReportBlock_setupBlockHeader b (Z.of_N (blk_wire_size (blk_LossRLE b)))) = setup_block (blk_LossRLE b).
Proof. intros b F. apply src_LossRLE_setupBlockHeader. unfold fits_LossRLE in F. tauto. Qed.
Lemma src_LossRLE_unpackBlockHeader_fits : forall b, fits_LossRLE b ->
  blk_LossRLE (GoSrc.LossRLEReportBlock_unpackBlockHeader b) = unpack_block (blk_LossRLE b).
Proof. intros b F. apply src_LossRLE_unpackBlockHeader. unfold fits_LossRLE, fits_XRHeader in F. tauto. Qed.
Lemma src_LossRLE_DestinationSSRC_fits : forall b, fits_LossRLE b ->
  GoSrc.LossRLEReportBlock_DestinationSSRC b = zN (block_dest (blk_LossRLE b)).
Proof. intros b F. apply src_LossRLE_DestinationSSRC. unfold fits_LossRLE in F. tauto. Qed.
Lemma fits_LossRLE_setup : forall b ws, fits_LossRLE b -> fits_LossRLE (GoSrc.LossRLEReportBlock_setupBlockHeader b ws).
Proof.
  intros b ws. rewrite source_C15_LossRLE_setup. destruct b as [[bt ts bl] t ssrc bs es ch]. unfold fits_LossRLE, fits_XRHeader. gosrc.
  pose proof (uwrap16_fits (Z.quot ws 4 - 1)). pose proof (Z.mod_pos_bound t 16 eq_refl). intuition lia.
Qed.
Lemma fits_LossRLE_unpack : forall b, fits_LossRLE b -> fits_LossRLE (GoSrc.LossRLEReportBlock_unpackBlockHeader b).
Proof.
  intros b. destruct b as [[bt ts bl] t ssrc bs es ch]. unfold fits_LossRLE, fits_XRHeader. gosrc. rewrite land15_mod.
  pose proof (Z.mod_pos_bound ts 16 eq_refl). intuition lia.
Qed.

Lemma src_DupRLE_setupBlockHeader_fits : forall b, fits_DupRLE b ->
  blk_DupRLE (GoSrc.DuplicateRLEReportBlock_setupBlockHeader b (Z.of_N (blk_wire_size (blk_DupRLE b)))) = setup_block (blk_DupRLE b).
Proof. intros b F. apply src_DupRLE_setupBlockHeader. unfold fits_DupRLE in F. tauto. Qed.
Lemma src_DupRLE_unpackBlockHeader_fits : forall b, fits_DupRLE b ->
  blk_DupRLE (GoSrc.DuplicateRLEReportBlock_unpackBlockHeader b) = unpack_block (blk_DupRLE b).
Proof. intros b F. apply src_DupRLE_unpackBlockHeader. unfold fits_DupRLE, fits_XRHeader in F. tauto. Qed.
Lemma src_DupRLE_DestinationSSRC_fits : forall b, fits_DupRLE b ->
  GoSrc.DuplicateRLEReportBlock_DestinationSSRC b = zN (block_dest (blk_DupRLE b)).
Proof. intros b F. apply src_DupRLE_DestinationSSRC. unfold fits_DupRLE in F. tauto. Qed.
Lemma fits_DupRLE_setup : forall b ws, fits_DupRLE b -> fits_DupRLE (GoSrc.DuplicateRLEReportBlock_setupBlockHeader b ws).
Proof.
  intros b ws. rewrite source_C15_DupRLE_setup. destruct b as [[bt ts bl] t ssrc bs es ch]. unfold fits_DupRLE, fits_XRHeader. gosrc.
  pose proof (uwrap16_fits (Z.quot ws 4 - 1)). pose proof (Z.mod_pos_bound t 16 eq_refl). intuition lia.
Qed.
Lemma fits_DupRLE_unpack : forall b, fits_DupRLE b -> fits_DupRLE (GoSrc.DuplicateRLEReportBlock_unpackBlockHeader b).
Proof.
  intros b. destruct b as [[bt ts bl] t ssrc bs es ch]. unfold fits_DupRLE, fits_XRHeader. gosrc. rewrite land15_mod.
  pose proof (Z.mod_pos_bound ts 16 eq_refl). intuition lia.
Qed.

Lemma src_PRT_setupBlockHeader_fits : forall b, fits_PRT b ->
  blk_PRT (GoSrc.PacketReceiptTimesReportBlock_setupBlockHeader b (Z.of_N (blk_wire_size (blk_PRT b)))) = setup_block (blk_PRT b).
Proof. intros b F. apply src_PRT_setupBlockHeader. unfold fits_PRT in F. tauto. Qed.
Lemma src_PRT_unpackBlockHeader_fits : forall b, fits_PRT b ->
  blk_PRT (GoSrc.PacketReceiptTimesReportBlock_unpackBlockHeader b) = unpack_block (blk_PRT b).
Proof. intros b F. apply src_PRT_unpackBlockHeader. unfold fits_PRT, fits_XRHeader in F. tauto. Qed.
Lemma src_PRT_DestinationSSRC_fits : forall b, fits_PRT b ->
  GoSrc.PacketReceiptTimesReportBlock_DestinationSSRC b = zN (block_dest (blk_PRT b)).
Proof. intros b F. apply src_PRT_DestinationSSRC. unfold fits_PRT in F. tauto. Qed.
Lemma fits_PRT_setup : forall b ws, fits_PRT b -> fits_PRT (GoSrc.PacketReceiptTimesReportBlock_setupBlockHeader b ws).
Proof.
  intros b ws. rewrite source_C15_PRT_setup. destruct b as [[bt ts bl] t ssrc bs es ch]. unfold fits_PRT, fits_XRHeader. gosrc.
  pose proof (uwrap16_fits (Z.quot ws 4 - 1)). pose proof (Z.mod_pos_bound t 16 eq_refl). intuition lia.
Qed.
Lemma fits_PRT_unpack : forall b, fits_PRT b -> fits_PRT (GoSrc.PacketReceiptTimesReportBlock_unpackBlockHeader b).
Proof.
  intros b. destruct b as [[bt ts bl] t ssrc bs es ch]. unfold fits_PRT, fits_XRHeader. gosrc. rewrite land15_mod.
  pose proof (Z.mod_pos_bound ts 16 eq_refl). intuition lia.
Qed.

Lemma src_SS_setupBlockHeader_fits : forall b, fits_SS b ->
  blk_SS (GoSrc.StatisticsSummaryReportBlock_setupBlockHeader b (Z.of_N (blk_wire_size (blk_SS b)))) = setup_block (blk_SS b).
Proof. intros b F. apply src_SS_setupBlockHeader. unfold fits_SS in F. tauto. Qed.
Lemma src_SS_unpackBlockHeader_fits : forall b, fits_SS b ->
  blk_SS (GoSrc.StatisticsSummaryReportBlock_unpackBlockHeader b) = unpack_block (blk_SS b).
Proof. intros b F. apply src_SS_unpackBlockHeader. unfold fits_SS, fits_XRHeader in F. tauto. Qed.
Lemma src_SS_DestinationSSRC_fits : forall b, fits_SS b ->
  GoSrc.StatisticsSummaryReportBlock_DestinationSSRC b = zN (block_dest (blk_SS b)).
Proof. intros b F. apply src_SS_DestinationSSRC. unfold fits_SS in F. tauto. Qed.
Lemma fits_SS_setup : forall b ws, fits_SS b -> fits_SS (GoSrc.StatisticsSummaryReportBlock_setupBlockHeader b ws).
Proof.
  intros b ws. rewrite source_C15_SS_setup. destruct b as [[bt ts bl] l d j toh ssrc bs es lp dp mnj mxj mej dvj mnt mxt met dvt]. unfold fits_SS, fits_XRHeader. gosrc.
  pose proof (uwrap16_fits (Z.quot ws 4 - 1)). pose proof (Z.mod_pos_bound toh 4 eq_refl).
  assert (0 <= 128 * b2z l + 64 * b2z d + 32 * b2z j + 8 * (toh mod 4) < 256) by (destruct l, d, j; unfold b2z; lia).
  intuition lia.
Qed.
Lemma fits_SS_unpack : forall b, fits_SS b -> fits_SS (GoSrc.StatisticsSummaryReportBlock_unpackBlockHeader b).
Proof.
  intros b. destruct b as [[bt ts bl] l d j toh ssrc bs es lp dp mnj mxj mej dvj mnt mxt met dvt]. unfold fits_SS, fits_XRHeader. gosrc. intros F.
  assert (0 <= gshr (Z.land ts 24) 3 < 256).
  { assert (B : 0 <= ts < 256) by tauto. rewrite <- (Z2N.id ts) by lia. assert (Hn : (Z.to_N ts < 256)%N) by lia.
    revert Hn. generalize (Z.to_N ts). intros n Hn.
    assert (E : ((0 <=? gshr (Z.land (Z.of_N n) 24) 3) && (gshr (Z.land (Z.of_N n) 24) 3 <? 256)) = true).
    { revert n Hn. sweep. }
    lia. }
  intuition lia.
Qed.

Lemma fits_RRT_setup : forall b ws, fits_RRT b -> fits_RRT (GoSrc.ReceiverReferenceTimeReportBlock_setupBlockHeader b ws).
Proof.
  intros b ws. rewrite source_C15_RRT_setup. destruct b as [[bt ts bl] ntp]. unfold fits_RRT, fits_XRHeader. gosrc.
  pose proof (uwrap16_fits (Z.quot ws 4 - 1)). intuition lia.
Qed.

Lemma fits_DLRR_setup : forall b ws, fits_DLRR b -> fits_DLRR (GoSrc.DLRRReportBlock_setupBlockHeader b ws).
Proof.
  intros b ws. rewrite source_C15_DLRR_setup. destruct b as [[bt ts bl] rs]. unfold fits_DLRR, fits_XRHeader. gosrc.
  pose proof (uwrap16_fits (Z.quot ws 4 - 1)). intuition lia.
Qed.

Lemma fits_VoIP_setup : forall b ws, fits_VoIP b -> fits_VoIP (GoSrc.VoIPMetricsReportBlock_setupBlockHeader b ws).
Proof.
  intros b ws. rewrite source_C15_VoIP_setup. destruct b as [[bt ts bl] x1 x2 x3 x4 x5 x6 x7 x8 x9 x10 x11 x12 x13 x14 x15 x16 x17 x18 x19 x20 x21]. unfold fits_VoIP, fits_XRHeader. gosrc.
  pose proof (uwrap16_fits (Z.quot ws 4 - 1)). intuition lia.
Qed.

Lemma fits_Unknown_setup : forall b ws, fits_Unknown b -> fits_Unknown (GoSrc.UnknownReportBlock_setupBlockHeader b ws).
Proof.
  intros b ws. rewrite source_C15_Unknown_setup. destruct b as [[bt ts bl] bs]. unfold fits_Unknown, fits_XRHeader. gosrc.
  pose proof (uwrap16_fits (Z.quot ws 4 - 1)). intuition lia.
Qed.

Lemma src_DLRR_DestinationSSRC_fits : forall b, fits_DLRR b ->
  GoSrc.DLRRReportBlock_DestinationSSRC b = Ok (zN (block_dest (blk_DLRR b))).
Proof.
  intros b [_ F]. apply src_DLRR_DestinationSSRC. eapply Forall_impl; [|exact F]. unfold fits_DLRRReport. intros r Hr. tauto.
Qed.
Lemma src_VoIP_DestinationSSRC_fits : forall b, fits_VoIP b ->
  GoSrc.VoIPMetricsReportBlock_DestinationSSRC b = zN (block_dest (blk_VoIP b)).
Proof. intros b F. apply src_VoIP_DestinationSSRC. unfold fits_VoIP in F. tauto. Qed.

(* ================================================================================================ *)
Print Assumptions wire_RRT.
Print Assumptions src_RRT_setupBlockHeader.
Print Assumptions src_RRT_unpackBlockHeader.
Print Assumptions src_RRT_DestinationSSRC.
Print Assumptions wire_SS.
Print Assumptions src_SS_setupBlockHeader.
Print Assumptions src_SS_unpackBlockHeader.
Print Assumptions src_SS_DestinationSSRC.
Print Assumptions wire_LossRLE.
Print Assumptions src_LossRLE_setupBlockHeader.
Print Assumptions src_LossRLE_unpackBlockHeader.
Print Assumptions src_LossRLE_DestinationSSRC.
Print Assumptions wire_DupRLE.
Print Assumptions src_DupRLE_setupBlockHeader.
Print Assumptions src_DupRLE_unpackBlockHeader.
Print Assumptions src_DupRLE_DestinationSSRC.
Print Assumptions wire_PRT.
Print Assumptions src_PRT_setupBlockHeader.
Print Assumptions src_PRT_unpackBlockHeader.
Print Assumptions src_PRT_DestinationSSRC.
Print Assumptions wire_DLRR.
Print Assumptions src_DLRR_setupBlockHeader.
Print Assumptions src_DLRR_unpackBlockHeader.
Print Assumptions src_DLRR_DestinationSSRC.
Print Assumptions wire_VoIP.
Print Assumptions src_VoIP_setupBlockHeader.
Print Assumptions src_VoIP_unpackBlockHeader.
Print Assumptions src_VoIP_DestinationSSRC.
Print Assumptions wire_Unknown.
Print Assumptions src_Unknown_setupBlockHeader.
Print Assumptions src_Unknown_unpackBlockHeader.
Print Assumptions src_Unknown_DestinationSSRC.
Print Assumptions source_C15_block_length_wraps_refuted.
Print Assumptions source_C15_LossRLE_setup.
Print Assumptions source_C15_LossRLE_block_type.
Print Assumptions source_C15_LossRLE_type_specific.
Print Assumptions source_C15_LossRLE_block_length.
Print Assumptions source_C15_LossRLE_unpack_setup.
Print Assumptions source_C15_LossRLE_unpack_setup_T.
Print Assumptions source_C15_LossRLE_unpack_setup_id.
Print Assumptions source_C15_LossRLE_setup_unpack.
Print Assumptions source_C15_DupRLE_setup.
Print Assumptions source_C15_DupRLE_block_type.
Print Assumptions source_C15_DupRLE_type_specific.
Print Assumptions source_C15_DupRLE_block_length.
Print Assumptions source_C15_DupRLE_unpack_setup.
Print Assumptions source_C15_DupRLE_unpack_setup_T.
Print Assumptions source_C15_DupRLE_unpack_setup_id.
Print Assumptions source_C15_DupRLE_setup_unpack.
Print Assumptions source_C15_PRT_setup.
Print Assumptions source_C15_PRT_block_type.
Print Assumptions source_C15_PRT_type_specific.
Print Assumptions source_C15_PRT_block_length.
Print Assumptions source_C15_PRT_unpack_setup.
Print Assumptions source_C15_PRT_unpack_setup_T.
Print Assumptions source_C15_PRT_unpack_setup_id.
Print Assumptions source_C15_PRT_setup_unpack.
Print Assumptions source_C15_RRT_setup.
Print Assumptions source_C15_RRT_block_type.
Print Assumptions source_C15_RRT_type_specific.
Print Assumptions source_C15_RRT_block_length.
Print Assumptions source_C15_DLRR_setup.
Print Assumptions source_C15_DLRR_block_type.
Print Assumptions source_C15_DLRR_type_specific.
Print Assumptions source_C15_DLRR_block_length.
Print Assumptions source_C15_VoIP_setup.
Print Assumptions source_C15_VoIP_block_type.
Print Assumptions source_C15_VoIP_type_specific.
Print Assumptions source_C15_VoIP_block_length.
Print Assumptions source_C15_Unknown_setup.
Print Assumptions source_C15_Unknown_block_type.
Print Assumptions source_C15_Unknown_type_specific.
Print Assumptions source_C15_Unknown_block_length.
Print Assumptions source_C15_SS_setup.
Print Assumptions source_C15_SS_block_type.
Print Assumptions source_C15_SS_type_specific.
Print Assumptions source_C15_SS_block_length.
Print Assumptions source_C15_SS_type_specific_bits.
Print Assumptions source_C15_SS_unpack_setup.
Print Assumptions source_C15_SS_unpack_setup_flags.
Print Assumptions source_C15_SS_unpack_setup_id.
Print Assumptions source_C15_SS_setup_unpack.
Print Assumptions blk_src_LossRLE.
Print Assumptions setup_block_LossRLE.
Print Assumptions unpack_block_LossRLE.
Print Assumptions block_dest_LossRLE.
Print Assumptions blk_src_DupRLE.
Print Assumptions setup_block_DupRLE.
Print Assumptions unpack_block_DupRLE.
Print Assumptions block_dest_DupRLE.
Print Assumptions blk_src_PRT.
Print Assumptions setup_block_PRT.
Print Assumptions unpack_block_PRT.
Print Assumptions block_dest_PRT.
Print Assumptions blk_src_SS.
Print Assumptions setup_block_SS.
Print Assumptions unpack_block_SS.
Print Assumptions block_dest_SS.
Print Assumptions blk_src_RRT.
Print Assumptions setup_block_RRT.
Print Assumptions blk_src_DLRR.
Print Assumptions setup_block_DLRR.
Print Assumptions block_dest_DLRR.
Print Assumptions blk_src_VoIP.
Print Assumptions setup_block_VoIP.
Print Assumptions block_dest_VoIP.
Print Assumptions blk_src_Unknown.
Print Assumptions setup_block_Unknown.
Print Assumptions src_LossRLE_setupBlockHeader_fits.
Print Assumptions src_LossRLE_unpackBlockHeader_fits.
Print Assumptions src_LossRLE_DestinationSSRC_fits.
Print Assumptions fits_LossRLE_setup.
Print Assumptions fits_LossRLE_unpack.
Print Assumptions src_DupRLE_setupBlockHeader_fits.
Print Assumptions src_DupRLE_unpackBlockHeader_fits.
Print Assumptions src_DupRLE_DestinationSSRC_fits.
Print Assumptions fits_DupRLE_setup.
Print Assumptions fits_DupRLE_unpack.
Print Assumptions src_PRT_setupBlockHeader_fits.
Print Assumptions src_PRT_unpackBlockHeader_fits.
Print Assumptions src_PRT_DestinationSSRC_fits.
Print Assumptions fits_PRT_setup.
Print Assumptions fits_PRT_unpack.
Print Assumptions src_SS_setupBlockHeader_fits.
Print Assumptions src_SS_unpackBlockHeader_fits.
Print Assumptions src_SS_DestinationSSRC_fits.
Print Assumptions fits_SS_setup.
Print Assumptions fits_SS_unpack.
Print Assumptions fits_RRT_setup.
Print Assumptions fits_DLRR_setup.
Print Assumptions fits_VoIP_setup.
Print Assumptions fits_Unknown_setup.
Print Assumptions src_DLRR_DestinationSSRC_fits.
Print Assumptions src_VoIP_DestinationSSRC_fits.
