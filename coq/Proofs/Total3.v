(* Totality (no panic, fuel suffices) of TWCC and XR unmarshalling, and the TWCC allocation bound. *)
From RTCP Require Import Proofs.Tactics Proofs.HeaderProofs.
From RTCP Require Import Model.Header Model.Reports Model.Twcc Lib.Reflect Gen.Layouts Model.Xr.
Local Open Scope N_scope.

(* ================================================================== *)
(* (a) TWCC_unmarshal is total                                         *)
(* ================================================================== *)

Lemma u16_small x : x < 65536 -> u16 x = x.
Proof. intros. unfold u16. apply N.mod_small. exact H. Qed.

Lemma RLC_unmarshal_2 b0 b1 : RLC_unmarshal [b0; b1] = Ok (rlc_of_bytes (b2n b0) (b2n b1)).
Proof. reflexivity. Qed.
Lemma SVC_unmarshal_2 b0 b1 : SVC_unmarshal [b0; b1] = Ok (svc_of_bytes (b2n b0) (b2n b1)).
Proof. reflexivity. Qed.
Lemma RecvDelta_unmarshal_1 b0 : exists d, RecvDelta_unmarshal [b0] = Ok d.
Proof. eexists. reflexivity. Qed.
Lemma RecvDelta_unmarshal_2 b0 b1 : exists d, RecvDelta_unmarshal [b0; b1] = Ok d.
Proof. eexists. reflexivity. Qed.

(* the loop neither panics nor runs out of fuel, and on success hands over a position/rest pair
   that still satisfies the invariant  pos <= total <= pos + len rest *)
Lemma status_loop_inv : forall fuel rest total count pos processed,
  total <= 65532 -> pos <= total -> total <= pos + len rest ->
  (N.to_nat (total - pos) / 2 < fuel)%nat ->
  match status_loop fuel rest total count pos processed with
  | Ok (_, _, p, r) => p <= total /\ total <= p + len r
  | Err => True
  | _ => False
  end.
Proof.
  induction fuel as [|f IH]; intros rest total count pos processed Ht Hpos Hrest Hfuel; [lia|].
  cbn [status_loop].
  destruct (processed <? count); [|split; assumption].
  unfold c_packetStatusChunkLength. rewrite !(u16_small (pos + 2)) by lia.
  destruct (N.ltb_spec total (pos + 2)) as [|Hroom]; [exact I|].
  destruct rest as [|b0 [|b1 rest']].
  - rewrite len_nil in Hrest. lia.
  - rewrite len_cons, len_nil in Hrest. lia.
  - rewrite RLC_unmarshal_2, SVC_unmarshal_2.
    rewrite !len_cons in Hrest.
    assert (Hnext : forall processed',
      match status_loop f rest' total count (pos + 2) processed' with
      | Ok (_, _, p, r) => p <= total /\ total <= p + len r
      | Err => True
      | _ => False
      end) by (intros; apply IH; lia).
    destruct (_ =? c_TypeTCCRunLengthChunk); cbn [bind];
    match goal with |- context [status_loop f rest' total count (pos + 2) ?p'] =>
      specialize (Hnext p'); destruct (status_loop f rest' total count (pos + 2) p') as [[[[cs ds] p] r]| | |]
    end; cbn [bind]; auto.
Qed.

Lemma delta_pass_total : forall dts rest total pos,
  total <= 65532 -> pos <= total -> total <= pos + len rest ->
  delta_pass rest total pos dts <> Panic /\ delta_pass rest total pos dts <> Fuel.
Proof.
  induction dts as [|t dts IH]; intros rest total pos Ht Hpos Hrest; cbn [delta_pass]; [not_panic|].
  destruct (t =? c_TypeTCCPacketReceivedSmallDelta).
  - rewrite !(u16_small (pos + 1)) by lia.
    destruct (N.ltb_spec total (pos + 1)) as [|Hroom]; [not_panic|].
    destruct rest as [|b0 rest']; [rewrite len_nil in Hrest; lia|].
    rewrite len_cons in Hrest.
    destruct (RecvDelta_unmarshal_1 b0) as [d ->]. cbn [bind].
    specialize (IH rest' total (pos + 1) Ht ltac:(lia) ltac:(lia)).
    destruct (delta_pass rest' total (pos + 1) dts); cbn [bind]; try not_panic; destruct IH; congruence.
  - destruct (t =? c_TypeTCCPacketReceivedLargeDelta).
    + rewrite !(u16_small (pos + 2)) by lia.
      destruct (N.ltb_spec total (pos + 2)) as [|Hroom]; [not_panic|].
      destruct rest as [|b0 [|b1 rest']];
        [rewrite len_nil in Hrest; lia | rewrite len_cons, len_nil in Hrest; lia |].
      rewrite !len_cons in Hrest.
      destruct (RecvDelta_unmarshal_2 b0 b1) as [d ->]. cbn [bind].
      specialize (IH rest' total (pos + 2) Ht ltac:(lia) ltac:(lia)).
      destruct (delta_pass rest' total (pos + 2) dts); cbn [bind]; try not_panic; destruct IH; congruence.
    + specialize (IH rest total pos Ht Hpos Hrest).
      destruct (delta_pass rest total pos dts); cbn [bind]; try not_panic; destruct IH; congruence.
Qed.

Lemma get24_total (b : bytes) : len b = 3 -> get24BitsFromBytes b <> Panic /\ get24BitsFromBytes b <> Fuel.
Proof. intros H. unfold get24BitsFromBytes. reads_ok. not_panic. Qed.

(* what a successful parse went through *)
Definition twcc_total_of (h : Header) : N := u16 (4 * u16 (h_len h + 1)).
Lemma twcc_total_le h : twcc_total_of h <= 65532.
Proof. unfold twcc_total_of, u16. lia. Qed.

Theorem TWCC_unmarshal_total : forall b, TWCC_unmarshal b <> Panic /\ TWCC_unmarshal b <> Fuel.
Proof.
  intros b. unfold TWCC_unmarshal. consts.
  destruct (N.ltb_spec (len b) (4 + 4)) as [|Hl8]; [not_panic|].
  destruct (Header_unmarshal_total b) as [Hp Hf].
  destruct (Header_unmarshal b) as [h| | |]; cbn [bind]; try congruence; [|not_panic].
  fold (twcc_total_of h). pose proof (twcc_total_le h) as Ht. set (total := twcc_total_of h) in *.
  destruct (N.ltb_spec total (4 + 16)) as [|Ht20]; [not_panic|].
  destruct (N.ltb_spec (len b) total) as [|Hlt]; [not_panic|].
  destruct (_ || _); [not_panic|].
  reads_ok.
  rewrite slice_ok by lia. cbn [bind].
  apply bind_not_panic; try apply get24_total.
  1,2: rewrite len_firstn, len_skipn; lia.
  intros reftime _. reads_ok.
  rewrite (u16_small (4 + 16)) by lia.
  pose proof (status_loop_inv (S (length b)) (skipn (N.to_nat (4 + 16)) b) total
                (unbe (firstn 2 (skipn (N.to_nat (4 + 10)) b))) (4 + 16) 0 Ht ltac:(lia)) as Hs.
  rewrite len_skipn in Hs. specialize (Hs ltac:(lia)).
  assert (Hfuel : (N.to_nat (total - (4 + 16)) / 2 < S (length b))%nat) by (unfold len in Hlt; lia).
  specialize (Hs Hfuel).
  destruct (status_loop _ _ _ _ _ _) as [[[[cs ds] p] r]| | |]; cbn [bind]; try not_panic; try contradiction.
  destruct Hs as [Hs1 Hs2].
  apply bind_not_panic; try (apply delta_pass_total; lia).
  intros deltas _. not_panic.
Qed.
Print Assumptions TWCC_unmarshal_total.

(* ================================================================== *)
(* (b) allocation bound of the repaired status loop                    *)
(* ================================================================== *)

Lemma filter_len {A} (f : A -> bool) l : (length (filter f l) <= length l)%nat.
Proof. induction l as [|x l IH]; cbn [filter length]; [lia|]. destruct (f x); cbn [length]; lia. Qed.

(* deltas appended and packets accounted for by one chunk, given [rem] packets remain *)
Lemma chunk_rlc_bound ty sym run rem :
  nlen (chunk_delta_types (RLC ty sym run) rem) <= chunk_advance (RLC ty sym run) rem /\
  chunk_advance (RLC ty sym run) rem <= rem.
Proof.
  cbn [chunk_delta_types chunk_advance]. split; [|lia].
  destruct (is_recv_sym sym); unfold nlen; [rewrite repeat_length|cbn [length]]; lia.
Qed.
Lemma chunk_svc_bound ty ss syms rem : (length syms <= 14)%nat ->
  nlen (chunk_delta_types (SVC ty ss syms) rem) <= nlen syms /\
  chunk_advance (SVC ty ss syms) rem = N.min rem (nlen syms).
Proof.
  intros Hl. cbn [chunk_delta_types chunk_advance]. split.
  - unfold nlen. destruct (ss =? c_TypeTCCSymbolSizeOneBit); [|destruct (ss =? c_TypeTCCSymbolSizeTwoBit)];
      try (match goal with |- context [filter ?f ?l] => pose proof (filter_len f l) end; lia).
    cbn [length]. lia.
  - rewrite u16_small; [reflexivity|]. unfold nlen. lia.
Qed.
Lemma svc_of_bytes_shape x y : exists ty ss syms, svc_of_bytes x y = SVC ty ss syms /\ (length syms <= 14)%nat.
Proof.
  unfold svc_of_bytes. destruct (_ =? c_TypeTCCSymbolSizeOneBit); [|destruct (_ =? c_TypeTCCSymbolSizeTwoBit)];
    do 3 eexists; (split; [reflexivity|]); rewrite ?app_length, ?map_length; cbn [length]; lia.
Qed.

(* d deltas appended, a packets accounted for, by a chunk the parser produced *)
Definition chunk_ok (c : TChunk) : Prop :=
  forall rem, 1 <= rem ->
  chunk_advance c rem <= rem /\
  nlen (chunk_delta_types c rem) <= chunk_advance c rem + 13 /\
  (chunk_advance c rem < rem -> nlen (chunk_delta_types c rem) <= chunk_advance c rem).
Lemma rlc_chunk_ok x y : chunk_ok (rlc_of_bytes x y).
Proof.
  intros rem Hrem. unfold rlc_of_bytes.
  match goal with |- context [RLC ?t ?s ?r] => pose proof (chunk_rlc_bound t s r rem) as [H1 H2] end.
  lia.
Qed.
Lemma svc_chunk_ok x y : chunk_ok (svc_of_bytes x y).
Proof.
  intros rem Hrem. destruct (svc_of_bytes_shape x y) as (ty & ss & syms & -> & Hl).
  destruct (chunk_svc_bound ty ss syms rem Hl) as [H1 H2]. rewrite H2.
  unfold nlen in *. lia.
Qed.

Lemma status_loop_bound : forall fuel rest total count pos processed cs ds p r,
  processed <= count -> count < 65536 -> pos <= total -> total <= 65532 ->
  status_loop fuel rest total count pos processed = Ok (cs, ds, p, r) ->
  p = pos + 2 * nlen cs /\ p <= total /\
  nlen ds <= (count - processed) + (if processed <? count then 13 else 0) /\
  nlen ds <= (count - processed) + 14 * nlen cs.
Proof.
  induction fuel as [|f IH]; intros rest total count pos processed cs ds p r Hp Hc Hpos Ht; cbn [status_loop];
    [discriminate|].
  destruct (N.ltb_spec processed count) as [Hlt|Hge].
  2:{ intros E. inversion E; subst. unfold nlen. cbn [length]. lia. }
  unfold c_packetStatusChunkLength. rewrite !(u16_small (pos + 2)) by lia.
  destruct (N.ltb_spec total (pos + 2)) as [|Hroom]; [discriminate|].
  destruct rest as [|b0 [|b1 rest']]; try discriminate.
  rewrite RLC_unmarshal_2, SVC_unmarshal_2.
  assert (Hsub : sub16 count processed = count - processed) by (unfold sub16; lia).
  rewrite !Hsub.
  set (c := if _ =? c_TypeTCCRunLengthChunk then Ok (rlc_of_bytes _ _) else Ok (svc_of_bytes _ _)).
  assert (Hc' : exists c0, c = Ok c0 /\ chunk_ok c0).
  { unfold c. destruct (_ =? c_TypeTCCRunLengthChunk); eexists; (split; [reflexivity|]);
      [apply rlc_chunk_ok|apply svc_chunk_ok]. }
  destruct Hc' as (c0 & -> & Hok). cbn [bind].
  destruct (Hok (count - processed) ltac:(lia)) as (Ha & Hd1 & Hd2).
  set (a := chunk_advance c0 (count - processed)) in *.
  set (dts := chunk_delta_types c0 (count - processed)) in *.
  rewrite (u16_small (processed + a)) by lia.
  destruct (status_loop f rest' total count (pos + 2) (processed + a)) as [[[[cs' ds'] p'] r']| | |] eqn:E;
    cbn [bind]; try discriminate.
  intros E'. inversion E'; subst; clear E'.
  apply IH in E; try lia.
  destruct E as (E1 & E2 & E3 & E4).
  unfold nlen in *. rewrite app_length. cbn [length].
  destruct (N.ltb_spec (processed + a) count); lia.
Qed.

Lemma delta_pass_length : forall dts rest total pos ds,
  delta_pass rest total pos dts = Ok ds -> length ds = length dts.
Proof.
  induction dts as [|t dts IH]; intros rest total pos ds; cbn [delta_pass].
  - intros E. inversion E. reflexivity.
  - destruct (t =? c_TypeTCCPacketReceivedSmallDelta).
    + destruct (_ <? _); [discriminate|]. destruct rest as [|b0 rest']; [discriminate|].
      destruct (RecvDelta_unmarshal _); cbn [bind]; try discriminate.
      destruct (delta_pass _ _ _ dts) eqn:E; cbn [bind]; try discriminate.
      intros E'. inversion E'. cbn [length]. f_equal. eapply IH; exact E.
    + destruct (t =? c_TypeTCCPacketReceivedLargeDelta).
      * destruct (_ <? _); [discriminate|]. destruct rest as [|b0 [|b1 rest']]; try discriminate.
        destruct (RecvDelta_unmarshal _); cbn [bind]; try discriminate.
        destruct (delta_pass _ _ _ dts) eqn:E; cbn [bind]; try discriminate.
        intros E'. inversion E'. cbn [length]. f_equal. eapply IH; exact E.
      * destruct (delta_pass _ _ _ dts) eqn:E; cbn [bind]; try discriminate.
        intros E'. inversion E'. cbn [length]. f_equal. eapply IH; exact E.
Qed.

(* the stages a successful parse went through *)
Lemma TWCC_unmarshal_inv b t : TWCC_unmarshal b = Ok t ->
  exists total dts p r,
    20 <= total /\ total <= len b /\ total <= 65532 /\ tw_count t < 65536 /\
    status_loop (S (length b)) (skipn 20 b) total (tw_count t) 20 0 = Ok (tw_chunks t, dts, p, r) /\
    delta_pass r total p dts = Ok (tw_deltas t).
Proof.
  unfold TWCC_unmarshal. consts.
  destruct (N.ltb_spec (len b) (4 + 4)) as [|Hl8]; [discriminate|].
  destruct (Header_unmarshal b) as [h| | |]; cbn [bind]; try discriminate.
  fold (twcc_total_of h). pose proof (twcc_total_le h) as Ht. set (total := twcc_total_of h) in *.
  destruct (N.ltb_spec total (4 + 16)) as [|Ht20]; [discriminate|].
  destruct (N.ltb_spec (len b) total) as [|Hlt]; [discriminate|].
  destruct (_ || _); [discriminate|].
  destruct (get_be_at 4 b 4); cbn [bind]; try discriminate.
  destruct (get_be_at 4 b (4 + 4)); cbn [bind]; try discriminate.
  destruct (get_be_at 2 b (4 + 8)); cbn [bind]; try discriminate.
  destruct (get_be_at 2 b (4 + 10)) as [count| | |] eqn:Ec; cbn [bind]; try discriminate.
  apply get_be_at_lt in Ec. change (256 ^ N.of_nat 2) with 65536 in Ec.
  destruct (slice b _ _); cbn [bind]; try discriminate.
  destruct (get24BitsFromBytes _); cbn [bind]; try discriminate.
  destruct (idx b _); cbn [bind]; try discriminate.
  rewrite (u16_small (4 + 16)) by lia.
  change (N.to_nat (4 + 16)) with 20%nat. change (4 + 16) with 20 in *.
  destruct (status_loop _ _ _ _ _ _) as [[[[cs ds] p] r]| | |] eqn:Es; cbn [bind]; try discriminate.
  destruct (delta_pass _ _ _ _) as [deltas| | |] eqn:Ed; cbn [bind]; try discriminate.
  intros E. inversion E; subst; clear E. cbn [tw_count tw_chunks tw_deltas].
  exists total, ds, p, r. repeat split; try assumption; lia.
Qed.

Theorem TWCC_unmarshal_alloc_bound b t : TWCC_unmarshal b = Ok t ->
  (length (tw_chunks t) <= length b)%nat /\
  N.of_nat (length (tw_deltas t)) <= 65535 + 14 * N.of_nat (length (tw_chunks t)).
Proof.
  intros H. apply TWCC_unmarshal_inv in H as (total & dts & p & r & H20 & Hlen & Ht & Hc & Hs & Hd).
  apply delta_pass_length in Hd.
  apply status_loop_bound in Hs; try lia.
  destruct Hs as (E1 & E2 & E3 & E4). unfold nlen, len in *. rewrite Hd. lia.
Qed.
Print Assumptions TWCC_unmarshal_alloc_bound.

(* sharper form: the chunks fit the declared length, the deltas exceed the declared count by at most 13 *)
Theorem TWCC_unmarshal_alloc_bound_sharp b t : TWCC_unmarshal b = Ok t ->
  20 + 2 * N.of_nat (length (tw_chunks t)) <= len b /\
  N.of_nat (length (tw_deltas t)) <= tw_count t + 13 /\ tw_count t <= 65535.
Proof.
  intros H. apply TWCC_unmarshal_inv in H as (total & dts & p & r & H20 & Hlen & Ht & Hc & Hs & Hd).
  apply delta_pass_length in Hd.
  apply status_loop_bound in Hs; try lia.
  destruct Hs as (E1 & E2 & E3 & E4). unfold nlen, len in *. rewrite Hd.
  destruct (0 <? tw_count t); lia.
Qed.
Print Assumptions TWCC_unmarshal_alloc_bound_sharp.

(* ---- the same bound for every outcome, Err included ----
   [status_loop_c] is the status loop with the two append counters (len(t.PacketChunks), len(recvDeltas))
   threaded as accumulators, so that an error exit still reports what had been appended. *)
Inductive lres (A : Type) := LOk (a : A) | LErr (nchunks ndeltas : N) | LPanic | LFuel.
Arguments LOk {A} a. Arguments LErr {A} nchunks ndeltas. Arguments LPanic {A}. Arguments LFuel {A}.

Fixpoint status_loop_c (fuel : nat) (rest : bytes) (total count pos processed nc nd : N) : lres (N * N) :=
  match fuel with
  | O => LFuel
  | S f =>
      if processed <? count then
        if total <? u16 (pos + c_packetStatusChunkLength) then LErr nc nd else
        match rest with
        | b0 :: b1 :: rest' =>
            let typ := getNBitsFromByte (b2n b0) 0 1 in
            match (if typ =? c_TypeTCCRunLengthChunk then RLC_unmarshal [b0; b1] else SVC_unmarshal [b0; b1]) with
            | Ok c =>
                let remaining := sub16 count processed in
                status_loop_c f rest' total count (u16 (pos + c_packetStatusChunkLength))
                              (u16 (processed + chunk_advance c remaining))
                              (nc + 1) (nd + nlen (chunk_delta_types c remaining))
            | Err => LErr nc nd
            | Panic => LPanic
            | Fuel => LFuel
            end
        | _ => LPanic
        end
      else LOk (nc, nd)
  end.

(* it is the model's loop, with the lists replaced by their lengths *)
Lemma status_loop_c_erase : forall fuel rest total count pos processed nc nd,
  match status_loop fuel rest total count pos processed with
  | Ok (cs, ds, _, _) => status_loop_c fuel rest total count pos processed nc nd = LOk (nc + nlen cs, nd + nlen ds)
  | Err => exists a d, status_loop_c fuel rest total count pos processed nc nd = LErr a d
  | Panic => status_loop_c fuel rest total count pos processed nc nd = LPanic
  | Fuel => status_loop_c fuel rest total count pos processed nc nd = LFuel
  end.
Proof.
  induction fuel as [|f IH]; intros rest total count pos processed nc nd; cbn [status_loop status_loop_c];
    [reflexivity|].
  destruct (processed <? count).
  2:{ unfold nlen. cbn [length]. f_equal. f_equal; lia. }
  destruct (total <? _); [eauto|].
  destruct rest as [|b0 [|b1 rest']]; try reflexivity.
  rewrite RLC_unmarshal_2, SVC_unmarshal_2.
  destruct (_ =? c_TypeTCCRunLengthChunk); cbn [bind];
  match goal with |- context [status_loop_c f rest' total count ?ps ?pr ?a ?d] =>
    specialize (IH rest' total count ps pr a d);
    destruct (status_loop f rest' total count ps pr) as [[[[cs ds] p] r]| | |]
  end; cbn [bind]; try assumption;
  rewrite IH; unfold nlen; rewrite app_length; cbn [length]; f_equal; f_equal; lia.
Qed.

Lemma status_loop_c_bound : forall fuel rest total count pos processed nc nd,
  processed <= count -> count < 65536 -> pos <= total -> total <= 65532 ->
  match status_loop_c fuel rest total count pos processed nc nd with
  | LOk (a, d) | LErr a d =>
      2 * a + pos <= 2 * nc + total /\
      d <= nd + (count - processed) + (if processed <? count then 13 else 0)
  | _ => True
  end.
Proof.
  induction fuel as [|f IH]; intros rest total count pos processed nc nd Hp Hc Hpos Ht; cbn [status_loop_c];
    [exact I|].
  destruct (N.ltb_spec processed count) as [Hlt|Hge]; [|lia].
  unfold c_packetStatusChunkLength. rewrite !(u16_small (pos + 2)) by lia.
  destruct (N.ltb_spec total (pos + 2)) as [|Hroom]; [lia|].
  destruct rest as [|b0 [|b1 rest']]; try exact I.
  rewrite RLC_unmarshal_2, SVC_unmarshal_2.
  assert (Hsub : sub16 count processed = count - processed) by (unfold sub16; lia).
  rewrite !Hsub.
  set (c := if _ =? c_TypeTCCRunLengthChunk then Ok (rlc_of_bytes _ _) else Ok (svc_of_bytes _ _)).
  assert (Hc' : exists c0, c = Ok c0 /\ chunk_ok c0).
  { unfold c. destruct (_ =? c_TypeTCCRunLengthChunk); eexists; (split; [reflexivity|]);
      [apply rlc_chunk_ok|apply svc_chunk_ok]. }
  destruct Hc' as (c0 & -> & Hok).
  destruct (Hok (count - processed) ltac:(lia)) as (Ha & Hd1 & Hd2).
  set (a := chunk_advance c0 (count - processed)) in *.
  set (d := nlen (chunk_delta_types c0 (count - processed))) in *.
  rewrite (u16_small (processed + a)) by lia.
  specialize (IH rest' total count (pos + 2) (processed + a) (nc + 1) (nd + d) ltac:(lia) Hc ltac:(lia) Ht).
  destruct (status_loop_c f rest' total count (pos + 2) (processed + a) (nc + 1) (nd + d)) as [[a' d']|a' d'| |];
    try exact I; destruct (N.ltb_spec (processed + a) count); lia.
Qed.

(* what the status loop of Unmarshal has appended when it stops, whatever the final outcome
   (None: the loop is not reached) *)
Definition TWCC_alloc (raw : bytes) : option (N * N) :=
  if len raw <? c_headerLength + c_ssrcLength then None else
  match Header_unmarshal raw with
  | Ok h =>
      let total := u16 (4 * u16 (h_len h + 1)) in
      if total <? c_headerLength + c_packetChunkOffset then None else
      if len raw <? total then None else
      if negb (h_type h =? c_TypeTransportSpecificFeedback) || negb (h_count h =? c_FormatTCC) then None else
      match get_be_at 2 raw (c_headerLength + c_packetStatusCountOffset) with
      | Ok count =>
          let pos0 := u16 (c_headerLength + c_packetChunkOffset) in
          match status_loop_c (S (length raw)) (skipn (N.to_nat pos0) raw) total count pos0 0 0 0 with
          | LOk (a, d) | LErr a d => Some (a, d)
          | _ => None
          end
      | _ => None
      end
  | _ => None
  end.

Theorem TWCC_alloc_bound raw nc nd : TWCC_alloc raw = Some (nc, nd) ->
  20 + 2 * nc <= len raw /\ nd <= 65535 + 13.
Proof.
  unfold TWCC_alloc. consts.
  destruct (N.ltb_spec (len raw) (4 + 4)) as [|Hl8]; [discriminate|].
  destruct (Header_unmarshal raw) as [h| | |]; try discriminate.
  fold (twcc_total_of h). pose proof (twcc_total_le h) as Ht. set (total := twcc_total_of h) in *.
  destruct (N.ltb_spec total (4 + 16)) as [|Ht20]; [discriminate|].
  destruct (N.ltb_spec (len raw) total) as [|Hlt]; [discriminate|].
  destruct (_ || _); [discriminate|].
  destruct (get_be_at 2 raw (4 + 10)) as [count| | |] eqn:Ec; try discriminate.
  apply get_be_at_lt in Ec. change (256 ^ N.of_nat 2) with 65536 in Ec.
  rewrite (u16_small (4 + 16)) by lia.
  pose proof (status_loop_c_bound (S (length raw)) (skipn (N.to_nat (4 + 16)) raw) total count (4 + 16) 0 0 0
                ltac:(lia) Ec ltac:(lia) Ht) as Hb.
  destruct (status_loop_c _ _ _ _ _ _ _ _) as [[a d]|a d| |]; try discriminate;
    intros E; inversion E; subst; destruct (0 <? count); lia.
Qed.
Print Assumptions TWCC_alloc_bound.

Theorem TWCC_alloc_agrees raw t : TWCC_unmarshal raw = Ok t ->
  TWCC_alloc raw = Some (nlen (tw_chunks t), nlen (tw_deltas t)).
Proof.
  intros H. unfold TWCC_alloc. revert H. unfold TWCC_unmarshal. consts.
  destruct (N.ltb_spec (len raw) (4 + 4)) as [|Hl8]; [discriminate|].
  destruct (Header_unmarshal raw) as [h| | |]; cbn [bind]; try discriminate.
  destruct (_ <? 4 + 16); [discriminate|].
  destruct (len raw <? _); [discriminate|].
  destruct (_ || _); [discriminate|].
  destruct (get_be_at 4 raw 4); cbn [bind]; try discriminate.
  destruct (get_be_at 4 raw (4 + 4)); cbn [bind]; try discriminate.
  destruct (get_be_at 2 raw (4 + 8)); cbn [bind]; try discriminate.
  destruct (get_be_at 2 raw (4 + 10)) as [count| | |]; cbn [bind]; try discriminate.
  destruct (slice raw _ _); cbn [bind]; try discriminate.
  destruct (get24BitsFromBytes _); cbn [bind]; try discriminate.
  destruct (idx raw _); cbn [bind]; try discriminate.
  match goal with |- context [status_loop ?f ?r ?t ?c ?p ?q] =>
    pose proof (status_loop_c_erase f r t c p q 0 0) as He;
    destruct (status_loop f r t c p q) as [[[[cs ds] p'] r']| | |]
  end; cbn [bind]; try discriminate.
  destruct (delta_pass _ _ _ _) as [deltas| | |] eqn:Ed; cbn [bind]; try discriminate.
  intros E. inversion E; subst; clear E. cbn [tw_chunks tw_deltas].
  rewrite He. apply delta_pass_length in Ed. unfold nlen. rewrite Ed. reflexivity.
Qed.
Print Assumptions TWCC_alloc_agrees.

(* ================================================================== *)
(* (c) the reflection reader and XR_unmarshal are total                *)
(* ================================================================== *)

(* named forms of the two local fixpoints of [read] *)
Definition read_slice (e : ty) : nat -> bytes -> res (val * bytes) :=
  fix loop (fuel : nat) (b : bytes) {struct fuel} : res (val * bytes) :=
  match fuel with
  | O => Fuel
  | S f =>
      match b with
      | [] => Ok (VSlice [], [])
      | _ =>
          let* (x, rest) := read e b in
          let* (xs, rest') := loop f rest in
          match xs with
          | VSlice l => Ok (VSlice (x :: l), rest')
          | _ => Err
          end
      end
  end.
Lemma read_slice_O e b : read_slice e O b = Fuel.
Proof. reflexivity. Qed.
Lemma read_slice_S e f b : read_slice e (S f) b =
  match b with
  | [] => Ok (VSlice [], [])
  | _ =>
      let* (x, rest) := read e b in
      let* (xs, rest') := read_slice e f rest in
      match xs with
      | VSlice l => Ok (VSlice (x :: l), rest')
      | _ => Err
      end
  end.
Proof. reflexivity. Qed.
Fixpoint read_fields (fs : list field) (b : bytes) {struct fs} : res (list val * bytes) :=
  match fs with
  | [] => Ok ([], b)
  | Field _ ft om ex :: fs' =>
      if om then
        let* (vs, rest) := read_fields fs' b in Ok (zero_of ft :: vs, rest)
      else if ex then
        let* (x, rest) := read ft b in
        let* (vs, rest') := read_fields fs' rest in
        Ok (x :: vs, rest')
      else
        let k := mem_size ft in
        if len b <? k then Err else
        let* (vs, rest) := read_fields fs' (skipn (N.to_nat k) b) in
        Ok (zero_of ft :: vs, rest)
  end.
Lemma read_TSlice e b : read (TSlice e) b = read_slice e (S (length b)) b.
Proof. reflexivity. Qed.
Lemma read_TStruct fs b : read (TStruct fs) b = let* (vs, rest) := read_fields fs b in Ok (VStruct vs, rest).
Proof. reflexivity. Qed.

(* [nice t]: reading never panics nor exhausts fuel and never returns more than it was given;
   [strict t]: a successful read from a non-empty buffer consumes at least one octet *)
Definition nice_res {A} (b : bytes) (x : res (A * bytes)) : Prop :=
  match x with Ok (_, r) => (length r <= length b)%nat | Err => True | _ => False end.
Definition strict_res {A} (b : bytes) (x : res (A * bytes)) : Prop :=
  match x with Ok (_, r) => (length r < length b)%nat | _ => True end.
Definition nice (t : ty) : Prop := forall b, nice_res b (read t b).
Definition strict (t : ty) : Prop := forall b, b <> [] -> strict_res b (read t b).

Definition is_scalar (t : ty) : Prop := t = TU8 \/ t = TU16 \/ t = TU32 \/ t = TU64.
Lemma read_scalar t : is_scalar t ->
  exists k, (1 <= k)%nat /\ forall b,
    read t b = if len b <? N.of_nat k then Err else Ok (VU (unbe (firstn k b)), skipn k b).
Proof.
  intros [ -> | [ -> | [ -> | -> ]]]; [exists 1%nat|exists 2%nat|exists 4%nat|exists 8%nat]; (split; [lia|intro b; rewrite <- short_len; reflexivity]).
Qed.
Lemma nice_scalar t : is_scalar t -> nice t.
Proof.
  intros H b. destruct (read_scalar t H) as (k & Hk & ->). unfold nice_res.
  destruct (_ <? _); [exact I|]. rewrite skipn_length. lia.
Qed.
Lemma strict_scalar t : is_scalar t -> strict t.
Proof.
  intros H b Hb. destruct (read_scalar t H) as (k & Hk & ->). unfold strict_res.
  destruct (_ <? _); [exact I|]. rewrite skipn_length. destruct b; [congruence|]. cbn [length]. lia.
Qed.

Lemma read_slice_nice e : nice e -> strict e -> forall fuel b, (length b < fuel)%nat ->
  nice_res b (read_slice e fuel b).
Proof.
  intros Hn Hs. induction fuel as [|f IH]; intros b Hf; [lia|]. rewrite read_slice_S.
  destruct b as [|x0 b']; [cbn; lia|].
  specialize (Hn (x0 :: b')). specialize (Hs (x0 :: b') ltac:(discriminate)).
  unfold nice_res, strict_res in *.
  destruct (read e (x0 :: b')) as [[x rest]| | |]; cbn [bind]; try assumption.
  specialize (IH rest ltac:(lia)).
  destruct (read_slice e f rest) as [[xs rest']| | |]; cbn [bind]; try assumption.
  destruct xs; try exact I. lia.
Qed.
Lemma nice_slice e : nice e -> strict e -> nice (TSlice e).
Proof. intros Hn Hs b. rewrite read_TSlice. apply read_slice_nice; auto. Qed.

(* a field is harmless if it is skipped, or padded over, or read by a nice reader *)
Definition field_ok (f : field) : Prop :=
  match f with Field _ ft om ex => om = true \/ ex = false \/ nice ft end.
Lemma read_fields_nice fs : Forall field_ok fs -> forall b, nice_res b (read_fields fs b).
Proof.
  induction 1 as [|[n ft om ex] fs Hf Hfs IH]; intros b; cbn [read_fields]; [cbn; lia|].
  unfold nice_res in *.
  destruct om.
  { specialize (IH b). destruct (read_fields fs b) as [[vs rest]| | |]; cbn [bind]; assumption. }
  destruct ex.
  - destruct Hf as [Hf|[Hf|Hf]]; try discriminate.
    specialize (Hf b). unfold nice_res in Hf.
    destruct (read ft b) as [[x rest]| | |]; cbn [bind]; try assumption.
    specialize (IH rest). destruct (read_fields fs rest) as [[vs rest']| | |]; cbn [bind]; try assumption. lia.
  - cbn zeta. destruct (_ <? _); [exact I|].
    specialize (IH (skipn (N.to_nat (mem_size ft)) b)).
    destruct (read_fields fs _) as [[vs rest']| | |]; cbn [bind]; try assumption.
    rewrite skipn_length in IH. lia.
Qed.
Lemma nice_struct fs : Forall field_ok fs -> nice (TStruct fs).
Proof.
  intros H b. rewrite read_TStruct. pose proof (read_fields_nice fs H b) as Hn. unfold nice_res in *.
  destruct (read_fields fs b) as [[vs rest]| | |]; cbn [bind]; assumption.
Qed.
(* a struct whose first member is an exported, non-omitted strict type is strict *)
Lemma strict_struct n ft fs : strict ft -> Forall field_ok fs -> strict (TStruct (Field n ft false true :: fs)).
Proof.
  intros Hs Hfs b Hb. rewrite read_TStruct. cbn [read_fields].
  specialize (Hs b Hb). unfold strict_res in *.
  destruct (read ft b) as [[x rest]| | |]; cbn [bind]; try exact I.
  pose proof (read_fields_nice fs Hfs rest) as Hn. unfold nice_res in Hn.
  destruct (read_fields fs rest) as [[vs rest']| | |]; cbn [bind]; try exact I. lia.
Qed.

Ltac scalar := unfold is_scalar; tauto.
Ltac fields_ok :=
  repeat first
    [ apply Forall_nil
    | apply Forall_cons; [cbn [field_ok]; first [left; reflexivity | right; left; reflexivity | right; right] |] ].

Lemma nice_XRHeader : nice ly_XRHeader.
Proof. apply nice_struct. fields_ok; apply nice_scalar; scalar. Qed.
Lemma nice_DLRRReport : nice ly_DLRRReport.
Proof. apply nice_struct. fields_ok; apply nice_scalar; scalar. Qed.
Lemma strict_DLRRReport : strict ly_DLRRReport.
Proof. apply strict_struct; [apply strict_scalar; scalar|]. fields_ok; apply nice_scalar; scalar. Qed.

Ltac nice_ty :=
  first
    [ apply nice_scalar; scalar
    | exact nice_XRHeader
    | apply nice_slice; [first [apply nice_scalar; scalar | exact nice_DLRRReport]
                        |first [apply strict_scalar; scalar | exact strict_DLRRReport]] ].

Lemma nice_layout k : nice (layout_of k).
Proof.
  destruct k; cbn [layout_of]; apply nice_struct; fields_ok; nice_ty.
Qed.

Lemma nice_other t : t = TBool \/ t = TBad -> nice t.
Proof. intros [ -> | -> ] b; exact I. Qed.

Lemma nice_total t : nice t -> forall b, read t b <> Panic /\ read t b <> Fuel.
Proof.
  intros H b. specialize (H b). unfold nice_res in H.
  destruct (read t b) as [[v r]| | |]; try contradiction; not_panic.
Qed.

(* The unrestricted statement is false: a slice whose element reads successfully without consuming
   anything (a struct with no wire members) makes the reader spin until its fuel is gone. *)
Lemma read_total_refuted : exists t b, read t b = Fuel.
Proof. exists (TSlice (TStruct [])), [x00]. reflexivity. Qed.

(* A syntactic criterion covering every generated layout: every slice element type must begin
   (recursively) with an exported, non-omitted scalar. *)
Fixpoint ty_strictb (t : ty) : bool :=
  match t with
  | TU8 | TU16 | TU32 | TU64 => true
  | TStruct (Field _ ft false true :: _) => ty_strictb ft
  | _ => false
  end.
Fixpoint ty_wfb (t : ty) : bool :=
  match t with
  | TSlice e => ty_wfb e && ty_strictb e
  | TStruct fs => forallb (fun f => match f with Field _ ft om ex => om || negb ex || ty_wfb ft end) fs
  | _ => true
  end.

Section ty_ind2.
  Variable P : ty -> Prop.
  Hypothesis H8 : P TU8.
  Hypothesis H16 : P TU16.
  Hypothesis H32 : P TU32.
  Hypothesis H64 : P TU64.
  Hypothesis Hbool : P TBool.
  Hypothesis Hbad : P TBad.
  Hypothesis Hslice : forall e, P e -> P (TSlice e).
  Hypothesis Hstruct : forall fs, Forall (fun f => match f with Field _ ft _ _ => P ft end) fs -> P (TStruct fs).
  Fixpoint ty_ind2 (t : ty) : P t :=
    match t with
    | TU8 => H8 | TU16 => H16 | TU32 => H32 | TU64 => H64 | TBool => Hbool | TBad => Hbad
    | TSlice e => Hslice e (ty_ind2 e)
    | TStruct fs =>
        Hstruct fs
          ((fix go (fs : list field) : Forall (fun f => match f with Field _ ft _ _ => P ft end) fs :=
              match fs with
              | [] => Forall_nil _
              | Field n ft om ex :: fs' => Forall_cons (Field n ft om ex) (ty_ind2 ft) (go fs')
              end) fs)
    end.
End ty_ind2.

Lemma ty_wfb_sound t : ty_wfb t = true -> nice t /\ (ty_strictb t = true -> strict t).
Proof.
  induction t as [ | | | | | |e IH|fs IH] using ty_ind2; intros Hwf.
  1-4: split; [apply nice_scalar; scalar | intros _; apply strict_scalar; scalar].
  1-2: split; [apply nice_other; tauto | discriminate].
  - cbn [ty_wfb] in Hwf. apply andb_true_iff in Hwf as [Hw Hs]. destruct (IH Hw) as [Hn Hst].
    split; [apply nice_slice; auto | discriminate].
  - cbn [ty_wfb] in Hwf.
    assert (Hok : Forall field_ok fs).
    { induction IH as [|[n ft om ex] fs' Hf Hfs IH']; [constructor|].
      cbn [forallb] in Hwf. apply andb_true_iff in Hwf as [Hw1 Hw2].
      constructor; [|apply IH'; exact Hw2].
      cbn [field_ok]. destruct om; [left; reflexivity|]. destruct ex; [|right; left; reflexivity].
      right; right. cbn [orb negb] in Hw1. apply Hf. exact Hw1. }
    split; [apply nice_struct; exact Hok|].
    destruct fs as [|[n ft om ex] fs']; cbn [ty_strictb]; [discriminate|].
    destruct om; [discriminate|]. destruct ex; [|discriminate]. intros Hs.
    inversion IH as [|? ? Hf Hfs]; subst. inversion Hok; subst.
    cbn [forallb orb negb] in Hwf. apply andb_true_iff in Hwf as [Hw1 Hw2].
    apply strict_struct; [|assumption]. apply Hf; assumption.
Qed.

Theorem read_total t : ty_wfb t = true -> forall b, read t b <> Panic /\ read t b <> Fuel.
Proof. intros H. apply nice_total. apply ty_wfb_sound. exact H. Qed.
Print Assumptions read_total.

Lemma layout_wf k : ty_wfb (layout_of k) = true.
Proof. destruct k; reflexivity. Qed.
Lemma XRHeader_wf : ty_wfb ly_XRHeader = true.
Proof. reflexivity. Qed.

Theorem read_layout_total k b : read (layout_of k) b <> Panic /\ read (layout_of k) b <> Fuel.
Proof. apply read_total, layout_wf. Qed.
Print Assumptions read_layout_total.

(* ---- the block loop ---- *)
Lemma xr_blocks_loop_total : forall fuel buf, (length buf < fuel)%nat ->
  xr_blocks_loop fuel buf <> Panic /\ xr_blocks_loop fuel buf <> Fuel.
Proof.
  induction fuel as [|f IH]; intros buf Hf; [lia|]. cbn [xr_blocks_loop].
  destruct buf as [|x0 buf']; [not_panic|].
  set (buf := x0 :: buf') in *.
  apply bind_not_panic; try apply (nice_total _ nice_XRHeader).
  intros [hv r0] _.
  set (size := if _ <? _ then _ else _).
  assert (Hsize : 1 <= size).
  { unfold size. match goal with |- context [if ?a <? ?c then _ else _] => destruct (N.ltb_spec a c) end; [|lia].
    unfold buf. rewrite len_cons. lia. }
  apply bind_not_panic; try apply read_layout_total.
  intros [v r1] _.
  apply bind_not_panic; try (apply IH; rewrite skipn_length; unfold buf in *; cbn [length] in *; lia).
  intros r _. not_panic.
Qed.

Theorem XR_unmarshal_total : forall b, XR_unmarshal b <> Panic /\ XR_unmarshal b <> Fuel.
Proof.
  intros b. unfold XR_unmarshal.
  destruct (Header_unmarshal_total b) as [Hp Hf].
  destruct (Header_unmarshal b) as [h| | |] eqn:Eh; cbn [bind]; try congruence; [|not_panic].
  apply Header_unmarshal_ok in Eh as [Hl _].
  destruct (negb _); [not_panic|].
  unfold c_headerLength. rewrite slice_from_ok by lia. cbn [bind].
  pose proof (nice_scalar TU32 ltac:(scalar) (skipn (N.to_nat 4) b)) as Hn.
  unfold nice_res in Hn.
  destruct (read TU32 (skipn (N.to_nat 4) b)) as [[sv rest]| | |]; cbn [bind]; try contradiction; [|not_panic].
  rewrite skipn_length in Hn.
  apply bind_not_panic; try (apply xr_blocks_loop_total; lia).
  intros blocks _. not_panic.
Qed.
Print Assumptions XR_unmarshal_total.
