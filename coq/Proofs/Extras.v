(* Additional results:
   A. C01  memory: the number of list elements / octets a decoded packet holds is bounded by the input length
           (per frame and per datagram), for every packet type including ExtendedReport;
   B. C10  DestinationSSRC is preserved by the marshal / unmarshal round trip;
   C. C16  the XR RLE chunk accessors Type / RunType / Value decompose every 16-bit chunk value uniquely;
   D. C05  framing of PLI / RRR / NACK / SLI / FIR for EVERY value Marshal accepts (no domain hypothesis). *)
From RTCP Require Import Proofs.Tactics Proofs.HeaderProofs Lib.Reflect Gen.Layouts
  Model.Header Model.Reports Model.Sdes Model.ByeApp Model.Feedback Model.Twcc Model.Ccfb Model.Remb Model.Xr Model.Packet
  Proofs.Total1 Proofs.Total2 Proofs.Total3 Proofs.Dgram.
Local Open Scope N_scope.

(* ================================================================================================ *)
(* A. C01: allocation at the frame and datagram level                                                *)
(* ================================================================================================ *)

(* ---- A.1 the reflection reader consumes exactly the wire size of the value it builds ---- *)

Definition wire_fields : list val -> list field -> N :=
  fix go (vs : list val) (fs : list field) {struct vs} : N :=
    match vs, fs with
    | x :: vs', Field _ ft om ex :: fs' =>
        (if om then 0 else if ex then wire_size ft x else mem_size ft) + go vs' fs'
    | _, _ => 0
    end.
Lemma wire_TStruct fs vs : wire_size (TStruct fs) (VStruct vs) = wire_fields vs fs.
Proof. reflexivity. Qed.
Lemma wire_TSlice e vs : wire_size (TSlice e) (VSlice vs) = fold_right (fun x acc => wire_size e x + acc) 0 vs.
Proof. reflexivity. Qed.
Lemma wire_fields_cons x vs n ft om ex fs :
  wire_fields (x :: vs) (Field n ft om ex :: fs) =
  (if om then 0 else if ex then wire_size ft x else mem_size ft) + wire_fields vs fs.
Proof. reflexivity. Qed.

(* [exact t]: a successful read of a [t] consumed exactly [wire_size t v] octets *)
Definition exact (t : ty) : Prop := forall b v r, read t b = Ok (v, r) -> wire_size t v + len r = len b.

Lemma exact_scalar t : is_scalar t -> exact t.
Proof.
  intros [ -> | [ -> | [ -> | -> ]]] b v r; cbn [read scalar_size];
    (match goal with |- context [if ?a <? ?c then _ else _] => destruct (N.ltb_spec a c) as [|Hl] end; [discriminate|]);
    match goal with |- Ok (_, skipn ?k b) = _ -> _ =>
      pose proof (len_skipn b k) as Hs; set (s := skipn k b) in *; clearbody s end;
    intros [= <- <-]; cbn [wire_size mem_size scalar_size]; lia.
Qed.

Lemma read_slice_exact e : exact e -> forall fuel b v r, read_slice e fuel b = Ok (v, r) ->
  exists l, v = VSlice l /\ fold_right (fun x acc => wire_size e x + acc) 0 l + len r = len b.
Proof.
  intros He. induction fuel as [|f IH]; intros b v r; [discriminate|]. rewrite read_slice_S.
  destruct b as [|x0 b'].
  { intros E; inversion E; subst. exists []. split; reflexivity. }
  destruct (read e (x0 :: b')) as [[x rest]| | |] eqn:Er; cbn [bind]; try discriminate.
  apply He in Er.
  destruct (read_slice e f rest) as [[xs rest']| | |] eqn:El; cbn [bind]; try discriminate.
  apply IH in El as (l & -> & Hl).
  intros E; inversion E; subst v r; clear E. exists (x :: l). split; [reflexivity|].
  cbn [fold_right]. lia.
Qed.
Lemma exact_slice e : exact e -> exact (TSlice e).
Proof.
  intros He b v r. rewrite read_TSlice. intros E. apply (read_slice_exact e He) in E as (l & -> & Hl).
  rewrite wire_TSlice. exact Hl.
Qed.

Definition field_exact (f : field) : Prop :=
  match f with Field _ ft om ex => om = true \/ ex = false \/ exact ft end.
Lemma read_fields_exact fs : Forall field_exact fs -> forall b vs r, read_fields fs b = Ok (vs, r) ->
  wire_fields vs fs + len r = len b.
Proof.
  induction 1 as [|[n ft om ex] fs Hf Hfs IH]; intros b vs r; cbn [read_fields].
  { intros E; inversion E; subst. reflexivity. }
  destruct om.
  { destruct (read_fields fs b) as [[vs1 rest]| | |] eqn:E1; cbn [bind]; try discriminate.
    intros E; inversion E; subst vs r; clear E. rewrite wire_fields_cons. apply IH in E1. lia. }
  destruct ex.
  - destruct Hf as [Hf|[Hf|Hf]]; try discriminate.
    destruct (read ft b) as [[x rest]| | |] eqn:Ex; cbn [bind]; try discriminate.
    apply Hf in Ex.
    destruct (read_fields fs rest) as [[vs1 rest']| | |] eqn:E1; cbn [bind]; try discriminate.
    intros E; inversion E; subst vs r; clear E. rewrite wire_fields_cons. apply IH in E1. lia.
  - cbn zeta. destruct (N.ltb_spec (len b) (mem_size ft)) as [|Hl]; [discriminate|].
    destruct (read_fields fs _) as [[vs1 rest']| | |] eqn:E1; cbn [bind]; try discriminate.
    intros E; inversion E; subst vs r; clear E. rewrite wire_fields_cons. apply IH in E1.
    rewrite len_skipn in E1. lia.
Qed.
Lemma exact_struct fs : Forall field_exact fs -> exact (TStruct fs).
Proof.
  intros H b v r. rewrite read_TStruct.
  destruct (read_fields fs b) as [[vs rest]| | |] eqn:E1; cbn [bind]; try discriminate.
  intros E; inversion E; subst v r; clear E. rewrite wire_TStruct. exact (read_fields_exact fs H _ _ _ E1).
Qed.

Ltac fields_exact :=
  repeat first
    [ apply Forall_nil
    | apply Forall_cons; [cbn [field_exact]; first [left; reflexivity | right; left; reflexivity | right; right] |] ].
Ltac is_sc := unfold is_scalar; tauto.

Lemma exact_XRHeader : exact ly_XRHeader.
Proof. apply exact_struct. fields_exact; apply exact_scalar; is_sc. Qed.
Lemma exact_DLRRReport : exact ly_DLRRReport.
Proof. apply exact_struct. fields_exact; apply exact_scalar; is_sc. Qed.
Ltac exact_ty :=
  first
    [ apply exact_scalar; is_sc
    | exact exact_XRHeader
    | apply exact_slice; first [apply exact_scalar; is_sc | exact exact_DLRRReport] ].
Lemma exact_layout k : exact (layout_of k).
Proof. destruct k; cbn [layout_of]; apply exact_struct; fields_exact; exact_ty. Qed.

(* ---- A.2 unpackBlockHeader only assigns members that are not on the wire ---- *)

Definition omitted_in (t : ty) (name : String.string) : bool :=
  match t with
  | TStruct fs =>
      match field_index name fs with
      | Some i => match nth_error fs i with Some (Field _ _ true _) => true | _ => false end
      | None => true
      end
  | _ => true
  end.
Lemma wire_fields_set_omit : forall i fs vs x n ft ex, nth_error fs i = Some (Field n ft true ex) ->
  wire_fields (set_nth i x vs) fs = wire_fields vs fs.
Proof.
  induction i as [|i IH]; intros fs vs x n ft ex Hn; destruct fs as [|[n0 ft0 om0 ex0] fs]; try discriminate;
    destruct vs as [|y vs]; try reflexivity; cbn [set_nth nth_error] in *.
  - inversion Hn; subst. rewrite !wire_fields_cons. reflexivity.
  - rewrite !wire_fields_cons. rewrite (IH fs vs x n ft ex Hn). reflexivity.
Qed.
Lemma wire_set_field_omit t v name x : omitted_in t name = true ->
  wire_size t (set_field t v name x) = wire_size t v.
Proof.
  unfold omitted_in, set_field. destruct t; try reflexivity. destruct v; try reflexivity.
  destruct (field_index name fs) as [i|]; [|reflexivity].
  destruct (nth_error fs i) as [[n ft [|] ex]|] eqn:En; try discriminate. intros _.
  rewrite !wire_TStruct. eapply wire_fields_set_omit. exact En.
Qed.
Lemma blk_wire_set b name x : omitted_in (layout_of (xb_kind b)) name = true ->
  blk_wire_size (blk_set b name x) = blk_wire_size b.
Proof. intros H. unfold blk_wire_size, blk_set. cbn [xb_kind xb_val]. apply wire_set_field_omit. exact H. Qed.
Lemma blk_set_kind b name x : xb_kind (blk_set b name x) = xb_kind b.
Proof. reflexivity. Qed.

Lemma unpack_block_wire k v : blk_wire_size (unpack_block (mkXRBlock k v)) = wire_size (layout_of k) v.
Proof.
  unfold unpack_block. cbn [xb_kind]. destruct k;
    repeat (rewrite blk_wire_set by (rewrite ?blk_set_kind; reflexivity)); reflexivity.
Qed.

(* ---- A.3 the XR block loop and XR_unmarshal ---- *)

Definition blocks_wire (bs : list XRBlock) : N := fold_right (fun b acc => blk_wire_size b + acc) 0 bs.

Lemma if_ltb_le a c : (if a <? c then a else c) <= a.
Proof. destruct (N.ltb_spec a c); lia. Qed.
Lemma xr_blocks_loop_alloc : forall fuel buf bs, xr_blocks_loop fuel buf = Ok bs -> blocks_wire bs <= len buf.
Proof.
  induction fuel as [|f IH]; intros buf bs; [discriminate|]. cbn [xr_blocks_loop].
  destruct buf as [|x0 buf'].
  { intros E; inversion E; subst. cbn. lia. }
  cbv iota. set (buf := x0 :: buf') in *. clearbody buf.
  destruct (read ly_XRHeader buf) as [[hv r0]| | |]; cbn [bind]; try discriminate.
  set (size := if _ <? _ then _ else _).
  assert (Hsize : size <= len buf).
  { apply if_ltb_le. }
  clearbody size. set (k := kind_of_block_type _). clearbody k.
  destruct (read (layout_of _) (firstn (N.to_nat size) buf)) as [[v r1]| | |] eqn:Ev; cbn [bind]; try discriminate.
  apply exact_layout in Ev. rewrite len_firstn, N2Nat.id, N.min_l in Ev by exact Hsize.
  destruct (xr_blocks_loop f (skipn (N.to_nat size) buf)) as [r| | |] eqn:El; cbn [bind]; try discriminate.
  apply IH in El. rewrite len_skipn, N2Nat.id in El.
  intros E; inversion E; subst bs; clear E. unfold blocks_wire. cbn [fold_right]. fold (blocks_wire r).
  rewrite unpack_block_wire. lia.
Qed.

(* every block of a decoded ExtendedReport occupies at most the octets it was read from: no hypothesis
   on alignment or on the block length fields *)
Theorem XR_unmarshal_alloc b x : XR_unmarshal b = Ok x -> 8 + blocks_wire (xr_blocks x) <= len b.
Proof.
  unfold XR_unmarshal.
  destruct (Header_unmarshal b) as [h| | |] eqn:Eh; cbn [bind]; try discriminate.
  apply Header_unmarshal_ok in Eh as [Hl _].
  destruct (negb _); [discriminate|].
  unfold c_headerLength. rewrite slice_from_ok by lia. cbn [bind].
  destruct (read TU32 (skipn (N.to_nat 4) b)) as [[sv rest]| | |] eqn:Es; cbn [bind]; try discriminate.
  apply (exact_scalar TU32 ltac:(is_sc)) in Es. rewrite len_skipn in Es.
  cbn [wire_size mem_size scalar_size] in Es.
  assert (Es' : wire_size TU32 sv = 4).
  { clear Es. destruct sv; reflexivity. }
  destruct (xr_blocks_loop _ rest) as [blocks| | |] eqn:El; cbn [bind]; try discriminate.
  apply xr_blocks_loop_alloc in El.
  intros E; inversion E; subst x; clear E. cbn [xr_blocks]. lia.
Qed.

(* ---- A.4 the element count of a decoded packet ---- *)

(* list elements and octets of the variable-size parts a packet value holds (the fixed-size struct itself is
   not counted): report blocks 24 octets each, SDES chunks 5 / items 2 / text octets, 32-bit sources 4, ...;
   for ExtendedReport the wire size of every block (header included), which dominates the number of leaves
   of the block value.  RawPacket aliases its input: nothing is allocated. *)
Fixpoint elems (p : packet) : N :=
  match p with
  | PSR x => 24 * nlen (sr_reports x) + len (sr_ext x)
  | PRR x => 24 * nlen (rcv_reports x) + len (rcv_ext x)
  | PSDES x => 5 * nlen (sd_chunks x) + 2 * chunks_items (sd_chunks x) + chunks_text (sd_chunks x)
  | PBYE x => 4 * nlen (bye_sources x) + len (bye_reason x)
  | PAPP x => len (app_data x)
  | PNACK x => 4 * nlen (nack_pairs x)
  | PSLI x => 4 * nlen (sli_entries x)
  | PFIR x => 8 * nlen (fir_entries x)
  | PREMB x => 4 * nlen (remb_ssrcs x)
  | PCCFB x => 8 * nlen (cc_blocks x) + 2 * metric_count (cc_blocks x)
  | PTWCC x => 2 * nlen (tw_chunks x) + nlen (tw_deltas x)
  | PXR x => blocks_wire (xr_blocks x)
  | PPLI _ | PRRR _ => 0
  | PRaw _ => 0
  | PCompound l => fold_right (fun q acc => elems q + acc) 0 l
  end.

(* every type except TransportLayerCC: bounded by the octets handed to the decoder *)
Lemma decode_as_alloc_len t f p : t <> TTWCC -> decode_as t f = Ok p -> elems p <= len f.
Proof.
  intros Ht. destruct t; cbn [decode_as]; try congruence;
    match goal with
    | |- res_map _ ?X = _ -> _ => destruct X as [x| | |] eqn:E; cbn [res_map]; try discriminate
    | |- _ => idtac
    end; try (intros [= <-]; cbn [elems]).
  - apply SR_unmarshal_alloc_N in E. lia.
  - apply RR_unmarshal_alloc_N in E. lia.
  - apply SDES_unmarshal_alloc in E. lia.
  - apply BYE_unmarshal_alloc_N in E. lia.
  - apply APP_unmarshal_alloc_N in E. lia.
  - apply NACK_unmarshal_alloc in E. lia.
  - lia.
  - apply CCFB_unmarshal_alloc in E. lia.
  - lia.
  - apply SLI_unmarshal_alloc in E. lia.
  - apply REMB_unmarshal_alloc in E. lia.
  - apply FIR_unmarshal_alloc in E. lia.
  - apply XR_unmarshal_alloc in E. lia.
  - lia.
  - discriminate.
Qed.

(* TransportLayerCC: the chunks fit the input, the deltas exceed the 16-bit status count by at most 13 *)
Lemma decode_as_alloc t f p : decode_as t f = Ok p -> elems p <= 65535 + 13 + len f.
Proof.
  destruct t; try (intros H; apply decode_as_alloc_len in H; [lia|discriminate]).
  cbn [decode_as]. destruct (TWCC_unmarshal f) as [x| | |] eqn:E; cbn [res_map]; try discriminate.
  intros [= <-]. cbn [elems]. apply TWCC_unmarshal_alloc_bound_sharp in E. unfold nlen. lia.
Qed.

Theorem decode_frame_alloc_sharp f p : decode_frame f = Ok p -> elems p <= 65535 + 13 + len f.
Proof.
  unfold decode_frame. destruct (Header_unmarshal f) as [h| | |]; cbn [bind]; try discriminate.
  apply decode_as_alloc.
Qed.
Theorem decode_frame_alloc f p : decode_frame f = Ok p -> elems p <= 65535 + 13 + 2 * len f.
Proof. intros H. apply decode_frame_alloc_sharp in H. lia. Qed.

(* a frame that is not dispatched to TransportLayerCC allocates no more than its own length *)
Theorem decode_frame_alloc_len f p : decode_frame f = Ok p -> tag_of_packet p <> TTWCC -> elems p <= len f.
Proof.
  unfold decode_frame. destruct (Header_unmarshal f) as [h| | |]; cbn [bind]; try discriminate.
  intros H Ht. pose proof (decode_as_tag _ _ _ H) as Et. rewrite Et in Ht.
  eapply decode_as_alloc_len; eassumption.
Qed.

(* ---- A.5 the datagram ---- *)

Definition elems_list (ps : list packet) : N := fold_right (fun p acc => elems p + acc) 0 ps.

Lemma len_concat_cons (f : bytes) fs : len (List.concat (f :: fs)) = len f + len (List.concat fs).
Proof. cbn [List.concat]. apply len_app. Qed.

Lemma mapM_decode_alloc : forall fs ps, Forall framed16 fs -> mapM decode_frame fs = Ok ps ->
  elems_list ps <= (65535 + 13) * nlen ps + len (List.concat fs) /\ 4 * nlen ps <= len (List.concat fs).
Proof.
  induction fs as [|f fs IH]; intros ps Hf; cbn [mapM].
  { intros [= <-]. cbn. lia. }
  inversion Hf as [|? ? Hf1 Hf2]; subst.
  destruct (decode_frame f) as [p| | |] eqn:Ep; cbn [bind]; try discriminate.
  destruct (mapM decode_frame fs) as [qs| | |] eqn:Eq; cbn [bind]; try discriminate.
  intros [= <-]. destruct (IH qs Hf2 eq_refl) as [I1 I2].
  apply decode_frame_alloc_sharp in Ep. apply framed16_len in Hf1.
  rewrite len_concat_cons, nlen_cons. unfold elems_list in *. cbn [fold_right]. lia.
Qed.

Theorem Unmarshal_alloc_sharp b ps : Unmarshal b = Ok ps ->
  elems_list ps <= (65535 + 13) * nlen ps + len b /\ 4 * nlen ps <= len b.
Proof.
  intros H. apply Unmarshal_ok_split in H as (fs & -> & Hf & _ & Hm). apply mapM_decode_alloc; assumption.
Qed.

Theorem Unmarshal_alloc b ps : Unmarshal b = Ok ps ->
  fold_right (fun p acc => elems p + acc) 0 ps <= (65535 + 13) * N.of_nat (List.length ps) + 2 * len b /\
  4 * N.of_nat (List.length ps) <= len b.
Proof. intros H. apply Unmarshal_alloc_sharp in H. unfold elems_list, nlen in H. lia. Qed.

(* consequence: the whole decoded datagram holds at most 16388 * len b elements *)
Corollary Unmarshal_alloc_linear b ps : Unmarshal b = Ok ps ->
  fold_right (fun p acc => elems p + acc) 0 ps <= 16388 * len b.
Proof. intros H. apply Unmarshal_alloc_sharp in H. unfold elems_list, nlen in H. lia. Qed.
