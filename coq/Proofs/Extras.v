(* Additional results:
   A. C01  memory: the number of list elements / octets a decoded packet holds is bounded by the input length
           (per frame and per datagram), for every packet type including ExtendedReport;
   B. C10  DestinationSSRC is preserved by the marshal / unmarshal round trip;
   C. C16  the XR RLE chunk accessors Type / RunType / Value decompose every 16-bit chunk value uniquely;
   D. C05  framing of PLI / RRR / NACK / SLI / FIR for EVERY value Marshal accepts (no domain hypothesis). *)
From RTCP Require Import Proofs.Tactics Proofs.HeaderProofs Lib.Reflect Gen.Layouts
  Model.Header Model.Reports Model.Sdes Model.ByeApp Model.Feedback Model.Twcc Model.Ccfb Model.Remb Model.Xr Model.Packet
  Spec.Enc Spec.XrSpec Spec.Laws Lib.Sval Check.Ops
  Proofs.EncXr Proofs.XrRead Proofs.Image3 Proofs.Misc Proofs.PacketLevel Proofs.Total1 Proofs.Total2 Proofs.Total3 Proofs.Dgram.
Local Open Scope N_scope.

(* ================================================================================================ *)
(* A. C01: allocation at the frame and datagram level                                                *)
(* ================================================================================================ *)

(* ---- A.1 the reflection reader consumes exactly the wire size of the value it builds ---- *)

Definition wire_fields : list val -> list field -> N :=
  fix go (vs : list val) (fs : list field) {struct vs} : N :=
    match vs, fs with
    | x :: vs', Field _ ft om ex :: fs' =>
        (if om then 0 else if ex then wire_size ft x else mem_size ft) + go vs' fs'
    | _, _ => 0
    end.
Lemma wire_TStruct fs vs : wire_size (TStruct fs) (VStruct vs) = wire_fields vs fs.
Proof. reflexivity. Qed.
Lemma wire_TSlice e vs : wire_size (TSlice e) (VSlice vs) = fold_right (fun x acc => wire_size e x + acc) 0 vs.
Proof. reflexivity. Qed.
Lemma wire_fields_cons x vs n ft om ex fs :
  wire_fields (x :: vs) (Field n ft om ex :: fs) =
  (if om then 0 else if ex then wire_size ft x else mem_size ft) + wire_fields vs fs.
Proof. reflexivity. Qed.

(* [exact t]: a successful read of a [t] consumed exactly [wire_size t v] octets *)
Definition exact (t : ty) : Prop := forall b v r, read t b = Ok (v, r) -> wire_size t v + len r = len b.

Lemma exact_scalar t : is_scalar t -> exact t.
Proof.
  intros [ -> | [ -> | [ -> | -> ]]] b v r; cbn [read scalar_size]; rewrite short_len;
    (match goal with |- context [if ?a <? ?c then _ else _] => destruct (N.ltb_spec a c) as [|Hl] end; [discriminate|]);
    match goal with |- Ok (_, skipn ?k b) = _ -> _ =>
      pose proof (len_skipn b k) as Hs; set (s := skipn k b) in *; clearbody s end;
    intros [= <- <-]; cbn [wire_size mem_size scalar_size]; lia.
Qed.

Lemma read_slice_exact e : exact e -> forall fuel b v r, read_slice e fuel b = Ok (v, r) ->
  exists l, v = VSlice l /\ fold_right (fun x acc => wire_size e x + acc) 0 l + len r = len b.
Proof.
  intros He. induction fuel as [|f IH]; intros b v r; [discriminate|]. rewrite read_slice_S.
  destruct b as [|x0 b'].
  { intros E; inversion E; subst. exists []. split; reflexivity. }
  destruct (read e (x0 :: b')) as [[x rest]| | |] eqn:Er; cbn [bind]; try discriminate.
  apply He in Er.
  destruct (read_slice e f rest) as [[xs rest']| | |] eqn:El; cbn [bind]; try discriminate.
  apply IH in El as (l & -> & Hl).
  intros E; inversion E; subst v r; clear E. exists (x :: l). split; [reflexivity|].
  cbn [fold_right]. lia.
Qed.
Lemma exact_slice e : exact e -> exact (TSlice e).
Proof.
  intros He b v r. rewrite read_TSlice. intros E. apply (read_slice_exact e He) in E as (l & -> & Hl).
  rewrite wire_TSlice. exact Hl.
Qed.

Definition field_exact (f : field) : Prop :=
  match f with Field _ ft om ex => om = true \/ ex = false \/ exact ft end.
Lemma read_fields_exact fs : Forall field_exact fs -> forall b vs r, read_fields fs b = Ok (vs, r) ->
  wire_fields vs fs + len r = len b.
Proof.
  induction 1 as [|[n ft om ex] fs Hf Hfs IH]; intros b vs r; cbn [read_fields].
  { intros E; inversion E; subst. reflexivity. }
  destruct om.
  { destruct (read_fields fs b) as [[vs1 rest]| | |] eqn:E1; cbn [bind]; try discriminate.
    intros E; inversion E; subst vs r; clear E. rewrite wire_fields_cons. apply IH in E1. lia. }
  destruct ex.
  - destruct Hf as [Hf|[Hf|Hf]]; try discriminate.
    destruct (read ft b) as [[x rest]| | |] eqn:Ex; cbn [bind]; try discriminate.
    apply Hf in Ex.
    destruct (read_fields fs rest) as [[vs1 rest']| | |] eqn:E1; cbn [bind]; try discriminate.
    intros E; inversion E; subst vs r; clear E. rewrite wire_fields_cons. apply IH in E1. lia.
  - cbn zeta. destruct (N.ltb_spec (len b) (mem_size ft)) as [|Hl]; [discriminate|].
    destruct (read_fields fs _) as [[vs1 rest']| | |] eqn:E1; cbn [bind]; try discriminate.
    intros E; inversion E; subst vs r; clear E. rewrite wire_fields_cons. apply IH in E1.
    rewrite len_skipn in E1. lia.
Qed.
Lemma exact_struct fs : Forall field_exact fs -> exact (TStruct fs).
Proof.
  intros H b v r. rewrite read_TStruct.
  destruct (read_fields fs b) as [[vs rest]| | |] eqn:E1; cbn [bind]; try discriminate.
  intros E; inversion E; subst v r; clear E. rewrite wire_TStruct. exact (read_fields_exact fs H _ _ _ E1).
Qed.

Ltac fields_exact :=
  repeat first
    [ apply Forall_nil
    | apply Forall_cons; [cbn [field_exact]; first [left; reflexivity | right; left; reflexivity | right; right] |] ].
Ltac is_sc := unfold is_scalar; tauto.

Lemma exact_XRHeader : exact ly_XRHeader.
Proof. apply exact_struct. fields_exact; apply exact_scalar; is_sc. Qed.
Lemma exact_DLRRReport : exact ly_DLRRReport.
Proof. apply exact_struct. fields_exact; apply exact_scalar; is_sc. Qed.
Ltac exact_ty :=
  first
    [ apply exact_scalar; is_sc
    | exact exact_XRHeader
    | apply exact_slice; first [apply exact_scalar; is_sc | exact exact_DLRRReport] ].
Lemma exact_layout k : exact (layout_of k).
Proof. destruct k; cbn [layout_of]; apply exact_struct; fields_exact; exact_ty. Qed.

(* ---- A.2 unpackBlockHeader only assigns members that are not on the wire ---- *)

Definition omitted_in (t : ty) (name : String.string) : bool :=
  match t with
  | TStruct fs =>
      match field_index name fs with
      | Some i => match nth_error fs i with Some (Field _ _ true _) => true | _ => false end
      | None => true
      end
  | _ => true
  end.
Lemma wire_fields_set_omit : forall i fs vs x n ft ex, nth_error fs i = Some (Field n ft true ex) ->
  wire_fields (set_nth i x vs) fs = wire_fields vs fs.
Proof.
  induction i as [|i IH]; intros fs vs x n ft ex Hn; destruct fs as [|[n0 ft0 om0 ex0] fs]; try discriminate;
    destruct vs as [|y vs]; try reflexivity; cbn [set_nth nth_error] in *.
  - inversion Hn; subst. rewrite !wire_fields_cons. reflexivity.
  - rewrite !wire_fields_cons. rewrite (IH fs vs x n ft ex Hn). reflexivity.
Qed.
Lemma wire_set_field_omit t v name x : omitted_in t name = true ->
  wire_size t (set_field t v name x) = wire_size t v.
Proof.
  unfold omitted_in, set_field. destruct t; try reflexivity. destruct v; try reflexivity.
  destruct (field_index name fs) as [i|]; [|reflexivity].
  destruct (nth_error fs i) as [[n ft [|] ex]|] eqn:En; try discriminate. intros _.
  rewrite !wire_TStruct. eapply wire_fields_set_omit. exact En.
Qed.
Lemma blk_wire_set b name x : omitted_in (layout_of (xb_kind b)) name = true ->
  blk_wire_size (blk_set b name x) = blk_wire_size b.
Proof. intros H. unfold blk_wire_size, blk_set. cbn [xb_kind xb_val]. apply wire_set_field_omit. exact H. Qed.
Lemma blk_set_kind b name x : xb_kind (blk_set b name x) = xb_kind b.
Proof. reflexivity. Qed.

Lemma unpack_block_wire k v : blk_wire_size (unpack_block (mkXRBlock k v)) = wire_size (layout_of k) v.
Proof.
  unfold unpack_block. cbn [xb_kind]. destruct k;
    repeat (rewrite blk_wire_set by (rewrite ?blk_set_kind; reflexivity)); reflexivity.
Qed.

(* ---- A.3 the XR block loop and XR_unmarshal ---- *)

Definition blocks_wire (bs : list XRBlock) : N := fold_right (fun b acc => blk_wire_size b + acc) 0 bs.

Lemma if_ltb_le a c : (if a <? c then a else c) <= a.
Proof. destruct (N.ltb_spec a c); lia. Qed.
Lemma xr_blocks_loop_alloc : forall fuel buf bs, xr_blocks_loop fuel buf = Ok bs -> blocks_wire bs <= len buf.
Proof.
  induction fuel as [|f IH]; intros buf bs; [discriminate|]. cbn [xr_blocks_loop].
  destruct buf as [|x0 buf'].
  { intros E; inversion E; subst. cbn. lia. }
  cbv iota. set (buf := x0 :: buf') in *. clearbody buf.
  destruct (read ly_XRHeader buf) as [[hv r0]| | |]; cbn [bind]; try discriminate.
  set (size := if _ <? _ then _ else _).
  assert (Hsize : size <= len buf).
  { apply if_ltb_le. }
  clearbody size. set (k := kind_of_block_type _). clearbody k.
  destruct (read (layout_of _) (firstn (N.to_nat size) buf)) as [[v r1]| | |] eqn:Ev; cbn [bind]; try discriminate.
  apply exact_layout in Ev. rewrite len_firstn, N2Nat.id, N.min_l in Ev by exact Hsize.
  destruct (xr_blocks_loop f (skipn (N.to_nat size) buf)) as [r| | |] eqn:El; cbn [bind]; try discriminate.
  apply IH in El. rewrite len_skipn, N2Nat.id in El.
  intros E; inversion E; subst bs; clear E. unfold blocks_wire. cbn [fold_right]. fold (blocks_wire r).
  rewrite unpack_block_wire. lia.
Qed.

(* every block of a decoded ExtendedReport occupies at most the octets it was read from: no hypothesis
   on alignment or on the block length fields *)
Theorem XR_unmarshal_alloc b x : XR_unmarshal b = Ok x -> 8 + blocks_wire (xr_blocks x) <= len b.
Proof.
  unfold XR_unmarshal.
  destruct (Header_unmarshal b) as [h| | |] eqn:Eh; cbn [bind]; try discriminate.
  apply Header_unmarshal_ok in Eh as [Hl _].
  destruct (negb _); [discriminate|].
  unfold c_headerLength. rewrite slice_from_ok by lia. cbn [bind].
  destruct (read TU32 (skipn (N.to_nat 4) b)) as [[sv rest]| | |] eqn:Es; cbn [bind]; try discriminate.
  apply (exact_scalar TU32 ltac:(is_sc)) in Es. rewrite len_skipn in Es.
  cbn [wire_size mem_size scalar_size] in Es.
  assert (Es' : wire_size TU32 sv = 4).
  { clear Es. destruct sv; reflexivity. }
  destruct (xr_blocks_loop _ rest) as [blocks| | |] eqn:El; cbn [bind]; try discriminate.
  apply xr_blocks_loop_alloc in El.
  intros E; inversion E; subst x; clear E. cbn [xr_blocks]. lia.
Qed.

(* ---- A.3b the number of nodes of the decoded block values ---- *)
(* [vnodes v] counts every node of the value tree (scalars, slice headers, structs): this is what the
   reflection reader allocates.  It is bounded by the wire size of the value plus a constant per block. *)
Fixpoint vnodes (v : val) : N :=
  match v with
  | VU _ => 1
  | VSlice l => 1 + fold_right (fun x acc => vnodes x + acc) 0 l
  | VStruct l => 1 + fold_right (fun x acc => vnodes x + acc) 0 l
  end.
Definition nodes_list (l : list val) : N := fold_right (fun x acc => vnodes x + acc) 0 l.
Lemma vnodes_pos v : 1 <= vnodes v.
Proof. destruct v; cbn [vnodes]; lia. Qed.

(* [nb t c]: a value read as a [t] has at most c + wire_size nodes *)
Definition nb (t : ty) (c : N) : Prop := forall b v r, read t b = Ok (v, r) -> vnodes v <= c + wire_size t v.

Lemma nb_scalar t : is_scalar t -> nb t 0.
Proof.
  intros [ -> | [ -> | [ -> | -> ]]] b v r; cbn [read scalar_size]; rewrite short_len;
    (match goal with |- context [if ?a <? ?c then _ else _] => destruct (N.ltb_spec a c) as [|Hl] end; [discriminate|]);
    match goal with |- Ok (_, skipn ?k b) = _ -> _ => set (s := skipn k b) in *; clearbody s end;
    intros [= <- <-]; cbn [vnodes wire_size mem_size scalar_size]; lia.
Qed.
Lemma nb_DLRRReport : nb ly_DLRRReport 0.
Proof.
  intros b v r H. change ly_DLRRReport with rfc_DLRRReport in *.
  apply dlrr_report_inv in H as [(x & -> & _) _]. destruct x as [[a0 b0] c0]. cbn. lia.
Qed.
Lemma read_slice_nb e : nb e 0 -> forall fuel b v r, read_slice e fuel b = Ok (v, r) ->
  vnodes v <= 1 + wire_size (TSlice e) v.
Proof.
  intros He. induction fuel as [|f IH]; intros b v r; [discriminate|]. rewrite read_slice_S.
  destruct b as [|x0 b'].
  { intros E; inversion E; subst. cbn. lia. }
  destruct (read e (x0 :: b')) as [[x rest]| | |] eqn:Er; cbn [bind]; try discriminate.
  apply He in Er.
  destruct (read_slice e f rest) as [[xs rest']| | |] eqn:El; cbn [bind]; try discriminate.
  apply IH in El. destruct xs as [|l|]; try discriminate.
  intros E; inversion E; subst v r; clear E.
  rewrite wire_TSlice in *. cbn [vnodes fold_right] in *. lia.
Qed.
Lemma nb_slice e : nb e 0 -> nb (TSlice e) 1.
Proof. intros He b v r. rewrite read_TSlice. apply read_slice_nb. exact He. Qed.

Definition slack_field (f : field) : N :=
  match f with
  | Field _ ft om ex =>
      if om then vnodes (zero_of ft)
      else if ex then match ft with TSlice _ | TStruct _ => 1 | _ => 0 end
      else vnodes (zero_of ft)
  end.
Definition slack_fields (fs : list field) : N := fold_right (fun f acc => slack_field f + acc) 0 fs.
Definition field_nb (f : field) : Prop :=
  match f with Field _ ft om ex => om = true \/ ex = false \/ nb ft (slack_field f) end.
Lemma read_fields_nb fs : Forall field_nb fs -> forall b vs r, read_fields fs b = Ok (vs, r) ->
  nodes_list vs <= slack_fields fs + wire_fields vs fs.
Proof.
  induction 1 as [|[n ft om ex] fs Hf Hfs IH]; intros b vs r; cbn [read_fields].
  { intros E; inversion E; subst. cbn. lia. }
  unfold slack_fields. cbn [fold_right]. fold (slack_fields fs).
  destruct om.
  { destruct (read_fields fs b) as [[vs1 rest]| | |] eqn:E1; cbn [bind]; try discriminate.
    intros E; inversion E; subst vs r; clear E. rewrite wire_fields_cons. apply IH in E1.
    unfold nodes_list in *. cbn [fold_right slack_field]. lia. }
  destruct ex.
  - destruct Hf as [Hf|[Hf|Hf]]; try discriminate.
    destruct (read ft b) as [[x rest]| | |] eqn:Ex; cbn [bind]; try discriminate.
    apply Hf in Ex.
    destruct (read_fields fs rest) as [[vs1 rest']| | |] eqn:E1; cbn [bind]; try discriminate.
    intros E; inversion E; subst vs r; clear E. rewrite wire_fields_cons. apply IH in E1.
    unfold nodes_list in *. cbn [fold_right]. lia.
  - cbn zeta. destruct (N.ltb_spec (len b) (mem_size ft)) as [|Hl]; [discriminate|].
    destruct (read_fields fs _) as [[vs1 rest']| | |] eqn:E1; cbn [bind]; try discriminate.
    intros E; inversion E; subst vs r; clear E. rewrite wire_fields_cons. apply IH in E1.
    unfold nodes_list in *. cbn [fold_right slack_field]. lia.
Qed.
Lemma nb_struct fs c : Forall field_nb fs -> 1 + slack_fields fs <= c -> nb (TStruct fs) c.
Proof.
  intros H Hc b v r. rewrite read_TStruct.
  destruct (read_fields fs b) as [[vs rest]| | |] eqn:E1; cbn [bind]; try discriminate.
  intros E; inversion E; subst v r; clear E. rewrite wire_TStruct.
  pose proof (read_fields_nb fs H _ _ _ E1) as B. unfold nodes_list in B. cbn [vnodes]. lia.
Qed.

Ltac fields_nb :=
  repeat first
    [ apply Forall_nil
    | apply Forall_cons; [cbn [field_nb]; first [left; reflexivity | right; left; reflexivity | right; right] |] ].
Lemma nb_XRHeader : nb ly_XRHeader 1.
Proof. apply nb_struct; [fields_nb; apply nb_scalar; is_sc|vm_compute; discriminate]. Qed.
Ltac nb_ty :=
  cbn [slack_field];
  first
    [ apply nb_scalar; is_sc
    | exact nb_XRHeader
    | apply nb_slice; first [apply nb_scalar; is_sc | exact nb_DLRRReport] ].
(* at most 6 nodes per block are not backed by wire octets: the struct itself, the XRHeader struct, the slice
   header and the (at most four) members filled in from the type-specific octet *)
Lemma nb_layout k : nb (layout_of k) 6.
Proof. destruct k; cbn [layout_of]; (apply nb_struct; [fields_nb; nb_ty|vm_compute; discriminate]). Qed.

(* unpackBlockHeader overwrites scalar members with scalars: the node count does not grow *)
Lemma nodes_set_nth_VU : forall i vs n, nodes_list (set_nth i (VU n) vs) <= nodes_list vs.
Proof.
  induction i as [|i IH]; intros [|y vs] n; cbn [set_nth]; try lia; unfold nodes_list in *; cbn [fold_right vnodes].
  - pose proof (vnodes_pos y). lia.
  - specialize (IH vs n). lia.
Qed.
Lemma vnodes_set_field_VU t v name n : vnodes (set_field t v name (VU n)) <= vnodes v.
Proof.
  unfold set_field. destruct t; try lia. destruct v; try lia. destruct (field_index name fs); [|lia].
  cbn [vnodes]. pose proof (nodes_set_nth_VU n0 vs n) as B. unfold nodes_list in B. lia.
Qed.
Lemma blk_set_VU_nodes b name n : vnodes (xb_val (blk_set b name (VU n))) <= vnodes (xb_val b).
Proof. unfold blk_set. cbn [xb_val]. apply vnodes_set_field_VU. Qed.
Lemma unpack_block_nodes k v : vnodes (xb_val (unpack_block (mkXRBlock k v))) <= vnodes v.
Proof.
  unfold unpack_block. cbn [xb_kind]. destruct k; try (cbn [xb_val]; lia).
  1-3: apply (blk_set_VU_nodes (mkXRBlock _ v)).
  repeat (eapply N.le_trans; [apply blk_set_VU_nodes|]). cbn [xb_val]. lia.
Qed.

Definition blocks_nodes (bs : list XRBlock) : N := fold_right (fun b acc => vnodes (xb_val b) + acc) 0 bs.

Lemma if_ltb_ge1 a x : 1 <= a -> 1 <= (if a <? (x + 1) * 4 then a else (x + 1) * 4).
Proof. intros H. destruct (N.ltb_spec a ((x + 1) * 4)); lia. Qed.
Lemma xr_blocks_loop_nodes : forall fuel buf bs, xr_blocks_loop fuel buf = Ok bs ->
  nlen bs <= len buf /\ blocks_nodes bs <= 6 * nlen bs + blocks_wire bs.
Proof.
  induction fuel as [|f IH]; intros buf bs; [discriminate|]. cbn [xr_blocks_loop].
  destruct buf as [|x0 buf'].
  { intros E; inversion E; subst. cbn. lia. }
  cbv iota. assert (Hne : 1 <= len (x0 :: buf')) by (rewrite len_cons; lia).
  set (buf := x0 :: buf') in *. clearbody buf.
  destruct (read ly_XRHeader buf) as [[hv r0]| | |]; cbn [bind]; try discriminate.
  set (size := if _ <? _ then _ else _).
  assert (Hsize : size <= len buf) by apply if_ltb_le.
  assert (Hsize1 : 1 <= size).
  { apply if_ltb_ge1. exact Hne. }
  clearbody size. set (k := kind_of_block_type _). clearbody k.
  destruct (read (layout_of _) (firstn (N.to_nat size) buf)) as [[v r1]| | |] eqn:Ev; cbn [bind]; try discriminate.
  apply nb_layout in Ev.
  destruct (xr_blocks_loop f (skipn (N.to_nat size) buf)) as [r| | |] eqn:El; cbn [bind]; try discriminate.
  apply IH in El as [I1 I2]. rewrite len_skipn, N2Nat.id in I1.
  intros E; inversion E; subst bs; clear E. rewrite nlen_cons.
  unfold blocks_wire, blocks_nodes in *. cbn [fold_right].
  rewrite unpack_block_wire. pose proof (unpack_block_nodes k v). lia.
Qed.

(* the value trees of all blocks of a decoded ExtendedReport have at most 7 nodes per input octet; and the
   wire-size measure used by [elems] below dominates the node count up to 6 nodes per block *)
Theorem XR_unmarshal_nodes b x : XR_unmarshal b = Ok x ->
  8 + nlen (xr_blocks x) <= len b /\
  blocks_nodes (xr_blocks x) <= 6 * nlen (xr_blocks x) + blocks_wire (xr_blocks x) /\
  blocks_nodes (xr_blocks x) <= 7 * len b.
Proof.
  intros H. pose proof (XR_unmarshal_alloc b x H) as A. revert H. unfold XR_unmarshal.
  destruct (Header_unmarshal b) as [h| | |] eqn:Eh; cbn [bind]; try discriminate.
  apply Header_unmarshal_ok in Eh as [Hl _].
  destruct (negb _); [discriminate|].
  unfold c_headerLength. rewrite slice_from_ok by lia. cbn [bind].
  destruct (read TU32 (skipn (N.to_nat 4) b)) as [[sv rest]| | |] eqn:Es; cbn [bind]; try discriminate.
  apply (exact_scalar TU32 ltac:(is_sc)) in Es. rewrite len_skipn in Es.
  assert (Es' : wire_size TU32 sv = 4) by (clear Es; destruct sv; reflexivity).
  destruct (xr_blocks_loop _ rest) as [blocks| | |] eqn:El; cbn [bind]; try discriminate.
  apply xr_blocks_loop_nodes in El as [N1 N2].
  intros E; inversion E; subst x; clear E. cbn [xr_blocks] in *. lia.
Qed.

(* ---- A.4 the element count of a decoded packet ---- *)

(* list elements and octets of the variable-size parts a packet value holds (the fixed-size struct itself is
   not counted): report blocks 24 octets each, SDES chunks 5 / items 2 / text octets, 32-bit sources 4, ...;
   for ExtendedReport the wire size of every block (header included), which dominates the number of leaves
   of the block value.  RawPacket aliases its input: nothing is allocated. *)
Fixpoint elems (p : packet) : N :=
  match p with
  | PSR x => 24 * nlen (sr_reports x) + len (sr_ext x)
  | PRR x => 24 * nlen (rcv_reports x) + len (rcv_ext x)
  | PSDES x => 5 * nlen (sd_chunks x) + 2 * chunks_items (sd_chunks x) + chunks_text (sd_chunks x)
  | PBYE x => 4 * nlen (bye_sources x) + len (bye_reason x)
  | PAPP x => len (app_data x)
  | PNACK x => 4 * nlen (nack_pairs x)
  | PSLI x => 4 * nlen (sli_entries x)
  | PFIR x => 8 * nlen (fir_entries x)
  | PREMB x => 4 * nlen (remb_ssrcs x)
  | PCCFB x => 8 * nlen (cc_blocks x) + 2 * metric_count (cc_blocks x)
  | PTWCC x => 2 * nlen (tw_chunks x) + nlen (tw_deltas x)
  | PXR x => blocks_wire (xr_blocks x)
  | PPLI _ | PRRR _ => 0
  | PRaw _ => 0
  | PCompound l => fold_right (fun q acc => elems q + acc) 0 l
  end.

(* every type except TransportLayerCC: bounded by the octets handed to the decoder *)
Lemma decode_as_alloc_len t f p : t <> TTWCC -> decode_as t f = Ok p -> elems p <= len f.
Proof.
  intros Ht. destruct t; cbn [decode_as]; try congruence;
    match goal with
    | |- res_map _ ?X = _ -> _ => destruct X as [x| | |] eqn:E; cbn [res_map]; try discriminate
    | |- _ => idtac
    end; try (intros [= <-]; cbn [elems]).
  - apply SR_unmarshal_alloc_N in E. lia.
  - apply RR_unmarshal_alloc_N in E. lia.
  - apply SDES_unmarshal_alloc in E. lia.
  - apply BYE_unmarshal_alloc_N in E. lia.
  - apply APP_unmarshal_alloc_N in E. lia.
  - apply NACK_unmarshal_alloc in E. lia.
  - lia.
  - apply CCFB_unmarshal_alloc in E. lia.
  - lia.
  - apply SLI_unmarshal_alloc in E. lia.
  - apply REMB_unmarshal_alloc in E. lia.
  - apply FIR_unmarshal_alloc in E. lia.
  - apply XR_unmarshal_alloc in E. lia.
  - lia.
Qed.

(* TransportLayerCC: the chunks fit the input, the deltas exceed the 16-bit status count by at most 13 *)
Lemma decode_as_alloc t f p : decode_as t f = Ok p -> elems p <= 65535 + 13 + len f.
Proof.
  destruct t; try (intros H; apply decode_as_alloc_len in H; [lia|discriminate]).
  cbn [decode_as]. destruct (TWCC_unmarshal f) as [x| | |] eqn:E; cbn [res_map]; try discriminate.
  intros [= <-]. cbn [elems]. apply TWCC_unmarshal_alloc_bound_sharp in E. unfold nlen. lia.
Qed.

Theorem decode_frame_alloc_sharp f p : decode_frame f = Ok p -> elems p <= 65535 + 13 + len f.
Proof.
  unfold decode_frame. destruct (Header_unmarshal f) as [h| | |]; cbn [bind]; try discriminate.
  apply decode_as_alloc.
Qed.
Theorem decode_frame_alloc f p : decode_frame f = Ok p -> elems p <= 65535 + 13 + 2 * len f.
Proof. intros H. apply decode_frame_alloc_sharp in H. lia. Qed.

(* a frame that is not dispatched to TransportLayerCC allocates no more than its own length *)
Theorem decode_frame_alloc_len f p : decode_frame f = Ok p -> tag_of_packet p <> TTWCC -> elems p <= len f.
Proof.
  unfold decode_frame. destruct (Header_unmarshal f) as [h| | |]; cbn [bind]; try discriminate.
  intros H Ht. pose proof (decode_as_tag _ _ _ H) as Et. rewrite Et in Ht.
  eapply decode_as_alloc_len; eassumption.
Qed.

(* ---- A.5 the datagram ---- *)

Definition elems_list (ps : list packet) : N := fold_right (fun p acc => elems p + acc) 0 ps.

Lemma len_concat_cons (f : bytes) fs : len (List.concat (f :: fs)) = len f + len (List.concat fs).
Proof. cbn [List.concat]. apply len_app. Qed.

Lemma mapM_decode_alloc : forall fs ps, Forall framed16 fs -> mapM decode_frame fs = Ok ps ->
  elems_list ps <= (65535 + 13) * nlen ps + len (List.concat fs) /\ 4 * nlen ps <= len (List.concat fs).
Proof.
  induction fs as [|f fs IH]; intros ps Hf; cbn [mapM].
  { intros [= <-]. cbn. lia. }
  inversion Hf as [|? ? Hf1 Hf2]; subst.
  destruct (decode_frame f) as [p| | |] eqn:Ep; cbn [bind]; try discriminate.
  destruct (mapM decode_frame fs) as [qs| | |] eqn:Eq; cbn [bind]; try discriminate.
  intros [= <-]. destruct (IH qs Hf2 eq_refl) as [I1 I2].
  apply decode_frame_alloc_sharp in Ep. apply framed16_len in Hf1.
  rewrite len_concat_cons, nlen_cons. unfold elems_list in *. cbn [fold_right]. lia.
Qed.

Theorem Unmarshal_alloc_sharp b ps : Unmarshal b = Ok ps ->
  elems_list ps <= (65535 + 13) * nlen ps + len b /\ 4 * nlen ps <= len b.
Proof.
  intros H. apply Unmarshal_ok_split in H as (fs & -> & Hf & _ & Hm). apply mapM_decode_alloc; assumption.
Qed.

Theorem Unmarshal_alloc b ps : Unmarshal b = Ok ps ->
  fold_right (fun p acc => elems p + acc) 0 ps <= (65535 + 13) * N.of_nat (List.length ps) + 2 * len b /\
  4 * N.of_nat (List.length ps) <= len b.
Proof. intros H. apply Unmarshal_alloc_sharp in H. unfold elems_list, nlen in H. lia. Qed.

(* consequence: the whole decoded datagram holds at most 16388 * len b elements *)
Corollary Unmarshal_alloc_linear b ps : Unmarshal b = Ok ps ->
  fold_right (fun p acc => elems p + acc) 0 ps <= 16388 * len b.
Proof. intros H. apply Unmarshal_alloc_sharp in H. unfold elems_list, nlen in H. lia. Qed.

(* ================================================================================================ *)
(* B. C10: DestinationSSRC survives the round trip                                                   *)
(* ================================================================================================ *)

(* the documented quantisations (RR profile extension padded, REMB bitrate rounded) do not touch the
   DestinationSSRC list *)
Theorem dest_q : forall p, dest_packet (q p) = dest_packet p.
Proof.
  apply packet_ind'.
  - intros p Hp. destruct p; try reflexivity; try discriminate Hp.
    cbn [q dest_packet]. unfold q_REMB.
    destruct (remb_floor (remb_bitrate x)) as [v|]; [|reflexivity].
    destruct (remb_ref v) as [e m]. reflexivity.
  - intros l Hl. cbn [q]. destruct Hl as [|p r Hp Hr]; [reflexivity|].
    cbn [map dest_packet]. exact Hp.
Qed.

Theorem dest_roundtrip : forall p, supported p = true -> in_D p = true ->
  exists b p', marshal_packet p = Ok b /\ decode_as (tag_of_packet p) b = Ok p' /\ dest_packet p' = dest_packet p.
Proof.
  intros p Hs HD. destruct (marshal_then_unmarshal p Hs HD) as (b & Hm & Hu).
  exists b, (q p). split; [exact Hm|]. split; [exact Hu|]. apply dest_q.
Qed.

(* the same through the datagram entry point *)
Theorem dest_roundtrip_datagram : forall p, supported p = true -> in_D p = true -> len (enc_spec p) < 262144 ->
  exists b p', marshal_packet p = Ok b /\ Unmarshal b = Ok [p'] /\ dest_packet p' = dest_packet p.
Proof.
  intros p Hs HD Hl. exists (enc_spec p), (q p). split; [apply marshal_is_rfc; assumption|].
  split; [apply datagram_roundtrip; assumption|apply dest_q].
Qed.

(* ExtendedReport (well-formed blocks): the decoded value equals the original up to the XRHeader bookkeeping,
   which DestinationSSRC does not read *)
Theorem XR_dest_roundtrip : forall x, D_XR x = true -> Forall wf_block (xr_blocks x) -> len (enc_XR x) < 262144 ->
  exists b x', marshal_packet (PXR x) = Ok b /\ decode_as TXR b = Ok (PXR x') /\ Unmarshal b = Ok [PXR x'] /\
               dest_packet (PXR x') = dest_packet (PXR x).
Proof.
  intros x HD Hwf Hl.
  destruct (XR_roundtrip_canon x HD Hwf Hl) as (x' & Hu & Hc & _ & _ & _ & _ & HU).
  exists (enc_XR x), x'. split; [cbn [marshal_packet]; apply XR_marshal_spec; exact Hwf|].
  split; [cbn [decode_as]; rewrite Hu; reflexivity|]. split; [exact HU|].
  rewrite <- (dest_canon (PXR x')), Hc. apply dest_canon.
Qed.

(* ================================================================================================ *)
(* C. C16: the XR RLE chunk accessors (extended_report.go: Chunk.Type, Chunk.RunType, Chunk.Value)    *)
(* ================================================================================================ *)

(* func (c Chunk) Type() ChunkType *)
Definition chunk_type (c : N) : N := if c =? 0 then c_TerminatingNullChunkType else c / 32768.
(* func (c Chunk) RunType() (uint, error) *)
Definition chunk_run_type (c : N) : res N :=
  if chunk_type c =? c_RunLengthChunkType then Ok (N.land (c / 16384) 1) else Err.
(* func (c Chunk) Value() uint *)
Definition chunk_value (c : N) : N :=
  if chunk_type c =? c_RunLengthChunkType then N.land c 16383
  else if chunk_type c =? c_BitVectorChunkType then N.land c 32767
  else if chunk_type c =? c_TerminatingNullChunkType then 0 else c.

(* these are the functions the harness compares with the implementation (op "xrchunk") *)
Theorem xrchunk_obs_accessors c :
  xrchunk_obs c = SL [SN (chunk_type c); sres SN (chunk_run_type c); SN (chunk_value c)].
Proof.
  unfold xrchunk_obs, chunk_run_type, chunk_value. fold (chunk_type c).
  destruct (chunk_type c =? c_RunLengthChunkType); reflexivity.
Qed.

(* the decomposition, as a decidable check on one chunk value *)
Definition chunk_chk (c : N) : bool :=
  let ty := chunk_type c in
  let v := chunk_value c in
  if c =? 0 then (ty =? 2) && (v =? 0) && is_err (chunk_run_type c)
  else
    (ty =? c / 32768) && (ty <? 2) &&
    (if ty =? 0 then
       match chunk_run_type c with
       | Ok rt => (rt <? 2) && (v <? 16384) && (c =? rt * 16384 + v)
       | _ => false
       end
     else (ty =? 1) && is_err (chunk_run_type c) && (v <? 32768) && (c =? 32768 + v)).

(* complete enumeration of the 65536 values of a uint16 *)
Lemma chunk_chk_all : forallb chunk_chk (nrange (N.to_nat 65536) 0) = true.
Proof. vm_compute. reflexivity. Qed.
Lemma chunk_chk_ok c : c < 65536 -> chunk_chk c = true.
Proof.
  intros H. pose proof chunk_chk_all as A. rewrite forallb_forall in A. apply A. apply In_nrange.
  rewrite N2Nat.id. lia.
Qed.

(* a chunk is the terminating null iff it is 0 *)
Theorem chunk_null_iff c : c < 65536 -> (chunk_type c = c_TerminatingNullChunkType <-> c = 0).
Proof.
  intros H. unfold chunk_type. consts.
  destruct (N.eqb_spec c 0) as [->|Hc]; [split; reflexivity|].
  split; [|contradiction]. intros E. exfalso. assert (c / 32768 < 2) by lia. lia.
Qed.
Theorem chunk_null c : c = 0 -> chunk_type c = 2 /\ chunk_run_type c = Err /\ chunk_value c = 0.
Proof. intros ->. repeat split. Qed.

(* otherwise the type is bit 15 *)
Theorem chunk_type_bit15 c : c < 65536 -> c <> 0 ->
  chunk_type c = c / 32768 /\ (chunk_type c = c_RunLengthChunkType \/ chunk_type c = c_BitVectorChunkType).
Proof.
  intros H Hc. unfold chunk_type. destruct (N.eqb_spec c 0); [contradiction|]. consts. split; [reflexivity|].
  assert (c / 32768 < 2) by lia. lia.
Qed.

(* run-length chunk: c = run_type * 2^14 + value, value < 2^14 *)
Theorem chunk_run_length c : c < 65536 -> chunk_type c = c_RunLengthChunkType ->
  exists rt, chunk_run_type c = Ok rt /\ rt < 2 /\ chunk_value c < 16384 /\ c = rt * 16384 + chunk_value c.
Proof.
  intros H Ht. pose proof (chunk_chk_ok c H) as K. unfold chunk_chk in K. consts. rewrite Ht in K.
  destruct (N.eqb_spec c 0) as [->|Hc]; [discriminate K|].
  change (0 =? 0) with true in K. cbv iota in K.
  destruct (chunk_run_type c) as [rt| | |]; try (rewrite andb_false_r in K; discriminate K).
  exists rt. split; [reflexivity|].
  repeat (apply andb_true_iff in K; destruct K as [K ?]). lia.
Qed.

(* bit-vector chunk: c = 2^15 + value, value < 2^15, RunType reports an error *)
Theorem chunk_bit_vector c : c < 65536 -> chunk_type c = c_BitVectorChunkType ->
  chunk_run_type c = Err /\ chunk_value c < 32768 /\ c = 32768 + chunk_value c.
Proof.
  intros H Ht. pose proof (chunk_chk_ok c H) as K. unfold chunk_chk in K. consts. rewrite Ht in K.
  destruct (N.eqb_spec c 0) as [->|Hc]; [discriminate K|].
  change (1 =? 0) with false in K. cbv iota in K.
  repeat (apply andb_true_iff in K; destruct K as [K ?]).
  split; [|lia]. destruct (chunk_run_type c); try discriminate; reflexivity.
Qed.

(* hence the three accessors determine the chunk: the decomposition is unique *)
Theorem chunk_accessors_injective c d : c < 65536 -> d < 65536 ->
  chunk_type c = chunk_type d -> chunk_run_type c = chunk_run_type d -> chunk_value c = chunk_value d -> c = d.
Proof.
  intros Hc Hd Et Er Ev.
  destruct (N.eq_dec c 0) as [->|Nc].
  { symmetry. apply (chunk_null_iff d Hd). rewrite <- Et. reflexivity. }
  destruct (N.eq_dec d 0) as [->|Nd].
  { apply (chunk_null_iff c Hc). rewrite Et. reflexivity. }
  destruct (chunk_type_bit15 c Hc Nc) as [_ [T|T]].
  - destruct (chunk_run_length c Hc T) as (r1 & R1 & _ & _ & D1).
    rewrite Et in T. destruct (chunk_run_length d Hd T) as (r2 & R2 & _ & _ & D2).
    rewrite R1, R2 in Er. injection Er as Er. lia.
  - destruct (chunk_bit_vector c Hc T) as (_ & _ & D1).
    rewrite Et in T. destruct (chunk_bit_vector d Hd T) as (_ & _ & D2). lia.
Qed.

(* ================================================================================================ *)
(* D. C05: framing of the feedback packets for EVERY value Marshal accepts                           *)
(* ================================================================================================ *)
(* No domain hypothesis: SSRCs, packet ids, bitmasks, SLI fields and FIR sequence numbers of any size are
   truncated by the big-endian writers, so the shape of the output does not depend on them.  The length
   field is the 16-bit truncation of size/4 - 1 (FIR accepts any number of entries, so it can wrap). *)

Lemma len_concat_k {A} (f : A -> bytes) k (l : list A) :
  (forall x, len (f x) = k) -> len (List.concat (map f l)) = k * nlen l.
Proof.
  intros Hf. induction l as [|x l IH]; [cbn [map List.concat]; unfold nlen, len; cbn [List.length N.of_nat]; lia|].
  cbn [map List.concat]. rewrite len_app, Hf, IH, nlen_cons. lia.
Qed.

Lemma hdr_body_framing c t l body b : c < 32 -> t < 256 -> l < 65536 ->
  (let* h := Header_marshal (mkHeader false c t l) in Ok (h ++ body)) = Ok b ->
  len b = 4 + len body /\ Header_unmarshal b = Ok (mkHeader false c t l).
Proof.
  intros Hc Ht Hl H. rewrite Header_marshal_spec in H by exact Hc. cbn [bind] in H.
  assert (E : b = hdr false c t l ++ body) by congruence. subst b. clear H.
  split; [rewrite len_app; reflexivity|]. apply Header_unmarshal_hdr; assumption.
Qed.

Lemma u16_lt' x : u16 x < 65536.
Proof. unfold u16. lia. Qed.

(* PLI and RRR: Marshal never fails and writes the 12-octet RFC frame whatever the SSRC values *)
Lemma PLI_marshal_any p : PLI_marshal p = Ok (hdr false 1 206 2 ++ be 4 (pli_sender p) ++ be 4 (pli_media p)).
Proof.
  unfold PLI_marshal, PLI_size, PLI_header. consts.
  change (zeros (4 + 4 * 2)) with (zeros 4 ++ zeros 8).
  frontier.
  rewrite Header_marshal_spec by lia. cbn [bind].
  rewrite <- !app_assoc. rewrite copy_at_head' by reflexivity.
  change (zeros (8 - N.of_nat 4 - N.of_nat 4)) with (@nil byte). rewrite app_nil_r. reflexivity.
Qed.
Lemma RRR_marshal_any p : RRR_marshal p = Ok (hdr false 5 205 2 ++ be 4 (rrr_sender p) ++ be 4 (rrr_media p)).
Proof.
  unfold RRR_marshal, RRR_size, RRR_header. consts.
  change (zeros (4 + 8)) with (zeros 4 ++ zeros 8).
  frontier.
  rewrite Header_marshal_spec by lia. cbn [bind].
  rewrite <- !app_assoc. rewrite copy_at_head' by reflexivity.
  change (zeros (8 - N.of_nat 4 - N.of_nat 4)) with (@nil byte). rewrite app_nil_r. reflexivity.
Qed.

Theorem PLI_framing_any_value p b : PLI_marshal p = Ok b ->
  len b = PLI_size p /\ len b mod 4 = 0 /\ Header_unmarshal b = Ok (PLI_header p).
Proof.
  rewrite PLI_marshal_any. intros H.
  assert (E : b = hdr false 1 206 2 ++ be 4 (pli_sender p) ++ be 4 (pli_media p)) by congruence. subst b. clear H.
  assert (L : len (hdr false 1 206 2 ++ be 4 (pli_sender p) ++ be 4 (pli_media p)) = 12)
    by (rewrite !len_app, !len_be; reflexivity).
  rewrite L. split; [reflexivity|]. split; [reflexivity|].
  unfold PLI_header. consts. apply Header_unmarshal_hdr; lia.
Qed.
Theorem RRR_framing_any_value p b : RRR_marshal p = Ok b ->
  len b = RRR_size p /\ len b mod 4 = 0 /\ Header_unmarshal b = Ok (RRR_header p).
Proof.
  rewrite RRR_marshal_any. intros H.
  assert (E : b = hdr false 5 205 2 ++ be 4 (rrr_sender p) ++ be 4 (rrr_media p)) by congruence. subst b. clear H.
  assert (L : len (hdr false 5 205 2 ++ be 4 (rrr_sender p) ++ be 4 (rrr_media p)) = 12)
    by (rewrite !len_app, !len_be; reflexivity).
  rewrite L. split; [reflexivity|]. split; [reflexivity|].
  unfold RRR_header. consts. apply Header_unmarshal_hdr; lia.
Qed.

Theorem NACK_framing_any_value p b : NACK_marshal p = Ok b ->
  len b = NACK_size p /\ len b mod 4 = 0 /\ Header_unmarshal b = Ok (NACK_header p).
Proof.
  unfold NACK_marshal. destruct (255 <? _); [discriminate|]. cbv zeta. unfold NACK_header. consts.
  intros H. apply hdr_body_framing in H; try lia; try apply u16_lt'. destruct H as [L Hh].
  rewrite !len_app, !len_be in L.
  rewrite (len_concat_k (fun q0 => be 2 (np_id q0) ++ be 2 (np_bm q0)) 4) in L
    by (intros x; rewrite len_app, !len_be; reflexivity).
  change (N.of_nat 4) with 4 in L.
  assert (E : len b = NACK_size p) by (unfold NACK_size; consts; lia).
  split; [exact E|]. split; [unfold NACK_size in E; consts; lia|]. exact Hh.
Qed.

Theorem SLI_framing_any_value p b : SLI_marshal p = Ok b ->
  len b = SLI_size p /\ len b mod 4 = 0 /\ Header_unmarshal b = Ok (SLI_header p).
Proof.
  unfold SLI_marshal. destruct (255 <? _); [discriminate|]. cbv zeta. unfold SLI_header. consts.
  intros H. apply hdr_body_framing in H; try lia; try apply u16_lt'. destruct H as [L Hh].
  rewrite !len_app, !len_be in L.
  rewrite (len_concat_k (fun e => be 4 (sli_word e)) 4) in L by (intros x; rewrite len_be; reflexivity).
  change (N.of_nat 4) with 4 in L.
  assert (E : len b = SLI_size p) by (unfold SLI_size; consts; lia).
  split; [exact E|]. split; [unfold SLI_size in E; consts; lia|]. exact Hh.
Qed.

(* FIR: no limit on the number of entries *)
Theorem FIR_framing_any_value p b : FIR_marshal p = Ok b ->
  len b = FIR_size p /\ len b mod 4 = 0 /\ Header_unmarshal b = Ok (FIR_header p).
Proof.
  unfold FIR_marshal. cbv zeta. unfold FIR_header. consts.
  intros H. apply hdr_body_framing in H; try lia; try apply u16_lt'. destruct H as [L Hh].
  rewrite !len_app, !len_be in L.
  rewrite (len_concat_k (fun e => be 4 (fir_ssrc e) ++ [n2b (fir_seq e); x00; x00; x00]) 8) in L
    by (intros x; rewrite len_app, len_be; reflexivity).
  change (N.of_nat 4) with 4 in L.
  assert (E : len b = FIR_size p) by (unfold FIR_size; consts; lia).
  split; [exact E|]. split; [unfold FIR_size in E; consts; lia|]. exact Hh.
Qed.

(* the five headers, spelled out: no padding, the type's FMT and packet type, and the length field
   u16 (len b / 4 - 1) *)
Definition framing_u16 (b : bytes) (pt fmt : N) : Prop :=
  len b mod 4 = 0 /\
  exists h, Header_unmarshal b = Ok h /\ h_pad h = false /\ h_type h = pt /\ h_count h = fmt /\ h_len h = u16 (len b / 4 - 1).

Corollary feedback_framing_any_value :
  (forall p b, PLI_marshal p = Ok b -> len b = 12 /\ framing_u16 b 206 1) /\
  (forall p b, RRR_marshal p = Ok b -> len b = 12 /\ framing_u16 b 205 5) /\
  (forall p b, NACK_marshal p = Ok b -> len b = 12 + 4 * nlen (nack_pairs p) /\ nlen (nack_pairs p) <= 253 /\ framing_u16 b 205 1) /\
  (forall p b, SLI_marshal p = Ok b -> len b = 12 + 4 * nlen (sli_entries p) /\ nlen (sli_entries p) <= 253 /\
                                        framing_u16 b c_TypeTransportSpecificFeedback c_FormatSLI) /\
  (forall p b, FIR_marshal p = Ok b -> len b = 12 + 8 * nlen (fir_entries p) /\ framing_u16 b 206 4).
Proof.
  repeat split.
  - apply PLI_framing_any_value in H. tauto.
  - apply PLI_framing_any_value in H. tauto.
  - apply PLI_framing_any_value in H as (L & M & Hh). eexists. split; [exact Hh|]. rewrite L. repeat split.
  - apply RRR_framing_any_value in H. tauto.
  - apply RRR_framing_any_value in H. tauto.
  - apply RRR_framing_any_value in H as (L & M & Hh). eexists. split; [exact Hh|]. rewrite L. repeat split.
  - apply NACK_framing_any_value in H as (L & _). rewrite L. unfold NACK_size. consts. lia.
  - unfold NACK_marshal in H. consts. destruct (N.ltb_spec 255 (nlen (nack_pairs p) + 2)); [discriminate|lia].
  - apply NACK_framing_any_value in H. tauto.
  - apply NACK_framing_any_value in H as (L & M & Hh). eexists. split; [exact Hh|]. rewrite L. repeat split.
  - apply SLI_framing_any_value in H as (L & _). rewrite L. unfold SLI_size. consts. lia.
  - unfold SLI_marshal in H. consts. destruct (N.ltb_spec 255 (nlen (sli_entries p) + 2)); [discriminate|lia].
  - apply SLI_framing_any_value in H. tauto.
  - apply SLI_framing_any_value in H as (L & M & Hh). eexists. split; [exact Hh|]. rewrite L. repeat split.
  - apply FIR_framing_any_value in H as (L & _). rewrite L. unfold FIR_size. consts. lia.
  - apply FIR_framing_any_value in H. tauto.
  - apply FIR_framing_any_value in H as (L & M & Hh). eexists. split; [exact Hh|]. rewrite L. repeat split.
Qed.

(* the length field does wrap: a FullIntraRequest with 32768 entries is accepted and announces 2 words *)
Lemma FIR_length_wraps : exists p b, FIR_marshal p = Ok b /\ len b = 262156 /\
  exists h, Header_unmarshal b = Ok h /\ h_len h = 2.
Proof.
  exists (mkFIR 0 0 (repeat (mkFIREntry 0 0) (N.to_nat 32768))).
  destruct (FIR_marshal (mkFIR 0 0 (repeat (mkFIREntry 0 0) (N.to_nat 32768)))) as [b| | |] eqn:E.
  2-4: (exfalso; revert E; unfold FIR_marshal, FIR_header; cbv zeta; rewrite Header_marshal_spec by (consts; lia); discriminate).
  exists b. apply FIR_framing_any_value in E as (L & _ & Hh).
  assert (N : nlen (fir_entries (mkFIR 0 0 (repeat (mkFIREntry 0 0) (N.to_nat 32768)))) = 32768).
  { cbn [fir_entries]. unfold nlen. rewrite repeat_length, N2Nat.id. reflexivity. }
  unfold FIR_size in L. unfold FIR_header, FIR_size in Hh. rewrite N in L, Hh. consts.
  split; [reflexivity|]. split; [exact L|]. eexists. split; [exact Hh|]. reflexivity.
Qed.

(* ================================================================================================ *)
Print Assumptions exact_layout.
Print Assumptions unpack_block_wire.
Print Assumptions XR_unmarshal_alloc.
Print Assumptions nb_layout.
Print Assumptions XR_unmarshal_nodes.
Print Assumptions decode_frame_alloc_sharp.
Print Assumptions decode_frame_alloc.
Print Assumptions decode_frame_alloc_len.
Print Assumptions Unmarshal_alloc_sharp.
Print Assumptions Unmarshal_alloc.
Print Assumptions Unmarshal_alloc_linear.
Print Assumptions dest_q.
Print Assumptions dest_roundtrip.
Print Assumptions dest_roundtrip_datagram.
Print Assumptions XR_dest_roundtrip.
Print Assumptions xrchunk_obs_accessors.
Print Assumptions chunk_chk_ok.
Print Assumptions chunk_null_iff.
Print Assumptions chunk_null.
Print Assumptions chunk_type_bit15.
Print Assumptions chunk_run_length.
Print Assumptions chunk_bit_vector.
Print Assumptions chunk_accessors_injective.
Print Assumptions PLI_framing_any_value.
Print Assumptions RRR_framing_any_value.
Print Assumptions NACK_framing_any_value.
Print Assumptions SLI_framing_any_value.
Print Assumptions FIR_framing_any_value.
Print Assumptions feedback_framing_any_value.
Print Assumptions FIR_length_wraps.
