(* C13: chunking invariance as a corollary of decode-of-encode *)
From RTCP Require Import Proofs.Tactics Model.Header Model.Twcc Spec.Enc Proofs.EncTwcc.
Local Open Scope N_scope.

(* the per-packet status sequence a TWCC value announces: run lengths clipped to the status count *)
Definition statuses (t : TWCC) : list N := firstn (N.to_nat (tw_count t)) (expand (tw_chunks t) (tw_count t)).

Lemma twcc_chunking_invariant t1 t2 : D_TWCC t1 = true -> D_TWCC t2 = true ->
  statuses t1 = statuses t2 -> tw_deltas t1 = tw_deltas t2 ->
  exists d1 d2, TWCC_unmarshal (enc_TWCC t1) = Ok d1 /\ TWCC_unmarshal (enc_TWCC t2) = Ok d2 /\
                statuses d1 = statuses d2 /\ tw_deltas d1 = tw_deltas d2.
Proof.
  intros D1 D2 Hs Hd. exists t1, t2. repeat split; auto using TWCC_unmarshal_enc.
Qed.

(* non-vacuity: two different chunkings of the statuses [1; 0; 1] *)
Definition ex_a : TWCC := mkTWCC (mkHeader false 15 205 5) 1 2 3 3 4 5
  [SVC 1 1 [1; 0; 1; 0; 0; 0; 0]] [mkRecvDelta 1 250%Z; mkRecvDelta 1 500%Z].
Definition ex_b : TWCC := mkTWCC (mkHeader false 15 205 6) 1 2 3 3 4 5
  [RLC 0 1 1; RLC 0 0 1; RLC 0 1 1] [mkRecvDelta 1 250%Z; mkRecvDelta 1 500%Z].
Lemma twcc_chunking_example : D_TWCC ex_a = true /\ D_TWCC ex_b = true /\ statuses ex_a = statuses ex_b /\ tw_chunks ex_a <> tw_chunks ex_b.
Proof. repeat split; try (vm_compute; reflexivity). vm_compute. discriminate. Qed.
