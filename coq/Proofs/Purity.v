(* C18, the part re-derived from the source on every run: the package keeps no mutable shared state and no
   operation writes to memory another operation may touch, except the documented ones. *)
From Coq Require Import List String Bool.
From RTCP Require Import Gen.Globals Gen.Effects.
Import ListNotations.
Local Open Scope string_scope.

(* what each exported operation is ALLOWED to write (paramN = memory reachable from parameter N, 0 = receiver) *)
Definition allowed (ty meth : string) : list string :=
  if String.eqb meth "Unmarshal" then
    (if String.eqb ty "" then [] else ["param0"])                 (* a decoder fills its receiver; never its input buffer (param1) *)
  else if String.eqb meth "Marshal" then
    (if String.eqb ty "ExtendedReport" || String.eqb ty "CompoundPacket" || String.eqb ty "" then ["param0"] else [])
      (* ExtendedReport.Marshal fills in its blocks' header fields, as documented; a compound / packet list may contain one *)
  else if String.eqb meth "MarshalTo" then ["param1"]             (* writes the caller's output buffer: its purpose *)
  else [].

Definition subset (a b : list string) : bool := forallb (fun x => existsb (String.eqb x) b) a.
Definition effect_ok (e : string * string * string * list string) : bool :=
  let '(ty, meth, _, ws) := e in subset ws (allowed ty meth).

Lemma effects_allowed : forallb effect_ok effects = true.
Proof. vm_compute. reflexivity. Qed.

Lemma no_mutable_globals : mutable_globals = [].
Proof. reflexivity. Qed.

(* every operation the property names was analysed (a method that disappears from the table would otherwise pass vacuously) *)
Definition analysed (ty meth : string) : bool := existsb (fun '(t, m, _, _) => String.eqb t ty && String.eqb m meth) effects.
Definition packet_types : list string :=
  ["SenderReport"; "ReceiverReport"; "SourceDescription"; "Goodbye"; "ApplicationDefined"; "TransportLayerNack";
   "RapidResynchronizationRequest"; "TransportLayerCC"; "CCFeedbackReport"; "PictureLossIndication"; "SliceLossIndication";
   "ReceiverEstimatedMaximumBitrate"; "FullIntraRequest"; "ExtendedReport"; "RawPacket"; "CompoundPacket"].
Lemma all_operations_analysed :
  forallb (fun t => analysed t "Marshal" && analysed t "Unmarshal" && analysed t "MarshalSize" && analysed t "DestinationSSRC") packet_types = true.
Proof. vm_compute. reflexivity. Qed.
