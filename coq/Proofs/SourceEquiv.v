(* SourceEquiv: the functions translated from the Go source (Gen/Funcs.v, module GoSrc, regenerated on every run) compute
   what the hand-written model functions compute, so that the theorems about the model transfer to the code as translated.

   Conventions.  src_header / src_rrep / src_rlc / src_delta / src_metric map a model value to the translated struct
   (every N field through Z.of_N).  The *_fits predicates state that every field is within its Go type.  It turns out
   that only ONE encoder needs such a hypothesis (RecvDelta.Marshal: Delta is an int64); all the others are proved for
   every model value, because both sides truncate an over-wide field in the same way (so the statements below are
   stronger than "forall x, x_fits x -> ...", which follows by ignoring the hypothesis).  Decoders need no hypothesis
   and hold for an arbitrary receiver (every field is assigned).

   How the proofs depend on the shape of the generated terms (each proof repeats this in a comment):
   - the primitives are never unfolded: reads and writes are resolved by the lemmas of GoSemFacts.v under the length fact
     established by the guard (tactics gread / gstep on the translated side, reads_ok / mstep on the model side);
   - what is left is an equality between guards and between octets or fields.  These are closed either by evaluation
     over a finite domain (tactics sweep, sweep_any_octet, sweep_two_octets: any term that is a function of one or two
     octets, or of a bounded count, is accepted whatever its shape) or, where three or more octets or an unbounded value
     are involved, by the data base go2n of transfer lemmas (any combination of & | << >> + * and uintN conversions);
   - setNBitsOfUint16 is a black box in the proofs of its callers (only src_setNBitsOfUint16 is used).
   So a rewrite of the Go code that keeps the sequence of guards and the set of octets read or written goes through;
   a reordering of guards, or a different error/panic precedence, does not (and should not). *)
From RTCP Require Import Proofs.Tactics Lib.GoSem Gen.Funcs Proofs.GoSemFacts
  Model.Header Model.Reports Model.Twcc Model.Ccfb.
Local Open Scope Z_scope.

(* ---------------- util.go ---------------- *)
(* shape: the term is unfolded; Go's % on a non-negative operand is mod; the rest is lia *)
Lemma src_getPadding : forall n, GoSrc.getPadding (Z.of_N n) = Z.of_N (get_padding n).
Proof.
  intros n. unfold GoSrc.getPadding, get_padding. rewrite Z.rem_mod_nonneg by lia.
  destruct (Z.eqb_spec (Z.of_N n mod 4) 0), (N.eqb_spec (n mod 4) 0); lia.
Qed.

(* shape: go2n pushes Z.of_N through whatever combination of operators the term has; the result must then be the model's
   expression up to shl = shiftl-then-truncate.  No bound on the arguments is needed (the wanted statement had
   s z st v < 65536; it is the special case). *)
Lemma src_setNBitsOfUint16 : forall s z st v,
  GoSrc.setNBitsOfUint16 (Z.of_N s) (Z.of_N z) (Z.of_N st) (Z.of_N v) = res_map Z.of_N (setNBitsOfUint16 s z st v).
Proof.
  intros. unfold GoSrc.setNBitsOfUint16, setNBitsOfUint16.
  go2n. rewrite !shl_shiftl. fold (u16 (N.shiftl 1 z)).
  destruct (16 <? u16 (st + z))%N; reflexivity.
Qed.

(* shape: as above; no bound needed (wanted: n <= 32, arguments below 2^32) *)
Lemma src_appendNBitsToUint32 : forall s n v,
  GoSrc.appendNBitsToUint32 (Z.of_N s) (Z.of_N n) (Z.of_N v) = Z.of_N (appendNBitsToUint32 s n v).
Proof.
  intros. unfold GoSrc.appendNBitsToUint32, appendNBitsToUint32.
  go2n. rewrite shl_shiftl, shr_shiftr by reflexivity.
  reflexivity.
Qed.

(* general form (any b below 2^64, any begin and n) by transfer lemmas ... *)
Lemma src_getNBitsFromByte_gen : forall b s n, (b < 2 ^ 64)%N ->
  GoSrc.getNBitsFromByte (Z.of_N b) (Z.of_N s) (Z.of_N n) = Z.of_N (getNBitsFromByte b s n).
Proof.
  intros b s n Hb. unfold GoSrc.getNBitsFromByte, getNBitsFromByte. cbv zeta.
  go2n. rewrite !shl_shiftl. rewrite (shr_shiftr 255) by reflexivity.
  rewrite shr_shiftr by (apply Nland_lt_l; exact Hb). reflexivity.
Qed.
(* ... and, independently of the shape of the translated term, by evaluation over every byte and every begin + n <= 8
   (which covers every call site; beyond that the Go shift counts are of the order of 2^16) *)
Lemma src_getNBitsFromByte : forall b s n, (b < 256)%N -> (s + n <= 8)%N ->
  GoSrc.getNBitsFromByte (Z.of_N b) (Z.of_N s) (Z.of_N n) = Z.of_N (getNBitsFromByte b s n).
Proof.
  intros b s n Hb Hsn.
  assert (K : all_below 256 (fun b => all_below 9 (fun s => all_below 9 (fun n =>
                if (s + n <=? 8)%N
                then GoSrc.getNBitsFromByte (Z.of_N b) (Z.of_N s) (Z.of_N n) =? Z.of_N (getNBitsFromByte b s n)
                else true))) = true) by (vm_compute; reflexivity).
  pose proof (all_below_spec _ _ K b Hb) as K1. cbv beta in K1.
  assert (Hs : (s < 9)%N) by lia. pose proof (all_below_spec _ _ K1 s Hs) as K2. cbv beta in K2.
  assert (Hn : (n < 9)%N) by lia. pose proof (all_below_spec _ _ K2 n Hn) as K3. cbv beta in K3.
  destruct (N.leb_spec (s + n) 8); [|lia]. apply Z.eqb_eq. exact K3.
Qed.

(* shape: three reads b[0] b[1] b[2] in this order (the order fixes which panic comes first: all are Panic, so any order
   would do), then an arithmetic expression handled by go2n and lia *)
Lemma src_get24BitsFromBytes : forall b, GoSrc.get24BitsFromBytes b = res_map Z.of_N (get24BitsFromBytes b).
Proof.
  intros b. unfold GoSrc.get24BitsFromBytes, get24BitsFromBytes.
  rewrite !gidx_Z by lia. nat_lits. rewrite !bind_res_map.
  destruct (idx b 0) as [x0| | |]; cbn [bind res_map]; try reflexivity.
  destruct (idx b 1) as [x1| | |]; cbn [bind res_map]; try reflexivity.
  destruct (idx b 2) as [x2| | |]; cbn [bind res_map]; try reflexivity.
  f_equal. go2n. f_equal. rewrite !N.shiftl_mul_pow2. change (2 ^ 16)%N with 65536%N. change (2 ^ 8)%N with 256%N.
  pose proof (b2n_lt x0). pose proof (b2n_lt x1). pose proof (b2n_lt x2). unfold u32. lia.
Qed.

(* ---------------- shared tactics ---------------- *)
(* a goal that mentions one octet [b2n e] (and nothing else that varies): generalise it to any x < 256 and evaluate *)
Ltac sweep_any_octet := match goal with |- context [b2n ?e] => sweep_octet e end.
(* both sides branch on a test of one octet: show the tests equal by evaluation, then split *)
Ltac same_guard :=
  match goal with
  | |- (if ?c then _ else _) = res_map _ (if ?d then _ else _) =>
      let E := fresh "E" in
      assert (E : c = d) by (first [reflexivity | sweep_any_octet]); rewrite E; clear E;
      destruct d; cbn [res_map]; try reflexivity
  end.

(* ---------------- header.go ---------------- *)
Definition src_header (h : Header) : GoSrc.Header :=
  GoSrc.mkHeader (h_pad h) (Z.of_N (h_count h)) (Z.of_N (h_type h)) (Z.of_N (h_len h)).
Definition header_fits (h : Header) : Prop := (h_count h < 256 /\ h_type h < 256 /\ h_len h < 65536)%N.

Ltac src_fields :=
  cbv [GoSrc.set_Header_Padding GoSrc.set_Header_Count GoSrc.set_Header_Type GoSrc.set_Header_Length
       GoSrc.Header_Padding GoSrc.Header_Count GoSrc.Header_Type GoSrc.Header_Length].

(* shape: one length guard, reads resolved by lemmas, then (see the comment inside) a test of one octet and a record *)
Lemma src_Header_Unmarshal : forall h0 b, GoSrc.Header_Unmarshal h0 b = res_map src_header (Header_unmarshal b).
Proof.
  intros h0 b. unfold GoSrc.Header_Unmarshal, Header_unmarshal. consts.
  rewrite glen_len. go2n.
  destruct (N.ltb_spec (len b) 4) as [Hl|Hl]; [reflexivity|].
  assert (Hg : 4 <= glen b) by (rewrite glen_len; lia).
  rewrite !gidx_ok by lia. rewrite gslice_from_ok by lia. cbn [bind]. rewrite gbe_get_ok by glen_solve.
  reads_ok. nat_lits. cbn [bind].
  (* from here on the only thing used about the translated term is: a test of one octet guards an Ok of a record whose
     fields are each a function of one octet or a big-endian read *)
  same_guard. unfold src_header. src_fields. cbn [h_pad h_count h_type h_len].
  f_equal. f_equal; sweep_any_octet.
Qed.

(* stepping through writes and reads on a buffer whose length is known *)
Ltac gmake_eval :=
  repeat match goal with |- context [gmake ?n] => let r := eval vm_compute in (gmake n) in change (gmake n) with r end.
Ltac gstep :=
  first [ rewrite gidx_ok by glen_solve | rewrite gupd_ok by glen_solve | rewrite gbe_put_ok_N by glen_solve
        | rewrite gbe_put_ok by glen_solve | rewrite gupd_v_eq by lia | rewrite gidx_v_eq by lia
        | rewrite gslice_from_ok by glen_solve ];
  nat_lits; cbn [bind be firstn skipn app nth Nat.add Z.add Pos.add Pos.succ].

(* shape: a 4-octet make, reads and writes at constant offsets (any number, any order: gstep evaluates them), the guard
   on Count *)
Lemma src_Header_Marshal : forall h, GoSrc.Header_Marshal (src_header h) = Header_marshal h.
Proof.
  intros [p c t l]. unfold GoSrc.Header_Marshal, Header_marshal, src_header. src_fields. cbn [h_pad h_count h_type h_len].
  gmake_eval. cbn [bind]. repeat gstep.
  (* shape dependence: none beyond "a guard on Count, then a 4-octet buffer"; the first octet is compared by evaluation
     over every Count the guard lets through *)
  consts. go2n. rewrite ?app_nil_r.
  destruct p; (destruct (N.ltb_spec 31 c) as [Hc|Hc]; [reflexivity|]); f_equal; (f_equal; [|f_equal; apply byte_of_Z_N]);
    (assert (Hc' : (c < 32)%N) by lia); clear Hc; revert c Hc'; sweep.
Qed.

(* ---------------- reception_report.go ---------------- *)
Definition src_rrep (r : RRep) : GoSrc.ReceptionReport :=
  GoSrc.mkReceptionReport (Z.of_N (rr_ssrc r)) (Z.of_N (rr_frac r)) (Z.of_N (rr_lost r)) (Z.of_N (rr_seq r))
    (Z.of_N (rr_jit r)) (Z.of_N (rr_lsr r)) (Z.of_N (rr_delay r)).
Definition rrep_fits (r : RRep) : Prop :=
  (rr_ssrc r < 4294967296 /\ rr_frac r < 256 /\ rr_lost r < 4294967296 /\ rr_seq r < 4294967296 /\
   rr_jit r < 4294967296 /\ rr_lsr r < 4294967296 /\ rr_delay r < 4294967296)%N.

Ltac gread :=
  first [ rewrite gidx_ok by glen_solve | rewrite gbe_get_ok by glen_solve | rewrite gslice_from_ok by glen_solve ];
  cbn [bind].
Ltac rrep_fields :=
  cbv [GoSrc.set_ReceptionReport_SSRC GoSrc.set_ReceptionReport_FractionLost GoSrc.set_ReceptionReport_TotalLost
       GoSrc.set_ReceptionReport_LastSequenceNumber GoSrc.set_ReceptionReport_Jitter GoSrc.set_ReceptionReport_LastSenderReport
       GoSrc.set_ReceptionReport_Delay
       GoSrc.ReceptionReport_SSRC GoSrc.ReceptionReport_FractionLost GoSrc.ReceptionReport_TotalLost
       GoSrc.ReceptionReport_LastSequenceNumber GoSrc.ReceptionReport_Jitter GoSrc.ReceptionReport_LastSenderReport
       GoSrc.ReceptionReport_Delay].

(* shape: one length guard, then reads (direct or through the re-slice rawPacket[5:]) resolved by gread; fields compared
   one by one: six are syntactically equal after the reads are resolved, TotalLost goes through go2n *)
Lemma src_ReceptionReport_Unmarshal : forall r0 b,
  GoSrc.ReceptionReport_Unmarshal r0 b = res_map src_rrep (RRep_unmarshal b).
Proof.
  intros r0 b. unfold GoSrc.ReceptionReport_Unmarshal, RRep_unmarshal. consts.
  rewrite glen_len. go2n.
  destruct (N.ltb_spec (len b) 24) as [Hl|Hl]; [reflexivity|].
  assert (Hg : 24 <= glen b) by (rewrite glen_len; lia).
  repeat gread. reads_ok. cbn [N.add Pos.add Pos.succ]. nat_lits. rewrite !nth_skipn_add. cbn [Nat.add res_map].
  unfold src_rrep. rrep_fields. cbn [rr_ssrc rr_frac rr_lost rr_seq rr_jit rr_lsr rr_delay].
  cbn [skipn]. f_equal. f_equal.
  (* TotalLost: three octets, so by transfer lemmas rather than by evaluation *)
  go2n. f_equal. rewrite !N.shiftl_mul_pow2. change (2 ^ 8)%N with 256%N. change (2 ^ 16)%N with 65536%N.
  pose proof (b2n_lt (nth 6 b x00)). pose proof (b2n_lt (nth 5 b x00)).
  unfold u32. rewrite !N.mod_small by lia. reflexivity.
Qed.

(* the same on the model side *)
Ltac zeros_eval :=
  repeat match goal with |- context [zeros ?n] => let r := eval vm_compute in (zeros n) in change (zeros n) with r end.
Ltac mstep :=
  first [ rewrite put_be_at_ok by len_solve | rewrite copy_at_ok by (cbn [length]; len_solve) ];
  nat_lits; cbn [bind be firstn skipn app length Nat.add].
(* one octet written by the translated code against one octet written by the model *)
Ltac byte_eq :=
  rewrite ?byte_of_Z_uwrap by lia; go2n; rewrite ?byte_of_Z_N, ?n2b_u8, ?n2b_u16, ?n2b_u32, ?N.shiftr_div_pow2; reflexivity.

(* shape: a 24-octet make and writes at constant offsets, in any order and through the view rawPacket[5:] or not (both
   sides are evaluated to an explicit list of 24 octets; no write can panic, so where the TotalLost guard sits among the
   writes does not matter either) *)
Lemma src_ReceptionReport_Marshal : forall r, GoSrc.ReceptionReport_Marshal (src_rrep r) = RRep_marshal r.
Proof.
  intros [s f t q j l d]. unfold GoSrc.ReceptionReport_Marshal, RRep_marshal, src_rrep. rrep_fields.
  cbn [rr_ssrc rr_frac rr_lost rr_seq rr_jit rr_lsr rr_delay]. consts.
  gmake_eval. cbn [bind]. 
  repeat gstep. zeros_eval. repeat mstep.
  (* both sides are now: the TotalLost guard, then an explicit list of 24 octets *)
  go2n. destruct (16777216 <=? t)%N; [reflexivity|]. f_equal. repeat (f_equal; try byte_eq).
Qed.

(* ---------------- transport_layer_cc.go ---------------- *)
(* setNBitsOfUint16 with literal arguments: the same lemma with Z arguments *)
Lemma src_setNBitsOfUint16_Z : forall s z st v, 0 <= s -> 0 <= z -> 0 <= st -> 0 <= v ->
  GoSrc.setNBitsOfUint16 s z st v = res_map Z.of_N (setNBitsOfUint16 (Z.to_N s) (Z.to_N z) (Z.to_N st) (Z.to_N v)).
Proof.
  intros s z st v Hs Hz Hst Hv. rewrite <- src_setNBitsOfUint16. rewrite !Z2N.id by assumption. reflexivity.
Qed.
(* a chain of setNBitsOfUint16 calls (treated as a black box on both sides) ending in a PutUint16 *)
Ltac setbits_chain :=
  repeat (rewrite src_setNBitsOfUint16_Z by lia; nat_lits; rewrite ?N2Z.id;
          match goal with |- context [res_map Z.of_N ?r] => destruct r; cbn [res_map bind]; try reflexivity end).

Definition src_rlc (c : TChunk) : GoSrc.RunLengthChunk :=
  match c with
  | RLC ty sym run => GoSrc.mkRunLengthChunk (Z.of_N ty) (Z.of_N sym) (Z.of_N run)
  | SVC _ _ _ => GoSrc.mkRunLengthChunk 0 0 0
  end.
Ltac rlc_fields :=
  cbv [GoSrc.set_RunLengthChunk_Type GoSrc.set_RunLengthChunk_PacketStatusSymbol GoSrc.set_RunLengthChunk_RunLength
       GoSrc.RunLengthChunk_Type GoSrc.RunLengthChunk_PacketStatusSymbol GoSrc.RunLengthChunk_RunLength].

Lemma sweep2_Z n m (f g : N -> N -> Z) :
  all_below n (fun x => all_below m (fun y => f x y =? g x y)) = true ->
  forall x, (x < n)%N -> forall y, (y < m)%N -> f x y = g x y.
Proof.
  intros H x Hx y Hy. apply Z.eqb_eq. pose proof (all_below_spec _ _ H x Hx) as H1. cbv beta in H1.
  exact (all_below_spec _ _ H1 y Hy).
Qed.
Ltac sweep_two_octets e1 e2 :=
  generalize (b2n_lt e2); generalize (b2n e2); generalize (b2n_lt e1); generalize (b2n e1);
  lazymatch goal with
  | |- forall x, (x < ?B)%N -> forall y, (y < ?C)%N -> @eq Z (@?f x y) (@?g x y) =>
      apply (sweep2_Z B C f g); vm_compute; reflexivity
  end.

(* shape: length guard, reads, then each field by evaluation (so getNBitsFromByte and the arithmetic may be anything) *)
Lemma src_RunLengthChunk_Unmarshal : forall r0 b,
  GoSrc.RunLengthChunk_Unmarshal r0 b = res_map src_rlc (RLC_unmarshal b).
Proof.
  intros r0 b. unfold GoSrc.RunLengthChunk_Unmarshal, RLC_unmarshal. consts.
  rewrite glen_len. go2n.
  destruct (N.eqb_spec (len b) 2) as [Hl|Hl]; [|reflexivity]. cbn [negb].
  assert (Hg : glen b = 2) by (rewrite glen_len; lia).
  repeat gread. reads_ok. nat_lits. cbn [res_map]. unfold rlc_of_bytes, src_rlc. rlc_fields. consts.
  (* fields: PacketStatusSymbol depends on one octet, RunLength on two; both by evaluation *)
  f_equal. f_equal; [sweep_any_octet|]. sweep_two_octets (nth 0 b x00) (nth 1 b x00).
Qed.

(* shape: a chain of setNBitsOfUint16 calls with the same arguments as the model, then PutUint16 into a 2-octet make *)
Lemma src_RunLengthChunk_Marshal : forall ty sym run,
  GoSrc.RunLengthChunk_Marshal (src_rlc (RLC ty sym run)) = TChunk_marshal (RLC ty sym run).
Proof.
  intros ty sym run. unfold GoSrc.RunLengthChunk_Marshal, TChunk_marshal, RLC_marshal, src_rlc. rlc_fields.
  gmake_eval. cbn [bind]. setbits_chain.
  repeat gstep. reflexivity.
Qed.

Definition src_delta (d : RecvDelta) : GoSrc.RecvDelta := GoSrc.mkRecvDelta (Z.of_N (rd_type d)) (rd_delta d).
Definition rlc_fits (c : TChunk) : Prop :=
  match c with RLC ty sym run => (ty < 65536 /\ sym < 65536 /\ run < 65536)%N | SVC _ _ _ => False end.
Definition delta_fits (d : RecvDelta) : Prop := - 9223372036854775808 <= rd_delta d < 9223372036854775808.
Ltac delta_fields :=
  cbv [GoSrc.set_RecvDelta_Type GoSrc.set_RecvDelta_Delta GoSrc.RecvDelta_Type GoSrc.RecvDelta_Delta].

(* shape: the two length tests, then one read per branch; the int64 / int16 conversions are discharged by range facts *)
Lemma src_RecvDelta_Unmarshal : forall r0 b,
  GoSrc.RecvDelta_Unmarshal r0 b = res_map src_delta (RecvDelta_unmarshal b).
Proof.
  intros r0 b. unfold GoSrc.RecvDelta_Unmarshal, RecvDelta_unmarshal. consts. cbv zeta.
  rewrite glen_len. rewrite !Zeqb_N_r.
  destruct (N.eqb_spec (len b) 1) as [H1|H1]; cbn [negb andb].
  - assert (Hg : glen b = 1) by (rewrite glen_len; lia).
    repeat gread. reads_ok. nat_lits. cbn [res_map]. unfold src_delta. delta_fields. cbn [rd_type rd_delta].
    f_equal. f_equal. pose proof (b2n_lt (nth 0 b x00)). apply swrap64_small. lia.
  - destruct (N.eqb_spec (len b) 2) as [H2|H2]; cbn [negb]; [|reflexivity].
    rewrite gbe_get_at0. destruct (get_be_at 2 b 0) as [w| | |] eqn:E; cbn [bind res_map]; try reflexivity.
    apply get_be_at_lt in E. change (256 ^ N.of_nat 2)%N with 65536%N in E.
    unfold src_delta. delta_fields. cbn [rd_type rd_delta]. f_equal. f_equal.
    rewrite swrap16_N by exact E. unfold int16_of. change (Z.of_N 250) with 250.
    destruct (w <? 32768)%N; apply swrap64_small; lia.
Qed.

Lemma quot250_range D M : - M <= D < M -> - M <= Z.quot D 250 < M.
Proof.
  intros H. destruct (Z.le_gt_cases 0 D) as [H0|H0].
  - rewrite Z.quot_div_nonneg by lia. lia.
  - replace D with (- - D) by lia. rewrite Z.quot_opp_l by lia. rewrite Z.quot_div_nonneg by lia. lia.
Qed.

(* shape: delta computed once, the two range guards syntactically as in the model, one write per branch *)
Lemma src_RecvDelta_Marshal : forall d, delta_fits d -> GoSrc.RecvDelta_Marshal (src_delta d) = RecvDelta_marshal d.
Proof.
  intros [ty D] Hd. unfold delta_fits in Hd. cbn [rd_delta] in Hd.
  unfold GoSrc.RecvDelta_Marshal, RecvDelta_marshal, src_delta. delta_fields. cbn [rd_type rd_delta]. consts.
  change (Z.of_N 250) with 250. cbv zeta.
  rewrite swrap64_small by (apply (quot250_range D 9223372036854775808); exact Hd).
  set (dl := Z.quot D 250). rewrite !Zeqb_N_r. gmake_eval. cbn [bind].
  repeat gstep.
  (* both sides now have the same two guards; what remains is the octets written in each branch *)
  destruct ((ty =? 1)%N && (0 <=? dl) && (dl <=? 255)) eqn:G1.
  - apply andb_prop in G1. destruct G1 as [G1 _]. apply andb_prop in G1. destruct G1 as [_ G1]. apply Z.leb_le in G1.
    f_equal. f_equal. rewrite byte_of_Z_uwrap by lia. apply byte_of_Z_nonneg. exact G1.
  - destruct ((ty =? 2)%N && (-32768 <=? dl) && (dl <=? 32767)); [|reflexivity].
    assert (E : uwrap 16 dl mod 2 ^ (8 * 2) = dl mod 65536).
    { unfold uwrap. change (2 ^ (8 * 2)) with 65536. change (2 ^ 16) with 65536. apply Zmod_mod. }
    rewrite E. reflexivity.
Qed.

(* the hypothesis is needed: an int64 Delta is assumed by the translated code (swrap 64), the model divides the unbounded Z *)
Lemma src_RecvDelta_Marshal_refuted_without_fits :
  exists d, GoSrc.RecvDelta_Marshal (src_delta d) <> RecvDelta_marshal d.
Proof. exists (mkRecvDelta 1 (250 * 18446744073709551616)). vm_compute. discriminate. Qed.

(* ---------------- rfc8888.go ---------------- *)
Definition src_metric (m : CCMetric) : GoSrc.CCFeedbackMetricBlock :=
  GoSrc.mkCCFeedbackMetricBlock (mb_received m) (Z.of_N (mb_ecn m)) (Z.of_N (mb_offset m)).
Definition metric_fits (m : CCMetric) : Prop := (mb_ecn m < 256 /\ mb_offset m < 65536)%N.
Ltac metric_fields :=
  cbv [GoSrc.set_CCFeedbackMetricBlock_Received GoSrc.set_CCFeedbackMetricBlock_ECN GoSrc.set_CCFeedbackMetricBlock_ArrivalTimeOffset
       GoSrc.CCFeedbackMetricBlock_Received GoSrc.CCFeedbackMetricBlock_ECN GoSrc.CCFeedbackMetricBlock_ArrivalTimeOffset].

(* shape: length guard, reads, a test (x & 128) == 0 turned into the model's by go2n, fields by go2n *)
Lemma src_CCFeedbackMetricBlock_unmarshal : forall m0 b,
  GoSrc.CCFeedbackMetricBlock_unmarshal m0 b = res_map src_metric (CCMetric_unmarshal b).
Proof.
  intros m0 b. unfold GoSrc.CCFeedbackMetricBlock_unmarshal, CCMetric_unmarshal. consts.
  rewrite glen_len. go2n.
  destruct (N.eqb_spec (len b) 2) as [Hl|Hl]; [|reflexivity]. cbn [negb].
  assert (Hg : glen b = 2) by (rewrite glen_len; lia).
  repeat gread. reads_ok. nat_lits. cbv zeta. metric_fields.
  (* the Received test, once expressed in N by the transfer lemmas, is the model's test *)
  go2n. cbn [skipn].
  match goal with |- context [negb (?c =? 0)%N] => destruct (c =? 0)%N end; cbn [negb res_map]; [reflexivity|].
  unfold src_metric. cbn [mb_received mb_ecn mb_offset]. f_equal. f_equal.
  rewrite N.shiftr_div_pow2. reflexivity.
Qed.

(* shape: as RunLengthChunk.Marshal, in both branches of the Received test *)
Lemma src_CCFeedbackMetricBlock_marshal : forall m,
  GoSrc.CCFeedbackMetricBlock_marshal (src_metric m) = CCMetric_marshal m.
Proof.
  intros [r e o]. unfold GoSrc.CCFeedbackMetricBlock_marshal, CCMetric_marshal, src_metric. metric_fields.
  cbn [mb_received mb_ecn mb_offset]. gmake_eval. cbn [bind].
  destruct r; setbits_chain; repeat gstep; reflexivity.
Qed.

(* ---------------- extended_report.go: Chunk.Type / RunType / Value ---------------- *)
(* against the accessors the C16_xr_chunk_* theorems are stated about (Proofs/Extras.v: chunk_type, chunk_run_type,
   chunk_value; Check/Ops.v's xrchunk_obs is their tuple, lemma xrchunk_obs_eq there); by evaluation over all 2^16 values *)
From RTCP Require Proofs.Extras.

Lemma src_Chunk_Type : forall c, (c < 65536)%N -> GoSrc.Chunk_Type (Z.of_N c) = Z.of_N (Extras.chunk_type c).
Proof. sweep. Qed.
Lemma src_Chunk_RunType : forall c, (c < 65536)%N ->
  GoSrc.Chunk_RunType (Z.of_N c) = res_map Z.of_N (Extras.chunk_run_type c).
Proof. sweep. Qed.
Lemma src_Chunk_Value : forall c, (c < 65536)%N -> GoSrc.Chunk_Value (Z.of_N c) = Z.of_N (Extras.chunk_value c).
Proof. sweep. Qed.

(* ---------------- the statements in the form "well-formed value -> ..." ---------------- *)
Corollary src_Header_Marshal_fits : forall h, header_fits h -> GoSrc.Header_Marshal (src_header h) = Header_marshal h.
Proof. intros h _. apply src_Header_Marshal. Qed.
Corollary src_ReceptionReport_Marshal_fits : forall r, rrep_fits r -> GoSrc.ReceptionReport_Marshal (src_rrep r) = RRep_marshal r.
Proof. intros r _. apply src_ReceptionReport_Marshal. Qed.
Corollary src_RunLengthChunk_Marshal_fits : forall c, rlc_fits c -> GoSrc.RunLengthChunk_Marshal (src_rlc c) = TChunk_marshal c.
Proof. intros [ty sym run|ty ss syms] H; [apply src_RunLengthChunk_Marshal|destruct H]. Qed.
Corollary src_CCFeedbackMetricBlock_marshal_fits : forall m, metric_fits m ->
  GoSrc.CCFeedbackMetricBlock_marshal (src_metric m) = CCMetric_marshal m.
Proof. intros m _. apply src_CCFeedbackMetricBlock_marshal. Qed.
Corollary src_setNBitsOfUint16_fits : forall s z st v, (s < 65536)%N -> (z < 65536)%N -> (st < 65536)%N -> (v < 65536)%N ->
  GoSrc.setNBitsOfUint16 (Z.of_N s) (Z.of_N z) (Z.of_N st) (Z.of_N v) = res_map Z.of_N (setNBitsOfUint16 s z st v).
Proof. intros. apply src_setNBitsOfUint16. Qed.
(* the decoders return values within the Go types (so the images of the src_* maps are legitimate Go values) *)
Lemma RLC_unmarshal_is_RLC b c : RLC_unmarshal b = Ok c -> exists sym run, c = RLC 0 sym run.
Proof.
  unfold RLC_unmarshal. destruct (negb _); [discriminate|].
  destruct (idx b 0); try discriminate. destruct (idx b 1); try discriminate. cbn [bind]. intros E. inversion E.
  unfold rlc_of_bytes. consts. eauto.
Qed.

Print Assumptions src_getPadding.
Print Assumptions src_setNBitsOfUint16.
Print Assumptions src_setNBitsOfUint16_Z.
Print Assumptions src_appendNBitsToUint32.
Print Assumptions src_getNBitsFromByte.
Print Assumptions src_getNBitsFromByte_gen.
Print Assumptions src_get24BitsFromBytes.
Print Assumptions src_Header_Unmarshal.
Print Assumptions src_Header_Marshal.
Print Assumptions src_ReceptionReport_Unmarshal.
Print Assumptions src_ReceptionReport_Marshal.
Print Assumptions src_RunLengthChunk_Unmarshal.
Print Assumptions src_RunLengthChunk_Marshal.
Print Assumptions src_RecvDelta_Unmarshal.
Print Assumptions src_RecvDelta_Marshal.
Print Assumptions src_RecvDelta_Marshal_refuted_without_fits.
Print Assumptions src_CCFeedbackMetricBlock_unmarshal.
Print Assumptions src_CCFeedbackMetricBlock_marshal.
Print Assumptions src_Chunk_Type.
Print Assumptions src_Chunk_RunType.
Print Assumptions src_Chunk_Value.
Print Assumptions src_Header_Marshal_fits.
Print Assumptions src_ReceptionReport_Marshal_fits.
Print Assumptions src_RunLengthChunk_Marshal_fits.
Print Assumptions src_CCFeedbackMetricBlock_marshal_fits.
Print Assumptions src_setNBitsOfUint16_fits.
Print Assumptions RLC_unmarshal_is_RLC.
