(* C09 support: the IMAGE of the feedback decoders (PLI, RRR, NACK, FIR, SLI, CCFB, REMB) on ARBITRARY bytes,
   and decode-encode-decode idempotence whenever the re-encoding succeeds.
   Deviations from the naive statement "the image lies in D_X":
   - NACK / SLI: the entry count is not bounded by 253 in the image; Marshal returns Err beyond it (X_marshal_limit).
   - FIR: the image contains values with NO entry (length field 0 or 16384 passes the wrapped `l4 - 8 <= 0` test);
     Marshal has no limit, re-encodes them to 12 octets, which Unmarshal rejects: FIR_dec_enc_dec needs 1 <= entries
     (exact: FIR_dec_enc_dec_empty, witness FIR_dec_enc_dec_refuted).  The count never exceeds 8190, so the length never wraps.
   - CCFB: a decoded block can hold up to 65535 metric blocks (> 16384) once the input exceeds 32784 octets
     (CCFB_unmarshal_image_limit_refuted); the image is D_CCFB_img = D_CCFB minus that limit.  CCFB_dec_enc_dec is stated for
     inputs up to 262137 octets (re-encoded size <= input + 6 must stay within CCFB_marshal_spec's 262140).
   - REMB: idempotent unless mantissa field = 0 and exponent field >= 58 (finding F16: REMB_dec_enc_dec_zero_refuted);
     mantissa 0 with exponent < 58 decodes to 2^(23+e) = 2^17 * 2^(e+6), which is representable (remb_dec_zero_alt). *)
From RTCP Require Import Proofs.Tactics Proofs.HeaderProofs Proofs.Total2 Proofs.EncFeedback Proofs.EncCcfbRemb
  Model.Header Model.Reports Model.Feedback Model.Ccfb Model.Remb Spec.Enc Spec.Laws.
Local Open Scope N_scope.

(* ---------- shared facts ---------- *)
Lemma get_be4_fits b off x : get_be_at 4 b off = Ok x -> fits 32 x = true.
Proof.
  intros H. apply get_be_at_lt in H. change (256 ^ N.of_nat 4) with 4294967296 in H.
  unfold fits. change (2 ^ 32) with 4294967296. apply N.ltb_lt. exact H.
Qed.
Lemma get_be2_fits b off x : get_be_at 2 b off = Ok x -> fits 16 x = true.
Proof.
  intros H. apply get_be_at_lt in H. change (256 ^ N.of_nat 2) with 65536 in H.
  unfold fits. change (2 ^ 16) with 65536. apply N.ltb_lt. exact H.
Qed.

(* ---------- PLI / RRR: the image is the whole domain ---------- *)
Lemma PLI_unmarshal_image b p : PLI_unmarshal b = Ok p -> D_PLI p = true.
Proof.
  unfold PLI_unmarshal. consts.
  destruct (len b <? 4 + 4 * 2); [discriminate|].
  destruct (Header_unmarshal b) as [h| | |]; cbn [bind]; try discriminate.
  destruct (_ || _); [discriminate|].
  destruct (get_be_at 4 b 4) as [s| | |] eqn:Es; cbn [bind]; try discriminate.
  destruct (get_be_at 4 b (4 + 4)) as [m| | |] eqn:Em; cbn [bind]; try discriminate.
  intros E. injection E as <-. unfold D_PLI. cbn [pli_sender pli_media].
  rewrite (get_be4_fits _ _ _ Es), (get_be4_fits _ _ _ Em). reflexivity.
Qed.

Lemma PLI_dec_enc_dec b p : PLI_unmarshal b = Ok p -> forall b', PLI_marshal p = Ok b' -> PLI_unmarshal b' = Ok p.
Proof.
  intros H b' Hm. apply PLI_unmarshal_image in H. rewrite PLI_marshal_spec in Hm by exact H.
  injection Hm as <-. apply PLI_unmarshal_enc. exact H.
Qed.

Lemma RRR_unmarshal_image b p : RRR_unmarshal b = Ok p -> D_RRR p = true.
Proof.
  unfold RRR_unmarshal. consts.
  destruct (len b <? 4 + 4 * 2); [discriminate|].
  destruct (Header_unmarshal b) as [h| | |]; cbn [bind]; try discriminate.
  destruct (_ || _); [discriminate|].
  destruct (get_be_at 4 b 4) as [s| | |] eqn:Es; cbn [bind]; try discriminate.
  destruct (get_be_at 4 b (4 + 4)) as [m| | |] eqn:Em; cbn [bind]; try discriminate.
  intros E. injection E as <-. unfold D_RRR. cbn [rrr_sender rrr_media].
  rewrite (get_be4_fits _ _ _ Es), (get_be4_fits _ _ _ Em). reflexivity.
Qed.

Lemma RRR_dec_enc_dec b p : RRR_unmarshal b = Ok p -> forall b', RRR_marshal p = Ok b' -> RRR_unmarshal b' = Ok p.
Proof.
  intros H b' Hm. apply RRR_unmarshal_image in H. rewrite RRR_marshal_spec in Hm by exact H.
  injection Hm as <-. apply RRR_unmarshal_enc. exact H.
Qed.

(* ---------- NACK ---------- *)
Lemma nack_read_image raw stop : forall fuel i r, nack_read fuel raw i stop = Ok r ->
  forallb D_pair r = true /\ (i < stop -> 1 <= nl r).
Proof.
  induction fuel as [|f IH]; intros i r E; [discriminate|].
  cbn [nack_read] in E. destruct (N.ltb_spec i stop) as [Hlt|Hge].
  - destruct (get_be_at 2 raw i) as [id| | |] eqn:E1; cbn [bind] in E; try discriminate.
    destruct (get_be_at 2 raw (i + 2)) as [bm| | |] eqn:E2; cbn [bind] in E; try discriminate.
    destruct (nack_read f raw (i + 4) stop) as [r'| | |] eqn:Er; cbn [bind] in E; try discriminate.
    injection E as <-. apply IH in Er as [Hd _]. split.
    + cbn [forallb]. unfold D_pair at 1. cbn [np_id np_bm].
      rewrite (get_be2_fits _ _ _ E1), (get_be2_fits _ _ _ E2), Hd. reflexivity.
    + intros _. unfold nl. cbn [length]. lia.
  - injection E as <-. split; [reflexivity|lia].
Qed.

(* everything in D_NACK except the upper bound 253 on the number of pairs (a 64 KB frame holds up to 16381) *)
Lemma NACK_unmarshal_image b p : NACK_unmarshal b = Ok p ->
  fits 32 (nack_sender p) = true /\ fits 32 (nack_media p) = true /\ 1 <= nl (nack_pairs p)
  /\ forallb D_pair (nack_pairs p) = true.
Proof.
  unfold NACK_unmarshal. consts.
  destruct (N.ltb_spec (len b) (4 + 4)) as [|Hl]; [discriminate|].
  destruct (Header_unmarshal b) as [h| | |]; cbn [bind]; try discriminate.
  set (l4 := u16 (4 * h_len h)) in *.
  destruct (N.ltb_spec (len b) (4 + l4)) as [|Hl4]; [discriminate|].
  destruct (_ || _); [discriminate|].
  destruct (N.leb_spec l4 8) as [|Hoff]; [discriminate|].
  destruct (get_be_at 4 b 4) as [s| | |] eqn:Es; cbn [bind]; try discriminate.
  destruct (get_be_at 4 b (4 + 4)) as [m| | |] eqn:Em; cbn [bind]; try discriminate.
  destruct (nack_read (S (length b)) b (4 + 8) (4 + l4)) as [r| | |] eqn:Er; cbn [bind]; try discriminate.
  intros E. injection E as <-. cbn [nack_sender nack_media nack_pairs].
  apply nack_read_image in Er as [Hd Hn].
  repeat split; [exact (get_be4_fits _ _ _ Es) | exact (get_be4_fits _ _ _ Em) | apply Hn; lia | exact Hd].
Qed.

Lemma NACK_image_D p : fits 32 (nack_sender p) = true -> fits 32 (nack_media p) = true -> 1 <= nl (nack_pairs p) ->
  nl (nack_pairs p) <= 253 -> forallb D_pair (nack_pairs p) = true -> D_NACK p = true.
Proof.
  intros Hs Hm H1 H2 Hd. unfold D_NACK. fold D_pair. rewrite Hs, Hm, Hd.
  destruct (N.leb_spec 1 (nl (nack_pairs p))); [|lia].
  destruct (N.leb_spec (nl (nack_pairs p)) 253); [|lia]. reflexivity.
Qed.

Lemma NACK_dec_enc_dec b p : NACK_unmarshal b = Ok p -> forall b', NACK_marshal p = Ok b' -> NACK_unmarshal b' = Ok p.
Proof.
  intros H b' Hm. apply NACK_unmarshal_image in H as (Hs & Hme & H1 & Hd).
  destruct (N.le_gt_cases (nl (nack_pairs p)) 253) as [Hn|Hn].
  - pose proof (NACK_image_D p Hs Hme H1 Hn Hd) as HD.
    rewrite NACK_marshal_spec in Hm by exact HD. injection Hm as <-. apply NACK_unmarshal_enc. exact HD.
  - rewrite NACK_marshal_limit in Hm by exact Hn. discriminate.
Qed.

(* ---------- SLI (the code's own 205/2 variant) ---------- *)
Lemma land_63 x : N.land x 63 = x mod 64.
Proof. change 63 with (N.ones 6). rewrite N.land_ones. reflexivity. Qed.

Lemma sli_of_word_in_D w : D_slie (sli_of_word w) = true.
Proof.
  unfold D_slie, sli_of_word, fits. cbn [sli_first sli_number sli_picture].
  rewrite !land_8191, land_63. change (2 ^ 13) with 8192. change (2 ^ 6) with 64. unfold u16, u8.
  rewrite !andb_true_iff. repeat split; apply N.ltb_lt; lia.
Qed.

Lemma sli_read_image raw stop : forall fuel i r, sli_read fuel raw i stop = Ok r -> forallb D_slie r = true.
Proof.
  induction fuel as [|f IH]; intros i r E; [discriminate|].
  cbn [sli_read] in E. destruct (i <? stop).
  - destruct (get_be_at 4 raw i) as [w| | |]; cbn [bind] in E; try discriminate.
    destruct (sli_read f raw (i + 4) stop) as [r'| | |] eqn:Er; cbn [bind] in E; try discriminate.
    injection E as <-. cbn [forallb]. rewrite sli_of_word_in_D, (IH _ _ Er). reflexivity.
  - injection E as <-. reflexivity.
Qed.

(* everything in D_SLI except the upper bound 253 on the number of entries *)
Lemma SLI_unmarshal_image b p : SLI_unmarshal b = Ok p ->
  fits 32 (sli_sender p) = true /\ fits 32 (sli_media p) = true /\ forallb D_slie (sli_entries p) = true.
Proof.
  unfold SLI_unmarshal. consts.
  destruct (N.ltb_spec (len b) (4 + 8)) as [|Hl]; [discriminate|].
  destruct (Header_unmarshal b) as [h| | |]; cbn [bind]; try discriminate.
  set (l4 := u16 (4 * h_len h)) in *.
  destruct (N.ltb_spec (len b) (4 + l4)) as [|Hl4]; [discriminate|].
  destruct (_ || _); [discriminate|].
  destruct (get_be_at 4 b 4) as [s| | |] eqn:Es; cbn [bind]; try discriminate.
  destruct (get_be_at 4 b (4 + 4)) as [m| | |] eqn:Em; cbn [bind]; try discriminate.
  destruct (sli_read (S (length b)) b (4 + 8) (4 + l4)) as [r| | |] eqn:Er; cbn [bind]; try discriminate.
  intros E. injection E as <-. cbn [sli_sender sli_media sli_entries].
  apply sli_read_image in Er.
  repeat split; [exact (get_be4_fits _ _ _ Es) | exact (get_be4_fits _ _ _ Em) | exact Er].
Qed.

Lemma SLI_image_D p : fits 32 (sli_sender p) = true -> fits 32 (sli_media p) = true ->
  nl (sli_entries p) <= 253 -> forallb D_slie (sli_entries p) = true -> D_SLI p = true.
Proof.
  intros Hs Hm H2 Hd. unfold D_SLI. fold D_slie. rewrite Hs, Hm, Hd.
  destruct (N.leb_spec (nl (sli_entries p)) 253); [|lia]. reflexivity.
Qed.

Lemma SLI_dec_enc_dec b p : SLI_unmarshal b = Ok p -> forall b', SLI_marshal p = Ok b' -> SLI_unmarshal b' = Ok p.
Proof.
  intros H b' Hm. apply SLI_unmarshal_image in H as (Hs & Hme & Hd).
  destruct (N.le_gt_cases (nl (sli_entries p)) 253) as [Hn|Hn].
  - pose proof (SLI_image_D p Hs Hme Hn Hd) as HD.
    rewrite SLI_marshal_pion in Hm by exact HD. injection Hm as <-. apply SLI_unmarshal_pion. exact HD.
  - rewrite SLI_marshal_limit in Hm by exact Hn. discriminate.
Qed.

(* ---------- FIR ---------- *)
Lemma fir_read_image raw stop : forall fuel i r, fir_read fuel raw i stop = Ok r ->
  forallb D_fir r = true /\ (i < stop -> 1 <= nl r).
Proof.
  induction fuel as [|f IH]; intros i r E; [discriminate|].
  cbn [fir_read] in E. destruct (N.ltb_spec i stop) as [Hlt|Hge].
  - destruct (get_be_at 4 raw i) as [s| | |] eqn:E1; cbn [bind] in E; try discriminate.
    destruct (idx raw (i + 4)) as [q| | |]; cbn [bind] in E; try discriminate.
    destruct (fir_read f raw (i + 8) stop) as [r'| | |] eqn:Er; cbn [bind] in E; try discriminate.
    injection E as <-. apply IH in Er as [Hd _]. split.
    + cbn [forallb]. unfold D_fir at 1. cbn [fir_ssrc fir_seq].
      rewrite (get_be4_fits _ _ _ E1), Hd. unfold fits. change (2 ^ 8) with 256.
      pose proof (b2n_lt q) as Hq. destruct (N.ltb_spec (b2n q) 256); [reflexivity|lia].
    + intros _. unfold nl. cbn [length]. lia.
  - injection E as <-. split; [reflexivity|lia].
Qed.

(* The decoded entry count is 0 (length field 0 or 16384: u16 (4 * length) = 0 passes the `l4 - 8 <= 0` test by
   wrap-around) or lies in 1..8190; all fields fit.  D_FIR's bounds 1 <= n <= 8000 are NOT implied: n = 0 is possible. *)
Lemma FIR_unmarshal_image b p : FIR_unmarshal b = Ok p ->
  fits 32 (fir_sender p) = true /\ fits 32 (fir_media p) = true /\ nl (fir_entries p) <= 8190
  /\ forallb D_fir (fir_entries p) = true.
Proof.
  unfold FIR_unmarshal. consts.
  destruct (N.ltb_spec (len b) (4 + 8)) as [|Hl]; [discriminate|].
  destruct (Header_unmarshal b) as [h| | |]; cbn [bind]; try discriminate.
  pose proof (u16_lt (4 * h_len h)) as Hlt.
  set (l4 := u16 (4 * h_len h)) in *.
  destruct (N.ltb_spec (len b) (4 + l4)) as [|Hl4]; [discriminate|].
  destruct (_ || _); [discriminate|].
  destruct (sub16 l4 8 <=? 0); cbn [orb]; [discriminate|].
  destruct (N.eqb_spec (l4 mod 8) 0) as [Hm8|]; cbn [negb]; [|discriminate].
  destruct (get_be_at 4 b 4) as [s| | |] eqn:Es; cbn [bind]; try discriminate.
  destruct (get_be_at 4 b (4 + 4)) as [m| | |] eqn:Em; cbn [bind]; try discriminate.
  destruct (fir_read (S (length b)) b (4 + 8) (4 + l4)) as [r| | |] eqn:Er; cbn [bind]; try discriminate.
  intros E. injection E as <-. cbn [fir_sender fir_media fir_entries].
  assert (Hc : 8 * nlen r <= 4 + l4 - (4 + 8)) by (apply (fir_read_count b (4 + l4) ltac:(lia) (S (length b)) (4 + 8) r ltac:(lia) Er)).
  unfold nlen in Hc.
  apply fir_read_image in Er as [Hd _].
  repeat split; [exact (get_be4_fits _ _ _ Es) | exact (get_be4_fits _ _ _ Em) | unfold nl; lia | exact Hd].
Qed.

(* Marshal = RFC layout and decode (enc p) = p on the wider count range 1..8190 (D_FIR stops at 8000) *)
Lemma FIR_marshal_wide p : nl (fir_entries p) <= 8190 -> FIR_marshal p = Ok (enc_FIR p).
Proof.
  intros Hn.
  rewrite enc_FIR_fb. unfold FIR_marshal, FIR_header, FIR_size, nlen, nl in *. consts. fold enc_fir.
  set (n := N.of_nat (length (fir_entries p))) in *.
  replace (u16 ((4 + 8 + n * 8) / 4 - 1)) with ((12 + 8 * n) / 4 - 1) by (unfold u16; lia).
  rewrite Header_marshal_spec by lia. cbn [bind]. reflexivity.
Qed.

Lemma FIR_unmarshal_enc_wide p : fits 32 (fir_sender p) = true -> fits 32 (fir_media p) = true ->
  1 <= nl (fir_entries p) -> nl (fir_entries p) <= 8190 -> forallb D_fir (fir_entries p) = true ->
  FIR_unmarshal (enc_FIR p) = Ok p.
Proof.
  intros Hs Hm Hn1 Hn Hd.
  rewrite enc_FIR_fb. unfold FIR_unmarshal. consts.
  rewrite len_fb, (len_concat_const enc_fir 8) by apply len_enc_fir.
  set (n := nl (fir_entries p)) in *.
  destruct (N.ltb_spec (12 + 8 * n) (4 + 8)) as [A|_]; [lia|].
  rewrite fb_header by lia. cbn [bind h_type h_count h_len].
  replace (u16 (4 * ((12 + 8 * n) / 4 - 1))) with (8 + 8 * n) by (unfold u16; lia).
  destruct (N.ltb_spec (12 + 8 * n) (4 + (8 + 8 * n))) as [A|_]; [lia|].
  change (negb (206 =? 206) || negb (4 =? 4)) with false. cbv iota.
  replace (sub16 (8 + 8 * n) 8) with (8 * n) by (unfold sub16; lia).
  destruct (N.leb_spec (8 * n) 0) as [A|_]; [lia|].
  destruct (N.eqb_spec ((8 + 8 * n) mod 8) 0) as [_|A]; [|lia].
  cbn [orb negb].
  rewrite fb_sender by exact Hs. cbn [bind].
  change (4 + 4) with 8. rewrite fb_media by exact Hm. cbn [bind].
  unfold fb. rewrite (app_assoc (hdr _ _ _ _)), (app_assoc (_ ++ _) (be 4 (fir_media p))).
  set (pre := (hdr false 4 206 ((12 + 8 * n) / 4 - 1) ++ be 4 (fir_sender p)) ++ be 4 (fir_media p)).
  assert (Hpre : len pre = 12) by (unfold pre; rewrite !len_app, !len_be, len_hdr; reflexivity).
  replace (4 + 8) with (len pre) by exact Hpre.
  replace (4 + (8 + 8 * n)) with (len pre + 8 * nl (fir_entries p)) by (rewrite Hpre; fold n; lia).
  rewrite fir_read_enc.
  - cbn [bind]. destruct p; reflexivity.
  - exact Hd.
  - pose proof (len_concat_const enc_fir 8 (fir_entries p) len_enc_fir) as Hc. unfold len, nl in Hc.
    rewrite app_length. lia.
Qed.

(* FIR.Marshal has no count limit, but every decoded value has at most 8190 entries, for which the length field does
   not wrap.  The exact condition for idempotence is: at least one entry. *)
Lemma FIR_dec_enc_dec b p : FIR_unmarshal b = Ok p -> 1 <= nl (fir_entries p) ->
  forall b', FIR_marshal p = Ok b' -> FIR_unmarshal b' = Ok p.
Proof.
  intros H H1 b' Hm. apply FIR_unmarshal_image in H as (Hs & Hme & Hn & Hd).
  rewrite FIR_marshal_wide in Hm by exact Hn. injection Hm as <-.
  apply FIR_unmarshal_enc_wide; assumption.
Qed.

(* ... and with no entry the re-encoding (12 octets, length field 2) is always rejected: sub16 8 8 = 0 *)
Lemma FIR_dec_enc_dec_empty p : fir_entries p = [] -> fits 32 (fir_sender p) = true -> fits 32 (fir_media p) = true ->
  forall b', FIR_marshal p = Ok b' -> FIR_unmarshal b' = Err.
Proof.
  intros He Hs Hme b' Hm. rewrite FIR_marshal_wide in Hm by (rewrite He; unfold nl; cbn [length]; lia).
  injection Hm as <-. rewrite enc_FIR_fb, He. change (nl (@nil FIREntry)) with 0.
  change ((12 + 8 * 0) / 4 - 1) with 2. cbn [map List.concat].
  unfold FIR_unmarshal. consts. rewrite len_fb, len_nil.
  destruct (N.ltb_spec (12 + 0) (4 + 8)) as [A|_]; [lia|].
  rewrite fb_header by lia. cbn [bind h_type h_count h_len].
  change (u16 (4 * 2)) with 8.
  destruct (N.ltb_spec (12 + 0) (4 + 8)) as [A|_]; [lia|].
  change (negb (206 =? 206) || negb (4 =? 4)) with false. cbv iota.
  change (sub16 8 8 <=? 0) with true. reflexivity.
Qed.

Lemma FIR_dec_enc_dec_refuted :
  exists b p b', FIR_unmarshal b = Ok p /\ FIR_marshal p = Ok b' /\ FIR_unmarshal b' = Err.
Proof.
  exists [n2b 132; n2b 206; x00; x00; x00; x00; x00; x01; x00; x00; x00; x02].
  eexists. eexists. split; [vm_compute; reflexivity|]. split; vm_compute; reflexivity.
Qed.

(* ---------- CCFB ---------- *)
(* D_ccblock without the Marshal-side limit of 16384 metric blocks: a decoded block can hold up to 65535 of them
   (a 128 KB input); CCBlock_marshal then returns Err (CCBlock_marshal_limit). *)
Definition D_ccblock_img (b : CCBlock) : bool :=
  let n := nl (cb_metrics b) in
  fits 32 (cb_ssrc b) && fits 16 (cb_begin b) && negb (n =? 1) && ((n =? 0) || (cb_begin b + n - 1 <=? 65535))
  && forallb D_metric (cb_metrics b).
Definition D_CCFB_img (p : CCFB) : bool := fits 32 (cc_sender p) && fits 32 (cc_timestamp p) && forallb D_ccblock_img (cc_blocks p).

Lemma D_ccblock_of_img b : D_ccblock_img b = true -> nl (cb_metrics b) <= 16384 -> D_ccblock b = true.
Proof.
  unfold D_ccblock_img, D_ccblock. cbv zeta. rewrite !andb_true_iff. intros ((((H1 & H2) & H3) & H4) & H5) Hn.
  repeat split; try assumption. apply N.leb_le. exact Hn.
Qed.

Lemma D_ccblock_to_img b : D_ccblock b = true -> D_ccblock_img b = true.
Proof.
  unfold D_ccblock_img, D_ccblock. cbv zeta. rewrite !andb_true_iff. intros (((((H1 & H2) & H3) & H4) & H5) & H6).
  repeat split; assumption.
Qed.

Lemma get_metrics_image : forall k rest ms, get_metrics k rest = Ok ms -> forallb D_metric ms = true.
Proof.
  induction k as [|k IH]; intros rest ms E; cbn [get_metrics] in E.
  - injection E as <-. reflexivity.
  - destruct rest as [|b0 [|b1 rest']]; try discriminate.
    destruct (CCMetric_unmarshal [b0; b1]) as [m| | |] eqn:Em; cbn [bind] in E; try discriminate.
    destruct (get_metrics k rest') as [r| | |] eqn:Er; cbn [bind] in E; try discriminate.
    injection E as <-. cbn [forallb]. rewrite (CCMetric_unmarshal_in_D _ _ _ Em), (IH _ _ Er). reflexivity.
Qed.

(* every decoded report block: fields fit, metric blocks canonical, never exactly one metric block, never a wrapping range *)
Lemma CCBlock_unmarshal_image raw blk : CCBlock_unmarshal raw = Ok blk -> D_ccblock_img blk = true.
Proof.
  unfold CCBlock_unmarshal. consts.
  destruct (len raw <? 8); [discriminate|].
  destruct (get_be_at 4 raw 0) as [ssrc| | |] eqn:E1; cbn [bind]; try discriminate.
  destruct (get_be_at 2 raw 4) as [bs| | |] eqn:E2; cbn [bind]; try discriminate.
  destruct (get_be_at 2 raw 6) as [nrf| | |] eqn:E3; cbn [bind]; try discriminate.
  pose proof (get_be4_fits _ _ _ E1) as F1. pose proof (get_be2_fits _ _ _ E2) as F2.
  apply get_be_at_lt in E2, E3. change (256 ^ N.of_nat 2) with 65536 in E2, E3.
  destruct (N.eqb_spec nrf 0) as [Z|NZ].
  { intros E. injection E as <-. unfold D_ccblock_img. cbn [cb_ssrc cb_begin cb_metrics]. rewrite F1, F2. reflexivity. }
  destruct (N.ltb_spec 65535 (bs + nrf)) as [|Hw]; [discriminate|].
  set (nr := u16 (u16 (sub16 (u16 (bs + nrf)) bs) + 1)).
  assert (Hnr : nr = (nrf + 1) mod 65536) by (unfold nr, u16, sub16; lia).
  destruct (len raw <? 8 + nr * 2); [discriminate|].
  destruct (get_metrics (N.to_nat nr) (skipn (N.to_nat 8) raw)) as [ms| | |] eqn:Em; cbn [bind]; try discriminate.
  intros E. injection E as <-. unfold D_ccblock_img. cbn [cb_ssrc cb_begin cb_metrics]. rewrite F1, F2.
  rewrite (get_metrics_image _ _ _ Em). apply get_metrics_count in Em.
  assert (Hn : nl ms = nr) by (unfold nl; lia). rewrite Hn.
  destruct (N.eqb_spec nr 1) as [A|_]; [exfalso; lia|].
  destruct (N.eqb_spec nr 0) as [_|NZ']; [reflexivity|].
  destruct (N.leb_spec (bs + nr - 1) 65535) as [_|A]; [reflexivity|exfalso; lia].
Qed.

Lemma blocks_loop_image raw stop : forall fuel off bs, blocks_loop fuel raw off stop = Ok bs ->
  forallb D_ccblock_img bs = true.
Proof.
  induction fuel as [|f IH]; intros off bs E; [discriminate|].
  cbn [blocks_loop] in E. destruct (off <? stop).
  - destruct (slice_from raw off) as [sub| | |]; cbn [bind] in E; try discriminate.
    destruct (CCBlock_unmarshal sub) as [blk| | |] eqn:Eb; cbn [bind] in E; try discriminate.
    destruct (blocks_loop f raw (off + CCBlock_len blk) stop) as [r| | |] eqn:Er; cbn [bind] in E; try discriminate.
    injection E as <-. cbn [forallb]. rewrite (CCBlock_unmarshal_image _ _ Eb), (IH _ _ Er). reflexivity.
  - injection E as <-. reflexivity.
Qed.

(* the decoded blocks re-encode into at most two octets more than the input held (an odd last block is padded) *)
Lemma blocks_loop_size raw stop : stop <= len raw -> forall fuel off bs, blocks_loop fuel raw off stop = Ok bs ->
  bs = [] \/ off + blocks_len bs <= len raw + 2.
Proof.
  intros Hs. induction fuel as [|f IH]; intros off bs E; [discriminate|].
  cbn [blocks_loop] in E. destruct (N.ltb_spec off stop) as [Hlt|Hge].
  - rewrite slice_from_ok in E by lia. cbn [bind] in E.
    destruct (CCBlock_unmarshal (skipn (N.to_nat off) raw)) as [blk| | |] eqn:Eb; cbn [bind] in E; try discriminate.
    destruct (blocks_loop f raw (off + CCBlock_len blk) stop) as [r| | |] eqn:Er; cbn [bind] in E; try discriminate.
    injection E as <-. right. cbn [blocks_len fold_right]. fold (blocks_len r).
    apply CCBlock_unmarshal_alloc in Eb. rewrite len_skipn in Eb. unfold nlen in Eb. fold (nl (cb_metrics blk)) in Eb.
    pose proof (CCBlock_len_nl blk) as HL.
    destruct (IH _ _ Er) as [->|Hr].
    + cbn [blocks_len fold_right]. lia.
    + lia.
  - injection E as <-. left. reflexivity.
Qed.

Lemma CCFB_unmarshal_image b p : CCFB_unmarshal b = Ok p -> D_CCFB_img p = true /\ CCFB_size p <= len b + 6.
Proof.
  unfold CCFB_unmarshal. consts.
  destruct (N.ltb_spec (len b) (4 + 4 + 4)) as [|Hl]; [discriminate|].
  destruct (Header_unmarshal b) as [h| | |]; cbn [bind]; try discriminate.
  destruct (negb _); [discriminate|].
  destruct (get_be_at 4 b 4) as [s| | |] eqn:Es; cbn [bind]; try discriminate.
  destruct (get_be_at 4 b (len b - 4)) as [ts| | |] eqn:Et; cbn [bind]; try discriminate.
  destruct (blocks_loop (S (length b)) b 8 (len b - 4)) as [bs| | |] eqn:Eb; cbn [bind]; try discriminate.
  intros E. injection E as <-. split.
  - unfold D_CCFB_img. cbn [cc_sender cc_timestamp cc_blocks].
    rewrite (get_be4_fits _ _ _ Es), (get_be4_fits _ _ _ Et), (blocks_loop_image _ _ _ _ _ Eb). reflexivity.
  - rewrite CCFB_size_blocks. cbn [cc_blocks].
    destruct (blocks_loop_size b (len b - 4) ltac:(lia) _ _ _ Eb) as [->|Hr]; [cbn [blocks_len fold_right]|]; lia.
Qed.

(* for inputs up to 32784 octets (any UDP datagram half the maximum size) the limit holds as well: the image is inside D_CCFB *)
Lemma blocks_loop_small raw stop : stop <= len raw -> len raw <= 32784 -> forall fuel off bs, 8 <= off ->
  blocks_loop fuel raw off stop = Ok bs -> forallb (fun blk => nl (cb_metrics blk) <=? 16384) bs = true.
Proof.
  intros Hs Hsmall. induction fuel as [|f IH]; intros off bs Hoff E; [discriminate|].
  cbn [blocks_loop] in E. destruct (N.ltb_spec off stop) as [Hlt|Hge].
  - rewrite slice_from_ok in E by lia. cbn [bind] in E.
    destruct (CCBlock_unmarshal (skipn (N.to_nat off) raw)) as [blk| | |] eqn:Eb; cbn [bind] in E; try discriminate.
    destruct (blocks_loop f raw (off + CCBlock_len blk) stop) as [r| | |] eqn:Er; cbn [bind] in E; try discriminate.
    injection E as <-. cbn [forallb]. rewrite (IH (off + CCBlock_len blk) r ltac:(lia) Er).
    apply CCBlock_unmarshal_alloc in Eb. rewrite len_skipn in Eb. unfold nlen in Eb. fold (nl (cb_metrics blk)) in Eb.
    destruct (N.leb_spec (nl (cb_metrics blk)) 16384); [reflexivity|lia].
  - injection E as <-. reflexivity.
Qed.

Lemma forallb_and {A} (f g : A -> bool) l : forallb f l = true -> forallb g l = true -> forallb (fun x => f x && g x) l = true.
Proof. induction l as [|x r IH]; [reflexivity|]. cbn [forallb]. rewrite !andb_true_iff. intros [? ?] [? ?]. auto. Qed.

Lemma D_ccblocks_of_img bs : forallb D_ccblock_img bs = true -> forallb (fun blk => nl (cb_metrics blk) <=? 16384) bs = true ->
  forallb D_ccblock bs = true.
Proof.
  induction bs as [|x r IH]; [reflexivity|]. cbn [forallb]. rewrite !andb_true_iff. intros [H1 H2] [H3 H4].
  split; [apply D_ccblock_of_img; [exact H1 | apply N.leb_le; exact H3] | apply IH; assumption].
Qed.

Lemma CCFB_unmarshal_image_small b p : CCFB_unmarshal b = Ok p -> len b <= 32784 -> D_CCFB p = true.
Proof.
  intros H Hsmall. pose proof (CCFB_unmarshal_image b p H) as [HI _].
  unfold D_CCFB_img in HI. apply andb_true_iff in HI as [HI HB]. unfold D_CCFB. rewrite HI. cbn [andb].
  apply D_ccblocks_of_img; [exact HB|]. revert H.
  unfold CCFB_unmarshal. consts.
  destruct (N.ltb_spec (len b) (4 + 4 + 4)) as [|Hl]; [discriminate|].
  destruct (Header_unmarshal b) as [h| | |]; cbn [bind]; try discriminate.
  destruct (negb _); [discriminate|].
  destruct (get_be_at 4 b 4) as [s| | |] eqn:Es; cbn [bind]; try discriminate.
  destruct (get_be_at 4 b (len b - 4)) as [ts| | |] eqn:Et; cbn [bind]; try discriminate.
  destruct (blocks_loop (S (length b)) b 8 (len b - 4)) as [bs| | |] eqn:Eb; cbn [bind]; try discriminate.
  intros E. injection E as <-. cbn [cc_blocks].
  apply (blocks_loop_small b (len b - 4) ltac:(lia) Hsmall _ 8 _ ltac:(lia) Eb).
Qed.

(* Marshal succeeds only if every block is within the limit *)
Lemma put_blocks_ok_limit bs : forall buf off r, put_blocks buf off bs = Ok r ->
  forallb (fun blk => nl (cb_metrics blk) <=? 16384) bs = true.
Proof.
  induction bs as [|x l IH]; intros buf off r E; [reflexivity|].
  cbn [put_blocks] in E. cbn [forallb].
  destruct (N.leb_spec (nl (cb_metrics x)) 16384) as [_|Hgt].
  - destruct (CCBlock_marshal x) as [d| | |]; cbn [bind] in E; try discriminate.
    destruct (copy_at buf off d) as [buf'| | |]; cbn [bind] in E; try discriminate.
    apply IH in E. exact E.
  - rewrite CCBlock_marshal_limit in E by exact Hgt. discriminate.
Qed.

Lemma CCFB_marshal_ok_limit p b' : CCFB_marshal p = Ok b' ->
  forallb (fun blk => nl (cb_metrics blk) <=? 16384) (cc_blocks p) = true.
Proof.
  unfold CCFB_marshal.
  destruct (Header_marshal (CCFB_header p)) as [hb| | |]; cbn [bind]; try discriminate.
  destruct (slice _ 0 c_headerLength) as [hd| | |]; cbn [bind]; try discriminate.
  destruct (copy_at _ 0 hb) as [b1| | |]; cbn [bind]; try discriminate.
  destruct (put_be_at 4 b1 c_headerLength (cc_sender p)) as [b2| | |]; cbn [bind]; try discriminate.
  destruct (put_blocks b2 c_reportBlockOffset (cc_blocks p)) as [[b3 off]| | |] eqn:Ep; cbn [bind]; try discriminate.
  intros _. exact (put_blocks_ok_limit _ _ _ _ Ep).
Qed.

Lemma CCFB_dec_enc_dec b p : CCFB_unmarshal b = Ok p -> len b <= 262137 ->
  forall b', CCFB_marshal p = Ok b' -> CCFB_unmarshal b' = Ok p.
Proof.
  intros H Hlen b' Hm. apply CCFB_unmarshal_image in H as [HI Hsz].
  pose proof (CCFB_marshal_ok_limit _ _ Hm) as HL.
  assert (HD : D_CCFB p = true).
  { unfold D_CCFB_img in HI. apply andb_true_iff in HI as [HI HB]. unfold D_CCFB. rewrite HI. cbn [andb].
    apply D_ccblocks_of_img; assumption. }
  assert (Hsize : CCFB_size p <= 262140).
  { pose proof (blocks_len_mod4 (cc_blocks p)) as M4. rewrite CCFB_size_blocks in *. lia. }
  rewrite CCFB_marshal_spec in Hm by assumption. injection Hm as <-. apply CCFB_unmarshal_enc; assumption.
Qed.

(* the limit really can fail within the 262140-octet bound: one block announcing 16385 metric blocks (32790 octets of input);
   the decoded value is in the image domain, outside D_CCFB, and Marshal refuses it *)
Definition ccfb_big_packet : bytes :=
  [n2b 139; n2b 205; x00; x00] ++ be 4 1 ++ (be 4 2 ++ be 2 0 ++ be 2 16384 ++ zeros 32770) ++ be 4 3.

Lemma CCFB_unmarshal_image_limit_refuted :
  exists b, len b = 32790 /\
    match CCFB_unmarshal b with
    | Ok p => D_CCFB_img p = true /\ D_CCFB p = false /\ CCFB_marshal p = Err
    | _ => False
    end.
Proof. exists ccfb_big_packet. split; [vm_compute; reflexivity|]. vm_compute. repeat split; reflexivity. Qed.

(* ---------- REMB ---------- *)
Definition remb_exp_field (b : bytes) : N := b2n (nth 17 b x00) / 4.
Definition remb_mant_field (b : bytes) : N :=
  (b2n (nth 17 b x00) mod 4) * 65536 + b2n (nth 18 b x00) * 256 + b2n (nth 19 b x00).

Lemma remb_ssrcs_read_image raw size : forall fuel n r, remb_ssrcs_read fuel raw n size = Ok r -> forallb (fits 32) r = true.
Proof.
  induction fuel as [|f IH]; intros n r E; [discriminate|].
  cbn [remb_ssrcs_read] in E. destruct (n <? size).
  - destruct (slice raw n (n + 4)) as [sb| | |]; cbn [bind] in E; try discriminate.
    destruct (get_be_at 4 sb 0) as [s| | |] eqn:Es; cbn [bind] in E; try discriminate.
    destruct (remb_ssrcs_read f raw (n + 4) size) as [r'| | |] eqn:Er; cbn [bind] in E; try discriminate.
    injection E as <-. cbn [forallb]. rewrite (get_be4_fits _ _ _ Es), (IH _ _ Er). reflexivity.
  - injection E as <-. reflexivity.
Qed.

Lemma REMB_unmarshal_fields b p : REMB_unmarshal b = Ok p ->
  fits 32 (remb_sender p) = true /\ nl (remb_ssrcs p) <= 255 /\ forallb (fits 32) (remb_ssrcs p) = true /\
  remb_exp_field b < 64 /\ remb_mant_field b < 262144 /\
  remb_bitrate p = Z.to_N (remb_dec (Z.of_N (remb_exp_field b)) (Z.of_N (remb_mant_field b))).
Proof.
  unfold REMB_unmarshal.
  destruct (N.ltb_spec (len b) 20) as [|Hl]; [discriminate|].
  rewrite (idx_ok b 0) by lia. cbn [bind].
  destruct (negb _); [discriminate|]. destruct (negb _); [discriminate|]. destruct (negb _); [discriminate|].
  rewrite (idx_ok b 1) by lia. cbn [bind].
  destruct (negb _); [discriminate|].
  destruct (get_be_at 2 b 2) as [lf| | |]; cbn [bind]; try discriminate.
  pose proof (remb_size_mod4 lf) as Hm.
  set (size := u16 (u16 (lf + 1) * 4)) in *.
  destruct (N.ltb_spec size 20) as [|Hs20]; [discriminate|].
  destruct (N.ltb_spec (len b) size) as [|Hsz]; [discriminate|].
  destruct (get_be_at 4 b 4) as [s| | |] eqn:Es; cbn [bind]; try discriminate.
  destruct (get_be_at 4 b 8); cbn [bind]; try discriminate.
  destruct (negb _); [discriminate|].
  destruct (slice b 12 16); cbn [bind]; try discriminate.
  destruct (negb _); [discriminate|].
  rewrite (idx_ok b 16) by lia. cbn [bind]. cbv zeta.
  destruct (N.eqb_spec size (20 + 4 * b2n (nth (N.to_nat 16) b x00))) as [Hnum|]; cbn [negb]; [|discriminate].
  rewrite (idx_ok b 17), (idx_ok b 18), (idx_ok b 19) by lia. cbn [bind].
  destruct (remb_ssrcs_read (S (length b)) b 20 size) as [r| | |] eqn:Er; cbn [bind]; try discriminate.
  intros E. injection E as <-. cbn [remb_sender remb_bitrate remb_ssrcs].
  change (Pos.to_nat 17) with 17%nat. change (Pos.to_nat 18) with 18%nat. change (Pos.to_nat 19) with 19%nat.
  pose proof (b2n_lt (nth (N.to_nat 16) b x00)) as H16.
  pose proof (b2n_lt (nth 17 b x00)) as H17. pose proof (b2n_lt (nth 18 b x00)) as H18. pose proof (b2n_lt (nth 19 b x00)) as H19.
  assert (Em : N.lor (N.lor (N.land (b2n (nth 17 b x00)) 3 * 65536) (b2n (nth 18 b x00) * 256)) (b2n (nth 19 b x00))
               = remb_mant_field b).
  { unfold remb_mant_field. rewrite land_3.
    rewrite (lor_disjoint_add (b2n (nth 17 b x00) mod 4 * 65536) (b2n (nth 18 b x00) * 256) 16)
      by (change (2 ^ 16) with 65536; lia).
    rewrite (lor_disjoint_add _ (b2n (nth 19 b x00)) 8) by (change (2 ^ 8) with 256; lia). reflexivity. }
  rewrite Em. fold (remb_exp_field b).
  pose proof (remb_ssrcs_read_count b size Hm (S (length b)) 20 r eq_refl Er) as Hc. unfold nlen in Hc.
  split; [exact (get_be4_fits _ _ _ Es)|]. split; [unfold nl; lia|].
  split; [exact (remb_ssrcs_read_image _ _ _ _ _ Er)|].
  split; [unfold remb_exp_field; lia|]. split; [unfold remb_mant_field; lia|]. reflexivity.
Qed.

Local Open Scope Z_scope.
(* two (mantissa, exponent) pairs of the same value have the same float32 bit pattern *)
Lemma f32_bits_exact_same m e m' e' : 0 < m < 2 ^ 24 -> 0 < m' < 2 ^ 24 -> 0 <= e -> 0 <= e' ->
  m * 2 ^ e = m' * 2 ^ e' -> f32_bits_exact m e = f32_bits_exact m' e'.
Proof.
  intros Hm Hm' He He' H. unfold f32_bits_exact.
  destruct (Z.eqb_spec m 0) as [A|_]; [lia|]. destruct (Z.eqb_spec m' 0) as [A|_]; [lia|]. cbv zeta.
  assert (HL : Z.log2 m + e = Z.log2 m' + e').
  { pose proof (Z.log2_mul_pow2 m e ltac:(lia) He) as Q1. pose proof (Z.log2_mul_pow2 m' e' ltac:(lia) He') as Q2.
    rewrite H in Q1. lia. }
  assert (L1 : Z.log2 m < 24) by (apply Z.log2_lt_pow2; lia).
  assert (L2 : Z.log2 m' < 24) by (apply Z.log2_lt_pow2; lia).
  remember (23 - Z.log2 m) as k eqn:Hk. remember (23 - Z.log2 m') as k' eqn:Hk'.
  assert (HM : m * 2 ^ k = m' * 2 ^ k').
  { apply (Z.mul_reg_r _ _ (2 ^ e * 2 ^ e')).
    - pose proof (pow2_pos e He) as P1. pose proof (pow2_pos e' He') as P2.
      pose proof (Z.mul_pos_pos _ _ P1 P2). lia.
    - transitivity ((m * 2 ^ e) * (2 ^ k * 2 ^ e')); [ring|]. rewrite H.
      replace (2 ^ k * 2 ^ e') with (2 ^ k' * 2 ^ e) by (rewrite <- !Z.pow_add_r by lia; f_equal; lia). ring. }
  rewrite HM. f_equal. f_equal. lia.
Qed.

(* the bit pattern decoded from a non-zero mantissa: a finite float32 below 2^31, whose integer part is m * 2^e exactly *)
Lemma remb_dec_props e m : 0 <= e < 64 -> 0 < m < 2 ^ 18 ->
  (Z.to_N (remb_dec e m) < 4294967296)%N /\ remb_floor (Z.to_N (remb_dec e m)) = Some (m * 2 ^ e)
  /\ exists v, remb_value (Z.to_N (remb_dec e m)) = Some v.
Proof.
  intros He Hm. destruct (remb_decode_exact e m He Hm) as (m0 & e0 & HV & _ & HF).
  destruct (remb_decode_bits e m He Hm) as (k & _ & Hk & HM & HD & _).
  split; [|split; [exact HF | eexists; exact HV]].
  rewrite HD. change (2 ^ 23) with 8388608 in *. change (2 ^ 24) with 16777216 in *. lia.
Qed.

(* F16 seen from the decoder: mantissa 0 with exponent below 58 yields 2^(23+e), which IS representable: as 2^17 * 2^(e+6) *)
Lemma remb_dec_zero_alt e : 0 <= e < 58 -> remb_dec e 0 = remb_dec (e + 6) (2 ^ 17).
Proof.
  intros He. rewrite (remb_dec_bits_exact (e + 6) (2 ^ 17)) by (change (2 ^ 17) with 131072; change (2 ^ 18) with 262144; lia).
  unfold f32_bits_exact. change (2 ^ 17 =? 0) with false. cbv iota zeta.
  change (Z.log2 (2 ^ 17)) with 17. change (23 - 17) with 6. change (2 ^ 17 * 2 ^ 6 - 2 ^ 23) with 0.
  unfold remb_dec. replace ((e + 127 + 23) mod 256) with (e + 150) by lia.
  change (0 =? 0) with true. cbv iota. change (0 mod 2 ^ 23) with 0.
  change (2 ^ 23) with 8388608. change (2 ^ 32) with 4294967296. lia.
Qed.
Local Open Scope N_scope.

(* idempotence for every value whose bitrate is the decoding of a pair with a NON-ZERO mantissa *)
Lemma REMB_reencode_stable p e m : fits 32 (remb_sender p) = true -> nl (remb_ssrcs p) <= 255 ->
  forallb (fits 32) (remb_ssrcs p) = true -> (0 <= e < 64)%Z -> (0 < m < 2 ^ 18)%Z ->
  remb_bitrate p = Z.to_N (remb_dec e m) ->
  forall b', REMB_marshal p = Ok b' -> REMB_unmarshal b' = Ok p.
Proof.
  intros Hs Hn Hss He Hm Hb b' Hmar.
  destruct (remb_dec_props e m He Hm) as (Hlt & HF & v & HV).
  assert (HD : D_REMB p = true).
  { unfold D_REMB. rewrite Hs, Hss, Hb, HV. destruct (N.leb_spec (nl (remb_ssrcs p)) 255); [|lia].
    unfold fits. change (2 ^ 32) with 4294967296. destruct (N.ltb_spec (Z.to_N (remb_dec e m)) 4294967296); [reflexivity|lia]. }
  assert (HP : (0 < 2 ^ e)%Z) by (apply pow2_pos; lia).
  assert (H1 : (1 <= m * 2 ^ e)%Z) by lia.
  rewrite REMB_marshal_spec in Hmar by exact HD. injection Hmar as <-.
  rewrite REMB_unmarshal_enc; [| exact HD | intros x Hx; rewrite Hb, HF in Hx; injection Hx as <-; exact H1 ].
  f_equal. unfold q_REMB. rewrite Hb at 1. rewrite HF.
  pose proof (remb_ref_bounds (m * 2 ^ e)%Z ltac:(lia)) as [B1 B2].
  pose proof (remb_ref_mant_pos _ H1) as B3.
  pose proof (remb_ref_exact m e ltac:(lia) He) as B4. unfold rval in B4.
  destruct (remb_ref (m * 2 ^ e)%Z) as [e' m']. cbn [fst snd] in *.
  destruct p as [s br ss]. cbn [remb_sender remb_bitrate remb_ssrcs] in *. f_equal.
  rewrite Hb, (remb_dec_bits_exact e m He Hm). f_equal.
  change (2 ^ 18)%Z with 262144%Z in *.
  apply f32_bits_exact_same; change (2 ^ 24)%Z with 16777216%Z; lia.
Qed.

(* the image, in the brief's form (the witnesses are the two wire fields) *)
Lemma REMB_unmarshal_image b p : REMB_unmarshal b = Ok p ->
  fits 32 (remb_sender p) = true /\ nl (remb_ssrcs p) <= 255 /\ forallb (fits 32) (remb_ssrcs p) = true /\
  exists e m, (0 <= e < 64)%Z /\ (0 <= m < 2 ^ 18)%Z /\ remb_bitrate p = Z.to_N (remb_dec e m).
Proof.
  intros H. apply REMB_unmarshal_fields in H as (Hs & Hn & Hss & He & Hm & Hb).
  repeat split; try assumption.
  exists (Z.of_N (remb_exp_field b)), (Z.of_N (remb_mant_field b)).
  change (2 ^ 18)%Z with 262144%Z. split; [lia|]. split; [lia|]. exact Hb.
Qed.

(* decode-encode-decode is idempotent unless the mantissa field is 0 AND the exponent field is 58 or more *)
Lemma REMB_dec_enc_dec b p : REMB_unmarshal b = Ok p -> (remb_mant_field b <> 0 \/ remb_exp_field b < 58) ->
  forall b', REMB_marshal p = Ok b' -> REMB_unmarshal b' = Ok p.
Proof.
  intros H Hc. apply REMB_unmarshal_fields in H as (Hs & Hn & Hss & He & Hm & Hb).
  destruct (N.eq_dec (remb_mant_field b) 0) as [Z0|NZ].
  - assert (He58 : remb_exp_field b < 58) by (destruct Hc as [A|A]; [congruence|exact A]).
    rewrite Z0 in Hb. change (Z.of_N 0) with 0%Z in Hb. rewrite remb_dec_zero_alt in Hb by lia.
    apply (REMB_reencode_stable p (Z.of_N (remb_exp_field b) + 6)%Z (2 ^ 17)%Z); try assumption; [lia|].
    change (2 ^ 17)%Z with 131072%Z. change (2 ^ 18)%Z with 262144%Z. lia.
  - apply (REMB_reencode_stable p (Z.of_N (remb_exp_field b)) (Z.of_N (remb_mant_field b))); try assumption; [lia|].
    change (2 ^ 18)%Z with 262144%Z. lia.
Qed.

(* corollary in terms of the decoded value only *)
Lemma REMB_dec_enc_dec_nonzero b p e m : REMB_unmarshal b = Ok p -> (0 <= e < 64)%Z -> (0 < m < 2 ^ 18)%Z ->
  remb_bitrate p = Z.to_N (remb_dec e m) -> forall b', REMB_marshal p = Ok b' -> REMB_unmarshal b' = Ok p.
Proof.
  intros H He Hm Hb. apply REMB_unmarshal_fields in H as (Hs & Hn & Hss & _ & _ & _).
  apply (REMB_reencode_stable p e m); assumption.
Qed.

(* Finding F16 at the C09 level: exponent field 58, mantissa field 0 decodes to 2^81 > 0x3FFFF * 2^63; Marshal saturates
   it to (63, 0x3FFFF) and the second decoding yields a different bitrate *)
Definition remb_zero_packet : bytes :=
  [n2b 143; n2b 206; x00; n2b 4;  x00; x00; x00; x01;  x00; x00; x00; x00;  n2b 82; n2b 69; n2b 77; n2b 66;
   x00; n2b 232; x00; x00].

Lemma REMB_dec_enc_dec_zero_refuted :
  exists b p b' p', len b = 20 /\ remb_exp_field b = 58 /\ remb_mant_field b = 0 /\
    REMB_unmarshal b = Ok p /\ REMB_marshal p = Ok b' /\ REMB_unmarshal b' = Ok p' /\ remb_bitrate p' <> remb_bitrate p.
Proof.
  exists remb_zero_packet. eexists. eexists. eexists.
  split; [reflexivity|]. split; [reflexivity|]. split; [reflexivity|].
  split; [vm_compute; reflexivity|]. split; [vm_compute; reflexivity|]. split; [vm_compute; reflexivity|].
  vm_compute. intros X. discriminate X.
Qed.

(* ---------- axioms check ---------- *)
Print Assumptions PLI_unmarshal_image.
Print Assumptions PLI_dec_enc_dec.
Print Assumptions RRR_unmarshal_image.
Print Assumptions RRR_dec_enc_dec.
Print Assumptions NACK_unmarshal_image.
Print Assumptions NACK_dec_enc_dec.
Print Assumptions SLI_unmarshal_image.
Print Assumptions SLI_dec_enc_dec.
Print Assumptions FIR_unmarshal_image.
Print Assumptions FIR_marshal_wide.
Print Assumptions FIR_unmarshal_enc_wide.
Print Assumptions FIR_dec_enc_dec.
Print Assumptions FIR_dec_enc_dec_empty.
Print Assumptions FIR_dec_enc_dec_refuted.
Print Assumptions CCBlock_unmarshal_image.
Print Assumptions CCFB_unmarshal_image.
Print Assumptions CCFB_unmarshal_image_small.
Print Assumptions CCFB_unmarshal_image_limit_refuted.
Print Assumptions CCFB_marshal_ok_limit.
Print Assumptions CCFB_dec_enc_dec.
Print Assumptions REMB_unmarshal_fields.
Print Assumptions REMB_unmarshal_image.
Print Assumptions f32_bits_exact_same.
Print Assumptions remb_dec_zero_alt.
Print Assumptions REMB_reencode_stable.
Print Assumptions REMB_dec_enc_dec.
Print Assumptions REMB_dec_enc_dec_nonzero.
Print Assumptions REMB_dec_enc_dec_zero_refuted.
