(* SourceTheorems2: more headline theorems (C04, C08, C12, C16) restated on the functions translated from the Go source
   (Gen/Funcs.v, module GoSrc).  Same conventions as Proofs/SourceTheorems.v: every theorem is a corollary of the model-level
   theorem named in Props/Cxx.v and of the proved equivalences translated source = model (Proofs/Source*.v); values are
   described through the model's types and the conversions src_x; model functions occur only in the description of the
   expected result (reference encoders enc_x, quantisation q, domains D_x, in_limits). *)
From RTCP Require Import Proofs.Tactics Lib.GoSem Gen.Funcs Check.GoOpaque Proofs.GoSemFacts Proofs.HeaderProofs
  Model.Header Model.Reports Model.Sdes Model.ByeApp Model.Feedback Model.Twcc Model.Ccfb Model.Remb Model.Xr Model.Packet
  Spec.Enc Spec.XrSpec Spec.Laws Spec.NackSpec Proofs.NackEnum Proofs.NackProofs
  Proofs.Units Proofs.EncReports Proofs.EncSdesByeApp Proofs.EncFeedback Proofs.EncCcfbRemb Proofs.EncTwcc Proofs.TwccCorollaries
  Proofs.Variants Proofs.PacketLevel Proofs.Extras
  Proofs.SourceEquiv Proofs.SrcConv Proofs.SourceCorollaries Proofs.SourceSR Proofs.SourceRR Proofs.SourceSdes Proofs.SourceByeApp
  Proofs.SourceFeedback1 Proofs.SourceFeedback2 Proofs.SourceCcfb Proofs.SourceTwccEnc Proofs.SourceTwccDec
  Proofs.SourcePacket Proofs.SourceCompound Proofs.SourceCompoundClosed Proofs.SourceTheorems.
Local Open Scope N_scope.

(* ================================================================================================ *)
(* C08 - Marshal never silently truncates: out-of-range values are errors                            *)
(* Added hypotheses: [not_compound p] (a CompoundPacket is not a member of the sum GoSrc.Packet: Packet_Marshal of the      *)
(* nil interface value panics) and [packet_fits p] (only for TransportLayerCC: every Delta is an int64 value; a model      *)
(* value with a delta beyond int64 is outside Go's value space and [src_packet] of it is no Go value).                     *)
(* ================================================================================================ *)

(* above a limit: never bytes *)
Theorem source_C08_over_limit_never_succeeds : forall p, in_limits p = false -> not_compound p -> packet_fits p ->
  forall b, GoSrc.Packet_Marshal (src_packet p) <> Ok b.
Proof.
  intros p Hl Hn Hf b. rewrite (src_Packet_Marshal p Hn Hf). apply in_limits_marshal_not_ok. exact Hl.
Qed.

(* [packet_fits] cannot be dropped: on a model value whose delta is 250 * 2^64 (not an int64, so its image is not a Go
   value) the translated arithmetic wraps the quotient to 0 and succeeds, where the model's unbounded integer is rejected *)
Theorem source_C08_over_limit_without_fits_refuted :
  exists p b, in_limits p = false /\ not_compound p /\ GoSrc.Packet_Marshal (src_packet p) = Ok b.
Proof.
  exists (PTWCC (mkTWCC (mkHeader false 15 205 5) 1 2 3 1 4 5 [] [Model.Twcc.mkRecvDelta 1 (250 * 18446744073709551616)])).
  eexists. split; [vm_compute; reflexivity|]. split; [exact I|]. vm_compute. reflexivity.
Qed.

(* ... compound packets included, through CompoundPacket.Marshal (a member over a limit, or a violated compound rule) *)
Theorem source_C08_over_limit_never_succeeds_compound : forall l, in_limits (PCompound l) = false ->
  Forall not_compound l -> Forall packet_fits l -> forall b, GoSrc.CompoundPacket_Marshal (map src_packet l) <> Ok b.
Proof.
  intros l Hl Hn Hf b. rewrite (src_CompoundPacket_Marshal_closed l Hn Hf). apply in_limits_marshal_not_ok. exact Hl.
Qed.

(* ... and the outcome is the error, per packet type; for TWCC and CCFB provided the 16-bit size arithmetic does not wrap
   first.  The CCFB side condition is stated on the translated Len(); [twcc_exact_len t] is plain arithmetic on the value
   (20 + 2 per chunk + 1 or 2 per delta). *)
Theorem source_C08_over_limit_is_error : forall p, in_limits p = false -> packet_fits p ->
  match p with
  | PCompound _ => True
  | PTWCC t => twcc_exact_len t <= 65532 -> GoSrc.Packet_Marshal (src_packet p) = Err
  | PCCFB c => (GoSrc.CCFeedbackReport_Len (src_ccfb c) / 4 - 1 < 65536)%Z -> GoSrc.Packet_Marshal (src_packet p) = Err
  | _ => GoSrc.Packet_Marshal (src_packet p) = Err
  end.
Proof.
  intros p Hl Hf. pose proof (in_limits_marshal_err p Hl) as H.
  destruct p; try exact I; try intros Hx; rewrite src_Packet_Marshal by (first [exact I|exact Hf]);
    first [exact H | apply H].
  - exact Hx.
  - rewrite src_CCFeedbackReport_Len in Hx. lia.
Qed.

(* the same per Go type, on the type's own Marshal *)
Theorem source_C08_over_limit_is_error_SenderReport : forall x, in_limits (PSR x) = false ->
  GoSrc.SenderReport_Marshal (src_sr x) = Err.
Proof. intros x H. exact (source_C08_over_limit_is_error (PSR x) H I). Qed.
Theorem source_C08_over_limit_is_error_ReceiverReport : forall x, in_limits (PRR x) = false ->
  GoSrc.ReceiverReport_Marshal (src_rr x) = Err.
Proof. intros x H. exact (source_C08_over_limit_is_error (PRR x) H I). Qed.
Theorem source_C08_over_limit_is_error_SourceDescription : forall x, in_limits (PSDES x) = false ->
  GoSrc.SourceDescription_Marshal (src_sdes x) = Err.
Proof. intros x H. exact (source_C08_over_limit_is_error (PSDES x) H I). Qed.
Theorem source_C08_over_limit_is_error_Goodbye : forall x, in_limits (PBYE x) = false ->
  GoSrc.Goodbye_Marshal (src_bye x) = Err.
Proof. intros x H. exact (source_C08_over_limit_is_error (PBYE x) H I). Qed.
Theorem source_C08_over_limit_is_error_ApplicationDefined : forall x, in_limits (PAPP x) = false ->
  GoSrc.ApplicationDefined_Marshal (src_app x) = Err.
Proof. intros x H. exact (source_C08_over_limit_is_error (PAPP x) H I). Qed.
Theorem source_C08_over_limit_is_error_TransportLayerNack : forall x, in_limits (PNACK x) = false ->
  GoSrc.TransportLayerNack_Marshal (src_nack x) = Err.
Proof. intros x H. exact (source_C08_over_limit_is_error (PNACK x) H I). Qed.
Theorem source_C08_over_limit_is_error_SliceLossIndication : forall x, in_limits (PSLI x) = false ->
  GoSrc.SliceLossIndication_Marshal (src_sli x) = Err.
Proof. intros x H. exact (source_C08_over_limit_is_error (PSLI x) H I). Qed.
Theorem source_C08_over_limit_is_error_CCFeedbackReport : forall x, in_limits (PCCFB x) = false ->
  (GoSrc.CCFeedbackReport_Len (src_ccfb x) / 4 - 1 < 65536)%Z -> GoSrc.CCFeedbackReport_Marshal (src_ccfb x) = Err.
Proof. intros x H. exact (source_C08_over_limit_is_error (PCCFB x) H I). Qed.
Theorem source_C08_over_limit_is_error_TransportLayerCC : forall x, in_limits (PTWCC x) = false -> twcc_fits x ->
  twcc_exact_len x <= 65532 -> GoSrc.TransportLayerCC_Marshal (src_twcc x) = Err.
Proof. intros x H Hf. exact (source_C08_over_limit_is_error (PTWCC x) H Hf). Qed.

(* finding F18 (oversize) on the translated source: with more content than a 16-bit length field can express the translated
   Marshal panics (the side conditions above are necessary) *)
Theorem source_C08_oversize_panics_refuted :
  exists p, in_limits (PCCFB p) = false /\ GoSrc.CCFeedbackReport_Marshal (src_ccfb p) = Panic.
Proof.
  exists (mkCCFB 0 [mkCCBlock 0 0 (repeat (mkCCMetric false 0 0) (N.to_nat 131064))] 0).
  rewrite src_CCFeedbackReport_Marshal. vm_compute. split; reflexivity.
Qed.
Theorem source_C08_oversize_twcc_panics_refuted :
  exists t, in_limits (PTWCC t) = false /\ twcc_fits t /\ GoSrc.TransportLayerCC_Marshal (src_twcc t) = Panic.
Proof.
  exists (mkTWCC (mkHeader false 15 205 0) 0 0 0 0 0 0 (repeat (RLC 0 0 0) (N.to_nat 32757)) [Model.Twcc.mkRecvDelta 0 0]).
  assert (Hf : twcc_fits (mkTWCC (mkHeader false 15 205 0) 0 0 0 0 0 0 (repeat (RLC 0 0 0) (N.to_nat 32757))
                            [Model.Twcc.mkRecvDelta 0 0])).
  { unfold twcc_fits. cbn [tw_deltas]. constructor; [|constructor]. unfold delta_fits. cbn [rd_delta]. lia. }
  split; [vm_compute; reflexivity|]. split; [exact Hf|].
  rewrite (src_TransportLayerCC_Marshal _ Hf). vm_compute. reflexivity.
Qed.

(* exact characterisations: when the translated Marshal succeeds the bytes are the RFC encoding of the value (nothing
   truncated, wrapped or dropped), otherwise an error.  No hypothesis on the values. *)
Theorem source_C08_SenderReport : forall s, GoSrc.SenderReport_Marshal (src_sr s) =
  if forallb lost_ok (sr_reports s) && (nl (sr_reports s) <=? 31) then Ok (frame false (nl (sr_reports s)) 200 (sr_body s)) else Err.
Proof. intros s. rewrite src_SenderReport_Marshal. apply SR_marshal_char. Qed.
Theorem source_C08_ReceiverReport : forall r, GoSrc.ReceiverReport_Marshal (src_rr r) =
  if forallb lost_ok (rcv_reports r) && (nl (rcv_reports r) <=? 31) then Ok (enc_RR r) else Err.
Proof. intros r. rewrite src_ReceiverReport_Marshal. apply RR_marshal_char. Qed.
Theorem source_C08_SourceDescription : forall s, GoSrc.SourceDescription_Marshal (src_sdes s) =
  if forallb chunk_ok (sd_chunks s) then (if 31 <? nl (sd_chunks s) then Err else Ok (enc_SDES s)) else Err.
Proof. intros s. rewrite src_SourceDescription_Marshal. apply SDES_marshal_char. Qed.
Theorem source_C08_Goodbye : forall g, GoSrc.Goodbye_Marshal (src_bye g) =
  if 31 <? nl (bye_sources g) then Err else if 255 <? len (bye_reason g) then Err else Ok (enc_BYE g).
Proof. intros g. rewrite src_Goodbye_Marshal. apply BYE_marshal_char. Qed.
Theorem source_C08_ApplicationDefined : forall a, GoSrc.ApplicationDefined_Marshal (src_app a) =
  if 65523 <? len (app_data a) then Err else if negb (len (app_name a) =? 4) then Err else
  if 31 <? app_subtype a then Err else Ok (enc_APP a).
Proof. intros a. rewrite src_ApplicationDefined_Marshal. apply APP_marshal_char. Qed.
Theorem source_C08_cumulative_lost : forall r,
  (rr_lost r < 2 ^ 24 -> GoSrc.ReceptionReport_Marshal (src_rrep r) = Ok (enc_rrep r)) /\
  (2 ^ 24 <= rr_lost r -> GoSrc.ReceptionReport_Marshal (src_rrep r) = Err).
Proof. intros r. rewrite src_ReceptionReport_Marshal. split; [apply RRep_marshal_spec|apply RRep_marshal_limit]. Qed.
Theorem source_C08_nack_limit : forall p, 253 < nl (nack_pairs p) -> GoSrc.TransportLayerNack_Marshal (src_nack p) = Err.
Proof. intros p H. rewrite src_TransportLayerNack_Marshal. apply NACK_marshal_limit. exact H. Qed.
Theorem source_C08_sli_limit : forall p, 253 < nl (sli_entries p) -> GoSrc.SliceLossIndication_Marshal (src_sli p) = Err.
Proof. intros p H. rewrite src_SliceLossIndication_Marshal. apply SLI_marshal_limit. exact H. Qed.

(* values exactly at the limits are accepted, one above rejected: non-vacuity, on the translated functions *)
Theorem source_C08_at_the_limit :
  is_ok (GoSrc.ReceptionReport_Marshal (src_rrep (mkRRep 1 2 16777215 0 0 0 0))) = true /\
  GoSrc.ReceptionReport_Marshal (src_rrep (mkRRep 1 2 16777216 0 0 0 0)) = Err /\
  is_ok (GoSrc.Goodbye_Marshal (src_bye (mkBYE (repeat 7 31) (repeat x61 255)))) = true /\
  GoSrc.Goodbye_Marshal (src_bye (mkBYE (repeat 7 32) [])) = Err /\
  GoSrc.Goodbye_Marshal (src_bye (mkBYE [] (repeat x61 256))) = Err.
Proof. rewrite !src_ReceptionReport_Marshal, !src_Goodbye_Marshal. vm_compute. repeat split; reflexivity. Qed.

(* ================================================================================================ *)
(* C16 - Fixed-width wire units encode/decode bijectively over their whole domain                     *)
(* (the header, reception-report, delta and metric round trips on the translated functions are already in                  *)
(* Proofs/SourceCorollaries.v: source_header_roundtrip, source_header_limits, source_recv_delta_roundtrip,                 *)
(* source_metric_roundtrip, source_reception_report_roundtrip; here the remaining entries of Props/C16.v)                  *)
(* Decoders: any receiver r0 where the equivalence holds for any receiver, else the zero value.                            *)
(* ================================================================================================ *)

(* a well-formed chunk whose word is below 2^15 is a run-length chunk, and conversely *)
Lemma chunk_word_rlc c w : Enc.chunk_ok c = true -> Enc.chunk_word c = w -> w < 32768 -> exists sym run, c = RLC 0 sym run.
Proof.
  intros Hok Hw Hlt. destruct c as [t s r|t ss l].
  - unfold Enc.chunk_ok in Hok. apply andb_true_iff in Hok as [Hok _]. apply andb_true_iff in Hok as [Ht _].
    apply N.eqb_eq in Ht. subst t. eauto.
  - exfalso. unfold Enc.chunk_word in Hw. destruct (ss =? 0); lia.
Qed.
Lemma chunk_word_svc c w : Enc.chunk_ok c = true -> Enc.chunk_word c = w -> 32768 <= w -> exists t ss l, c = SVC t ss l.
Proof.
  intros Hok Hw Hge. destruct c as [t s r|t ss l]; [exfalso|eauto].
  unfold Enc.chunk_ok, fits in Hok. change (2 ^ 2) with 4 in Hok. change (2 ^ 13) with 8192 in Hok.
  apply andb_true_iff in Hok as [Hok Hr]. apply andb_true_iff in Hok as [_ Hs]. apply N.ltb_lt in Hr, Hs.
  unfold Enc.chunk_word in Hw. lia.
Qed.

(* TWCC run-length chunks: all 2^15 words (any receiver), and all (symbol, run) values *)
Theorem source_C16_run_length_words : forall w, w < 32768 ->
  exists sym run, let c := RLC 0 sym run in
    (forall r0, GoSrc.RunLengthChunk_Unmarshal r0 (be 2 w) = Ok (src_rlc c)) /\ Enc.chunk_ok c = true /\ Enc.chunk_word c = w /\
    GoSrc.RunLengthChunk_Marshal (src_rlc c) = Ok (be 2 w).
Proof.
  intros w Hw. destruct (RLC_word_roundtrip w Hw) as (c & Hu & Hok & Hcw & Hm).
  destruct (chunk_word_rlc c w Hok Hcw Hw) as (sym & run & ->). exists sym, run. cbv zeta.
  split; [intros r0; rewrite src_RunLengthChunk_Unmarshal, Hu; reflexivity|].
  split; [exact Hok|]. split; [exact Hcw|]. rewrite src_RunLengthChunk_Marshal. exact Hm.
Qed.
Theorem source_C16_run_length_values : forall t sym run, sym < 4 -> run < 8192 ->
  GoSrc.RunLengthChunk_Marshal (src_rlc (RLC t sym run)) = Ok (be 2 (Enc.chunk_word (RLC t sym run))) /\
  forall r0, GoSrc.RunLengthChunk_Unmarshal r0 (be 2 (Enc.chunk_word (RLC t sym run))) = Ok (src_rlc (RLC 0 sym run)).
Proof.
  intros t sym run Hs Hr. destruct (RLC_value_roundtrip t sym run Hs Hr) as [Hm Hu].
  split; [rewrite src_RunLengthChunk_Marshal; exact Hm|]. intros r0. rewrite src_RunLengthChunk_Unmarshal, Hu. reflexivity.
Qed.

(* status-vector chunks: all 2^15 words with the top bit set, and all well-formed symbol lists (zero receiver: the decoder
   appends to the receiver's symbol list) *)
Theorem source_C16_status_vector_words : forall w, 32768 <= w < 65536 ->
  exists t ss l, let c := SVC t ss l in
    GoSrc.StatusVectorChunk_Unmarshal GoSrc.zero_StatusVectorChunk (be 2 w) = Ok (src_svc c) /\ Enc.chunk_ok c = true /\
    Enc.chunk_word c = w /\ GoSrc.StatusVectorChunk_Marshal (src_svc c) = Ok (be 2 w).
Proof.
  intros w Hw. destruct (SVC_word_roundtrip w Hw) as (c & Hu & Hok & Hcw & Hm).
  destruct (chunk_word_svc c w Hok Hcw (proj1 Hw)) as (t & ss & l & ->). exists t, ss, l. cbv zeta.
  split; [rewrite src_StatusVectorChunk_Unmarshal, Hu; reflexivity|].
  split; [exact Hok|]. split; [exact Hcw|]. rewrite src_StatusVectorChunk_Marshal. exact Hm.
Qed.
Theorem source_C16_status_vector_values : forall t ss l, Enc.chunk_ok (SVC t ss l) = true ->
  GoSrc.StatusVectorChunk_Marshal (src_svc (SVC t ss l)) = Ok (be 2 (Enc.chunk_word (SVC t ss l))) /\
  GoSrc.StatusVectorChunk_Unmarshal GoSrc.zero_StatusVectorChunk (be 2 (Enc.chunk_word (SVC t ss l))) = Ok (src_svc (SVC t ss l)).
Proof.
  intros t ss l Hok. destruct (SVC_value_roundtrip (SVC t ss l) Hok I) as [Hm Hu].
  split; [rewrite src_StatusVectorChunk_Marshal; exact Hm|]. rewrite src_StatusVectorChunk_Unmarshal, Hu. reflexivity.
Qed.

(* receive deltas: all 2^8 one-octet and all 2^16 two-octet wire values (any receiver), and all in-range multiples of 250 us.
   The values are int64 values, so the Marshal equivalence's side condition is discharged here. *)
Lemma int16_of_bounds w : w < 65536 -> (- 32768 <= int16_of w < 32768)%Z.
Proof. intros H. unfold int16_of. destruct (N.ltb_spec w 32768); lia. Qed.

Theorem source_C16_small_deltas : forall v, v < 256 ->
  (forall r0, GoSrc.RecvDelta_Unmarshal r0 [n2b v] = Ok (GoSrc.mkRecvDelta 1 (250 * Z.of_N v))) /\
  GoSrc.RecvDelta_Marshal (GoSrc.mkRecvDelta 1 (250 * Z.of_N v)) = Ok [n2b v].
Proof.
  intros v Hv. destruct (RecvDelta_small v Hv) as [Hu Hm]. split.
  - intros r0. rewrite src_RecvDelta_Unmarshal, Hu. reflexivity.
  - change (GoSrc.mkRecvDelta 1 (250 * Z.of_N v)) with (src_delta (Model.Twcc.mkRecvDelta 1 (250 * Z.of_N v))).
    rewrite src_RecvDelta_Marshal; [exact Hm|]. unfold delta_fits. cbn [rd_delta]. lia.
Qed.
Theorem source_C16_large_deltas : forall w, w < 65536 ->
  (forall r0, GoSrc.RecvDelta_Unmarshal r0 (be 2 w) = Ok (GoSrc.mkRecvDelta 2 (250 * int16_of w))) /\
  GoSrc.RecvDelta_Marshal (GoSrc.mkRecvDelta 2 (250 * int16_of w)) = Ok (be 2 w).
Proof.
  intros w Hw. destruct (RecvDelta_large w Hw) as [Hu Hm]. split.
  - intros r0. rewrite src_RecvDelta_Unmarshal, Hu. reflexivity.
  - change (GoSrc.mkRecvDelta 2 (250 * int16_of w)) with (src_delta (Model.Twcc.mkRecvDelta 2 (250 * int16_of w))).
    rewrite src_RecvDelta_Marshal; [exact Hm|]. unfold delta_fits. cbn [rd_delta]. pose proof (int16_of_bounds w Hw). lia.
Qed.
Theorem source_C16_delta_values : forall d, delta_ok d = true ->
  GoSrc.RecvDelta_Marshal (src_delta d) = Ok (enc_delta d) /\
  forall r0, GoSrc.RecvDelta_Unmarshal r0 (enc_delta d) = Ok (src_delta d).
Proof.
  intros d Hok. destruct (RecvDelta_value_roundtrip d Hok) as [Hm Hu].
  split; [rewrite (src_RecvDelta_Marshal d (delta_ok_fits d Hok)); exact Hm|].
  intros r0. rewrite src_RecvDelta_Unmarshal, Hu. reflexivity.
Qed.

(* RFC 8888 metric blocks: all 2^16 words (any receiver), and all well-formed values *)
Theorem source_C16_metric_words : forall w, w < 65536 ->
  (forall m0, GoSrc.CCFeedbackMetricBlock_unmarshal m0 (be 2 w) = Ok (src_metric (ccm_of_word w))) /\
  D_metric (ccm_of_word w) = true /\
  (32768 <= w \/ w = 0 -> GoSrc.CCFeedbackMetricBlock_marshal (src_metric (ccm_of_word w)) = Ok (be 2 w) /\
                          enc_metric (ccm_of_word w) = be 2 w).
Proof.
  intros w Hw. destruct (CCMetric_word w Hw) as (Hu & HD & Hm).
  split; [intros m0; rewrite src_CCFeedbackMetricBlock_unmarshal, Hu; reflexivity|]. split; [exact HD|].
  rewrite src_CCFeedbackMetricBlock_marshal. exact Hm.
Qed.
Theorem source_C16_metric_values : forall m, D_metric m = true ->
  GoSrc.CCFeedbackMetricBlock_marshal (src_metric m) = Ok (enc_metric m) /\
  forall m0, GoSrc.CCFeedbackMetricBlock_unmarshal m0 (enc_metric m) = Ok (src_metric m).
Proof.
  intros m HD. destruct (CCMetric_value_roundtrip m HD) as [Hm Hu].
  split; [rewrite src_CCFeedbackMetricBlock_marshal; exact Hm|].
  intros m0. rewrite src_CCFeedbackMetricBlock_unmarshal, Hu. reflexivity.
Qed.

(* 24-bit cumulative loss inside a reception report *)
Theorem source_C16_reception_report : forall r rest, D_rrep r = true ->
  GoSrc.ReceptionReport_Marshal (src_rrep r) = Ok (enc_rrep r) /\
  forall r0, GoSrc.ReceptionReport_Unmarshal r0 (enc_rrep r ++ rest) = Ok (src_rrep r).
Proof.
  intros r rest HD. split.
  - rewrite src_ReceptionReport_Marshal. apply RRep_marshal_spec.
    unfold D_rrep in HD. repeat (apply andb_true_iff in HD as [HD ?]).
    match goal with H : fits 24 (rr_lost r) = true |- _ => unfold fits in H; apply N.ltb_lt in H; exact H end.
  - intros r0. rewrite src_ReceptionReport_Unmarshal, (RRep_unmarshal_enc r rest HD). reflexivity.
Qed.
Theorem source_C16_loss_2_24_rejected : forall r, 2 ^ 24 <= rr_lost r -> GoSrc.ReceptionReport_Marshal (src_rrep r) = Err.
Proof. intros r H. rewrite src_ReceptionReport_Marshal. apply RRep_marshal_limit. exact H. Qed.

(* NACK pairs, FIR entries, SLI words: through packets with arbitrary entry lists *)
Theorem source_C16_nack_entries : forall p, D_NACK p = true ->
  GoSrc.TransportLayerNack_Marshal (src_nack p) = Ok (enc_NACK p) /\
  GoSrc.TransportLayerNack_Unmarshal GoSrc.zero_TransportLayerNack (enc_NACK p) = Ok (src_nack p).
Proof.
  intros p HD. split; [rewrite src_TransportLayerNack_Marshal; apply NACK_marshal_spec; exact HD|].
  rewrite src_TransportLayerNack_Unmarshal, (NACK_unmarshal_enc p HD). reflexivity.
Qed.
Theorem source_C16_fir_entries : forall p, D_FIR p = true ->
  GoSrc.FullIntraRequest_Marshal (src_fir p) = Ok (enc_FIR p) /\
  GoSrc.FullIntraRequest_Unmarshal GoSrc.zero_FullIntraRequest (enc_FIR p) = Ok (src_fir p).
Proof.
  intros p HD. split; [rewrite src_FullIntraRequest_Marshal; apply FIR_marshal_spec; exact HD|].
  rewrite src_FullIntraRequest_Unmarshal, (FIR_unmarshal_enc p HD). reflexivity.
Qed.
(* SLI: every entry is written as the word First * 2^19 + Number * 2^6 + PictureID (that is what enc_SLI_pion holds per
   entry) and read back to the same entry; the packet type is pion's 205, not RFC 4585's 206 (finding F5) *)
Theorem source_C16_sli_word : forall p, D_SLI p = true ->
  GoSrc.SliceLossIndication_Marshal (src_sli p) =
    Ok (frame false 2 205 (be 4 (sli_sender p) ++ be 4 (sli_media p) ++
          List.concat (map (fun e => be 4 (sli_first e * 2 ^ 19 + sli_number e * 2 ^ 6 + sli_picture e)) (sli_entries p)))) /\
  GoSrc.SliceLossIndication_Unmarshal GoSrc.zero_SliceLossIndication (enc_SLI_pion p) = Ok (src_sli p).
Proof.
  intros p HD. split; [rewrite src_SliceLossIndication_Marshal; exact (SLI_marshal_pion p HD)|].
  rewrite src_SliceLossIndication_Unmarshal, (SLI_unmarshal_pion p HD). reflexivity.
Qed.
(* the packed word itself, as the expressions of the loop bodies of SliceLossIndication.Marshal / Unmarshal compute it *)
Theorem source_C16_sli_word_bits : forall e, D_slie e = true ->
  Z.lor (Z.lor (uwrap 32 (gshl (Z.land (Z.of_N (sli_first e)) 8191) 19))
               (uwrap 32 (gshl (Z.land (Z.of_N (sli_number e)) 8191) 6)))
        (Z.land (Z.of_N (sli_picture e)) 63) = Z.of_N (sli_first e * 2 ^ 19 + sli_number e * 2 ^ 6 + sli_picture e) /\
  forall w, w = sli_first e * 2 ^ 19 + sli_number e * 2 ^ 6 + sli_picture e ->
  GoSrc.mkSLIEntry (uwrap 16 (Z.land (gshr (Z.of_N w) 19) 8191)) (uwrap 16 (Z.land (gshr (Z.of_N w) 6) 8191))
                   (uwrap 8 (Z.land (Z.of_N w) 63)) = src_slie e.
Proof.
  intros e HD. rewrite src_sli_word, (sli_word_spec e HD). split; [reflexivity|].
  intros w ->. rewrite src_sli_of_word, <- (sli_word_spec e HD), (sli_of_word_word e HD). reflexivity.
Qed.

(* ================================================================================================ *)
(* C04 - Unmarshal extracts the RFC-specified fields from any valid encoding                          *)
(* Decoders on the zero receiver (what `unmarshal` allocates with new(T)); any receiver a0/m0 where the equivalence is     *)
(* proved for any receiver.  REMB and ExtendedReport are opaque in GoSrc (their decoders are the model's own,              *)
(* Check/GoOpaque.v), so C04_remb_any_pair and C04_xr_reserved_bits_and_unknown_blocks have no source-level counterpart;   *)
(* REMB is nevertheless covered by the dispatch form of the first theorem.                                                 *)
(* ================================================================================================ *)

(* the reference encoding of every well-formed value is accepted and yields exactly the value (up to the documented
   quantisation): through the dynamic dispatch Packet.Unmarshal on the zero value of the packet's Go type ... *)
Theorem source_C04_reference_encoding : forall p, supported p = true -> in_D p = true ->
  GoSrc.Packet_Unmarshal (zero_packet (tag_of_packet p)) (enc_spec p) = Ok (src_packet (q p)).
Proof.
  intros p Hs HD. rewrite src_Packet_Unmarshal_zero, (own_roundtrip p Hs HD); [reflexivity|].
  destruct p; cbn [supported] in Hs; discriminate.
Qed.

(* ... and per Go type, on the type's own translated Unmarshal *)
Theorem source_C04_reference_encoding_SenderReport : forall x, D_SR x = true ->
  GoSrc.SenderReport_Unmarshal GoSrc.zero_SenderReport (enc_SR x) = Ok (src_sr x).
Proof. intros x HD. rewrite src_SenderReport_Unmarshal, (SR_unmarshal_enc x HD). reflexivity. Qed.
Theorem source_C04_reference_encoding_ReceiverReport : forall x, D_RR x = true ->
  GoSrc.ReceiverReport_Unmarshal GoSrc.zero_ReceiverReport (enc_RR x) = Ok (src_rr (q_RR x)).
Proof. intros x HD. rewrite src_ReceiverReport_Unmarshal, (RR_unmarshal_enc x HD). reflexivity. Qed.
Theorem source_C04_reference_encoding_SourceDescription : forall x, D_SDES x = true ->
  GoSrc.SourceDescription_Unmarshal GoSrc.zero_SourceDescription (enc_SDES x) = Ok (src_sdes x).
Proof. intros x HD. rewrite src_SourceDescription_Unmarshal, (SDES_unmarshal_enc x HD). reflexivity. Qed.
Theorem source_C04_reference_encoding_Goodbye : forall x, D_BYE x = true ->
  GoSrc.Goodbye_Unmarshal GoSrc.zero_Goodbye (enc_BYE x) = Ok (src_bye x).
Proof. intros x HD. rewrite src_Goodbye_Unmarshal, (BYE_unmarshal_enc x HD). reflexivity. Qed.
Theorem source_C04_reference_encoding_ApplicationDefined : forall x a0, D_APP x = true ->
  GoSrc.ApplicationDefined_Unmarshal a0 (enc_APP x) = Ok (src_app x).
Proof. intros x a0 HD. rewrite src_ApplicationDefined_Unmarshal_gen, (APP_unmarshal_enc x HD). reflexivity. Qed.
Theorem source_C04_reference_encoding_TransportLayerNack : forall x, D_NACK x = true ->
  GoSrc.TransportLayerNack_Unmarshal GoSrc.zero_TransportLayerNack (enc_NACK x) = Ok (src_nack x).
Proof. intros x HD. rewrite src_TransportLayerNack_Unmarshal, (NACK_unmarshal_enc x HD). reflexivity. Qed.
Theorem source_C04_reference_encoding_RapidResynchronizationRequest : forall x p0, D_RRR x = true ->
  GoSrc.RapidResynchronizationRequest_Unmarshal p0 (enc_RRR x) = Ok (src_rrr x).
Proof. intros x p0 HD. rewrite src_RapidResynchronizationRequest_Unmarshal_gen, (RRR_unmarshal_enc x HD). reflexivity. Qed.
Theorem source_C04_reference_encoding_PictureLossIndication : forall x p0, D_PLI x = true ->
  GoSrc.PictureLossIndication_Unmarshal p0 (enc_PLI x) = Ok (src_pli x).
Proof. intros x p0 HD. rewrite src_PictureLossIndication_Unmarshal_gen, (PLI_unmarshal_enc x HD). reflexivity. Qed.
Theorem source_C04_reference_encoding_FullIntraRequest : forall x, D_FIR x = true ->
  GoSrc.FullIntraRequest_Unmarshal GoSrc.zero_FullIntraRequest (enc_FIR x) = Ok (src_fir x).
Proof. intros x HD. rewrite src_FullIntraRequest_Unmarshal, (FIR_unmarshal_enc x HD). reflexivity. Qed.
Theorem source_C04_reference_encoding_CCFeedbackReport : forall x p0, D_CCFB x = true ->
  (GoSrc.CCFeedbackReport_Len (src_ccfb x) <= 262140)%Z ->
  GoSrc.CCFeedbackReport_Unmarshal p0 (enc_CCFB x) = Ok (src_ccfb x).
Proof.
  intros x p0 HD Hl. rewrite src_CCFeedbackReport_Len in Hl.
  rewrite src_CCFeedbackReport_Unmarshal_gen, CCFB_unmarshal_enc; [reflexivity|exact HD|lia].
Qed.

(* alternative TWCC chunkings of the same status sequence (run-length / 1-bit / 2-bit vector chunks in any valid mix) *)
Theorem source_C04_twcc_any_valid_chunking : forall t, D_TWCC t = true ->
  GoSrc.TransportLayerCC_Unmarshal GoSrc.zero_TransportLayerCC (enc_TWCC t) = Ok (src_twcc t).
Proof. intros t HD. rewrite src_TransportLayerCC_Unmarshal, (TWCC_unmarshal_enc t HD). reflexivity. Qed.
Theorem source_C04_twcc_chunkings_agree : forall t1 t2, D_TWCC t1 = true -> D_TWCC t2 = true ->
  statuses t1 = statuses t2 -> tw_deltas t1 = tw_deltas t2 ->
  exists d1 d2,
    GoSrc.TransportLayerCC_Unmarshal GoSrc.zero_TransportLayerCC (enc_TWCC t1) = Ok (src_twcc d1) /\
    GoSrc.TransportLayerCC_Unmarshal GoSrc.zero_TransportLayerCC (enc_TWCC t2) = Ok (src_twcc d2) /\
    statuses d1 = statuses d2 /\ tw_deltas d1 = tw_deltas d2 /\
    GoSrc.TransportLayerCC_RecvDeltas (src_twcc d1) = GoSrc.TransportLayerCC_RecvDeltas (src_twcc d2).
Proof.
  intros t1 t2 D1 D2 Hs Hd. destruct (twcc_chunking_invariant t1 t2 D1 D2 Hs Hd) as (d1 & d2 & H1 & H2 & Hs' & Hd').
  exists d1, d2. rewrite !src_TransportLayerCC_Unmarshal, H1, H2. repeat split; try assumption.
  cbn [src_twcc GoSrc.TransportLayerCC_RecvDeltas]. rewrite Hd'. reflexivity.
Qed.

(* padded APP packets: P bit set, 4k padding octets whose last one holds 4k, the others arbitrary (any receiver) *)
Theorem source_C04_app_padded : forall a k fill a0, D_APP a = true -> len (app_data a) mod 4 = 0 -> 1 <= k <= 63 ->
  len fill = 4 * k - 1 ->
  GoSrc.ApplicationDefined_Unmarshal a0
    (frame true (app_subtype a) 204 (be 4 (app_ssrc a) ++ app_name a ++ app_data a ++ fill ++ [n2b (4 * k)])) = Ok (src_app a).
Proof.
  intros a k fill a0 HD H4 Hk Hf. rewrite src_ApplicationDefined_Unmarshal_gen, (APP_unmarshal_padded a k fill HD H4 Hk Hf).
  reflexivity.
Qed.

(* non-zero reserved bits in FIR entries *)
Theorem source_C04_fir_reserved_bits : forall p rs, D_FIR p = true -> length rs = length (fir_entries p) ->
  GoSrc.FullIntraRequest_Unmarshal GoSrc.zero_FullIntraRequest (enc_FIR_res p rs) = Ok (src_fir p).
Proof. intros p rs HD Hl. rewrite src_FullIntraRequest_Unmarshal, (FIR_unmarshal_reserved p rs HD Hl). reflexivity. Qed.

(* not-received CCFB metric blocks with stray bits (any receiver) *)
Theorem source_C04_ccfb_not_received_stray_bits : forall b0 b1 m0, b2n b0 < 128 ->
  GoSrc.CCFeedbackMetricBlock_unmarshal m0 [b0; b1] = Ok (src_metric {| mb_received := false; mb_ecn := 0; mb_offset := 0 |}).
Proof.
  intros b0 b1 m0 H. rewrite src_CCFeedbackMetricBlock_unmarshal, (CCMetric_unmarshal_not_received b0 b1 H). reflexivity.
Qed.

(* BYE with an empty reason / extra null padding *)
Theorem source_C04_bye_empty_reason : forall g, D_BYE g = true -> bye_reason g = [] ->
  GoSrc.Goodbye_Unmarshal GoSrc.zero_Goodbye
    (frame false (nl (bye_sources g)) 203 (List.concat (map (be 4) (bye_sources g)) ++ [x00; x00; x00; x00])) = Ok (src_bye g).
Proof. intros g HD Hr. rewrite src_Goodbye_Unmarshal, (BYE_unmarshal_empty_reason g HD Hr). reflexivity. Qed.
Theorem source_C04_bye_extra_padding : forall g, D_BYE g = true ->
  GoSrc.Goodbye_Unmarshal GoSrc.zero_Goodbye
    (frame false (nl (bye_sources g)) 203 (pad4 (bye_body g) ++ [x00; x00; x00; x00])) = Ok (src_bye g).
Proof. intros g HD. rewrite src_Goodbye_Unmarshal, (BYE_unmarshal_extra_padding g HD). reflexivity. Qed.

(* an SR, RR, SDES or BYE whose header count (low 5 bits of the first octet) claims more elements than the packet holds is
   rejected: ALL byte strings *)
Theorem source_C04_sr_count_exceeds : forall b, (len b - 28) / 24 < b2n (nth 0 b x00) mod 32 ->
  GoSrc.SenderReport_Unmarshal GoSrc.zero_SenderReport b = Err.
Proof. intros b H. rewrite src_SenderReport_Unmarshal, (SR_count_exceeds_rejected b H). reflexivity. Qed.
Theorem source_C04_rr_count_exceeds : forall b, (len b - 8) / 24 < b2n (nth 0 b x00) mod 32 ->
  GoSrc.ReceiverReport_Unmarshal GoSrc.zero_ReceiverReport b = Err.
Proof. intros b H. rewrite src_ReceiverReport_Unmarshal, (RR_count_exceeds_rejected b H). reflexivity. Qed.
Theorem source_C04_bye_count_exceeds : forall b, (len b - 4) / 4 < b2n (nth 0 b x00) mod 32 ->
  GoSrc.Goodbye_Unmarshal GoSrc.zero_Goodbye b = Err.
Proof. intros b H. rewrite src_Goodbye_Unmarshal, (BYE_count_exceeds_rejected b H). reflexivity. Qed.
Theorem source_C04_sdes_count_exceeds : forall b, len b mod 4 = 0 -> (len b - 4) / 8 < b2n (nth 0 b x00) mod 32 ->
  GoSrc.SourceDescription_Unmarshal GoSrc.zero_SourceDescription b = Err.
Proof. intros b H4 H. rewrite src_SourceDescription_Unmarshal, (SDES_count_exceeds_rejected_aligned b H4 H). reflexivity. Qed.
Theorem source_C04_sdes_count_exceeds_any_length : forall b, (len b - 4 + 3) / 8 < b2n (nth 0 b x00) mod 32 ->
  GoSrc.SourceDescription_Unmarshal GoSrc.zero_SourceDescription b = Err.
Proof. intros b H. rewrite src_SourceDescription_Unmarshal, (SDES_count_exceeds_rejected b H). reflexivity. Qed.
(* the alignment hypothesis of the first SDES form is needed *)
Theorem source_C04_sdes_count_exceeds_refuted : exists b s, (len b - 4) / 8 < b2n (nth 0 b x00) mod 32 /\
  GoSrc.SourceDescription_Unmarshal GoSrc.zero_SourceDescription b = Ok s.
Proof.
  destruct SDES_count_exceeds_rejected_refuted as (b & H & E). exists b, (src_sdes (mkSDES [mkSChunk 1 []])).
  split; [exact H|]. rewrite src_SourceDescription_Unmarshal, E. reflexivity.
Qed.

(* ================================================================================================ *)
(* Print Assumptions                                                                                 *)
(* ================================================================================================ *)
Print Assumptions source_C08_over_limit_never_succeeds.
Print Assumptions source_C08_over_limit_without_fits_refuted.
Print Assumptions source_C08_over_limit_never_succeeds_compound.
Print Assumptions source_C08_over_limit_is_error.
Print Assumptions source_C08_over_limit_is_error_SenderReport.
Print Assumptions source_C08_over_limit_is_error_ReceiverReport.
Print Assumptions source_C08_over_limit_is_error_SourceDescription.
Print Assumptions source_C08_over_limit_is_error_Goodbye.
Print Assumptions source_C08_over_limit_is_error_ApplicationDefined.
Print Assumptions source_C08_over_limit_is_error_TransportLayerNack.
Print Assumptions source_C08_over_limit_is_error_SliceLossIndication.
Print Assumptions source_C08_over_limit_is_error_CCFeedbackReport.
Print Assumptions source_C08_over_limit_is_error_TransportLayerCC.
Print Assumptions source_C08_oversize_panics_refuted.
Print Assumptions source_C08_oversize_twcc_panics_refuted.
Print Assumptions source_C08_SenderReport.
Print Assumptions source_C08_ReceiverReport.
Print Assumptions source_C08_SourceDescription.
Print Assumptions source_C08_Goodbye.
Print Assumptions source_C08_ApplicationDefined.
Print Assumptions source_C08_cumulative_lost.
Print Assumptions source_C08_nack_limit.
Print Assumptions source_C08_sli_limit.
Print Assumptions source_C08_at_the_limit.
Print Assumptions source_C16_run_length_words.
Print Assumptions source_C16_run_length_values.
Print Assumptions source_C16_status_vector_words.
Print Assumptions source_C16_status_vector_values.
Print Assumptions source_C16_small_deltas.
Print Assumptions source_C16_large_deltas.
Print Assumptions source_C16_delta_values.
Print Assumptions source_C16_metric_words.
Print Assumptions source_C16_metric_values.
Print Assumptions source_C16_reception_report.
Print Assumptions source_C16_loss_2_24_rejected.
Print Assumptions source_C16_nack_entries.
Print Assumptions source_C16_fir_entries.
Print Assumptions source_C16_sli_word.
Print Assumptions source_C16_sli_word_bits.
Print Assumptions source_C04_reference_encoding.
Print Assumptions source_C04_reference_encoding_SenderReport.
Print Assumptions source_C04_reference_encoding_ReceiverReport.
Print Assumptions source_C04_reference_encoding_SourceDescription.
Print Assumptions source_C04_reference_encoding_Goodbye.
Print Assumptions source_C04_reference_encoding_ApplicationDefined.
Print Assumptions source_C04_reference_encoding_TransportLayerNack.
Print Assumptions source_C04_reference_encoding_RapidResynchronizationRequest.
Print Assumptions source_C04_reference_encoding_PictureLossIndication.
Print Assumptions source_C04_reference_encoding_FullIntraRequest.
Print Assumptions source_C04_reference_encoding_CCFeedbackReport.
Print Assumptions source_C04_twcc_any_valid_chunking.
Print Assumptions source_C04_twcc_chunkings_agree.
Print Assumptions source_C04_app_padded.
Print Assumptions source_C04_fir_reserved_bits.
Print Assumptions source_C04_ccfb_not_received_stray_bits.
Print Assumptions source_C04_bye_empty_reason.
Print Assumptions source_C04_bye_extra_padding.
Print Assumptions source_C04_sr_count_exceeds.
Print Assumptions source_C04_rr_count_exceeds.
Print Assumptions source_C04_bye_count_exceeds.
Print Assumptions source_C04_sdes_count_exceeds.
Print Assumptions source_C04_sdes_count_exceeds_any_length.
Print Assumptions source_C04_sdes_count_exceeds_refuted.
