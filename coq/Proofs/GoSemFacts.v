(* Transfer lemmas between the semantics of the translated Go fragment (Lib/GoSem.v: every integer a Z) and the
   primitives of the hand-written model (Lib/Base.v: numbers in N).  Nothing here is specific to one translated
   function.  Contents:
     1. res / bind / res_map plumbing
     2. Z.of_N versus the bit operations (land, lor, lxor, shiftl, shiftr), uwrap, swrap, gshl/gshr versus shl/shr, sub16
     3. byte_of_Z
     4. slices: glen, gidx, gslice*, gbe_get, gbe_put, gmake, gupd, views; explicit forms under a length hypothesis
     5. explicit forms of the Base writers (put_be_at, copy_at) and list helpers
     6. finite sweeps: [all_below] and its lifting lemma
     7. tactics: [glen_solve], [nat_lits], [sweep] / [sweep_octet], [go2n] (autorewrite data base pushing Z.of_N outwards) *)
From RTCP Require Import Proofs.Tactics Lib.GoSem.
Local Open Scope Z_scope.

(* ================================================================================================ *)
(* 1. plumbing                                                                                       *)
(* ================================================================================================ *)
Lemma bind_res_map {A B C} (f : A -> B) (r : res A) (g : B -> res C) :
  bind (res_map f r) g = bind r (fun x => g (f x)).
Proof. destruct r; reflexivity. Qed.
Lemma res_map_bind {A B C} (f : B -> C) (r : res A) (g : A -> res B) :
  res_map f (bind r g) = bind r (fun x => res_map f (g x)).
Proof. destruct r; reflexivity. Qed.
Lemma res_map_res_map {A B C} (f : A -> B) (g : B -> C) (r : res A) :
  res_map g (res_map f r) = res_map (fun x => g (f x)) r.
Proof. destruct r; reflexivity. Qed.
Lemma res_map_id {A} (r : res A) : res_map (fun x => x) r = r.
Proof. destruct r; reflexivity. Qed.
Lemma res_map_ext {A B} (f g : A -> B) (r : res A) : (forall x, f x = g x) -> res_map f r = res_map g r.
Proof. intros H. destruct r; cbn [res_map]; [rewrite H|..]; reflexivity. Qed.
Lemma bind_ext {A B} (r : res A) (f g : A -> res B) : (forall x, f x = g x) -> bind r f = bind r g.
Proof. intros H. destruct r; cbn [bind]; [apply H|..]; reflexivity. Qed.
Lemma bind_Ok_r {A} (r : res A) : bind r (fun x => Ok x) = r.
Proof. destruct r; reflexivity. Qed.

(* ================================================================================================ *)
(* 2. numbers                                                                                        *)
(* ================================================================================================ *)
Lemma b2n_bounds x : 0 <= Z.of_N (b2n x) < 256.
Proof. pose proof (b2n_lt x). lia. Qed.

Lemma Zland_N a b : Z.land (Z.of_N a) (Z.of_N b) = Z.of_N (N.land a b).
Proof.
  apply Z.bits_inj'. intros n Hn. rewrite Z.land_spec, !Z.testbit_of_N' by exact Hn.
  rewrite N.land_spec. reflexivity.
Qed.
Lemma Zlor_N a b : Z.lor (Z.of_N a) (Z.of_N b) = Z.of_N (N.lor a b).
Proof.
  apply Z.bits_inj'. intros n Hn. rewrite Z.lor_spec, !Z.testbit_of_N' by exact Hn.
  rewrite N.lor_spec. reflexivity.
Qed.
Lemma Zlxor_N a b : Z.lxor (Z.of_N a) (Z.of_N b) = Z.of_N (N.lxor a b).
Proof.
  apply Z.bits_inj'. intros n Hn. rewrite Z.lxor_spec, !Z.testbit_of_N' by exact Hn.
  rewrite N.lxor_spec. reflexivity.
Qed.
Lemma Zshiftl_N a k : Z.shiftl (Z.of_N a) (Z.of_N k) = Z.of_N (N.shiftl a k).
Proof.
  rewrite Z.shiftl_mul_pow2 by lia. rewrite N.shiftl_mul_pow2, N2Z.inj_mul, N2Z.inj_pow. reflexivity.
Qed.
Lemma Zshiftr_N a k : Z.shiftr (Z.of_N a) (Z.of_N k) = Z.of_N (N.shiftr a k).
Proof.
  rewrite Z.shiftr_div_pow2 by lia. rewrite N.shiftr_div_pow2, N2Z.inj_div, N2Z.inj_pow. reflexivity.
Qed.
Lemma Zrem_N a b : Z.rem (Z.of_N a) (Z.of_N b) = Z.of_N (a mod b).
Proof. symmetry. apply N2Z.inj_rem. Qed.
Lemma Zquot_N a b : Z.quot (Z.of_N a) (Z.of_N b) = Z.of_N (a / b).
Proof. symmetry. apply N2Z.inj_quot. Qed.

(* the same with a literal (a constructor of Z) on one side: [Z.of_N (N.pos p)] is convertible with [Z.pos p] *)
Lemma Zland_N_r a p : Z.land (Z.of_N a) (Z.pos p) = Z.of_N (N.land a (N.pos p)).  Proof. exact (Zland_N a (N.pos p)). Qed.
Lemma Zland_N_l p a : Z.land (Z.pos p) (Z.of_N a) = Z.of_N (N.land (N.pos p) a).  Proof. exact (Zland_N (N.pos p) a). Qed.
Lemma Zlor_N_r a p : Z.lor (Z.of_N a) (Z.pos p) = Z.of_N (N.lor a (N.pos p)).  Proof. exact (Zlor_N a (N.pos p)). Qed.
Lemma Zlor_N_l p a : Z.lor (Z.pos p) (Z.of_N a) = Z.of_N (N.lor (N.pos p) a).  Proof. exact (Zlor_N (N.pos p) a). Qed.
Lemma Zlor_N_0l a : Z.lor 0 (Z.of_N a) = Z.of_N a.  Proof. reflexivity. Qed.
Lemma Zlor_N_0r a : Z.lor (Z.of_N a) 0 = Z.of_N a.  Proof. apply Z.lor_0_r. Qed.

Lemma gshl_N a k : gshl (Z.of_N a) (Z.of_N k) = Z.of_N (N.shiftl a k).  Proof. apply Zshiftl_N. Qed.
Lemma gshr_N a k : gshr (Z.of_N a) (Z.of_N k) = Z.of_N (N.shiftr a k).  Proof. apply Zshiftr_N. Qed.
Lemma gshl_N_r a p : gshl (Z.of_N a) (Z.pos p) = Z.of_N (N.shiftl a (N.pos p)).  Proof. exact (Zshiftl_N a (N.pos p)). Qed.
Lemma gshr_N_r a p : gshr (Z.of_N a) (Z.pos p) = Z.of_N (N.shiftr a (N.pos p)).  Proof. exact (Zshiftr_N a (N.pos p)). Qed.
Lemma gshl_N_l p k : gshl (Z.pos p) (Z.of_N k) = Z.of_N (N.shiftl (N.pos p) k).  Proof. exact (Zshiftl_N (N.pos p) k). Qed.
Lemma gshr_N_l p k : gshr (Z.pos p) (Z.of_N k) = Z.of_N (N.shiftr (N.pos p) k).  Proof. exact (Zshiftr_N (N.pos p) k). Qed.
Lemma gshl_N_0 a : gshl (Z.of_N a) 0 = Z.of_N a.
Proof. change 0 with (Z.of_N 0). rewrite gshl_N, N.shiftl_0_r. reflexivity. Qed.
Lemma gshr_N_0 a : gshr (Z.of_N a) 0 = Z.of_N a.
Proof. change 0 with (Z.of_N 0). rewrite gshr_N, N.shiftr_0_r. reflexivity. Qed.
Lemma gshl_mul x k : 0 <= k -> gshl x k = x * 2 ^ k.
Proof. intros. apply Z.shiftl_mul_pow2. assumption. Qed.
Lemma gshr_div x k : 0 <= k -> gshr x k = x / 2 ^ k.
Proof. intros. apply Z.shiftr_div_pow2. assumption. Qed.

(* wrap-around *)
Lemma uwrap_N w x : uwrap (Z.of_N w) (Z.of_N x) = Z.of_N (x mod 2 ^ w)%N.
Proof. unfold uwrap. rewrite N2Z.inj_mod, N2Z.inj_pow. reflexivity. Qed.
Lemma uwrap_N_r p x : uwrap (Z.pos p) (Z.of_N x) = Z.of_N (x mod 2 ^ N.pos p)%N.
Proof. exact (uwrap_N (N.pos p) x). Qed.
Lemma uwrap8_N x : uwrap 8 (Z.of_N x) = Z.of_N (u8 x).  Proof. exact (uwrap_N 8 x). Qed.
Lemma uwrap16_N x : uwrap 16 (Z.of_N x) = Z.of_N (u16 x).  Proof. exact (uwrap_N 16 x). Qed.
Lemma uwrap32_N x : uwrap 32 (Z.of_N x) = Z.of_N (u32 x).  Proof. exact (uwrap_N 32 x). Qed.
Lemma uwrap64_N x : uwrap 64 (Z.of_N x) = Z.of_N (u64 x).  Proof. exact (uwrap_N 64 x). Qed.
Lemma uwrap_small w x : 0 <= x < 2 ^ w -> uwrap w x = x.
Proof. intros. unfold uwrap. apply Z.mod_small. assumption. Qed.
Lemma uwrap_bounds w x : 0 <= w -> 0 <= uwrap w x < 2 ^ w.
Proof. intros. unfold uwrap. apply Z.mod_pos_bound. apply Z.pow_pos_nonneg; lia. Qed.
Lemma uwrap_uwrap w x : uwrap w (uwrap w x) = uwrap w x.
Proof. unfold uwrap. apply Zmod_mod. Qed.
Lemma uwrap_nonneg_N w x : 0 <= w -> uwrap w x = Z.of_N (Z.to_N (uwrap w x)).
Proof. intros. rewrite Z2N.id; [reflexivity|]. apply uwrap_bounds. assumption. Qed.

(* a - b on unsigned w-bit operands *)
Lemma uwrap8_sub a b : uwrap 8 (Z.of_N a - Z.of_N b) = Z.of_N ((a + 256 - b mod 256) mod 256)%N.
Proof. unfold uwrap. change (2 ^ 8) with 256. lia. Qed.
Lemma uwrap16_sub a b : uwrap 16 (Z.of_N a - Z.of_N b) = Z.of_N (sub16 a b).
Proof. unfold uwrap, sub16. change (2 ^ 16) with 65536. lia. Qed.
Lemma uwrap32_sub a b : uwrap 32 (Z.of_N a - Z.of_N b) = Z.of_N (u32 (a + 4294967296 - b mod 4294967296)).
Proof. unfold uwrap, u32. change (2 ^ 32) with 4294967296. lia. Qed.
Lemma uwrap16_sub_l p b : uwrap 16 (Z.pos p - Z.of_N b) = Z.of_N (sub16 (N.pos p) b).  Proof. exact (uwrap16_sub (N.pos p) b). Qed.
Lemma uwrap16_sub_r a p : uwrap 16 (Z.of_N a - Z.pos p) = Z.of_N (sub16 a (N.pos p)).  Proof. exact (uwrap16_sub a (N.pos p)). Qed.
Lemma uwrap32_sub_l p b : uwrap 32 (Z.pos p - Z.of_N b) = Z.of_N (u32 (N.pos p + 4294967296 - b mod 4294967296)).
Proof. exact (uwrap32_sub (N.pos p) b). Qed.
Lemma uwrap32_sub_r a p : uwrap 32 (Z.of_N a - Z.pos p) = Z.of_N (u32 (a + 4294967296 - N.pos p mod 4294967296)).
Proof. exact (uwrap32_sub a (N.pos p)). Qed.

(* x << k truncated to w bits is Base's [shl w]; x >> k is Base's [shr] (for x below 2^64) *)
Lemma shl_shiftl w x k : shl w x k = (N.shiftl x k mod 2 ^ w)%N.
Proof.
  rewrite N.shiftl_mul_pow2. unfold shl. destruct (N.leb_spec w k) as [H|H]; [|reflexivity].
  assert (E : k = (k - w + w)%N) by lia. rewrite E, N.pow_add_r, N.mul_assoc, N.mod_mul; [reflexivity|].
  apply N.pow_nonzero. discriminate.
Qed.
Lemma uwrap_gshl_N w x k : uwrap (Z.of_N w) (gshl (Z.of_N x) (Z.of_N k)) = Z.of_N (shl w x k).
Proof. rewrite gshl_N, uwrap_N, shl_shiftl. reflexivity. Qed.
Lemma uwrap8_gshl x k : uwrap 8 (gshl (Z.of_N x) (Z.of_N k)) = Z.of_N (shl 8 x k).  Proof. exact (uwrap_gshl_N 8 x k). Qed.
Lemma uwrap16_gshl x k : uwrap 16 (gshl (Z.of_N x) (Z.of_N k)) = Z.of_N (shl 16 x k).  Proof. exact (uwrap_gshl_N 16 x k). Qed.
Lemma uwrap32_gshl x k : uwrap 32 (gshl (Z.of_N x) (Z.of_N k)) = Z.of_N (shl 32 x k).  Proof. exact (uwrap_gshl_N 32 x k). Qed.
Lemma uwrap8_gshl_l p k : uwrap 8 (gshl (Z.pos p) (Z.of_N k)) = Z.of_N (shl 8 (N.pos p) k).  Proof. exact (uwrap_gshl_N 8 (N.pos p) k). Qed.
Lemma uwrap16_gshl_l p k : uwrap 16 (gshl (Z.pos p) (Z.of_N k)) = Z.of_N (shl 16 (N.pos p) k).  Proof. exact (uwrap_gshl_N 16 (N.pos p) k). Qed.
Lemma uwrap32_gshl_l p k : uwrap 32 (gshl (Z.pos p) (Z.of_N k)) = Z.of_N (shl 32 (N.pos p) k).  Proof. exact (uwrap_gshl_N 32 (N.pos p) k). Qed.
Lemma uwrap8_gshl_r x p : uwrap 8 (gshl (Z.of_N x) (Z.pos p)) = Z.of_N (shl 8 x (N.pos p)).  Proof. exact (uwrap_gshl_N 8 x (N.pos p)). Qed.
Lemma uwrap16_gshl_r x p : uwrap 16 (gshl (Z.of_N x) (Z.pos p)) = Z.of_N (shl 16 x (N.pos p)).  Proof. exact (uwrap_gshl_N 16 x (N.pos p)). Qed.
Lemma uwrap32_gshl_r x p : uwrap 32 (gshl (Z.of_N x) (Z.pos p)) = Z.of_N (shl 32 x (N.pos p)).  Proof. exact (uwrap_gshl_N 32 x (N.pos p)). Qed.

Lemma shr_shiftr x k : (x < 2 ^ 64)%N -> shr x k = N.shiftr x k.
Proof.
  intros Hx. rewrite N.shiftr_div_pow2. unfold shr. destruct (N.leb_spec 64 k) as [H|H]; [|reflexivity].
  symmetry. apply N.div_small. eapply N.lt_le_trans; [exact Hx|]. apply N.pow_le_mono_r; [discriminate|exact H].
Qed.
Lemma gshr_shr x k : (x < 2 ^ 64)%N -> gshr (Z.of_N x) (Z.of_N k) = Z.of_N (shr x k).
Proof. intros. rewrite gshr_N, shr_shiftr by assumption. reflexivity. Qed.
Lemma gshr_shr_l p k : (N.pos p < 2 ^ 64)%N -> gshr (Z.pos p) (Z.of_N k) = Z.of_N (shr (N.pos p) k).
Proof. exact (gshr_shr (N.pos p) k). Qed.
Lemma gshr_shr_r x p : (x < 2 ^ 64)%N -> gshr (Z.of_N x) (Z.pos p) = Z.of_N (shr x (N.pos p)).
Proof. exact (gshr_shr x (N.pos p)). Qed.

(* bounds that let [gshr_shr] fire on masked values *)
Lemma Nland_le_r a b : (N.land a b <= b)%N.
Proof.
  destruct (N.eq_dec (N.land a b) 0) as [E|E]; [rewrite E; apply N.le_0_l|].
  destruct (N.le_gt_cases (N.land a b) b) as [H|H]; [exact H|exfalso].
  (* land a b > b is impossible: land a b is b with some bits cleared *)
  assert (L : N.lor (N.land a b) (N.ldiff b a) = b).
  { apply N.bits_inj. intro n. rewrite N.lor_spec, N.land_spec, N.ldiff_spec.
    destruct (N.testbit a n), (N.testbit b n); reflexivity. }
  assert (D : N.land (N.land a b) (N.ldiff b a) = 0%N).
  { apply N.bits_inj_0. intro n. rewrite !N.land_spec, N.ldiff_spec.
    destruct (N.testbit a n), (N.testbit b n); reflexivity. }
  rewrite <- N.lxor_lor in L by exact D. rewrite <- N.add_nocarry_lxor in L by exact D. lia.
Qed.
Lemma Nland_le_l a b : (N.land a b <= a)%N.
Proof. rewrite N.land_comm. apply Nland_le_r. Qed.
Lemma Nland_lt_r a b c : (b < c)%N -> (N.land a b < c)%N.
Proof. intros. pose proof (Nland_le_r a b). lia. Qed.
Lemma Nland_lt_l a b c : (a < c)%N -> (N.land a b < c)%N.
Proof. intros. pose proof (Nland_le_l a b). lia. Qed.

(* signed wrap-around *)
Lemma pow2_split w : 0 < w -> 2 ^ w = 2 * 2 ^ (w - 1).
Proof. intros. rewrite <- Z.pow_succ_r by lia. f_equal. lia. Qed.
Lemma swrap_small w x : 0 < w -> - 2 ^ (w - 1) <= x < 2 ^ (w - 1) -> swrap w x = x.
Proof.
  intros Hw Hx. unfold swrap. rewrite (pow2_split w Hw). generalize dependent (2 ^ (w - 1)). intros P HP.
  rewrite Z.mod_small by lia. lia.
Qed.
Lemma swrap_unsigned w x : 0 < w -> 0 <= x < 2 ^ w ->
  swrap w x = if x <? 2 ^ (w - 1) then x else x - 2 ^ w.
Proof.
  intros Hw Hx. unfold swrap. rewrite (pow2_split w Hw) in *.
  assert (0 < 2 ^ (w - 1)) by (apply Z.pow_pos_nonneg; lia).
  generalize dependent (2 ^ (w - 1)). intros P HP Hpos.
  destruct (Z.ltb_spec x P) as [H|H].
  - rewrite Z.mod_small by lia. lia.
  - assert (E : (x + P) mod (2 * P) = x + P - 2 * P).
    { symmetry. apply Z.mod_unique with 1; lia. }
    rewrite E. lia.
Qed.
Lemma swrap_bounds w x : 0 < w -> - 2 ^ (w - 1) <= swrap w x < 2 ^ (w - 1).
Proof.
  intros Hw. unfold swrap. rewrite (pow2_split w Hw).
  assert (0 < 2 ^ (w - 1)) by (apply Z.pow_pos_nonneg; lia).
  generalize dependent (2 ^ (w - 1)). intros P HP.
  pose proof (Z.mod_pos_bound (x + P) (2 * P)). lia.
Qed.
Lemma swrap16_N x : (x < 65536)%N -> swrap 16 (Z.of_N x) = if (x <? 32768)%N then Z.of_N x else Z.of_N x - 65536.
Proof.
  intros Hx. rewrite swrap_unsigned; [|lia|change (2 ^ 16) with 65536; lia].
  change (2 ^ (16 - 1)) with 32768. change (2 ^ 16) with 65536.
  destruct (Z.ltb_spec (Z.of_N x) 32768), (N.ltb_spec x 32768); try lia; reflexivity.
Qed.
Lemma swrap64_small x : - 9223372036854775808 <= x < 9223372036854775808 -> swrap 64 x = x.
Proof. intros. apply swrap_small; [lia|]. change (2 ^ (64 - 1)) with 9223372036854775808. assumption. Qed.

(* ================================================================================================ *)
(* 3. byte_of_Z                                                                                      *)
(* ================================================================================================ *)
Lemma byte_of_Z_N x : byte_of_Z (Z.of_N x) = n2b x.
Proof.
  unfold byte_of_Z. change 256 with (Z.of_N 256). rewrite <- N2Z.inj_mod, N2Z.id.
  apply n2b_mod. apply N.mod_mod. discriminate.
Qed.
Lemma n2b_u8 x : n2b (u8 x) = n2b x.
Proof. apply n2b_mod. unfold u8. apply N.mod_mod. discriminate. Qed.
Lemma n2b_u16 x : n2b (u16 x) = n2b x.
Proof. apply n2b_mod. unfold u16. lia. Qed.
Lemma n2b_u32 x : n2b (u32 x) = n2b x.
Proof. apply n2b_mod. unfold u32. lia. Qed.
Lemma byte_of_Z_mod v : byte_of_Z (v mod 256) = byte_of_Z v.
Proof. unfold byte_of_Z. rewrite Z.mod_mod by discriminate. reflexivity. Qed.
Lemma byte_of_Z_eq u v : u mod 256 = v mod 256 -> byte_of_Z u = byte_of_Z v.
Proof. unfold byte_of_Z. intros ->. reflexivity. Qed.
Lemma byte_of_Z_uwrap w v : 8 <= w -> byte_of_Z (uwrap w v) = byte_of_Z v.
Proof.
  intros Hw. apply byte_of_Z_eq. unfold uwrap. symmetry. apply Znumtheory.Zmod_div_mod; [lia| apply Z.pow_pos_nonneg; lia|].
  exists (2 ^ (w - 8)). change 256 with (2 ^ 8). rewrite <- Z.pow_add_r by lia. f_equal. lia.
Qed.
Lemma byte_of_Z_to_N v : byte_of_Z v = n2b (Z.to_N (v mod 256)).
Proof. reflexivity. Qed.
Lemma byte_of_Z_nonneg v : 0 <= v -> byte_of_Z v = n2b (Z.to_N v).
Proof. intros H. rewrite <- (Z2N.id v H) at 1. apply byte_of_Z_N. Qed.
Lemma b2n_byte_of_Z v : Z.of_N (b2n (byte_of_Z v)) = v mod 256.
Proof.
  unfold byte_of_Z. rewrite b2n_n2b. pose proof (Z.mod_pos_bound v 256). lia.
Qed.

(* ================================================================================================ *)
(* 4. slices                                                                                         *)
(* ================================================================================================ *)
Lemma glen_len b : glen b = Z.of_N (len b).
Proof. unfold glen, len. rewrite nat_N_Z. reflexivity. Qed.
Lemma glen_nonneg b : 0 <= glen b.
Proof. unfold glen. lia. Qed.
Lemma glen_nil : glen [] = 0.  Proof. reflexivity. Qed.
Lemma glen_cons x b : glen (x :: b) = 1 + glen b.
Proof. unfold glen. cbn [length]. lia. Qed.
Lemma glen_app a b : glen (a ++ b) = glen a + glen b.
Proof. unfold glen. rewrite app_length. lia. Qed.
Lemma glen_be k x : glen (be k x) = Z.of_nat k.
Proof. unfold glen. rewrite be_length. reflexivity. Qed.
Lemma glen_zeros n : glen (zeros n) = Z.of_N n.
Proof. unfold glen. rewrite zeros_length. lia. Qed.
Lemma glen_repeat (x : byte) n : glen (repeat x n) = Z.of_nat n.
Proof. unfold glen. rewrite repeat_length. reflexivity. Qed.
Lemma glen_skipn n b : glen (skipn n b) = Z.max 0 (glen b - Z.of_nat n).
Proof. unfold glen. rewrite skipn_length. lia. Qed.
Lemma glen_firstn n b : glen (firstn n b) = Z.min (Z.of_nat n) (glen b).
Proof. unfold glen. rewrite firstn_length. lia. Qed.

(* b[i] *)
Lemma gidx_idx b i : gidx b (Z.of_N i) = res_map (fun x => Z.of_N (b2n x)) (idx b i).
Proof.
  unfold gidx, idx. rewrite glen_len.
  destruct (Z.ltb_spec (Z.of_N i) 0) as [H0|H0]; [lia|].
  destruct (Z.leb_spec (Z.of_N (len b)) (Z.of_N i)) as [H1|H1], (N.leb_spec (len b) i) as [H2|H2]; try lia;
    cbn [orb res_map]; [reflexivity|].
  rewrite <- Z_N_nat, N2Z.id. rewrite (nth_error_nth' b x00) by (unfold len in H2; lia). reflexivity.
Qed.
Lemma gidx_Z b i : 0 <= i -> gidx b i = res_map (fun x => Z.of_N (b2n x)) (idx b (Z.to_N i)).
Proof. intros H. rewrite <- (Z2N.id i H) at 1. apply gidx_idx. Qed.
Lemma gidx_ok b i : 0 <= i < glen b -> gidx b i = Ok (Z.of_N (b2n (nth (Z.to_nat i) b x00))).
Proof.
  intros H. rewrite gidx_Z by lia. rewrite glen_len in H. rewrite idx_ok by lia. cbn [res_map].
  rewrite Z_N_nat. reflexivity.
Qed.
Lemma gidx_panic b i : i < 0 \/ glen b <= i -> gidx b i = Panic.
Proof.
  intros H. unfold gidx. destruct (Z.ltb_spec i 0); [reflexivity|].
  destruct (Z.leb_spec (glen b) i); [reflexivity|lia].
Qed.
Lemma gidx_bounds b i x : gidx b i = Ok x -> 0 <= x < 256.
Proof.
  unfold gidx. destruct (_ || _); [discriminate|]. destruct (nth_error _ _); [|discriminate].
  intros E. inversion E. apply b2n_bounds.
Qed.

(* b[lo:hi], b[lo:], b[:hi] *)
Lemma gslice_N b i j : gslice b (Z.of_N i) (Z.of_N j) = slice b i j.
Proof.
  unfold gslice, slice. rewrite glen_len.
  destruct (Z.ltb_spec (Z.of_N i) 0) as [H0|H0]; [lia|].
  destruct (Z.ltb_spec (Z.of_N j) (Z.of_N i)), (Z.ltb_spec (Z.of_N (len b)) (Z.of_N j)),
    (N.ltb_spec (len b) j), (N.ltb_spec j i); try lia; cbn [orb]; try reflexivity.
  rewrite <- N2Z.inj_sub by lia. rewrite <- !Z_N_nat, !N2Z.id. reflexivity.
Qed.
Lemma gslice_from_N b i : gslice_from b (Z.of_N i) = slice_from b i.
Proof.
  unfold gslice_from, slice_from. rewrite glen_len, gslice_N. unfold slice.
  destruct (N.ltb_spec (len b) (len b)); [lia|]. cbn [orb].
  destruct (N.ltb_spec (len b) i); [reflexivity|]. f_equal. apply firstn_all2. rewrite skipn_length. unfold len. lia.
Qed.
Lemma gslice_to_N b j : gslice_to b (Z.of_N j) = slice b 0 j.
Proof. unfold gslice_to. change 0 with (Z.of_N 0). apply gslice_N. Qed.
Lemma gslice_from_Z b i : 0 <= i -> gslice_from b i = slice_from b (Z.to_N i).
Proof. intros H. rewrite <- (Z2N.id i H) at 1. apply gslice_from_N. Qed.
Lemma gslice_from_ok b i : 0 <= i <= glen b -> gslice_from b i = Ok (skipn (Z.to_nat i) b).
Proof.
  intros H. rewrite gslice_from_Z by lia. rewrite glen_len in H. rewrite slice_from_ok by lia.
  rewrite Z_N_nat. reflexivity.
Qed.
Lemma gslice_ok b i j : 0 <= i <= j -> j <= glen b ->
  gslice b i j = Ok (firstn (Z.to_nat (j - i)) (skipn (Z.to_nat i) b)).
Proof.
  intros H1 H2. unfold gslice.
  destruct (Z.ltb_spec i 0); [lia|]. destruct (Z.ltb_spec j i); [lia|]. destruct (Z.ltb_spec (glen b) j); [lia|].
  reflexivity.
Qed.

(* binary.BigEndian.UintK *)
Lemma gbe_get_N k b : gbe_get k b = res_map Z.of_N (get_be k b).
Proof.
  unfold gbe_get, get_be. rewrite glen_len, <- nat_N_Z.
  destruct (Z.ltb_spec (Z.of_N (len b)) (Z.of_N (N.of_nat k))), (N.ltb_spec (len b) (N.of_nat k)); try lia; reflexivity.
Qed.
Lemma gbe_get_at0 k b : gbe_get k b = res_map Z.of_N (get_be_at k b 0).
Proof. rewrite gbe_get_N. reflexivity. Qed.
Lemma gbe_get_ok k b : Z.of_nat k <= glen b -> gbe_get k b = Ok (Z.of_N (unbe (firstn k b))).
Proof. intros H. unfold gbe_get. destruct (Z.ltb_spec (glen b) (Z.of_nat k)); [lia|reflexivity]. Qed.
(* binary.BigEndian.UintK(b[off:]) *)
Lemma gbe_get_at k b off :
  bind (gslice_from b (Z.of_N off)) (gbe_get k) = res_map Z.of_N (get_be_at k b off).
Proof.
  rewrite gslice_from_N. unfold slice_from, get_be_at.
  destruct (N.ltb_spec (len b) off) as [H|H]; cbn [bind].
  - destruct (N.ltb_spec (len b) (off + N.of_nat k)); [reflexivity|lia].
  - rewrite gbe_get_N. unfold get_be. rewrite len_skipn.
    destruct (N.ltb_spec (len b - N.of_nat (N.to_nat off)) (N.of_nat k)), (N.ltb_spec (len b) (off + N.of_nat k));
      try lia; reflexivity.
Qed.
Lemma gbe_get_bounds k b x : gbe_get k b = Ok x -> 0 <= x < 256 ^ Z.of_nat k.
Proof.
  unfold gbe_get. destruct (_ <? _); [discriminate|]. intros E. inversion E. clear E. subst x.
  pose proof (unbe_lt (firstn k b)) as H. split; [lia|].
  change 256 with (Z.of_N 256). rewrite <- nat_N_Z, <- N2Z.inj_pow. apply N2Z.inj_lt.
  eapply N.lt_le_trans; [exact H|]. apply N.pow_le_mono_r; [discriminate|]. rewrite firstn_length. lia.
Qed.

(* big-endian writers only look at the low 8k bits *)
Lemma be_mod k : forall x, be k (x mod 256 ^ N.of_nat k)%N = be k x.
Proof.
  induction k as [|k IH]; intros x; [reflexivity|].
  cbn [be]. rewrite Nat2N.inj_succ, N.pow_succ_r'.
  assert (P : (256 ^ N.of_nat k <> 0)%N) by (apply N.pow_nonzero; discriminate).
  rewrite N.mod_mul_r by (try exact P; discriminate).
  set (y := ((x / 256) mod 256 ^ N.of_nat k)%N).
  replace ((x mod 256 + 256 * y) / 256)%N with y by lia.
  unfold y. rewrite IH. f_equal. f_equal. apply n2b_mod. lia.
Qed.
Lemma pow2_8k k : 2 ^ (8 * Z.of_nat k) = Z.of_N (256 ^ N.of_nat k).
Proof. rewrite N2Z.inj_pow, nat_N_Z, Z.pow_mul_r by lia. reflexivity. Qed.
Lemma be_wrap_N k x : be k (Z.to_N (Z.of_N x mod 2 ^ (8 * Z.of_nat k))) = be k x.
Proof. rewrite pow2_8k, <- N2Z.inj_mod, N2Z.id. apply be_mod. Qed.
Lemma be_wrap_uwrap k v : be k (Z.to_N (uwrap (8 * Z.of_nat k) v mod 2 ^ (8 * Z.of_nat k))) = be k (Z.to_N (v mod 2 ^ (8 * Z.of_nat k))).
Proof. unfold uwrap. rewrite Z.mod_mod; [reflexivity|]. apply Z.pow_nonzero; lia. Qed.

(* binary.BigEndian.PutUintK(b[off:], v) *)
Lemma gbe_put_Z k b off v :
  gbe_put k b (Z.of_N off) v = put_be_at k b off (Z.to_N (v mod 2 ^ (8 * Z.of_nat k))).
Proof.
  unfold gbe_put, put_be_at, copy_at. rewrite glen_len, <- nat_N_Z.
  destruct (Z.ltb_spec (Z.of_N off) 0); [lia|].
  destruct (Z.ltb_spec (Z.of_N (len b)) (Z.of_N off + Z.of_N (N.of_nat k))), (N.ltb_spec (len b) (off + N.of_nat k));
    try lia; cbn [orb]; [reflexivity|].
  destruct (N.ltb_spec (len b) off); [lia|].
  rewrite be_length, <- Z_N_nat, N2Z.id.
  rewrite Nat.min_l by (unfold len in *; lia).
  f_equal. f_equal. f_equal.
  rewrite firstn_all2 by (rewrite be_length; lia). reflexivity.
Qed.
Lemma gbe_put_N k b off x : gbe_put k b (Z.of_N off) (Z.of_N x) = put_be_at k b off x.
Proof.
  rewrite gbe_put_Z. unfold put_be_at. destruct (len b <? off + N.of_nat k)%N; [reflexivity|].
  rewrite be_wrap_N. reflexivity.
Qed.
Lemma gbe_put_ok k b off v : 0 <= off -> off + Z.of_nat k <= glen b ->
  gbe_put k b off v =
  Ok (firstn (Z.to_nat off) b ++ be k (Z.to_N (v mod 2 ^ (8 * Z.of_nat k))) ++ skipn (Z.to_nat off + k) b).
Proof.
  intros H1 H2. unfold gbe_put. destruct (Z.ltb_spec off 0); [lia|].
  destruct (Z.ltb_spec (glen b) (off + Z.of_nat k)); [lia|]. reflexivity.
Qed.
Lemma gbe_put_ok_N k b off x : 0 <= off -> off + Z.of_nat k <= glen b ->
  gbe_put k b off (Z.of_N x) = Ok (firstn (Z.to_nat off) b ++ be k x ++ skipn (Z.to_nat off + k) b).
Proof. intros. rewrite gbe_put_ok by assumption. rewrite be_wrap_N. reflexivity. Qed.
Lemma gbe_put_ok_uwrap k b off v : 0 <= off -> off + Z.of_nat k <= glen b ->
  gbe_put k b off (uwrap (8 * Z.of_nat k) v) = gbe_put k b off v.
Proof. intros. rewrite !gbe_put_ok by assumption. rewrite be_wrap_uwrap. reflexivity. Qed.
Lemma gbe_put_panic k b off v : off < 0 \/ glen b < off + Z.of_nat k -> gbe_put k b off v = Panic.
Proof.
  intros H. unfold gbe_put. destruct (Z.ltb_spec off 0); [reflexivity|].
  destruct (Z.ltb_spec (glen b) (off + Z.of_nat k)); [reflexivity|lia].
Qed.

(* make([]byte, n) *)
Lemma gmake_N n : gmake (Z.of_N n) = Ok (zeros n).
Proof.
  unfold gmake, zeros. destruct (Z.ltb_spec (Z.of_N n) 0); [lia|]. rewrite <- Z_N_nat, N2Z.id. reflexivity.
Qed.
Lemma gmake_pos p : gmake (Z.pos p) = Ok (zeros (N.pos p)).
Proof. exact (gmake_N (N.pos p)). Qed.
Lemma gmake_0 : gmake 0 = Ok [].
Proof. reflexivity. Qed.
Lemma gmake_neg n : n < 0 -> gmake n = Panic.
Proof. intros. unfold gmake. destruct (Z.ltb_spec n 0); [reflexivity|lia]. Qed.

(* b[i] = v *)
Lemma upd_nat_spec v : forall b i, (i < length b)%nat -> upd_nat b i v = firstn i b ++ v :: skipn (S i) b.
Proof.
  induction b as [|x r IH]; intros i Hi; cbn [length] in Hi; [lia|].
  destruct i as [|i]; cbn [upd_nat firstn skipn app]; [reflexivity|]. f_equal. apply IH. lia.
Qed.
Lemma upd_nat_length v : forall b i, length (upd_nat b i v) = length b.
Proof. induction b as [|x r IH]; intros [|i]; cbn [upd_nat length]; auto. Qed.
Lemma gupd_ok b i v : 0 <= i < glen b ->
  gupd b i v = Ok (firstn (Z.to_nat i) b ++ byte_of_Z v :: skipn (S (Z.to_nat i)) b).
Proof.
  intros H. unfold gupd. destruct (Z.ltb_spec i 0); [lia|]. destruct (Z.leb_spec (glen b) i); [lia|].
  cbn [orb]. rewrite upd_nat_spec by (unfold glen in H; lia). reflexivity.
Qed.
Lemma gupd_panic b i v : i < 0 \/ glen b <= i -> gupd b i v = Panic.
Proof.
  intros H. unfold gupd. destruct (Z.ltb_spec i 0); [reflexivity|].
  destruct (Z.leb_spec (glen b) i); [reflexivity|lia].
Qed.
Lemma gupd_copy_at b i v : (i < len b)%N -> gupd b (Z.of_N i) v = copy_at b i [byte_of_Z v].
Proof.
  intros H. rewrite gupd_ok by (rewrite glen_len; lia). unfold copy_at.
  destruct (N.ltb_spec (len b) i); [lia|]. rewrite <- Z_N_nat, N2Z.id. cbn [length].
  rewrite Nat.min_l by (unfold len in H; lia). cbn [firstn app]. rewrite Nat.add_1_r. reflexivity.
Qed.
Lemma gupd_length b i v b' : gupd b i v = Ok b' -> glen b' = glen b.
Proof.
  unfold gupd. destruct (_ || _); [discriminate|]. intros E. inversion E. unfold glen. rewrite upd_nat_length. reflexivity.
Qed.
Lemma gbe_put_length k b off v b' : gbe_put k b off v = Ok b' -> glen b' = glen b.
Proof.
  unfold gbe_put. destruct (Z.ltb_spec off 0); [discriminate|].
  destruct (Z.ltb_spec (glen b) (off + Z.of_nat k)); [discriminate|]. cbn [orb]. intros E. inversion E.
  rewrite !glen_app, glen_be, glen_firstn, glen_skipn. lia.
Qed.

Lemma nth_skipn_add {A} (d : A) : forall n (b : list A) i, nth i (skipn n b) d = nth (n + i) b d.
Proof.
  induction n as [|n IH]; intros b i; [reflexivity|].
  destruct b as [|x r]; cbn [skipn Nat.add nth]; [destruct i; reflexivity|apply IH].
Qed.

(* views y := x[off:] *)
Lemma gidx_v_eq b off i : 0 <= i -> gidx_v b off i = gidx b (off + i).
Proof. intros. unfold gidx_v. destruct (Z.ltb_spec i 0); [lia|reflexivity]. Qed.
Lemma gupd_v_eq b off i v : 0 <= i -> gupd_v b off i v = gupd b (off + i) v.
Proof. intros. unfold gupd_v. destruct (Z.ltb_spec i 0); [lia|reflexivity]. Qed.
(* a read through the view is a read of the slice (when the slice expression itself does not panic) *)
Lemma gidx_v_slice b off i : 0 <= off <= glen b ->
  gidx_v b off i = bind (gslice_from b off) (fun y => gidx y i).
Proof.
  intros H. rewrite gslice_from_ok by lia. cbn [bind]. unfold gidx_v.
  destruct (Z.ltb_spec i 0) as [Hi|Hi]; [symmetry; apply gidx_panic; lia|].
  destruct (Z.lt_ge_cases (off + i) (glen b)) as [L|L].
  - rewrite !gidx_ok by (rewrite ?glen_skipn; lia). f_equal. f_equal. f_equal.
    rewrite nth_skipn_add. f_equal. lia.
  - rewrite !gidx_panic by (rewrite ?glen_skipn; lia). reflexivity.
Qed.

(* ================================================================================================ *)
(* 5. explicit forms of the Base writers and readers; list helpers                                   *)
(* ================================================================================================ *)
Lemma copy_at_ok b off src : (off + N.of_nat (length src) <= len b)%N ->
  copy_at b off src = Ok (firstn (N.to_nat off) b ++ src ++ skipn (N.to_nat off + length src) b).
Proof.
  intros H. unfold copy_at. destruct (N.ltb_spec (len b) off); [lia|].
  rewrite Nat.min_l by (unfold len in H; lia). rewrite firstn_all. reflexivity.
Qed.
Lemma put_be_at_ok k b off x : (off + N.of_nat k <= len b)%N ->
  put_be_at k b off x = Ok (firstn (N.to_nat off) b ++ be k x ++ skipn (N.to_nat off + k) b).
Proof.
  intros H. unfold put_be_at. destruct (N.ltb_spec (len b) (off + N.of_nat k)); [lia|].
  rewrite copy_at_ok by (rewrite be_length; exact H). rewrite be_length. reflexivity.
Qed.
Lemma put_be_at_mod k b off x : put_be_at k b off (x mod 256 ^ N.of_nat k)%N = put_be_at k b off x.
Proof. unfold put_be_at. rewrite be_mod. reflexivity. Qed.
Lemma nth_firstn_lt {A} (d : A) : forall n (b : list A) i, (i < n)%nat -> nth i (firstn n b) d = nth i b d.
Proof.
  induction n as [|n IH]; intros b i Hi; [lia|].
  destruct b as [|x r]; [reflexivity|]. destruct i as [|i]; cbn [firstn nth]; [reflexivity|]. apply IH. lia.
Qed.
Lemma skipn_skipn_add {A} : forall n m (b : list A), skipn n (skipn m b) = skipn (m + n) b.
Proof.
  intros n m. revert n. induction m as [|m IH]; intros n b; [reflexivity|].
  destruct b as [|x r]; cbn [skipn Nat.add]; [destruct n; reflexivity|apply IH].
Qed.
(* a buffer of known length n is the list of its n elements *)
Lemma firstn_S_nth {A} (d : A) : forall n (b : list A), (n < length b)%nat -> firstn (S n) b = firstn n b ++ [nth n b d].
Proof.
  induction n as [|n IH]; intros b H; destruct b as [|x r]; cbn [length] in H; try lia; [reflexivity|].
  cbn [firstn nth app]. f_equal. apply IH. lia.
Qed.

(* ================================================================================================ *)
(* 6. finite sweeps                                                                                  *)
(* ================================================================================================ *)
Fixpoint all_from (fuel : nat) (i : N) (P : N -> bool) : bool :=
  match fuel with O => true | S f => if P i then all_from f (N.succ i) P else false end.
Definition all_below (n : N) (P : N -> bool) : bool := all_from (N.to_nat n) 0%N P.
Lemma all_from_spec P : forall fuel i, all_from fuel i P = true ->
  forall x, (i <= x < i + N.of_nat fuel)%N -> P x = true.
Proof.
  induction fuel as [|f IH]; intros i H x Hx; [lia|].
  cbn [all_from] in H. destruct (P i) eqn:E; [|discriminate].
  destruct (N.eq_dec x i) as [->|Hne]; [exact E|]. apply (IH (N.succ i) H). lia.
Qed.
Lemma all_below_spec n P : all_below n P = true -> forall x, (x < n)%N -> P x = true.
Proof. intros H x Hx. apply (all_from_spec P _ _ H). lia. Qed.
Lemma sweep_dec n (P : N -> Prop) (d : N -> bool) :
  (forall x, d x = true -> P x) -> all_below n d = true -> forall x, (x < n)%N -> P x.
Proof. intros Hd H x Hx. apply Hd. apply (all_below_spec n d H x Hx). Qed.
Lemma sweep_Z n (f g : N -> Z) : all_below n (fun x => f x =? g x) = true -> forall x, (x < n)%N -> f x = g x.
Proof. apply sweep_dec. intros x. apply Z.eqb_eq. Qed.
Lemma sweep_N n (f g : N -> N) : all_below n (fun x => (f x =? g x)%N) = true -> forall x, (x < n)%N -> f x = g x.
Proof. apply sweep_dec. intros x. apply N.eqb_eq. Qed.
Lemma sweep_bool n (f g : N -> bool) : all_below n (fun x => Bool.eqb (f x) (g x)) = true -> forall x, (x < n)%N -> f x = g x.
Proof. apply sweep_dec. intros x. apply Bool.eqb_prop. Qed.
Lemma sweep_byte n (f g : N -> byte) : all_below n (fun x => byte_eqb (f x) (g x)) = true -> forall x, (x < n)%N -> f x = g x.
Proof. apply sweep_dec. intros x. apply byte_eqb_eq. Qed.
Lemma sweep_bytes n (f g : N -> bytes) : all_below n (fun x => bytes_eqb (f x) (g x)) = true -> forall x, (x < n)%N -> f x = g x.
Proof. apply sweep_dec. intros x. apply bytes_eqb_eq. Qed.
Definition res_eqb {A} (e : A -> A -> bool) (r s : res A) : bool :=
  match r, s with Ok a, Ok b => e a b | Err, Err => true | Panic, Panic => true | Fuel, Fuel => true | _, _ => false end.
Lemma res_eqb_eq {A} (e : A -> A -> bool) : (forall a b, e a b = true -> a = b) ->
  forall r s, res_eqb e r s = true -> r = s.
Proof. intros He [a| | |] [b| | |] H; cbn in H; try discriminate; try reflexivity. f_equal. apply He. exact H. Qed.
Lemma sweep_resZ n (f g : N -> res Z) : all_below n (fun x => res_eqb Z.eqb (f x) (g x)) = true -> forall x, (x < n)%N -> f x = g x.
Proof. apply sweep_dec. intros x. apply res_eqb_eq. intros a b. apply Z.eqb_eq. Qed.
Lemma sweep_resbytes n (f g : N -> res bytes) : all_below n (fun x => res_eqb bytes_eqb (f x) (g x)) = true -> forall x, (x < n)%N -> f x = g x.
Proof. apply sweep_dec. intros x. apply res_eqb_eq. intros a b. apply bytes_eqb_eq. Qed.

(* ================================================================================================ *)
(* 7. tactics                                                                                        *)
(* ================================================================================================ *)
(* length side conditions *)
Ltac glen_solve :=
  rewrite ?glen_app, ?glen_cons, ?glen_nil, ?glen_be, ?glen_zeros, ?glen_repeat, ?glen_skipn, ?glen_firstn; lia.

(* literal conversions left behind by the transfer lemmas *)
Ltac nat_lits :=
  repeat match goal with
  | |- context [Z.to_nat (Z.pos ?p)] => let v := eval vm_compute in (Z.to_nat (Z.pos p)) in change (Z.to_nat (Z.pos p)) with v
  | |- context [N.to_nat (N.pos ?p)] => let v := eval vm_compute in (N.to_nat (N.pos p)) in change (N.to_nat (N.pos p)) with v
  | |- context [Z.to_nat 0] => change (Z.to_nat 0) with O
  | |- context [N.to_nat 0] => change (N.to_nat 0%N) with O
  | |- context [Z.to_N (Z.pos ?p)] => change (Z.to_N (Z.pos p)) with (N.pos p)
  | |- context [Z.to_N 0] => change (Z.to_N 0) with 0%N
  | |- context [Z.of_nat (S ?n)] => let v := eval vm_compute in (Z.of_nat (S n)) in change (Z.of_nat (S n)) with v
  end.

(* closing a goal [forall x, (x < B)%N -> f x = g x] by evaluation *)
Ltac sweep :=
  lazymatch goal with
  | |- forall x, (x < ?B)%N -> @eq Z (@?f x) (@?g x) => apply (sweep_Z B f g); vm_compute; reflexivity
  | |- forall x, (x < ?B)%N -> @eq N (@?f x) (@?g x) => apply (sweep_N B f g); vm_compute; reflexivity
  | |- forall x, (x < ?B)%N -> @eq bool (@?f x) (@?g x) => apply (sweep_bool B f g); vm_compute; reflexivity
  | |- forall x, (x < ?B)%N -> @eq byte (@?f x) (@?g x) => apply (sweep_byte B f g); vm_compute; reflexivity
  | |- forall x, (x < ?B)%N -> @eq bytes (@?f x) (@?g x) => apply (sweep_bytes B f g); vm_compute; reflexivity
  | |- forall x, (x < ?B)%N -> @eq (res Z) (@?f x) (@?g x) => apply (sweep_resZ B f g); vm_compute; reflexivity
  | |- forall x, (x < ?B)%N -> @eq (res bytes) (@?f x) (@?g x) => apply (sweep_resbytes B f g); vm_compute; reflexivity
  end.
(* a goal about one octet [b2n e]: generalise it to any x < 256 and sweep *)
Ltac sweep_octet e :=
  let x := fresh "x" in let Hx := fresh "Hx" in
  generalize (b2n_lt e); generalize (b2n e); sweep.

(* pushing Z.of_N outwards: normal forms are N.land / N.lor / N.shiftl / N.shiftr / u8..u64 / sub16 / + / *  *)
Lemma Zadd_N_r a p : Z.of_N a + Z.pos p = Z.of_N (a + N.pos p).  Proof. exact (eq_sym (N2Z.inj_add a (N.pos p))). Qed.
Lemma Zadd_N_l p a : Z.pos p + Z.of_N a = Z.of_N (N.pos p + a).  Proof. exact (eq_sym (N2Z.inj_add (N.pos p) a)). Qed.
Lemma Zadd_N a b : Z.of_N a + Z.of_N b = Z.of_N (a + b).  Proof. exact (eq_sym (N2Z.inj_add a b)). Qed.
Lemma Zmul_N_r a p : Z.of_N a * Z.pos p = Z.of_N (a * N.pos p).  Proof. exact (eq_sym (N2Z.inj_mul a (N.pos p))). Qed.
Lemma Zmul_N_l p a : Z.pos p * Z.of_N a = Z.of_N (N.pos p * a).  Proof. exact (eq_sym (N2Z.inj_mul (N.pos p) a)). Qed.
Lemma Zmul_N a b : Z.of_N a * Z.of_N b = Z.of_N (a * b).  Proof. exact (eq_sym (N2Z.inj_mul a b)). Qed.
Lemma Zltb_N a b : (Z.of_N a <? Z.of_N b) = (a <? b)%N.
Proof. destruct (Z.ltb_spec (Z.of_N a) (Z.of_N b)), (N.ltb_spec a b); try lia; reflexivity. Qed.
Lemma Zleb_N a b : (Z.of_N a <=? Z.of_N b) = (a <=? b)%N.
Proof. destruct (Z.leb_spec (Z.of_N a) (Z.of_N b)), (N.leb_spec a b); try lia; reflexivity. Qed.
Lemma Zeqb_N a b : (Z.of_N a =? Z.of_N b) = (a =? b)%N.
Proof. destruct (Z.eqb_spec (Z.of_N a) (Z.of_N b)), (N.eqb_spec a b); try lia; reflexivity. Qed.
Lemma Zltb_N_l p b : (Z.pos p <? Z.of_N b) = (N.pos p <? b)%N.  Proof. exact (Zltb_N (N.pos p) b). Qed.
Lemma Zltb_N_r a p : (Z.of_N a <? Z.pos p) = (a <? N.pos p)%N.  Proof. exact (Zltb_N a (N.pos p)). Qed.
Lemma Zltb_N_0l b : (0 <? Z.of_N b) = (0 <? b)%N.  Proof. exact (Zltb_N 0 b). Qed.
Lemma Zleb_N_l p b : (Z.pos p <=? Z.of_N b) = (N.pos p <=? b)%N.  Proof. exact (Zleb_N (N.pos p) b). Qed.
Lemma Zleb_N_r a p : (Z.of_N a <=? Z.pos p) = (a <=? N.pos p)%N.  Proof. exact (Zleb_N a (N.pos p)). Qed.
Lemma Zeqb_N_r a p : (Z.of_N a =? Z.pos p) = (a =? N.pos p)%N.  Proof. exact (Zeqb_N a (N.pos p)). Qed.
Lemma Zeqb_N_0r a : (Z.of_N a =? 0) = (a =? 0)%N.  Proof. exact (Zeqb_N a 0). Qed.

#[export] Hint Rewrite
  Zland_N Zland_N_r Zland_N_l Zlor_N Zlor_N_r Zlor_N_l Zlor_N_0l Zlor_N_0r
  gshl_N gshl_N_r gshl_N_l gshl_N_0 gshr_N gshr_N_r gshr_N_l gshr_N_0
  uwrap8_N uwrap16_N uwrap32_N uwrap64_N
  uwrap8_sub uwrap16_sub uwrap16_sub_l uwrap16_sub_r uwrap32_sub uwrap32_sub_l uwrap32_sub_r
  Zadd_N Zadd_N_r Zadd_N_l Zmul_N Zmul_N_r Zmul_N_l
  Zltb_N Zltb_N_l Zltb_N_r Zltb_N_0l Zleb_N Zleb_N_l Zleb_N_r Zeqb_N Zeqb_N_r Zeqb_N_0r
  Zrem_N Zquot_N : go2n.
Ltac go2n := autorewrite with go2n.

Print Assumptions Zland_N.
Print Assumptions Zlor_N.
Print Assumptions Zshiftl_N.
Print Assumptions Zshiftr_N.
Print Assumptions uwrap_N.
Print Assumptions uwrap_gshl_N.
Print Assumptions gshr_shr.
Print Assumptions uwrap16_sub.
Print Assumptions uwrap32_sub.
Print Assumptions Nland_le_r.
Print Assumptions swrap_small.
Print Assumptions swrap_unsigned.
Print Assumptions swrap16_N.
Print Assumptions byte_of_Z_N.
Print Assumptions byte_of_Z_uwrap.
Print Assumptions b2n_byte_of_Z.
Print Assumptions b2n_bounds.
Print Assumptions glen_len.
Print Assumptions gidx_idx.
Print Assumptions gidx_ok.
Print Assumptions gslice_N.
Print Assumptions gslice_from_N.
Print Assumptions gbe_get_N.
Print Assumptions gbe_get_at.
Print Assumptions be_mod.
Print Assumptions gbe_put_Z.
Print Assumptions gbe_put_N.
Print Assumptions gbe_put_ok_N.
Print Assumptions gmake_N.
Print Assumptions gupd_ok.
Print Assumptions gupd_copy_at.
Print Assumptions gidx_v_slice.
Print Assumptions copy_at_ok.
Print Assumptions put_be_at_ok.
Print Assumptions all_below_spec.
Print Assumptions sweep_resbytes.
