(* SDES, BYE, APP: Marshal = RFC reference encoding (C03), Unmarshal inverts it (C02), MarshalSize (C05), limits (C08),
   padded APP variant (C04) *)
From RTCP Require Import Proofs.Tactics Proofs.HeaderProofs Model.Header Model.Reports Model.Sdes Model.ByeApp Spec.Enc.
Local Open Scope N_scope.

(* ---------------------------------------------------------------- generic helpers *)
Lemma be2_u16 l : be 2 (u16 l) = be 2 l.
Proof. unfold u16. cbn [be app]. f_equal; [apply n2b_mod; lia|]. f_equal. apply n2b_mod; lia. Qed.
Lemma hdr_u16 p c t l : hdr p c t (u16 l) = hdr p c t l.
Proof. unfold hdr. rewrite be2_u16. reflexivity. Qed.
Lemma len_hdr p c t l : len (hdr p c t l) = 4.
Proof. reflexivity. Qed.
Lemma Header_unmarshal_hdr_u16 p c t l rest : c < 32 -> t < 256 ->
  Header_unmarshal (hdr p c t l ++ rest) = Ok (mkHeader p c t (u16 l)).
Proof.
  intros Hc Ht. rewrite <- hdr_u16. apply Header_unmarshal_hdr; auto. unfold u16. lia.
Qed.

Lemma firstn_len_app (a b : bytes) : firstn (N.to_nat (len a)) (a ++ b) = a.
Proof. unfold len. rewrite Nat2N.id, firstn_app, Nat.sub_diag, firstn_all. cbn [firstn]. apply app_nil_r. Qed.
Lemma skipn_len_app (a b : bytes) : skipn (N.to_nat (len a)) (a ++ b) = b.
Proof. unfold len. rewrite Nat2N.id, skipn_app, Nat.sub_diag, skipn_all. reflexivity. Qed.
Lemma slice_from_app (a b : bytes) i : i = len a -> slice_from (a ++ b) i = Ok b.
Proof. intros ->. rewrite slice_from_ok by (rewrite len_app; lia). rewrite skipn_len_app. reflexivity. Qed.
Lemma slice_mid (a m b : bytes) i j : i = len a -> j = len a + len m -> slice (a ++ m ++ b) i j = Ok m.
Proof.
  intros -> ->. rewrite slice_ok by (rewrite ?len_app; lia). rewrite skipn_len_app.
  replace (len a + len m - len a) with (len m) by lia. rewrite firstn_len_app. reflexivity.
Qed.
Lemma zeros_0 : zeros 0 = [].
Proof. reflexivity. Qed.
Lemma len_repeat (x : byte) n : len (repeat x n) = N.of_nat n.
Proof. unfold len. rewrite repeat_length. reflexivity. Qed.
Lemma pad4_len (b : bytes) : len (pad4 b) = len b + get_padding (len b).
Proof. unfold pad4. rewrite len_app, len_zeros. reflexivity. Qed.
Lemma fits_lt w x : fits w x = true -> x < 2 ^ w.
Proof. unfold fits. intros H. apply N.ltb_lt. exact H. Qed.

(* ================================================================ SDES *)
(* exactly what the code accepts on the way out *)
Definition item_ok (it : SItem) : bool := negb (it_type it =? 0) && (len (it_text it) <=? 255).
Definition chunk_ok (c : SChunk) : bool := forallb item_ok (ch_items c).

Lemma D_item_inv it : D_item it = true -> 0 < it_type it < 256 /\ len (it_text it) <= 255.
Proof.
  unfold D_item, fits. change (2 ^ 8) with 256. intros H.
  apply andb_true_iff in H as [H H3]. apply andb_true_iff in H as [H1 H2]. lia.
Qed.
Lemma D_item_ok it : D_item it = true -> item_ok it = true.
Proof. intros H. apply D_item_inv in H. unfold item_ok. destruct (N.eqb_spec (it_type it) 0); [lia|]. cbn [negb andb]. lia. Qed.
Lemma D_chunk_ok c : D_chunk c = true -> chunk_ok c = true.
Proof.
  unfold D_chunk, chunk_ok. intros H. apply andb_true_iff in H as [_ H].
  rewrite forallb_forall in *. intros it Hin. apply D_item_ok. auto.
Qed.

Lemma SItem_marshal_char it : SItem_marshal it = if item_ok it then Ok (enc_item it) else Err.
Proof.
  unfold SItem_marshal, item_ok, enc_item. consts.
  destruct (N.eqb_spec (it_type it) 0); cbn [negb andb]; [reflexivity|].
  destruct (N.ltb_spec 255 (len (it_text it))); destruct (N.leb_spec (len (it_text it)) 255); try lia; reflexivity.
Qed.
Lemma SItem_marshal_spec it : D_item it = true -> SItem_marshal it = Ok (enc_item it).
Proof. intros H. rewrite SItem_marshal_char, D_item_ok by exact H. reflexivity. Qed.

Lemma len_enc_item it : len (enc_item it) = SItem_len it.
Proof. unfold enc_item, SItem_len. consts. rewrite len_app. unfold len at 1. cbn [length]. lia. Qed.

Lemma SItem_unmarshal_enc_app it rest : D_item it = true -> SItem_unmarshal (enc_item it ++ rest) = Ok it.
Proof.
  intros H. apply D_item_inv in H as [Ht Hl].
  unfold SItem_unmarshal, enc_item. consts. cbn [app].
  set (b := n2b (it_type it) :: n2b (len (it_text it)) :: it_text it ++ rest).
  assert (Hb : len b = 2 + len (it_text it) + len rest) by (unfold b; rewrite !len_cons, len_app; lia).
  destruct (N.ltb_spec (len b) (1 + 1)); [lia|].
  rewrite !idx_ok by lia. cbn [bind].
  change (N.to_nat 0) with 0%nat. change (N.to_nat 1) with 1%nat. assert (N0 : nth 0 b x00 = n2b (it_type it)) by reflexivity.
  assert (N1 : nth 1 b x00 = n2b (len (it_text it))) by reflexivity. rewrite N0, N1.
  rewrite !b2n_n2b. rewrite (N.mod_small (len (it_text it))) by lia. rewrite (N.mod_small (it_type it)) by lia.
  destruct (N.ltb_spec (len b) (2 + len (it_text it))); [lia|].
  replace (slice b 2 (2 + len (it_text it))) with (Ok (it_text it)).
  - cbn [bind]. destruct it; reflexivity.
  - symmetry. unfold b.
    change (?x :: ?y :: ?t ++ rest) with ([x; y] ++ t ++ rest).
    apply slice_mid; reflexivity.
Qed.
Lemma SItem_unmarshal_enc it : D_item it = true -> SItem_unmarshal (enc_item it) = Ok it.
Proof. intros H. rewrite <- (app_nil_r (enc_item it)). apply SItem_unmarshal_enc_app. exact H. Qed.

(* ---- chunk ---- *)
Lemma items_marshal_char its :
  items_marshal its = if forallb item_ok its then Ok (concat (map enc_item its)) else Err.
Proof.
  induction its as [|it its IH]; [reflexivity|]. cbn [items_marshal forallb map concat].
  rewrite SItem_marshal_char. destruct (item_ok it); cbn [bind andb]; [|reflexivity].
  rewrite IH. destruct (forallb item_ok its); reflexivity.
Qed.

Lemma SChunk_marshal_char c : SChunk_marshal c = if chunk_ok c then Ok (enc_chunk c) else Err.
Proof.
  unfold SChunk_marshal, chunk_ok, enc_chunk, pad4. rewrite items_marshal_char.
  destruct (forallb item_ok (ch_items c)); reflexivity.
Qed.
Lemma SChunk_marshal_spec c : D_chunk c = true -> SChunk_marshal c = Ok (enc_chunk c).
Proof. intros H. rewrite SChunk_marshal_char, D_chunk_ok by exact H. reflexivity. Qed.

Lemma len_enc_items its : len (concat (map enc_item its)) = fold_right (fun it acc => SItem_len it + acc) 0 its.
Proof.
  induction its as [|it its IH]; [reflexivity|]. cbn [map concat fold_right]. rewrite len_app, len_enc_item, IH. reflexivity.
Qed.
(* chunk.len() is the length of the RFC encoding (no side condition) *)
Lemma SChunk_len_spec c : SChunk_len c = len (enc_chunk c).
Proof.
  unfold SChunk_len, enc_chunk. consts. rewrite pad4_len, !len_app, len_be, len_enc_items.
  change (len [x00]) with 1. cbn [N.of_nat Pos.of_succ_nat Pos.succ].
  set (t := fold_right (fun it acc => SItem_len it + acc) 0 (ch_items c)).
  replace (4 + (t + 1)) with (4 + t + 1) by lia. reflexivity.
Qed.
Lemma SChunk_len_bounds c : 8 <= SChunk_len c /\ SChunk_len c mod 4 = 0.
Proof.
  unfold SChunk_len. consts.
  set (l := 4 + fold_right (fun it acc => SItem_len it + acc) 0 (ch_items c) + 1).
  pose proof (get_padding_spec l) as [H1 H2]. assert (5 <= l) by (unfold l; lia). lia.
Qed.

Lemma items_count_le its : (length its <= length (concat (map enc_item its)))%nat.
Proof.
  induction its as [|it its IH]; [cbn; lia|]. cbn [map concat length]. rewrite app_length.
  unfold enc_item at 1. rewrite app_length. cbn [length]. lia.
Qed.

Lemma items_loop_enc : forall its fuel pre rest, forallb D_item its = true -> (length its < fuel)%nat ->
  items_loop fuel (pre ++ concat (map enc_item its) ++ x00 :: rest) (len pre) = Ok its.
Proof.
  induction its as [|it its IH]; intros fuel pre rest Hd Hf;
    (destruct fuel as [|f]; [cbn [length] in Hf; lia|]); cbn [items_loop map concat].
  - cbn [app]. destruct (N.ltb_spec (len pre) (len (pre ++ x00 :: rest))) as [_|A]; [|rewrite len_app, len_cons in A; lia].
    rewrite idx_app by reflexivity. cbn [bind]. reflexivity.
  - cbn [forallb] in Hd. apply andb_true_iff in Hd as [Hi Hd]. cbn [length] in Hf.
    pose proof (D_item_inv it Hi) as [Ht Hl].
    rewrite <- app_assoc.
    set (tl := concat (map enc_item its) ++ x00 :: rest).
    destruct (N.ltb_spec (len pre) (len (pre ++ enc_item it ++ tl))) as [_|A].
    2:{ rewrite !len_app, len_enc_item in A. unfold SItem_len in A. consts. lia. }
    replace (idx (pre ++ enc_item it ++ tl) (len pre)) with (Ok (n2b (it_type it)))
      by (symmetry; unfold enc_item; cbn [app]; apply idx_app; reflexivity).
    cbn [bind]. rewrite b2n_n2b, (N.mod_small (it_type it)) by lia. consts.
    destruct (N.eqb_spec (it_type it) 0); [lia|].
    rewrite slice_from_app by reflexivity. cbn [bind].
    rewrite SItem_unmarshal_enc_app by exact Hi. cbn [bind].
    rewrite <- len_enc_item, <- len_app, app_assoc. unfold tl.
    rewrite IH by (auto; lia). reflexivity.
Qed.

Lemma SChunk_unmarshal_enc c rest : D_chunk c = true -> SChunk_unmarshal (enc_chunk c ++ rest) = Ok c.
Proof.
  intros H. unfold D_chunk in H. apply andb_true_iff in H as [Hs Hi]. apply fits_lt in Hs.
  unfold SChunk_unmarshal, enc_chunk, pad4. consts.
  set (p := get_padding _).
  rewrite <- !app_assoc. cbn [app].
  set (b := be 4 (ch_src c) ++ concat (map enc_item (ch_items c)) ++ x00 :: zeros p ++ rest).
  assert (Hb : (4 + length (concat (map enc_item (ch_items c))) + 1 <= length b)%nat).
  { unfold b. rewrite !app_length, be_length. cbn [length]. lia. }
  destruct (N.ltb_spec (len b) (4 + 1)) as [A|_]; [unfold len in A; lia|].
  replace (get_be_at 4 b 0) with (Ok (ch_src c)).
  2:{ symmetry. unfold b. apply (get_be_at_app 4 [] (ch_src c)); [reflexivity|exact Hs]. }
  cbn [bind]. unfold b. change 4 with (len (be 4 (ch_src c))) at 1.
  rewrite items_loop_enc; [destruct c; reflexivity | exact Hi |].
  fold b. pose proof (items_count_le (ch_items c)). lia.
Qed.

(* ---- packet ---- *)
Definition chunks_len (cs : list SChunk) : N := fold_right (fun c acc => SChunk_len c + acc) 0 cs.

Lemma len_enc_chunks cs : len (concat (map enc_chunk cs)) = chunks_len cs.
Proof.
  induction cs as [|c cs IH]; [reflexivity|]. cbn [map concat chunks_len fold_right].
  rewrite len_app, <- SChunk_len_spec. fold (chunks_len cs). rewrite IH. reflexivity.
Qed.
Lemma chunks_len_mod4 cs : chunks_len cs mod 4 = 0.
Proof.
  induction cs as [|c cs IH]; [reflexivity|]. cbn [chunks_len fold_right]. fold (chunks_len cs).
  pose proof (SChunk_len_bounds c). lia.
Qed.
Lemma chunks_count_le cs : (length cs <= length (concat (map enc_chunk cs)))%nat.
Proof.
  induction cs as [|c cs IH]; [cbn; lia|]. cbn [map concat length]. rewrite app_length.
  pose proof (SChunk_len_bounds c) as [H _]. rewrite SChunk_len_spec in H. unfold len in H. lia.
Qed.

Lemma put_chunks_char : forall cs pre n, chunks_len cs <= n ->
  put_chunks (pre ++ zeros n) (len pre) cs =
  if forallb chunk_ok cs then Ok (pre ++ concat (map enc_chunk cs) ++ zeros (n - chunks_len cs)) else Err.
Proof.
  induction cs as [|c cs IH]; intros pre n Hn; cbn [put_chunks forallb map concat chunks_len fold_right].
  - cbn [app]. rewrite N.sub_0_r. reflexivity.
  - fold (chunks_len cs). cbn [chunks_len fold_right] in Hn. fold (chunks_len cs) in Hn.
    rewrite SChunk_marshal_char. destruct (chunk_ok c); cbn [bind andb]; [|reflexivity].
    rewrite SChunk_len_spec in *.
    rewrite (copy_at_fr pre n (enc_chunk c) (len pre)) by (try reflexivity; unfold len in *; lia).
    cbn [bind]. rewrite <- len_app. change (N.of_nat (length (enc_chunk c))) with (len (enc_chunk c)).
    rewrite IH by lia. destruct (forallb chunk_ok cs); [|reflexivity].
    replace (n - len (enc_chunk c) - chunks_len cs) with (n - (len (enc_chunk c) + chunks_len cs)) by lia.
    rewrite <- !app_assoc. reflexivity.
Qed.

Lemma SDES_size_spec_gen s : len (enc_SDES s) = SDES_size s /\ SDES_size s mod 4 = 0.
Proof.
  unfold enc_SDES, frame, SDES_size. consts. rewrite len_app, len_hdr, len_enc_chunks.
  fold (chunks_len (sd_chunks s)). pose proof (chunks_len_mod4 (sd_chunks s)). lia.
Qed.
Lemma SDES_size_spec s : D_SDES s = true -> len (enc_SDES s) = SDES_size s /\ SDES_size s mod 4 = 0.
Proof. intros _. apply SDES_size_spec_gen. Qed.

(* complete description of Marshal: which values are refused, and the bytes otherwise *)
Lemma SDES_marshal_char s :
  SDES_marshal s =
  if forallb chunk_ok (sd_chunks s) then (if 31 <? nl (sd_chunks s) then Err else Ok (enc_SDES s)) else Err.
Proof.
  unfold SDES_marshal, SDES_header, SDES_size. consts. fold (chunks_len (sd_chunks s)).
  rewrite zeros_add. change 4 with (len (zeros 4)) at 2.
  rewrite put_chunks_char by lia. destruct (forallb chunk_ok (sd_chunks s)); cbn [bind]; [|reflexivity].
  unfold nl, nlen. destruct (N.ltb_spec 31 (N.of_nat (length (sd_chunks s)))) as [|Hc]; [reflexivity|].
  rewrite Header_marshal_spec by (unfold u8; lia). cbn [bind].
  rewrite N.sub_diag, zeros_0, app_nil_r.
  rewrite copy_at_head' by reflexivity. f_equal.
  unfold enc_SDES, frame, nl. rewrite len_enc_chunks, hdr_u16.
  unfold u8. rewrite N.mod_small by lia. reflexivity.
Qed.

Lemma D_SDES_inv s : D_SDES s = true -> nl (sd_chunks s) <= 31 /\ forallb D_chunk (sd_chunks s) = true.
Proof. unfold D_SDES. intros H. apply andb_true_iff in H as [H1 H2]. split; [lia|exact H2]. Qed.
Lemma forallb_impl {A} (f g : A -> bool) l : (forall x, f x = true -> g x = true) -> forallb f l = true -> forallb g l = true.
Proof. intros H. rewrite !forallb_forall. auto. Qed.

Theorem SDES_marshal_spec s : D_SDES s = true -> SDES_marshal s = Ok (enc_SDES s).
Proof.
  intros H. apply D_SDES_inv in H as [Hn Hc]. rewrite SDES_marshal_char.
  rewrite (forallb_impl D_chunk chunk_ok _ D_chunk_ok Hc).
  destruct (N.ltb_spec 31 (nl (sd_chunks s))); [lia|reflexivity].
Qed.

Lemma chunks_loop_enc : forall cs fuel pre, forallb D_chunk cs = true -> (length cs < fuel)%nat ->
  chunks_loop fuel (pre ++ concat (map enc_chunk cs)) (len pre) = Ok cs.
Proof.
  induction cs as [|c cs IH]; intros fuel pre Hd Hf;
    (destruct fuel as [|f]; [cbn [length] in Hf; lia|]); cbn [chunks_loop map concat].
  - rewrite app_nil_r. destruct (N.ltb_spec (len pre) (len pre)); [lia|reflexivity].
  - cbn [forallb] in Hd. apply andb_true_iff in Hd as [Hc Hd]. cbn [length] in Hf.
    pose proof (SChunk_len_bounds c) as [Hl _]. rewrite SChunk_len_spec in Hl.
    destruct (N.ltb_spec (len pre) (len (pre ++ enc_chunk c ++ concat (map enc_chunk cs)))) as [_|A];
      [|rewrite !len_app in A; lia].
    rewrite slice_from_app by reflexivity. cbn [bind].
    rewrite SChunk_unmarshal_enc by exact Hc. cbn [bind].
    rewrite SChunk_len_spec, <- len_app, app_assoc.
    rewrite IH by (auto; lia). reflexivity.
Qed.

Theorem SDES_unmarshal_enc s : D_SDES s = true -> SDES_unmarshal (enc_SDES s) = Ok s.
Proof.
  intros H. apply D_SDES_inv in H as [Hn Hc].
  unfold SDES_unmarshal, enc_SDES, frame.
  rewrite Header_unmarshal_hdr_u16 by lia. cbn [bind h_type h_count]. consts.
  change (202 =? 202) with true. cbn [negb].
  set (h := hdr _ _ _ _). change 4 with (len h).
  rewrite chunks_loop_enc; [| exact Hc |].
  - cbn [bind]. unfold nlen, nl. rewrite N.eqb_refl. cbn [negb]. destruct s; reflexivity.
  - rewrite app_length. pose proof (chunks_count_le (sd_chunks s)). lia.
Qed.

(* ---- limits (C08) ---- *)
Lemma SDES_marshal_too_many s : 31 < nl (sd_chunks s) -> SDES_marshal s = Err.
Proof.
  intros H. rewrite SDES_marshal_char. destruct (forallb chunk_ok (sd_chunks s)); [|reflexivity].
  destruct (N.ltb_spec 31 (nl (sd_chunks s))); [reflexivity|lia].
Qed.
Lemma SDES_marshal_bad_item s c it : In c (sd_chunks s) -> In it (ch_items c) -> item_ok it = false -> SDES_marshal s = Err.
Proof.
  intros Hc Hi Hb. rewrite SDES_marshal_char.
  destruct (forallb chunk_ok (sd_chunks s)) eqn:E; [|reflexivity].
  rewrite forallb_forall in E. specialize (E c Hc). unfold chunk_ok in E.
  rewrite forallb_forall in E. specialize (E it Hi). congruence.
Qed.
Lemma SDES_marshal_type0 s c it : In c (sd_chunks s) -> In it (ch_items c) -> it_type it = 0 -> SDES_marshal s = Err.
Proof.
  intros Hc Hi Ht. apply (SDES_marshal_bad_item s c it Hc Hi). unfold item_ok. rewrite Ht. reflexivity.
Qed.
Lemma SDES_marshal_long_text s c it : In c (sd_chunks s) -> In it (ch_items c) -> 255 < len (it_text it) -> SDES_marshal s = Err.
Proof.
  intros Hc Hi Ht. apply (SDES_marshal_bad_item s c it Hc Hi). unfold item_ok.
  destruct (N.leb_spec (len (it_text it)) 255); [lia|]. apply andb_false_r.
Qed.
Lemma SItem_marshal_type0 it : it_type it = 0 -> SItem_marshal it = Err.
Proof. intros H. rewrite SItem_marshal_char. unfold item_ok. rewrite H. reflexivity. Qed.
Lemma SItem_marshal_long_text it : 255 < len (it_text it) -> SItem_marshal it = Err.
Proof.
  intros H. rewrite SItem_marshal_char. unfold item_ok.
  destruct (N.leb_spec (len (it_text it)) 255); [lia|]. rewrite andb_false_r. reflexivity.
Qed.
(* Marshal succeeds exactly on: at most 31 chunks, no item of type 0, no text above 255 octets *)
Lemma SDES_marshal_ok_iff s :
  (exists b, SDES_marshal s = Ok b) <-> (nl (sd_chunks s) <= 31 /\ forallb chunk_ok (sd_chunks s) = true).
Proof.
  rewrite SDES_marshal_char. split.
  - intros [b Hb]. destruct (forallb chunk_ok (sd_chunks s)); [|discriminate].
    destruct (N.ltb_spec 31 (nl (sd_chunks s))); [discriminate|]. split; [lia|reflexivity].
  - intros [Hn ->]. destruct (N.ltb_spec 31 (nl (sd_chunks s))); [lia|]. eexists; reflexivity.
Qed.

(* ================================================================ BYE *)
Definition bye_rpart (r : bytes) : bytes := match r with [] => [] | _ => n2b (len r) :: r end.
Definition bye_body (g : BYE) : bytes := concat (map (be 4) (bye_sources g)) ++ bye_rpart (bye_reason g).
Lemma enc_BYE_unfold g : enc_BYE g = frame false (nl (bye_sources g)) 203 (pad4 (bye_body g)).
Proof. unfold enc_BYE, bye_body, bye_rpart. destruct (bye_reason g); reflexivity. Qed.
Lemma bye_rpart_pos r : 0 < len r -> bye_rpart r = n2b (len r) :: r.
Proof. destruct r; [intros H; cbn in H; lia | reflexivity]. Qed.
Lemma len_0_nil (r : bytes) : len r <= 0 -> r = [].
Proof. destruct r; [reflexivity|]. rewrite len_cons. lia. Qed.
Lemma len_bye_rpart r : len (bye_rpart r) = if 0 <? len r then len r + 1 else len r.
Proof.
  destruct r as [|x r]; [reflexivity|]. unfold bye_rpart. rewrite !len_cons.
  destruct (N.ltb_spec 0 (1 + len r)); lia.
Qed.
Lemma len_concat_be4 l : len (concat (map (be 4) l)) = 4 * N.of_nat (length l).
Proof.
  induction l as [|x l IH]; [reflexivity|]. cbn [map concat length]. rewrite len_app, len_be, IH. lia.
Qed.
Lemma get_padding_add4 x : get_padding (4 + x) = get_padding x.
Proof. unfold get_padding. replace ((4 + x) mod 4) with (x mod 4) by lia. reflexivity. Qed.

Lemma BYE_size_eq g : BYE_size g = 4 + len (pad4 (bye_body g)).
Proof.
  unfold BYE_size, bye_body. consts. rewrite pad4_len, len_app, len_concat_be4, len_bye_rpart. unfold nlen.
  set (rl := if 0 <? len (bye_reason g) then len (bye_reason g) + 1 else len (bye_reason g)).
  set (n := N.of_nat (length (bye_sources g))).
  replace (4 + n * 4 + rl) with (4 + (4 * n + rl)) by lia. rewrite get_padding_add4. lia.
Qed.

Lemma put_u32s_fr : forall l pre n off, off = len pre -> 4 * N.of_nat (length l) <= n ->
  put_u32s (pre ++ zeros n) off l = Ok ((pre ++ concat (map (be 4) l)) ++ zeros (n - 4 * N.of_nat (length l))).
Proof.
  induction l as [|x l IH]; intros pre n off -> Hn; cbn [put_u32s map concat].
  - rewrite app_nil_r, N.sub_0_r. reflexivity.
  - cbn [length] in Hn. rewrite (put_be_fr 4 pre n x (len pre)) by (try reflexivity; lia). cbn [bind].
    rewrite (IH (pre ++ be 4 x) (n - N.of_nat 4) (len pre + 4)) by (rewrite ?len_app, ?len_be; lia).
    f_equal. f_equal; [rewrite <- app_assoc; reflexivity | f_equal; cbn [length]; lia].
Qed.

Lemma BYE_marshal_char g : BYE_marshal g =
  if 31 <? nl (bye_sources g) then Err else if 255 <? len (bye_reason g) then Err else Ok (enc_BYE g).
Proof.
  unfold BYE_marshal, BYE_header. rewrite BYE_size_eq. consts. unfold nl, nlen.
  destruct (N.ltb_spec 31 (N.of_nat (length (bye_sources g)))) as [|Hn]; [reflexivity|].
  pose proof (pad4_len (bye_body g)) as Hm. unfold bye_body at 2 3 in Hm.
  rewrite len_app, len_concat_be4, len_bye_rpart in Hm.
  set (m := len (pad4 (bye_body g))) in *.
  set (C := concat (map (be 4) (bye_sources g))).
  assert (HC : len C = 4 * N.of_nat (length (bye_sources g))) by apply len_concat_be4.
  rewrite zeros_add.
  rewrite (put_u32s_fr _ (zeros 4) m 4) by (try reflexivity; destruct (0 <? len (bye_reason g)); lia).
  cbn [bind]. fold C.
  rewrite enc_BYE_unfold. unfold frame, nl. fold m.
  destruct (N.ltb_spec 0 (len (bye_reason g))) as [Hr|Hr].
  - destruct (N.ltb_spec 255 (len (bye_reason g))) as [|Hr2]; [reflexivity|].
    rewrite copy_at_fr; [| rewrite len_app, len_zeros; lia | cbn [length]; lia]. cbn [bind length].
    rewrite copy_at_fr; [| rewrite !len_app, len_zeros, len_cons, len_nil; lia | fold (len (bye_reason g)); lia].
    cbn [bind]. rewrite Header_marshal_spec by (unfold u8; lia). cbn [bind].
    rewrite <- !app_assoc. rewrite copy_at_head' by reflexivity.
    rewrite hdr_u16. unfold u8. rewrite N.mod_small by lia.
    f_equal. f_equal. unfold pad4, bye_body. fold C.
    rewrite bye_rpart_pos by exact Hr. fold (len (bye_reason g)). rewrite <- app_assoc. cbn [app].
    do 4 f_equal. rewrite len_app, len_cons, HC.
    replace (1 + len (bye_reason g)) with (len (bye_reason g) + 1) by lia. lia.
  - apply len_0_nil in Hr. rewrite Hr in *. cbn [bind]. change (255 <? len []) with false. cbv iota.
    rewrite Header_marshal_spec by (unfold u8; lia). cbn [bind].
    rewrite <- !app_assoc. rewrite copy_at_head' by reflexivity.
    rewrite hdr_u16. unfold u8. rewrite N.mod_small by lia.
    f_equal. f_equal. unfold pad4, bye_body. fold C. rewrite Hr. cbn [bye_rpart]. rewrite <- app_assoc. cbn [app].
    do 2 f_equal. rewrite app_nil_r. change (len []) with 0 in Hm. cbn [N.ltb] in Hm.
    rewrite N.add_0_r in Hm. rewrite HC. lia.
Qed.

Lemma get_u32s_enc : forall l pre rest off, off = len pre -> forallb (fits 32) l = true ->
  get_u32s (length l) (pre ++ concat (map (be 4) l) ++ rest) off = Ok l.
Proof.
  induction l as [|x l IH]; intros pre rest off -> Hf; [reflexivity|].
  cbn [forallb] in Hf. apply andb_true_iff in Hf as [Hx Hf]. apply fits_lt in Hx. change (2 ^ 32) with 4294967296 in Hx.
  cbn [length get_u32s map concat]. rewrite <- app_assoc.
  rewrite get_be_at_app by (try reflexivity; change (256 ^ N.of_nat 4) with 4294967296; exact Hx).
  cbn [bind]. rewrite app_assoc.
  rewrite IH by (try exact Hf; rewrite len_app, len_be; lia). reflexivity.
Qed.

Lemma D_BYE_inv g : D_BYE g = true ->
  nl (bye_sources g) <= 31 /\ forallb (fits 32) (bye_sources g) = true /\ len (bye_reason g) <= 255.
Proof.
  unfold D_BYE. intros H. apply andb_true_iff in H as [H H3]. apply andb_true_iff in H as [H1 H2].
  repeat split; [lia | exact H2 | lia].
Qed.

Theorem BYE_marshal_spec g : D_BYE g = true -> BYE_marshal g = Ok (enc_BYE g).
Proof.
  intros H. apply D_BYE_inv in H as (Hn & _ & Hr). rewrite BYE_marshal_char.
  destruct (N.ltb_spec 31 (nl (bye_sources g))); [lia|].
  destruct (N.ltb_spec 255 (len (bye_reason g))); [lia|reflexivity].
Qed.

Lemma BYE_size_spec_gen g : len (enc_BYE g) = BYE_size g /\ BYE_size g mod 4 = 0.
Proof.
  rewrite enc_BYE_unfold, BYE_size_eq. unfold frame. rewrite len_app, len_hdr. split; [reflexivity|].
  rewrite pad4_len. pose proof (get_padding_spec (len (bye_body g))) as [H _]. lia.
Qed.
Theorem BYE_size_spec g : D_BYE g = true -> len (enc_BYE g) = BYE_size g /\ BYE_size g mod 4 = 0.
Proof. intros _. apply BYE_size_spec_gen. Qed.

Theorem BYE_unmarshal_enc g : D_BYE g = true -> BYE_unmarshal (enc_BYE g) = Ok g.
Proof.
  intros H. apply D_BYE_inv in H as (Hn & Hs & Hr). unfold nl in Hn.
  rewrite enc_BYE_unfold. unfold BYE_unmarshal, frame.
  rewrite Header_unmarshal_hdr_u16 by (unfold nl; lia). cbn [bind h_type h_count]. consts.
  change (203 =? 203) with true. cbn [negb].
  set (h := hdr _ _ _ _). assert (Hh : len h = 4) by reflexivity.
  pose proof (pad4_len (bye_body g)) as Hm. pose proof (get_padding_spec (len (bye_body g))) as [Hp4 Hp].
  assert (Hb : len (bye_body g) = 4 * N.of_nat (length (bye_sources g)) + len (bye_rpart (bye_reason g))).
  { unfold bye_body. rewrite len_app, len_concat_be4. reflexivity. }
  set (C := concat (map (be 4) (bye_sources g))).
  set (p := get_padding (len (bye_body g))) in *.
  assert (E : pad4 (bye_body g) = C ++ bye_rpart (bye_reason g) ++ zeros p)
    by (unfold pad4, bye_body; rewrite <- app_assoc; reflexivity).
  rewrite len_app, Hh.
  set (m := len (pad4 (bye_body g))) in *. rewrite E. clear E.
  replace (get_padding (4 + m)) with 0
    by (rewrite get_padding_add4; unfold get_padding; rewrite Hm, Hp4; reflexivity).
  change (0 =? 0) with true. cbn [negb]. unfold nl, u8.
  set (n := N.of_nat (length (bye_sources g))) in *.
  assert (HC : len C = 4 * n) by apply len_concat_be4.
  replace ((4 + (n * 4) mod 256) mod 256) with (4 + 4 * n) by lia.
  destruct (N.ltb_spec (4 + m) (4 + 4 * n)) as [A|_]; [lia|].
  unfold n at 1. rewrite Nat2N.id.
  rewrite (get_u32s_enc (bye_sources g) h _ 4) by (auto; reflexivity). cbn [bind].
  destruct (N.ltb_spec 0 (len (bye_reason g))) as [Hr0|Hr0].
  - rewrite bye_rpart_pos in * by exact Hr0. rewrite len_cons in Hb.
    destruct (N.ltb_spec (4 + 4 * n) (4 + m)) as [_|A]; [|lia].
    cbn [app].
    replace (idx (h ++ C ++ n2b (len (bye_reason g)) :: bye_reason g ++ zeros p) (4 + 4 * n))
      with (Ok (n2b (len (bye_reason g))))
      by (symmetry; rewrite app_assoc; apply idx_app; rewrite len_app; lia).
    cbn [bind]. rewrite b2n_n2b, N.mod_small by lia.
    destruct (N.ltb_spec (4 + m) (4 + 4 * n + 1 + len (bye_reason g))) as [A|_]; [lia|].
    replace (slice (h ++ C ++ n2b (len (bye_reason g)) :: bye_reason g ++ zeros p) (4 + 4 * n + 1)
               (4 + 4 * n + 1 + len (bye_reason g))) with (Ok (bye_reason g)).
    + cbn [bind]. destruct g; reflexivity.
    + symmetry. change (h ++ C ++ ?x :: ?t) with (h ++ C ++ [x] ++ t). rewrite !app_assoc. rewrite <- (app_assoc _ (bye_reason g)).
      apply slice_mid; rewrite !len_app, len_cons, len_nil; lia.
  - apply len_0_nil in Hr0. rewrite Hr0 in *. cbn [bye_rpart] in *. change (len []) with 0 in Hb.
    destruct (N.ltb_spec (4 + 4 * n) (4 + m)) as [A|_].
    { exfalso. unfold p in Hm. rewrite Hb, N.add_0_r in Hm. unfold get_padding in Hm.
      replace ((4 * n) mod 4) with 0 in Hm by lia. cbn [N.eqb] in Hm. lia. }
    cbn [bind]. destruct g; cbn in *; subst; reflexivity.
Qed.

(* ---- limits (C08) ---- *)
Lemma BYE_marshal_too_many g : 31 < nl (bye_sources g) -> BYE_marshal g = Err.
Proof. intros H. rewrite BYE_marshal_char. destruct (N.ltb_spec 31 (nl (bye_sources g))); [reflexivity|lia]. Qed.
Lemma BYE_marshal_long_reason g : 255 < len (bye_reason g) -> BYE_marshal g = Err.
Proof.
  intros H. rewrite BYE_marshal_char. destruct (31 <? nl (bye_sources g)); [reflexivity|].
  destruct (N.ltb_spec 255 (len (bye_reason g))); [reflexivity|lia].
Qed.
Lemma BYE_marshal_ok_iff g :
  (exists b, BYE_marshal g = Ok b) <-> (nl (bye_sources g) <= 31 /\ len (bye_reason g) <= 255).
Proof.
  rewrite BYE_marshal_char. split.
  - intros [b Hb]. destruct (N.ltb_spec 31 (nl (bye_sources g))); [discriminate|].
    destruct (N.ltb_spec 255 (len (bye_reason g))); [discriminate|]. lia.
  - intros [H1 H2]. destruct (N.ltb_spec 31 (nl (bye_sources g))); [lia|].
    destruct (N.ltb_spec 255 (len (bye_reason g))); [lia|]. eexists; reflexivity.
Qed.

(* ================================================================ APP *)
Lemma app_padding_eq d : app_padding d = get_padding d.
Proof.
  unfold app_padding, get_padding. destruct (N.eqb_spec (d mod 4) 0) as [E|E].
  - rewrite E. reflexivity.
  - destruct (N.eqb_spec (4 - d mod 4) 4); [lia|reflexivity].
Qed.

Lemma D_APP_inv a : D_APP a = true ->
  app_subtype a < 32 /\ app_ssrc a < 4294967296 /\ len (app_name a) = 4 /\ len (app_data a) <= 65523.
Proof.
  unfold D_APP, fits. change (2 ^ 5) with 32. change (2 ^ 32) with 4294967296. intros H.
  apply andb_true_iff in H as [H H4]. apply andb_true_iff in H as [H H3]. apply andb_true_iff in H as [H1 H2].
  repeat split; lia.
Qed.

Lemma APP_size_spec_gen a : len (app_name a) = 4 -> len (enc_APP a) = APP_size a /\ APP_size a mod 4 = 0.
Proof.
  intros Hn. unfold enc_APP, frame, APP_size, app_pad. rewrite app_padding_eq.
  rewrite !len_app, len_hdr, len_be, len_repeat, N2Nat.id, Hn.
  pose proof (get_padding_spec (len (app_data a))) as [H _]. cbn [N.of_nat Pos.of_succ_nat Pos.succ]. lia.
Qed.
Theorem APP_size_spec a : D_APP a = true -> len (enc_APP a) = APP_size a /\ APP_size a mod 4 = 0.
Proof. intros H. apply D_APP_inv in H as (_ & _ & Hn & _). apply APP_size_spec_gen. exact Hn. Qed.

(* complete description of Marshal *)
Lemma APP_marshal_char a : APP_marshal a =
  if 65523 <? len (app_data a) then Err else
  if negb (len (app_name a) =? 4) then Err else
  if 31 <? app_subtype a then Err else Ok (enc_APP a).
Proof.
  unfold APP_marshal. change (65535 - 12) with 65523. consts.
  destruct (N.ltb_spec 65523 (len (app_data a))) as [|Hd]; [reflexivity|].
  destruct (N.eqb_spec (len (app_name a)) 4) as [Hn|]; cbn [negb]; [|reflexivity].
  destruct (N.ltb_spec 31 (app_subtype a)) as [Hs|Hs].
  { rewrite Header_marshal_err by (cbn [h_count]; exact Hs). reflexivity. }
  rewrite Header_marshal_spec by lia. cbn [bind].
  unfold enc_APP, frame, app_pad, APP_size. rewrite app_padding_eq.
  set (dl := len (app_data a)) in *. set (pd := get_padding dl).
  pose proof (get_padding_spec dl) as [Hp4 Hp]. fold pd in Hp4, Hp.
  rewrite !len_app, len_be, len_repeat, N2Nat.id, Hn. fold dl. cbn [N.of_nat Pos.of_succ_nat Pos.succ].
  rewrite hdr_u16.
  replace ((4 + (4 + (4 + (dl + pd)))) / 4 - 1) with ((12 + dl + pd) / 4 - 1) by (f_equal; f_equal; lia).
  replace (negb (pd =? 0)) with (0 <? pd)
    by (destruct (N.eqb_spec pd 0); destruct (N.ltb_spec 0 pd); try lia; reflexivity).
  set (h := hdr _ _ _ _). assert (Hh : len h = 4) by reflexivity.
  replace (12 + dl + pd) with (4 + (8 + dl + pd)) by lia. rewrite zeros_add.
  rewrite copy_at_head' by exact Hh. cbn [bind].
  rewrite put_be_fr by (try exact (eq_sym Hh); lia). cbn [bind].
  rewrite copy_at_fr; [| rewrite len_app, len_be, Hh; reflexivity | fold (len (app_name a)); lia]. cbn [bind].
  fold (len (app_name a)). rewrite Hn.
  rewrite copy_at_fr; [| rewrite !len_app, len_be, Hh, Hn; reflexivity | fold (len (app_data a)); fold dl; lia]. cbn [bind].
  fold (len (app_data a)). fold dl.
  rewrite copy_at_fr; [| rewrite !len_app, len_be, Hh, Hn; fold dl; lia | rewrite repeat_length; lia].
  rewrite repeat_length, N2Nat.id.
  replace (8 + dl + pd - N.of_nat 4 - 4 - dl - pd) with 0 by lia. rewrite zeros_0, app_nil_r.
  rewrite <- !app_assoc. reflexivity.
Qed.

Theorem APP_marshal_spec a : D_APP a = true -> APP_marshal a = Ok (enc_APP a).
Proof.
  intros H. apply D_APP_inv in H as (Hs & _ & Hn & Hd). rewrite APP_marshal_char.
  destruct (N.ltb_spec 65523 (len (app_data a))); [lia|]. rewrite Hn. cbn [N.eqb Pos.eqb negb].
  destruct (N.ltb_spec 31 (app_subtype a)); [lia|reflexivity].
Qed.

(* ---- limits (C08) ---- *)
Lemma APP_marshal_long_data a : 65523 < len (app_data a) -> APP_marshal a = Err.
Proof. intros H. rewrite APP_marshal_char. destruct (N.ltb_spec 65523 (len (app_data a))); [reflexivity|lia]. Qed.
Lemma APP_marshal_bad_name a : len (app_name a) <> 4 -> APP_marshal a = Err.
Proof.
  intros H. rewrite APP_marshal_char. destruct (65523 <? len (app_data a)); [reflexivity|].
  destruct (N.eqb_spec (len (app_name a)) 4); [contradiction|reflexivity].
Qed.
Lemma APP_marshal_bad_subtype a : 31 < app_subtype a -> APP_marshal a = Err.
Proof.
  intros H. rewrite APP_marshal_char. destruct (65523 <? len (app_data a)); [reflexivity|].
  destruct (negb (len (app_name a) =? 4)); [reflexivity|].
  destruct (N.ltb_spec 31 (app_subtype a)); [reflexivity|lia].
Qed.
Lemma APP_marshal_ok_iff a :
  (exists b, APP_marshal a = Ok b) <-> (app_subtype a <= 31 /\ len (app_name a) = 4 /\ len (app_data a) <= 65523).
Proof.
  rewrite APP_marshal_char. split.
  - intros [b Hb]. destruct (N.ltb_spec 65523 (len (app_data a))); [discriminate|].
    destruct (N.eqb_spec (len (app_name a)) 4); cbn [negb] in Hb; [|discriminate].
    destruct (N.ltb_spec 31 (app_subtype a)); [discriminate|]. repeat split; lia.
  - intros (H1 & H2 & H3). destruct (N.ltb_spec 65523 (len (app_data a))); [lia|].
    rewrite H2. cbn [N.eqb Pos.eqb negb]. destruct (N.ltb_spec 31 (app_subtype a)); [lia|]. eexists; reflexivity.
Qed.

(* ---- Unmarshal: one lemma covering the reference encoding and every padded variant.
   pb = the padding octets (possibly none), lp their number; when present the last one holds lp *)
Lemma APP_unmarshal_gen a pb lp :
  app_subtype a < 32 -> app_ssrc a < 4294967296 -> len (app_name a) = 4 ->
  len pb = lp -> lp <= 255 -> (lp = 0 \/ exists q, pb = q ++ [n2b lp]) ->
  (len (app_data a) + lp) mod 4 = 0 -> 12 + len (app_data a) + lp < 262144 ->
  APP_unmarshal (frame (0 <? lp) (app_subtype a) 204 (be 4 (app_ssrc a) ++ app_name a ++ app_data a ++ pb)) = Ok a.
Proof.
  intros Hs Hssrc Hn Hlp Hlp255 Hlast Hmod Htot.
  unfold frame. set (body := be 4 _ ++ _).
  assert (Hbody : len body = 8 + len (app_data a) + lp) by (unfold body; rewrite !len_app, len_be, Hn, Hlp; cbn [N.of_nat Pos.of_succ_nat Pos.succ]; lia).
  unfold APP_unmarshal. rewrite Header_unmarshal_hdr_u16 by lia. cbn [bind h_pad h_count h_type h_len]. consts.
  set (h := hdr _ _ _ _). assert (Hh : len h = 4) by reflexivity.
  set (raw := h ++ body). set (dl := len (app_data a)) in *.
  assert (Hraw : len raw = 12 + dl + lp) by (unfold raw; rewrite len_app; lia).
  rewrite Hbody.
  destruct (N.ltb_spec (len raw) 12); [lia|].
  change (204 =? 204) with true. cbn [negb].
  destruct (N.eqb_spec (u16 (u16 ((4 + (8 + dl + lp)) / 4 - 1) + 1) * 4) (len raw)) as [_|A];
    [|exfalso; apply A; unfold u16; lia].
  cbn [negb].
  replace (get_be_at 4 raw 4) with (Ok (app_ssrc a))
    by (symmetry; unfold raw, body; apply get_be_at_app; [reflexivity | change (256 ^ N.of_nat 4) with 4294967296; lia]).
  cbn [bind].
  replace (slice raw 8 12) with (Ok (app_name a))
    by (symmetry; unfold raw, body; rewrite app_assoc; apply slice_mid; rewrite ?len_app, ?len_be, ?Hh, ?Hn; reflexivity).
  cbn [bind].
  assert (Hdata : slice raw 12 (12 + dl) = Ok (app_data a)).
  { unfold raw, body. rewrite (app_assoc (be 4 (app_ssrc a))), (app_assoc h).
    apply slice_mid; rewrite ?len_app, ?len_be, ?Hh, ?Hn; reflexivity. }
  destruct (N.ltb_spec 0 lp) as [Hpos|Hzero].
  - destruct Hlast as [?|(q & Eq)]; [lia|].
    assert (Hq : lp = len q + 1) by (rewrite <- Hlp, Eq, len_app; reflexivity).
    replace (idx raw (len raw - 1)) with (Ok (n2b lp)).
    2:{ symmetry. unfold raw, body. rewrite Eq. rewrite !app_assoc. apply idx_app.
        rewrite !len_app, len_cons, len_nil. lia. }
    cbn [bind]. rewrite b2n_n2b, N.mod_small by lia.
    destruct (N.ltb_spec (len raw - 12) lp); [lia|]. cbn [bind].
    replace (len raw - lp) with (12 + dl) by lia. rewrite Hdata. cbn [bind]. destruct a; reflexivity.
  - cbn [bind]. replace (len raw - 0) with (12 + dl) by lia. rewrite Hdata. cbn [bind]. destruct a; reflexivity.
Qed.

Lemma repeat_snoc {A} (x : A) n : repeat x (S n) = repeat x n ++ [x].
Proof. induction n as [|n IH]; [reflexivity|]. cbn [repeat app] in *. rewrite <- IH. reflexivity. Qed.

Theorem APP_unmarshal_enc a : D_APP a = true -> APP_unmarshal (enc_APP a) = Ok a.
Proof.
  intros H. apply D_APP_inv in H as (Hs & Hssrc & Hn & Hd).
  unfold enc_APP, app_pad. pose proof (get_padding_spec (len (app_data a))) as [Hp4 Hp].
  set (pd := get_padding (len (app_data a))) in *.
  apply APP_unmarshal_gen; auto; try lia.
  - rewrite len_repeat, N2Nat.id. reflexivity.
  - destruct (N.eq_dec pd 0) as [|Hne]; [left; assumption|right].
    exists (repeat (n2b pd) (pred (N.to_nat pd))).
    replace (N.to_nat pd) with (S (pred (N.to_nat pd))) at 1 by lia. apply repeat_snoc.
Qed.

(* C04, padded variant: data a multiple of 4, P bit set, 4k padding octets of which the last is 4k
   (the others arbitrary): same value *)
Theorem APP_unmarshal_padded a k fill :
  D_APP a = true -> len (app_data a) mod 4 = 0 -> 1 <= k <= 63 -> len fill = 4 * k - 1 ->
  APP_unmarshal (frame true (app_subtype a) 204
                   (be 4 (app_ssrc a) ++ app_name a ++ app_data a ++ fill ++ [n2b (4 * k)])) = Ok a.
Proof.
  intros H Hm Hk Hf. apply D_APP_inv in H as (Hs & Hssrc & Hn & Hd).
  replace true with (0 <? 4 * k) by (destruct (N.ltb_spec 0 (4 * k)); [reflexivity|lia]).
  apply APP_unmarshal_gen; auto; try lia.
  - rewrite len_app, Hf. change (len [n2b (4 * k)]) with 1. lia.
  - right. exists fill. reflexivity.
Qed.

(* ================================================================ audit *)
Print Assumptions SItem_marshal_spec.
Print Assumptions SItem_unmarshal_enc.
Print Assumptions SItem_unmarshal_enc_app.
Print Assumptions SChunk_marshal_spec.
Print Assumptions SChunk_unmarshal_enc.
Print Assumptions SChunk_len_spec.
Print Assumptions SDES_marshal_spec.
Print Assumptions SDES_unmarshal_enc.
Print Assumptions SDES_size_spec.
Print Assumptions SDES_marshal_char.
Print Assumptions SDES_marshal_too_many.
Print Assumptions SDES_marshal_type0.
Print Assumptions SDES_marshal_long_text.
Print Assumptions SDES_marshal_ok_iff.
Print Assumptions BYE_marshal_spec.
Print Assumptions BYE_unmarshal_enc.
Print Assumptions BYE_size_spec.
Print Assumptions BYE_marshal_char.
Print Assumptions BYE_marshal_too_many.
Print Assumptions BYE_marshal_long_reason.
Print Assumptions BYE_marshal_ok_iff.
Print Assumptions APP_marshal_spec.
Print Assumptions APP_unmarshal_enc.
Print Assumptions APP_size_spec.
Print Assumptions APP_marshal_char.
Print Assumptions APP_marshal_long_data.
Print Assumptions APP_marshal_bad_name.
Print Assumptions APP_marshal_bad_subtype.
Print Assumptions APP_marshal_ok_iff.
Print Assumptions APP_unmarshal_gen.
Print Assumptions APP_unmarshal_padded.
