(* Model values as values of the records generated from the Go struct declarations (Gen/Funcs.v, module GoSrc): every N
   field becomes the Z the translated functions compute with.  Shared by the Proofs/Source*.v files. *)
From Coq Require Import List NArith ZArith Bool.
From RTCP Require Import Lib.Base Lib.GoSem Gen.Funcs
  Model.Header Model.Reports Model.ByeApp Model.Feedback Model.Twcc Model.Ccfb Proofs.SourceEquiv.
Import ListNotations.
Local Open Scope Z_scope.

Definition zN (l : list N) : list Z := map Z.of_N l.

Definition src_pli (p : PLI) : GoSrc.PictureLossIndication :=
  GoSrc.mkPictureLossIndication (Z.of_N (pli_sender p)) (Z.of_N (pli_media p)).
Definition src_rrr (p : RRR) : GoSrc.RapidResynchronizationRequest :=
  GoSrc.mkRapidResynchronizationRequest (Z.of_N (rrr_sender p)) (Z.of_N (rrr_media p)).
Definition src_pair (p : NackPair) : GoSrc.NackPair := GoSrc.mkNackPair (Z.of_N (np_id p)) (Z.of_N (np_bm p)).
Definition src_nack (p : NACK) : GoSrc.TransportLayerNack :=
  GoSrc.mkTransportLayerNack (Z.of_N (nack_sender p)) (Z.of_N (nack_media p)) (map src_pair (nack_pairs p)).
Definition src_fire (e : FIREntry) : GoSrc.FIREntry := GoSrc.mkFIREntry (Z.of_N (fir_ssrc e)) (Z.of_N (fir_seq e)).
Definition src_fir (p : FIR) : GoSrc.FullIntraRequest :=
  GoSrc.mkFullIntraRequest (Z.of_N (fir_sender p)) (Z.of_N (fir_media p)) (map src_fire (fir_entries p)).
Definition src_slie (e : SLIEntry) : GoSrc.SLIEntry :=
  GoSrc.mkSLIEntry (Z.of_N (sli_first e)) (Z.of_N (sli_number e)) (Z.of_N (sli_picture e)).
Definition src_sli (p : SLI) : GoSrc.SliceLossIndication :=
  GoSrc.mkSliceLossIndication (Z.of_N (sli_sender p)) (Z.of_N (sli_media p)) (map src_slie (sli_entries p)).
Definition src_sr (s : SR) : GoSrc.SenderReport :=
  GoSrc.mkSenderReport (Z.of_N (sr_ssrc s)) (Z.of_N (sr_ntp s)) (Z.of_N (sr_rtp s)) (Z.of_N (sr_pcount s)) (Z.of_N (sr_ocount s))
    (map src_rrep (sr_reports s)) (sr_ext s).
Definition src_rr (r : RR) : GoSrc.ReceiverReport :=
  GoSrc.mkReceiverReport (Z.of_N (rcv_ssrc r)) (map src_rrep (rcv_reports r)) (rcv_ext r).
Definition src_bye (g : BYE) : GoSrc.Goodbye := GoSrc.mkGoodbye (zN (bye_sources g)) (bye_reason g).
Definition src_app (a : APP) : GoSrc.ApplicationDefined :=
  GoSrc.mkApplicationDefined (Z.of_N (app_subtype a)) (Z.of_N (app_ssrc a)) (app_name a) (app_data a).
Definition src_ccblock (b : CCBlock) : GoSrc.CCFeedbackReportBlock :=
  GoSrc.mkCCFeedbackReportBlock (Z.of_N (cb_ssrc b)) (Z.of_N (cb_begin b)) (map src_metric (cb_metrics b)).
Definition src_ccfb (c : CCFB) : GoSrc.CCFeedbackReport :=
  GoSrc.mkCCFeedbackReport (Z.of_N (cc_sender c)) (map src_ccblock (cc_blocks c)) (Z.of_N (cc_timestamp c)).
Definition src_svc (c : TChunk) : GoSrc.StatusVectorChunk :=
  match c with
  | SVC t ss l => GoSrc.mkStatusVectorChunk (Z.of_N t) (Z.of_N ss) (zN l)
  | RLC _ _ _ => GoSrc.zero_StatusVectorChunk
  end.

From RTCP Require Import Model.Sdes.
Definition src_item (i : SItem) : GoSrc.SourceDescriptionItem := GoSrc.mkSourceDescriptionItem (Z.of_N (it_type i)) (it_text i).
Definition src_chunk (c : SChunk) : GoSrc.SourceDescriptionChunk :=
  GoSrc.mkSourceDescriptionChunk (Z.of_N (ch_src c)) (map src_item (ch_items c)).
Definition src_sdes (s : SDES) : GoSrc.SourceDescription := GoSrc.mkSourceDescription (map src_chunk (sd_chunks s)).

(* transport-wide congestion control: the interface PacketStatusChunk is the closed sum GoSrc.PacketStatusChunk *)
Definition src_tchunk (c : TChunk) : GoSrc.PacketStatusChunk :=
  match c with
  | RLC _ _ _ => GoSrc.PacketStatusChunk_RunLengthChunk (src_rlc c)
  | SVC _ _ _ => GoSrc.PacketStatusChunk_StatusVectorChunk (src_svc c)
  end.
Definition src_twcc (t : TWCC) : GoSrc.TransportLayerCC :=
  GoSrc.mkTransportLayerCC (src_header (tw_hdr t)) (Z.of_N (tw_sender t)) (Z.of_N (tw_media t)) (Z.of_N (tw_base t))
    (Z.of_N (tw_count t)) (Z.of_N (tw_reftime t)) (Z.of_N (tw_fb t)) (map src_tchunk (tw_chunks t)) (map src_delta (tw_deltas t)).

(* the Packet interface as the closed sum GoSrc.Packet; ExtendedReport and ReceiverEstimatedMaximumBitrate are the model's
   own types there (Check/GoOpaque.v).  A CompoundPacket is not a member of the sum: it maps to the nil interface value and
   every statement about lists excludes it. *)
From RTCP Require Import Model.Packet Model.Xr Model.Remb Check.GoOpaque.
Definition src_packet (p : packet) : GoSrc.Packet :=
  match p with
  | PSR x => GoSrc.Packet_SenderReport (src_sr x)
  | PRR x => GoSrc.Packet_ReceiverReport (src_rr x)
  | PSDES x => GoSrc.Packet_SourceDescription (src_sdes x)
  | PBYE x => GoSrc.Packet_Goodbye (src_bye x)
  | PAPP x => GoSrc.Packet_ApplicationDefined (src_app x)
  | PNACK x => GoSrc.Packet_TransportLayerNack (src_nack x)
  | PRRR x => GoSrc.Packet_RapidResynchronizationRequest (src_rrr x)
  | PTWCC x => GoSrc.Packet_TransportLayerCC (src_twcc x)
  | PCCFB x => GoSrc.Packet_CCFeedbackReport (src_ccfb x)
  | PPLI x => GoSrc.Packet_PictureLossIndication (src_pli x)
  | PSLI x => GoSrc.Packet_SliceLossIndication (src_sli x)
  | PREMB x => GoSrc.Packet_ReceiverEstimatedMaximumBitrate x
  | PFIR x => GoSrc.Packet_FullIntraRequest (src_fir x)
  | PXR x => GoSrc.Packet_ExtendedReport x
  | PRaw b => GoSrc.Packet_RawPacket b
  | PCompound _ => GoSrc.Packet_nil
  end.
Definition not_compound (p : packet) : Prop := match p with PCompound _ => False | _ => True end.
