(* SourceFeedback1: the functions translated from picture_loss_indication.go, rapid_resynchronization_request.go and
   transport_layer_nack.go (Gen/Funcs.v, module GoSrc) compute what the model functions of Model/Feedback.v compute. *)
From RTCP Require Import Proofs.Tactics Lib.GoSem Gen.Funcs Proofs.GoSemFacts
  Model.Header Model.Reports Model.Feedback Model.Packet Proofs.SourceEquiv Proofs.SrcConv.
Local Open Scope Z_scope.

(* ================================================================================================ *)
Section MoreGoSemFacts.

Lemma bind_assoc {A B C} (r : res A) (f : A -> res B) (g : B -> res C) :
  bind (bind r f) g = bind r (fun x => bind (f x) g).
Proof. destruct r; reflexivity. Qed.

(* copy(dst[off:], src) *)
Lemma gcopy_N dst off src : gcopy dst (Z.of_N off) src = copy_at dst off src.
Proof.
  unfold gcopy, copy_at. rewrite glen_len.
  destruct (Z.ltb_spec (Z.of_N off) 0); [lia|].
  destruct (Z.ltb_spec (Z.of_N (len dst)) (Z.of_N off)), (N.ltb_spec (len dst) off); try lia; cbn [orb]; [reflexivity|].
  unfold glen. unfold len in *. cbv zeta.
  f_equal. f_equal; [f_equal; lia|]. f_equal; f_equal; lia.
Qed.
Lemma gcopy_0 dst src : gcopy dst 0 src = copy_at dst 0 src.
Proof. exact (gcopy_N dst 0 src). Qed.
Lemma gcopy_pos dst p src : gcopy dst (Z.pos p) src = copy_at dst (N.pos p) src.
Proof. exact (gcopy_N dst (N.pos p) src). Qed.

(* lists *)
Lemma glenl_nil {A} : glenl (@nil A) = 0.  Proof. reflexivity. Qed.
Lemma glenl_cons {A} (x : A) l : glenl (x :: l) = 1 + glenl l.
Proof. unfold glenl. cbn [length]. lia. Qed.
Lemma glenl_app {A} (a b : list A) : glenl (a ++ b) = glenl a + glenl b.
Proof. unfold glenl. rewrite app_length. lia. Qed.
Lemma glenl_map {A B} (f : A -> B) l : glenl (map f l) = glenl l.
Proof. unfold glenl. rewrite map_length. reflexivity. Qed.
Lemma glenl_nonneg {A} (l : list A) : 0 <= glenl l.
Proof. unfold glenl. lia. Qed.
Lemma glenl_nlen {A} (l : list A) : glenl l = Z.of_N (nlen l).
Proof. unfold glenl, nlen. lia. Qed.
Lemma gnth_ok {A} (d : A) l i : 0 <= i < glenl l -> gnth l i = Ok (nth (Z.to_nat i) l d).
Proof.
  intros H. unfold gnth. destruct (Z.ltb_spec i 0); [lia|]. destruct (Z.leb_spec (glenl l) i); [lia|]. cbn [orb].
  rewrite (nth_error_nth' l d) by (unfold glenl in H; lia). reflexivity.
Qed.
Lemma gnth_panic {A} (l : list A) i : i < 0 \/ glenl l <= i -> gnth l i = Panic.
Proof.
  intros H. unfold gnth. destruct (Z.ltb_spec i 0); [reflexivity|]. destruct (Z.leb_spec (glenl l) i); [reflexivity|lia].
Qed.
Lemma gnth_app_mid {A} (pre : list A) x rest i : i = glenl pre -> gnth (pre ++ x :: rest) i = Ok x.
Proof.
  intros ->. rewrite (gnth_ok x) by (rewrite glenl_app, glenl_cons; pose proof (glenl_nonneg pre); pose proof (glenl_nonneg rest); lia).
  unfold glenl. rewrite Nat2Z.id, app_nth2, Nat.sub_diag by lia. reflexivity.
Qed.
Lemma gnth_0 {A} (x : A) l : gnth (x :: l) 0 = Ok x.
Proof. exact (gnth_app_mid [] x l 0 eq_refl). Qed.

(* views *)
Lemma gview_ok b off lo : 0 <= lo <= glen b - off -> gview b off lo = Ok tt.
Proof.
  intros H. unfold gview. destruct (Z.ltb_spec lo 0); [lia|]. destruct (Z.ltb_spec (glen b - off) lo); [lia|]. reflexivity.
Qed.
Lemma gview2_ok b off lo hi : 0 <= lo <= hi -> hi <= glen b - off -> gview2 b off lo hi = Ok tt.
Proof.
  intros H1 H2. unfold gview2. destruct (Z.ltb_spec lo 0); [lia|]. destruct (Z.ltb_spec hi lo); [lia|].
  destruct (Z.ltb_spec (glen b - off) hi); [lia|]. reflexivity.
Qed.

(* PutUintK at the frontier of a zero tail *)
Lemma gbe_put_fr k pre n x off : off = glen pre -> (N.of_nat k <= n)%N ->
  gbe_put k (pre ++ zeros n) off (Z.of_N x) = Ok ((pre ++ be k x) ++ zeros (n - N.of_nat k)).
Proof.
  intros -> H. rewrite glen_len, gbe_put_N. apply put_be_fr; [reflexivity|exact H].
Qed.

End MoreGoSemFacts.

(* ================================================================================================ *)
(* picture_loss_indication.go                                                                        *)
(* ================================================================================================ *)
Ltac pli_fields :=
  cbv [GoSrc.set_PictureLossIndication_SenderSSRC GoSrc.set_PictureLossIndication_MediaSSRC
       GoSrc.PictureLossIndication_SenderSSRC GoSrc.PictureLossIndication_MediaSSRC].
Ltac rrr_fields :=
  cbv [GoSrc.set_RapidResynchronizationRequest_SenderSSRC GoSrc.set_RapidResynchronizationRequest_MediaSSRC
       GoSrc.RapidResynchronizationRequest_SenderSSRC GoSrc.RapidResynchronizationRequest_MediaSSRC].

Lemma src_PictureLossIndication_MarshalSize : forall x,
  GoSrc.PictureLossIndication_MarshalSize (src_pli x) = Z.of_N (PLI_size x).
Proof. reflexivity. Qed.

Lemma src_PictureLossIndication_Header : forall x,
  GoSrc.PictureLossIndication_Header (src_pli x) = src_header (PLI_header x).
Proof. reflexivity. Qed.

Lemma src_PictureLossIndication_DestinationSSRC : forall x,
  GoSrc.PictureLossIndication_DestinationSSRC (src_pli x) = zN (dest_packet (PPLI x)).
Proof. reflexivity. Qed.

(* shape: make(12), the (unused) re-slice, two PutUint32 at constant offsets, Header.Marshal, copy at 0 *)
Lemma src_PictureLossIndication_Marshal : forall x, GoSrc.PictureLossIndication_Marshal (src_pli x) = PLI_marshal x.
Proof.
  intros [s m]. unfold GoSrc.PictureLossIndication_Marshal, PLI_marshal, src_pli.
  unfold GoSrc.PictureLossIndication_MarshalSize, PLI_size. pli_fields. cbn [pli_sender pli_media]. consts.
  change (4 + 4)%N with 8%N. change (4 + 4 * 2)%N with 12%N. change (4 + 4) with 8.
  rewrite gmake_pos. cbn [bind].
  rewrite gslice_from_ok by (rewrite glen_zeros; lia). cbn [bind].
  rewrite (gbe_put_N 4 _ 4%N).
  destruct (put_be_at 4 (zeros 12) 4 s) as [r1| | |]; cbn [bind]; try reflexivity.
  rewrite (gbe_put_N 4 _ 8%N).
  destruct (put_be_at 4 r1 8 m) as [r2| | |]; cbn [bind]; try reflexivity.
  change (GoSrc.mkHeader false 1 206 2) with (src_header (PLI_header (mkPLI s m))).
  rewrite src_Header_Marshal.
  destruct (Header_marshal (PLI_header (mkPLI s m))) as [h| | |]; cbn [bind]; try reflexivity.
  rewrite gcopy_0. apply bind_Ok_r.
Qed.

(* shape: length guard, Header.Unmarshal, type/count test, two Uint32 reads; every field of the receiver is assigned *)
Lemma src_PictureLossIndication_Unmarshal_gen : forall p0 b,
  GoSrc.PictureLossIndication_Unmarshal p0 b = res_map src_pli (PLI_unmarshal b).
Proof.
  intros p0 b. unfold GoSrc.PictureLossIndication_Unmarshal, PLI_unmarshal. consts.
  change (4 + 4 * 2)%N with 12%N. change (4 + 4)%N with 8%N.
  rewrite glen_len. go2n.
  destruct (N.ltb_spec (len b) 12) as [Hl|Hl]; [reflexivity|].
  assert (Hg : 12 <= glen b) by (rewrite glen_len; lia).
  rewrite src_Header_Unmarshal.
  destruct (Header_unmarshal b) as [h| | |]; cbn [bind res_map]; try reflexivity.
  unfold src_header at 1 2. src_fields. go2n.
  destruct (negb (h_type h =? 206)%N || negb (h_count h =? 1)%N); [reflexivity|].
  repeat gread. reads_ok. nat_lits. cbn [res_map]. unfold src_pli. pli_fields. reflexivity.
Qed.
Lemma src_PictureLossIndication_Unmarshal : forall b,
  GoSrc.PictureLossIndication_Unmarshal GoSrc.zero_PictureLossIndication b = res_map src_pli (PLI_unmarshal b).
Proof. intros. apply src_PictureLossIndication_Unmarshal_gen. Qed.

(* ================================================================================================ *)
(* rapid_resynchronization_request.go                                                                *)
(* ================================================================================================ *)
Lemma src_RapidResynchronizationRequest_MarshalSize : forall x,
  GoSrc.RapidResynchronizationRequest_MarshalSize (src_rrr x) = Z.of_N (RRR_size x).
Proof. reflexivity. Qed.

Lemma src_RapidResynchronizationRequest_Header : forall x,
  GoSrc.RapidResynchronizationRequest_Header (src_rrr x) = src_header (RRR_header x).
Proof. reflexivity. Qed.

Lemma src_RapidResynchronizationRequest_DestinationSSRC : forall x,
  GoSrc.RapidResynchronizationRequest_DestinationSSRC (src_rrr x) = zN (dest_packet (PRRR x)).
Proof. reflexivity. Qed.

Lemma src_RapidResynchronizationRequest_Marshal : forall x,
  GoSrc.RapidResynchronizationRequest_Marshal (src_rrr x) = RRR_marshal x.
Proof.
  intros [s m]. unfold GoSrc.RapidResynchronizationRequest_Marshal, RRR_marshal, src_rrr.
  unfold GoSrc.RapidResynchronizationRequest_MarshalSize, RRR_size. rrr_fields. cbn [rrr_sender rrr_media]. consts.
  change (4 + 4)%N with 8%N. change (4 + 8)%N with 12%N. change (4 + 4) with 8.
  rewrite gmake_pos. cbn [bind].
  rewrite gslice_from_ok by (rewrite glen_zeros; lia). cbn [bind].
  rewrite (gbe_put_N 4 _ 4%N).
  destruct (put_be_at 4 (zeros 12) 4 s) as [r1| | |]; cbn [bind]; try reflexivity.
  rewrite (gbe_put_N 4 _ 8%N).
  destruct (put_be_at 4 r1 8 m) as [r2| | |]; cbn [bind]; try reflexivity.
  change (GoSrc.RapidResynchronizationRequest_Header _) with (src_header (RRR_header (mkRRR s m))).
  rewrite src_Header_Marshal.
  destruct (Header_marshal (RRR_header (mkRRR s m))) as [h| | |]; cbn [bind]; try reflexivity.
  rewrite gcopy_0. apply bind_Ok_r.
Qed.

Lemma src_RapidResynchronizationRequest_Unmarshal_gen : forall p0 b,
  GoSrc.RapidResynchronizationRequest_Unmarshal p0 b = res_map src_rrr (RRR_unmarshal b).
Proof.
  intros p0 b. unfold GoSrc.RapidResynchronizationRequest_Unmarshal, RRR_unmarshal. consts.
  change (4 + 4 * 2)%N with 12%N. change (4 + 4)%N with 8%N.
  rewrite glen_len. go2n.
  destruct (N.ltb_spec (len b) 12) as [Hl|Hl]; [reflexivity|].
  assert (Hg : 12 <= glen b) by (rewrite glen_len; lia).
  rewrite src_Header_Unmarshal.
  destruct (Header_unmarshal b) as [h| | |]; cbn [bind res_map]; try reflexivity.
  unfold src_header at 1 2. src_fields. go2n.
  destruct (negb (h_type h =? 205)%N || negb (h_count h =? 5)%N); [reflexivity|].
  repeat gread. reads_ok. nat_lits. cbn [res_map]. unfold src_rrr. rrr_fields. reflexivity.
Qed.
Lemma src_RapidResynchronizationRequest_Unmarshal : forall b,
  GoSrc.RapidResynchronizationRequest_Unmarshal GoSrc.zero_RapidResynchronizationRequest b = res_map src_rrr (RRR_unmarshal b).
Proof. intros. apply src_RapidResynchronizationRequest_Unmarshal_gen. Qed.

(* ================================================================================================ *)
(* transport_layer_nack.go                                                                           *)
(* ================================================================================================ *)
Ltac nack_fields :=
  cbv [GoSrc.set_TransportLayerNack_SenderSSRC GoSrc.set_TransportLayerNack_MediaSSRC GoSrc.set_TransportLayerNack_Nacks
       GoSrc.TransportLayerNack_SenderSSRC GoSrc.TransportLayerNack_MediaSSRC GoSrc.TransportLayerNack_Nacks].
Ltac pair_fields :=
  cbv [GoSrc.set_NackPair_PacketID GoSrc.set_NackPair_LostPackets GoSrc.NackPair_PacketID GoSrc.NackPair_LostPackets].

Lemma src_TransportLayerNack_MarshalSize : forall x,
  GoSrc.TransportLayerNack_MarshalSize (src_nack x) = Z.of_N (NACK_size x).
Proof.
  intros x. unfold GoSrc.TransportLayerNack_MarshalSize, NACK_size, src_nack. nack_fields. consts.
  rewrite glenl_map, glenl_nlen. lia.
Qed.

Lemma src_TransportLayerNack_Header : forall x,
  GoSrc.TransportLayerNack_Header (src_nack x) = src_header (NACK_header x).
Proof.
  intros x. unfold GoSrc.TransportLayerNack_Header. rewrite src_TransportLayerNack_MarshalSize.
  unfold NACK_header, src_header. cbn [h_pad h_count h_type h_len]. consts.
  f_equal. change 4 with (Z.of_N 4) at 1. rewrite Zquot_N.
  assert (E : Z.of_N (NACK_size x / 4) - 1 = Z.of_N (NACK_size x / 4 - 1)).
  { unfold NACK_size. consts. lia. }
  rewrite E. apply uwrap16_N.
Qed.

Lemma src_TransportLayerNack_DestinationSSRC : forall x,
  GoSrc.TransportLayerNack_DestinationSSRC (src_nack x) = zN (dest_packet (PNACK x)).
Proof. reflexivity. Qed.

(* ---------------- TransportLayerNack.Marshal ---------------- *)
Definition nack_enc (q : NackPair) : bytes := be 2 (np_id q) ++ be 2 (np_bm q).

Lemma NACK_Marshal_after1_i : forall i j p b,
  GoSrc.TransportLayerNack_Marshal_after1 i p b = GoSrc.TransportLayerNack_Marshal_after1 j p b.
Proof. reflexivity. Qed.

(* the loop from index |done| on: the buffer is the written prefix followed by zeros; it ends with every pair written *)
Lemma NACK_Marshal_loop : forall rest done p pre fuel,
  GoSrc.TransportLayerNack_Nacks p = map src_pair (done ++ rest) ->
  glen pre = 8 + 4 * glenl done ->
  (length rest < fuel)%nat ->
  GoSrc.TransportLayerNack_Marshal_loop1 fuel (glenl done) p (pre ++ zeros (4 * nlen rest))
  = GoSrc.TransportLayerNack_Marshal_after1 0 p (pre ++ concat (map nack_enc rest)).
Proof.
  induction rest as [|q rest IH]; intros done p pre fuel Hn Hp Hf; (destruct fuel as [|fuel]; [cbn [length] in Hf; lia|]);
    cbn [GoSrc.TransportLayerNack_Marshal_loop1]; rewrite Hn, glenl_map, glenl_app.
  - rewrite glenl_nil, Z.add_0_r, Z.ltb_irrefl. reflexivity.
  - rewrite glenl_cons.
    destruct (Z.ltb_spec (glenl done) (glenl done + (1 + glenl rest))) as [_|H]; [|pose proof (glenl_nonneg rest); lia].
    assert (Hz : (4 * nlen (q :: rest) = 4 + 4 * nlen rest)%N) by (unfold nlen; cbn [length]; lia).
    rewrite Hz.
    rewrite gview_ok by (rewrite glen_app, glen_zeros; pose proof (glenl_nonneg done); lia). cbn [bind].
    rewrite map_app. cbn [map]. rewrite gnth_app_mid by (rewrite glenl_map; reflexivity). cbn [bind].
    unfold src_pair. pair_fields.
    rewrite gbe_put_fr by (try lia). cbn [bind].
    rewrite gview_ok by (rewrite !glen_app, glen_be, glen_zeros; pose proof (glenl_nonneg done); lia). cbn [bind].
    rewrite gbe_put_fr by (rewrite ?glen_app, ?glen_be; try lia). cbn [bind].
    replace (4 + 4 * nlen rest - N.of_nat 2 - N.of_nat 2)%N with (4 * nlen rest)%N by lia.
    assert (Ei : glenl done + 1 = glenl (done ++ [q])) by (rewrite glenl_app; reflexivity).
    rewrite Ei. rewrite IH.
    + cbn [map concat]. unfold nack_enc at 2. rewrite <- !app_assoc. reflexivity.
    + rewrite Hn, <- app_assoc. reflexivity.
    + rewrite !glen_app, !glen_be, glenl_app, glenl_cons, glenl_nil. lia.
    + cbn [length] in Hf. lia.
Qed.

(* no hypothesis on the fields is needed: PutUint32 / PutUint16 and the model's [be] truncate in the same way *)
Lemma src_TransportLayerNack_Marshal : forall x, GoSrc.TransportLayerNack_Marshal (src_nack x) = NACK_marshal x.
Proof.
  intros x. unfold GoSrc.TransportLayerNack_Marshal, NACK_marshal. consts.
  change (GoSrc.TransportLayerNack_Nacks (src_nack x)) with (map src_pair (nack_pairs x)).
  change (GoSrc.TransportLayerNack_SenderSSRC (src_nack x)) with (Z.of_N (nack_sender x)).
  change (GoSrc.TransportLayerNack_MediaSSRC (src_nack x)) with (Z.of_N (nack_media x)).
  rewrite glenl_map, glenl_nlen. rewrite Zadd_N_r, Zltb_N_l.
  destruct (255 <? nlen (nack_pairs x) + 2)%N; [reflexivity|].
  rewrite Zmul_N_r, Zadd_N_l, gmake_N. cbn [bind].
  change (zeros (8 + nlen (nack_pairs x) * 4)) with ([] ++ zeros (8 + nlen (nack_pairs x) * 4)).
  rewrite gbe_put_fr by (try reflexivity; lia). cbn [bind].
  rewrite gbe_put_fr by (rewrite ?glen_app, ?glen_be; try reflexivity; lia). cbn [bind].
  replace (8 + nlen (nack_pairs x) * 4 - N.of_nat 4 - N.of_nat 4)%N with (4 * nlen (nack_pairs x))%N by lia.
  rewrite Z.sub_0_r.
  change 0 with (glenl (@nil NackPair)) at 1.
  rewrite NACK_Marshal_loop.
  - unfold GoSrc.TransportLayerNack_Marshal_after1.
    rewrite src_TransportLayerNack_Header, src_Header_Marshal.
    destruct (Header_marshal (NACK_header x)) as [h| | |]; cbn [bind]; try reflexivity.
  - reflexivity.
  - reflexivity.
  - unfold nlen. lia.
Qed.

Definition pair_fits (q : NackPair) : Prop := (np_id q < 65536 /\ np_bm q < 65536)%N.
Definition nack_fits (x : NACK) : Prop :=
  (nack_sender x < 4294967296)%N /\ (nack_media x < 4294967296)%N /\ Forall pair_fits (nack_pairs x).
Corollary src_TransportLayerNack_Marshal_fits : forall x, nack_fits x ->
  GoSrc.TransportLayerNack_Marshal (src_nack x) = NACK_marshal x.
Proof. intros x _. apply src_TransportLayerNack_Marshal. Qed.

(* ---------------- TransportLayerNack.Unmarshal ---------------- *)
(* binary.BigEndian.UintK(b[off:]) followed by a continuation *)
Lemma gbe_get_at_bind {C} k b off (K : Z -> res C) :
  bind (gslice_from b (Z.of_N off)) (fun y => bind (gbe_get k y) K) = bind (get_be_at k b off) (fun v => K (Z.of_N v)).
Proof. rewrite <- bind_assoc, gbe_get_at, bind_res_map. reflexivity. Qed.

(* the receiver after the loop: the decoded pairs are appended to the pairs it already holds *)
Definition nack_append (p : GoSrc.TransportLayerNack) (r : list NackPair) : GoSrc.TransportLayerNack :=
  GoSrc.set_TransportLayerNack_Nacks (GoSrc.TransportLayerNack_Nacks p ++ map src_pair r) p.

(* both loops from offset i to [stop], each with enough fuel, under any receiver *)
Lemma NACK_Unmarshal_loop : forall fg fm h i stop p2 raw,
  4 + uwrap 16 (GoSrc.Header_Length h * 4) = Z.of_N stop ->
  (N.to_nat (stop - i) < fg)%nat -> (N.to_nat (stop - i) < fm)%nat ->
  GoSrc.TransportLayerNack_Unmarshal_loop1 fg h (Z.of_N i) p2 raw = res_map (nack_append p2) (nack_read fm raw i stop).
Proof.
  induction fg as [|fg IH]; intros fm h i stop p2 raw Hs Hg Hm; [lia|].
  destruct fm as [|fm]; [lia|]. destruct p2 as [s m ns].
  cbn [GoSrc.TransportLayerNack_Unmarshal_loop1 nack_read]. rewrite Hs, Zltb_N.
  destruct (N.ltb_spec i stop) as [Hi|Hi].
  - rewrite gbe_get_at_bind.
    destruct (get_be_at 2 raw i) as [id| | |]; cbn [bind res_map]; try reflexivity.
    rewrite Zadd_N_r. rewrite gbe_get_at_bind.
    destruct (get_be_at 2 raw (i + 2)) as [bm| | |]; cbn [bind res_map]; try reflexivity.
    rewrite Zadd_N_r. rewrite (IH fm h (i + 4)%N stop) by (try exact Hs; lia).
    destruct (nack_read fm raw (i + 4) stop) as [r| | |]; cbn [bind res_map]; try reflexivity.
    f_equal. unfold nack_append. nack_fields. cbn [map]. rewrite <- app_assoc. reflexivity.
  - unfold GoSrc.TransportLayerNack_Unmarshal_after1. cbn [res_map]. f_equal.
    unfold nack_append. nack_fields. cbn [map]. rewrite app_nil_r. reflexivity.
Qed.

(* general receiver: SenderSSRC and MediaSSRC are overwritten, the pairs are appended to those of the receiver *)
Definition src_nack_onto (p0 : GoSrc.TransportLayerNack) (x : NACK) : GoSrc.TransportLayerNack :=
  GoSrc.mkTransportLayerNack (Z.of_N (nack_sender x)) (Z.of_N (nack_media x))
    (GoSrc.TransportLayerNack_Nacks p0 ++ map src_pair (nack_pairs x)).

Lemma src_TransportLayerNack_Unmarshal_gen : forall p0 b,
  GoSrc.TransportLayerNack_Unmarshal p0 b = res_map (src_nack_onto p0) (NACK_unmarshal b).
Proof.
  intros [s0 m0 ns0] b. unfold GoSrc.TransportLayerNack_Unmarshal, NACK_unmarshal. consts.
  change (4 + 4)%N with 8%N. change (4 + 8)%N with 12%N.
  rewrite glen_len, Zltb_N_r.
  destruct (N.ltb_spec (len b) 8) as [Hl|Hl]; [reflexivity|].
  rewrite src_Header_Unmarshal.
  destruct (Header_unmarshal b) as [h| | |]; cbn [bind res_map]; try reflexivity.
  change (GoSrc.Header_Length (src_header h)) with (Z.of_N (h_len h)).
  change (GoSrc.Header_Type (src_header h)) with (Z.of_N (h_type h)).
  change (GoSrc.Header_Count (src_header h)) with (Z.of_N (h_count h)).
  rewrite !Zmul_N_l, !Zmul_N_r, !uwrap16_N, !Zadd_N_l, Zltb_N, !Zeqb_N_r, Zleb_N_r.
  destruct (N.ltb_spec (len b) (4 + u16 (4 * h_len h))) as [Hl2|Hl2]; [reflexivity|].
  destruct (negb (h_type h =? 205)%N || negb (h_count h =? 1)%N); [reflexivity|].
  destruct (N.leb_spec (u16 (4 * h_len h)) 8) as [Hl3|Hl3]; [reflexivity|].
  rewrite (gbe_get_at_bind 4 b 4%N).
  destruct (get_be_at 4 b 4) as [s| | |]; cbn [bind res_map]; try reflexivity.
  rewrite (gbe_get_at_bind 4 b 8%N).
  destruct (get_be_at 4 b 8) as [m| | |]; cbn [bind res_map]; try reflexivity.
  nack_fields.
  change 12 with (Z.of_N 12) at 2.
  rewrite (NACK_Unmarshal_loop _ (S (length b)) (src_header h) 12%N (4 + u16 (4 * h_len h))%N).
  - destruct (nack_read (S (length b)) b 12 (4 + u16 (4 * h_len h))) as [r| | |]; cbn [bind res_map]; reflexivity.
  - change (GoSrc.Header_Length (src_header h)) with (Z.of_N (h_len h)).
    rewrite Zmul_N_r, uwrap16_N, Zadd_N_l. rewrite (N.mul_comm (h_len h) 4). reflexivity.
  - rewrite (N.mul_comm (h_len h) 4). lia.
  - unfold len in Hl2. lia.
Qed.

Lemma src_TransportLayerNack_Unmarshal : forall b,
  GoSrc.TransportLayerNack_Unmarshal GoSrc.zero_TransportLayerNack b = res_map src_nack (NACK_unmarshal b).
Proof. intros b. apply src_TransportLayerNack_Unmarshal_gen. Qed.

(* ---------------- the encoders in the form "well-formed value -> ..." ---------------- *)
(* (the hypotheses are not used: an over-wide field is truncated in the same way on both sides) *)
Definition pli_fits (x : PLI) : Prop := (pli_sender x < 4294967296 /\ pli_media x < 4294967296)%N.
Definition rrr_fits (x : RRR) : Prop := (rrr_sender x < 4294967296 /\ rrr_media x < 4294967296)%N.
Corollary src_PictureLossIndication_Marshal_fits : forall x, pli_fits x ->
  GoSrc.PictureLossIndication_Marshal (src_pli x) = PLI_marshal x.
Proof. intros x _. apply src_PictureLossIndication_Marshal. Qed.
Corollary src_RapidResynchronizationRequest_Marshal_fits : forall x, rrr_fits x ->
  GoSrc.RapidResynchronizationRequest_Marshal (src_rrr x) = RRR_marshal x.
Proof. intros x _. apply src_RapidResynchronizationRequest_Marshal. Qed.

Print Assumptions gcopy_N.
Print Assumptions gnth_ok.
Print Assumptions gnth_app_mid.
Print Assumptions gview_ok.
Print Assumptions gview2_ok.
Print Assumptions gbe_put_fr.
Print Assumptions gbe_get_at_bind.
Print Assumptions src_PictureLossIndication_MarshalSize.
Print Assumptions src_PictureLossIndication_Header.
Print Assumptions src_PictureLossIndication_DestinationSSRC.
Print Assumptions src_PictureLossIndication_Marshal.
Print Assumptions src_PictureLossIndication_Marshal_fits.
Print Assumptions src_PictureLossIndication_Unmarshal_gen.
Print Assumptions src_PictureLossIndication_Unmarshal.
Print Assumptions src_RapidResynchronizationRequest_MarshalSize.
Print Assumptions src_RapidResynchronizationRequest_Header.
Print Assumptions src_RapidResynchronizationRequest_DestinationSSRC.
Print Assumptions src_RapidResynchronizationRequest_Marshal.
Print Assumptions src_RapidResynchronizationRequest_Marshal_fits.
Print Assumptions src_RapidResynchronizationRequest_Unmarshal_gen.
Print Assumptions src_RapidResynchronizationRequest_Unmarshal.
Print Assumptions src_TransportLayerNack_MarshalSize.
Print Assumptions src_TransportLayerNack_Header.
Print Assumptions src_TransportLayerNack_DestinationSSRC.
Print Assumptions NACK_Marshal_loop.
Print Assumptions src_TransportLayerNack_Marshal.
Print Assumptions src_TransportLayerNack_Marshal_fits.
Print Assumptions NACK_Unmarshal_loop.
Print Assumptions src_TransportLayerNack_Unmarshal_gen.
Print Assumptions src_TransportLayerNack_Unmarshal.
