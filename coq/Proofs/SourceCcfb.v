(* SourceEquiv, part 2, group B6: rfc8888.go (CCFeedbackReportBlock, CCFeedbackReport) and StatusVectorChunk.Unmarshal.
   The functions translated from the Go source (Gen/Funcs.v, module GoSrc) compute what the model functions of
   Model/Ccfb.v (and SVC_unmarshal of Model/Twcc.v) compute, on every outcome (Ok / Err / Panic; Fuel never arises).
   No "fits" hypothesis is needed anywhere in this group: over-wide fields are truncated in the same way on both sides. *)
From RTCP Require Import Proofs.Tactics Lib.GoSem Gen.Funcs Proofs.GoSemFacts
  Model.Header Model.Reports Model.Twcc Model.Ccfb Model.Packet Proofs.HeaderProofs Proofs.SourceEquiv Proofs.SrcConv.
Local Open Scope Z_scope.

(* ================================================================================================ *)
Section MoreGoSemFacts.
(* ================================================================================================ *)

Lemma glenl_nlen {A} (l : list A) : glenl l = Z.of_N (nlen l).
Proof. unfold glenl, nlen. rewrite nat_N_Z. reflexivity. Qed.
Lemma glenl_map {A B} (f : A -> B) (l : list A) : glenl (map f l) = glenl l.
Proof. unfold glenl. rewrite map_length. reflexivity. Qed.
Lemma glenl_nonneg {A} (l : list A) : 0 <= glenl l.
Proof. unfold glenl. lia. Qed.
Lemma glenl_app {A} (a b : list A) : glenl (a ++ b) = glenl a + glenl b.
Proof. unfold glenl. rewrite app_length. lia. Qed.
Lemma glenl_repeat {A} (x : A) n : glenl (repeat x n) = Z.of_nat n.
Proof. unfold glenl. rewrite repeat_length. reflexivity. Qed.

(* make([]T, n) *)
Lemma gmakel_ok {A} (z : A) n : 0 <= n -> gmakel z n = Ok (repeat z (Z.to_nat n)).
Proof. intros H. unfold gmakel. destruct (Z.ltb_spec n 0); [lia|reflexivity]. Qed.
Lemma gmakel_neg {A} (z : A) n : n < 0 -> gmakel z n = Panic.
Proof. intros H. unfold gmakel. destruct (Z.ltb_spec n 0); [reflexivity|lia]. Qed.

(* l[i] and l[i] = v *)
Lemma gnth_ok {A} (d : A) (l : list A) i : 0 <= i < glenl l -> gnth l i = Ok (nth (Z.to_nat i) l d).
Proof.
  intros H. unfold gnth. destruct (Z.ltb_spec i 0); [lia|]. destruct (Z.leb_spec (glenl l) i); [lia|]. cbn [orb].
  rewrite (nth_error_nth' l d) by (unfold glenl in H; lia). reflexivity.
Qed.
Lemma gnth_panic {A} (l : list A) i : i < 0 \/ glenl l <= i -> gnth l i = Panic.
Proof.
  intros H. unfold gnth. destruct (Z.ltb_spec i 0); [reflexivity|]. destruct (Z.leb_spec (glenl l) i); [reflexivity|lia].
Qed.
Lemma updl_nat_spec {A} (v : A) : forall l i, (i < length l)%nat -> updl_nat l i v = firstn i l ++ v :: skipn (S i) l.
Proof.
  induction l as [|x r IH]; intros i Hi; cbn [length] in Hi; [lia|].
  destruct i as [|i]; cbn [updl_nat firstn skipn app]; [reflexivity|]. f_equal. apply IH. lia.
Qed.
Lemma updl_nat_length {A} (v : A) : forall l i, length (updl_nat l i v) = length l.
Proof. induction l as [|x r IH]; intros [|i]; cbn [updl_nat length]; auto. Qed.
Lemma updl_nat_app {A} (a : list A) x r v : updl_nat (a ++ x :: r) (length a) v = a ++ v :: r.
Proof. induction a as [|y a IH]; cbn [app length updl_nat]; [reflexivity|]. f_equal. exact IH. Qed.
Lemma gupdl_ok {A} (l : list A) i v : 0 <= i < glenl l ->
  gupdl l i v = Ok (firstn (Z.to_nat i) l ++ v :: skipn (S (Z.to_nat i)) l).
Proof.
  intros H. unfold gupdl. destruct (Z.ltb_spec i 0); [lia|]. destruct (Z.leb_spec (glenl l) i); [lia|]. cbn [orb].
  rewrite updl_nat_spec by (unfold glenl in H; lia). reflexivity.
Qed.
Lemma gupdl_panic {A} (l : list A) i v : i < 0 \/ glenl l <= i -> gupdl l i v = Panic.
Proof.
  intros H. unfold gupdl. destruct (Z.ltb_spec i 0); [reflexivity|]. destruct (Z.leb_spec (glenl l) i); [reflexivity|lia].
Qed.
(* writing the first not yet written element: the shape every "make, then fill by index" loop needs *)
Lemma gupdl_app {A} (a : list A) x r v i : i = Z.of_nat (length a) -> gupdl (a ++ x :: r) i v = Ok (a ++ v :: r).
Proof.
  intros ->. unfold gupdl. destruct (Z.ltb_spec (Z.of_nat (length a)) 0); [lia|].
  destruct (Z.leb_spec (glenl (a ++ x :: r)) (Z.of_nat (length a))) as [H1|H1].
  { unfold glenl in H1. rewrite app_length in H1. cbn [length] in H1. lia. }
  cbn [orb]. rewrite Nat2Z.id, updl_nat_app. reflexivity.
Qed.
Lemma gupdl_length {A} (l : list A) i v l' : gupdl l i v = Ok l' -> glenl l' = glenl l.
Proof.
  unfold gupdl. destruct (_ || _); [discriminate|]. intros E. inversion E. unfold glenl. rewrite updl_nat_length. reflexivity.
Qed.

(* re-slicing a view *)
Lemma gview_ok b off lo : 0 <= lo <= glen b - off -> gview b off lo = Ok tt.
Proof. intros H. unfold gview. destruct (Z.ltb_spec lo 0); [lia|]. destruct (Z.ltb_spec (glen b - off) lo); [lia|reflexivity]. Qed.
Lemma gview_panic b off lo : lo < 0 \/ glen b - off < lo -> gview b off lo = Panic.
Proof. intros H. unfold gview. destruct (Z.ltb_spec lo 0); [reflexivity|]. destruct (Z.ltb_spec (glen b - off) lo); [reflexivity|lia]. Qed.
Lemma gview_N b off lo : gview b (Z.of_N off) (Z.of_N lo) = if (len b <? off + lo)%N then Panic else Ok tt.
Proof.
  unfold gview. rewrite glen_len. destruct (Z.ltb_spec (Z.of_N lo) 0); [lia|].
  destruct (Z.ltb_spec (Z.of_N (len b) - Z.of_N off) (Z.of_N lo)), (N.ltb_spec (len b) (off + lo)); try lia; reflexivity.
Qed.
Lemma gview_0_N b lo : gview b 0 (Z.of_N lo) = if (len b <? lo)%N then Panic else Ok tt.
Proof. change 0 with (Z.of_N 0). rewrite gview_N. reflexivity. Qed.
Lemma gview2_ok b off lo hi : 0 <= lo <= hi -> hi <= glen b - off -> gview2 b off lo hi = Ok tt.
Proof.
  intros H1 H2. unfold gview2. destruct (Z.ltb_spec lo 0); [lia|]. destruct (Z.ltb_spec hi lo); [lia|].
  destruct (Z.ltb_spec (glen b - off) hi); [lia|reflexivity].
Qed.
Lemma gview2_panic b off lo hi : lo < 0 \/ hi < lo \/ glen b - off < hi -> gview2 b off lo hi = Panic.
Proof.
  intros H. unfold gview2. destruct (Z.ltb_spec lo 0); [reflexivity|]. destruct (Z.ltb_spec hi lo); [reflexivity|].
  destruct (Z.ltb_spec (glen b - off) hi); [reflexivity|lia].
Qed.
(* x[0:hi] of the whole buffer against Base's slice (only the outcome matters: the view itself is the buffer) *)
Lemma gview2_0_N b hi : gview2 b 0 0 (Z.of_N hi) = res_map (fun _ => tt) (slice b 0 hi).
Proof.
  unfold gview2, slice. rewrite glen_len. cbn [Z.ltb Z.compare orb].
  destruct (Z.ltb_spec (Z.of_N hi) 0); [lia|]. cbn [orb].
  destruct (Z.ltb_spec (Z.of_N (len b) - 0) (Z.of_N hi)), (N.ltb_spec (len b) hi); try lia; cbn [orb]; [reflexivity|].
  destruct (N.ltb_spec hi 0); [lia|]. reflexivity.
Qed.

(* copy(dst[off:], src) is Base's copy_at *)
Lemma gcopy_N dst off src : gcopy dst (Z.of_N off) src = copy_at dst off src.
Proof.
  unfold gcopy, copy_at. rewrite glen_len.
  destruct (Z.ltb_spec (Z.of_N off) 0); [lia|].
  destruct (Z.ltb_spec (Z.of_N (len dst)) (Z.of_N off)), (N.ltb_spec (len dst) off); try lia; cbn [orb]; [reflexivity|].
  unfold glen, len in *.
  f_equal. f_equal; [f_equal; lia|]. f_equal; f_equal; lia.
Qed.
Lemma gcopy_Z dst off src : 0 <= off -> gcopy dst off src = copy_at dst (Z.to_N off) src.
Proof. intros H. rewrite <- (Z2N.id off H) at 1. apply gcopy_N. Qed.
Lemma gcopy_ok dst off src : 0 <= off -> off + glen src <= glen dst ->
  gcopy dst off src = Ok (firstn (Z.to_nat off) dst ++ src ++ skipn (Z.to_nat off + length src) dst).
Proof.
  intros H1 H2. rewrite gcopy_Z by lia. rewrite copy_at_ok by (unfold glen, len in *; lia).
  rewrite Z_N_nat. reflexivity.
Qed.
Lemma gcopy_panic dst off src : off < 0 \/ glen dst < off -> gcopy dst off src = Panic.
Proof.
  intros H. unfold gcopy. destruct (Z.ltb_spec off 0); [reflexivity|]. destruct (Z.ltb_spec (glen dst) off); [reflexivity|lia].
Qed.
Lemma gcopy_length dst off src d : gcopy dst off src = Ok d -> glen d = glen dst.
Proof.
  unfold gcopy. destruct (Z.ltb_spec off 0); [discriminate|]. destruct (Z.ltb_spec (glen dst) off); [discriminate|].
  cbn [orb]. intros E. inversion E. rewrite !glen_app, !glen_firstn, glen_skipn. cbv zeta. unfold glen. lia.
Qed.
(* writing at the frontier of a zero tail *)
Lemma gcopy_fr pre n src off : off = glen pre -> (len src <= n)%N ->
  gcopy (pre ++ zeros n) off src = Ok ((pre ++ src) ++ zeros (n - len src)).
Proof.
  intros -> H. rewrite glen_len, gcopy_N. apply copy_at_fr; [reflexivity|exact H].
Qed.
(* copy(dst[off:off+lim], src) when src fits the window *)
Lemma gcopy_lim_N dst off lim src : (off + lim <= len dst)%N -> (len src <= lim)%N ->
  gcopy_lim dst (Z.of_N off) (Z.of_N lim) src = copy_at dst off src.
Proof.
  intros H1 H2. unfold gcopy_lim, copy_at. rewrite glen_len.
  destruct (Z.ltb_spec (Z.of_N off) 0); [lia|]. destruct (Z.ltb_spec (Z.of_N lim) 0); [lia|].
  destruct (Z.ltb_spec (Z.of_N (len dst)) (Z.of_N off + Z.of_N lim)); [lia|]. cbn [orb].
  destruct (N.ltb_spec (len dst) off); [lia|].
  unfold glen, len in *.
  f_equal. f_equal; [f_equal; lia|]. f_equal; f_equal; lia.
Qed.
Lemma gcopy_lim_panic dst off lim src : off < 0 \/ lim < 0 \/ glen dst < off + lim -> gcopy_lim dst off lim src = Panic.
Proof.
  intros H. unfold gcopy_lim. destruct (Z.ltb_spec off 0); [reflexivity|]. destruct (Z.ltb_spec lim 0); [reflexivity|].
  destruct (Z.ltb_spec (glen dst) (off + lim)); [reflexivity|lia].
Qed.
(* copy(dst, src) on lists *)
Lemma gcopyl_length {A} (dst src : list A) : length (gcopyl dst src) = length dst.
Proof. unfold gcopyl. rewrite app_length, firstn_length, skipn_length. lia. Qed.
Lemma gcopyl_same_length {A} (dst src : list A) : length dst = length src -> gcopyl dst src = src.
Proof.
  intros H. unfold gcopyl. rewrite H, firstn_all, skipn_all2 by lia. apply app_nil_r.
Qed.

(* binary.BigEndian.PutUintK at the frontier of a zero tail *)
Lemma gbe_put_fr k pre n off x : off = glen pre -> (N.of_nat k <= n)%N ->
  gbe_put k (pre ++ zeros n) off (Z.of_N x) = Ok ((pre ++ be k x) ++ zeros (n - N.of_nat k)).
Proof. intros -> H. rewrite glen_len, gbe_put_N. apply put_be_fr; [reflexivity|exact H]. Qed.

Lemma skipn_cons_S {A} : forall n (l : list A) x r, skipn n l = x :: r -> skipn (S n) l = r.
Proof.
  induction n as [|n IH]; intros l x r H; destruct l as [|y l]; cbn [skipn] in *; try discriminate.
  - inversion H. reflexivity.
  - destruct n; [cbn [skipn] in H|]; eapply IH; exact H.
Qed.

End MoreGoSemFacts.

(* ================================================================================================ *)
(* rfc8888.go: CCFeedbackReportBlock                                                                 *)
(* ================================================================================================ *)
Ltac cc_fields :=
  cbv [GoSrc.set_CCFeedbackReportBlock_MediaSSRC GoSrc.set_CCFeedbackReportBlock_BeginSequence
       GoSrc.set_CCFeedbackReportBlock_MetricBlocks
       GoSrc.CCFeedbackReportBlock_MediaSSRC GoSrc.CCFeedbackReportBlock_BeginSequence GoSrc.CCFeedbackReportBlock_MetricBlocks
       GoSrc.set_CCFeedbackReport_SenderSSRC GoSrc.set_CCFeedbackReport_ReportBlocks GoSrc.set_CCFeedbackReport_ReportTimestamp
       GoSrc.CCFeedbackReport_SenderSSRC GoSrc.CCFeedbackReport_ReportBlocks GoSrc.CCFeedbackReport_ReportTimestamp].

(* len: Go's % on a non-negative int is mod *)
Lemma src_CCFeedbackReportBlock_len : forall b,
  GoSrc.CCFeedbackReportBlock_len (src_ccblock b) = Z.of_N (CCBlock_len b).
Proof.
  intros b. unfold GoSrc.CCFeedbackReportBlock_len, CCBlock_len, src_ccblock. cc_fields. consts.
  rewrite glenl_map, glenl_nlen. generalize (nlen (cb_metrics b)). intros n.
  rewrite Z.rem_mod_nonneg by lia.
  destruct (Z.eqb_spec (Z.of_N n mod 2) 0), (N.eqb_spec (n mod 2) 0); cbn [negb]; lia.
Qed.

Lemma CCBlock_len_ge b : (8 + 2 * nlen (cb_metrics b) <= CCBlock_len b)%N.
Proof. unfold CCBlock_len. consts. cbv zeta. destruct (negb _); lia. Qed.

Lemma CCMetric_marshal_length m b : CCMetric_marshal m = Ok b -> length b = 2%nat.
Proof.
  unfold CCMetric_marshal. cbv zeta.
  destruct (setNBitsOfUint16 0 1 0 _) as [d1| | |]; cbn [bind]; try discriminate.
  destruct (setNBitsOfUint16 d1 2 1 _) as [d2| | |]; cbn [bind]; try discriminate.
  destruct (setNBitsOfUint16 d2 13 3 _) as [d3| | |]; cbn [bind]; try discriminate.
  intros E. injection E as <-. reflexivity.
Qed.

(* the metric loop: metric block i goes to 8+2i of a buffer whose tail from there on is still zero; the outcome is the
   model's concatenation (the first failing metric block decides the outcome on both sides) *)
Ltac block_marshal_loop_tac LOOP AFTER :=
  let IH := fresh "IH" in
  intros vb vl ms; induction ms as [|m ms IH]; intros i pre n Hi Hp Hn;
  [ cbn [map LOOP metrics_marshal bind]; unfold AFTER; cbn [app]; change (len []) with 0%N;
    rewrite N.sub_0_r; reflexivity
  | cbn [map LOOP metrics_marshal]; cbv zeta; rewrite src_CCFeedbackMetricBlock_marshal;
    unfold nlen in Hn; cbn [length] in Hn;
    let b := fresh "b" in let E := fresh "E" in let Lb := fresh "Lb" in
    destruct (CCMetric_marshal m) as [b| | |] eqn:E; cbn [bind]; try reflexivity;
    pose proof (CCMetric_marshal_length _ _ E) as Lb;
    rewrite gview_ok by (rewrite glen_app, glen_zeros; lia); cbn [bind];
    rewrite gcopy_fr by (unfold len; lia); cbn [bind];
    rewrite IH by (unfold nlen, len; rewrite ?glen_app; unfold glen in *; lia);
    let bs := fresh "bs" in
    destruct (metrics_marshal ms) as [bs| | |]; cbn [bind]; try reflexivity;
    f_equal; rewrite <- !app_assoc; f_equal; f_equal; f_equal; f_equal; rewrite len_app; unfold len; lia ].

Lemma block_marshal_loop1 : forall vb vl ms i pre n,
  0 <= i -> glen pre = 8 + i * 2 -> (2 * nlen ms <= n)%N ->
  GoSrc.CCFeedbackReportBlock_marshal_loop1 (map src_metric ms) i vb (pre ++ zeros n) vl =
  let* bs := metrics_marshal ms in Ok (pre ++ bs ++ zeros (n - len bs)).
Proof. block_marshal_loop_tac GoSrc.CCFeedbackReportBlock_marshal_loop1 GoSrc.CCFeedbackReportBlock_marshal_after1. Qed.
Lemma block_marshal_loop2 : forall vb vl ms i pre n,
  0 <= i -> glen pre = 8 + i * 2 -> (2 * nlen ms <= n)%N ->
  GoSrc.CCFeedbackReportBlock_marshal_loop2 (map src_metric ms) i vb (pre ++ zeros n) vl =
  let* bs := metrics_marshal ms in Ok (pre ++ bs ++ zeros (n - len bs)).
Proof. block_marshal_loop_tac GoSrc.CCFeedbackReportBlock_marshal_loop2 GoSrc.CCFeedbackReportBlock_marshal_after2. Qed.

(* marshal: no hypothesis on the fields (PutUint32/PutUint16 truncate like the model's be) nor on the number of metric
   blocks (above 16384 both sides return an error) *)
Lemma src_CCFeedbackReportBlock_marshal : forall b,
  GoSrc.CCFeedbackReportBlock_marshal (src_ccblock b) = CCBlock_marshal b.
Proof.
  intros b. unfold GoSrc.CCFeedbackReportBlock_marshal, CCBlock_marshal.
  rewrite src_CCFeedbackReportBlock_len. pose proof (CCBlock_len_ge b) as HL. revert HL.
  generalize (CCBlock_len b). intros X HL.
  unfold src_ccblock. cc_fields. rewrite glenl_map, glenl_nlen. consts.
  set (vb := GoSrc.mkCCFeedbackReportBlock _ _ _).
  remember (nlen (cb_metrics b)) as n eqn:En.
  rewrite Zltb_N_l. destruct (N.ltb_spec 16384 n) as [Hn|Hn]; [reflexivity|].
  rewrite gmake_N. cbn [bind].
  change (zeros X) with ([] ++ zeros X).
  rewrite gbe_put_fr by (try reflexivity; lia). cbn [bind].
  rewrite gbe_put_fr by (rewrite ?glen_app, ?glen_be, ?glen_nil; try reflexivity; lia). cbn [bind].
  assert (Eu : uwrap 16 (Z.of_N n) = Z.of_N n) by (apply uwrap_small; change (2 ^ 16) with 65536; lia).
  assert (Eu' : u16 n = n) by (unfold u16; lia).
  rewrite Eu, Eu', Zltb_N_0l.
  destruct (N.ltb_spec 0 n) as [H0|H0].
  - replace (uwrap 16 (Z.of_N n - 1)) with (Z.of_N (n - 1))
      by (unfold uwrap; change (2 ^ 16) with 65536; rewrite Z.mod_small by lia; lia).
    rewrite gbe_put_fr by (rewrite ?glen_app, ?glen_be, ?glen_nil; try reflexivity; lia). cbn [bind].
    rewrite block_marshal_loop1 by (rewrite ?glen_app, ?glen_be, ?glen_nil; try reflexivity; lia).
    destruct (metrics_marshal (cb_metrics b)) as [bs| | |]; cbn [bind]; try reflexivity.
    f_equal. cbn [app]. rewrite <- !app_assoc. do 5 f_equal. lia.
  - rewrite gbe_put_fr by (rewrite ?glen_app, ?glen_be, ?glen_nil; try reflexivity; lia). cbn [bind].
    rewrite block_marshal_loop2 by (rewrite ?glen_app, ?glen_be, ?glen_nil; try reflexivity; lia).
    destruct (metrics_marshal (cb_metrics b)) as [bs| | |]; cbn [bind]; try reflexivity.
    f_equal. cbn [app]. rewrite <- !app_assoc. do 5 f_equal. lia.
Qed.

(* ---- unmarshal ---- *)
Lemma u16_sub16 a b : u16 (sub16 a b) = sub16 a b.
Proof. unfold u16, sub16. apply N.mod_mod. discriminate. Qed.

(* the metric loop: after i rounds the first i elements of the made slice are filled; the window rawPacket[8+2i:] is the
   model's shrinking rest.  [k] is the number of rounds still to go (so the fuel S (numReports - i) suffices). *)
Lemma block_unmarshal_loop : forall k fuel s bg done rest raw i nr e nrf,
  (k < fuel)%nat -> i = Z.of_nat (length done) -> nr = i + Z.of_nat k ->
  skipn (Z.to_nat (8 + 2 * i)) raw = rest -> (2 * k <= length rest)%nat ->
  GoSrc.CCFeedbackReportBlock_unmarshal_loop1 fuel
    (GoSrc.mkCCFeedbackReportBlock s bg (map src_metric done ++ repeat (GoSrc.mkCCFeedbackMetricBlock false 0 0) k))
    e i nr nrf raw
  = res_map (fun r => GoSrc.mkCCFeedbackReportBlock s bg (map src_metric (done ++ r))) (get_metrics k rest).
Proof.
  induction k as [|k IH]; intros fuel s bg done rest raw i nr e nrf Hf Hi Hnr Hs Hl;
    (destruct fuel as [|fuel]; [lia|]); cbn [GoSrc.CCFeedbackReportBlock_unmarshal_loop1].
  - destruct (Z.ltb_spec i nr); [lia|]. unfold GoSrc.CCFeedbackReportBlock_unmarshal_after1.
    cbn [get_metrics res_map repeat]. rewrite !app_nil_r. reflexivity.
  - destruct (Z.ltb_spec i nr); [|lia]. cbv zeta.
    destruct rest as [|b0 [|b1 rest']]; cbn [length] in Hl; try lia.
    assert (Hlen : (Z.to_nat (8 + 2 * i) + 2 <= length raw)%nat).
    { pose proof (f_equal (@length _) Hs) as L. rewrite skipn_length in L. cbn [length] in L. lia. }
    rewrite gslice_ok by (unfold glen; lia).
    replace (8 + 2 * i + 2 - (8 + 2 * i)) with 2 by lia. rewrite Hs. change (Z.to_nat 2) with 2%nat.
    cbn [firstn bind get_metrics].
    rewrite src_CCFeedbackMetricBlock_unmarshal.
    destruct (CCMetric_unmarshal [b0; b1]) as [m| | |]; cbn [bind res_map]; try reflexivity.
    cc_fields. cbn [repeat]. rewrite gupdl_app by (rewrite map_length; exact Hi). cbn [bind].
    replace (map src_metric done ++ src_metric m :: repeat (GoSrc.mkCCFeedbackMetricBlock false 0 0) k)
      with (map src_metric (done ++ [m]) ++ repeat (GoSrc.mkCCFeedbackMetricBlock false 0 0) k)
      by (rewrite map_app, <- app_assoc; reflexivity).
    rewrite (IH fuel s bg (done ++ [m]) rest').
    + destruct (get_metrics k rest') as [r| | |]; cbn [bind res_map]; try reflexivity.
      rewrite <- app_assoc. reflexivity.
    + lia.
    + rewrite app_length. cbn [length]. lia.
    + lia.
    + replace (Z.to_nat (8 + 2 * (i + 1))) with (S (S (Z.to_nat (8 + 2 * i)))) by lia.
      apply skipn_cons_S with b1. apply skipn_cons_S with b0. exact Hs.
    + lia.
Qed.

Lemma src_CCFeedbackReportBlock_unmarshal_gen : forall b0 raw, GoSrc.CCFeedbackReportBlock_MetricBlocks b0 = [] ->
  GoSrc.CCFeedbackReportBlock_unmarshal b0 raw = res_map src_ccblock (CCBlock_unmarshal raw).
Proof.
  intros [s0 g0 m0] raw Hm. cbn [GoSrc.CCFeedbackReportBlock_MetricBlocks] in Hm. subst m0.
  unfold GoSrc.CCFeedbackReportBlock_unmarshal, CCBlock_unmarshal. consts. rewrite glen_len, Zltb_N_r.
  destruct (N.ltb_spec (len raw) 8) as [Hl|Hl]; [reflexivity|].
  assert (Hg : 8 <= glen raw) by (rewrite glen_len; lia).
  unfold gslice_to. rewrite !gslice_ok by lia. cbn [bind]. rewrite gslice_from_ok by lia. cbn [bind].
  rewrite !gbe_get_ok by (rewrite ?glen_firstn, ?glen_skipn; lia). cbn [bind].
  reads_ok. cc_fields.
  change (4 - 0) with 4. change (6 - 4) with 2. nat_lits. change (skipn 0 raw) with raw.
  rewrite !firstn_firstn. cbn [Nat.min].
  generalize (unbe (firstn 4 raw)) as ssrc. generalize (unbe (firstn 2 (skipn 4 raw))) as bs.
  generalize (unbe (firstn 2 (skipn 6 raw))) as nrf. intros nrf bs ssrc.
  go2n. rewrite u16_sub16.
  destruct (nrf =? 0)%N; [reflexivity|].
  destruct (65535 <? bs + nrf)%N; [reflexivity|].
  generalize (u16 (sub16 (u16 (bs + nrf)) bs + 1)) as nr. intros nr.
  destruct (N.ltb_spec (len raw) (8 + nr * 2)) as [Hr|Hr]; [reflexivity|].
  rewrite gmakel_ok by lia. cbn [bind].
  replace (Z.to_nat (Z.of_N nr)) with (N.to_nat nr) by lia.
  rewrite (block_unmarshal_loop (N.to_nat nr) _ _ _ [] (skipn 8 raw)).
  - destruct (get_metrics (N.to_nat nr) (skipn 8 raw)) as [ms| | |]; reflexivity.
  - lia.
  - reflexivity.
  - lia.
  - reflexivity.
  - rewrite skipn_length. unfold len in Hr. lia.
Qed.

Lemma src_CCFeedbackReportBlock_unmarshal : forall raw,
  GoSrc.CCFeedbackReportBlock_unmarshal GoSrc.zero_CCFeedbackReportBlock raw = res_map src_ccblock (CCBlock_unmarshal raw).
Proof. intros raw. apply src_CCFeedbackReportBlock_unmarshal_gen. reflexivity. Qed.

(* a receiver that already holds metric blocks keeps them when the num_reports field is 0 (the Go code returns before
   the make): the general-receiver form needs the hypothesis above.  CCFeedbackReport.Unmarshal always passes a fresh block. *)
Lemma src_CCFeedbackReportBlock_unmarshal_general_receiver_refuted :
  exists b0 raw, GoSrc.CCFeedbackReportBlock_unmarshal b0 raw <> res_map src_ccblock (CCBlock_unmarshal raw).
Proof.
  exists (GoSrc.mkCCFeedbackReportBlock 0 0 [GoSrc.mkCCFeedbackMetricBlock true 1 1]), (zeros 8).
  vm_compute. discriminate.
Qed.

(* ================================================================================================ *)
(* rfc8888.go: CCFeedbackReport, the functions without buffers                                       *)
(* ================================================================================================ *)
Definition blocks_size (bs : list CCBlock) : N := fold_right (fun b acc => (CCBlock_len b + acc)%N) 0%N bs.

Lemma MarshalSize_loop : forall vb bs i n,
  GoSrc.CCFeedbackReport_MarshalSize_loop1 (map src_ccblock bs) i vb n = 8 + (n + Z.of_N (blocks_size bs)) + 4.
Proof.
  intros vb bs. induction bs as [|b bs IH]; intros i n; cbn [map GoSrc.CCFeedbackReport_MarshalSize_loop1 blocks_size fold_right].
  - unfold GoSrc.CCFeedbackReport_MarshalSize_after1. lia.
  - cbv zeta. rewrite IH, src_CCFeedbackReportBlock_len. fold (blocks_size bs). lia.
Qed.

Lemma src_CCFeedbackReport_MarshalSize : forall x,
  GoSrc.CCFeedbackReport_MarshalSize (src_ccfb x) = Z.of_N (CCFB_size x).
Proof.
  intros x. unfold GoSrc.CCFeedbackReport_MarshalSize, CCFB_size, src_ccfb. cc_fields. cbv zeta.
  rewrite MarshalSize_loop. fold (blocks_size (cc_blocks x)). consts. lia.
Qed.

Lemma src_CCFeedbackReport_Len : forall x, GoSrc.CCFeedbackReport_Len (src_ccfb x) = Z.of_N (CCFB_size x).
Proof. intros x. unfold GoSrc.CCFeedbackReport_Len. apply src_CCFeedbackReport_MarshalSize. Qed.

Lemma CCFB_size_ge x : (12 <= CCFB_size x)%N.
Proof. unfold CCFB_size. consts. lia. Qed.

Lemma src_CCFeedbackReport_Header : forall x,
  GoSrc.CCFeedbackReport_Header (src_ccfb x) = src_header (CCFB_header x).
Proof.
  intros x. unfold GoSrc.CCFeedbackReport_Header, CCFB_header, src_header. cbn [h_pad h_count h_type h_len].
  rewrite src_CCFeedbackReport_MarshalSize. consts. pose proof (CCFB_size_ge x) as H. revert H.
  generalize (CCFB_size x) as n. intros n H.
  f_equal. rewrite Z.quot_div_nonneg by lia. unfold uwrap, u16. change (2 ^ 16) with 65536. lia.
Qed.

(* DestinationSSRC: make([]uint32, len(blocks)) then ssrcs[i] = block.MediaSSRC *)
Lemma DestinationSSRC_loop : forall vb bs done i,
  i = Z.of_nat (length done) ->
  GoSrc.CCFeedbackReport_DestinationSSRC_loop1 (map src_ccblock bs) i vb (done ++ repeat 0 (length bs)) =
  Ok (done ++ zN (map cb_ssrc bs)).
Proof.
  intros vb bs. induction bs as [|b bs IH]; intros done i Hi;
    cbn [map GoSrc.CCFeedbackReport_DestinationSSRC_loop1 length repeat zN].
  - unfold GoSrc.CCFeedbackReport_DestinationSSRC_after1. reflexivity.
  - cbv zeta. rewrite gupdl_app by exact Hi. cbn [bind].
    change (GoSrc.CCFeedbackReportBlock_MediaSSRC (src_ccblock b)) with (Z.of_N (cb_ssrc b)).
    replace (done ++ Z.of_N (cb_ssrc b) :: repeat 0 (length bs)) with ((done ++ [Z.of_N (cb_ssrc b)]) ++ repeat 0 (length bs))
      by (rewrite <- app_assoc; reflexivity).
    rewrite IH by (rewrite app_length; cbn [length]; lia).
    rewrite <- app_assoc. reflexivity.
Qed.

Lemma src_CCFeedbackReport_DestinationSSRC : forall x,
  GoSrc.CCFeedbackReport_DestinationSSRC (src_ccfb x) = Ok (zN (dest_packet (PCCFB x))).
Proof.
  intros x. unfold GoSrc.CCFeedbackReport_DestinationSSRC, src_ccfb. cc_fields.
  rewrite gmakel_ok by apply glenl_nonneg. cbn [bind].
  unfold glenl. rewrite Nat2Z.id, map_length.
  change (repeat 0 (length (cc_blocks x))) with ([] ++ repeat 0 (length (cc_blocks x))).
  rewrite DestinationSSRC_loop by reflexivity. reflexivity.
Qed.

(* ================================================================================================ *)
(* rfc8888.go: CCFeedbackReport.Marshal                                                              *)
(* ================================================================================================ *)
(* the model's put_blocks is written like the Go loop (copy into the buffer at a moving offset), so the invariant is
   just "same buffer, same offset" *)
Lemma report_marshal_loop : forall vb h hb l bs i buf off,
  GoSrc.CCFeedbackReport_Marshal_loop1 (map src_ccblock bs) i vb buf h hb l (Z.of_N off) =
  bind (put_blocks buf off bs) (fun p => GoSrc.CCFeedbackReport_Marshal_after1 vb (fst p) h hb l (Z.of_N (snd p))).
Proof.
  intros vb h hb l bs. induction bs as [|b bs IH]; intros i buf off; cbn [map GoSrc.CCFeedbackReport_Marshal_loop1 put_blocks].
  - cbn [bind fst snd]. reflexivity.
  - cbv zeta. rewrite src_CCFeedbackReportBlock_marshal.
    destruct (CCBlock_marshal b) as [d| | |]; cbn [bind]; try reflexivity.
    rewrite gview_0_N, gcopy_N.
    destruct (N.ltb_spec (len buf) off) as [Ho|Ho]; cbn [bind].
    + unfold copy_at. destruct (N.ltb_spec (len buf) off); [reflexivity|lia].
    + destruct (copy_at buf off d) as [buf'| | |]; cbn [bind]; try reflexivity.
      rewrite src_CCFeedbackReportBlock_len, Zadd_N. apply IH.
Qed.

Lemma report_marshal_after : forall x buf h hb l off,
  GoSrc.CCFeedbackReport_Marshal_after1 (src_ccfb x) buf h hb l (Z.of_N off) = put_be_at 4 buf off (cc_timestamp x).
Proof.
  intros. unfold GoSrc.CCFeedbackReport_Marshal_after1. rewrite gview_0_N. unfold src_ccfb. cc_fields. rewrite gbe_put_N.
  destruct (N.ltb_spec (len buf) off) as [Ho|Ho]; cbn [bind].
  - unfold put_be_at. destruct (N.ltb_spec (len buf) (off + N.of_nat 4)); [reflexivity|lia].
  - apply bind_Ok_r.
Qed.

Lemma src_CCFeedbackReport_Marshal : forall x, GoSrc.CCFeedbackReport_Marshal (src_ccfb x) = CCFB_marshal x.
Proof.
  intros x. unfold GoSrc.CCFeedbackReport_Marshal, CCFB_marshal. cbv zeta.
  rewrite src_CCFeedbackReport_Header, src_Header_Marshal.
  destruct (Header_marshal (CCFB_header x)) as [hb| | |] eqn:E; cbn [bind]; try reflexivity.
  pose proof (Header_marshal_length _ _ E) as Lh.
  change (GoSrc.Header_Length (src_header (CCFB_header x))) with (Z.of_N (h_len (CCFB_header x))).
  generalize (h_len (CCFB_header x)) as hl; intros hl.
  replace (4 * (Z.of_N hl + 1)) with (Z.of_N (4 * (hl + 1))) by lia.
  rewrite gmake_N. cbn [bind]. consts.
  rewrite gview2_ok by (rewrite ?glen_zeros; lia). rewrite slice_ok by (rewrite ?len_zeros; lia). cbn [bind].
  rewrite (gcopy_lim_N _ 0 4) by (rewrite ?len_zeros; unfold len; lia).
  destruct (copy_at (zeros (4 * (hl + 1))) 0 hb) as [buf1| | |]; cbn [bind]; try reflexivity.
  change (GoSrc.CCFeedbackReport_SenderSSRC (src_ccfb x)) with (Z.of_N (cc_sender x)).
  change (GoSrc.CCFeedbackReport_ReportBlocks (src_ccfb x)) with (map src_ccblock (cc_blocks x)).
  rewrite (gbe_put_N 4 _ 4).
  destruct (put_be_at 4 buf1 4 (cc_sender x)) as [buf2| | |]; cbn [bind]; try reflexivity.
  rewrite (report_marshal_loop _ _ _ _ _ _ _ 8).
  destruct (put_blocks buf2 8 (cc_blocks x)) as [[buf3 off]| | |]; cbn [bind fst snd]; try reflexivity.
  apply report_marshal_after.
Qed.

(* ================================================================================================ *)
(* rfc8888.go: CCFeedbackReport.Unmarshal                                                            *)
(* ================================================================================================ *)
(* both loops are fuelled (with different fuels); every round advances the offset by the length of a block, at least 8,
   so any fuel above stop - off is enough on both sides *)
Lemma report_unmarshal_loop : forall raw stop s ts h f1 f2 off acc,
  (N.to_nat (stop - off) < f1)%nat -> (N.to_nat (stop - off) < f2)%nat ->
  GoSrc.CCFeedbackReport_Unmarshal_loop1 f1 (GoSrc.mkCCFeedbackReport s (map src_ccblock acc) ts) h (Z.of_N off) raw (Z.of_N stop)
  = res_map (fun r => GoSrc.mkCCFeedbackReport s (map src_ccblock (acc ++ r)) ts) (blocks_loop f2 raw off stop).
Proof.
  intros raw stop s ts h. induction f1 as [|f1 IH]; intros f2 off acc H1 H2; [lia|]. destruct f2 as [|f2]; [lia|].
  cbn [GoSrc.CCFeedbackReport_Unmarshal_loop1 blocks_loop]. rewrite Zltb_N.
  destruct (N.ltb_spec off stop) as [Ho|Ho].
  - cbv zeta. rewrite gslice_from_N. destruct (slice_from raw off) as [sub| | |]; cbn [bind]; try reflexivity.
    rewrite (src_CCFeedbackReportBlock_unmarshal_gen _ sub) by reflexivity.
    destruct (CCBlock_unmarshal sub) as [b| | |]; cbn [bind res_map]; try reflexivity.
    cc_fields. rewrite src_CCFeedbackReportBlock_len, Zadd_N.
    replace (map src_ccblock acc ++ [src_ccblock b]) with (map src_ccblock (acc ++ [b])) by (rewrite map_app; reflexivity).
    pose proof (CCBlock_len_ge b) as Hb.
    rewrite (IH f2) by lia.
    destruct (blocks_loop f2 raw (off + CCBlock_len b) stop) as [r| | |]; cbn [bind res_map]; try reflexivity.
    rewrite <- app_assoc. reflexivity.
  - unfold GoSrc.CCFeedbackReport_Unmarshal_after1. cbn [res_map]. rewrite app_nil_r. reflexivity.
Qed.

(* any receiver: every field is assigned (ReportBlocks is reset to nil before the loop appends) *)
Lemma src_CCFeedbackReport_Unmarshal_gen : forall b0 raw,
  GoSrc.CCFeedbackReport_Unmarshal b0 raw = res_map src_ccfb (CCFB_unmarshal raw).
Proof.
  intros [s0 bl0 t0] raw. unfold GoSrc.CCFeedbackReport_Unmarshal, CCFB_unmarshal. consts. rewrite glen_len.
  change (4 + 4 + 4)%N with 12%N. rewrite Zltb_N_r.
  destruct (N.ltb_spec (len raw) 12) as [Hl|Hl]; [reflexivity|]. cbv zeta.
  rewrite src_Header_Unmarshal.
  destruct (Header_unmarshal raw) as [h| | |]; cbn [res_map bind]; try reflexivity.
  change (GoSrc.Header_Type (src_header h)) with (Z.of_N (h_type h)). rewrite Zeqb_N_r.
  destruct (negb (h_type h =? 205)%N); [reflexivity|].
  replace (Z.of_N (len raw) - 4) with (Z.of_N (len raw - 4)) by lia.
  assert (Hg : 12 <= glen raw) by (rewrite glen_len; lia).
  rewrite !gslice_from_ok by (rewrite ?glen_len in *; lia). cbn [bind].
  rewrite !gbe_get_ok by (rewrite glen_skipn; rewrite ?glen_len in *; lia). cbn [bind].
  reads_ok. cc_fields. nat_lits. rewrite <- (Z_N_nat (Z.of_N (len raw - 4))), N2Z.id.
  generalize (unbe (firstn 4 (skipn 4 raw))) as sender. generalize (unbe (firstn 4 (skipn (N.to_nat (len raw - 4)) raw))) as ts.
  intros ts sender.
  change (@nil GoSrc.CCFeedbackReportBlock) with (map src_ccblock []).
  rewrite (report_unmarshal_loop raw (len raw - 4) _ _ _ _ (S (length raw)) 8 []) by (unfold len in *; lia).
  destruct (blocks_loop (S (length raw)) raw 8 (len raw - 4)) as [r| | |]; reflexivity.
Qed.

Lemma src_CCFeedbackReport_Unmarshal : forall raw,
  GoSrc.CCFeedbackReport_Unmarshal GoSrc.zero_CCFeedbackReport raw = res_map src_ccfb (CCFB_unmarshal raw).
Proof. intros raw. apply src_CCFeedbackReport_Unmarshal_gen. Qed.

(* ================================================================================================ *)
(* transport_layer_cc.go: StatusVectorChunk.Unmarshal (four counted loops over the bits of two octets)*)
(* ================================================================================================ *)
Fixpoint zlist_eqb (a b : list Z) : bool :=
  match a, b with
  | [], [] => true
  | x :: a', y :: b' => (x =? y) && zlist_eqb a' b'
  | _, _ => false
  end.
Lemma zlist_eqb_eq : forall a b, zlist_eqb a b = true -> a = b.
Proof.
  induction a as [|x a IH]; intros [|y b] H; cbn [zlist_eqb] in H; try discriminate; [reflexivity|].
  apply andb_prop in H. destruct H as [H1 H2]. apply Z.eqb_eq in H1. apply IH in H2. subst. reflexivity.
Qed.
Definition svc_eqb (a b : GoSrc.StatusVectorChunk) : bool :=
  (GoSrc.StatusVectorChunk_Type a =? GoSrc.StatusVectorChunk_Type b) &&
  (GoSrc.StatusVectorChunk_SymbolSize a =? GoSrc.StatusVectorChunk_SymbolSize b) &&
  zlist_eqb (GoSrc.StatusVectorChunk_SymbolList a) (GoSrc.StatusVectorChunk_SymbolList b).
Lemma svc_eqb_eq : forall a b, svc_eqb a b = true -> a = b.
Proof.
  intros [t1 s1 l1] [t2 s2 l2] H. unfold svc_eqb in H.
  cbn [GoSrc.StatusVectorChunk_Type GoSrc.StatusVectorChunk_SymbolSize GoSrc.StatusVectorChunk_SymbolList] in H.
  apply andb_prop in H. destruct H as [H H3]. apply andb_prop in H. destruct H as [H1 H2].
  apply Z.eqb_eq in H1. apply Z.eqb_eq in H2. apply zlist_eqb_eq in H3. subst. reflexivity.
Qed.

Ltac svc_fields :=
  cbv [GoSrc.set_StatusVectorChunk_Type GoSrc.set_StatusVectorChunk_SymbolSize GoSrc.set_StatusVectorChunk_SymbolList
       GoSrc.StatusVectorChunk_Type GoSrc.StatusVectorChunk_SymbolSize GoSrc.StatusVectorChunk_SymbolList].
Definition svc_prepend (l : list Z) (c : GoSrc.StatusVectorChunk) : GoSrc.StatusVectorChunk :=
  GoSrc.mkStatusVectorChunk (GoSrc.StatusVectorChunk_Type c) (GoSrc.StatusVectorChunk_SymbolSize c)
    (l ++ GoSrc.StatusVectorChunk_SymbolList c).

Lemma svc_loop2_prepend l b : forall fuel i i1 t ss acc,
  GoSrc.StatusVectorChunk_Unmarshal_loop2 fuel i i1 (GoSrc.mkStatusVectorChunk t ss (l ++ acc)) b =
  res_map (svc_prepend l) (GoSrc.StatusVectorChunk_Unmarshal_loop2 fuel i i1 (GoSrc.mkStatusVectorChunk t ss acc) b).
Proof.
  induction fuel as [|fuel IH]; intros; cbn [GoSrc.StatusVectorChunk_Unmarshal_loop2]; [reflexivity|].
  destruct (i1 <? 8).
  - destruct (gidx b 1); cbn [bind res_map]; try reflexivity. svc_fields. rewrite <- app_assoc. apply IH.
  - reflexivity.
Qed.
Lemma svc_loop1_prepend l b : forall fuel i t ss acc,
  GoSrc.StatusVectorChunk_Unmarshal_loop1 fuel i (GoSrc.mkStatusVectorChunk t ss (l ++ acc)) b =
  res_map (svc_prepend l) (GoSrc.StatusVectorChunk_Unmarshal_loop1 fuel i (GoSrc.mkStatusVectorChunk t ss acc) b).
Proof.
  induction fuel as [|fuel IH]; intros; cbn [GoSrc.StatusVectorChunk_Unmarshal_loop1]; [reflexivity|].
  destruct (i <? 6).
  - destruct (gidx b 0); cbn [bind res_map]; try reflexivity. svc_fields. rewrite <- app_assoc. apply IH.
  - unfold GoSrc.StatusVectorChunk_Unmarshal_after1. apply svc_loop2_prepend.
Qed.
Lemma svc_loop4_prepend l b : forall fuel i i1 t ss acc,
  GoSrc.StatusVectorChunk_Unmarshal_loop4 fuel i i1 (GoSrc.mkStatusVectorChunk t ss (l ++ acc)) b =
  res_map (svc_prepend l) (GoSrc.StatusVectorChunk_Unmarshal_loop4 fuel i i1 (GoSrc.mkStatusVectorChunk t ss acc) b).
Proof.
  induction fuel as [|fuel IH]; intros; cbn [GoSrc.StatusVectorChunk_Unmarshal_loop4]; [reflexivity|].
  destruct (i1 <? 4).
  - destruct (gidx b 1); cbn [bind res_map]; try reflexivity. svc_fields. rewrite <- app_assoc. apply IH.
  - reflexivity.
Qed.
Lemma svc_loop3_prepend l b : forall fuel i t ss acc,
  GoSrc.StatusVectorChunk_Unmarshal_loop3 fuel i (GoSrc.mkStatusVectorChunk t ss (l ++ acc)) b =
  res_map (svc_prepend l) (GoSrc.StatusVectorChunk_Unmarshal_loop3 fuel i (GoSrc.mkStatusVectorChunk t ss acc) b).
Proof.
  induction fuel as [|fuel IH]; intros; cbn [GoSrc.StatusVectorChunk_Unmarshal_loop3]; [reflexivity|].
  destruct (i <? 3).
  - destruct (gidx b 0); cbn [bind res_map]; try reflexivity. svc_fields. rewrite <- app_assoc. apply IH.
  - unfold GoSrc.StatusVectorChunk_Unmarshal_after3. apply svc_loop4_prepend.
Qed.

(* general receiver: Type and SymbolSize are overwritten, the symbols are APPENDED to the receiver's SymbolList *)
Lemma StatusVectorChunk_Unmarshal_receiver : forall r0 b,
  GoSrc.StatusVectorChunk_Unmarshal r0 b =
  res_map (svc_prepend (GoSrc.StatusVectorChunk_SymbolList r0)) (GoSrc.StatusVectorChunk_Unmarshal GoSrc.zero_StatusVectorChunk b).
Proof.
  intros [t0 s0 l0] b. unfold GoSrc.StatusVectorChunk_Unmarshal, GoSrc.zero_StatusVectorChunk.
  destruct (negb (glen b =? 2)); [reflexivity|].
  destruct (gidx b 0) as [x| | |]; cbn [bind res_map]; try reflexivity.
  svc_fields.
  destruct (_ =? 0).
  - rewrite <- (app_nil_r l0) at 1. apply svc_loop1_prepend.
  - destruct (_ =? 1).
    + rewrite <- (app_nil_r l0) at 1. apply svc_loop3_prepend.
    + destruct (gidx b 1) as [y| | |]; cbn [bind res_map]; try reflexivity.
      unfold svc_prepend. svc_fields. rewrite app_nil_r. reflexivity.
Qed.

(* every pair of octets, by evaluation (65536 cases; whatever the shape of the four loops) *)
Lemma svc_two_octets :
  all_below 256 (fun x => all_below 256 (fun y =>
    res_eqb svc_eqb (GoSrc.StatusVectorChunk_Unmarshal GoSrc.zero_StatusVectorChunk [n2b x; n2b y])
                    (res_map src_svc (SVC_unmarshal [n2b x; n2b y])))) = true.
Proof. vm_compute. reflexivity. Qed.

Lemma src_StatusVectorChunk_Unmarshal : forall b,
  GoSrc.StatusVectorChunk_Unmarshal GoSrc.zero_StatusVectorChunk b = res_map src_svc (SVC_unmarshal b).
Proof.
  intros b. destruct (Nat.eq_dec (length b) 2) as [E|E].
  - destruct b as [|x [|y [|z r]]]; cbn [length] in E; try lia.
    rewrite <- (n2b_b2n x), <- (n2b_b2n y). apply (res_eqb_eq svc_eqb svc_eqb_eq).
    pose proof (all_below_spec _ _ svc_two_octets (b2n x) (b2n_lt x)) as K1. cbv beta in K1.
    exact (all_below_spec _ _ K1 (b2n y) (b2n_lt y)).
  - unfold GoSrc.StatusVectorChunk_Unmarshal, SVC_unmarshal. consts.
    destruct (Z.eqb_spec (glen b) 2) as [H|H]; [unfold glen in H; lia|].
    destruct (N.eqb_spec (len b) 2) as [H'|H']; [unfold len in H'; lia|]. reflexivity.
Qed.

Lemma src_StatusVectorChunk_Unmarshal_gen : forall r0 b,
  GoSrc.StatusVectorChunk_Unmarshal r0 b =
  res_map (fun c => svc_prepend (GoSrc.StatusVectorChunk_SymbolList r0) (src_svc c)) (SVC_unmarshal b).
Proof.
  intros r0 b. rewrite StatusVectorChunk_Unmarshal_receiver, src_StatusVectorChunk_Unmarshal, res_map_res_map. reflexivity.
Qed.

(* ================================================================================================ *)
(* the statements in the form "well-formed value -> ..." (the hypotheses are not needed)             *)
(* ================================================================================================ *)
Definition ccblock_fits (b : CCBlock) : Prop :=
  (cb_ssrc b < 4294967296 /\ cb_begin b < 65536)%N /\ Forall metric_fits (cb_metrics b).
Definition ccfb_fits (x : CCFB) : Prop :=
  (cc_sender x < 4294967296 /\ cc_timestamp x < 4294967296)%N /\ Forall ccblock_fits (cc_blocks x).
Corollary src_CCFeedbackReportBlock_marshal_fits : forall b, ccblock_fits b ->
  GoSrc.CCFeedbackReportBlock_marshal (src_ccblock b) = CCBlock_marshal b.
Proof. intros b _. apply src_CCFeedbackReportBlock_marshal. Qed.
Corollary src_CCFeedbackReport_Marshal_fits : forall x, ccfb_fits x ->
  GoSrc.CCFeedbackReport_Marshal (src_ccfb x) = CCFB_marshal x.
Proof. intros x _. apply src_CCFeedbackReport_Marshal. Qed.

Print Assumptions gcopy_N.
Print Assumptions gcopy_lim_N.
Print Assumptions gupdl_app.
Print Assumptions gview_N.
Print Assumptions src_CCFeedbackReportBlock_len.
Print Assumptions src_CCFeedbackReportBlock_marshal.
Print Assumptions src_CCFeedbackReportBlock_unmarshal_gen.
Print Assumptions src_CCFeedbackReportBlock_unmarshal.
Print Assumptions src_CCFeedbackReportBlock_unmarshal_general_receiver_refuted.
Print Assumptions src_CCFeedbackReport_MarshalSize.
Print Assumptions src_CCFeedbackReport_Len.
Print Assumptions src_CCFeedbackReport_Header.
Print Assumptions src_CCFeedbackReport_DestinationSSRC.
Print Assumptions src_CCFeedbackReport_Marshal.
Print Assumptions src_CCFeedbackReport_Unmarshal_gen.
Print Assumptions src_CCFeedbackReport_Unmarshal.
Print Assumptions src_StatusVectorChunk_Unmarshal.
Print Assumptions StatusVectorChunk_Unmarshal_receiver.
Print Assumptions src_StatusVectorChunk_Unmarshal_gen.
Print Assumptions src_CCFeedbackReportBlock_marshal_fits.
Print Assumptions src_CCFeedbackReport_Marshal_fits.
