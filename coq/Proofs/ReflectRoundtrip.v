(* Generic WRITE-then-READ round trip of the reflection model (Lib/Reflect.v): one theorem for every layout. *)
From RTCP Require Import Proofs.Tactics Lib.Reflect Gen.Layouts Spec.Enc Proofs.EncXr Proofs.XrRead.
From Coq Require Import String.
Local Open Scope N_scope.

(* ------------------------------------------------------------------------------------------------ *)
(* induction over the nested type descriptors                                                         *)
(* ------------------------------------------------------------------------------------------------ *)
Section ty_indR.
  Variable P : ty -> Prop.
  Hypothesis H8 : P TU8.
  Hypothesis H16 : P TU16.
  Hypothesis H32 : P TU32.
  Hypothesis H64 : P TU64.
  Hypothesis Hbool : P TBool.
  Hypothesis Hbad : P TBad.
  Hypothesis Hslice : forall e, P e -> P (TSlice e).
  Hypothesis Hstruct : forall fs, Forall (fun f => match f with Field _ ft _ _ => P ft end) fs -> P (TStruct fs).
  Fixpoint ty_indR (t : ty) : P t :=
    match t with
    | TU8 => H8 | TU16 => H16 | TU32 => H32 | TU64 => H64 | TBool => Hbool | TBad => Hbad
    | TSlice e => Hslice e (ty_indR e)
    | TStruct fs =>
        Hstruct fs
          ((fix go (fs : list field) : Forall (fun f => match f with Field _ ft _ _ => P ft end) fs :=
              match fs with
              | [] => Forall_nil _
              | Field n ft om ex :: fs' => Forall_cons (Field n ft om ex) (ty_indR ft) (go fs')
              end) fs)
    end.
End ty_indR.

(* ------------------------------------------------------------------------------------------------ *)
(* the side conditions, as booleans                                                                   *)
(* ------------------------------------------------------------------------------------------------ *)
(* constant-size types: no slice, no bool / bad member in an exported non-omitted position *)
Fixpoint fixed (t : ty) : bool :=
  match t with
  | TU8 | TU16 | TU32 | TU64 => true
  | TStruct fs =>
      (fix go (fs : list field) : bool :=
         match fs with [] => true | Field _ ft om ex :: fs' => (om || negb ex || fixed ft) && go fs' end) fs
  | _ => false
  end.
Fixpoint fixed_fields (fs : list field) : bool :=
  match fs with [] => true | Field _ ft om ex :: fs' => (om || negb ex || fixed ft) && fixed_fields fs' end.
Lemma fixed_struct fs : fixed (TStruct fs) = fixed_fields fs.
Proof. reflexivity. Qed.

(* the size of the encoding of a fixed type *)
Fixpoint fsize (t : ty) : N :=
  match t with
  | TStruct fs =>
      (fix go (fs : list field) : N :=
         match fs with
         | [] => 0
         | Field _ ft om ex :: fs' => (if om then 0 else if ex then fsize ft else mem_size ft) + go fs'
         end) fs
  | _ => mem_size t
  end.
Fixpoint fsize_fields (fs : list field) : N :=
  match fs with
  | [] => 0
  | Field _ ft om ex :: fs' => (if om then 0 else if ex then fsize ft else mem_size ft) + fsize_fields fs'
  end.
Lemma fsize_struct fs : fsize (TStruct fs) = fsize_fields fs.
Proof. reflexivity. Qed.

(* a slice swallows the rest of the window: only in last position, and its elements must not be empty *)
Fixpoint tail_ok (t : ty) : bool :=
  fixed t ||
  match t with
  | TSlice e => fixed e && (0 <? fsize e)
  | TStruct fs =>
      (fix go (fs : list field) : bool :=
         match fs with
         | [] => true
         | Field _ ft om ex :: fs' =>
             if om || negb ex then go fs'
             else (fixed ft && go fs') || (tail_ok ft && match fs' with [] => true | _ => false end)
         end) fs
  | _ => false
  end.
Fixpoint tail_fields (fs : list field) : bool :=
  match fs with
  | [] => true
  | Field _ ft om ex :: fs' =>
      if om || negb ex then tail_fields fs'
      else (fixed ft && tail_fields fs') || (tail_ok ft && match fs' with [] => true | _ => false end)
  end.
Lemma tail_ok_struct fs : tail_ok (TStruct fs) = fixed_fields fs || tail_fields fs.
Proof. reflexivity. Qed.
Lemma tail_ok_slice e : tail_ok (TSlice e) = fixed e && (0 <? fsize e).
Proof. reflexivity. Qed.

(* v has the shape of t, scalars in range (omitted / unexported members are not looked at) *)
Fixpoint fitsv (t : ty) (v : val) {struct v} : bool :=
  match t, v with
  | TSlice e, VSlice vs => forallb (fitsv e) vs
  | TStruct fs, VStruct vs =>
      (fix go (vs : list val) (fs : list field) {struct vs} : bool :=
         match vs, fs with
         | [], [] => true
         | x :: vs', Field _ ft om ex :: fs' => (if om then true else if ex then fitsv ft x else true) && go vs' fs'
         | _, _ => false
         end) vs fs
  | _, VU n => match scalar_size t with Some k => fits (8 * N.of_nat k) n | None => false end
  | _, _ => false
  end.
Fixpoint fitsv_fields (vs : list val) (fs : list field) {struct vs} : bool :=
  match vs, fs with
  | [], [] => true
  | x :: vs', Field _ ft om ex :: fs' => (if om then true else if ex then fitsv ft x else true) && fitsv_fields vs' fs'
  | _, _ => false
  end.
Lemma fitsv_struct fs vs : fitsv (TStruct fs) (VStruct vs) = fitsv_fields vs fs.
Proof. reflexivity. Qed.
Lemma fitsv_slice e vs : fitsv (TSlice e) (VSlice vs) = forallb (fitsv e) vs.
Proof. reflexivity. Qed.

(* what read gives back: omitted and unexported members are the zero value *)
Fixpoint norm (t : ty) (v : val) {struct v} : val :=
  match t, v with
  | TSlice e, VSlice vs => VSlice (map (norm e) vs)
  | TStruct fs, VStruct vs =>
      VStruct ((fix go (vs : list val) (fs : list field) {struct vs} : list val :=
         match vs, fs with
         | x :: vs', Field _ ft om ex :: fs' => (if om then zero_of ft else if ex then norm ft x else zero_of ft) :: go vs' fs'
         | _, _ => []
         end) vs fs)
  | _, _ => v
  end.
Fixpoint norm_fields (vs : list val) (fs : list field) {struct vs} : list val :=
  match vs, fs with
  | x :: vs', Field _ ft om ex :: fs' => (if om then zero_of ft else if ex then norm ft x else zero_of ft) :: norm_fields vs' fs'
  | _, _ => []
  end.
Lemma norm_struct fs vs : norm (TStruct fs) (VStruct vs) = VStruct (norm_fields vs fs).
Proof. reflexivity. Qed.
Lemma norm_slice e vs : norm (TSlice e) (VSlice vs) = VSlice (map (norm e) vs).
Proof. reflexivity. Qed.

(* ------------------------------------------------------------------------------------------------ *)
(* the two inner loops of [write], named                                                              *)
(* ------------------------------------------------------------------------------------------------ *)
Fixpoint write_fields (vs : list val) (fs : list field) (room : N) {struct vs} : res (bytes * N) :=
  match vs, fs with
  | x :: vs', Field _ ft om ex :: fs' =>
      if om then write_fields vs' fs' room else
      if ex then
        let* (o1, r1) := write ft x room in
        let* (o2, r2) := write_fields vs' fs' r1 in
        Ok (o1 ++ o2, r2)
      else
        let k := mem_size ft in
        if room <? k then Err else
        let* (o2, r2) := write_fields vs' fs' (room - k) in
        Ok (zeros k ++ o2, r2)
  | _, _ => Ok ([], room)
  end.
Lemma write_struct fs vs room : write (TStruct fs) (VStruct vs) room = write_fields vs fs room.
Proof. reflexivity. Qed.

Definition write_elems (e : ty) : list val -> N -> res (bytes * N) :=
  fix go (vs : list val) (room : N) {struct vs} : res (bytes * N) :=
  match vs with
  | [] => Ok ([], room)
  | x :: vs' =>
      let* (o1, r1) := write e x room in
      let* (o2, r2) := go vs' r1 in
      Ok (o1 ++ o2, r2)
  end.
Lemma write_elems_nil e room : write_elems e [] room = Ok ([], room).
Proof. reflexivity. Qed.
Lemma write_elems_cons e x vs room : write_elems e (x :: vs) room =
  let* (o1, r1) := write e x room in
  let* (o2, r2) := write_elems e vs r1 in
  Ok (o1 ++ o2, r2).
Proof. reflexivity. Qed.
Lemma write_slice e vs room : write (TSlice e) (VSlice vs) room = write_elems e vs room.
Proof. reflexivity. Qed.

Lemma write_scalar t n room : write t (VU n) room =
  match scalar_size t with
  | Some k => if room <? N.of_nat k then Err else Ok (be k n, room - N.of_nat k)
  | None => Err
  end.
Proof. destruct t; reflexivity. Qed.
Lemma fitsv_scalar t n : fitsv t (VU n) = match scalar_size t with Some k => fits (8 * N.of_nat k) n | None => false end.
Proof. destruct t; reflexivity. Qed.

(* ------------------------------------------------------------------------------------------------ *)
(* 1. fixed types: read with any continuation                                                         *)
(* ------------------------------------------------------------------------------------------------ *)
Definition RF (fs : list field) (o : bytes) (vs : list val) : Prop := forall rest, read_fields fs (o ++ rest) = Ok (vs, rest).

Definition WR1 (t : ty) : Prop := forall v room o r,
  fixed t = true -> fitsv t v = true -> write t v room = Ok (o, r) -> R t o (norm t v).

Lemma WR1_scalar t k : scalar_size t = Some k -> WR1 t.
Proof.
  intros Hk v room o r _ Hfit Hw. destruct v as [n|vs|vs]; [|destruct t; discriminate..].
  rewrite fitsv_scalar, Hk in Hfit. rewrite write_scalar, Hk in Hw.
  destruct (room <? N.of_nat k); [discriminate|]. injection Hw as <- _.
  replace (norm t (VU n)) with (VU n) by (destruct t; reflexivity).
  apply R_scalar_fits; assumption.
Qed.

Lemma skipn_zeros_app k (o : bytes) : skipn (N.to_nat k) (zeros k ++ o) = o.
Proof.
  rewrite skipn_app. unfold zeros. rewrite repeat_length, Nat.sub_diag, skipn_all2 by (rewrite repeat_length; lia). reflexivity.
Qed.

Lemma WR1_fields fs :
  Forall (fun f => match f with Field _ ft _ _ => WR1 ft end) fs ->
  forall vs room o r, fixed_fields fs = true -> fitsv_fields vs fs = true -> write_fields vs fs room = Ok (o, r) ->
  RF fs o (norm_fields vs fs).
Proof.
  induction 1 as [|[n ft om ex] fs Hf _ IH]; intros vs room o r Hfx Hfit Hw rest; destruct vs as [|x vs];
    cbn [fixed_fields fitsv_fields write_fields norm_fields read_fields] in *; try discriminate.
  - injection Hw as <- _. reflexivity.
  - apply andb_true_iff in Hfx as [Hfx1 Hfx2]. apply andb_true_iff in Hfit as [Hfit1 Hfit2].
    destruct om; [|destruct ex].
    + rewrite (IH vs room o r Hfx2 Hfit2 Hw rest). reflexivity.
    + cbn [orb negb] in Hfx1.
      destruct (write ft x room) as [[o1 r1]| | |] eqn:W1; try discriminate. cbn [bind] in Hw.
      destruct (write_fields vs fs r1) as [[o2 r2]| | |] eqn:W2; try discriminate. cbn [bind] in Hw.
      injection Hw as <- <-. rewrite <- app_assoc.
      rewrite (Hf x room o1 r1 Hfx1 Hfit1 W1). cbn [bind].
      rewrite (IH vs r1 o2 r2 Hfx2 Hfit2 W2 rest). reflexivity.
    + cbv zeta in *. destruct (room <? mem_size ft); [discriminate|].
      destruct (write_fields vs fs (room - mem_size ft)) as [[o2 r2]| | |] eqn:W2; try discriminate. cbn [bind] in Hw.
      injection Hw as <- <-. rewrite <- app_assoc.
      destruct (N.ltb_spec (len (zeros (mem_size ft) ++ o2 ++ rest)) (mem_size ft)) as [Hlt|_];
        [rewrite len_app, len_zeros in Hlt; lia|].
      rewrite skipn_zeros_app.
      rewrite (IH vs _ o2 r2 Hfx2 Hfit2 W2 rest). reflexivity.
Qed.

Theorem write_read_fixed t : forall v room o r,
  fixed t = true -> fitsv t v = true -> write t v room = Ok (o, r) -> R t o (norm t v).
Proof.
  change (WR1 t).
  induction t as [ | | | | | |e IH|fs IH] using ty_indR.
  1-4: eapply WR1_scalar; reflexivity.
  1-3: intros v room o r Hfx; discriminate Hfx.
  intros v room o r Hfx Hfit Hw. destruct v as [n|vs|vs]; try discriminate.
  rewrite fixed_struct in Hfx. rewrite fitsv_struct in Hfit. rewrite write_struct in Hw. rewrite norm_struct.
  intros rest. rewrite read_struct. rewrite (WR1_fields fs IH vs room o r Hfx Hfit Hw rest). reflexivity.
Qed.

(* ------------------------------------------------------------------------------------------------ *)
(* the encoding of a fixed type has constant size                                                     *)
(* ------------------------------------------------------------------------------------------------ *)
Definition WL (t : ty) : Prop := forall v room o r,
  fixed t = true -> fitsv t v = true -> write t v room = Ok (o, r) -> len o = fsize t.

Lemma WL_scalar t k : scalar_size t = Some k -> WL t.
Proof.
  intros Hk v room o r _ Hfit Hw. destruct v as [n|vs|vs]; [|destruct t; discriminate..].
  rewrite write_scalar, Hk in Hw. destruct (room <? N.of_nat k); [discriminate|]. injection Hw as <- _.
  rewrite len_be. destruct t; try discriminate; injection Hk as <-; reflexivity.
Qed.

Lemma WL_fields fs :
  Forall (fun f => match f with Field _ ft _ _ => WL ft end) fs ->
  forall vs room o r, fixed_fields fs = true -> fitsv_fields vs fs = true -> write_fields vs fs room = Ok (o, r) ->
  len o = fsize_fields fs.
Proof.
  induction 1 as [|[n ft om ex] fs Hf _ IH]; intros vs room o r Hfx Hfit Hw; destruct vs as [|x vs];
    cbn [fixed_fields fitsv_fields write_fields fsize_fields] in *; try discriminate.
  - injection Hw as <- _. reflexivity.
  - apply andb_true_iff in Hfx as [Hfx1 Hfx2]. apply andb_true_iff in Hfit as [Hfit1 Hfit2].
    destruct om; [|destruct ex].
    + rewrite (IH vs room o r Hfx2 Hfit2 Hw). lia.
    + cbn [orb negb] in Hfx1.
      destruct (write ft x room) as [[o1 r1]| | |] eqn:W1; try discriminate. cbn [bind] in Hw.
      destruct (write_fields vs fs r1) as [[o2 r2]| | |] eqn:W2; try discriminate. cbn [bind] in Hw.
      injection Hw as <- <-. rewrite len_app.
      rewrite (Hf x room o1 r1 Hfx1 Hfit1 W1), (IH vs r1 o2 r2 Hfx2 Hfit2 W2). reflexivity.
    + cbv zeta in *. destruct (room <? mem_size ft); [discriminate|].
      destruct (write_fields vs fs (room - mem_size ft)) as [[o2 r2]| | |] eqn:W2; try discriminate. cbn [bind] in Hw.
      injection Hw as <- <-. rewrite len_app, len_zeros, (IH vs _ o2 r2 Hfx2 Hfit2 W2). reflexivity.
Qed.

Lemma write_len_fixed t : forall v room o r,
  fixed t = true -> fitsv t v = true -> write t v room = Ok (o, r) -> len o = fsize t.
Proof.
  change (WL t).
  induction t as [ | | | | | |e IH|fs IH] using ty_indR.
  1-4: eapply WL_scalar; reflexivity.
  1-3: intros v room o r Hfx; discriminate Hfx.
  intros v room o r Hfx Hfit Hw. destruct v as [n|vs|vs]; try discriminate.
  rewrite fixed_struct in Hfx. rewrite fitsv_struct in Hfit. rewrite write_struct in Hw. rewrite fsize_struct.
  exact (WL_fields fs IH vs room o r Hfx Hfit Hw).
Qed.

(* ------------------------------------------------------------------------------------------------ *)
(* 2. tail types: the read consumes the window exactly                                                *)
(* ------------------------------------------------------------------------------------------------ *)
Lemma elems_read e : fixed e = true -> 0 < fsize e ->
  forall vs room o r, forallb (fitsv e) vs = true -> write_elems e vs room = Ok (o, r) ->
  (List.length vs <= List.length o)%nat /\
  forall fuel, (List.length vs < fuel)%nat -> slice_loop e fuel o = Ok (VSlice (map (norm e) vs), []).
Proof.
  intros Hfx Hpos. induction vs as [|x vs IH]; intros room o r Hfit Hw.
  - rewrite write_elems_nil in Hw. injection Hw as <- _. split; [cbn [List.length]; lia|].
    intros fuel Hf. destruct fuel as [|f]; [cbn [List.length] in Hf; lia|]. reflexivity.
  - rewrite write_elems_cons in Hw. cbn [forallb] in Hfit. apply andb_true_iff in Hfit as [Hfit1 Hfit2].
    destruct (write e x room) as [[o1 r1]| | |] eqn:W1; try discriminate. cbn [bind] in Hw.
    destruct (write_elems e vs r1) as [[o2 r2]| | |] eqn:W2; try discriminate. cbn [bind] in Hw.
    injection Hw as <- <-.
    pose proof (write_len_fixed e x room o1 r1 Hfx Hfit1 W1) as HL.
    destruct (IH r1 o2 r2 Hfit2 W2) as [Hle Hloop].
    assert (Hne : o1 <> []) by (intros ->; rewrite len_nil in HL; lia).
    split.
    + rewrite app_length. cbn [List.length]. destruct o1; [congruence|]. cbn [List.length]. lia.
    + intros fuel Hf. destruct fuel as [|f]; [cbn [List.length] in Hf; lia|].
      rewrite slice_loop_app_ne by exact Hne.
      rewrite (write_read_fixed e x room o1 r1 Hfx Hfit1 W1 o2). cbn [bind].
      rewrite Hloop by (cbn [List.length] in Hf; lia). cbn [map]. reflexivity.
Qed.

Definition WR2 (t : ty) : Prop := forall v room o r,
  tail_ok t = true -> fitsv t v = true -> write t v room = Ok (o, r) -> read t o = Ok (norm t v, []).

Lemma WR2_fixed t : fixed t = true -> WR2 t.
Proof. intros Hfx v room o r _ Hfit Hw. apply (R_fin t o). exact (write_read_fixed t v room o r Hfx Hfit Hw). Qed.

Lemma WR2_fields fs :
  Forall (fun f => match f with Field _ ft _ _ => WR2 ft end) fs ->
  forall vs room o r, tail_fields fs = true -> fitsv_fields vs fs = true -> write_fields vs fs room = Ok (o, r) ->
  read_fields fs o = Ok (norm_fields vs fs, []).
Proof.
  induction 1 as [|[n ft om ex] fs Hf _ IH]; intros vs room o r Htl Hfit Hw; destruct vs as [|x vs];
    cbn [tail_fields fitsv_fields write_fields norm_fields read_fields] in *; try discriminate.
  - injection Hw as <- _. reflexivity.
  - apply andb_true_iff in Hfit as [Hfit1 Hfit2].
    destruct om; [|destruct ex]; cbn [orb negb] in Htl.
    + rewrite (IH vs room o r Htl Hfit2 Hw). reflexivity.
    + destruct (write ft x room) as [[o1 r1]| | |] eqn:W1; try discriminate. cbn [bind] in Hw.
      destruct (write_fields vs fs r1) as [[o2 r2]| | |] eqn:W2; try discriminate. cbn [bind] in Hw.
      injection Hw as <- <-.
      apply orb_true_iff in Htl as [Htl|Htl]; apply andb_true_iff in Htl as [Ht1 Ht2].
      * rewrite (write_read_fixed ft x room o1 r1 Ht1 Hfit1 W1 o2). cbn [bind].
        rewrite (IH vs r1 o2 r2 Ht2 Hfit2 W2). reflexivity.
      * destruct fs as [|f' fs]; [|discriminate]. destruct vs as [|y vs]; [|discriminate].
        cbn [write_fields] in W2. injection W2 as <- _. rewrite app_nil_r.
        rewrite (Hf x room o1 r1 Ht1 Hfit1 W1). reflexivity.
    + cbv zeta in *. destruct (room <? mem_size ft); [discriminate|].
      destruct (write_fields vs fs (room - mem_size ft)) as [[o2 r2]| | |] eqn:W2; try discriminate. cbn [bind] in Hw.
      injection Hw as <- <-.
      destruct (N.ltb_spec (len (zeros (mem_size ft) ++ o2)) (mem_size ft)) as [Hlt|_];
        [rewrite len_app, len_zeros in Hlt; lia|].
      rewrite skipn_zeros_app.
      rewrite (IH vs _ o2 r2 Htl Hfit2 W2). reflexivity.
Qed.

Theorem write_read_tail t : forall v room o r,
  tail_ok t = true -> fitsv t v = true -> write t v room = Ok (o, r) -> read t o = Ok (norm t v, []).
Proof.
  change (WR2 t).
  induction t as [ | | | | | |e IH|fs IH] using ty_indR.
  1-4: apply WR2_fixed; reflexivity.
  1-2: intros v room o r Htl; discriminate Htl.
  - intros v room o r Htl Hfit Hw. destruct v as [n|vs|vs]; try discriminate.
    rewrite tail_ok_slice in Htl. apply andb_true_iff in Htl as [Hfx Hpos]. apply N.ltb_lt in Hpos.
    rewrite fitsv_slice in Hfit. rewrite write_slice in Hw. rewrite norm_slice, read_slice.
    destruct (elems_read e Hfx Hpos vs room o r Hfit Hw) as [Hle Hloop]. apply Hloop. lia.
  - intros v room o r Htl Hfit Hw. rewrite tail_ok_struct in Htl. apply orb_true_iff in Htl as [Hfx|Htl].
    + apply (WR2_fixed (TStruct fs) Hfx v room o r); [rewrite tail_ok_struct, Hfx; reflexivity | exact Hfit | exact Hw].
    + destruct v as [n|vs|vs]; try discriminate.
      rewrite fitsv_struct in Hfit. rewrite write_struct in Hw. rewrite norm_struct, read_struct.
      rewrite (WR2_fields fs IH vs room o r Htl Hfit Hw). reflexivity.
Qed.

(* ------------------------------------------------------------------------------------------------ *)
(* 3. every generated layout is covered                                                               *)
(* ------------------------------------------------------------------------------------------------ *)
Definition xr_layouts : list ty :=
  [ly_XRHeader; ly_LossRLEReportBlock; ly_DuplicateRLEReportBlock; ly_PacketReceiptTimesReportBlock;
   ly_ReceiverReferenceTimeReportBlock; ly_DLRRReportBlock; ly_DLRRReport; ly_StatisticsSummaryReportBlock;
   ly_VoIPMetricsReportBlock; ly_UnknownReportBlock].

Lemma layouts_tail_ok :
  forallb tail_ok [ly_XRHeader; ly_LossRLEReportBlock; ly_DuplicateRLEReportBlock; ly_PacketReceiptTimesReportBlock;
                   ly_ReceiverReferenceTimeReportBlock; ly_DLRRReportBlock; ly_DLRRReport; ly_StatisticsSummaryReportBlock;
                   ly_VoIPMetricsReportBlock; ly_UnknownReportBlock] = true.
Proof. vm_compute. reflexivity. Qed.

Theorem layouts_roundtrip : forall t,
  In t [ly_XRHeader; ly_LossRLEReportBlock; ly_DuplicateRLEReportBlock; ly_PacketReceiptTimesReportBlock;
        ly_ReceiverReferenceTimeReportBlock; ly_DLRRReportBlock; ly_DLRRReport; ly_StatisticsSummaryReportBlock;
        ly_VoIPMetricsReportBlock; ly_UnknownReportBlock] ->
  forall v room o r, fitsv t v = true -> write t v room = Ok (o, r) -> read t o = Ok (norm t v, []).
Proof.
  intros t Hin v room o r Hfit Hw. pose proof layouts_tail_ok as A. rewrite forallb_forall in A.
  exact (write_read_tail t v room o r (A t Hin) Hfit Hw).
Qed.

(* which of them are fixed (continuation form applies) *)
Lemma layouts_fixed :
  map fixed [ly_XRHeader; ly_LossRLEReportBlock; ly_DuplicateRLEReportBlock; ly_PacketReceiptTimesReportBlock;
             ly_ReceiverReferenceTimeReportBlock; ly_DLRRReportBlock; ly_DLRRReport; ly_StatisticsSummaryReportBlock;
             ly_VoIPMetricsReportBlock; ly_UnknownReportBlock]
  = [true; false; false; false; true; false; true; true; true; false].
Proof. vm_compute. reflexivity. Qed.

(* ------------------------------------------------------------------------------------------------ *)
(* 4. non-vacuity                                                                                     *)
(* ------------------------------------------------------------------------------------------------ *)
Definition ex_rle : val := VStruct [VStruct [VU 1; VU 0; VU 4]; VU 0; VU 7; VU 1; VU 2; VSlice [VU 5; VU 600]].
Example ex_rle_roundtrip :
  fitsv ly_LossRLEReportBlock ex_rle = true /\ norm ly_LossRLEReportBlock ex_rle = ex_rle /\
  exists o, write ly_LossRLEReportBlock ex_rle 100 = Ok (o, 84) /\ len o = 16 /\ read ly_LossRLEReportBlock o = Ok (ex_rle, []).
Proof. split; [vm_compute; reflexivity|]. split; [vm_compute; reflexivity|]. eexists. split; [vm_compute; reflexivity|]. split; vm_compute; reflexivity. Qed.

(* omitted members do not survive: T = 1 is written nowhere and reads back as 0 (norm is needed in the statement) *)
Definition ex_rle_T : val := VStruct [VStruct [VU 1; VU 0; VU 4]; VU 1; VU 7; VU 1; VU 2; VSlice [VU 5; VU 600]].
Lemma roundtrip_without_norm_refuted :
  exists t v room o r, tail_ok t = true /\ fitsv t v = true /\ write t v room = Ok (o, r) /\ read t o <> Ok (v, []).
Proof.
  exists ly_LossRLEReportBlock, ex_rle_T, 100. eexists. eexists.
  split; [vm_compute; reflexivity|]. split; [vm_compute; reflexivity|]. split; [vm_compute; reflexivity|]. vm_compute. discriminate.
Qed.

(* ------------------------------------------------------------------------------------------------ *)
(* 5. the side conditions are needed                                                                  *)
(* ------------------------------------------------------------------------------------------------ *)
(* a slice that is not the last member swallows the members after it *)
Definition ty_slice_first : ty := TStruct [Field "a" (TSlice TU8) false true; Field "b" TU8 false true].
Lemma slice_not_last_refuted :
  exists t v room o r, tail_ok t = false /\ fitsv t v = true /\ write t v room = Ok (o, r) /\ read t o <> Ok (norm t v, []).
Proof.
  exists ty_slice_first, (VStruct [VSlice [VU 1]; VU 2]), 10. eexists. eexists.
  split; [vm_compute; reflexivity|]. split; [vm_compute; reflexivity|]. split; [vm_compute; reflexivity|]. vm_compute. discriminate.
Qed.

(* elements with an empty encoding are dropped by the read loop *)
Lemma empty_elem_refuted :
  exists t v room o r, tail_ok t = false /\ fitsv t v = true /\ write t v room = Ok (o, r) /\ read t o <> Ok (norm t v, []).
Proof.
  exists (TSlice (TStruct [])), (VSlice [VStruct []]), 10. eexists. eexists.
  split; [vm_compute; reflexivity|]. split; [vm_compute; reflexivity|]. split; [vm_compute; reflexivity|]. vm_compute. discriminate.
Qed.

(* a tail type does not read back under a continuation: R (theorem 1) is for fixed types only *)
Lemma tail_with_continuation_refuted :
  exists t v room o r, tail_ok t = true /\ fitsv t v = true /\ write t v room = Ok (o, r) /\ ~ R t o (norm t v).
Proof.
  exists (TSlice TU8), (VSlice [VU 1]), 10. eexists. eexists.
  split; [vm_compute; reflexivity|]. split; [vm_compute; reflexivity|]. split; [vm_compute; reflexivity|].
  intros H. specialize (H [x02]). vm_compute in H. discriminate H.
Qed.

Print Assumptions write_read_fixed.
Print Assumptions write_len_fixed.
Print Assumptions write_read_tail.
Print Assumptions layouts_tail_ok.
Print Assumptions layouts_roundtrip.
Print Assumptions ex_rle_roundtrip.
Print Assumptions roundtrip_without_norm_refuted.
Print Assumptions slice_not_last_refuted.
Print Assumptions empty_elem_refuted.
Print Assumptions tail_with_continuation_refuted.
