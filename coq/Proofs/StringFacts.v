(* C17, the part re-derived from the source on every run (Gen/StringShapes.v, produced by srcgen/strings.go):
   no String() method, nor stringify / formatField, contains a construct that can panic on non-nil well-typed values
   (index or slice expression, explicit dereference, unchecked type assertion, integer division by a variable), the one
   indexed table (REMB units) excepted, whose loop guard is extracted and matches the model's. *)
From Coq Require Import List String Bool Arith.
From RTCP Require Import Gen.StringShapes Model.Remb.
Import ListNotations.

Definition shape_ok (e : string * bool * string) : bool := let '(_, ok, _) := e in ok.

Lemma string_shapes_ok : forallb shape_ok string_shapes = true.
Proof. vm_compute. reflexivity. Qed.

(* every formatter the property is about was analysed *)
Definition analysed_string (n : string) : bool := existsb (fun '(m, _, _) => String.eqb m n) string_shapes.
Lemma string_methods_analysed :
  forallb analysed_string
    ["SenderReport.String"; "ReceiverReport.String"; "SourceDescription.String"; "Goodbye.String"; "TransportLayerNack.String";
     "RapidResynchronizationRequest.String"; "TransportLayerCC.String"; "CCFeedbackReport.String"; "PictureLossIndication.String";
     "SliceLossIndication.String"; "ReceiverEstimatedMaximumBitrate.String"; "FullIntraRequest.String"; "ExtendedReport.String";
     "RawPacket.String"; "CompoundPacket.String"; "PacketType.String"; "SDESType.String"; "BlockTypeType.String";
     "TTLorHopLimitType.String"; "Chunk.String"; "stringify"; "formatField"]%string = true.
Proof. vm_compute. reflexivity. Qed.

(* the REMB unit table has 7 entries and the loop guard is `powers < len(table) - 1`, i.e. the model's `powers < 6` *)
Lemma remb_guard_matches_model : remb_units = 7 /\ remb_units - remb_guard_slack = 6.
Proof. split; reflexivity. Qed.
