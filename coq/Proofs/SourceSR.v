(* SourceSR: the translated SenderReport codec (Gen/Funcs.v, module GoSrc: SenderReport_MarshalSize / _Header / _Marshal /
   _Unmarshal / _DestinationSSRC and ReceptionReport_len) computes what the model computes (Model/Reports.v: SR_size,
   SR_header, SR_marshal, SR_unmarshal; Model/Packet.v: dest_packet (PSR x)).

   No [fits] hypothesis is needed anywhere: both sides truncate an over-wide field in the same way.
   The loops are related step by step: the translated Marshal loop does [gview; gcopy] where the model's [put_reports]
   does [copy_at], and these are the same function (lemma [gview_gcopy_copy_at]); the translated Unmarshal loop does
   [gslice; ReceptionReport_Unmarshal] where [sr_reports_loop] does [slice; RRep_unmarshal]. *)
From RTCP Require Import Proofs.Tactics Lib.GoSem Gen.Funcs Proofs.GoSemFacts
  Model.Header Model.Reports Model.Packet Proofs.SourceEquiv Proofs.SrcConv.
Local Open Scope Z_scope.

(* ================================================================================================ *)
(* More transfer lemmas GoSem <-> Base: gcopy, gview, lists                                          *)
(* ================================================================================================ *)
Section MoreGoSemFacts.

(* copy(dst[off:], src) *)
Lemma gcopy_N dst off src : gcopy dst (Z.of_N off) src = copy_at dst off src.
Proof.
  unfold gcopy, copy_at, glen, len.
  destruct (Z.ltb_spec (Z.of_N off) 0) as [H0|H0]; [lia|].
  destruct (Z.ltb_spec (Z.of_nat (length dst)) (Z.of_N off)) as [H1|H1],
    (N.ltb_spec (N.of_nat (length dst)) off) as [H2|H2]; try lia; cbn [orb]; [reflexivity|].
  replace (Z.to_nat (Z.of_N off)) with (N.to_nat off) by lia.
  replace (Z.to_nat (Z.min (Z.of_nat (length dst) - Z.of_N off) (Z.of_nat (length src))))
    with (Nat.min (length src) (length dst - N.to_nat off)) by lia.
  replace (Z.to_nat (Z.of_N off + Z.min (Z.of_nat (length dst) - Z.of_N off) (Z.of_nat (length src))))
    with (N.to_nat off + Nat.min (length src) (length dst - N.to_nat off))%nat by lia.
  reflexivity.
Qed.
Lemma gcopy_Z dst off src : 0 <= off -> gcopy dst off src = copy_at dst (Z.to_N off) src.
Proof. intros H. rewrite <- (Z2N.id off H) at 1. apply gcopy_N. Qed.
Lemma gcopy_0 dst src : gcopy dst 0 src = copy_at dst 0 src.
Proof. exact (gcopy_N dst 0 src). Qed.
Lemma gcopy_panic dst off src : off < 0 \/ glen dst < off -> gcopy dst off src = Panic.
Proof.
  intros H. unfold gcopy. destruct (Z.ltb_spec off 0); [reflexivity|].
  destruct (Z.ltb_spec (glen dst) off); [reflexivity|lia].
Qed.
Lemma gcopy_length dst off src b' : gcopy dst off src = Ok b' -> glen b' = glen dst.
Proof.
  unfold gcopy. destruct (Z.ltb_spec off 0); [discriminate|].
  destruct (Z.ltb_spec (glen dst) off); [discriminate|]. cbn [orb]. cbv zeta. intros E. inversion E.
  pose proof (glen_nonneg src). pose proof (glen_nonneg dst).
  rewrite !glen_app, !glen_firstn, glen_skipn. lia.
Qed.
Lemma copy_at_length dst off src b' : copy_at dst off src = Ok b' -> len b' = len dst.
Proof.
  unfold copy_at. destruct (N.ltb_spec (len dst) off); [discriminate|]. intros E. inversion E.
  rewrite !len_app, !len_firstn, len_skipn. unfold len in *. lia.
Qed.

(* copy(dst[off:off+lim], src) with the limit not binding is copy(dst[off:], src) *)
Lemma gcopy_lim_gcopy dst off lim src : 0 <= off -> glen src <= lim -> off + lim <= glen dst ->
  gcopy_lim dst off lim src = gcopy dst off src.
Proof.
  intros H0 H1 H2. unfold gcopy_lim, gcopy. pose proof (glen_nonneg src).
  destruct (Z.ltb_spec off 0); [lia|]. destruct (Z.ltb_spec lim 0); [lia|].
  destruct (Z.ltb_spec (glen dst) (off + lim)); [lia|]. destruct (Z.ltb_spec (glen dst) off); [lia|].
  cbn [orb]. rewrite !Z.min_r by lia. reflexivity.
Qed.

(* the re-slice x[lo:] of the view x = b[off:] (a pure bounds check) *)
Lemma gview_ok b off lo : 0 <= lo <= glen b - off -> gview b off lo = Ok tt.
Proof.
  intros H. unfold gview. destruct (Z.ltb_spec lo 0); [lia|]. destruct (Z.ltb_spec (glen b - off) lo); [lia|]. reflexivity.
Qed.
Lemma gview_panic b off lo : lo < 0 \/ glen b - off < lo -> gview b off lo = Panic.
Proof.
  intros H. unfold gview. destruct (Z.ltb_spec lo 0); [reflexivity|].
  destruct (Z.ltb_spec (glen b - off) lo); [reflexivity|lia].
Qed.
Lemma gview2_ok b off lo hi : 0 <= lo <= hi -> hi <= glen b - off -> gview2 b off lo hi = Ok tt.
Proof.
  intros H1 H2. unfold gview2. destruct (Z.ltb_spec lo 0); [lia|]. destruct (Z.ltb_spec hi lo); [lia|].
  destruct (Z.ltb_spec (glen b - off) hi); [lia|]. reflexivity.
Qed.
(* copy(y[lo:], src) where y := b[off:] is a view: the bounds check of the re-slice is the bounds check of copy_at *)
Lemma gview_gcopy_copy_at {A} b (off lo : N) src (k : bytes -> res A) :
  bind (gview b (Z.of_N off) (Z.of_N lo)) (fun _ => bind (gcopy b (Z.of_N off + Z.of_N lo) src) k)
  = bind (copy_at b (off + lo) src) k.
Proof.
  rewrite <- N2Z.inj_add, gcopy_N.
  destruct (N.ltb_spec (len b) (off + lo)) as [H|H].
  - rewrite gview_panic by (rewrite glen_len; lia). unfold copy_at.
    destruct (N.ltb_spec (len b) (off + lo)); [reflexivity|lia].
  - rewrite gview_ok by (rewrite glen_len; lia). reflexivity.
Qed.
Lemma gview_gcopy_copy_at_l {A} b p (lo : N) src (k : bytes -> res A) :
  bind (gview b (Z.pos p) (Z.of_N lo)) (fun _ => bind (gcopy b (Z.pos p + Z.of_N lo) src) k)
  = bind (copy_at b (N.pos p + lo) src) k.
Proof. exact (gview_gcopy_copy_at b (N.pos p) lo src k). Qed.

(* lists *)
Lemma glenl_nlen {A} (l : list A) : glenl l = Z.of_N (nlen l).
Proof. unfold glenl, nlen. rewrite nat_N_Z. reflexivity. Qed.
Lemma glenl_nonneg {A} (l : list A) : 0 <= glenl l.
Proof. unfold glenl. lia. Qed.
Lemma glenl_nil {A} : glenl (@nil A) = 0.  Proof. reflexivity. Qed.
Lemma glenl_cons {A} (x : A) l : glenl (x :: l) = 1 + glenl l.
Proof. unfold glenl. cbn [length]. lia. Qed.
Lemma glenl_app {A} (a b : list A) : glenl (a ++ b) = glenl a + glenl b.
Proof. unfold glenl. rewrite app_length. lia. Qed.
Lemma glenl_map {A B} (f : A -> B) l : glenl (map f l) = glenl l.
Proof. unfold glenl. rewrite map_length. reflexivity. Qed.
Lemma glenl_repeat {A} (x : A) n : glenl (repeat x n) = Z.of_nat n.
Proof. unfold glenl. rewrite repeat_length. reflexivity. Qed.
Lemma nlen_map {A B} (f : A -> B) l : nlen (map f l) = nlen l.
Proof. unfold nlen. rewrite map_length. reflexivity. Qed.

Lemma gmakel_ok {A} (z : A) n : 0 <= n -> gmakel z n = Ok (repeat z (Z.to_nat n)).
Proof. intros H. unfold gmakel. destruct (Z.ltb_spec n 0); [lia|reflexivity]. Qed.
Lemma gmakel_nat {A} (z : A) n : gmakel z (Z.of_nat n) = Ok (repeat z n).
Proof. rewrite gmakel_ok by lia. rewrite Nat2Z.id. reflexivity. Qed.

Lemma gnth_ok {A} (d : A) l i : 0 <= i < glenl l -> gnth l i = Ok (nth (Z.to_nat i) l d).
Proof.
  intros H. unfold gnth. destruct (Z.ltb_spec i 0); [lia|]. destruct (Z.leb_spec (glenl l) i); [lia|]. cbn [orb].
  rewrite (nth_error_nth' l d) by (unfold glenl in H; lia). reflexivity.
Qed.
Lemma gnth_panic {A} (l : list A) i : i < 0 \/ glenl l <= i -> gnth l i = Panic.
Proof.
  intros H. unfold gnth. destruct (Z.ltb_spec i 0); [reflexivity|]. destruct (Z.leb_spec (glenl l) i); [reflexivity|lia].
Qed.
Lemma gnth_app_mid {A} (pre : list A) x post : gnth (pre ++ x :: post) (glenl pre) = Ok x.
Proof.
  unfold gnth. pose proof (glenl_nonneg pre). destruct (Z.ltb_spec (glenl pre) 0); [lia|].
  rewrite glenl_app, glenl_cons. pose proof (glenl_nonneg post).
  destruct (Z.leb_spec (glenl pre + (1 + glenl post)) (glenl pre)); [lia|]. cbn [orb].
  unfold glenl. rewrite Nat2Z.id, nth_error_app2, Nat.sub_diag by lia. reflexivity.
Qed.

Lemma updl_nat_app_mid {A} (v : A) : forall pre x post, updl_nat (pre ++ x :: post) (length pre) v = pre ++ v :: post.
Proof. induction pre as [|p pre IH]; intros x post; cbn [app length updl_nat]; [reflexivity|]. rewrite IH. reflexivity. Qed.
Lemma updl_nat_length {A} (v : A) : forall l i, length (updl_nat l i v) = length l.
Proof. induction l as [|x r IH]; intros [|i]; cbn [updl_nat length]; auto. Qed.
(* l[len pre] = v *)
Lemma gupdl_app_mid {A} (pre : list A) x post v : gupdl (pre ++ x :: post) (glenl pre) v = Ok (pre ++ v :: post).
Proof.
  unfold gupdl. pose proof (glenl_nonneg pre). destruct (Z.ltb_spec (glenl pre) 0); [lia|].
  rewrite glenl_app, glenl_cons. pose proof (glenl_nonneg post).
  destruct (Z.leb_spec (glenl pre + (1 + glenl post)) (glenl pre)); [lia|]. cbn [orb].
  unfold glenl. rewrite Nat2Z.id, updl_nat_app_mid. reflexivity.
Qed.
Lemma gupdl_panic {A} (l : list A) i v : i < 0 \/ glenl l <= i -> gupdl l i v = Panic.
Proof.
  intros H. unfold gupdl. destruct (Z.ltb_spec i 0); [reflexivity|]. destruct (Z.leb_spec (glenl l) i); [reflexivity|lia].
Qed.
Lemma gupdl_length {A} (l : list A) i v l' : gupdl l i v = Ok l' -> glenl l' = glenl l.
Proof.
  unfold gupdl. destruct (_ || _); [discriminate|]. intros E. inversion E. unfold glenl. rewrite updl_nat_length. reflexivity.
Qed.
(* copy(dst, src) on lists *)
Lemma gcopyl_all {A} (dst src : list A) : length dst = length src -> gcopyl dst src = src.
Proof.
  intros H. unfold gcopyl. rewrite H, firstn_all, skipn_all2 by lia. apply app_nil_r.
Qed.
Lemma gcopyl_length {A} (dst src : list A) : length (gcopyl dst src) = length dst.
Proof. unfold gcopyl. rewrite app_length, firstn_length, skipn_length. lia. Qed.

End MoreGoSemFacts.

(* ================================================================================================ *)
(* sender_report.go                                                                                  *)
(* ================================================================================================ *)
Ltac sr_fields :=
  cbv [GoSrc.set_SenderReport_SSRC GoSrc.set_SenderReport_NTPTime GoSrc.set_SenderReport_RTPTime
       GoSrc.set_SenderReport_PacketCount GoSrc.set_SenderReport_OctetCount GoSrc.set_SenderReport_Reports
       GoSrc.set_SenderReport_ProfileExtensions
       GoSrc.SenderReport_SSRC GoSrc.SenderReport_NTPTime GoSrc.SenderReport_RTPTime GoSrc.SenderReport_PacketCount
       GoSrc.SenderReport_OctetCount GoSrc.SenderReport_Reports GoSrc.SenderReport_ProfileExtensions].

Lemma src_ReceptionReport_len : forall r, GoSrc.ReceptionReport_len (src_rrep r) = Z.of_N c_receptionReportLength.
Proof. reflexivity. Qed.
Lemma src_ReceptionReport_len_any : forall r, GoSrc.ReceptionReport_len r = Z.of_N c_receptionReportLength.
Proof. reflexivity. Qed.

(* ---------------- MarshalSize ---------------- *)
(* the range loop adds ReceptionReport_len = 24 per report, whatever the reports are *)
Lemma SenderReport_MarshalSize_loop1_eq r : forall rest idx acc,
  GoSrc.SenderReport_MarshalSize_loop1 rest idx r acc = GoSrc.SenderReport_MarshalSize_after1 r (acc + 24 * glenl rest).
Proof.
  induction rest as [|x rest IH]; intros idx acc; cbn [GoSrc.SenderReport_MarshalSize_loop1].
  - f_equal. unfold glenl. cbn [length]. lia.
  - rewrite IH, glenl_cons. unfold GoSrc.ReceptionReport_len. f_equal. lia.
Qed.

Lemma src_SenderReport_MarshalSize : forall s, GoSrc.SenderReport_MarshalSize (src_sr s) = Z.of_N (SR_size s).
Proof.
  intros s. unfold GoSrc.SenderReport_MarshalSize. rewrite SenderReport_MarshalSize_loop1_eq.
  unfold GoSrc.SenderReport_MarshalSize_after1, src_sr. sr_fields.
  rewrite glenl_map, glenl_nlen, glen_len, src_getPadding. unfold SR_size. consts. lia.
Qed.

Lemma SR_size_ge s : (28 <= SR_size s)%N.
Proof. unfold SR_size. consts. lia. Qed.

(* ---------------- Header ---------------- *)
Lemma src_SenderReport_Header : forall s, GoSrc.SenderReport_Header (src_sr s) = src_header (SR_header s).
Proof.
  intros s. unfold GoSrc.SenderReport_Header. rewrite src_SenderReport_MarshalSize.
  unfold src_header, SR_header. cbn [h_pad h_count h_type h_len].
  pose proof (SR_size_ge s) as Hs.
  unfold src_sr at 1. sr_fields. rewrite glenl_map, glenl_nlen, uwrap8_N.
  change 4 with (Z.of_N 4). rewrite Zquot_N.
  replace (Z.of_N (SR_size s / 4) - 1) with (Z.of_N (SR_size s / 4 - 1)) by lia.
  rewrite uwrap16_N. reflexivity.
Qed.

(* ---------------- DestinationSSRC ---------------- *)
(* invariant of the range loop: [pre] already written, the rest of the made list still zero *)
Lemma SenderReport_DestinationSSRC_loop1_eq r : forall rest pre,
  (length pre + length rest = length (GoSrc.SenderReport_Reports r))%nat ->
  GoSrc.SenderReport_DestinationSSRC_loop1 rest (glenl pre) (pre ++ repeat 0 (S (length rest))) r
  = Ok (pre ++ map GoSrc.ReceptionReport_SSRC rest ++ [GoSrc.SenderReport_SSRC r]).
Proof.
  induction rest as [|x rest IH]; intros pre Hl; cbn [GoSrc.SenderReport_DestinationSSRC_loop1 length repeat map app].
  - unfold GoSrc.SenderReport_DestinationSSRC_after1.
    replace (glenl (GoSrc.SenderReport_Reports r)) with (glenl pre) by (unfold glenl; cbn [length] in Hl; lia).
    rewrite gupdl_app_mid. reflexivity.
  - rewrite gupdl_app_mid. cbn [bind].
    replace (glenl pre + 1) with (glenl (pre ++ [GoSrc.ReceptionReport_SSRC x])) by (rewrite glenl_app; unfold glenl; cbn [length]; lia).
    change (pre ++ GoSrc.ReceptionReport_SSRC x :: 0 :: repeat 0 (length rest))
      with (pre ++ [GoSrc.ReceptionReport_SSRC x] ++ repeat 0 (S (length rest))).
    rewrite app_assoc, IH.
    + rewrite <- app_assoc. reflexivity.
    + rewrite app_length. cbn [length] in *. lia.
Qed.

Lemma src_SenderReport_DestinationSSRC : forall s,
  GoSrc.SenderReport_DestinationSSRC (src_sr s) = Ok (zN (dest_packet (PSR s))).
Proof.
  intros s. unfold GoSrc.SenderReport_DestinationSSRC.
  replace (glenl (GoSrc.SenderReport_Reports (src_sr s)) + 1)
    with (Z.of_nat (S (length (GoSrc.SenderReport_Reports (src_sr s))))) by (unfold glenl; lia).
  rewrite gmakel_nat. cbn [bind].
  pose proof (SenderReport_DestinationSSRC_loop1_eq (src_sr s) (GoSrc.SenderReport_Reports (src_sr s)) [] eq_refl) as K.
  cbn [app] in K. change (glenl (@nil Z)) with 0 in K. rewrite K. clear K.
  cbn [dest_packet]. unfold SR_dest, zN, src_sr. sr_fields.
  rewrite map_app, !map_map. reflexivity.
Qed.

(* ---------------- Marshal ---------------- *)
(* what follows the report loop: the count guard, the extensions, the header *)
Lemma SenderReport_Marshal_after1_eq s (o : N) raw :
  GoSrc.SenderReport_Marshal_after1 (Z.of_N o) (src_sr s) raw =
  (if (c_countMax <? nlen (sr_reports s))%N then Err else
   let* raw := copy_at raw (4 + o) (sr_ext s) in
   let* h := Header_marshal (SR_header s) in
   copy_at raw 0 h).
Proof.
  unfold GoSrc.SenderReport_Marshal_after1.
  rewrite src_SenderReport_Header, src_Header_Marshal.
  unfold src_sr. sr_fields. rewrite glenl_map, glenl_nlen, Zltb_N_l. consts.
  destruct (31 <? nlen (sr_reports s))%N; [reflexivity|].
  rewrite gview_gcopy_copy_at_l.
  destruct (copy_at raw (4 + o) (sr_ext s)) as [raw6| | |]; cbn [bind]; try reflexivity.
  destruct (Header_marshal (SR_header s)) as [h| | |]; cbn [bind]; try reflexivity.
  rewrite gcopy_0. apply bind_Ok_r.
Qed.

(* the report loop is put_reports, step by step ([o] is the offset in packetBody = rawPacket[4:]) *)
Lemma SenderReport_Marshal_loop1_eq s' : forall rs idx (o : N) raw,
  GoSrc.SenderReport_Marshal_loop1 (map src_rrep rs) idx (Z.of_N o) s' raw =
  bind (put_reports raw (4 + o) rs) (fun p => GoSrc.SenderReport_Marshal_after1 (Z.of_N (snd p - 4)) s' (fst p)).
Proof.
  induction rs as [|r0 rs IH]; intros idx o raw; cbn [map GoSrc.SenderReport_Marshal_loop1 put_reports bind fst snd].
  - replace (4 + o - 4)%N with o by lia. reflexivity.
  - rewrite src_ReceptionReport_Marshal.
    destruct (RRep_marshal r0) as [d| | |]; cbn [bind]; try reflexivity.
    rewrite gview_gcopy_copy_at_l.
    destruct (copy_at raw (4 + o) d) as [raw8| | |]; cbn [bind]; try reflexivity.
    rewrite Zadd_N_r, IH. consts. replace (4 + (o + 24))%N with (4 + o + 24)%N by lia. reflexivity.
Qed.

Lemma put_reports_off : forall rs raw off raw' off',
  put_reports raw off rs = Ok (raw', off') -> off' = (off + c_receptionReportLength * nlen rs)%N.
Proof.
  induction rs as [|r0 rs IH]; intros raw off raw' off' E; cbn [put_reports] in E.
  - inversion E. unfold nlen. cbn [length]. lia.
  - destruct (RRep_marshal r0) as [d| | |]; cbn [bind] in E; try discriminate.
    destruct (copy_at raw off d) as [raw1| | |]; cbn [bind] in E; try discriminate.
    apply IH in E. rewrite E. unfold nlen. cbn [length]. lia.
Qed.

Lemma src_SenderReport_Marshal : forall s, GoSrc.SenderReport_Marshal (src_sr s) = SR_marshal s.
Proof.
  intros s. unfold GoSrc.SenderReport_Marshal, SR_marshal.
  rewrite src_SenderReport_MarshalSize, gmake_N. cbn [bind].
  pose proof (SR_size_ge s) as Hs.
  rewrite gslice_from_ok by (rewrite glen_zeros; lia). cbn [bind].
  change (GoSrc.SenderReport_Reports (src_sr s)) with (map src_rrep (sr_reports s)).
  change (GoSrc.SenderReport_SSRC (src_sr s)) with (Z.of_N (sr_ssrc s)).
  change (GoSrc.SenderReport_NTPTime (src_sr s)) with (Z.of_N (sr_ntp s)).
  change (GoSrc.SenderReport_RTPTime (src_sr s)) with (Z.of_N (sr_rtp s)).
  change (GoSrc.SenderReport_PacketCount (src_sr s)) with (Z.of_N (sr_pcount s)).
  change (GoSrc.SenderReport_OctetCount (src_sr s)) with (Z.of_N (sr_ocount s)).
  change (c_headerLength + c_srSSRCOffset)%N with 4%N.
  change (c_headerLength + c_srNTPOffset)%N with 8%N.
  change (c_headerLength + c_srRTPOffset)%N with 16%N.
  change (c_headerLength + c_srPacketCountOffset)%N with 20%N.
  change (c_headerLength + c_srOctetCountOffset)%N with 24%N.
  change (c_headerLength + c_srHeaderLength)%N with (4 + 24)%N.
  change (4 + 4) with 8. change (4 + 12) with 16. change (4 + 16) with 20. change (4 + 20) with 24.
  rewrite (gbe_put_N 4 _ 4).
  destruct (put_be_at 4 (zeros (SR_size s)) 4 (sr_ssrc s)) as [b1| | |]; cbn [bind]; try reflexivity.
  rewrite (gbe_put_N 8 _ 8).
  destruct (put_be_at 8 b1 8 (sr_ntp s)) as [b2| | |]; cbn [bind]; try reflexivity.
  rewrite (gbe_put_N 4 _ 16).
  destruct (put_be_at 4 b2 16 (sr_rtp s)) as [b3| | |]; cbn [bind]; try reflexivity.
  rewrite (gbe_put_N 4 _ 20).
  destruct (put_be_at 4 b3 20 (sr_pcount s)) as [b4| | |]; cbn [bind]; try reflexivity.
  rewrite (gbe_put_N 4 _ 24).
  destruct (put_be_at 4 b4 24 (sr_ocount s)) as [b5| | |]; cbn [bind]; try reflexivity.
  pose proof (SenderReport_Marshal_loop1_eq (src_sr s) (sr_reports s) 0 24%N b5) as K.
  change (Z.of_N 24) with 24 in K. rewrite K. clear K.
  destruct (put_reports b5 (4 + 24) (sr_reports s)) as [[raw off]| | |] eqn:E; cbn [bind fst snd]; try reflexivity.
  apply put_reports_off in E.
  rewrite SenderReport_Marshal_after1_eq.
  replace (4 + (off - 4))%N with off by lia. reflexivity.
Qed.

(* ---------------- Unmarshal ---------------- *)
Lemma set_SenderReport_Reports_same acc :
  GoSrc.set_SenderReport_Reports (GoSrc.SenderReport_Reports acc) acc = acc.
Proof. destruct acc; reflexivity. Qed.

(* binary.BigEndian.UintK(b[off:]) followed by a continuation *)
Lemma gbe_get_at_k {A} k b (off : N) (K : Z -> res A) :
  bind (gslice_from b (Z.of_N off)) (fun t => bind (gbe_get k t) K) = bind (get_be_at k b off) (fun x => K (Z.of_N x)).
Proof.
  pose proof (gbe_get_at k b off) as E.
  destruct (gslice_from b (Z.of_N off)) as [t| | |]; cbn [bind] in *.
  - rewrite E. apply bind_res_map.
  - destruct (get_be_at k b off); cbn [res_map] in E; try discriminate; reflexivity.
  - destruct (get_be_at k b off); cbn [res_map] in E; try discriminate; reflexivity.
  - destruct (get_be_at k b off); cbn [res_map] in E; try discriminate; reflexivity.
Qed.

(* the counted loop is sr_reports_loop, step by step: [k] iterations remain, the fuel exceeds k (so Fuel never arises),
   the decoded reports are appended to those of the receiver *)
Lemma SenderReport_Unmarshal_loop1_eq h body raw : forall k fuel i (o : N) acc,
  (k < fuel)%nat -> i + Z.of_nat k = GoSrc.Header_Count h ->
  GoSrc.SenderReport_Unmarshal_loop1 fuel h i (Z.of_N o) body acc raw =
  bind (sr_reports_loop k body o) (fun p =>
    GoSrc.SenderReport_Unmarshal_after1 h 0 (Z.of_N (snd p)) body
      (GoSrc.set_SenderReport_Reports (GoSrc.SenderReport_Reports acc ++ map src_rrep (fst p)) acc) raw).
Proof.
  induction k as [|k IH]; intros fuel i o acc Hf Hi; (destruct fuel as [|f]; [lia|]);
    cbn [GoSrc.SenderReport_Unmarshal_loop1 sr_reports_loop].
  - destruct (Z.ltb_spec i (GoSrc.Header_Count h)); [lia|].
    cbn [bind fst snd map]. rewrite app_nil_r, set_SenderReport_Reports_same. reflexivity.
  - destruct (Z.ltb_spec i (GoSrc.Header_Count h)); [|lia].
    rewrite glen_len, Zadd_N_r, Zltb_N. consts.
    destruct (N.ltb_spec (len body) (o + 24)); [reflexivity|].
    rewrite gslice_N.
    destruct (slice body o (o + 24)) as [rrBody| | |]; cbn [bind]; try reflexivity.
    rewrite src_ReceptionReport_Unmarshal.
    destruct (RRep_unmarshal rrBody) as [rr| | |]; cbn [bind res_map]; try reflexivity.
    rewrite IH by lia.
    destruct (sr_reports_loop k body (o + 24)) as [[rs o']| | |]; cbn [bind fst snd map]; try reflexivity.
    destruct acc as [a1 a2 a3 a4 a5 a6 a7]. sr_fields. rewrite <- app_assoc. reflexivity.
Qed.

(* Decoding onto an arbitrary receiver: the scalar fields are all assigned, the decoded reports are APPENDED to the
   receiver's Reports [pre] (and the count check looks at the whole list), ProfileExtensions [ext0] is kept when the
   packet carries none.  This is SR_unmarshal with these three changes; with pre = [] and ext0 = [] it is SR_unmarshal. *)
Definition SR_unmarshal_onto (pre : list GoSrc.ReceptionReport) (ext0 : bytes) (raw : bytes) : res GoSrc.SenderReport :=
  if (len raw <? c_headerLength + c_srHeaderLength)%N then Err else
  let* h := Header_unmarshal raw in
  if negb (h_type h =? c_TypeSenderReport)%N then Err else
  let* body := slice_from raw c_headerLength in
  let* ssrc := get_be_at 4 body c_srSSRCOffset in
  let* ntp := get_be_at 8 body c_srNTPOffset in
  let* rtp := get_be_at 4 body c_srRTPOffset in
  let* pc := get_be_at 4 body c_srPacketCountOffset in
  let* oc := get_be_at 4 body c_srOctetCountOffset in
  let* p := sr_reports_loop (N.to_nat (h_count h)) body c_srReportOffset in
  let* ext := (if (snd p <? len body)%N then slice_from body (snd p) else Ok ext0) in
  if negb (u8 (nlen pre + nlen (fst p)) =? h_count h)%N then Err else
  Ok (GoSrc.mkSenderReport (Z.of_N ssrc) (Z.of_N ntp) (Z.of_N rtp) (Z.of_N pc) (Z.of_N oc)
        (pre ++ map src_rrep (fst p)) ext).

Lemma src_SenderReport_Unmarshal_any : forall r0 b,
  GoSrc.SenderReport_Unmarshal r0 b
  = SR_unmarshal_onto (GoSrc.SenderReport_Reports r0) (GoSrc.SenderReport_ProfileExtensions r0) b.
Proof.
  intros [f1 f2 f3 f4 f5 f6 f7] b. cbn [GoSrc.SenderReport_Reports GoSrc.SenderReport_ProfileExtensions].
  unfold GoSrc.SenderReport_Unmarshal, SR_unmarshal_onto.
  change (c_headerLength + c_srHeaderLength)%N with 28%N.
  rewrite glen_len, Zltb_N_r.
  destruct (N.ltb_spec (len b) 28) as [Hl|Hl]; [reflexivity|].
  rewrite src_Header_Unmarshal.
  destruct (Header_unmarshal b) as [h| | |]; cbn [res_map bind]; try reflexivity.
  change (GoSrc.Header_Type (src_header h)) with (Z.of_N (h_type h)).
  change (GoSrc.Header_Count (src_header h)) with (Z.of_N (h_count h)).
  rewrite Zeqb_N_r. consts.
  destruct (negb (h_type h =? 200)%N); [reflexivity|].
  change (gslice_from b 4) with (gslice_from b (Z.of_N 4)). rewrite gslice_from_N.
  destruct (slice_from b 4) as [body| | |]; cbn [bind res_map]; try reflexivity.
  rewrite (gbe_get_at_k 4 body 0).
  destruct (get_be_at 4 body 0) as [ssrc| | |]; cbn [bind res_map]; try reflexivity.
  rewrite (gbe_get_at_k 8 body 4).
  destruct (get_be_at 8 body 4) as [ntp| | |]; cbn [bind res_map]; try reflexivity.
  rewrite (gbe_get_at_k 4 body 12).
  destruct (get_be_at 4 body 12) as [rtp| | |]; cbn [bind res_map]; try reflexivity.
  rewrite (gbe_get_at_k 4 body 16).
  destruct (get_be_at 4 body 16) as [pc| | |]; cbn [bind res_map]; try reflexivity.
  rewrite (gbe_get_at_k 4 body 20).
  destruct (get_be_at 4 body 20) as [oc| | |]; cbn [bind res_map]; try reflexivity.
  sr_fields.
  pose proof (SenderReport_Unmarshal_loop1_eq (src_header h) body b (N.to_nat (h_count h))
                (S (Z.to_nat (Z.of_N (h_count h) - 0))) 0 24%N) as K.
  change (Z.of_N 24) with 24 in K. rewrite K; clear K;
    [|lia|unfold src_header; cbn [GoSrc.Header_Count]; lia].
  destruct (sr_reports_loop (N.to_nat (h_count h)) body 24) as [[reports off]| | |]; cbn [bind res_map fst snd];
    try reflexivity.
  unfold GoSrc.SenderReport_Unmarshal_after1. sr_fields.
  change (GoSrc.Header_Count (src_header h)) with (Z.of_N (h_count h)).
  rewrite glenl_app, glenl_map, !glenl_nlen, Zadd_N, uwrap8_N, Zeqb_N, glen_len, Zltb_N.
  destruct (N.ltb_spec off (len body)) as [Ho|Ho].
  - rewrite gslice_from_N.
    destruct (slice_from body off) as [ext| | |]; cbn [bind res_map]; try reflexivity.
  - cbn [bind]. reflexivity.
Qed.

Lemma SR_unmarshal_onto_nil : forall b, SR_unmarshal_onto [] [] b = res_map src_sr (SR_unmarshal b).
Proof.
  intros b. unfold SR_unmarshal_onto, SR_unmarshal.
  destruct (len b <? c_headerLength + c_srHeaderLength)%N; [reflexivity|].
  destruct (Header_unmarshal b) as [h| | |]; cbn [res_map bind]; try reflexivity.
  destruct (negb (h_type h =? c_TypeSenderReport)%N); [reflexivity|].
  destruct (slice_from b c_headerLength) as [body| | |]; cbn [bind res_map]; try reflexivity.
  destruct (get_be_at 4 body c_srSSRCOffset) as [ssrc| | |]; cbn [bind res_map]; try reflexivity.
  destruct (get_be_at 8 body c_srNTPOffset) as [ntp| | |]; cbn [bind res_map]; try reflexivity.
  destruct (get_be_at 4 body c_srRTPOffset) as [rtp| | |]; cbn [bind res_map]; try reflexivity.
  destruct (get_be_at 4 body c_srPacketCountOffset) as [pc| | |]; cbn [bind res_map]; try reflexivity.
  destruct (get_be_at 4 body c_srOctetCountOffset) as [oc| | |]; cbn [bind res_map]; try reflexivity.
  destruct (sr_reports_loop (N.to_nat (h_count h)) body c_srReportOffset) as [[reports off]| | |];
    cbn [bind res_map fst snd]; try reflexivity.
  change (nlen (@nil GoSrc.ReceptionReport)) with 0%N. rewrite N.add_0_l.
  destruct (off <? len body)%N.
  - destruct (slice_from body off) as [ext| | |]; cbn [bind res_map]; try reflexivity.
    destruct (negb (u8 (nlen reports) =? h_count h)%N); reflexivity.
  - cbn [bind]. destruct (negb (u8 (nlen reports) =? h_count h)%N); reflexivity.
Qed.

(* any receiver whose two slices are empty *)
Lemma src_SenderReport_Unmarshal_gen : forall r0 b,
  GoSrc.SenderReport_Reports r0 = [] -> GoSrc.SenderReport_ProfileExtensions r0 = [] ->
  GoSrc.SenderReport_Unmarshal r0 b = res_map src_sr (SR_unmarshal b).
Proof. intros r0 b H6 H7. rewrite src_SenderReport_Unmarshal_any, H6, H7. apply SR_unmarshal_onto_nil. Qed.

Lemma src_SenderReport_Unmarshal : forall b,
  GoSrc.SenderReport_Unmarshal GoSrc.zero_SenderReport b = res_map src_sr (SR_unmarshal b).
Proof. intros b. apply src_SenderReport_Unmarshal_gen; reflexivity. Qed.

(* The hypotheses on the receiver cannot be dropped: the Go decoder appends to Reports and leaves ProfileExtensions
   untouched when the packet carries none (a reused receiver keeps stale extensions).  This is the behaviour of the
   source, not a difference between model and source (the model describes decoding into a fresh value). *)
Lemma src_SenderReport_Unmarshal_any_receiver_refuted :
  exists r0 b, GoSrc.SenderReport_Reports r0 = [] /\
    GoSrc.SenderReport_Unmarshal r0 b <> res_map src_sr (SR_unmarshal b).
Proof.
  exists (GoSrc.mkSenderReport 0 0 0 0 0 [] [x01]), ([x80; xc8; x00; x06] ++ zeros 24).
  split; [reflexivity|]. vm_compute. intro E. discriminate E.
Qed.

Print Assumptions src_ReceptionReport_len.
Print Assumptions src_SenderReport_MarshalSize.
Print Assumptions src_SenderReport_Header.
Print Assumptions src_SenderReport_DestinationSSRC.
Print Assumptions src_SenderReport_Marshal.
Print Assumptions src_SenderReport_Unmarshal_any.
Print Assumptions SR_unmarshal_onto_nil.
Print Assumptions src_SenderReport_Unmarshal_gen.
Print Assumptions src_SenderReport_Unmarshal.
Print Assumptions src_SenderReport_Unmarshal_any_receiver_refuted.
