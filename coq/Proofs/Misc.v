(* C10 (DestinationSSRC = documented list), C17 (REMB unit index), C18 (operation-granularity purity / interleavings).

   What the C18 part assumes, exactly:
   - granularity: a whole operation (Marshal, MarshalSize, DestinationSSRC, Header, Len, String) on one packet is one
     atomic step; nothing below that (torn reads, reordering) exists in the model.  The step from this granularity to
     Go's memory model is data-race freedom, which is argued from Gen/Globals.v + Gen/Effects.v, not here.
   - the only state is the map from packet identifiers to packet values; the only state change of any operation is
     Check.Ops.xr_after_marshal (Marshal fills in the XRHeader fields of ExtendedReport blocks; a compound stops at
     the first member that fails), which is the post-state the harness compares the implementation with.
   - String() is a step with the unit result RString: totality is C17's subject and the text is not modelled, so the
     one result that legitimately differs before/after the first Marshal of an ExtendedReport is invisible here.
   - Unmarshal is not an operation of this world: in the model it is a function from bytes to a fresh value.
   No ownership premise is needed for the per-thread RESULTS at this granularity (run_results); ownership
   (each packet owned by one thread, or shared and then never Marshal-ed) is what makes the final packets agree. *)
From RTCP Require Import Proofs.Tactics.
From Coq Require String. Import String.StringSyntax.
Local Delimit Scope string_scope with string.
From RTCP Require Import Lib.Reflect Gen.Layouts
  Model.Header Model.Reports Model.Sdes Model.ByeApp Model.Feedback Model.Twcc Model.Ccfb Model.Remb Model.Xr Model.Packet
  Spec.Enc Spec.XrSpec Spec.Laws Check.Ops.
Local Open Scope N_scope.

(* ------------------------------------------------------------------------------------------------ *)
(* An induction principle for the nested inductive [packet]                                          *)
(* ------------------------------------------------------------------------------------------------ *)
Definition is_compound (p : packet) : bool := match p with PCompound _ => true | _ => false end.

Lemma packet_ind' (P : packet -> Prop) :
  (forall p, is_compound p = false -> P p) ->
  (forall l, Forall P l -> P (PCompound l)) ->
  forall p, P p.
Proof.
  intros Hleaf Hc. fix IH 1. intro p.
  destruct p; try (apply Hleaf; reflexivity).
  apply Hc. induction l as [|q r IHr]; constructor; [apply IH | exact IHr].
Qed.

(* ------------------------------------------------------------------------------------------------ *)
(* C10                                                                                              *)
(* ------------------------------------------------------------------------------------------------ *)
Lemma block_dest_spec : forall b : XRBlock, block_dest b = sblock_dest (abs_block b).
Proof.
  intros [k v]. destruct k; try reflexivity.
  (* DLRR *)
  unfold block_dest, abs_block, sblock_dest. cbn [xb_kind xb_val layout_of].
  destruct (get_field ly_DLRRReportBlock v "Reports"%string) as [[n|rs|rs]|]; try reflexivity.
  rewrite map_map. reflexivity.
Qed.

Lemma XR_dest_spec : forall x, XR_dest x = xr_sender x :: flat_map (fun b => sblock_dest (abs_block b)) (xr_blocks x).
Proof.
  intros x. unfold XR_dest. f_equal.
  induction (xr_blocks x) as [|b r IH]; [reflexivity|].
  cbn [flat_map]. rewrite IH, block_dest_spec. reflexivity.
Qed.

(* every packet value, nested compounds included: no premise is needed *)
Theorem dest_is_spec : forall p, dest_packet p = dest_spec p.
Proof.
  induction p as [p Hp | l Hl] using packet_ind'.
  - destruct p; try reflexivity; try discriminate Hp.
    apply XR_dest_spec.
  - destruct l as [|q r]; [reflexivity|]. cbn [dest_packet dest_spec]. inversion Hl; assumption.
Qed.
(* the form with the nesting premise (it is not needed) *)
Definition no_compound_nesting (p : packet) : bool :=
  match p with PCompound l => forallb (fun q => negb (is_compound q)) l | _ => true end.
Corollary dest_is_spec_no_nesting : forall p, no_compound_nesting p = true -> dest_packet p = dest_spec p.
Proof. intros p _. apply dest_is_spec. Qed.

(* ------------------------------------------------------------------------------------------------ *)
(* C17: the index into bitUnits (7 entries) computed by ReceiverEstimatedMaximumBitrate.String       *)
(* ------------------------------------------------------------------------------------------------ *)
Lemma remb_unit_index_le : forall ge fuel powers, (powers <= 6)%nat -> (remb_unit_index ge fuel powers <= 6)%nat.
Proof.
  intros ge fuel. induction fuel as [|f IH]; intros powers Hp; cbn [remb_unit_index]; [exact Hp|].
  destruct (ge powers); cbn [andb]; [|exact Hp].
  destruct (Nat.ltb_spec powers 6); [|exact Hp]. apply IH. lia.
Qed.

(* for every behaviour [ge] of the float comparison/division and every loop bound *)
Theorem remb_unit_index_bound : forall ge fuel, (remb_unit_index ge fuel 0 < 7)%nat.
Proof. intros ge fuel. pose proof (remb_unit_index_le ge fuel 0%nat). lia. Qed.

(* the loop before the repair of F17: guard [powers < len(bitUnits)] *)
Fixpoint remb_unit_index_old (ge1000 : nat -> bool) (fuel powers : nat) : nat :=
  match fuel with
  | O => powers
  | S f => if ge1000 powers && Nat.ltb powers 7 then remb_unit_index_old ge1000 f (S powers) else powers
  end.

Theorem remb_unit_index_old_refuted : exists ge fuel, remb_unit_index_old ge fuel 0 = 7%nat.
Proof. exists (fun _ => true), 7%nat. reflexivity. Qed.

(* more precisely: any comparison that stays true seven times drives the old loop to index 7 = len(bitUnits) *)
Theorem remb_unit_index_old_reaches_7 : forall ge fuel,
  (forall k, (k < 7)%nat -> ge k = true) -> (7 <= fuel)%nat -> remb_unit_index_old ge fuel 0 = 7%nat.
Proof.
  intros ge fuel Hge Hf.
  do 7 (destruct fuel as [|fuel]; [lia|]).
  cbn [remb_unit_index_old].
  rewrite !Hge by lia. cbn [andb Nat.ltb Nat.leb].
  destruct fuel; cbn [remb_unit_index_old]; [reflexivity|].
  cbn [Nat.ltb Nat.leb]. rewrite andb_false_r. reflexivity.
Qed.

(* ------------------------------------------------------------------------------------------------ *)
(* C18, part 1: ExtendedReport's header bookkeeping (setupBlockHeader) is idempotent and invisible   *)
(*              to size / bytes / DestinationSSRC / the typed view, for EVERY block value            *)
(* ------------------------------------------------------------------------------------------------ *)
Definition hdr_upd (bt ts : option N) (bl : N) (h : val) : val :=
  let h := match bt with Some x => set_field ly_XRHeader h "BlockType"%string (VU x) | None => h end in
  let h := match ts with Some x => set_field ly_XRHeader h "TypeSpecific"%string (VU x) | None => h end in
  set_field ly_XRHeader h "BlockLength"%string (VU bl).

Definition bt_of (k : XRKind) : option N :=
  match k with
  | KLossRLE => Some c_LossRLEReportBlockType | KDupRLE => Some c_DuplicateRLEReportBlockType
  | KPRT => Some c_PacketReceiptTimesReportBlockType | KRRT => Some c_ReceiverReferenceTimeReportBlockType
  | KDLRR => Some c_DLRRReportBlockType | KSS => Some c_StatisticsSummaryReportBlockType
  | KVoIP => Some c_VoIPMetricsReportBlockType | KUnknown => None
  end.
Definition ts_of (b : XRBlock) : option N :=
  match xb_kind b with
  | KLossRLE | KDupRLE | KPRT => Some (N.land (blk_get b "T"%string) 15)
  | KRRT | KDLRR | KVoIP => Some 0
  | KSS =>
      let ts := 0 in
      let ts := if 0 <? blk_get b "LossReports"%string then N.lor ts 128 else ts in
      let ts := if 0 <? blk_get b "DuplicateReports"%string then N.lor ts 64 else ts in
      let ts := if 0 <? blk_get b "JitterReports"%string then N.lor ts 32 else ts in
      Some (N.lor ts (u8 (N.land (blk_get b "TTLorHopLimit"%string) 3 * 8)))
  | KUnknown => None
  end.

Lemma setup_block_eq b : setup_block b = blk_set_hdr b (bt_of (xb_kind b)) (ts_of b) (blk_length_field b).
Proof. destruct b as [k v]. destruct k; reflexivity. Qed.

Lemma blk_set_hdr_cons k v0 r bt ts bl :
  blk_set_hdr (mkXRBlock k (VStruct (v0 :: r))) bt ts bl = mkXRBlock k (VStruct (hdr_upd bt ts bl v0 :: r)).
Proof. destruct k; reflexivity. Qed.

Definition has_hdr (v : val) : bool := match v with VStruct (_ :: _) => true | _ => false end.
Lemma blk_set_hdr_nohdr k v bt ts bl : has_hdr v = false -> blk_set_hdr (mkXRBlock k v) bt ts bl = mkXRBlock k v.
Proof. intros H. destruct v as [n|vs|[|v0 r]]; try discriminate H; destruct k; reflexivity. Qed.

Lemma ts_of_cons k v0 v0' r : ts_of (mkXRBlock k (VStruct (v0 :: r))) = ts_of (mkXRBlock k (VStruct (v0' :: r))).
Proof. destruct k; reflexivity. Qed.

Lemma wire_size_struct_cons n ft fs x r :
  wire_size (TStruct (Field n ft false true :: fs)) (VStruct (x :: r)) = wire_size ft x + wire_size (TStruct fs) (VStruct r).
Proof. reflexivity. Qed.

Lemma wire_size_hdr_upd bt ts bl h : wire_size ly_XRHeader (hdr_upd bt ts bl h) = wire_size ly_XRHeader h.
Proof.
  destruct h as [n|vs|hs]; [destruct bt, ts; reflexivity ..|].
  destruct hs as [|a [|b [|c hs]]]; destruct bt, ts; try reflexivity;
    try (destruct a; reflexivity); try (destruct a, b; reflexivity); destruct a, b, c; reflexivity.
Qed.

Lemma blk_wire_size_cons k v0 r bt ts bl :
  blk_wire_size (mkXRBlock k (VStruct (hdr_upd bt ts bl v0 :: r))) = blk_wire_size (mkXRBlock k (VStruct (v0 :: r))).
Proof.
  unfold blk_wire_size. cbn [xb_kind xb_val].
  destruct k; cbv [layout_of ly_LossRLEReportBlock ly_DuplicateRLEReportBlock ly_PacketReceiptTimesReportBlock
    ly_ReceiverReferenceTimeReportBlock ly_DLRRReportBlock ly_StatisticsSummaryReportBlock ly_VoIPMetricsReportBlock
    ly_UnknownReportBlock];
  rewrite !(wire_size_struct_cons "XRHeader"%string); f_equal; apply wire_size_hdr_upd.
Qed.

Lemma blk_length_field_cons k v0 r bt ts bl :
  blk_length_field (mkXRBlock k (VStruct (hdr_upd bt ts bl v0 :: r))) = blk_length_field (mkXRBlock k (VStruct (v0 :: r))).
Proof. unfold blk_length_field. rewrite blk_wire_size_cons. reflexivity. Qed.

Lemma hdr_upd_idem bt ts bl h : hdr_upd bt ts bl (hdr_upd bt ts bl h) = hdr_upd bt ts bl h.
Proof.
  destruct h as [n|vs|hs]; [destruct bt, ts; reflexivity ..|].
  destruct hs as [|a [|b [|c hs]]]; destruct bt, ts; reflexivity.
Qed.

Lemma setup_block_cons k v0 r :
  setup_block (mkXRBlock k (VStruct (v0 :: r))) =
  mkXRBlock k (VStruct (hdr_upd (bt_of k) (ts_of (mkXRBlock k (VStruct (v0 :: r))))
                                (blk_length_field (mkXRBlock k (VStruct (v0 :: r)))) v0 :: r)).
Proof. rewrite setup_block_eq. apply blk_set_hdr_cons. Qed.

Lemma setup_block_nohdr k v : has_hdr v = false -> setup_block (mkXRBlock k v) = mkXRBlock k v.
Proof. intros H. rewrite setup_block_eq. apply blk_set_hdr_nohdr. exact H. Qed.

Theorem setup_block_idem : forall b, setup_block (setup_block b) = setup_block b.
Proof.
  intros [k v]. destruct (has_hdr v) eqn:Hv.
  - destruct v as [n|vs|[|v0 r]]; try discriminate Hv.
    rewrite (setup_block_cons k v0 r). rewrite setup_block_cons.
    rewrite blk_length_field_cons, (ts_of_cons k _ v0 r), hdr_upd_idem. reflexivity.
  - rewrite !setup_block_nohdr by exact Hv. reflexivity.
Qed.

Theorem setup_block_wire_size : forall b, blk_wire_size (setup_block b) = blk_wire_size b.
Proof.
  intros [k v]. destruct (has_hdr v) eqn:Hv.
  - destruct v as [n|vs|[|v0 r]]; try discriminate Hv. rewrite setup_block_cons. apply blk_wire_size_cons.
  - rewrite setup_block_nohdr by exact Hv. reflexivity.
Qed.

Lemma block_dest_cons k v0 v0' r : block_dest (mkXRBlock k (VStruct (v0 :: r))) = block_dest (mkXRBlock k (VStruct (v0' :: r))).
Proof. destruct k; reflexivity. Qed.

Theorem setup_block_dest : forall b, block_dest (setup_block b) = block_dest b.
Proof.
  intros [k v]. destruct (has_hdr v) eqn:Hv.
  - destruct v as [n|vs|[|v0 r]]; try discriminate Hv. rewrite setup_block_cons. apply block_dest_cons.
  - rewrite setup_block_nohdr by exact Hv. reflexivity.
Qed.

(* the typed (RFC) view of a block ignores the bookkeeping: BlockLength for every kind, BlockType / TypeSpecific
   for the known kinds (for an unknown block these two are content and setupBlockHeader leaves them alone) *)
Lemma abs_block_cons_known k v0 v0' r : k <> KUnknown ->
  abs_block (mkXRBlock k (VStruct (v0 :: r))) = abs_block (mkXRBlock k (VStruct (v0' :: r))).
Proof. intros Hk. destruct k; try reflexivity. congruence. Qed.
Lemma abs_block_cons_unknown v0 r bl :
  abs_block (mkXRBlock KUnknown (VStruct (hdr_upd None None bl v0 :: r))) = abs_block (mkXRBlock KUnknown (VStruct (v0 :: r))).
Proof.
  destruct v0 as [n|vs|hs]; try reflexivity.
  destruct hs as [|a [|b [|c hs]]]; reflexivity.
Qed.
Theorem setup_block_abs : forall b, abs_block (setup_block b) = abs_block b.
Proof.
  intros [k v]. destruct (has_hdr v) eqn:Hv.
  - destruct v as [n|vs|[|v0 r]]; try discriminate Hv. rewrite setup_block_cons.
    destruct k; try (apply abs_block_cons_known; discriminate). apply abs_block_cons_unknown.
  - rewrite setup_block_nohdr by exact Hv. reflexivity.
Qed.

(* ---- lifted to ExtendedReport ---- *)
Definition XR_setup (x : XR) : XR := {| xr_sender := xr_sender x; xr_blocks := map setup_block (xr_blocks x) |}.

Lemma map_setup_idem bs : map setup_block (map setup_block bs) = map setup_block bs.
Proof. rewrite map_map. apply map_ext. apply setup_block_idem. Qed.

Lemma XR_setup_idem x : XR_setup (XR_setup x) = XR_setup x.
Proof. unfold XR_setup. cbn [xr_sender xr_blocks]. rewrite map_setup_idem. reflexivity. Qed.

Lemma XR_marshal_full_setup x : XR_marshal_full (XR_setup x) = XR_marshal_full x.
Proof. unfold XR_marshal_full, XR_setup. cbn [xr_sender xr_blocks]. rewrite map_setup_idem. reflexivity. Qed.

Lemma XR_marshal_setup x : XR_marshal (XR_setup x) = XR_marshal x.
Proof. unfold XR_marshal. rewrite XR_marshal_full_setup. reflexivity. Qed.

(* the value ExtendedReport.Marshal leaves behind is the set-up one, whenever it succeeds *)
Lemma XR_marshal_full_snd x b x' : XR_marshal_full x = Ok (b, x') -> x' = XR_setup x.
Proof.
  unfold XR_marshal_full. intros H.
  destruct (Header_marshal _) as [hb| | |]; cbn [bind] in H; try discriminate H.
  destruct (_ <? len hb); [discriminate H|]. destruct (_ <? 4); [discriminate H|].
  destruct (write_blocks _ _) as [[body room]| | |]; cbn [bind] in H; try discriminate H.
  inversion H. reflexivity.
Qed.

Lemma XR_wire_size_setup x : XR_wire_size (XR_setup x) = XR_wire_size x.
Proof.
  unfold XR_wire_size, XR_setup. cbn [xr_blocks]. f_equal.
  induction (xr_blocks x) as [|b r IH]; [reflexivity|]. cbn [map fold_right]. rewrite IH, setup_block_wire_size. reflexivity.
Qed.
Lemma XR_size_setup x : XR_size (XR_setup x) = XR_size x.
Proof. unfold XR_size. rewrite XR_wire_size_setup. reflexivity. Qed.

Lemma XR_dest_setup x : XR_dest (XR_setup x) = XR_dest x.
Proof.
  unfold XR_dest, XR_setup. cbn [xr_sender xr_blocks]. f_equal.
  induction (xr_blocks x) as [|b r IH]; [reflexivity|]. cbn [map flat_map]. rewrite IH, setup_block_dest. reflexivity.
Qed.

Lemma XR_abs_setup x : map abs_block (xr_blocks (XR_setup x)) = map abs_block (xr_blocks x).
Proof. unfold XR_setup. cbn [xr_blocks]. rewrite map_map. apply map_ext. apply setup_block_abs. Qed.

(* ------------------------------------------------------------------------------------------------ *)
(* C18, part 2: operations on one packet                                                            *)
(* ------------------------------------------------------------------------------------------------ *)
Lemma canon_XR x : canon (PXR x) = PXR (XR_setup x).
Proof. reflexivity. Qed.

Lemma marshal_compound l : marshal_packet (PCompound l) = (let* _ := Compound_validate l in Marshal l).
Proof.
  cbn [marshal_packet]. destruct (Compound_validate l); cbn [bind]; reflexivity.
Qed.

Lemma validate_rest_canon l : validate_rest (map canon l) = validate_rest l.
Proof.
  induction l as [|q r IH]; [reflexivity|].
  destruct q; cbn [map canon validate_rest]; try reflexivity. exact IH.
Qed.
Lemma validate_canon l : Compound_validate (map canon l) = Compound_validate l.
Proof.
  destruct l as [|q r]; [reflexivity|].
  destruct q; cbn [map canon Compound_validate]; try reflexivity; apply validate_rest_canon.
Qed.

Theorem marshal_canon : forall p, marshal_packet (canon p) = marshal_packet p.
Proof.
  induction p as [p Hp | l Hl] using packet_ind'.
  - destruct p; try reflexivity; try discriminate Hp. rewrite canon_XR. cbn [marshal_packet]. apply XR_marshal_setup.
  - cbn [canon]. rewrite !marshal_compound, validate_canon.
    destruct (Compound_validate l); cbn [bind]; try reflexivity.
    induction Hl as [|q r Hq Hr IH]; [reflexivity|]. cbn [map Marshal]. rewrite Hq, IH. reflexivity.
Qed.

Theorem size_canon : forall p, size_packet (canon p) = size_packet p.
Proof.
  induction p as [p Hp | l Hl] using packet_ind'.
  - destruct p; try reflexivity; try discriminate Hp. rewrite canon_XR. cbn [size_packet]. apply XR_size_setup.
  - cbn [canon size_packet].
    induction Hl as [|q r Hq Hr IH]; [reflexivity|]. cbn [map fold_right]. rewrite Hq, IH. reflexivity.
Qed.

Theorem dest_canon : forall p, dest_packet (canon p) = dest_packet p.
Proof.
  induction p as [p Hp | l Hl] using packet_ind'.
  - destruct p; try reflexivity; try discriminate Hp. rewrite canon_XR. cbn [dest_packet]. apply XR_dest_setup.
  - destruct Hl as [|q r Hq Hr]; [reflexivity|]. cbn [canon map dest_packet]. exact Hq.
Qed.

Lemma header_canon p : header_of_packet (canon p) = header_of_packet p.
Proof. destruct p; reflexivity. Qed.
Lemma len_canon p : len_of_packet (canon p) = len_of_packet p.
Proof. destruct p; reflexivity. Qed.

Theorem canon_idem : forall p, canon (canon p) = canon p.
Proof.
  induction p as [p Hp | l Hl] using packet_ind'.
  - destruct p; try reflexivity; try discriminate Hp. rewrite !canon_XR. rewrite XR_setup_idem. reflexivity.
  - cbn [canon]. f_equal. rewrite map_map.
    induction Hl as [|q r Hq Hr IH]; [reflexivity|]. cbn [map]. rewrite Hq, IH. reflexivity.
Qed.

(* what Marshal leaves behind (Check.Ops.xr_after_marshal, the function the harness compares the
   implementation's post-state with) differs from the packet only in the bookkeeping *)
Theorem xr_after_marshal_canon : forall p, canon (xr_after_marshal p) = canon p.
Proof.
  induction p as [p Hp | l Hl] using packet_ind'.
  - destruct p; try reflexivity; try discriminate Hp.
    change (xr_after_marshal (PXR x)) with (PXR (XR_setup x)). rewrite !canon_XR, XR_setup_idem. reflexivity.
  - cbn [xr_after_marshal]. destruct (Compound_validate l); try reflexivity.
    cbn [canon]. f_equal.
    induction Hl as [|q r Hq Hr IH]; [reflexivity|].
    destruct (marshal_packet q); cbn [map]; rewrite Hq; try reflexivity. rewrite IH. reflexivity.
Qed.

(* ... and when Marshal succeeds it is exactly the canonical form *)
Lemma Marshal_ok_inv q r b : Marshal (q :: r) = Ok b -> exists b1 b2, marshal_packet q = Ok b1 /\ Marshal r = Ok b2.
Proof.
  cbn [Marshal]. destruct (marshal_packet q) as [b1| | |]; cbn [bind]; try discriminate.
  destruct (Marshal r) as [b2| | |]; cbn [bind]; try discriminate. intros _. exists b1, b2. split; reflexivity.
Qed.
Theorem xr_after_marshal_ok : forall p b, marshal_packet p = Ok b -> xr_after_marshal p = canon p.
Proof.
  induction p as [p Hp | l Hl] using packet_ind'; intros b Hb.
  - destruct p; try reflexivity; discriminate Hp.
  - rewrite marshal_compound in Hb. cbn [xr_after_marshal canon].
    destruct (Compound_validate l); cbn [bind] in Hb; try discriminate Hb. f_equal.
    revert b Hb. induction Hl as [|q r Hq Hr IH]; intros b Hb; [reflexivity|].
    destruct (Marshal_ok_inv _ _ _ Hb) as (b1 & b2 & H1 & H2).
    rewrite H1. cbn [map]. rewrite (Hq _ H1), (IH _ H2). reflexivity.
Qed.

(* packets that contain no ExtendedReport are not modified at all *)
Fixpoint has_xr (p : packet) : bool :=
  match p with
  | PXR _ => true
  | PCompound l => (fix any (l : list packet) : bool := match l with [] => false | q :: r => has_xr q || any r end) l
  | _ => false
  end.
Theorem xr_after_marshal_no_xr : forall p, has_xr p = false -> xr_after_marshal p = p.
Proof.
  induction p as [p Hp | l Hl] using packet_ind'; intros Hx.
  - destruct p; try reflexivity; discriminate.
  - cbn [xr_after_marshal]. destruct (Compound_validate l); try reflexivity. f_equal.
    cbn [has_xr] in Hx.
    induction Hl as [|q r Hq Hr IH]; [reflexivity|].
    apply orb_false_iff in Hx. destruct Hx as [Hx1 Hx2].
    destruct (marshal_packet q); rewrite (Hq Hx1); try reflexivity. rewrite (IH Hx2). reflexivity.
Qed.

Inductive op := OMarshal | OSize | ODest | OHeader | OLen | OString.
Inductive result :=
| RMarshal (r : res bytes) | RSize (n : N) | RDest (l : list N) | RHeader (h : option Header) | RLen (n : option N)
| RString.  (* String() returned; the text is not modelled (C17), so in particular the legitimate difference
               between the String of an ExtendedReport before and after its first Marshal is not visible here *)

Definition result_of (p : packet) (o : op) : result :=
  match o with
  | OMarshal => RMarshal (marshal_packet p) | OSize => RSize (size_packet p) | ODest => RDest (dest_packet p)
  | OHeader => RHeader (header_of_packet p) | OLen => RLen (len_of_packet p) | OString => RString
  end.
(* the only state change of any operation: Marshal fills in the XRHeader fields of ExtendedReport blocks *)
Definition post (p : packet) (o : op) : packet := match o with OMarshal => xr_after_marshal p | _ => p end.
Definition step (p : packet) (o : op) : packet * result := (post p o, result_of p o).

Theorem step_sem : forall p o, canon (fst (step p o)) = canon p.
Proof. intros p o. destruct o; cbn [step fst post]; try reflexivity. apply xr_after_marshal_canon. Qed.

Theorem step_readonly : forall p o, o <> OMarshal \/ has_xr p = false -> fst (step p o) = p.
Proof.
  intros p o H. destruct o; cbn [step fst post]; try reflexivity.
  destruct H as [H|H]; [congruence|]. apply xr_after_marshal_no_xr. exact H.
Qed.

Theorem result_canon : forall p o, result_of (canon p) o = result_of p o.
Proof.
  intros p o. destruct o; cbn [result_of];
    [rewrite marshal_canon | rewrite size_canon | rewrite dest_canon | rewrite header_canon | rewrite len_canon | ]; reflexivity.
Qed.
(* results depend on the packet only through its canonical form *)
Theorem result_sem : forall p q o, canon p = canon q -> result_of p o = result_of q o.
Proof. intros p q o H. rewrite <- (result_canon p), <- (result_canon q), H. reflexivity. Qed.

(* histories of operations on one packet *)
Fixpoint run_hist (p : packet) (h : list op) : packet * list result :=
  match h with
  | [] => (p, [])
  | o :: r => let rest := run_hist (post p o) r in (fst rest, result_of p o :: snd rest)
  end.

Lemma run_hist_canon : forall h p, canon (fst (run_hist p h)) = canon p.
Proof.
  induction h as [|o r IH]; intros p; [reflexivity|]. cbn [run_hist fst]. rewrite IH. apply (step_sem p o).
Qed.

Theorem result_history_independent : forall h p o,
  snd (step (fst (run_hist p h)) o) = result_of p o /\ result_of p o = result_of (canon p) o.
Proof.
  intros h p o. split; [|symmetry; apply result_canon].
  cbn [step snd]. apply result_sem. apply run_hist_canon.
Qed.

Theorem history_results : forall h p, snd (run_hist p h) = map (result_of p) h.
Proof.
  induction h as [|o r IH]; intros p; [reflexivity|]. cbn [run_hist snd map]. rewrite IH. f_equal.
  apply map_ext. intros o'. apply result_sem. apply (step_sem p o).
Qed.

Lemma run_hist_readonly : forall h p, Forall (fun o => o <> OMarshal) h -> fst (run_hist p h) = p.
Proof.
  induction h as [|o r IH]; intros p H; [reflexivity|]. inversion H as [|? ? Ho Hr]; subst.
  cbn [run_hist fst]. rewrite IH by exact Hr. destruct o; try reflexivity. congruence.
Qed.

(* ------------------------------------------------------------------------------------------------ *)
(* C18, part 3: a world of packets, threads, schedules (granularity: whole operations)              *)
(* ------------------------------------------------------------------------------------------------ *)
(* The world is a total map from packet identifiers to packet values; there is no other state:
   the package has no mutable globals and Unmarshal is a function of its input bytes (both facts come
   from the generated Gen/Globals.v / Gen/Effects.v and the model, not from this file). *)
Definition world := nat -> packet.
Definition upd (w : world) (i : nat) (p : packet) : world := fun j => if Nat.eqb j i then p else w j.
Definition wstep (w : world) (i : nat) (o : op) : world * result := (upd w i (post (w i) o), result_of (w i) o).

Theorem step_frame : forall w i o j, j <> i -> fst (wstep w i o) j = w j.
Proof. intros w i o j H. cbn [wstep fst]. unfold upd. destruct (Nat.eqb_spec j i); [contradiction|reflexivity]. Qed.

Theorem op_frame : forall w i o,
  (forall j, j <> i -> fst (wstep w i o) j = w j) /\
  fst (wstep w i o) i = fst (step (w i) o) /\
  canon (fst (wstep w i o) i) = canon (w i) /\
  snd (wstep w i o) = result_of (w i) o /\
  (o <> OMarshal \/ has_xr (w i) = false -> forall j, fst (wstep w i o) j = w j).
Proof.
  intros w i o.
  assert (E : fst (wstep w i o) i = fst (step (w i) o)).
  { cbn [wstep fst step]. unfold upd. rewrite Nat.eqb_refl. reflexivity. }
  repeat split.
  - intros j H. apply step_frame. exact H.
  - exact E.
  - rewrite E. apply step_sem.
  - intros H j. destruct (Nat.eq_dec j i) as [->|Hn]; [|apply step_frame; exact Hn].
    rewrite E. apply step_readonly. exact H.
Qed.

(* operations on distinct packets commute: same final world (pointwise), each sees the result it would have seen alone *)
Lemma wstep_commute : forall w i j o1 o2, i <> j ->
  (forall k, fst (wstep (fst (wstep w i o1)) j o2) k = fst (wstep (fst (wstep w j o2)) i o1) k) /\
  snd (wstep (fst (wstep w i o1)) j o2) = snd (wstep w j o2) /\
  snd (wstep (fst (wstep w j o2)) i o1) = snd (wstep w i o1).
Proof.
  intros w i j o1 o2 H. cbn [wstep fst snd]. unfold upd. repeat split.
  - intros k. destruct (Nat.eqb_spec k j), (Nat.eqb_spec k i), (Nat.eqb_spec j i), (Nat.eqb_spec i j); try reflexivity; congruence.
  - destruct (Nat.eqb_spec j i); [congruence|reflexivity].
  - destruct (Nat.eqb_spec i j); [congruence|reflexivity].
Qed.

Record event := mkEvent { ev_thread : nat; ev_pkt : nat; ev_op : op }.

(* run a schedule; the trace records which thread obtained which result *)
Fixpoint run (w : world) (s : list event) : world * list (nat * result) :=
  match s with
  | [] => (w, [])
  | e :: r =>
      let wr := wstep w (ev_pkt e) (ev_op e) in
      let rest := run (fst wr) r in
      (fst rest, (ev_thread e, snd wr) :: snd rest)
  end.
Definition results_of (t : nat) (tr : list (nat * result)) : list result :=
  map snd (filter (fun x => Nat.eqb (fst x) t) tr).
(* the program a thread executes within a schedule *)
Definition proj (t : nat) (s : list event) : list (nat * op) :=
  map (fun e => (ev_pkt e, ev_op e)) (filter (fun e => Nat.eqb (ev_thread e) t) s).
Definition ops_on (j : nat) (s : list event) : list op :=
  map ev_op (filter (fun e => Nat.eqb (ev_pkt e) j) s).
Definition ops_on_prog (j : nat) (pr : list (nat * op)) : list op :=
  map snd (filter (fun io => Nat.eqb (fst io) j) pr).

(* ownership discipline of the statement: a packet is either owned by one thread (which may do anything with it)
   or shared by all (own = None), in which case only the non-Marshal operations are allowed on it *)
Definition allowed (own : nat -> option nat) (t : nat) (io : nat * op) : Prop :=
  own (fst io) = Some t \/ (own (fst io) = None /\ snd io <> OMarshal).
Definition well_owned (own : nat -> option nat) (s : list event) : Prop :=
  Forall (fun e => allowed own (ev_thread e) (ev_pkt e, ev_op e)) s.

(* the final value of a packet is the result of the history of the operations applied to it *)
Lemma run_final : forall s w j, fst (run w s) j = fst (run_hist (w j) (ops_on j s)).
Proof.
  induction s as [|e r IH]; intros w j; [reflexivity|].
  cbn [run fst]. rewrite IH. unfold ops_on. cbn [filter wstep fst]. unfold upd.
  rewrite (Nat.eqb_sym j (ev_pkt e)).
  destruct (Nat.eqb_spec (ev_pkt e) j) as [->|Hn]; reflexivity.
Qed.

(* every result is the one the operation gives on the initial packet, whatever ran before *)
Lemma run_results : forall t s w w0, (forall i, canon (w i) = canon (w0 i)) ->
  results_of t (snd (run w s)) = map (fun io => result_of (w0 (fst io)) (snd io)) (proj t s).
Proof.
  intros t. induction s as [|e r IH]; intros w w0 Hc; [reflexivity|].
  cbn [run snd]. unfold results_of, proj. cbn [filter fst].
  assert (Hc' : forall i, canon (fst (wstep w (ev_pkt e) (ev_op e)) i) = canon (w0 i)).
  { intros i. destruct (Nat.eq_dec i (ev_pkt e)) as [->|Hn].
    - destruct (op_frame w (ev_pkt e) (ev_op e)) as (_ & _ & H & _). rewrite H. apply Hc.
    - rewrite step_frame by exact Hn. apply Hc. }
  specialize (IH _ _ Hc'). unfold results_of, proj in IH.
  destruct (Nat.eqb (ev_thread e) t); cbn [map]; rewrite IH; [|reflexivity].
  f_equal. cbn [wstep snd fst]. apply result_sem. apply Hc.
Qed.

Lemma ops_on_owned : forall own s j t, well_owned own s -> own j = Some t -> ops_on j s = ops_on_prog j (proj t s).
Proof.
  intros own s j t Hw Hj. induction Hw as [|e r He Hr IH]; [reflexivity|].
  unfold ops_on, ops_on_prog, proj in *. cbn [filter].
  destruct (Nat.eqb_spec (ev_pkt e) j) as [Hp|Hp].
  - assert (Ht : ev_thread e = t).
    { destruct He as [He|[He _]]; cbn [fst] in He; rewrite Hp, Hj in He; congruence. }
    rewrite Ht, Nat.eqb_refl. cbn [map filter fst]. rewrite Hp, Nat.eqb_refl. cbn [map snd]. rewrite IH. reflexivity.
  - destruct (Nat.eqb (ev_thread e) t); [|exact IH].
    cbn [map filter fst]. destruct (Nat.eqb_spec (ev_pkt e) j); [contradiction|]. exact IH.
Qed.

Lemma ops_on_shared : forall own s j, well_owned own s -> own j = None -> Forall (fun o => o <> OMarshal) (ops_on j s).
Proof.
  intros own s j Hw Hj. induction Hw as [|e r He Hr IH]; [constructor|].
  unfold ops_on in *. cbn [filter].
  destruct (Nat.eqb_spec (ev_pkt e) j) as [Hp|Hp]; [|exact IH].
  cbn [map]. constructor; [|exact IH].
  destruct He as [He|[_ He]]; cbn [fst snd] in He; [rewrite Hp, Hj in He; discriminate He | exact He].
Qed.

(* Any two schedules in which every thread executes the same program agree on every thread's results and on
   the final world.  (The results part needs no ownership premise at this granularity: see run_results.) *)
Theorem schedules_agree : forall own s1 s2 w,
  well_owned own s1 -> well_owned own s2 -> (forall t, proj t s1 = proj t s2) ->
  (forall t, results_of t (snd (run w s1)) = results_of t (snd (run w s2))) /\
  (forall j, fst (run w s1) j = fst (run w s2) j).
Proof.
  intros own s1 s2 w H1 H2 Hp. split.
  - intros t. rewrite (run_results t s1 w w), (run_results t s2 w w) by reflexivity. rewrite Hp. reflexivity.
  - intros j. rewrite !run_final. destruct (own j) as [t|] eqn:Hj.
    + rewrite (ops_on_owned own s1 j t H1 Hj), (ops_on_owned own s2 j t H2 Hj), Hp. reflexivity.
    + rewrite !run_hist_readonly by (eapply ops_on_shared; eassumption). reflexivity.
Qed.

(* programs: thread t runs [nth t progs []]; the sequential execution runs thread 0 to completion, then thread 1, ... *)
Definition tag (t : nat) (io : nat * op) : event := {| ev_thread := t; ev_pkt := fst io; ev_op := snd io |}.
Fixpoint seq_from (t : nat) (progs : list (list (nat * op))) : list event :=
  match progs with [] => [] | pr :: rest => map (tag t) pr ++ seq_from (S t) rest end.
Definition sequential (progs : list (list (nat * op))) : list event := seq_from 0 progs.
Definition interleaving_of (progs : list (list (nat * op))) (s : list event) : Prop :=
  forall t, proj t s = nth t progs [].
Definition progs_owned (own : nat -> option nat) (progs : list (list (nat * op))) : Prop :=
  forall t io, In io (nth t progs []) -> allowed own t io.

Lemma proj_app t a b : proj t (a ++ b) = proj t a ++ proj t b.
Proof. unfold proj. rewrite filter_app, map_app. reflexivity. Qed.
Lemma proj_tag t t0 pr : proj t (map (tag t0) pr) = if Nat.eqb t0 t then pr else [].
Proof.
  unfold proj. induction pr as [|[i o] r IH]; [destruct (Nat.eqb t0 t); reflexivity|].
  cbn [map filter tag ev_thread]. destruct (Nat.eqb t0 t); cbn [map]; rewrite IH; reflexivity.
Qed.
Lemma proj_seq_from : forall progs t0 t,
  proj t (seq_from t0 progs) = if Nat.ltb t t0 then [] else nth (t - t0) progs [].
Proof.
  induction progs as [|pr rest IH]; intros t0 t.
  - cbn [seq_from]. destruct (Nat.ltb t t0); [reflexivity|]. destruct (t - t0)%nat; reflexivity.
  - cbn [seq_from]. rewrite proj_app, proj_tag, IH.
    destruct (Nat.eqb_spec t0 t) as [->|Hn].
    + destruct (Nat.ltb_spec t (S t)); [|lia]. destruct (Nat.ltb_spec t t); [lia|].
      rewrite Nat.sub_diag, app_nil_r. reflexivity.
    + destruct (Nat.ltb_spec t (S t0)), (Nat.ltb_spec t t0); try lia; [reflexivity|].
      replace (t - t0)%nat with (S (t - S t0)) by lia. reflexivity.
Qed.
Lemma sequential_is_interleaving progs : interleaving_of progs (sequential progs).
Proof. intros t. unfold sequential. rewrite proj_seq_from. cbn [Nat.ltb Nat.leb]. rewrite Nat.sub_0_r. reflexivity. Qed.

Lemma in_proj e s : In e s -> In (ev_pkt e, ev_op e) (proj (ev_thread e) s).
Proof.
  intros H. unfold proj. apply (in_map (fun e => (ev_pkt e, ev_op e))). apply filter_In. split; [exact H|apply Nat.eqb_refl].
Qed.
Lemma interleaving_owned own progs s : progs_owned own progs -> interleaving_of progs s -> well_owned own s.
Proof.
  intros Ho Hi. apply Forall_forall. intros e He. apply Ho. rewrite <- Hi. apply in_proj. exact He.
Qed.

(* C18: every interleaving of the threads' programs gives every thread the results, and the world the final packets,
   of the sequential execution; moreover each result is the one the operation yields on the initial packet. *)
Theorem interleaving_sequential : forall own progs s w,
  progs_owned own progs -> interleaving_of progs s ->
  (forall t, results_of t (snd (run w s)) = results_of t (snd (run w (sequential progs)))) /\
  (forall j, fst (run w s) j = fst (run w (sequential progs)) j) /\
  (forall t, results_of t (snd (run w s)) = map (fun io => result_of (w (fst io)) (snd io)) (nth t progs [])).
Proof.
  intros own progs s w Ho Hi.
  pose proof (sequential_is_interleaving progs) as Hs.
  destruct (schedules_agree own s (sequential progs) w) as [Hr Hf].
  - eapply interleaving_owned; eassumption.
  - eapply interleaving_owned; eassumption.
  - intros t. rewrite Hi, Hs. reflexivity.
  - repeat split; [exact Hr | exact Hf |].
    intros t. rewrite (run_results t s w w) by reflexivity. rewrite Hi. reflexivity.
Qed.

(* special case of the brief: all packets touched are owned (programs work on DISTINCT packets) *)
Corollary interleaving_sequential_distinct : forall (owner : nat -> nat) progs s w,
  (forall t io, In io (nth t progs []) -> owner (fst io) = t) -> interleaving_of progs s ->
  (forall t, results_of t (snd (run w s)) = results_of t (snd (run w (sequential progs)))) /\
  (forall j, fst (run w s) j = fst (run w (sequential progs)) j).
Proof.
  intros owner progs s w Ho Hi.
  destruct (interleaving_sequential (fun i => Some (owner i)) progs s w) as (H1 & H2 & _); [|exact Hi|split; assumption].
  intros t io Hin. left. cbn. f_equal. apply Ho. exact Hin.
Qed.

Print Assumptions dest_is_spec.
Print Assumptions block_dest_spec.
Print Assumptions remb_unit_index_bound.
Print Assumptions remb_unit_index_old_refuted.
Print Assumptions remb_unit_index_old_reaches_7.
Print Assumptions setup_block_idem.
Print Assumptions setup_block_abs.
Print Assumptions setup_block_wire_size.
Print Assumptions setup_block_dest.
Print Assumptions marshal_canon.
Print Assumptions size_canon.
Print Assumptions dest_canon.
Print Assumptions canon_idem.
Print Assumptions xr_after_marshal_canon.
Print Assumptions xr_after_marshal_ok.
Print Assumptions xr_after_marshal_no_xr.
Print Assumptions step_frame.
Print Assumptions op_frame.
Print Assumptions step_sem.
Print Assumptions result_sem.
Print Assumptions result_history_independent.
Print Assumptions history_results.
Print Assumptions wstep_commute.
Print Assumptions schedules_agree.
Print Assumptions interleaving_sequential.
Print Assumptions interleaving_sequential_distinct.
