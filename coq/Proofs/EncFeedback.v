(* Fixed-layout feedback packets: PLI, RRR, NACK, FIR, SLI (Model/Feedback.v against Spec/Enc.v).
   C02/C04 (decode what the RFC layout prescribes), C03 (Marshal = RFC layout), C05 (size and header),
   C07 (type / format guard), C08 (count limits).  SLI: finding F5 (packet type 205 instead of 206). *)
From RTCP Require Import Proofs.Tactics Proofs.HeaderProofs Model.Header Model.Reports Model.Feedback Spec.Enc.
Local Open Scope N_scope.

(* ---------- shared facts ---------- *)
Lemma fits_lt w x : fits w x = true -> x < 2 ^ w.
Proof. unfold fits. intros H. apply N.ltb_lt in H. exact H. Qed.
Lemma fits32_be x : fits 32 x = true -> x < 256 ^ N.of_nat 4.
Proof. intros H. apply fits_lt in H. change (256 ^ N.of_nat 4) with (2 ^ 32). exact H. Qed.
Lemma fits16_be x : fits 16 x = true -> x < 256 ^ N.of_nat 2.
Proof. intros H. apply fits_lt in H. change (256 ^ N.of_nat 2) with (2 ^ 16). exact H. Qed.
Lemma fits32_lt x : fits 32 x = true -> x < 4294967296.
Proof. intros H. apply fits_lt in H. exact H. Qed.
Lemma fits16_lt x : fits 16 x = true -> x < 65536.
Proof. intros H. apply fits_lt in H. exact H. Qed.
Lemma fits13_lt x : fits 13 x = true -> x < 8192.
Proof. intros H. apply fits_lt in H. exact H. Qed.
Lemma fits8_lt x : fits 8 x = true -> x < 256.
Proof. intros H. apply fits_lt in H. exact H. Qed.
Lemma fits6_lt x : fits 6 x = true -> x < 64.
Proof. intros H. apply fits_lt in H. exact H. Qed.

Lemma len_hdr p c t l : len (hdr p c t l) = 4.
Proof. reflexivity. Qed.

Lemma len_concat_const {A} (f : A -> bytes) k (l : list A) :
  (forall x, len (f x) = k) -> len (List.concat (map f l)) = k * nl l.
Proof.
  intros Hf. unfold nl. induction l as [|x l IH]; [cbn [map List.concat length]; rewrite len_nil; lia|].
  cbn [map List.concat length]. rewrite len_app, Hf, IH. lia.
Qed.

(* the common shape of the feedback packets: header, sender SSRC, media SSRC, FCI *)
Definition fb (c t l s m : N) (fci : bytes) : bytes := hdr false c t l ++ be 4 s ++ be 4 m ++ fci.

Lemma frame_fb c t s m fci :
  frame false c t (be 4 s ++ be 4 m ++ fci) = fb c t ((12 + len fci) / 4 - 1) s m fci.
Proof.
  unfold frame, fb. rewrite !len_app, !len_be. f_equal. f_equal. f_equal. lia.
Qed.

Lemma len_fb c t l s m fci : len (fb c t l s m fci) = 12 + len fci.
Proof. unfold fb. rewrite !len_app, !len_be, len_hdr. lia. Qed.

Lemma fb_header c t l s m fci : c < 32 -> t < 256 -> l < 65536 ->
  Header_unmarshal (fb c t l s m fci) = Ok (mkHeader false c t l).
Proof. intros. unfold fb. apply Header_unmarshal_hdr; assumption. Qed.

Lemma fb_sender c t l s m fci : fits 32 s = true -> get_be_at 4 (fb c t l s m fci) 4 = Ok s.
Proof. intros H. unfold fb. apply get_be_at_app; [reflexivity | apply fits32_be; exact H]. Qed.

Lemma fb_media c t l s m fci : fits 32 m = true -> get_be_at 4 (fb c t l s m fci) 8 = Ok m.
Proof.
  intros H. unfold fb. rewrite (app_assoc (hdr false c t l)).
  apply get_be_at_app; [rewrite len_app, len_be, len_hdr; reflexivity | apply fits32_be; exact H].
Qed.

(* ---------- PLI (RFC 4585 6.3.1) ---------- *)
Lemma PLI_marshal_spec p : D_PLI p = true -> PLI_marshal p = Ok (enc_PLI p).
Proof.
  intros _. unfold PLI_marshal, PLI_size, PLI_header, enc_PLI. consts.
  change (zeros (4 + 4 * 2)) with (zeros 4 ++ zeros 8).
  frontier.
  rewrite Header_marshal_spec by lia. cbn [bind].
  rewrite <- !app_assoc. rewrite copy_at_head' by reflexivity.
  change (zeros (8 - N.of_nat 4 - N.of_nat 4)) with (@nil byte).
  rewrite <- (app_nil_r (be 4 (pli_media p))) at 2. rewrite frame_fb. reflexivity.
Qed.

Lemma D_PLI_inv p : D_PLI p = true -> fits 32 (pli_sender p) = true /\ fits 32 (pli_media p) = true.
Proof. unfold D_PLI. intros H. apply andb_true_iff in H. exact H. Qed.

Lemma enc_PLI_fb p : enc_PLI p = fb 1 206 2 (pli_sender p) (pli_media p) [].
Proof. unfold enc_PLI. rewrite <- (app_nil_r (be 4 (pli_media p))). rewrite frame_fb. reflexivity. Qed.

Lemma PLI_unmarshal_enc p : D_PLI p = true -> PLI_unmarshal (enc_PLI p) = Ok p.
Proof.
  intros H. apply D_PLI_inv in H as [Hs Hm]. rewrite enc_PLI_fb.
  unfold PLI_unmarshal. consts. rewrite len_fb, len_nil.
  destruct (N.ltb_spec (12 + 0) (4 + 4 * 2)) as [A|_]; [lia|].
  rewrite fb_header by lia. cbn [bind h_type h_count].
  change (negb (206 =? 206) || negb (1 =? 1)) with false. cbv iota.
  rewrite fb_sender by exact Hs. cbn [bind].
  change (4 + 4) with 8. rewrite fb_media by exact Hm. cbn [bind].
  destruct p; reflexivity.
Qed.

Lemma PLI_size_spec p : D_PLI p = true -> len (enc_PLI p) = PLI_size p /\ len (enc_PLI p) mod 4 = 0.
Proof. intros _. rewrite enc_PLI_fb, len_fb, len_nil. unfold PLI_size. consts. split; reflexivity. Qed.

Lemma PLI_enc_header p : D_PLI p = true ->
  Header_unmarshal (enc_PLI p) = Ok (mkHeader false 1 206 (PLI_size p / 4 - 1)).
Proof. intros _. rewrite enc_PLI_fb. unfold PLI_size. consts. change ((4 + 4 * 2) / 4 - 1) with 2. apply fb_header; lia. Qed.

Lemma PLI_wrong_type b h : Header_unmarshal b = Ok h -> (h_type h, h_count h) <> (206, 1) -> PLI_unmarshal b = Err.
Proof.
  intros Hh Hne. unfold PLI_unmarshal. consts.
  destruct (len b <? 4 + 4 * 2); [reflexivity|]. rewrite Hh. cbn [bind].
  destruct (N.eqb_spec (h_type h) 206) as [Et|Et]; [|reflexivity].
  destruct (N.eqb_spec (h_count h) 1) as [Ec|Ec]; [|reflexivity].
  exfalso. apply Hne. rewrite Et, Ec. reflexivity.
Qed.

(* ---------- RRR (RFC 6051 3.2) ---------- *)
Lemma RRR_marshal_spec p : D_RRR p = true -> RRR_marshal p = Ok (enc_RRR p).
Proof.
  intros _. unfold RRR_marshal, RRR_size, RRR_header, enc_RRR. consts.
  change (zeros (4 + 8)) with (zeros 4 ++ zeros 8).
  frontier.
  rewrite Header_marshal_spec by lia. cbn [bind].
  rewrite <- !app_assoc. rewrite copy_at_head' by reflexivity.
  change (zeros (8 - N.of_nat 4 - N.of_nat 4)) with (@nil byte).
  rewrite <- (app_nil_r (be 4 (rrr_media p))) at 2. rewrite frame_fb. reflexivity.
Qed.

Lemma D_RRR_inv p : D_RRR p = true -> fits 32 (rrr_sender p) = true /\ fits 32 (rrr_media p) = true.
Proof. unfold D_RRR. intros H. apply andb_true_iff in H. exact H. Qed.

Lemma enc_RRR_fb p : enc_RRR p = fb 5 205 2 (rrr_sender p) (rrr_media p) [].
Proof. unfold enc_RRR. rewrite <- (app_nil_r (be 4 (rrr_media p))). rewrite frame_fb. reflexivity. Qed.

Lemma RRR_unmarshal_enc p : D_RRR p = true -> RRR_unmarshal (enc_RRR p) = Ok p.
Proof.
  intros H. apply D_RRR_inv in H as [Hs Hm]. rewrite enc_RRR_fb.
  unfold RRR_unmarshal. consts. rewrite len_fb, len_nil.
  destruct (N.ltb_spec (12 + 0) (4 + 4 * 2)) as [A|_]; [lia|].
  rewrite fb_header by lia. cbn [bind h_type h_count].
  change (negb (205 =? 205) || negb (5 =? 5)) with false. cbv iota.
  rewrite fb_sender by exact Hs. cbn [bind].
  change (4 + 4) with 8. rewrite fb_media by exact Hm. cbn [bind].
  destruct p; reflexivity.
Qed.

Lemma RRR_size_spec p : D_RRR p = true -> len (enc_RRR p) = RRR_size p /\ len (enc_RRR p) mod 4 = 0.
Proof. intros _. rewrite enc_RRR_fb, len_fb, len_nil. unfold RRR_size. consts. split; reflexivity. Qed.

Lemma RRR_enc_header p : D_RRR p = true ->
  Header_unmarshal (enc_RRR p) = Ok (mkHeader false 5 205 (RRR_size p / 4 - 1)).
Proof. intros _. rewrite enc_RRR_fb. unfold RRR_size. consts. change ((4 + 8) / 4 - 1) with 2. apply fb_header; lia. Qed.

Lemma RRR_wrong_type b h : Header_unmarshal b = Ok h -> (h_type h, h_count h) <> (205, 5) -> RRR_unmarshal b = Err.
Proof.
  intros Hh Hne. unfold RRR_unmarshal. consts.
  destruct (len b <? 4 + 4 * 2); [reflexivity|]. rewrite Hh. cbn [bind].
  destruct (N.eqb_spec (h_type h) 205) as [Et|Et]; [|reflexivity].
  destruct (N.eqb_spec (h_count h) 5) as [Ec|Ec]; [|reflexivity].
  exfalso. apply Hne. rewrite Et, Ec. reflexivity.
Qed.

(* ---------- NACK (RFC 4585 6.2.1) ---------- *)
Definition enc_pair (q : NackPair) : bytes := be 2 (np_id q) ++ be 2 (np_bm q).
Definition D_pair (q : NackPair) : bool := fits 16 (np_id q) && fits 16 (np_bm q).

Lemma len_enc_pair q : len (enc_pair q) = 4.
Proof. unfold enc_pair. rewrite len_app, !len_be. reflexivity. Qed.

Lemma D_NACK_inv p : D_NACK p = true ->
  fits 32 (nack_sender p) = true /\ fits 32 (nack_media p) = true /\ 1 <= nl (nack_pairs p) /\ nl (nack_pairs p) <= 253
  /\ forallb D_pair (nack_pairs p) = true.
Proof.
  unfold D_NACK. intros H. repeat (apply andb_true_iff in H as [H ?]).
  repeat split; try assumption; lia.
Qed.

Lemma enc_NACK_fb p :
  enc_NACK p = fb 1 205 ((12 + 4 * nl (nack_pairs p)) / 4 - 1) (nack_sender p) (nack_media p) (List.concat (map enc_pair (nack_pairs p))).
Proof.
  unfold enc_NACK. fold enc_pair. rewrite frame_fb. rewrite (len_concat_const enc_pair 4) by apply len_enc_pair. reflexivity.
Qed.

Lemma NACK_marshal_spec p : D_NACK p = true -> NACK_marshal p = Ok (enc_NACK p).
Proof.
  intros H. apply D_NACK_inv in H as (_ & _ & _ & Hn & _).
  rewrite enc_NACK_fb. unfold NACK_marshal, NACK_header, NACK_size, nlen, nl in *. consts.
  destruct (N.ltb_spec 255 (N.of_nat (length (nack_pairs p)) + 2)) as [A|_]; [lia|].
  set (n := N.of_nat (length (nack_pairs p))) in *.
  replace (u16 ((4 + 8 + n * 4) / 4 - 1)) with ((12 + 4 * n) / 4 - 1) by (unfold u16; lia).
  rewrite Header_marshal_spec by lia. cbn [bind]. reflexivity.
Qed.

Lemma NACK_marshal_limit p : 253 < nl (nack_pairs p) -> NACK_marshal p = Err.
Proof.
  unfold nl. intros H. unfold NACK_marshal, nlen. consts.
  destruct (N.ltb_spec 255 (N.of_nat (length (nack_pairs p)) + 2)) as [_|A]; [reflexivity|lia].
Qed.

Lemma nack_read_enc ps : forall pre fuel, forallb D_pair ps = true -> (length ps < fuel)%nat ->
  nack_read fuel (pre ++ List.concat (map enc_pair ps)) (len pre) (len pre + 4 * nl ps) = Ok ps.
Proof.
  unfold nl. induction ps as [|q ps IH]; intros pre fuel Hd Hf.
  - destruct fuel as [|f]; [cbn [length] in Hf; lia|]. cbn [nack_read length].
    destruct (N.ltb_spec (len pre) (len pre + 4 * N.of_nat 0)) as [A|_]; [lia|reflexivity].
  - destruct fuel as [|f]; [lia|]. cbn [length] in Hf.
    cbn [forallb] in Hd. apply andb_true_iff in Hd as [Hq Hd]. unfold D_pair in Hq. apply andb_true_iff in Hq as [Hi Hb].
    cbn [map List.concat]. unfold enc_pair at 1. rewrite <- !app_assoc. cbn [nack_read length].
    destruct (N.ltb_spec (len pre) (len pre + 4 * N.of_nat (S (length ps)))) as [_|A]; [|lia].
    rewrite get_be_at_app by (first [reflexivity | apply fits16_be; exact Hi]). cbn [bind].
    rewrite (app_assoc pre (be 2 (np_id q))).
    rewrite get_be_at_app by (first [rewrite len_app, len_be; reflexivity | apply fits16_be; exact Hb]). cbn [bind].
    rewrite (app_assoc _ (be 2 (np_bm q))).
    replace (len pre + 4) with (len ((pre ++ be 2 (np_id q)) ++ be 2 (np_bm q))) by (rewrite !len_app, !len_be; lia).
    replace (len pre + 4 * N.of_nat (S (length ps)))
      with (len ((pre ++ be 2 (np_id q)) ++ be 2 (np_bm q)) + 4 * N.of_nat (length ps)) by (rewrite !len_app, !len_be; lia).
    rewrite IH by (first [exact Hd | lia]). cbn [bind]. destruct q; reflexivity.
Qed.

Lemma NACK_unmarshal_enc p : D_NACK p = true -> NACK_unmarshal (enc_NACK p) = Ok p.
Proof.
  intros H. apply D_NACK_inv in H as (Hs & Hm & Hn1 & Hn & Hd).
  rewrite enc_NACK_fb. unfold NACK_unmarshal. consts.
  rewrite len_fb, (len_concat_const enc_pair 4) by apply len_enc_pair.
  set (n := nl (nack_pairs p)) in *.
  destruct (N.ltb_spec (12 + 4 * n) (4 + 4)) as [A|_]; [lia|].
  rewrite fb_header by lia. cbn [bind h_type h_count h_len].
  replace (u16 (4 * ((12 + 4 * n) / 4 - 1))) with (8 + 4 * n) by (unfold u16; lia).
  destruct (N.ltb_spec (12 + 4 * n) (4 + (8 + 4 * n))) as [A|_]; [lia|].
  change (negb (205 =? 205) || negb (1 =? 1)) with false. cbv iota.
  destruct (N.leb_spec (8 + 4 * n) 8) as [A|_]; [lia|].
  rewrite fb_sender by exact Hs. cbn [bind].
  change (4 + 4) with 8. rewrite fb_media by exact Hm. cbn [bind].
  unfold fb. rewrite (app_assoc (hdr _ _ _ _)), (app_assoc (_ ++ _) (be 4 (nack_media p))).
  set (pre := (hdr false 1 205 ((12 + 4 * n) / 4 - 1) ++ be 4 (nack_sender p)) ++ be 4 (nack_media p)).
  assert (Hpre : len pre = 12) by (unfold pre; rewrite !len_app, !len_be, len_hdr; reflexivity).
  replace (4 + 8) with (len pre) by exact Hpre.
  replace (4 + (8 + 4 * n)) with (len pre + 4 * nl (nack_pairs p)) by (rewrite Hpre; fold n; lia).
  rewrite nack_read_enc.
  - cbn [bind]. destruct p; reflexivity.
  - exact Hd.
  - pose proof (len_concat_const enc_pair 4 (nack_pairs p) len_enc_pair) as Hc. unfold len, nl in Hc.
    rewrite app_length. lia.
Qed.

Lemma NACK_size_spec p : D_NACK p = true -> len (enc_NACK p) = NACK_size p /\ len (enc_NACK p) mod 4 = 0.
Proof.
  intros _. rewrite enc_NACK_fb, len_fb, (len_concat_const enc_pair 4) by apply len_enc_pair.
  unfold NACK_size, nlen, nl. consts. split; lia.
Qed.

Lemma NACK_enc_header p : D_NACK p = true ->
  Header_unmarshal (enc_NACK p) = Ok (mkHeader false 1 205 (NACK_size p / 4 - 1)).
Proof.
  intros H. apply D_NACK_inv in H as (_ & _ & _ & Hn & _). rewrite enc_NACK_fb.
  unfold NACK_size, nlen, nl in *. consts.
  replace ((4 + 8 + N.of_nat (length (nack_pairs p)) * 4) / 4 - 1) with ((12 + 4 * N.of_nat (length (nack_pairs p))) / 4 - 1) by lia.
  apply fb_header; lia.
Qed.

Lemma NACK_wrong_type b h : Header_unmarshal b = Ok h -> (h_type h, h_count h) <> (205, 1) -> NACK_unmarshal b = Err.
Proof.
  intros Hh Hne. unfold NACK_unmarshal. consts.
  destruct (len b <? 4 + 4); [reflexivity|]. rewrite Hh. cbn [bind].
  destruct (len b <? 4 + u16 (4 * h_len h)); [reflexivity|].
  destruct (N.eqb_spec (h_type h) 205) as [Et|Et]; [|reflexivity].
  destruct (N.eqb_spec (h_count h) 1) as [Ec|Ec]; [|reflexivity].
  exfalso. apply Hne. rewrite Et, Ec. reflexivity.
Qed.

(* ---------- FIR (RFC 5104 4.3.1) ---------- *)
Definition enc_fir (e : FIREntry) : bytes := be 4 (fir_ssrc e) ++ [n2b (fir_seq e); x00; x00; x00].
Definition D_fir (e : FIREntry) : bool := fits 32 (fir_ssrc e) && fits 8 (fir_seq e).

Lemma len_enc_fir e : len (enc_fir e) = 8.
Proof. unfold enc_fir. rewrite len_app, !len_be. reflexivity. Qed.

Lemma D_FIR_inv p : D_FIR p = true ->
  fits 32 (fir_sender p) = true /\ fits 32 (fir_media p) = true /\ 1 <= nl (fir_entries p) /\ nl (fir_entries p) <= 8000
  /\ forallb D_fir (fir_entries p) = true.
Proof.
  unfold D_FIR. intros H. repeat (apply andb_true_iff in H as [H ?]).
  repeat split; try assumption; lia.
Qed.

Lemma enc_FIR_fb p :
  enc_FIR p = fb 4 206 ((12 + 8 * nl (fir_entries p)) / 4 - 1) (fir_sender p) (fir_media p) (List.concat (map enc_fir (fir_entries p))).
Proof.
  unfold enc_FIR.
  change (fun e : FIREntry => be 4 (fir_ssrc e) ++ be 1 (fir_seq e) ++ be 3 0) with enc_fir.
  rewrite frame_fb. rewrite (len_concat_const enc_fir 8) by apply len_enc_fir. reflexivity.
Qed.

Lemma FIR_marshal_spec p : D_FIR p = true -> FIR_marshal p = Ok (enc_FIR p).
Proof.
  intros H. apply D_FIR_inv in H as (_ & _ & _ & Hn & _).
  rewrite enc_FIR_fb. unfold FIR_marshal, FIR_header, FIR_size, nlen, nl in *. consts. fold enc_fir.
  set (n := N.of_nat (length (fir_entries p))) in *.
  replace (u16 ((4 + 8 + n * 8) / 4 - 1)) with ((12 + 8 * n) / 4 - 1) by (unfold u16; lia).
  rewrite Header_marshal_spec by lia. cbn [bind]. reflexivity.
Qed.

Lemma fir_step pre s q rest : s < 256 ^ N.of_nat 4 ->
  get_be_at 4 (pre ++ (be 4 s ++ [q; x00; x00; x00]) ++ rest) (len pre) = Ok s /\
  idx (pre ++ (be 4 s ++ [q; x00; x00; x00]) ++ rest) (len pre + 4) = Ok q.
Proof.
  intros Hs. rewrite <- app_assoc. split.
  - apply get_be_at_app; [reflexivity | exact Hs].
  - rewrite (app_assoc pre). cbn [app]. apply idx_app. rewrite len_app, len_be. reflexivity.
Qed.

Lemma fir_read_enc es : forall pre fuel, forallb D_fir es = true -> (length es < fuel)%nat ->
  fir_read fuel (pre ++ List.concat (map enc_fir es)) (len pre) (len pre + 8 * nl es) = Ok es.
Proof.
  unfold nl. induction es as [|e es IH]; intros pre fuel Hd Hf.
  - destruct fuel as [|f]; [cbn [length] in Hf; lia|]. cbn [fir_read length].
    destruct (N.ltb_spec (len pre) (len pre + 8 * N.of_nat 0)) as [A|_]; [lia|reflexivity].
  - destruct fuel as [|f]; [lia|]. cbn [length] in Hf.
    cbn [forallb] in Hd. apply andb_true_iff in Hd as [He Hd]. unfold D_fir in He. apply andb_true_iff in He as [Hs Hq].
    cbn [map List.concat]. unfold enc_fir at 1. cbn [fir_read length].
    destruct (N.ltb_spec (len pre) (len pre + 8 * N.of_nat (S (length es)))) as [_|A]; [|lia].
    destruct (fir_step pre (fir_ssrc e) (n2b (fir_seq e)) (List.concat (map enc_fir es)) (fits32_be _ Hs)) as [E1 E2].
    rewrite E1. cbn [bind]. rewrite E2. cbn [bind].
    rewrite (app_assoc pre).
    set (pre' := pre ++ be 4 (fir_ssrc e) ++ [n2b (fir_seq e); x00; x00; x00]).
    assert (Hpre : len pre' = len pre + 8) by (unfold pre'; rewrite !len_app, len_be; reflexivity).
    rewrite <- Hpre.
    replace (len pre + 8 * N.of_nat (S (length es))) with (len pre' + 8 * N.of_nat (length es)) by lia.
    rewrite IH by (first [exact Hd | lia]). cbn [bind].
    rewrite b2n_n2b. apply fits8_lt in Hq. rewrite N.mod_small by exact Hq. destruct e; reflexivity.
Qed.

Lemma FIR_unmarshal_enc p : D_FIR p = true -> FIR_unmarshal (enc_FIR p) = Ok p.
Proof.
  intros H. apply D_FIR_inv in H as (Hs & Hm & Hn1 & Hn & Hd).
  rewrite enc_FIR_fb. unfold FIR_unmarshal. consts.
  rewrite len_fb, (len_concat_const enc_fir 8) by apply len_enc_fir.
  set (n := nl (fir_entries p)) in *.
  destruct (N.ltb_spec (12 + 8 * n) (4 + 8)) as [A|_]; [lia|].
  rewrite fb_header by lia. cbn [bind h_type h_count h_len].
  replace (u16 (4 * ((12 + 8 * n) / 4 - 1))) with (8 + 8 * n) by (unfold u16; lia).
  destruct (N.ltb_spec (12 + 8 * n) (4 + (8 + 8 * n))) as [A|_]; [lia|].
  change (negb (206 =? 206) || negb (4 =? 4)) with false. cbv iota.
  replace (sub16 (8 + 8 * n) 8) with (8 * n) by (unfold sub16; lia).
  destruct (N.leb_spec (8 * n) 0) as [A|_]; [lia|].
  destruct (N.eqb_spec ((8 + 8 * n) mod 8) 0) as [_|A]; [|lia].
  cbn [orb negb].
  rewrite fb_sender by exact Hs. cbn [bind].
  change (4 + 4) with 8. rewrite fb_media by exact Hm. cbn [bind].
  unfold fb. rewrite (app_assoc (hdr _ _ _ _)), (app_assoc (_ ++ _) (be 4 (fir_media p))).
  set (pre := (hdr false 4 206 ((12 + 8 * n) / 4 - 1) ++ be 4 (fir_sender p)) ++ be 4 (fir_media p)).
  assert (Hpre : len pre = 12) by (unfold pre; rewrite !len_app, !len_be, len_hdr; reflexivity).
  replace (4 + 8) with (len pre) by exact Hpre.
  replace (4 + (8 + 8 * n)) with (len pre + 8 * nl (fir_entries p)) by (rewrite Hpre; fold n; lia).
  rewrite fir_read_enc.
  - cbn [bind]. destruct p; reflexivity.
  - exact Hd.
  - pose proof (len_concat_const enc_fir 8 (fir_entries p) len_enc_fir) as Hc. unfold len, nl in Hc.
    rewrite app_length. lia.
Qed.

Lemma FIR_size_spec p : D_FIR p = true -> len (enc_FIR p) = FIR_size p /\ len (enc_FIR p) mod 4 = 0.
Proof.
  intros _. rewrite enc_FIR_fb, len_fb, (len_concat_const enc_fir 8) by apply len_enc_fir.
  unfold FIR_size, nlen, nl. consts. split; lia.
Qed.

Lemma FIR_enc_header p : D_FIR p = true ->
  Header_unmarshal (enc_FIR p) = Ok (mkHeader false 4 206 (FIR_size p / 4 - 1)).
Proof.
  intros H. apply D_FIR_inv in H as (_ & _ & _ & Hn & _). rewrite enc_FIR_fb.
  unfold FIR_size, nlen, nl in *. consts.
  replace ((4 + 8 + N.of_nat (length (fir_entries p)) * 8) / 4 - 1) with ((12 + 8 * N.of_nat (length (fir_entries p))) / 4 - 1) by lia.
  apply fb_header; lia.
Qed.

Lemma FIR_wrong_type b h : Header_unmarshal b = Ok h -> (h_type h, h_count h) <> (206, 4) -> FIR_unmarshal b = Err.
Proof.
  intros Hh Hne. unfold FIR_unmarshal. consts.
  destruct (len b <? 4 + 8); [reflexivity|]. rewrite Hh. cbn [bind].
  destruct (len b <? 4 + u16 (4 * h_len h)); [reflexivity|].
  destruct (N.eqb_spec (h_type h) 206) as [Et|Et]; [|reflexivity].
  destruct (N.eqb_spec (h_count h) 4) as [Ec|Ec]; [|reflexivity].
  exfalso. apply Hne. rewrite Et, Ec. reflexivity.
Qed.

(* ---------- SLI (RFC 4585 6.3.2) -- finding F5: pion writes and expects PT 205 (RTPFB), the RFC says 206 (PSFB) ---------- *)
Definition D_slie (e : SLIEntry) : bool := fits 13 (sli_first e) && fits 13 (sli_number e) && fits 6 (sli_picture e).
Definition sli_ref_word (e : SLIEntry) : N := sli_first e * 2 ^ 19 + sli_number e * 2 ^ 6 + sli_picture e.
Definition enc_slie (e : SLIEntry) : bytes := be 4 (sli_word e).

(* what pion emits and accepts: the RFC body under packet type 205 *)
Definition enc_SLI_pion (p : SLI) : bytes :=
  frame false 2 205 (be 4 (sli_sender p) ++ be 4 (sli_media p)
                     ++ List.concat (map (fun e => be 4 (sli_first e * 2 ^ 19 + sli_number e * 2 ^ 6 + sli_picture e)) (sli_entries p))).

Lemma D_slie_inv e : D_slie e = true -> sli_first e < 8192 /\ sli_number e < 8192 /\ sli_picture e < 64.
Proof.
  unfold D_slie. intros H. apply andb_true_iff in H as [H Hp]. apply andb_true_iff in H as [Hf Hn].
  apply fits13_lt in Hf, Hn. apply fits6_lt in Hp. auto.
Qed.

(* the bit-field word: First (13 bits) | Number (13 bits) | PictureID (6 bits) *)
Lemma sli_word_spec e : D_slie e = true ->
  sli_word e = sli_first e * 2 ^ 19 + sli_number e * 2 ^ 6 + sli_picture e.
Proof.
  intros H. apply D_slie_inv in H as (Hf & Hn & Hp). unfold sli_word.
  change 8191 with (N.ones 13). change 63 with (N.ones 6). rewrite !N.land_ones.
  change (2 ^ 13) with 8192. change (2 ^ 6) with 64. change (2 ^ 19) with 524288.
  rewrite !N.mod_small by assumption.
  replace (u32 (sli_first e * 524288)) with (sli_first e * 524288) by (unfold u32; lia).
  replace (u32 (sli_number e * 64)) with (sli_number e * 64) by (unfold u32; lia).
  rewrite (lor_disjoint_add (sli_first e * 524288) (sli_number e * 64) 19)
    by (change (2 ^ 19) with 524288; lia).
  rewrite (lor_disjoint_add (sli_first e * 524288 + sli_number e * 64) (sli_picture e) 6)
    by (change (2 ^ 6) with 64; lia).
  reflexivity.
Qed.

Lemma sli_word_lt e : D_slie e = true -> sli_word e < 4294967296.
Proof.
  intros H. rewrite sli_word_spec by exact H. apply D_slie_inv in H as (Hf & Hn & Hp).
  change (2 ^ 6) with 64. change (2 ^ 19) with 524288. lia.
Qed.

Lemma sli_of_word_word e : D_slie e = true -> sli_of_word (sli_word e) = e.
Proof.
  intros H. rewrite sli_word_spec by exact H. apply D_slie_inv in H as (Hf & Hn & Hp).
  unfold sli_of_word. change 8191 with (N.ones 13). change 63 with (N.ones 6). rewrite !N.land_ones.
  change (2 ^ 13) with 8192. change (2 ^ 6) with 64. change (2 ^ 19) with 524288.
  destruct e as [f n q]. cbn [sli_first sli_number sli_picture] in *.
  unfold u16, u8. f_equal; lia.
Qed.

Lemma len_enc_slie e : len (enc_slie e) = 4.
Proof. unfold enc_slie. rewrite len_be. reflexivity. Qed.

Lemma D_SLI_inv p : D_SLI p = true ->
  fits 32 (sli_sender p) = true /\ fits 32 (sli_media p) = true /\ nl (sli_entries p) <= 253
  /\ forallb D_slie (sli_entries p) = true.
Proof.
  unfold D_SLI. intros H. repeat (apply andb_true_iff in H as [H ?]).
  repeat split; try assumption; lia.
Qed.

Lemma sli_body_eq es : forallb D_slie es = true ->
  map (fun e => be 4 (sli_first e * 2 ^ 19 + sli_number e * 2 ^ 6 + sli_picture e)) es = map enc_slie es.
Proof.
  intros H. apply map_ext_in. intros e He. unfold enc_slie.
  rewrite forallb_forall in H. rewrite sli_word_spec by (apply H; exact He). reflexivity.
Qed.

Lemma enc_SLI_pion_fb p : D_SLI p = true ->
  enc_SLI_pion p = fb 2 205 ((12 + 4 * nl (sli_entries p)) / 4 - 1) (sli_sender p) (sli_media p) (List.concat (map enc_slie (sli_entries p))).
Proof.
  intros H. apply D_SLI_inv in H as (_ & _ & _ & Hd). unfold enc_SLI_pion.
  rewrite sli_body_eq by exact Hd.
  rewrite frame_fb. rewrite (len_concat_const enc_slie 4) by apply len_enc_slie. reflexivity.
Qed.

Lemma enc_SLI_fb p : D_SLI p = true ->
  enc_SLI p = fb 2 206 ((12 + 4 * nl (sli_entries p)) / 4 - 1) (sli_sender p) (sli_media p) (List.concat (map enc_slie (sli_entries p))).
Proof.
  intros H. apply D_SLI_inv in H as (_ & _ & _ & Hd). unfold enc_SLI.
  rewrite sli_body_eq by exact Hd.
  rewrite frame_fb. rewrite (len_concat_const enc_slie 4) by apply len_enc_slie. reflexivity.
Qed.

Lemma SLI_marshal_pion p : D_SLI p = true -> SLI_marshal p = Ok (enc_SLI_pion p).
Proof.
  intros H. rewrite enc_SLI_pion_fb by exact H. apply D_SLI_inv in H as (_ & _ & Hn & _).
  unfold SLI_marshal, SLI_header, SLI_size, nlen, nl in *. consts. fold enc_slie.
  set (n := N.of_nat (length (sli_entries p))) in *.
  destruct (N.ltb_spec 255 (n + 2)) as [A|_]; [lia|].
  replace (u16 ((4 + 8 + n * 4) / 4 - 1)) with ((12 + 4 * n) / 4 - 1) by (unfold u16; lia).
  rewrite Header_marshal_spec by lia. cbn [bind]. reflexivity.
Qed.

Lemma SLI_marshal_limit p : 253 < nl (sli_entries p) -> SLI_marshal p = Err.
Proof.
  unfold nl. intros H. unfold SLI_marshal, nlen. consts.
  destruct (N.ltb_spec 255 (N.of_nat (length (sli_entries p)) + 2)) as [_|A]; [reflexivity|lia].
Qed.

Lemma sli_read_enc es : forall pre fuel, forallb D_slie es = true -> (length es < fuel)%nat ->
  sli_read fuel (pre ++ List.concat (map enc_slie es)) (len pre) (len pre + 4 * nl es) = Ok es.
Proof.
  unfold nl. induction es as [|e es IH]; intros pre fuel Hd Hf.
  - destruct fuel as [|f]; [cbn [length] in Hf; lia|]. cbn [sli_read length].
    destruct (N.ltb_spec (len pre) (len pre + 4 * N.of_nat 0)) as [A|_]; [lia|reflexivity].
  - destruct fuel as [|f]; [lia|]. cbn [length] in Hf.
    cbn [forallb] in Hd. apply andb_true_iff in Hd as [He Hd].
    cbn [map List.concat]. unfold enc_slie at 1. cbn [sli_read length].
    destruct (N.ltb_spec (len pre) (len pre + 4 * N.of_nat (S (length es)))) as [_|A]; [|lia].
    rewrite get_be_at_app by (first [reflexivity | apply (sli_word_lt e He)]). cbn [bind].
    rewrite (app_assoc pre).
    replace (len pre + 4) with (len (pre ++ be 4 (sli_word e))) by (rewrite len_app, len_be; lia).
    replace (len pre + 4 * N.of_nat (S (length es)))
      with (len (pre ++ be 4 (sli_word e)) + 4 * N.of_nat (length es)) by (rewrite len_app, len_be; lia).
    rewrite IH by (first [exact Hd | lia]). cbn [bind].
    rewrite sli_of_word_word by exact He. reflexivity.
Qed.

Lemma SLI_unmarshal_pion p : D_SLI p = true -> SLI_unmarshal (enc_SLI_pion p) = Ok p.
Proof.
  intros H. rewrite enc_SLI_pion_fb by exact H. apply D_SLI_inv in H as (Hs & Hm & Hn & Hd).
  unfold SLI_unmarshal. consts.
  rewrite len_fb, (len_concat_const enc_slie 4) by apply len_enc_slie.
  set (n := nl (sli_entries p)) in *.
  destruct (N.ltb_spec (12 + 4 * n) (4 + 8)) as [A|_]; [lia|].
  rewrite fb_header by lia. cbn [bind h_type h_count h_len].
  replace (u16 (4 * ((12 + 4 * n) / 4 - 1))) with (8 + 4 * n) by (unfold u16; lia).
  destruct (N.ltb_spec (12 + 4 * n) (4 + (8 + 4 * n))) as [A|_]; [lia|].
  change (negb (205 =? 205) || negb (2 =? 2)) with false. cbv iota.
  rewrite fb_sender by exact Hs. cbn [bind].
  change (4 + 4) with 8. rewrite fb_media by exact Hm. cbn [bind].
  unfold fb. rewrite (app_assoc (hdr _ _ _ _)), (app_assoc (_ ++ _) (be 4 (sli_media p))).
  set (pre := (hdr false 2 205 ((12 + 4 * n) / 4 - 1) ++ be 4 (sli_sender p)) ++ be 4 (sli_media p)).
  assert (Hpre : len pre = 12) by (unfold pre; rewrite !len_app, !len_be, len_hdr; reflexivity).
  replace (4 + 8) with (len pre) by exact Hpre.
  replace (4 + (8 + 4 * n)) with (len pre + 4 * nl (sli_entries p)) by (rewrite Hpre; fold n; lia).
  rewrite sli_read_enc.
  - cbn [bind]. destruct p; reflexivity.
  - exact Hd.
  - pose proof (len_concat_const enc_slie 4 (sli_entries p) len_enc_slie) as Hc. unfold len, nl in Hc.
    rewrite app_length. lia.
Qed.

Lemma SLI_size_pion p : D_SLI p = true -> len (enc_SLI_pion p) = SLI_size p /\ len (enc_SLI_pion p) mod 4 = 0.
Proof.
  intros H. rewrite enc_SLI_pion_fb by exact H. rewrite len_fb, (len_concat_const enc_slie 4) by apply len_enc_slie.
  unfold SLI_size, nlen, nl. consts. split; lia.
Qed.

(* the RFC encoding has the same size *)
Lemma SLI_size_spec p : D_SLI p = true -> len (enc_SLI p) = SLI_size p /\ len (enc_SLI p) mod 4 = 0.
Proof.
  intros H. rewrite enc_SLI_fb by exact H. rewrite len_fb, (len_concat_const enc_slie 4) by apply len_enc_slie.
  unfold SLI_size, nlen, nl. consts. split; lia.
Qed.

Lemma SLI_pion_header p : D_SLI p = true ->
  Header_unmarshal (enc_SLI_pion p) = Ok (mkHeader false 2 205 (SLI_size p / 4 - 1)).
Proof.
  intros H. rewrite enc_SLI_pion_fb by exact H. apply D_SLI_inv in H as (_ & _ & Hn & _).
  unfold SLI_size, nlen, nl in *. consts.
  replace ((4 + 8 + N.of_nat (length (sli_entries p)) * 4) / 4 - 1) with ((12 + 4 * N.of_nat (length (sli_entries p))) / 4 - 1) by lia.
  apply fb_header; lia.
Qed.

Lemma SLI_enc_header p : D_SLI p = true ->
  Header_unmarshal (enc_SLI p) = Ok (mkHeader false 2 206 (SLI_size p / 4 - 1)).
Proof.
  intros H. rewrite enc_SLI_fb by exact H. apply D_SLI_inv in H as (_ & _ & Hn & _).
  unfold SLI_size, nlen, nl in *. consts.
  replace ((4 + 8 + N.of_nat (length (sli_entries p)) * 4) / 4 - 1) with ((12 + 4 * N.of_nat (length (sli_entries p))) / 4 - 1) by lia.
  apply fb_header; lia.
Qed.

(* the guard as implemented: type 205 (not the RFC's 206), format 2 *)
Lemma SLI_wrong_type b h : Header_unmarshal b = Ok h -> (h_type h, h_count h) <> (205, 2) -> SLI_unmarshal b = Err.
Proof.
  intros Hh Hne. unfold SLI_unmarshal. consts.
  destruct (len b <? 4 + 8); [reflexivity|]. rewrite Hh. cbn [bind].
  destruct (len b <? 4 + u16 (4 * h_len h)); [reflexivity|].
  destruct (N.eqb_spec (h_type h) 205) as [Et|Et]; [|reflexivity].
  destruct (N.eqb_spec (h_count h) 2) as [Ec|Ec]; [|reflexivity].
  exfalso. apply Hne. rewrite Et, Ec. reflexivity.
Qed.

(* F5, universally: every RFC 4585 SLI packet is rejected, and Marshal never produces one *)
Lemma SLI_rejects_rfc_encoding_all p : D_SLI p = true -> SLI_unmarshal (enc_SLI p) = Err.
Proof.
  intros H. eapply SLI_wrong_type; [apply SLI_enc_header; exact H|].
  cbn [h_type h_count]. intros E. discriminate E.
Qed.

Lemma SLI_marshal_never_rfc p : D_SLI p = true -> SLI_marshal p <> Ok (enc_SLI p).
Proof.
  intros H. rewrite SLI_marshal_pion by exact H. rewrite enc_SLI_pion_fb, enc_SLI_fb by exact H.
  unfold fb, hdr. cbn [app]. intros E. injection E as E1. apply (f_equal b2n) in E1. vm_compute in E1. discriminate E1.
Qed.

Definition sli_example : SLI := mkSLI 1 2 [mkSLIEntry 3 4 5].

Lemma SLI_marshal_spec_refuted : exists p, D_SLI p = true /\ SLI_marshal p <> Ok (enc_SLI p).
Proof. exists sli_example. split; [reflexivity | apply SLI_marshal_never_rfc; reflexivity]. Qed.

Lemma SLI_rejects_rfc_encoding : exists p, D_SLI p = true /\ SLI_unmarshal (enc_SLI p) = Err.
Proof. exists sli_example. split; vm_compute; reflexivity. Qed.

(* ---------- axioms check ---------- *)
Print Assumptions PLI_marshal_spec.
Print Assumptions PLI_unmarshal_enc.
Print Assumptions PLI_size_spec.
Print Assumptions PLI_enc_header.
Print Assumptions PLI_wrong_type.
Print Assumptions RRR_marshal_spec.
Print Assumptions RRR_unmarshal_enc.
Print Assumptions RRR_size_spec.
Print Assumptions RRR_enc_header.
Print Assumptions RRR_wrong_type.
Print Assumptions NACK_marshal_spec.
Print Assumptions NACK_unmarshal_enc.
Print Assumptions NACK_size_spec.
Print Assumptions NACK_enc_header.
Print Assumptions NACK_wrong_type.
Print Assumptions NACK_marshal_limit.
Print Assumptions FIR_marshal_spec.
Print Assumptions FIR_unmarshal_enc.
Print Assumptions FIR_size_spec.
Print Assumptions FIR_enc_header.
Print Assumptions FIR_wrong_type.
Print Assumptions sli_word_spec.
Print Assumptions sli_of_word_word.
Print Assumptions SLI_marshal_pion.
Print Assumptions SLI_unmarshal_pion.
Print Assumptions SLI_size_pion.
Print Assumptions SLI_size_spec.
Print Assumptions SLI_pion_header.
Print Assumptions SLI_enc_header.
Print Assumptions SLI_wrong_type.
Print Assumptions SLI_marshal_limit.
Print Assumptions SLI_rejects_rfc_encoding_all.
Print Assumptions SLI_marshal_never_rfc.
Print Assumptions SLI_marshal_spec_refuted.
Print Assumptions SLI_rejects_rfc_encoding.
