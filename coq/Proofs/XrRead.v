(* C15 / C02 / C04 for ExtendedReport, decoding direction: the reflection reader applied to the RFC 3611
   layout of a typed block gives the typed block back, for every block kind (known and unknown), also when
   the reserved bits of the encoding are not zero; whole packets round trip. *)
From RTCP Require Import Proofs.Tactics Proofs.HeaderProofs Lib.Reflect Gen.Layouts Model.Header Model.Xr Spec.Enc Spec.XrSpec Proofs.EncXr.
From Coq Require Import String.
Local Open Scope N_scope.

(* ------------------------------------------------------------------------------------------------ *)
(* "the octets o read back as v": with a continuation (fixed-size types), or consuming the window     *)
(* ------------------------------------------------------------------------------------------------ *)
Definition R (t : ty) (o : bytes) (v : val) : Prop := forall rest, read t (o ++ rest) = Ok (v, rest).
Definition Rfin (t : ty) (o : bytes) (v : val) : Prop := read t o = Ok (v, []).
Definition RFfin (fs : list field) (o : bytes) (vs : list val) : Prop := read_fields fs o = Ok (vs, []).

Lemma R_fin t o v : R t o v -> Rfin t o v.
Proof. intros H. unfold Rfin. rewrite <- (app_nil_r o). apply H. Qed.

Lemma Rfin_eq t o o' v : Rfin t o v -> o = o' -> Rfin t o' v.
Proof. intros H <-. exact H. Qed.

Lemma R_scalar t k n : scalar_size t = Some k -> n < 256 ^ N.of_nat k -> R t (be k n) (VU n).
Proof.
  intros Hk Hn rest. rewrite (read_scalar t k) by (auto; rewrite len_app, len_be; lia).
  rewrite firstn_app, be_length, Nat.sub_diag, firstn_O, app_nil_r, firstn_all2 by (rewrite be_length; lia).
  rewrite skipn_app, be_length, Nat.sub_diag, skipn_all2 by (rewrite be_length; lia). cbn [skipn app].
  rewrite unbe_be by exact Hn. reflexivity.
Qed.

Lemma fits_256 k n : fits (8 * N.of_nat k) n = true -> n < 256 ^ N.of_nat k.
Proof.
  unfold fits. intros H. apply N.ltb_lt in H. rewrite N.pow_mul_r in H. change (2 ^ 8) with 256 in H. exact H.
Qed.

Lemma R_scalar_fits t k n : scalar_size t = Some k -> fits (8 * N.of_nat k) n = true -> R t (be k n) (VU n).
Proof. intros Hk Hn. apply R_scalar; [exact Hk | apply fits_256, Hn]. Qed.

Lemma RFfin_nil : RFfin [] [] [].
Proof. reflexivity. Qed.

Lemma RFfin_ex n ft fs o1 o2 x vs : R ft o1 x -> RFfin fs o2 vs -> RFfin (Field n ft false true :: fs) (o1 ++ o2) (x :: vs).
Proof. intros H1 H2. unfold RFfin in *. cbn [read_fields]. rewrite H1. cbn [bind]. rewrite H2. reflexivity. Qed.

Lemma RFfin_om n ft ex fs o vs : RFfin fs o vs -> RFfin (Field n ft true ex :: fs) o (zero_of ft :: vs).
Proof. intros H. unfold RFfin in *. cbn [read_fields]. rewrite H. reflexivity. Qed.

Lemma RFfin_un n ft fs o1 o2 vs : len o1 = mem_size ft -> RFfin fs o2 vs ->
  RFfin (Field n ft false false :: fs) (o1 ++ o2) (zero_of ft :: vs).
Proof.
  intros H1 H2. unfold RFfin in *. cbn [read_fields].
  destruct (N.ltb_spec (len (o1 ++ o2)) (mem_size ft)) as [Hlt|_]; [rewrite len_app in Hlt; lia|].
  rewrite <- H1. unfold len at 1. rewrite Nat2N.id, skipn_app, Nat.sub_diag, skipn_all. cbn [skipn app].
  rewrite H2. reflexivity.
Qed.

Lemma RFfin_last n ft o x : Rfin ft o x -> RFfin [Field n ft false true] o [x].
Proof. intros H. unfold RFfin, Rfin in *. cbn [read_fields]. rewrite H. reflexivity. Qed.

Lemma Rfin_struct fs o vs : RFfin fs o vs -> Rfin (TStruct fs) o (VStruct vs).
Proof. intros H. unfold RFfin, Rfin in *. rewrite read_struct, H. reflexivity. Qed.

(* ---- trailing slices: the elements consume the window exactly ---- *)
Lemma slice_loop_app_ne e f o b : o <> [] ->
  slice_loop e (S f) (o ++ b) =
  let* (v, rest) := read e (o ++ b) in
  let* (xs, rest') := slice_loop e f rest in
  match xs with VSlice l => Ok (VSlice (v :: l), rest') | _ => Err end.
Proof. intros H. destruct o; [congruence|reflexivity]. Qed.

Section SliceR.
Context {A : Type} (e : ty) (enc : A -> bytes) (mkv : A -> val) (P : A -> Prop).
Hypothesis HR : forall a, P a -> R e (enc a) (mkv a) /\ enc a <> [].

Lemma slice_loop_R l : Forall P l -> forall fuel, (List.length l < fuel)%nat ->
  slice_loop e fuel (List.concat (map enc l)) = Ok (VSlice (map mkv l), []).
Proof.
  induction 1 as [|a l Ha _ IH]; intros fuel Hf; (destruct fuel as [|f]; [cbn [List.length] in Hf; lia|]).
  - reflexivity.
  - cbn [map List.concat]. destruct (HR a Ha) as [Ra Hne].
    rewrite slice_loop_app_ne by exact Hne. rewrite Ra. cbn [bind].
    rewrite IH by (cbn [List.length] in Hf; lia). reflexivity.
Qed.

Lemma count_le_concat l : Forall P l -> (List.length l <= List.length (List.concat (map enc l)))%nat.
Proof.
  induction 1 as [|a l Ha _ IH]; [cbn; lia|]. cbn [map List.concat List.length]. rewrite app_length.
  destruct (HR a Ha) as [_ Hne]. destruct (enc a); [congruence|]. cbn [List.length]. lia.
Qed.

Lemma Rfin_slice l : Forall P l -> Rfin (TSlice e) (List.concat (map enc l)) (VSlice (map mkv l)).
Proof.
  intros H. unfold Rfin. rewrite read_slice. apply slice_loop_R; [exact H|]. pose proof (count_le_concat l H). lia.
Qed.
End SliceR.

Lemma be_ne k x : (0 < k)%nat -> be k x <> [].
Proof. intros Hk E. apply (f_equal (@List.length byte)) in E. rewrite be_length in E. cbn [List.length] in E. lia. Qed.

Lemma Rfin_slice_scalar e k cs : scalar_size e = Some k -> (0 < k)%nat -> forallb (fits (8 * N.of_nat k)) cs = true ->
  Rfin (TSlice e) (List.concat (map (be k) cs)) (VSlice (map VU cs)).
Proof.
  intros Hk Hpos Hall. apply (Rfin_slice e (be k) VU (fun c => fits (8 * N.of_nat k) c = true)).
  - intros a Ha. split; [apply R_scalar_fits; assumption | apply be_ne, Hpos].
  - apply Forall_forall. intros c Hc. rewrite forallb_forall in Hall. apply Hall, Hc.
Qed.

(* ------------------------------------------------------------------------------------------------ *)
(* per layout: the reader on the RFC octets                                                           *)
(* ------------------------------------------------------------------------------------------------ *)
(* block header octets: BT | type-specific | length (16, big endian) *)
Definition hb (bt ts l : N) : bytes := [n2b bt; n2b ts; n2b (l / 256); n2b l].

Lemma xr_block_hb bt ts body : xr_block bt ts body = hb bt ts ((4 + len body) / 4 - 1) ++ body.
Proof. reflexivity. Qed.

Lemma R_hdr bt ts l : bt < 256 -> ts < 256 -> l < 65536 -> R rfc_XRHeader (hb bt ts l) (v_hdr bt ts l).
Proof.
  intros Hb Ht Hl rest. unfold hb. cbn [app]. change rfc_XRHeader with ly_XRHeader. rewrite read_hdr. rewrite !b2n_n2b.
  replace (bt mod 256) with bt by lia. replace (ts mod 256) with ts by lia.
  replace ((l / 256) mod 256 * 256 + l mod 256) with l by lia. reflexivity.
Qed.

Ltac R_step :=
  lazymatch goal with
  | |- RFfin [] _ _ => apply RFfin_nil
  | |- RFfin (Field _ _ true _ :: _) _ _ => eapply RFfin_om
  | |- RFfin (Field _ _ false true :: _) _ _ => eapply RFfin_ex; [eapply R_scalar_fits; [reflexivity | assumption] | ]
  | |- RFfin (Field _ _ false false :: _) _ _ => eapply RFfin_un; [reflexivity | ]
  end.

Section Reads.
Variables bt ts l : N.
Hypothesis (Hbt : bt < 256) (Hts : ts < 256) (Hl : l < 65536).

(* 4.4 *)
Lemma read_rrt ntp : fits 64 ntp = true ->
  Rfin rfc_RRT (hb bt ts l ++ be 8 ntp) (VStruct [v_hdr bt ts l; VU ntp]).
Proof.
  intros H. unfold rfc_RRT, F_hdr. apply Rfin_struct.
  eapply RFfin_ex; [apply R_hdr; assumption|].
  rewrite <- (app_nil_r (be 8 ntp)). repeat R_step.
Qed.

(* 4.1 / 4.2 *)
Lemma read_rle ssrc bs es cs : fits 32 ssrc = true -> fits 16 bs = true -> fits 16 es = true -> forallb (fits 16) cs = true ->
  Rfin rfc_RLE (hb bt ts l ++ be 4 ssrc ++ be 2 bs ++ be 2 es ++ List.concat (map (be 2) cs))
       (VStruct [v_hdr bt ts l; VU 0; VU ssrc; VU bs; VU es; VSlice (map VU cs)]).
Proof.
  intros H1 H2 H3 H4. unfold rfc_RLE, F_hdr. apply Rfin_struct.
  eapply RFfin_ex; [apply R_hdr; assumption|]. repeat R_step.
  apply RFfin_last. apply (Rfin_slice_scalar TU16 2); [reflexivity | lia | exact H4].
Qed.

(* 4.3 *)
Lemma read_prt ssrc bs es tms : fits 32 ssrc = true -> fits 16 bs = true -> fits 16 es = true -> forallb (fits 32) tms = true ->
  Rfin rfc_PRT (hb bt ts l ++ be 4 ssrc ++ be 2 bs ++ be 2 es ++ List.concat (map (be 4) tms))
       (VStruct [v_hdr bt ts l; VU 0; VU ssrc; VU bs; VU es; VSlice (map VU tms)]).
Proof.
  intros H1 H2 H3 H4. unfold rfc_PRT, F_hdr. apply Rfin_struct.
  eapply RFfin_ex; [apply R_hdr; assumption|]. repeat R_step.
  apply RFfin_last. apply (Rfin_slice_scalar TU32 4); [reflexivity | lia | exact H4].
Qed.
End Reads.

Section Reads2.
Variables bt ts l : N.
Hypothesis (Hbt : bt < 256) (Hts : ts < 256) (Hl : l < 65536).

(* 4.5 *)
Definition enc_dlrr (r : N * N * N) : bytes := let '(a, b, c) := r in be 4 a ++ be 4 b ++ be 4 c.
Definition D_dlrr (r : N * N * N) : bool := let '(a, b, c) := r in fits 32 a && fits 32 b && fits 32 c.

Lemma R_dlrr_report r : D_dlrr r = true -> R rfc_DLRRReport (enc_dlrr r) (v_dlrr r).
Proof.
  destruct r as [[a b] c]. unfold D_dlrr, enc_dlrr, v_dlrr. intros H. andb_split H.
  intros rest. unfold rfc_DLRRReport. rewrite read_struct. cbn [read_fields]. rewrite <- !app_assoc.
  rewrite (R_scalar_fits TU32 4 a) by (reflexivity || assumption). cbn [bind].
  rewrite (R_scalar_fits TU32 4 b) by (reflexivity || assumption). cbn [bind].
  rewrite (R_scalar_fits TU32 4 c) by (reflexivity || assumption). reflexivity.
Qed.

Lemma read_dlrr rs : forallb D_dlrr rs = true ->
  Rfin rfc_DLRR (hb bt ts l ++ List.concat (map enc_dlrr rs)) (VStruct [v_hdr bt ts l; VSlice (map v_dlrr rs)]).
Proof.
  intros H. unfold rfc_DLRR, F_hdr. apply Rfin_struct.
  eapply RFfin_ex; [apply R_hdr; assumption|]. apply RFfin_last.
  apply (Rfin_slice rfc_DLRRReport enc_dlrr v_dlrr (fun r => D_dlrr r = true)).
  - intros r Hr. split; [apply R_dlrr_report, Hr|]. destruct r as [[a b] c]. unfold enc_dlrr. intros E.
    apply (f_equal (@List.length byte)) in E. rewrite !app_length, !be_length in E. discriminate E.
  - apply Forall_forall. intros r Hr. rewrite forallb_forall in H. apply H, Hr.
Qed.

(* 4.6: the four fields kept in the type-specific octet are not read from the body *)
Lemma read_ss fs : fields_fit ss_widths fs = true ->
  Rfin rfc_SS (hb bt ts l ++ enc_fields ss_widths fs) (VStruct (v_hdr bt ts l :: VU 0 :: VU 0 :: VU 0 :: VU 0 :: map VU fs)).
Proof.
  intros H. pose proof (fields_fit_length _ _ H) as HL. destruct_list fs HL.
  cbn [fields_fit ss_widths] in H. andb_split H.
  unfold rfc_SS, F_hdr. cbn [map enc_fields ss_widths]. apply Rfin_struct.
  eapply RFfin_ex; [apply R_hdr; assumption|]. repeat R_step.
Qed.

(* 4.7: the reserved octet r is skipped whatever it holds *)
Lemma read_voip r fs : fields_fit voip_widths fs = true ->
  Rfin rfc_VoIP (hb bt ts l ++ enc_fields (firstn 18 voip_widths) (firstn 18 fs) ++ [r] ++ enc_fields (skipn 18 voip_widths) (skipn 18 fs))
       (VStruct (v_hdr bt ts l :: map VU (firstn 18 fs) ++ [VU 0] ++ map VU (skipn 18 fs))).
Proof.
  intros H. pose proof (fields_fit_length _ _ H) as HL. destruct_list fs HL.
  cbn [fields_fit voip_widths] in H. andb_split H.
  unfold rfc_VoIP, F_hdr. cbn [map enc_fields voip_widths firstn skipn app]. rewrite <- !app_assoc. cbn [app].
  match goal with |- context [r :: ?x] => change (r :: x) with ([r] ++ x) end.
  apply Rfin_struct. eapply RFfin_ex; [apply R_hdr; assumption|]. repeat R_step.
Qed.
End Reads2.

(* ------------------------------------------------------------------------------------------------ *)
(* unpackBlockHeader: the type-specific octet is spread over the omitted fields                       *)
(* ------------------------------------------------------------------------------------------------ *)
Definition ss_chk (x : N) : bool :=
  ((if N.land x 128 =? 0 then 0 else 1) =? x / 8 / 16) && ((if N.land x 64 =? 0 then 0 else 1) =? (x / 8 / 8) mod 2)
  && ((if N.land x 32 =? 0 then 0 else 1) =? (x / 8 / 4) mod 2) && (N.land x 24 / 8 =? (x / 8) mod 4).
Lemma ss_chk_all : forallb ss_chk (map N.of_nat (seq 0 256)) = true.
Proof. vm_compute. reflexivity. Qed.
Lemma ss_chk_ok x : x < 256 -> ss_chk x = true.
Proof.
  intros H. pose proof ss_chk_all as A. rewrite forallb_forall in A. apply A.
  rewrite <- (N2Nat.id x). apply in_map. apply in_seq. lia.
Qed.

Lemma ss_bits (l d j : bool) toh ts : ts < 256 -> toh < 4 ->
  ts / 8 = (if l then 16 else 0) + (if d then 8 else 0) + (if j then 4 else 0) + toh ->
  (if N.land ts 128 =? 0 then 0 else 1) = (if l then 1 else 0) /\
  (if N.land ts 64 =? 0 then 0 else 1) = (if d then 1 else 0) /\
  (if N.land ts 32 =? 0 then 0 else 1) = (if j then 1 else 0) /\
  N.land ts 24 / 8 = toh.
Proof.
  intros Hts Htoh E. pose proof (ss_chk_ok ts Hts) as C. unfold ss_chk in C.
  apply andb_true_iff in C as [C C3]. apply andb_true_iff in C as [C C2]. apply andb_true_iff in C as [C0 C1].
  apply N.eqb_eq in C0, C1, C2, C3. rewrite C0, C1, C2, C3, E. clear C0 C1 C2 C3 E.
  destruct l, d, j; repeat split; lia.
Qed.

Lemma unpack_rle a b c (dup : bool) ssrc bs es cs :
  unpack_block (mkXRBlock (if dup then KDupRLE else KLossRLE) (VStruct [v_hdr a b c; VU 0; VU ssrc; VU bs; VU es; VSlice (map VU cs)]))
  = mk_rle (v_hdr a b c) dup (b mod 16) ssrc bs es cs.
Proof. rewrite <- land_15. destruct dup; reflexivity. Qed.

Lemma unpack_prt a b c ssrc bs es tms :
  unpack_block (mkXRBlock KPRT (VStruct [v_hdr a b c; VU 0; VU ssrc; VU bs; VU es; VSlice (map VU tms)]))
  = mk_prt (v_hdr a b c) (b mod 16) ssrc bs es tms.
Proof. rewrite <- land_15. reflexivity. Qed.

Lemma unpack_ss a b c (l d j : bool) toh fs : List.length fs = 13%nat -> b < 256 -> toh < 4 ->
  b / 8 = (if l then 16 else 0) + (if d then 8 else 0) + (if j then 4 else 0) + toh ->
  unpack_block (mkXRBlock KSS (VStruct (v_hdr a b c :: VU 0 :: VU 0 :: VU 0 :: VU 0 :: map VU fs)))
  = mk_ss (v_hdr a b c) l d j toh fs.
Proof.
  intros HL Hb Htoh E. destruct_list fs HL. destruct (ss_bits l d j toh b Hb Htoh E) as (E1 & E2 & E3 & E4).
  unfold mk_ss, vb. rewrite <- E1, <- E2, <- E3, <- E4. reflexivity.
Qed.

(* ------------------------------------------------------------------------------------------------ *)
(* one step of the block loop of ExtendedReport.Unmarshal, for any layout that consumes its window    *)
(* ------------------------------------------------------------------------------------------------ *)
Lemma block_loop_step f bt ts body rest v : bt < 256 -> ts < 256 -> len body mod 4 = 0 -> len body <= 262140 ->
  Rfin (layout_of (kind_of_block_type bt)) (hb bt ts (len body / 4) ++ body) v ->
  xr_blocks_loop (S f) (xr_block bt ts body ++ rest)
  = let* r := xr_blocks_loop f rest in Ok (unpack_block (mkXRBlock (kind_of_block_type bt) v) :: r).
Proof.
  intros Hbt Hts Hm Hl HR. unfold xr_block. cbn [be app].
  set (l := (4 + len body) / 4 - 1).
  assert (El : l = len body / 4) by (subst l; lia).
  unfold hb in HR. cbn [app] in HR. rewrite <- El in HR. unfold Rfin in HR.
  cbn [xr_blocks_loop]. rewrite read_hdr. cbn [bind].
  destruct (hdr_get (b2n (n2b bt)) (b2n (n2b ts)) (b2n (n2b (l / 256)) * 256 + b2n (n2b l))) as (-> & _ & ->).
  rewrite !b2n_n2b.
  replace (bt mod 256) with bt by lia.
  replace ((l / 256) mod 256 * 256 + l mod 256) with l by lia.
  assert (Elen : len (n2b bt :: n2b ts :: n2b (l / 256) :: n2b l :: body ++ rest) = 4 + len body + len rest)
    by (rewrite !len_cons, len_app; lia).
  rewrite Elen.
  assert (Esz : (if 4 + len body + len rest <? (l + 1) * 4 then 4 + len body + len rest else (l + 1) * 4) = 4 + len body).
  { destruct (N.ltb_spec (4 + len body + len rest) ((l + 1) * 4)); lia. }
  rewrite Esz.
  replace (N.to_nat (4 + len body)) with (4 + List.length body)%nat by (unfold len; lia).
  cbn [Nat.add firstn skipn]. rewrite firstn_app, Nat.sub_diag, firstn_all, skipn_app, Nat.sub_diag, skipn_all. cbn [firstn skipn app].
  rewrite app_nil_r. rewrite HR. cbn [bind]. reflexivity.
Qed.

(* ------------------------------------------------------------------------------------------------ *)
(* every block kind, reserved bits arbitrary (C04)                                                    *)
(* ------------------------------------------------------------------------------------------------ *)
(* ts is an admissible type-specific octet for sb: it agrees with the RFC value on the bits that carry information
   (RLE / receipt times: low four bits = T; summary: upper five bits = L D J ToH; RRT / DLRR / VoIP: nothing) *)
Definition ts_ok (sb : sblock) (ts : N) : Prop :=
  ts < 256 /\
  match sb with
  | SRLE _ t _ _ _ _ | SPRT t _ _ _ _ => ts mod 16 = t
  | SSS _ _ _ _ _ => ts / 8 = sb_ts sb / 8
  | SUnknown _ t _ => ts = t
  | SRRT _ | SDLRR _ | SVoIP _ => True
  end.
(* the RFC body with the reserved octet of the VoIP block set to r *)
Definition body_r (r : byte) (sb : sblock) : bytes :=
  match sb with
  | SVoIP fs => enc_fields (firstn 18 voip_widths) (firstn 18 fs) ++ [r] ++ enc_fields (skipn 18 voip_widths) (skipn 18 fs)
  | _ => sb_body sb
  end.
(* what the decoder builds: the typed block, with the header octets as received *)
Definition rd_blk (ts : N) (sb : sblock) : XRBlock := blk_of (sb_bt sb) ts (len (sb_body sb) / 4) sb.

Lemma body_r_x00 sb : body_r x00 sb = sb_body sb.
Proof. destruct sb; reflexivity. Qed.
Lemma len_body_r r sb : len (body_r r sb) = len (sb_body sb).
Proof. destruct sb; try reflexivity. cbn [body_r sb_body]. rewrite !len_app. reflexivity. Qed.
Lemma ts_ok_canonical sb : D_sblock sb = true -> ts_ok sb (sb_ts sb).
Proof. intros HD. destruct (sb_ts_bits sb HD) as [H1 H2]. split; [exact H1|]. destruct sb; try tauto; reflexivity. Qed.

Ltac split_andb H :=
  match type of H with
  | (_ && _)%bool = true => let A := fresh "HA" in let B := fresh "HB" in apply andb_true_iff in H as [A B]; split_andb A; split_andb B
  | _ => idtac
  end.

Lemma bind_cons_eq (X : res (list XRBlock)) A B : A = B ->
  (let* bs := X in Ok (A :: bs)) = (let* bs := X in Ok (B :: bs)).
Proof. intros ->. reflexivity. Qed.

Lemma dlrr_body_eq rs : List.concat (map (fun '(a, b, c) => be 4 a ++ be 4 b ++ be 4 c) rs) = List.concat (map enc_dlrr rs).
Proof. reflexivity. Qed.
Lemma dlrr_D_eq rs : forallb (fun '(a, b, c) => fits 32 a && fits 32 b && fits 32 c) rs = forallb D_dlrr rs.
Proof. reflexivity. Qed.

Theorem block_read_gen f sb ts r rest : D_sblock sb = true -> len (enc_sblock sb) <= 262144 -> ts_ok sb ts ->
  xr_blocks_loop (S f) (xr_block (sb_bt sb) ts (body_r r sb) ++ rest)
  = let* bs := xr_blocks_loop f rest in Ok (rd_blk ts sb :: bs).
Proof.
  intros HD Hlen [Hts Hagree].
  pose proof (sblock_aligned sb HD) as Ha. rewrite len_enc_sblock in Ha, Hlen. rewrite <- (len_body_r r) in Ha, Hlen.
  assert (Hm : len (body_r r sb) mod 4 = 0) by lia.
  assert (Hl : len (body_r r sb) <= 262140) by lia.
  assert (Hq : len (body_r r sb) / 4 < 65536) by lia.
  clear Ha Hlen. unfold rd_blk. rewrite <- (len_body_r r).
  destruct sb as [dup t ssrc bs es cs | t ssrc bs es tms | ntp | rs | l d j toh fs | fs | bt uts c].
  - (* RLE *)
    cbn [D_sblock] in HD. split_andb HD. destruct dup; cbn [sb_bt body_r sb_body blk_of] in *.
    + erewrite block_loop_step;
        [ | lia | exact Hts | exact Hm | exact Hl
          | change (layout_of (kind_of_block_type 2)) with rfc_RLE; apply read_rle; (lia || assumption)].
      apply bind_cons_eq. rewrite <- Hagree. apply (unpack_rle 2 ts _ true).
    + erewrite block_loop_step;
        [ | lia | exact Hts | exact Hm | exact Hl
          | change (layout_of (kind_of_block_type 1)) with rfc_RLE; apply read_rle; (lia || assumption)].
      apply bind_cons_eq. rewrite <- Hagree. apply (unpack_rle 1 ts _ false).
  - (* receipt times *)
    cbn [D_sblock] in HD. split_andb HD. cbn [sb_bt body_r sb_body blk_of] in *.
    erewrite block_loop_step;
      [ | lia | exact Hts | exact Hm | exact Hl
        | change (layout_of (kind_of_block_type 3)) with rfc_PRT; apply read_prt; (lia || assumption)].
    apply bind_cons_eq. rewrite <- Hagree. apply unpack_prt.
  - (* receiver reference time *)
    cbn [D_sblock] in HD. cbn [sb_bt body_r sb_body blk_of] in *.
    erewrite block_loop_step;
      [ | lia | exact Hts | exact Hm | exact Hl
        | change (layout_of (kind_of_block_type 4)) with rfc_RRT; apply read_rrt; (lia || assumption)].
    reflexivity.
  - (* DLRR *)
    cbn [D_sblock] in HD. rewrite dlrr_D_eq in HD. cbn [sb_bt body_r sb_body blk_of] in *. rewrite dlrr_body_eq in *.
    erewrite block_loop_step;
      [ | lia | exact Hts | exact Hm | exact Hl
        | change (layout_of (kind_of_block_type 5)) with rfc_DLRR; apply read_dlrr; (lia || assumption)].
    reflexivity.
  - (* statistics summary *)
    pose proof (D_ss_length _ _ _ _ _ HD) as HL.
    cbn [D_sblock] in HD. apply andb_true_iff in HD as [Htoh HF]. unfold fits in Htoh. change (2 ^ 2) with 4 in Htoh.
    cbn [sb_bt body_r sb_body blk_of] in *.
    erewrite block_loop_step;
      [ | lia | exact Hts | exact Hm | exact Hl
        | change (layout_of (kind_of_block_type 6)) with rfc_SS; apply read_ss; (lia || assumption)].
    apply bind_cons_eq. apply unpack_ss; [exact HL | exact Hts | lia |].
    rewrite Hagree. cbn [sb_ts]. destruct l, d, j; lia.
  - (* VoIP metrics *)
    cbn [D_sblock] in HD. cbn [sb_bt body_r blk_of] in *.
    erewrite block_loop_step;
      [ | lia | exact Hts | exact Hm | exact Hl
        | change (layout_of (kind_of_block_type 7)) with rfc_VoIP; apply read_voip; (lia || assumption)].
    reflexivity.
  - (* unknown type *)
    cbn [ts_ok] in Hagree. subst uts. cbn [sb_bt body_r sb_body blk_of] in *.
    exact (unknown_block_read f bt ts c rest HD Hl).
Qed.

Lemma rd_blk_abs ts sb : D_sblock sb = true -> abs_block (rd_blk ts sb) = sb.
Proof. intros HD. apply abs_blk_of, HD. Qed.
Lemma rd_blk_wf ts sb : D_sblock sb = true -> wf_block (rd_blk ts sb).
Proof. intros HD. exists (sb_bt sb), ts, (len (sb_body sb) / 4), sb. auto. Qed.

(* the canonical RFC encoding (reserved bits zero), any kind *)
Theorem block_read f sb rest : D_sblock sb = true -> len (enc_sblock sb) <= 262144 ->
  xr_blocks_loop (S f) (enc_sblock sb ++ rest)
  = let* bs := xr_blocks_loop f rest in Ok (rd_blk (sb_ts sb) sb :: bs).
Proof.
  intros HD Hlen. pose proof (block_read_gen f sb (sb_ts sb) x00 rest HD Hlen (ts_ok_canonical sb HD)) as H.
  rewrite body_r_x00 in H. rewrite enc_sblock_parts. exact H.
Qed.

(* the statement of the task, for the seven known kinds: b = blk_of (block type) (type-specific octet) (length field) sb *)
Theorem known_block_read f sb rest : D_sblock sb = true -> len (enc_sblock sb) <= 262144 -> is_unknown sb = false ->
  let b := blk_of (sb_bt sb) (sb_ts sb) (len (sb_body sb) / 4) sb in
  abs_block b = sb /\ wf_block b /\
  xr_blocks_loop (S f) (enc_sblock sb ++ rest) = let* r := xr_blocks_loop f rest in Ok (b :: r).
Proof.
  intros HD Hlen _. cbv zeta. split; [apply abs_blk_of, HD|]. split; [apply (rd_blk_wf (sb_ts sb) sb HD)|].
  apply block_read; assumption.
Qed.

(* a single block alone in the buffer: decodes to the typed block, which re-encodes to the canonical octets *)
Theorem block_roundtrip_gen f sb ts r room : D_sblock sb = true -> len (enc_sblock sb) <= 262144 -> ts_ok sb ts ->
  len (enc_sblock sb) <= room ->
  exists b, xr_blocks_loop (S (S f)) (xr_block (sb_bt sb) ts (body_r r sb)) = Ok [b]
            /\ abs_block b = sb
            /\ abs_block (setup_block b) = sb
            /\ write (layout_of (xb_kind (setup_block b))) (xb_val (setup_block b)) room
               = Ok (enc_sblock sb, room - len (enc_sblock sb)).
Proof.
  intros HD Hlen Hts Hr. exists (rd_blk ts sb). split; [|split; [|split]].
  - rewrite <- (app_nil_r (xr_block _ _ _)). rewrite block_read_gen by assumption. reflexivity.
  - apply rd_blk_abs, HD.
  - apply blk_abs_setup, HD.
  - apply blk_write_spec; assumption.
Qed.

(* ------------------------------------------------------------------------------------------------ *)
(* whole packets                                                                                      *)
(* ------------------------------------------------------------------------------------------------ *)
(* a block on the wire with its reserved bits chosen freely: (typed block, type-specific octet, VoIP reserved octet) *)
Definition rblock := (sblock * N * byte)%type.
Definition rsb (x : rblock) : sblock := fst (fst x).
Definition rts (x : rblock) : N := snd (fst x).
Definition rrs (x : rblock) : byte := snd x.
Definition enc_res (x : rblock) : bytes := xr_block (sb_bt (rsb x)) (rts x) (body_r (rrs x) (rsb x)).
Definition rblock_ok (x : rblock) : Prop := D_sblock (rsb x) = true /\ ts_ok (rsb x) (rts x).
Definition canonical (sb : sblock) : rblock := (sb, sb_ts sb, x00).

Lemma len_enc_res x : len (enc_res x) = len (enc_sblock (rsb x)).
Proof. unfold enc_res. rewrite len_xr_block, len_body_r, len_enc_sblock. reflexivity. Qed.
Lemma enc_res_canonical sb : enc_res (canonical sb) = enc_sblock sb.
Proof. unfold enc_res, canonical, rsb, rts, rrs. cbn [fst snd]. rewrite body_r_x00, enc_sblock_parts. reflexivity. Qed.

Lemma blocks_read_gen xs :
  Forall (fun x => rblock_ok x /\ len (enc_sblock (rsb x)) <= 262144) xs ->
  forall fuel, (List.length xs < fuel)%nat ->
  xr_blocks_loop fuel (List.concat (map enc_res xs)) = Ok (map (fun x => rd_blk (rts x) (rsb x)) xs).
Proof.
  induction 1 as [|x xs ([HD Hts] & Hl) _ IH]; intros fuel Hf; (destruct fuel as [|f]; [cbn [List.length] in Hf; lia|]).
  - reflexivity.
  - cbn [map List.concat]. unfold enc_res at 1. rewrite block_read_gen by assumption.
    rewrite IH by (cbn [List.length] in Hf; lia). reflexivity.
Qed.

(* C04 / C02: a packet whose blocks carry arbitrary reserved bits decodes to the typed blocks, and the decoded packet
   marshals to the canonical RFC encoding of those blocks *)
Theorem XR_unmarshal_reserved s xs :
  fits 32 s = true -> Forall rblock_ok xs -> len (List.concat (map enc_res xs)) <= 262132 ->
  exists x, XR_unmarshal (frame false 0 207 (be 4 s ++ List.concat (map enc_res xs))) = Ok x
            /\ xr_sender x = s /\ map abs_block (xr_blocks x) = map rsb xs
            /\ Forall wf_block (xr_blocks x)
            /\ XR_marshal x = Ok (frame false 0 207 (be 4 s ++ List.concat (map enc_sblock (map rsb xs)))).
Proof.
  intros Hs Hall Hlen.
  set (body := List.concat (map enc_res xs)) in *.
  set (blocks := map (fun x => rd_blk (rts x) (rsb x)) xs).
  assert (Hwf : Forall wf_block blocks).
  { apply Forall_forall. intros b Hb. apply in_map_iff in Hb as (x & <- & Hin). rewrite Forall_forall in Hall.
    destruct (Hall x Hin) as [HD _]. apply rd_blk_wf, HD. }
  assert (Habs : map abs_block blocks = map rsb xs).
  { unfold blocks. rewrite map_map. apply map_ext_in. intros x Hin. rewrite Forall_forall in Hall.
    destruct (Hall x Hin) as [HD _]. apply rd_blk_abs, HD. }
  assert (Hbig : Forall (fun x => rblock_ok x /\ len (enc_sblock (rsb x)) <= 262144) xs
                 /\ 4 * N.of_nat (List.length xs) <= len body).
  { subst body. clear blocks Hwf Habs. induction Hall as [|x xs Hx _ IH]; [split; [constructor|cbn; lia]|].
    cbn [map List.concat] in Hlen. rewrite len_app, len_enc_res in Hlen. pose proof (len_enc_sblock (rsb x)) as H4.
    destruct IH as [IH1 IH2]; [lia|]. split; [constructor; [split; [exact Hx | lia] | exact IH1]|].
    cbn [map List.concat List.length]. rewrite len_app, len_enc_res. lia. }
  destruct Hbig as [Hbig Hcnt].
  exists (mkXR s blocks). cbn [xr_sender xr_blocks]. split; [|split; [reflexivity|split; [exact Habs|split; [exact Hwf|]]]].
  - unfold XR_unmarshal, frame. rewrite len_app, len_be. change (N.of_nat 4) with 4.
    set (l := (4 + (4 + len body)) / 4 - 1).
    rewrite Header_unmarshal_hdr by (subst l; lia). cbn [bind h_type]. unfold c_TypeExtendedReport, c_headerLength.
    change (negb (207 =? 207)) with false. cbv iota.
    assert (Eh : exists x0 x1 x2 x3, hdr false 0 207 l = [x0; x1; x2; x3]) by (unfold hdr; cbn [be app]; eauto).
    destruct Eh as (x0 & x1 & x2 & x3 & Eh). rewrite Eh.
    rewrite slice_from_ok by (rewrite len_app, !len_cons; lia). cbn [bind].
    change (N.to_nat 4) with 4%nat. cbn [app skipn].
    rewrite (read_scalar TU32 4) by (reflexivity || (rewrite len_app, len_be; lia)). cbn [bind].
    rewrite firstn_app, be_length, Nat.sub_diag, firstn_O, app_nil_r, firstn_all2 by (rewrite be_length; lia).
    rewrite skipn_app, be_length, Nat.sub_diag, skipn_all2 by (rewrite be_length; lia). cbn [skipn app].
    unfold fits in Hs. rewrite unbe_be by (change (256 ^ N.of_nat 4) with (2 ^ 32); lia).
    subst body. rewrite blocks_read_gen.
    + reflexivity.
    + exact Hbig.
    + cbn [List.length]. rewrite app_length, be_length. unfold len in Hcnt. lia.
  - rewrite XR_marshal_spec by exact Hwf. unfold enc_XR. cbn [xr_sender xr_blocks].
    rewrite <- Habs, map_map. reflexivity.
Qed.

(* C15 / C02: the RFC encoding of any sequence of typed blocks (known and unknown kinds mixed) round trips *)
Theorem XR_roundtrip s sbs :
  fits 32 s = true -> Forall (fun sb => D_sblock sb = true) sbs -> len (List.concat (map enc_sblock sbs)) <= 262132 ->
  let wire := frame false 0 207 (be 4 s ++ List.concat (map enc_sblock sbs)) in
  exists x, XR_unmarshal wire = Ok x /\ xr_sender x = s /\ map abs_block (xr_blocks x) = sbs /\ XR_marshal x = Ok wire.
Proof.
  intros Hs Hall Hlen wire.
  assert (E1 : map enc_res (map canonical sbs) = map enc_sblock sbs).
  { rewrite map_map. apply map_ext. intros sb. apply enc_res_canonical. }
  assert (E2 : map rsb (map canonical sbs) = sbs).
  { rewrite map_map. rewrite <- (map_id sbs) at 2. apply map_ext. reflexivity. }
  destruct (XR_unmarshal_reserved s (map canonical sbs) Hs) as (x & Hu & Hsnd & Habs & _ & Hm).
  - apply Forall_forall. intros x Hx. apply in_map_iff in Hx as (sb & <- & Hin). rewrite Forall_forall in Hall.
    split; [exact (Hall sb Hin) | apply ts_ok_canonical, (Hall sb Hin)].
  - rewrite E1. exact Hlen.
  - rewrite E1 in Hu. rewrite E2 in Habs, Hm. exists x. auto.
Qed.

(* the hypotheses are satisfiable with every reserved bit set: RRT with type-specific octet 255, a summary block with
   the three low bits set, a loss RLE block with the upper four bits set, a VoIP block with reserved octet 0xff *)
Definition reserved_example : list rblock :=
  [(SRRT 5, 255, x00); (SSS true false true 2 [1;2;3;4;5;6;7;8;9;10;11;12;13], 128 + 32 + 16 + 7, x00);
   (SRLE false 3 9 1 2 [7; 8], 240 + 3, x00); (SVoIP [1;2;3;4;5;6;7;8;9;10;11;12;13;14;15;16;17;18;19;20;21], 129, xff)].
Lemma reserved_example_ok : Forall rblock_ok reserved_example /\
  exists x, XR_unmarshal (frame false 0 207 (be 4 77 ++ List.concat (map enc_res reserved_example))) = Ok x
            /\ map abs_block (xr_blocks x) = map rsb reserved_example
            /\ List.concat (map enc_res reserved_example) <> List.concat (map enc_sblock (map rsb reserved_example)).
Proof.
  split.
  - repeat constructor; vm_compute; reflexivity.
  - eexists. split; [vm_compute; reflexivity|]. split; [vm_compute; reflexivity|]. vm_compute. discriminate.
Qed.

Print Assumptions read_rrt.
Print Assumptions read_rle.
Print Assumptions read_prt.
Print Assumptions read_dlrr.
Print Assumptions read_ss.
Print Assumptions read_voip.
Print Assumptions block_loop_step.
Print Assumptions block_read_gen.
Print Assumptions block_read.
Print Assumptions known_block_read.
Print Assumptions block_roundtrip_gen.
Print Assumptions XR_unmarshal_reserved.
Print Assumptions XR_roundtrip.
Print Assumptions reserved_example_ok.
