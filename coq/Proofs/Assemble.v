(* Assembly: per-type totality lemmas give totality of the dispatcher, which instantiates the
   datagram-level results of Proofs/Dgram.v. *)
From RTCP Require Import Proofs.Tactics Model.Header Model.Reports Model.Sdes Model.ByeApp Model.Feedback Model.Twcc
  Model.Ccfb Model.Remb Model.Xr Model.Packet Proofs.HeaderProofs Proofs.Total1 Proofs.Total2 Proofs.Total3 Proofs.Dgram.
Local Open Scope N_scope.

Lemma res_map_total {A B} (f : A -> B) (r : res A) : r <> Panic /\ r <> Fuel -> res_map f r <> Panic /\ res_map f r <> Fuel.
Proof. intros [H1 H2]. destruct r; cbn [res_map]; split; congruence. Qed.

Theorem decode_as_total : forall t b, decode_as t b <> Panic /\ decode_as t b <> Fuel.
Proof.
  intros t b. destruct t; cbn [decode_as]; try (apply res_map_total);
    first [ apply SR_unmarshal_total | apply RR_unmarshal_total | apply SDES_unmarshal_total | apply BYE_unmarshal_total
          | apply APP_unmarshal_total | apply NACK_unmarshal_total | apply RRR_unmarshal_total | apply TWCC_unmarshal_total
          | apply CCFB_unmarshal_total | apply PLI_unmarshal_total | apply SLI_unmarshal_total | apply REMB_unmarshal_total
          | apply FIR_unmarshal_total | apply XR_unmarshal_total | apply Raw_unmarshal_total | not_panic ].
Qed.

Theorem Unmarshal_never_panics : forall raw, Unmarshal raw <> Panic /\ Unmarshal raw <> Fuel.
Proof. exact (Unmarshal_total decode_as_total). Qed.

Theorem Compound_unmarshal_never_panics : forall raw, Compound_unmarshal raw <> Panic /\ Compound_unmarshal raw <> Fuel.
Proof. exact (Compound_unmarshal_total decode_as_total). Qed.

Theorem decode_frame_never_panics : forall f, decode_frame f <> Panic /\ decode_frame f <> Fuel.
Proof. exact (decode_frame_total decode_as_total). Qed.
